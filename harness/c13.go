package main

import (
	"bytes"
	"context"
	"encoding/json"
	"flag"
	"fmt"
	"log"
	"os"
	"os/exec"
	"path"
	"reflect"
	"sort"
	"strconv"
	"strings"
	"sync"
	"testing/fstest"
	"time"

	"github.com/traefik/yaegi/interp"
	"github.com/traefik/yaegi/stdlib"
)

// C13: restricted mode confines scripts.
//   impl  = real yaegi (interp.New + Use(stdlib.Symbols)) running generated scripts: in this process for the
//           import matrix and the environment sequences, in a child process of this binary for the exit
//           entry points and the redirected I/O (so that a host exit is observed, not suffered, and the
//           child's real stdin/stdout/stderr/args/environment are under the parent's control)
//   Y, G  = coq/Sandbox/Model.v, evaluated by coqc on the cases files written here
//   ref   = the contract: a plain Go map + os.Expand for the environment (written independently here),
//           "importable iff not unsafe/syscall/os/exec", "recoverable panic", "the streams of Options"

func init() {
	register("c13", "C13 restricted mode: generate cases, run yaegi (in-process and in child processes), contract reference", runC13)
	register("c13-child", "internal: run one C13 script with yaegi under controlled host streams and write the observations to a file", runC13Child)
}

// ---------------------------------------------------------------- child process

type c13Spec struct {
	Src          string   `json:"src"`
	Args         []string `json:"args"`      // Options.Args
	Env          []string `json:"env"`       // Options.Env
	Stdin        string   `json:"stdin"`     // Options.Stdin
	HostArgs     []string `json:"host_args"` // os.Args of the host program (set before interp.New)
	NoFix        bool     `json:"no_fix"`    // Use an export set without fmt/fmt (fixStdlib does not run)
	Unrestricted bool     `json:"unrestricted"`
	WaitFor      string   `json:"wait_for"` // after Eval: wait (bounded) until this marker shows up on an Options stream (goroutines started by the script)
	Result       string   `json:"result"` // file the observations are written to
}

type c13Obs struct {
	OptOut        string   `json:"opt_out"`
	OptErr        string   `json:"opt_err"`
	EvalErr       string   `json:"eval_err"`
	IsPanic       bool     `json:"is_panic"`
	HostLogFlags  int      `json:"host_log_flags"`
	HostLogPrefix string   `json:"host_log_prefix"`
	HostLogWriter bool     `json:"host_log_writer_same"`
	HostEnv       []string `json:"host_env"`
	HostArgs      []string `json:"host_args"`
}

const (
	c13HostFlags  = 7
	c13HostPrefix = "HOSTPFX:"
)

func runC13Child(args []string) error {
	if len(args) < 1 {
		return fmt.Errorf("usage: c13-child spec.json")
	}
	b, err := os.ReadFile(args[0])
	if err != nil {
		return err
	}
	var sp c13Spec
	if err := json.Unmarshal(b, &sp); err != nil {
		return err
	}
	if len(sp.HostArgs) > 0 {
		os.Args = sp.HostArgs
	}
	log.SetFlags(c13HostFlags)
	log.SetPrefix(c13HostPrefix)
	hostWriter := log.Writer()
	var out, errb c13LockedBuffer
	i := interp.New(interp.Options{Stdout: &out, Stderr: &errb, Stdin: strings.NewReader(sp.Stdin), Args: sp.Args, Env: sp.Env,
		GoPath: "/nonexistent-c13", SourcecodeFilesystem: fstest.MapFS{}, Unrestricted: sp.Unrestricted})
	syms := interp.Exports(stdlib.Symbols)
	if sp.NoFix {
		syms = interp.Exports{}
		for _, k := range []string{"os/os", "log/log", "log/slog/slog", "flag/flag", "bytes/bytes", "io/io"} {
			syms[k] = stdlib.Symbols[k]
		}
	}
	if err := i.Use(syms); err != nil {
		return err
	}
	var obs c13Obs
	func() {
		defer func() {
			if r := recover(); r != nil {
				obs.EvalErr = "host-panic: " + fmt.Sprint(r)
			}
		}()
		_, err := i.Eval(sp.Src)
		if err != nil {
			obs.EvalErr = err.Error()
			_, obs.IsPanic = err.(interp.Panic)
		}
	}()
	if sp.WaitFor != "" {
		for t0 := time.Now(); time.Since(t0) < 4*time.Second; time.Sleep(5 * time.Millisecond) {
			if strings.Contains(out.String(), sp.WaitFor) || strings.Contains(errb.String(), sp.WaitFor) {
				break
			}
		}
	}
	obs.OptOut, obs.OptErr = out.String(), errb.String()
	obs.HostLogFlags, obs.HostLogPrefix, obs.HostLogWriter = log.Flags(), log.Prefix(), log.Writer() == hostWriter
	obs.HostEnv = os.Environ()
	sort.Strings(obs.HostEnv)
	obs.HostArgs = os.Args
	rb, _ := json.Marshal(obs)
	tmp := sp.Result + ".tmp"
	if err := os.WriteFile(tmp, rb, 0o644); err != nil {
		return err
	}
	return os.Rename(tmp, sp.Result)
}

// c13LockedBuffer: the script's goroutines may still write while the host reads.
type c13LockedBuffer struct {
	mu sync.Mutex
	b  bytes.Buffer
}

func (l *c13LockedBuffer) Write(p []byte) (int, error) {
	l.mu.Lock()
	defer l.mu.Unlock()
	return l.b.Write(p)
}

func (l *c13LockedBuffer) String() string {
	l.mu.Lock()
	defer l.mu.Unlock()
	return l.b.String()
}

type c13ChildRes struct {
	Obs        *c13Obs // nil: the child ended without writing its observations
	Exit       int
	RealStdout string
	RealStderr string
	TimedOut   bool
}

const (
	c13HostStdin = "HOSTIN 111\n"
	c13OptStdin  = "OPTIN 222\n"
	c13EnvKey    = "C13K"
)

func c13RunChild(dir string, n int, sp c13Spec) c13ChildRes {
	sp.Result = fmt.Sprintf("%s/res_%d.json", dir, n)
	specPath := fmt.Sprintf("%s/spec_%d.json", dir, n)
	b, _ := json.Marshal(sp)
	if err := os.WriteFile(specPath, b, 0o644); err != nil {
		return c13ChildRes{Exit: -1, RealStderr: err.Error()}
	}
	self, _ := os.Executable()
	ctx, cancel := context.WithTimeout(context.Background(), 60*time.Second)
	defer cancel()
	cmd := exec.CommandContext(ctx, self, "c13-child", specPath)
	var so, se bytes.Buffer
	cmd.Stdout, cmd.Stderr = &so, &se
	cmd.Stdin = strings.NewReader(c13HostStdin)
	cmd.Env = append(os.Environ(), c13EnvKey+"=host")
	err := cmd.Run()
	res := c13ChildRes{RealStdout: so.String(), RealStderr: se.String(), TimedOut: ctx.Err() != nil}
	if err != nil {
		res.Exit = -1
		if ee, ok := err.(*exec.ExitError); ok {
			res.Exit = ee.ExitCode()
		}
	}
	if rb, err := os.ReadFile(sp.Result); err == nil {
		var o c13Obs
		if json.Unmarshal(rb, &o) == nil {
			// yaegi's print builtin separates its operands with spaces (Go's does not): irrelevant here
			o.OptOut = strings.ReplaceAll(o.OptOut, " ", "")
			res.Obs = &o
		}
	}
	return res
}

// ---------------------------------------------------------------- exit entry points

type c13Entry struct {
	Variant         string // which arguments (the catalogue's standard ones when empty)
	Pkg, Ctor, Meth string // Ctor == "": package-level function Meth
	Imports         []string
	Call            string // statements that reach the entry point
	Region          string
	Args, HostArgs  []string
	NoFixToo        bool
}

func (e c13Entry) coq() string {
	if e.Ctor == "" {
		return fmt.Sprintf("(EFunc %s %s)", coqStr(e.Pkg), coqStr(e.Meth))
	}
	return fmt.Sprintf("(EMeth %s %s %s)", coqStr(e.Pkg), coqStr(e.Ctor), coqStr(e.Meth))
}

func (e c13Entry) name() string {
	v := ""
	if e.Variant != "" {
		v = " [" + e.Variant + "]"
	}
	if e.Ctor == "" {
		return e.Pkg + "." + e.Meth + v
	}
	return e.Pkg + "." + e.Ctor + "(...)." + e.Meth + v
}

func c13ExitCatalogue() []c13Entry {
	var l []c13Entry
	l = append(l, c13Entry{Pkg: "os", Meth: "Exit", Imports: []string{"os"}, Call: `os.Exit(3)`, NoFixToo: true})
	calls := map[string]string{"Fatal": `Fatal("bye")`, "Fatalf": `Fatalf("%s", "bye")`, "Fatalln": `Fatalln("bye")`}
	for _, m := range []string{"Fatal", "Fatalf", "Fatalln"} {
		l = append(l, c13Entry{Pkg: "log", Meth: m, Imports: []string{"log"}, Call: "log." + calls[m], NoFixToo: true})
	}
	for _, m := range []string{"Fatal", "Fatalf", "Fatalln"} {
		l = append(l, c13Entry{Pkg: "log", Ctor: "New", Meth: m, Imports: []string{"log", "bytes"},
			Call: "var b bytes.Buffer; l := log.New(&b, \"\", 0); l." + calls[m], NoFixToo: true})
	}
	for _, m := range []string{"Fatal", "Fatalf", "Fatalln"} {
		l = append(l, c13Entry{Pkg: "log", Ctor: "Default", Meth: m, Imports: []string{"log"},
			Call: "log.Default()." + calls[m], Region: "log-default-fatal", NoFixToo: m == "Fatal"})
	}
	for _, m := range []string{"Fatal", "Fatalf", "Fatalln"} {
		l = append(l, c13Entry{Pkg: "log/slog", Ctor: "NewLogLogger", Meth: m, Imports: []string{"log/slog", "io"},
			Call: "l := slog.NewLogLogger(slog.NewTextHandler(io.Discard, nil), slog.LevelInfo); l." + calls[m], Region: "slog-logger-fatal"})
	}
	l = append(l, c13Entry{Pkg: "flag", Ctor: "NewFlagSet", Meth: "Parse", Imports: []string{"flag", "io"},
		Call: `fs := flag.NewFlagSet("x", flag.ExitOnError); fs.SetOutput(io.Discard); fs.Parse([]string{"-zzz"})`, Region: "flagset-exitonerror"})
	// flag.Parse: Options.Args carries a flag the script does not define (contract: PanicOnError set over
	// Options.Args); the host program itself was started with a flag of its own.
	l = append(l, c13Entry{Pkg: "flag", Meth: "Parse", Imports: []string{"flag"}, Call: `flag.Parse()`, Region: "flag-parse-host",
		Args: []string{"prog", "-c13bad"}, HostArgs: []string{"host", "-c13hostonly"}})
	// argument dimension: an exit entry point must panic whatever it is given (exit codes including 0 and the
	// "success" looking ones, no message, nil, empty strings). Y judges a replacement by its callees, not by
	// its arguments, so these are further cases of the same entries.
	var more []c13Entry
	for _, code := range []string{"0", "1", "2", "-1", "255", "256", "c13code"} {
		more = append(more, c13Entry{Pkg: "os", Meth: "Exit", Imports: []string{"os"}, Variant: "code " + code,
			Call: "c13code := 0; _ = c13code; os.Exit(" + code + ")", NoFixToo: code == "0"})
	}
	for _, v := range [][2]string{{"Fatal", `Fatal()`}, {"Fatal", `Fatal(nil)`}, {"Fatal", `Fatal("")`}, {"Fatalf", `Fatalf("")`}, {"Fatalln", `Fatalln()`}, {"Fatal", `Fatal(0, "bye", nil)`}} {
		more = append(more, c13Entry{Pkg: "log", Meth: v[0], Imports: []string{"log"}, Variant: v[1], Call: "log." + v[1], NoFixToo: v[1] == "Fatal()"})
		more = append(more, c13Entry{Pkg: "log", Ctor: "New", Meth: v[0], Imports: []string{"log", "bytes"}, Variant: v[1],
			Call: "var b bytes.Buffer; l := log.New(&b, \"\", 0); l." + v[1]})
	}
	return append(l, more...)
}

func c13ExitScript(e c13Entry) string {
	var b strings.Builder
	b.WriteString("package main\n\nimport (\n")
	for _, im := range e.Imports {
		fmt.Fprintf(&b, "\t%q\n", im)
	}
	b.WriteString(")\n\nfunc main() {\n\tdefer func() {\n\t\tr := recover()\n\t\tif r != nil {\n\t\t\tprint(\"C13-RECOVERED\")\n\t\t} else {\n\t\t\tprint(\"C13-NOPANIC\")\n\t\t}\n\t}()\n")
	for _, st := range strings.Split(e.Call, "; ") {
		b.WriteString("\t" + st + "\n")
	}
	b.WriteString("\tprint(\"C13-RETURNED\")\n}\n")
	return b.String()
}

func c13ExitOutcome(r c13ChildRes) string {
	switch {
	case r.TimedOut:
		return "Timeout"
	case r.Obs == nil:
		return "HostExit"
	case strings.Contains(r.Obs.OptOut, "C13-RECOVERED"):
		return "Recoverable"
	case strings.Contains(r.Obs.OptOut, "C13-RETURNED"):
		return "NoStop"
	case r.Obs.IsPanic:
		return "Recoverable" // a panic that the deferred recover did not see would be a different defect
	default:
		return "Undefined"
	}
}

// ---------------------------------------------------------------- redirected I/O

type c13IO struct {
	Pkg, Name string // Pkg == "": print builtin
	Imports   []string
	Body      string // statements; %M is replaced by the marker
	Region    string
	classify  func(marker string, r c13ChildRes) string
}

func (f c13IO) coq() string {
	if f.Pkg == "" {
		return fmt.Sprintf("(IOBuiltin %s)", coqStr(f.Name))
	}
	return fmt.Sprintf("(IOName %s %s)", coqStr(f.Pkg), coqStr(f.Name))
}

var (
	c13OptArgs  = []string{"prog", "-c13v", "optrest"}
	c13HostArgs = []string{"host", "hostrest"}
)

// where did the marker go
func c13MarkerSink(m string, r c13ChildRes) string {
	switch {
	case r.Obs == nil:
		return "NoSink"
	case strings.Contains(r.RealStdout, m):
		return "HostStdout"
	case strings.Contains(r.RealStderr, m):
		return "HostStderr"
	case strings.Contains(r.Obs.OptOut, m):
		return "OptStdout"
	case strings.Contains(r.Obs.OptErr, m):
		return "OptStderr"
	}
	return "NoSink"
}

func c13HostLogTouched(r c13ChildRes) bool {
	return r.Obs != nil && (r.Obs.HostLogFlags != c13HostFlags || r.Obs.HostLogPrefix != c13HostPrefix || !r.Obs.HostLogWriter)
}

func c13IOCatalogue() []c13IO {
	var l []c13IO
	marker := c13MarkerSink
	for _, n := range []string{"Print", "Printf", "Println"} {
		arg := `("%M")`
		if n == "Printf" {
			arg = `("%s", "%M")`
		}
		l = append(l, c13IO{Pkg: "fmt", Name: n, Imports: []string{"fmt"}, Body: "fmt." + n + arg, classify: marker})
	}
	scan := func(m string, r c13ChildRes) string {
		switch {
		case r.Obs == nil:
			return "NoSink"
		case strings.Contains(r.Obs.OptOut, "got:OPTIN:222"):
			return "OptStdin"
		case strings.Contains(r.Obs.OptOut, "got:HOSTIN:111"):
			return "HostStdin"
		}
		return "NoSink"
	}
	l = append(l,
		c13IO{Pkg: "fmt", Name: "Scan", Imports: []string{"fmt"}, Body: `var a string; var n int; fmt.Scan(&a, &n); print("got:", a, ":", n)`, classify: scan},
		c13IO{Pkg: "fmt", Name: "Scanf", Imports: []string{"fmt"}, Body: `var a string; var n int; fmt.Scanf("%s %d", &a, &n); print("got:", a, ":", n)`, classify: scan},
		c13IO{Pkg: "fmt", Name: "Scanln", Imports: []string{"fmt"}, Body: `var a string; var n int; fmt.Scanln(&a, &n); print("got:", a, ":", n)`, classify: scan},
		c13IO{Name: "print", Body: `print("%M")`, classify: marker},
		c13IO{Name: "println", Body: `println("%M")`, classify: marker},
	)
	for _, n := range []string{"Print", "Printf", "Println"} {
		arg := `("%M")`
		if n == "Printf" {
			arg = `("%s", "%M")`
		}
		l = append(l, c13IO{Pkg: "log", Name: n, Imports: []string{"log"}, Body: "log." + n + arg, classify: marker})
	}
	l = append(l, c13IO{Pkg: "log", Name: "Output", Imports: []string{"log"}, Body: `log.Output(1, "%M")`, classify: marker})
	for _, n := range []string{"Panic", "Panicf", "Panicln", "Fatal", "Fatalf", "Fatalln"} {
		arg := `("%M")`
		if strings.HasSuffix(n, "f") {
			arg = `("%s", "%M")`
		}
		l = append(l, c13IO{Pkg: "log", Name: n, Imports: []string{"log"}, Body: "defer func() { recover() }(); log." + n + arg, classify: marker})
	}
	// the state of the package-level logger: the script works on a private logger writing to Options.Stderr
	state := func(virtual func(m string, r c13ChildRes) bool) func(string, c13ChildRes) string {
		return func(m string, r c13ChildRes) string {
			switch {
			case r.Obs == nil:
				return "NoSink"
			case c13HostLogTouched(r) || strings.Contains(r.RealStderr, m) || strings.Contains(r.RealStderr, c13HostPrefix) || strings.Contains(r.Obs.OptOut, "state:host"):
				return "HostState"
			case virtual(m, r):
				return "OptStderr"
			}
			return "NoSink"
		}
	}
	l = append(l,
		c13IO{Pkg: "log", Name: "Flags", Imports: []string{"log"}, Body: fmt.Sprintf(`if log.Flags() == %d { print("state:host") } else if log.Flags() == log.LstdFlags { print("state:virtual") }`, c13HostFlags),
			classify: state(func(m string, r c13ChildRes) bool { return strings.Contains(r.Obs.OptOut, "state:virtual") })},
		c13IO{Pkg: "log", Name: "SetFlags", Imports: []string{"log"}, Body: `log.SetFlags(0); log.Print("%M")`,
			classify: state(func(m string, r c13ChildRes) bool { return r.Obs.OptErr == m+"\n" })},
		c13IO{Pkg: "log", Name: "Prefix", Imports: []string{"log"}, Body: fmt.Sprintf(`if log.Prefix() == %q { print("state:host") } else if log.Prefix() == "" { print("state:virtual") }`, c13HostPrefix),
			classify: state(func(m string, r c13ChildRes) bool { return strings.Contains(r.Obs.OptOut, "state:virtual") })},
		c13IO{Pkg: "log", Name: "SetPrefix", Imports: []string{"log"}, Body: `log.SetPrefix("%M:"); log.Print("x")`,
			classify: state(func(m string, r c13ChildRes) bool { return strings.Contains(r.Obs.OptErr, m+":") })},
		c13IO{Pkg: "log", Name: "SetOutput", Imports: []string{"log", "bytes"}, Body: `var b bytes.Buffer; log.SetOutput(&b); log.Print("%M"); print("buffered:", b.Len() > 0)`,
			classify: state(func(m string, r c13ChildRes) bool {
				return strings.Contains(r.Obs.OptOut, "buffered:true") && !strings.Contains(r.Obs.OptErr, m)
			})},
		c13IO{Pkg: "log", Name: "Writer", Imports: []string{"log", "io"}, Body: `io.WriteString(log.Writer(), "%M")`,
			classify: state(func(m string, r c13ChildRes) bool { return strings.Contains(r.Obs.OptErr, m) })},
	)
	l = append(l, c13IO{Pkg: "os", Name: "Args", Imports: []string{"os", "strings"}, Body: `print("args:", strings.Join(os.Args, ","))`,
		classify: func(m string, r c13ChildRes) string {
			switch {
			case r.Obs == nil:
				return "NoSink"
			case strings.Contains(r.Obs.OptOut, "args:"+strings.Join(c13OptArgs, ",")):
				return "OptArgs"
			case strings.Contains(r.Obs.OptOut, "args:"+strings.Join(c13HostArgs, ",")):
				return "HostArgs"
			}
			return "NoSink"
		}})
	l = append(l, c13IO{Pkg: "flag", Name: "CommandLine", Imports: []string{"flag"},
		Body: `defer func() { if recover() != nil { print("cl:panicked") } }(); flag.CommandLine.Parse([]string{"-c13zzz"})`,
		classify: func(m string, r c13ChildRes) string {
			switch {
			case r.Obs == nil:
				return "HostState"
			case strings.Contains(r.RealStderr, "c13zzz"):
				return "HostStderr"
			case strings.Contains(r.Obs.OptErr, "c13zzz") && strings.Contains(r.Obs.OptOut, "cl:panicked"):
				return "OptStderr"
			}
			return "NoSink"
		}})
	// environment: Options.Env has C13K=opt, the host has C13K=host
	envc := func(opt, host string) func(string, c13ChildRes) string {
		return func(m string, r c13ChildRes) string {
			switch {
			case r.Obs == nil:
				return "NoSink"
			case strings.Contains(r.Obs.OptOut, host) || !c13Has(r.Obs.HostEnv, c13EnvKey+"=host") || c13HasPrefix(r.Obs.HostEnv, "C13S="):
				return "HostEnv"
			case strings.Contains(r.Obs.OptOut, opt):
				return "OptEnv"
			}
			return "NoSink"
		}
	}
	l = append(l,
		c13IO{Pkg: "os", Name: "Getenv", Imports: []string{"os"}, Body: `print("v:", os.Getenv("C13K"))`, classify: envc("v:opt", "v:host")},
		c13IO{Pkg: "os", Name: "LookupEnv", Imports: []string{"os"}, Body: `v, ok := os.LookupEnv("C13K"); print("v:", v, ok)`, classify: envc("v:opt", "v:host")},
		c13IO{Pkg: "os", Name: "Setenv", Imports: []string{"os"}, Body: `os.Setenv("C13S", "set"); print("v:", os.Getenv("C13S"))`, classify: envc("v:set", "v:host")},
		c13IO{Pkg: "os", Name: "Unsetenv", Imports: []string{"os"}, Body: `os.Unsetenv("C13K"); _, ok := os.LookupEnv("C13K"); print("v:", ok)`, classify: envc("v:false", "v:host")},
		c13IO{Pkg: "os", Name: "Clearenv", Imports: []string{"os"}, Body: `os.Clearenv(); print("v:", len(os.Environ()))`, classify: envc("v:0", "v:host")},
		c13IO{Pkg: "os", Name: "Environ", Imports: []string{"os", "strings"}, Body: `print("v:", strings.Join(os.Environ(), ","))`, classify: envc("v:C13K=opt", "C13K=host")},
		c13IO{Pkg: "os", Name: "ExpandEnv", Imports: []string{"os"}, Body: `print("v:", os.ExpandEnv("${C13K}"))`, classify: envc("v:opt", "v:host")},
	)
	// package-level functions of flag: Options.Args = prog -c13v optrest, host args = host hostrest
	flagBody := `v := flag.Bool("c13v", false, ""); flag.Parse(); print("v:", *v, " args:", strings.Join(flag.Args(), ","), " virt:", flag.CommandLine.Lookup("c13v") != nil)`
	flagc := func(opt, host string) func(string, c13ChildRes) string {
		return func(m string, r c13ChildRes) string {
			switch {
			case r.Obs == nil:
				return "HostState"
			case strings.Contains(r.Obs.OptOut, host):
				return "HostArgs"
			case strings.Contains(r.Obs.OptOut, opt):
				return "OptArgs"
			}
			return "NoSink"
		}
	}
	l = append(l,
		c13IO{Pkg: "flag", Name: "Parse", Imports: []string{"flag", "strings"}, Body: flagBody, Region: "flag-parse-host", classify: flagc("v:true", "v:false")},
		c13IO{Pkg: "flag", Name: "Args", Imports: []string{"flag", "strings"}, Body: flagBody, Region: "flag-parse-host", classify: flagc("args:optrest", "args:hostrest")},
		c13IO{Pkg: "flag", Name: "Bool", Imports: []string{"flag", "strings"}, Body: flagBody, Region: "flag-parse-host", classify: flagc("virt:true", "virt:false")},
	)
	return l
}

func c13Has(l []string, x string) bool {
	for _, y := range l {
		if y == x {
			return true
		}
	}
	return false
}

func c13HasPrefix(l []string, p string) bool {
	for _, y := range l {
		if strings.HasPrefix(y, p) {
			return true
		}
	}
	return false
}

func c13IOScript(f c13IO, marker string) string {
	var b strings.Builder
	b.WriteString("package main\n\n")
	if len(f.Imports) > 0 {
		b.WriteString("import (\n")
		for _, im := range f.Imports {
			fmt.Fprintf(&b, "\t%q\n", im)
		}
		b.WriteString(")\n\n")
	}
	b.WriteString("func main() {\n")
	for _, st := range strings.Split(strings.ReplaceAll(f.Body, "%M", marker), "; ") {
		b.WriteString("\t" + st + "\n")
	}
	b.WriteString("}\n")
	return b.String()
}

// ---------------------------------------------------------------- environment sequences

type c13Op struct {
	Kind string `json:"op"` // Getenv LookupEnv Setenv Unsetenv Clearenv Environ ExpandEnv
	K    string `json:"k,omitempty"`
	V    string `json:"v,omitempty"`
}

func (o c13Op) coq() string {
	switch o.Kind {
	case "Setenv":
		return fmt.Sprintf("(Setenv %s %s)", coqStr(o.K), coqStr(o.V))
	case "Clearenv", "Environ":
		return o.Kind
	}
	return fmt.Sprintf("(%s %s)", o.Kind, coqStr(o.K))
}

const c13Sentinel = "VERIF_C13_SENTINEL"

var (
	c13Keys    = []string{"A", "B", "", "A=B", "C_1", c13Sentinel, "HOME"}
	c13Vals    = []string{"", "1", "x y", "$A", "${B}", "a=b", "$", "${", "$$", "v-${A=B}-$C_1", "2"}
	c13ExpToks = []string{"$A", "${A}", "$B", "${B}", "${A=B}", "$C_1", "${C_1}", "$", "$$", "${", "${}", "}", "{", "$1", "${1}", "$*", "${*}", "$-",
		"text", " ", "$ ", "${ }", "${A", "$A=B", "=", "$" + c13Sentinel, "${" + c13Sentinel + "}", "$HOME", "$_", "${!}", "$?x", "$AB", "${A}B", "$$A", "$A$B", "${${A}}", "$}", "-"}
)

func c13GenEnv(r *rng) (env0 []string, ops []c13Op) {
	n0 := r.intn(7)
	for i := 0; i < n0; i++ {
		switch r.intn(8) {
		case 0:
			env0 = append(env0, r.pick(c13Keys)) // no "="
		case 1:
			env0 = append(env0, "") // empty entry
		default:
			env0 = append(env0, r.pick(c13Keys)+"="+r.pick(c13Vals))
		}
	}
	n := 1 + r.intn(40)
	for i := 0; i < n; i++ {
		switch r.intn(12) {
		case 0, 1:
			ops = append(ops, c13Op{Kind: "Getenv", K: r.pick(c13Keys)})
		case 2, 3:
			ops = append(ops, c13Op{Kind: "LookupEnv", K: r.pick(c13Keys)})
		case 4, 5, 6:
			ops = append(ops, c13Op{Kind: "Setenv", K: r.pick(c13Keys), V: r.pick(c13Vals)})
		case 7:
			ops = append(ops, c13Op{Kind: "Unsetenv", K: r.pick(c13Keys)})
		case 8:
			if r.chance(35) {
				ops = append(ops, c13Op{Kind: "Clearenv"})
			} else {
				ops = append(ops, c13Op{Kind: "Unsetenv", K: r.pick(c13Keys)})
			}
		case 9:
			ops = append(ops, c13Op{Kind: "Environ"})
		default:
			nt := 1 + r.intn(5)
			var sb strings.Builder
			for j := 0; j < nt; j++ {
				sb.WriteString(r.pick(c13ExpToks))
			}
			ops = append(ops, c13Op{Kind: "ExpandEnv", K: sb.String()})
		}
	}
	return
}

// c13EnvScript renders the sequence as one Go program; form: 0 import "os", 1 import o "os", 2 import . "os".
func c13EnvScript(ops []c13Op, form int) string {
	imp, q := `"os"`, "os."
	switch form {
	case 1:
		imp, q = `o "os"`, "o."
	case 2:
		imp, q = `. "os"`, ""
	}
	var b strings.Builder
	b.WriteString("package main\n\nimport (\n\t\"encoding/json\"\n\t\"sort\"\n\t" + imp + "\n)\n\nfunc main() {\n\tout := [][]string{}\n")
	for _, o := range ops {
		switch o.Kind {
		case "Getenv":
			fmt.Fprintf(&b, "\t{ v := %sGetenv(%s); out = append(out, []string{\"S\", v}) }\n", q, strconv.Quote(o.K))
		case "LookupEnv":
			fmt.Fprintf(&b, "\t{ v, ok := %sLookupEnv(%s); b := \"false\"; if ok { b = \"true\" }; out = append(out, []string{\"K\", v, b}) }\n", q, strconv.Quote(o.K))
		case "Setenv":
			fmt.Fprintf(&b, "\t{ err := %sSetenv(%s, %s); e := \"nil\"; if err != nil { e = err.Error() }; out = append(out, []string{\"E\", e}) }\n", q, strconv.Quote(o.K), strconv.Quote(o.V))
		case "Unsetenv":
			fmt.Fprintf(&b, "\t{ err := %sUnsetenv(%s); e := \"nil\"; if err != nil { e = err.Error() }; out = append(out, []string{\"E\", e}) }\n", q, strconv.Quote(o.K))
		case "Clearenv":
			fmt.Fprintf(&b, "\t{ %sClearenv(); out = append(out, []string{\"U\"}) }\n", q)
		case "Environ":
			fmt.Fprintf(&b, "\t{ l := %sEnviron(); sort.Strings(l); out = append(out, append([]string{\"L\"}, l...)) }\n", q)
		case "ExpandEnv":
			fmt.Fprintf(&b, "\t{ v := %sExpandEnv(%s); out = append(out, []string{\"S\", v}) }\n", q, strconv.Quote(o.K))
		}
	}
	b.WriteString("\tb, _ := json.Marshal(out)\n\tprint(string(b))\n}\n")
	return b.String()
}

// c13RefEnv is the contract written with a plain Go map: the reference for the environment functions.
func c13RefEnv(env0 []string, ops []c13Op) [][]string {
	m := map[string]string{}
	for _, e := range env0 {
		if i := strings.IndexByte(e, '='); i >= 0 {
			m[e[:i]] = e[i+1:]
		} else {
			m[e] = ""
		}
	}
	out := [][]string{}
	for _, o := range ops {
		switch o.Kind {
		case "Getenv":
			out = append(out, []string{"S", m[o.K]})
		case "LookupEnv":
			v, ok := m[o.K]
			out = append(out, []string{"K", v, strconv.FormatBool(ok)})
		case "Setenv":
			m[o.K] = o.V
			out = append(out, []string{"E", "nil"})
		case "Unsetenv":
			delete(m, o.K)
			out = append(out, []string{"E", "nil"})
		case "Clearenv":
			m = map[string]string{}
			out = append(out, []string{"U"})
		case "Environ":
			l := []string{}
			for k, v := range m {
				l = append(l, k+"="+v)
			}
			sort.Strings(l)
			out = append(out, append([]string{"L"}, l...))
		case "ExpandEnv":
			out = append(out, []string{"S", os.Expand(o.K, func(k string) string { return m[k] })})
		}
	}
	return out
}

func c13CoqOuts(outs [][]string) string {
	it := make([]string, 0, len(outs))
	for _, o := range outs {
		switch {
		case len(o) == 2 && o[0] == "S":
			it = append(it, "OStr "+coqStr(o[1]))
		case len(o) == 3 && o[0] == "K":
			it = append(it, "OLook "+coqStr(o[1])+" "+coqBool(o[2] == "true"))
		case len(o) == 2 && o[0] == "E" && o[1] == "nil":
			it = append(it, "OErrNil")
		case len(o) == 1 && o[0] == "U":
			it = append(it, "OUnit")
		case len(o) >= 1 && o[0] == "L":
			it = append(it, "OList "+coqStrList(o[1:]))
		default:
			it = append(it, "OStr "+coqStr("unexpected:"+strings.Join(o, "|")))
		}
	}
	return coqList(it)
}


func c13NewInterp(o interp.Options, used bool) (*interp.Interpreter, error) {
	o.GoPath = "/nonexistent-c13"
	o.SourcecodeFilesystem = fstest.MapFS{}
	i := interp.New(o)
	if err := i.Use(stdlib.Symbols); err != nil {
		return nil, err
	}
	if used {
		i.ImportUsed()
	}
	return i, nil
}

// c13RunEnv executes one sequence through yaegi in this process.
func c13RunEnv(env0 []string, ops []c13Op, form int) (outs [][]string, fail string) {
	defer func() {
		if r := recover(); r != nil {
			fail = "host-panic: " + fmt.Sprint(r)
		}
	}()
	var so, se bytes.Buffer
	i, err := c13NewInterp(interp.Options{Stdout: &so, Stderr: &se, Stdin: strings.NewReader(""), Args: []string{"prog"}, Env: env0}, false)
	if err != nil {
		return nil, "use: " + err.Error()
	}
	ctx, cancel := context.WithTimeout(context.Background(), 30*time.Second)
	defer cancel()
	if _, err := i.EvalWithContext(ctx, c13EnvScript(ops, form)); err != nil {
		return nil, "eval: " + firstLine(err.Error())
	}
	if err := json.Unmarshal(so.Bytes(), &outs); err != nil {
		return nil, "output: " + firstLine(so.String())
	}
	return outs, ""
}

// ---------------------------------------------------------------- import matrix

var c13Forms = []string{"FPlain", "FNamed", "FDot", "FBlank", "FImportUsed"}

// c13UseSym picks a symbol of the package to mention after the import: kind "func", "type", "value".
func c13UseSym(key string) (name, kind string) {
	syms := stdlib.Symbols[key]
	var funcs, types, vals []string
	for n, v := range syms {
		if strings.HasPrefix(n, "_") || !v.IsValid() {
			continue
		}
		switch {
		case v.Kind() == reflect.Func:
			funcs = append(funcs, n)
		case v.Kind() == reflect.Ptr && v.IsNil():
			types = append(types, n)
		case v.CanAddr(): // variables are bound through Elem() of a pointer
			vals = append(vals, n)
		}
	}
	sort.Strings(funcs)
	sort.Strings(types)
	sort.Strings(vals)
	switch {
	case len(funcs) > 0:
		return funcs[0], "func"
	case len(types) > 0:
		return types[0], "type"
	case len(vals) > 0:
		return vals[0], "value"
	}
	return "", ""
}

func c13UseStmt(qual, name, kind string) string {
	if name == "" {
		return ""
	}
	if kind == "type" {
		return "func c13use() { var x " + qual + name + "; _ = x }"
	}
	return "func c13use() { x := " + qual + name + "; _ = x }"
}

// c13Import evaluates one cell of the matrix: did the import (and a mention of one of its symbols) compile.
func c13Import(form, ipath, key string, bareName string) (ok bool, detail string) {
	defer func() {
		if r := recover(); r != nil {
			ok, detail = false, "host-panic: "+fmt.Sprint(r)
		}
	}()
	var so, se bytes.Buffer
	i, err := c13NewInterp(interp.Options{Stdout: &so, Stderr: &se, Stdin: strings.NewReader(""), Args: []string{"prog"}}, form == "FImportUsed")
	if err != nil {
		return false, "use: " + err.Error()
	}
	name, kind := "", ""
	if key != "" {
		name, kind = c13UseSym(key)
	}
	base := path.Base(ipath)
	if key != "" {
		base = path.Base(key) // Use: pkgNames[importPath] = path.Base(key)
	}
	var src string
	switch form {
	case "FPlain":
		src = fmt.Sprintf("package main\nimport %q\n%s\nfunc main() {}\n", ipath, c13UseStmt(base+".", name, kind))
	case "FNamed":
		src = fmt.Sprintf("package main\nimport c13x %q\n%s\nfunc main() {}\n", ipath, c13UseStmt("c13x.", name, kind))
	case "FDot":
		src = fmt.Sprintf("package main\nimport . %q\n%s\nfunc main() {}\n", ipath, c13UseStmt("", name, kind))
	case "FBlank":
		src = fmt.Sprintf("package main\nimport _ %q\nfunc main() {}\n", ipath)
	case "FImportUsed":
		if key == "" {
			// forbidden package: a bare mention must not resolve
			probe := map[string]string{"unsafe": "var c13p unsafe.Pointer", "syscall": "var c13p = syscall.Getpid", "os/exec": "var c13p = exec.Command"}[ipath]
			src = probe
		} else if name == "" {
			return true, "no symbol to mention" // the package is bound by construction of ImportUsed; nothing to compile
		} else {
			src = c13UseStmt(bareName+".", name, kind)
		}
	}
	if _, err := i.Eval(src); err != nil {
		return false, firstLine(err.Error())
	}
	return true, ""
}

// ---------------------------------------------------------------- main

func runC13(args []string) error {
	fs := flag.NewFlagSet("c13", flag.ExitOnError)
	out := fs.String("out", "/verif/build/C13", "output directory")
	tier := fs.String("tier", "quick", "quick|thorough")
	seed := fs.Uint64("seed", envSeed(), "seed")
	fs.Parse(args)
	if err := os.MkdirAll(*out, 0o755); err != nil {
		return err
	}
	scratch, err := os.MkdirTemp("", "vh-c13-*")
	if err != nil {
		return err
	}
	defer os.RemoveAll(scratch)
	r := newRng(*seed)
	sm := newSummary("C13")
	distinct := distinctSet{}
	nEnv := 1500
	if *tier == "thorough" {
		nEnv = 20000
	}
	id := 0
	var idMu sync.Mutex
	newID := func(input any) int {
		idMu.Lock()
		defer idMu.Unlock()
		id++
		sm.CaseIndex[fmt.Sprint(id)] = input
		return id
	}
	var mu sync.Mutex

	// ---------------------------------------------------------------- 0. Use must not write into the caller's maps
	// One interpreter is built sequentially before anything runs in parallel: if New/Use/fixStdlib modified
	// the process-wide stdlib.Symbols, the in-process streams below would share (and concurrently write) one
	// table; they are then run one at a time, and the modification itself is reported.
	workers := 0
	sigBefore := c13SymbolSig(stdlib.Symbols)
	if _, err := c13NewInterp(interp.Options{Stdout: &bytes.Buffer{}, Stderr: &bytes.Buffer{}, Stdin: strings.NewReader(""), Args: []string{"prog"}, Env: []string{"A=1"}}, true); err != nil {
		return err
	}
	if d := c13SigDiff(sigBefore, c13SymbolSig(stdlib.Symbols)); d != "" {
		workers = 1
		sm.HarnessViolations = append(sm.HarnessViolations, refMismatch{ID: 0, Region: "", Input: "interp.New + Use(stdlib.Symbols) + ImportUsed of one interpreter",
			Impl: "entries of the process-wide stdlib.Symbols were replaced: " + d, Ref: "stdlib.Symbols is only read"})
	} else {
		sm.count("use-leaves-symbols-unchanged")
	}

	// ---------------------------------------------------------------- A. keys of stdlib.Symbols at run time
	var keys []string
	for k := range stdlib.Symbols {
		keys = append(keys, k)
	}
	sort.Strings(keys)
	kid := newID(map[string]any{"kind": "keys", "count": len(keys)})
	keysCases := []string{fmt.Sprintf("(%d%%N, %s)", kid, coqStrList(keys))}
	sm.Evaluations++
	sm.ImplComparisons++
	sm.count("keys")

	// ---------------------------------------------------------------- B. import matrix
	type cell struct {
		form, ipath, key, bare string
		region               string
	}
	var cells []cell
	baseCount := map[string]int{".": 1} // binPkg[""] of interp.New
	for _, k := range keys {
		if k == "." {
			continue
		}
		baseCount[path.Base(path.Dir(k))]++
	}
	fixKey := func(k string) string {
		if i := strings.LastIndex(k, "/"); i >= 0 {
			return k[:i] + "_" + k[i+1:]
		}
		return k
	}
	for _, k := range keys {
		ip := path.Dir(k)
		if k == "." || ip == "github.com/traefik/yaegi" {
			continue
		}
		bare := path.Base(ip)
		if baseCount[bare] == 2 {
			bare = fixKey(ip)
			if strings.Contains(bare, "/") {
				bare = "" // ImportUsed renames net/http/pprof to "net/http_pprof", which no identifier can denote
			}
		} else if baseCount[bare] > 2 {
			bare = "" // the name that keeps the bare identifier depends on map order: only the import is checked
		}
		for _, f := range c13Forms {
			cells = append(cells, cell{form: f, ipath: ip, key: k, bare: bare})
		}
	}
	for _, p := range []string{"unsafe", "syscall", "os/exec"} {
		for _, f := range c13Forms {
			cells = append(cells, cell{form: f, ipath: p})
		}
	}
	type cellRes struct {
		ok     bool
		detail string
	}
	cres := make([]cellRes, len(cells))
	parallelMap(len(cells), workers, func(i int) {
		c := cells[i]
		if c.form == "FImportUsed" && c.key != "" && c.bare == "" {
			cres[i] = cellRes{true, "ambiguous bare name"}
			return
		}
		ok, d := c13Import(c.form, c.ipath, c.key, c.bare)
		cres[i] = cellRes{ok, d}
	})
	var importCases []string
	for i, c := range cells {
		refOK := c.ipath != "unsafe" && c.ipath != "syscall" && c.ipath != "os/exec"
		in := map[string]any{"kind": "import", "form": c.form, "path": c.ipath}
		cid := newID(in)
		importCases = append(importCases, fmt.Sprintf("(%d%%N, %s, %s, %s, %s)", cid, c.form, coqStr(c.ipath), coqBool(cres[i].ok), coqBool(refOK)))
		sm.Evaluations++
		sm.ImplComparisons++
		sm.RefComparisons++
		sm.count("import:" + c.form)
		if c.key == "" {
			sm.count("import:forbidden")
		}
		distinct.add("import", c.form, c.ipath)
		if cres[i].ok != refOK {
			sm.RefMismatches = append(sm.RefMismatches, refMismatch{ID: cid, Region: c.region, Input: in, Impl: map[string]any{"imported": cres[i].ok, "detail": cres[i].detail}, Ref: refOK})
		}
	}

	// ---------------------------------------------------------------- C. exit entry points (child processes)
	type exitRun struct {
		e     c13Entry
		noFix bool
	}
	var exits []exitRun
	for _, e := range c13ExitCatalogue() {
		exits = append(exits, exitRun{e, false})
		if e.NoFixToo {
			exits = append(exits, exitRun{e, true})
		}
	}
	eres := make([]c13ChildRes, len(exits))
	parallelMap(len(exits), 0, func(i int) {
		x := exits[i]
		eres[i] = c13RunChild(scratch, 1000+i, c13Spec{Src: c13ExitScript(x.e), Args: x.e.Args, HostArgs: x.e.HostArgs, NoFix: x.noFix, Stdin: c13OptStdin})
	})
	var exitCases []string
	for i, x := range exits {
		obs := c13ExitOutcome(eres[i])
		in := map[string]any{"kind": "exit", "entry": x.e.name(), "fixStdlib": !x.noFix, "script": c13ExitScript(x.e)}
		cid := newID(in)
		coqObs := obs
		if obs == "Timeout" {
			coqObs = "Undefined"
		}
		exitCases = append(exitCases, fmt.Sprintf("(%d%%N, %s, %s, %s, Recoverable)", cid, coqBool(!x.noFix), x.e.coq(), coqObs))
		sm.Evaluations++
		sm.ImplComparisons++
		sm.RefComparisons++
		sm.count("exit")
		sm.count("exit:" + obs)
		distinct.add("exit", x.e.name(), fmt.Sprint(x.noFix))
		// whatever the script did must not have reached the child's own streams (the loggers of the region cases write there)
		if obs != "Recoverable" {
			sm.RefMismatches = append(sm.RefMismatches, refMismatch{ID: cid, Region: x.e.Region, Input: in,
				Impl: map[string]any{"outcome": obs, "child_exit": eres[i].Exit, "child_stderr": firstLine(eres[i].RealStderr)}, Ref: "Recoverable"})
		} else if !x.noFix && strings.Contains(eres[i].RealStdout+eres[i].RealStderr, "bye") {
			region := x.e.Region
			if region != "" {
				region += "-leak" // the exit is a separate (repaired) defect: only the leak is attributed
			}
			sm.RefMismatches = append(sm.RefMismatches, refMismatch{ID: cid, Region: region, Input: in,
				Impl: map[string]any{"outcome": obs, "leak": "message on the host's own stdout/stderr"}, Ref: "nothing on the host's streams"})
		}
		if len(sm.Samples) < 2 {
			sm.Samples = append(sm.Samples, in)
		}
	}

	// ---------------------------------------------------------------- C'. replacement types and values: routes to the real object (child processes)
	rtypes := c13ReplTypes()
	var shapeCases, routeCases []string
	for _, t := range rtypes {
		in := map[string]any{"kind": "replacement-type", "symbol": t.qual(), "type": t.GoName, "shape": t.Type.String()}
		cid := newID(in)
		shapeCases = append(shapeCases, fmt.Sprintf("(%d%%N, %s, %s)", cid, coqStr(t.GoName), t.coqFields()))
		sm.Evaluations++
		sm.ImplComparisons++
		sm.count("replacement-type")
	}
	rctors := c13ReplCtors(rtypes)
	rruns, unknownCtors := c13RouteRuns(rctors)
	for _, u := range unknownCtors {
		sm.HarnessViolations = append(sm.HarnessViolations, refMismatch{ID: 0, Region: "", Input: "replacement constructor " + u,
			Impl: "a function of the default table returns a replacement type but the route catalogue has no call expression for it", Ref: "every replacement value a script can obtain is exercised"})
	}
	if len(rtypes) == 0 || len(rruns) == 0 {
		sm.Notes = append(sm.Notes, "no replacement type or constructor found in stdlib.Symbols: the route stream is empty")
	}
	rres := make([]c13ChildRes, len(rruns))
	parallelMap(len(rruns), 0, func(i int) {
		rres[i] = c13RunChild(scratch, 5000+i, c13Spec{Src: rruns[i].Src, Stdin: c13OptStdin})
	})
	for i, x := range rruns {
		obs := c13ExitOutcome(rres[i])
		in := map[string]any{"kind": "route", "value": path.Base(x.Ctor.Key) + "." + x.Ctor.Name + "(...)", "route": x.Route.Coq, "method": x.Meth, "script": x.Src}
		cid := newID(in)
		coqObs := obs
		if obs == "Timeout" {
			coqObs = "Undefined"
		}
		routeCases = append(routeCases, fmt.Sprintf("(%d%%N, %s, %s, %s, %s, true)", cid, coqStr(x.Ctor.T.GoName), x.Route.Coq, coqStr(x.Meth), coqObs))
		sm.Evaluations++
		sm.ImplComparisons++
		sm.RefComparisons++
		sm.count("route")
		sm.count("route:" + obs)
		distinct.add("route", x.Ctor.Name, x.Route.Coq, x.Meth)
		if obs == "HostExit" || obs == "Timeout" {
			sm.RefMismatches = append(sm.RefMismatches, refMismatch{ID: cid, Region: "", Input: in,
				Impl: map[string]any{"outcome": obs, "child_exit": rres[i].Exit, "child_stderr": firstLine(rres[i].RealStderr)}, Ref: "the host survives"})
		}
	}

	// ---------------------------------------------------------------- C''. the yaegi command: environment defaults and flags of the opt-in sets
	var cliCases []string
	if bin, err := c13BuildYaegiCmd(scratch); err != nil {
		sm.HarnessViolations = append(sm.HarnessViolations, refMismatch{ID: 0, Region: "", Input: "cmd/yaegi", Impl: err.Error(), Ref: "the command builds"})
	} else {
		cells := c13CliCells()
		type cliRes struct {
			on     bool
			detail string
		}
		cr := make([]cliRes, len(cells))
		parallelMap(len(cells), 0, func(i int) { cr[i].on, cr[i].detail = c13RunCli(bin, cells[i]) })
		for i, c := range cells {
			ref := false
			if c.FlagVal != nil {
				ref = *c.FlagVal
			} else if c.Value != nil {
				ref, _ = strconv.ParseBool(*c.Value)
			}
			in := map[string]any{"kind": "cli", "command": "yaegi run -noautoimport -e '" + c.Probe + "'", "variable": c.Var, "value": c.Value, "flag": c.Flag, "flag_value": c.FlagVal}
			cid := newID(in)
			val, fl := "None", "None"
			if c.Value != nil {
				val = "(Some " + coqStr(*c.Value) + ")"
			}
			if c.FlagVal != nil {
				fl = "(Some " + coqBool(*c.FlagVal) + ")"
			}
			cliCases = append(cliCases, fmt.Sprintf("(%d%%N, %s, %s, %s, %s)", cid, val, fl, coqBool(cr[i].on), coqBool(ref)))
			sm.Evaluations++
			sm.ImplComparisons++
			sm.RefComparisons++
			sm.count("cli")
			distinct.add("cli", c.Var, val, fl)
			if cr[i].on != ref || cr[i].detail != "" {
				sm.RefMismatches = append(sm.RefMismatches, refMismatch{ID: cid, Region: "", Input: in,
					Impl: map[string]any{"opt_in_set_loaded": cr[i].on, "detail": cr[i].detail}, Ref: map[string]any{"opt_in_set_loaded": ref}})
			}
		}
	}

	// ---------------------------------------------------------------- D. redirected I/O (child processes)
	ios := c13IOCatalogue()
	ires := make([]c13ChildRes, len(ios))
	markers := make([]string, len(ios))
	for i := range ios {
		markers[i] = fmt.Sprintf("C13MK%dX%d", *seed, i)
	}
	parallelMap(len(ios), 0, func(i int) {
		f := ios[i]
		ires[i] = c13RunChild(scratch, 2000+i, c13Spec{Src: c13IOScript(f, markers[i]), Args: c13OptArgs, HostArgs: c13HostArgs,
			Env: []string{c13EnvKey + "=opt"}, Stdin: c13OptStdin})
	})
	var ioCases []string
	for i, f := range ios {
		obs := f.classify(markers[i], ires[i])
		ref := c13GSink(f)
		in := map[string]any{"kind": "io", "function": strings.TrimPrefix(f.Pkg+"."+f.Name, "."), "script": c13IOScript(f, markers[i])}
		cid := newID(in)
		ioCases = append(ioCases, fmt.Sprintf("(%d%%N, %s, %s, %s)", cid, f.coq(), obs, ref))
		sm.Evaluations++
		sm.ImplComparisons++
		sm.RefComparisons++
		sm.count("io")
		sm.count("io:" + obs)
		distinct.add("io", f.Pkg, f.Name)
		leak := ""
		if ires[i].Obs != nil && f.Region == "" && (strings.Contains(ires[i].RealStdout+ires[i].RealStderr, markers[i]) || strings.TrimSpace(ires[i].RealStdout) != "") {
			leak = "script output on the host's own stdout/stderr"
		}
		if obs != ref || leak != "" || ires[i].Obs == nil {
			detail := map[string]any{"sink": obs, "leak": leak, "child_exit": ires[i].Exit, "child_stderr": firstLine(ires[i].RealStderr)}
			if ires[i].Obs != nil {
				detail["options_stdout"], detail["options_stderr"], detail["eval_err"] = ires[i].Obs.OptOut, ires[i].Obs.OptErr, firstLine(ires[i].Obs.EvalErr)
			}
			sm.RefMismatches = append(sm.RefMismatches, refMismatch{ID: cid, Region: f.Region, Input: in, Impl: detail, Ref: ref})
		}
		if len(sm.Samples) < 3 && f.Pkg == "log" {
			sm.Samples = append(sm.Samples, in)
		}
	}

	// ---------------------------------------------------------------- D''. output functions x statement forms (child processes)
	type formRun struct {
		f      c13OutFn
		fm     c13Form
		marker string
		src    string
	}
	var fruns []formRun
	for fi, f := range c13OutFns() {
		for mi, fm := range c13Forms2() {
			if fm.Value && f.Pkg == "" {
				continue // a builtin is not a value
			}
			mk := fmt.Sprintf("C13FM%dX%dX%d", *seed, fi, mi)
			fruns = append(fruns, formRun{f, fm, mk, c13FormScript(f, fm, mk)})
		}
	}
	fres := make([]c13ChildRes, len(fruns))
	parallelMap(len(fruns), 0, func(i int) {
		fres[i] = c13RunChild(scratch, 7000+i, c13Spec{Src: fruns[i].src, WaitFor: fruns[i].marker, Args: c13OptArgs, HostArgs: c13HostArgs, Env: []string{c13EnvKey + "=opt"}, Stdin: c13OptStdin})
	})
	var formCases []string
	for i, x := range fruns {
		obs := c13MarkerSink(x.marker, fres[i])
		ref := x.f.ref()
		in := map[string]any{"kind": "io-form", "function": strings.TrimPrefix(x.f.Pkg+"."+x.f.Name, "."), "form": x.fm.Name, "script": x.src}
		cid := newID(in)
		formCases = append(formCases, fmt.Sprintf("(%d%%N, %s, %s, %s)", cid, x.f.coq(), obs, ref))
		sm.Evaluations++
		sm.ImplComparisons++
		sm.RefComparisons++
		sm.count("io-form")
		sm.count("io-form:" + x.fm.Name)
		distinct.add("io-form", x.f.Pkg, x.f.Name, x.fm.Name)
		leak := ""
		if fres[i].Obs != nil && strings.TrimSpace(fres[i].RealStdout+fres[i].RealStderr) != "" {
			leak = "output on the host's own stdout/stderr: " + firstLine(fres[i].RealStdout+fres[i].RealStderr)
		}
		if obs != ref || leak != "" {
			detail := map[string]any{"sink": obs, "leak": leak, "child_exit": fres[i].Exit, "child_stderr": firstLine(fres[i].RealStderr)}
			if fres[i].Obs != nil {
				detail["options_stdout"], detail["options_stderr"], detail["eval_err"] = fres[i].Obs.OptOut, fres[i].Obs.OptErr, firstLine(fres[i].Obs.EvalErr)
			}
			sm.RefMismatches = append(sm.RefMismatches, refMismatch{ID: cid, Region: "", Input: in, Impl: detail, Ref: ref})
		}
	}

	// controls (not cases): Unrestricted does reach the host environment, so the observation above can tell the two apart;
	// os.TempDir / os.UserHomeDir read the host environment (outside the seven functions the property names)
	ctl := c13RunChild(scratch, 3000, c13Spec{Src: "package main\nimport \"os\"\nfunc main() { print(\"v:\", os.Getenv(\"C13K\")) }\n", Env: []string{c13EnvKey + "=opt"}, Unrestricted: true})
	if ctl.Obs != nil && strings.Contains(ctl.Obs.OptOut, "v:host") {
		sm.count("control:unrestricted-reads-host-env")
	} else {
		sm.Notes = append(sm.Notes, "control: Options.Unrestricted did not read the host environment as documented")
	}

	// ---------------------------------------------------------------- D'. several interpreters in one process (child processes)
	nIso := 40
	if *tier == "thorough" {
		nIso = 600
	}
	isoSteps := c13IsoFixed()
	ri := r.fork()
	for len(isoSteps) < nIso {
		isoSteps = append(isoSteps, c13IsoRandom(ri))
	}
	isoRes := make([]c13IsoResult, len(isoSteps))
	parallelMap(len(isoSteps), 0, func(i int) { isoRes[i] = c13RunIso(scratch, i, isoSteps[i]) })
	var isoCases []string
	for i, res := range isoRes {
		in := map[string]any{"kind": "interpreters", "steps": isoSteps[i]}
		cid := newID(in)
		var ops []string
		interps := map[int]bool{}
		for _, st := range res.Steps {
			ops = append(ops, st.coq())
			interps[st.I] = true
		}
		isoCases = append(isoCases, fmt.Sprintf("(%d%%N, %s, %s, %s, %s)", cid, coqList(ops), coqList(res.Obs), coqList(res.Ref), coqBool(res.GlobSame)))
		sm.Evaluations++
		sm.ImplComparisons++
		sm.RefComparisons++
		sm.count("iso")
		sm.Distribution["iso:evals"] += len(res.Obs)
		sm.count(fmt.Sprintf("iso:interpreters:%d", len(interps)))
		if len(interps) >= 2 {
			b, _ := json.Marshal(isoSteps[i])
			distinct.add("iso", string(b))
		}
		if len(res.Steps) < len(isoSteps[i]) || strings.Join(res.Obs, ";") != strings.Join(res.Ref, ";") || !res.GlobSame || len(res.Detail) > 0 {
			sm.RefMismatches = append(sm.RefMismatches, refMismatch{ID: cid, Region: "", Input: in,
				Impl: map[string]any{"reached": res.Obs, "symbol_tables_unchanged": res.GlobSame, "detail": res.Detail, "died": res.Died}, Ref: map[string]any{"reached": res.Ref, "symbol_tables_unchanged": true}})
		}
		if i == 2 {
			sm.Samples = append(sm.Samples, in)
		}
	}

	// ---------------------------------------------------------------- E. environment sequences (this process)
	os.Setenv(c13Sentinel, fmt.Sprintf("host-secret-%d", *seed))
	hostBefore := os.Environ()
	sort.Strings(hostBefore)
	type envCase struct {
		env0 []string
		ops  []c13Op
		form int
		outs [][]string
		ref  [][]string
		fail string
		host bool // host environment still as before
	}
	ecs := make([]envCase, nEnv)
	for i := range ecs {
		g := r.fork()
		ecs[i].env0, ecs[i].ops = c13GenEnv(g)
		ecs[i].form = g.intn(3)
	}
	parallelMap(nEnv, workers, func(i int) {
		c := &ecs[i]
		c.outs, c.fail = c13RunEnv(c.env0, c.ops, c.form)
		c.ref = c13RefEnv(c.env0, c.ops)
		now := os.Environ()
		sort.Strings(now)
		c.host = reflect.DeepEqual(now, hostBefore)
		if !c.host {
			// put the host back so that the following cases are judged on their own
			mu.Lock()
			os.Clearenv()
			for _, e := range hostBefore {
				if j := strings.IndexByte(e, '='); j > 0 {
					os.Setenv(e[:j], e[j+1:])
				}
			}
			mu.Unlock()
		}
	})
	var envCases []string
	for i := range ecs {
		c := &ecs[i]
		in := map[string]any{"kind": "env", "options_env": c.env0, "ops": c.ops, "import_form": c.form}
		cid := newID(in)
		impl := c.outs
		if c.fail != "" {
			impl = [][]string{{"S", "failed:" + c.fail}}
		}
		var opsCoq []string
		kinds := map[string]bool{}
		for _, o := range c.ops {
			opsCoq = append(opsCoq, o.coq())
			kinds[o.Kind] = true
		}
		envCases = append(envCases, fmt.Sprintf("(%d%%N, %s, %s, %s, %s)", cid, coqStrList(c.env0), coqList(opsCoq), c13CoqOuts(impl), c13CoqOuts(c.ref)))
		sm.Evaluations++
		sm.ImplComparisons++
		sm.RefComparisons++
		sm.count("env")
		sm.Distribution["env:ops"] += len(c.ops)
		for k := range kinds {
			sm.count("env:has:" + k)
		}
		if len(kinds) >= 3 && (kinds["Setenv"] || kinds["Unsetenv"] || kinds["Clearenv"]) {
			b, _ := json.Marshal(in)
			distinct.add("env", string(b))
		}
		if len(sm.Samples) < 6 && len(c.ops) > 4 && len(c.ops) < 12 {
			sm.Samples = append(sm.Samples, in)
		}
		if c.fail != "" || !reflect.DeepEqual(c.outs, c.ref) {
			sm.RefMismatches = append(sm.RefMismatches, refMismatch{ID: cid, Region: "", Input: in, Impl: impl, Ref: c.ref})
		} else if !c.host {
			sm.RefMismatches = append(sm.RefMismatches, refMismatch{ID: cid, Region: "", Input: in, Impl: "the host environment (os.Environ of the embedding process) changed", Ref: "host environment untouched"})
		}
	}
	hostAfter := os.Environ()
	sort.Strings(hostAfter)
	if !reflect.DeepEqual(hostAfter, hostBefore) {
		sm.HarnessViolations = append(sm.HarnessViolations, refMismatch{ID: 0, Region: "", Input: "all environment sequences", Impl: "host environment differs after the run", Ref: "unchanged"})
	} else {
		sm.count("host-env-unchanged")
	}

	if d := c13SigDiff(sigBefore, c13SymbolSig(stdlib.Symbols)); d != "" && workers == 0 {
		sm.HarnessViolations = append(sm.HarnessViolations, refMismatch{ID: 0, Region: "", Input: "all in-process streams",
			Impl: "entries of the process-wide stdlib.Symbols were replaced during the run: " + d, Ref: "stdlib.Symbols is only read"})
	}

	// ---------------------------------------------------------------- write cases files
	hdr := "From Verif Require Import Lib.Str Sandbox.Model Sandbox.Cases.\n"
	write := func(name, body string) error {
		sm.CasesFiles = append(sm.CasesFiles, name)
		return os.WriteFile(*out+"/"+name, []byte(hdr+body), 0o644)
	}
	chunk := func(prefix, typ, fn string, cases []string, per int) error {
		for i, k := 0, 0; i < len(cases); i, k = i+per, k+1 {
			j := i + per
			if j > len(cases) {
				j = len(cases)
			}
			body := fmt.Sprintf("Definition cases : list %s := [\n%s\n].\nDefinition MY := Eval vm_compute in %s_y cases.\nPrint MY.\nDefinition MG := Eval vm_compute in %s_g cases.\nPrint MG.\n",
				typ, strings.Join(cases[i:j], ";\n"), fn, fn)
			if err := write(fmt.Sprintf("cases_%s_%d.v", prefix, k), body); err != nil {
				return err
			}
		}
		return nil
	}
	if err := chunk("keys", "keys_case", "keys_mis", keysCases, 10); err != nil {
		return err
	}
	if err := chunk("import", "import_case", "import_mis", importCases, 2000); err != nil {
		return err
	}
	if err := chunk("exit", "exit_case", "exit_mis", exitCases, 200); err != nil {
		return err
	}
	if err := chunk("io", "io_case", "io_mis", ioCases, 200); err != nil {
		return err
	}
	if len(cliCases) > 0 {
		if err := chunk("cli", "cli_case", "cli_mis", cliCases, 400); err != nil {
			return err
		}
	}
	if err := chunk("ioform", "io_case", "io_mis", formCases, 400); err != nil {
		return err
	}
	if err := chunk("shape", "shape_case", "shape_mis", shapeCases, 200); err != nil {
		return err
	}
	if err := chunk("route", "route_case", "route_mis", routeCases, 400); err != nil {
		return err
	}
	if err := chunk("iso", "iso_case", "iso_mis", isoCases, 300); err != nil {
		return err
	}
	per := 250
	if *tier == "thorough" {
		per = 500
	}
	if err := chunk("env", "env_case", "env_mis", envCases, per); err != nil {
		return err
	}
	sm.DistinctNontriv = len(distinct)
	sm.Exhaustive = false
	sm.Rule = "import matrix: every key of stdlib.Symbols at run time plus unsafe, syscall, os/exec x 5 import forms (exhaustive); exit entry points and redirected I/O functions: the whole catalogue, each in its own child process (exhaustive over the catalogue); " +
		"replacement types (found by reflection in stdlib.Symbols) x values a script can obtain x routes to the object behind them (own methods, method value/expression, interface assertion, embedding, field selection, reflect Field/FieldByName/scan/Method/Convert) x exit-like methods, each in its own child process; " +
		"output functions (print builtins, fmt.Print*, log.Print*/Output) x statement forms (plain, defer, go, function value, go/defer of a value, closure, goroutine body, deferred closure, init, package-level initialiser, method, named function, go of a named function, defer in a loop), each cell in its own child process; " +
		"the yaegi command built from the same tree: 3 YAEGI_* variables x unset/empty/every ParseBool spelling/other words and numbers, plus explicit flags overriding the variable (exhaustive over that list); exit entry points also with exit code 0 and other codes, no/nil/empty messages; " +
		"several interpreters in one process: fixed and seeded interleavings of New / Use(stdlib|unrestricted) / script compilations over 2..3 interpreters with their own Options, each in its own child process; " +
		"environment: seeded sequences of 1..40 operations over 7 keys (empty key, key with '=', a host sentinel), values and ExpandEnv strings with '$' syntax, Options.Env with duplicates / missing '=' / empty entries, 3 import forms of os; " +
		"distinct = distinct inputs; non-trivial = an environment sequence has >= 3 operation kinds and at least one mutation (every matrix cell and catalogue entry counts)"
	sm.Notes = append(sm.Notes,
		"outside the catalogue of the property (observed, not checked): os.TempDir/os.UserHomeDir read the host's TMPDIR/HOME; os.StartProcess and testing.Main are in the default table; fmt.Fprint(os.Stdout, ...) reaches the host's stdout when Options.Stdout is not a file (documented in fixStdlib)")
	return sm.write(*out)
}

// c13GSink is the contract for one I/O function (same table as Sandbox.Model.g_sink; compared in Coq through MG).
func c13GSink(f c13IO) string {
	switch f.Pkg {
	case "":
		return "OptStdout"
	case "fmt":
		if strings.HasPrefix(f.Name, "Scan") {
			return "OptStdin"
		}
		return "OptStdout"
	case "log":
		return "OptStderr"
	case "os":
		if f.Name == "Args" {
			return "OptArgs"
		}
		return "OptEnv"
	case "flag":
		if f.Name == "CommandLine" {
			return "OptStderr"
		}
		return "OptArgs"
	}
	return "NoSink"
}
