package main

import (
	"fmt"
	"strings"
)

// C01 closure-nesting stream (part of the boundary stream, enumerated completely in EVERY run; values
// and the loop of the loop-independent variables sampled by the seed). The identity and closure
// streams create closures directly in a loop body or a function; here the closure is created INSIDE
// 1..3 nested function literals, so that the frames it resolves its variables through are the frames
// captured when those literals were evaluated.
//
//	call form   every layer is: a literal called in place; called in place with an argument; assigned to
//	            a variable then called; passed to a named function that calls it; deferred; started by
//	            `go` and joined by a channel
//	depth       1..3 layers between the named function and the inner closure
//	escape      the inner closure is returned through every layer; appended to a slice; stored in a
//	            map; stored in a struct field; stored in a variable of the named function
//	variable    the inner closure reads and writes: a variable of layer 1 / 2 / 3, the parameter of the
//	            innermost layer, a variable of the named function, its parameter, its named result, the
//	            variable of a 3-clause loop (read only), a range key, a range value, a variable declared by := in the
//	            body of a 3-clause loop / of a condition-only loop
//	observation every closure is called (a) at the start of each LATER iteration (half of the cells),
//	            (b) after the loop, (c) twice after the named function has returned; all values printed
//
// One cell = a maker function (3 iterations) and a caller; the oracle is the compiled program.

const nestDecls = `type nestBox struct {
	F func() int
	V int
}

type nestH struct {
	fs          []func() int
	fm          map[int]func() int
	bx          []nestBox
	n           int
}

func nestAll(h *nestH) []func() int {
	var out []func() int
	out = append(out, h.fs...)
	for j := 0; j < h.n; j++ {
		out = append(out, h.fm[j])
	}
	for _, b := range h.bx {
		out = append(out, b.F)
	}
	return out
}

func nestCall(f func()) { f() }

func nestCallR(f func() func() int) func() int { return f() }

`

var nestForms = []string{"inplace", "inplaceArg", "assigned", "passed", "deferred", "go"}
var nestEscapes = []string{"returned", "slice", "map", "field", "outer"}
var nestVars = []string{"lit1", "lit2", "lit3", "litParam", "encl", "param", "result", "for3", "rangeKey", "rangeVal", "bodyDefine", "condBodyDefine"}

type nestLoop struct {
	hdr, tail, lv string // header (with the body prefix), statements at the end of the body, an int expression that differs in every iteration
}

func nestLoopFor(v string, r *rng) nestLoop {
	a, b, c := 10+r.intn(9), 20+r.intn(9), 30+r.intn(9)
	switch v {
	case "for3":
		return nestLoop{hdr: "for i := 0; i < 3; i++ {", lv: "i"}
	case "rangeKey":
		return nestLoop{hdr: fmt.Sprintf("for k := range []int{%d, %d, %d} {", a, b, c), lv: "k"}
	case "rangeVal":
		return nestLoop{hdr: fmt.Sprintf("for _, e := range []int{%d, %d, %d} {", a, b, c), lv: "e"}
	case "bodyDefine":
		return nestLoop{hdr: fmt.Sprintf("for i := 0; i < 3; i++ {\n\t\tw := i * %d", a), lv: "w"}
	case "condBodyDefine":
		return nestLoop{hdr: fmt.Sprintf("n := 0\n\tfor n < 3 {\n\t\tw := n*n + %d", b), tail: "\t\tn++\n", lv: "w"}
	}
	// the variable does not depend on the loop: any loop
	switch r.intn(4) {
	case 0:
		return nestLoop{hdr: "for i := 0; i < 3; i++ {", lv: "i"}
	case 1:
		return nestLoop{hdr: "for k := range 3 {", lv: "k"}
	case 2:
		return nestLoop{hdr: fmt.Sprintf("for _, e := range []int{%d, %d, %d} {", a, b, c), lv: "e"}
	}
	return nestLoop{hdr: fmt.Sprintf("n := 0\n\tfor n < 3 {\n\t\tw := n + %d", c), tail: "\t\tn++\n", lv: "w"}
}

// nestCell builds one cell; ok is false for combinations that do not exist (a deferred or go literal
// has no result; a variable of a layer deeper than the depth; a layer parameter without arguments).
func nestCell(form string, depth int, esc, v string, inter bool, r *rng) (idCell, bool) {
	ret := esc == "returned"
	if ret && (form == "deferred" || form == "go") {
		return idCell{}, false
	}
	if esc == "outer" && form == "deferred" {
		return idCell{}, false // the variable of the maker is set when the maker returns: nothing left to collect it
	}
	switch v {
	case "lit1", "lit2", "lit3":
		if int(v[3]-'0') > depth {
			return idCell{}, false
		}
	case "litParam":
		if form != "inplaceArg" {
			return idCell{}, false
		}
	}
	id := fmt.Sprintf("nest_%s_d%d_%s_%s", form, depth, esc, v)
	l := nestLoopFor(v, r)
	c0 := 1 + r.intn(9)

	// the captured variable
	V := map[string]string{"lit1": "m1", "lit2": "m2", "lit3": "m3", "litParam": fmt.Sprintf("d%d", depth), "encl": "x", "param": "p", "result": "res"}[v]
	if V == "" {
		V = l.lv
	}
	closure := "func() int {\n\t" + V + " += 100\n\treturn " + V + "\n}"
	if v == "for3" {
		// a write to the variable of a 3-clause loop in its body is the known region loopvar-assign: read only
		closure = "func() int {\n\treturn " + V + "*3 + 100\n}"
	}
	var inner string
	switch esc {
	case "returned":
		inner = "return " + closure
	case "slice":
		inner = "h.fs = append(h.fs, " + closure + ")"
	case "map":
		inner = "h.fm[h.n] = " + closure + "\nh.n++"
	case "field":
		inner = "h.bx = append(h.bx, nestBox{F: " + closure + ", V: " + V + "})"
	case "outer":
		inner = "last = " + closure
	}
	// layers, innermost first
	body := inner
	for j := depth; j >= 1; j-- {
		src := l.lv
		if j > 1 {
			src = fmt.Sprintf("m%d", j-1)
		}
		b := fmt.Sprintf("m%d := %s*2 + %d\n_ = m%d\n", j, src, c0+j, j) + body
		if ret && j < depth {
			b += fmt.Sprintf("\nreturn g%d", j+1)
		}
		b = nestIndent(b)
		sig, res := "func()", ""
		if ret {
			sig, res = "func() func() int", fmt.Sprintf("g%d := ", j)
		}
		switch form {
		case "inplace":
			body = res + sig + " {\n" + b + "}()"
		case "inplaceArg":
			arg := l.lv + " + 1000"
			if j > 1 {
				arg = fmt.Sprintf("d%d + m%d", j-1, j-1)
			}
			psig := fmt.Sprintf("func(d%d int)", j)
			if ret {
				psig += " func() int"
			}
			body = res + psig + " {\n" + b + "}(" + arg + ")"
		case "assigned":
			body = fmt.Sprintf("c%d := %s {\n%s}\n%sc%d()", j, sig, b, res, j)
		case "passed":
			if ret {
				body = res + "nestCallR(" + sig + " {\n" + b + "})"
			} else {
				body = "nestCall(" + sig + " {\n" + b + "})"
			}
		case "deferred":
			body = "defer " + sig + " {\n" + b + "}()"
		case "go":
			body = fmt.Sprintf("ch%d := make(chan bool)\ngo %s {\n%sch%d <- true\n}()\n<-ch%d", j, sig, b, j, j)
		}
	}
	var bb strings.Builder
	bb.WriteString("func " + id + "_mk(p int, h *nestH) (res int) {\n")
	fmt.Fprintf(&bb, "\tres = %d\n\tx := %d\n\t_ = x\n", 40+c0, 50+c0)
	if esc == "outer" {
		bb.WriteString("\tvar last func() int\n")
	}
	bb.WriteString("\t" + l.hdr + "\n")
	if inter {
		bb.WriteString("\t\tfor _, f := range nestAll(h) {\n\t\t\tfmt.Println(\"prev\", f())\n\t\t}\n")
	}
	bb.WriteString(nestIndent(nestIndent(body)))
	switch esc {
	case "returned":
		bb.WriteString("\t\th.fs = append(h.fs, g1)\n")
	case "outer":
		bb.WriteString("\t\th.fs = append(h.fs, last)\n")
	}
	bb.WriteString(l.tail + "\t}\n")
	bb.WriteString("\tfor _, f := range nestAll(h) {\n\t\tfmt.Println(\"after\", f())\n\t}\n\tfmt.Println(p, x, res)\n\tp++\n\tx++\n\tres++\n\treturn\n}\n\n")
	bb.WriteString("func " + id + "() {\n\th := &nestH{fm: map[int]func() int{}}\n")
	fmt.Fprintf(&bb, "\tfmt.Println(%s_mk(%d, h))\n", id, 60+c0)
	bb.WriteString("\tfor _, f := range nestAll(h) {\n\t\tfmt.Println(f(), f())\n\t}\n\tfmt.Println(len(h.fs), h.n, len(h.bx))\n}\n")
	return idCell{id, bb.String()}, true
}

func nestIndent(code string) string {
	var b strings.Builder
	for _, l := range strings.Split(strings.TrimRight(code, "\n"), "\n") {
		b.WriteString("\t" + l + "\n")
	}
	return b.String()
}

func nestProgram(cells []idCell) string {
	return strings.Replace(idProgram(cells), idDecls, idDecls+nestDecls, 1)
}

func c1NestCases(r *rng, count func(string)) []*c1case {
	var cells []idCell
	k := 0
	for _, form := range nestForms {
		for depth := 1; depth <= 3; depth++ {
			for _, esc := range nestEscapes {
				for _, v := range nestVars {
					k++
					c, ok := nestCell(form, depth, esc, v, (k+int(r.intn(2)))%2 == 0, r.fork())
					if !ok {
						continue
					}
					one := nestProgram([]idCell{c})
					if err := c1Validate(one); err != nil {
						count("nest-cell-invalid")
						continue
					}
					if reg := c1ClassifyRegion(one); reg != "" {
						count("nest-cell-in-region:" + reg)
						continue
					}
					if reg := nestKnownCell(c.id); reg != "" {
						count("nest-cell-in-region:" + reg)
						continue
					}
					count("nest-cell")
					cells = append(cells, c)
				}
			}
		}
	}
	var out []*c1case
	const per = 20
	for i := 0; i < len(cells); i += per {
		j := i + per
		if j > len(cells) {
			j = len(cells)
		}
		out = append(out, &c1case{Stream: "boundary", Src: nestProgram(cells[i:j]), Feat: map[string]int{"nest-cell": j - i}, Size: (j - i) * 30})
	}
	return out
}

// nestKnownCell: cells that already disagree with compiled Go on the unchanged tree and whose region
// cannot be decided on the syntax alone ("" = none).
func nestKnownCell(id string) string { return "" }
