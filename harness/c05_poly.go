package main

import (
	"fmt"
	"strings"
)

// ---------------------------------------------------------------- polymorphic call sites
//
// The program stream of c05_build.go executes every interface call site once (or with one
// receiver).  This stream executes ONE call site (the body of a loop over a slice of interface
// values, or a helper func(i I) called repeatedly) consecutively with sequences of 3-5 receivers
// whose successive members differ in exactly the things a per-site shortcut could wrongly keep:
//   dyn     different dynamic types
//   inner   the same outer struct type embedding an interface (interpreted I, host fmt.Stringer,
//           host io.Writer) whose embedded field holds different dynamic types (same and different layout)
//   tpt     T, *T, T
//   vals    same type, different values
//   eptr    a struct embedding a struct pointer that is replaced between the calls
// The methods are promoted from the embedded interface, promoted from an embedded struct,
// shadowed by the outer struct, declared on value or pointer receivers.  The sites are a plain
// call, a method value, an assertion to a smaller interface and a type switch.  Every method
// prints its identity and the state of its receiver; the reference is the same program compiled by Go.

type c05PolyLeaf struct {
	Ptr    bool // methods on pointer receiver
	Layout int  // 0: a int   1: s string; a int   2: a, b int
}

type c05Poly struct {
	r       *rng
	Leaves  []c05PolyLeaf
	WSPtr   bool // the shadowing method of WS is on the pointer receiver
	next    int
	pre     strings.Builder // statements before the sites (named receivers)
	body    strings.Builder
	post    strings.Builder
	sites   strings.Builder
	nsite   int
	nvar    int
	Summary []string
}

func (g *c05Poly) val() int { g.next++; return g.next }

func (g *c05Poly) leafLit(k int) string {
	switch g.Leaves[k].Layout {
	case 1:
		return fmt.Sprintf("L%d{s: \"s%d\", a: %d}", k, g.val(), g.val())
	case 2:
		return fmt.Sprintf("L%d{a: %d, b: %d}", k, g.val(), g.val())
	}
	return fmt.Sprintf("L%d{a: %d}", k, g.val())
}

// leafI: an expression of leaf type k implementing I/J/fmt.Stringer.
func (g *c05Poly) leafI(k int, ptr bool) string {
	if g.Leaves[k].Ptr || ptr {
		return "&" + g.leafLit(k)
	}
	return g.leafLit(k)
}

func (g *c05Poly) anyLeaf() string {
	k := g.r.intn(len(g.Leaves))
	return g.leafI(k, g.r.chance(30))
}

func (g *c05Poly) decls() string {
	var b strings.Builder
	b.WriteString("type I interface {\n\tM() string\n\tN(int) string\n}\n\ntype J interface{ M() string }\n\ntype St interface{ String() string }\n\n")
	for k, l := range g.Leaves {
		fields, st := "a int", "l.a"
		switch l.Layout {
		case 1:
			fields, st = "s string\n\ta int", "l.s, l.a"
		case 2:
			fields, st = "a int\n\tb int", "l.a, l.b"
		}
		recv, mut := fmt.Sprintf("l L%d", k), ""
		if l.Ptr {
			recv, mut = fmt.Sprintf("l *L%d", k), "\tl.a += 1000\n"
		}
		fmt.Fprintf(&b, "type L%d struct {\n\t%s\n}\n\n", k, fields)
		fmt.Fprintf(&b, "func (%s) M() string {\n%s\treturn fmt.Sprint(\"L%d.M:\", %s)\n}\n", recv, mut, k, st)
		fmt.Fprintf(&b, "func (%s) N(x int) string {\n%s\treturn fmt.Sprint(\"L%d.N:\", %s, \"/\", x)\n}\n", recv, mut, k, st)
		fmt.Fprintf(&b, "func (%s) String() string {\n\treturn fmt.Sprint(\"L%d.String:\", %s)\n}\n\n", recv, k, st)
	}
	// W: everything promoted from the embedded interpreted interface
	b.WriteString("type W struct {\n\tI\n\ttag string\n}\n\n")
	// WS: M shadowed by the outer struct, N promoted
	wr := "w WS"
	if g.WSPtr {
		wr = "w *WS"
	}
	fmt.Fprintf(&b, "type WS struct {\n\tI\n\ttag string\n}\n\nfunc (%s) M() string { return \"WS.M:\" + w.tag + \"<\" + w.I.M() + \">\" }\n\n", wr)
	// H: String promoted from an embedded host interface.  The embedded interface is the LAST field and the
	// sites have the host interface as static type: elsewhere the unchanged tree already fails (known finding
	// on getConcreteValue taking the last field; "method not found" through an interpreted interface)
	b.WriteString("type H struct {\n\ttag string\n\tfmt.Stringer\n}\n\n")
	// E0: methods promoted from an embedded struct, EP: from an embedded struct pointer
	b.WriteString("type E0 struct {\n\tL0\n\ttag string\n}\n\n")
	last := len(g.Leaves) - 1
	fmt.Fprintf(&b, "type EP struct {\n\t*L%d\n\ttag string\n}\n\n", last)
	// io.Writer
	b.WriteString("type LW struct {\n\tid  int\n\tbuf []byte\n}\n\nfunc (w *LW) Write(p []byte) (int, error) {\n\tw.buf = append(w.buf, p...)\n\treturn len(p) + w.id*100, nil\n}\n\n")
	b.WriteString("type LX struct {\n\tid int\n\tn  int\n}\n\nfunc (w *LX) Write(p []byte) (int, error) {\n\tw.n += len(p)\n\treturn w.n + w.id*100, nil\n}\n\n")
	b.WriteString("type HW struct {\n\ttag string\n\tio.Writer\n}\n\n")
	return b.String()
}

func (g *c05Poly) tag() string { return fmt.Sprintf("\"t%d\"", g.val()) }

// seqI returns 3-5 expressions of static type I (statements needed in between are returned in
// between[k], executed before call k).
func (g *c05Poly) seqI(mode string) (exprs []string, between []string) {
	r := g.r
	n := 3 + r.intn(3)
	between = make([]string, n)
	wrapT := r.pick([]string{"W", "WS"})
	if g.WSPtr && wrapT == "WS" {
		wrapT = "&WS"
	}
	switch mode {
	case "dyn":
		for k := 0; k < n; k++ {
			switch r.intn(5) {
			case 0:
				exprs = append(exprs, g.anyLeaf())
			case 1:
				exprs = append(exprs, fmt.Sprintf("W{I: %s, tag: %s}", g.anyLeaf(), g.tag()))
			case 2:
				exprs = append(exprs, fmt.Sprintf("&WS{I: %s, tag: %s}", g.anyLeaf(), g.tag()))
			case 3:
				amp := ""
				if g.Leaves[0].Ptr || r.bool() {
					amp = "&"
				}
				exprs = append(exprs, fmt.Sprintf("%sE0{L0: %s, tag: %s}", amp, g.leafLit(0), g.tag()))
			default:
				amp := ""
				if r.bool() {
					amp = "&"
				}
				last := len(g.Leaves) - 1
				exprs = append(exprs, fmt.Sprintf("%sEP{L%d: &%s, tag: %s}", amp, last, g.leafLit(last), g.tag()))
			}
		}
	case "inner":
		// the same outer type, the embedded field holds different dynamic types
		nested := r.chance(25)
		for k := 0; k < n; k++ {
			in := g.anyLeaf()
			if k > 0 && r.chance(20) {
				in = fmt.Sprintf("W{I: %s, tag: %s}", g.anyLeaf(), g.tag())
			}
			if nested {
				in = fmt.Sprintf("W{I: %s, tag: %s}", in, g.tag())
			}
			exprs = append(exprs, fmt.Sprintf("%s{I: %s, tag: %s}", wrapT, in, g.tag()))
		}
	case "tpt":
		// T, *T, T, ... for a type whose value has the methods
		var build func(ptr bool) string
		switch r.intn(3) {
		case 0:
			k := 0
			for j, l := range g.Leaves {
				if !l.Ptr && r.bool() {
					k = j
				}
			}
			if g.Leaves[k].Ptr {
				build = func(ptr bool) string { return fmt.Sprintf("W{I: %s, tag: %s}", g.anyLeaf(), g.tag()) }
				break
			}
			build = func(ptr bool) string { return g.leafI(k, ptr) }
		case 1:
			same := r.bool()
			k := r.intn(len(g.Leaves))
			build = func(ptr bool) string {
				in := g.anyLeaf()
				if same {
					in = g.leafI(k, false)
				}
				amp := ""
				if ptr {
					amp = "&"
				}
				return fmt.Sprintf("%sW{I: %s, tag: %s}", amp, in, g.tag())
			}
		default:
			last := len(g.Leaves) - 1
			build = func(ptr bool) string {
				amp := ""
				if ptr {
					amp = "&"
				}
				return fmt.Sprintf("%sEP{L%d: &%s, tag: %s}", amp, last, g.leafLit(last), g.tag())
			}
		}
		for k := 0; k < n; k++ {
			exprs = append(exprs, build(k%2 == 1))
		}
	case "vals":
		k := r.intn(len(g.Leaves))
		ptr := r.bool()
		wrap := r.intn(3)
		for j := 0; j < n; j++ {
			e := g.leafI(k, ptr)
			switch wrap {
			case 1:
				e = fmt.Sprintf("%s{I: %s, tag: %s}", wrapT, e, g.tag())
			case 2:
				e = fmt.Sprintf("&W{I: %s, tag: %s}", e, g.tag())
			}
			exprs = append(exprs, e)
		}
	case "eptr":
		// one variable of a struct embedding a struct pointer (or an interface); the embedded field is replaced between the calls
		g.nvar++
		v := fmt.Sprintf("e%d", g.nvar)
		last := len(g.Leaves) - 1
		kind := r.intn(2) // (assigning to the embedded interface field through a pointer already fails on the unchanged tree)
		switch kind {
		case 0:
			fmt.Fprintf(&g.pre, "\t%s := EP{L%d: &%s, tag: %s}\n", v, last, g.leafLit(last), g.tag())
		case 1:
			fmt.Fprintf(&g.pre, "\t%s := &EP{L%d: &%s, tag: %s}\n", v, last, g.leafLit(last), g.tag())
		default:
			fmt.Fprintf(&g.pre, "\t%s := &W{I: %s, tag: %s}\n", v, g.anyLeaf(), g.tag())
		}
		for j := 0; j < n; j++ {
			exprs = append(exprs, v)
			if j > 0 {
				if kind == 2 {
					between[j] = fmt.Sprintf("%s.I = %s", v, g.anyLeaf())
				} else {
					between[j] = fmt.Sprintf("%s.L%d = &%s", v, last, g.leafLit(last))
				}
			}
		}
	}
	return exprs, between
}

var c05PolyModes = []string{"dyn", "inner", "inner", "tpt", "vals", "eptr"}

// siteI emits one site over I and its sequence.
func (g *c05Poly) siteI() {
	r := g.r
	mode := c05PolyModes[r.intn(len(c05PolyModes))]
	form := r.pick([]string{"loop", "call", "callN", "mval", "assert", "switch", "loopJ"})
	g.nsite++
	id := g.nsite
	exprs, between := g.seqI(mode)
	b := &g.body
	hasBetween := false
	for _, s := range between {
		hasBetween = hasBetween || s != ""
	}
	if (form == "loop" || form == "loopJ") && hasBetween {
		form = "call"
	}
	g.Summary = append(g.Summary, fmt.Sprintf("s%d:%s/%s/%d", id, mode, form, len(exprs)))
	switch form {
	case "loop", "loopJ":
		ty := "I"
		call := "x.M(), x.N(k)"
		if form == "loopJ" {
			ty, call = "J", "x.M()"
		}
		fmt.Fprintf(b, "\txs%d := []%s{\n", id, ty)
		for _, e := range exprs {
			fmt.Fprintf(b, "\t\t%s,\n", e)
		}
		fmt.Fprintf(b, "\t}\n\tfor k, x := range xs%d {\n\t\tfmt.Println(\"s%d\", k, %s)\n\t}\n", id, id, call)
		// the same receivers again: the state left by pointer-receiver methods is visible
		fmt.Fprintf(b, "\tfor k := len(xs%d) - 1; k >= 0; k-- {\n\t\tfmt.Println(\"s%d r\", k, xs%d[k].M())\n\t}\n", id, id, id)
		return
	case "call":
		fmt.Fprintf(&g.sites, "func site%d(i I) string { return i.M() }\n\n", id)
	case "callN":
		fmt.Fprintf(&g.sites, "func site%d(i I) string { return i.N(%d) + \"|\" + i.M() }\n\n", id, id)
	case "mval":
		fmt.Fprintf(&g.sites, "func site%d(i I) string {\n\tf := i.N\n\th := i.M\n\treturn f(%d) + \"|\" + h()\n}\n\n", id, id)
	case "assert":
		fmt.Fprintf(&g.sites, "func site%d(i I) string {\n\tj := i.(J)\n\tr := j.M()\n\tif s, ok := i.(St); ok {\n\t\tr += \"|\" + s.String()\n\t}\n\treturn r\n}\n\n", id)
	case "switch":
		// concrete clauses only (clauses naming interface types: known finding C05-typeswitch-iface); the promoted
		// method is called through i (v.N() on the bound W already fails on the unchanged tree: invalid interface value)
		fmt.Fprintf(&g.sites, "func site%d(i I) string {\n\tswitch v := i.(type) {\n\tcase W:\n\t\treturn \"W \" + v.tag + i.N(1)\n\tcase *W:\n\t\treturn \"*W \" + v.tag + i.N(2)\n\tcase L0:\n\t\treturn \"L0 \" + v.M()\n\tcase *EP:\n\t\treturn \"*EP \" + v.tag + i.M()\n\t}\n\treturn \"other \" + i.M()\n}\n\n", id)
	}
	for k, e := range exprs {
		if between[k] != "" {
			fmt.Fprintf(b, "\t%s\n", between[k])
		}
		fmt.Fprintf(b, "\tfmt.Println(\"s%d\", %d, site%d(%s))\n", id, k, id, e)
	}
}

// siteS emits a site over fmt.Stringer / St with H (embedding the host interface fmt.Stringer).
func (g *c05Poly) siteS() {
	r := g.r
	g.nsite++
	id := g.nsite
	n := 3 + r.intn(3)
	mode := r.pick([]string{"inner", "inner", "dyn", "tpt"})
	ty := "fmt.Stringer"
	var exprs []string
	inner := func() string {
		switch r.intn(4) {
		case 0:
			return fmt.Sprintf("&H{Stringer: %s, tag: %s}", g.anyLeaf(), g.tag())
		case 1:
			return fmt.Sprintf("H{Stringer: %s, tag: %s}", g.anyLeaf(), g.tag())
		}
		return g.anyLeaf()
	}
	for k := 0; k < n; k++ {
		amp := ""
		switch mode {
		case "inner":
			if r.chance(15) {
				amp = "&"
			}
		case "tpt":
			if k%2 == 1 {
				amp = "&"
			}
		case "dyn":
			if r.bool() {
				exprs = append(exprs, g.anyLeaf())
				continue
			}
			if r.bool() {
				amp = "&"
			}
		}
		exprs = append(exprs, fmt.Sprintf("%sH{Stringer: %s, tag: %s}", amp, inner(), g.tag()))
	}
	g.Summary = append(g.Summary, fmt.Sprintf("s%d:H-%s/%s/%d", id, mode, ty, n))
	b := &g.body
	if r.bool() {
		fmt.Fprintf(b, "\tys%d := []%s{\n", id, ty)
		for _, e := range exprs {
			fmt.Fprintf(b, "\t\t%s,\n", e)
		}
		fmt.Fprintf(b, "\t}\n\tfor k, x := range ys%d {\n\t\tfmt.Println(\"s%d\", k, x.String())\n\t}\n", id, id)
		return
	}
	fmt.Fprintf(&g.sites, "func site%d(s %s) string { return s.String() }\n\n", id, ty)
	for k, e := range exprs {
		fmt.Fprintf(b, "\tfmt.Println(\"s%d\", %d, site%d(%s))\n", id, k, id, e)
	}
}

// siteW emits a site over io.Writer with HW (embedding the host interface io.Writer).
func (g *c05Poly) siteW() {
	r := g.r
	g.nsite++
	id := g.nsite
	n := 3 + r.intn(3)
	target := func() string {
		g.nvar++
		v := fmt.Sprintf("w%d", g.nvar)
		switch r.intn(4) {
		case 0:
			fmt.Fprintf(&g.pre, "\t%s := &bytes.Buffer{}\n", v)
			fmt.Fprintf(&g.post, "\tfmt.Println(\"%s\", %s.String())\n", v, v)
		case 1:
			fmt.Fprintf(&g.pre, "\t%s := &strings.Builder{}\n", v)
			fmt.Fprintf(&g.post, "\tfmt.Println(\"%s\", %s.String())\n", v, v)
		case 2:
			fmt.Fprintf(&g.pre, "\t%s := &LW{id: %d}\n", v, 1+r.intn(8))
			fmt.Fprintf(&g.post, "\tfmt.Println(\"%s\", string(%s.buf))\n", v, v)
		default:
			fmt.Fprintf(&g.pre, "\t%s := &LX{id: %d}\n", v, 1+r.intn(8))
			fmt.Fprintf(&g.post, "\tfmt.Println(\"%s\", %s.n)\n", v, v)
		}
		return v
	}
	var exprs []string
	for k := 0; k < n; k++ {
		switch r.intn(6) {
		case 0:
			exprs = append(exprs, target())
		case 1:
			exprs = append(exprs, fmt.Sprintf("&HW{Writer: %s, tag: %s}", target(), g.tag()))
		case 2:
			exprs = append(exprs, fmt.Sprintf("HW{Writer: HW{Writer: %s, tag: %s}, tag: %s}", target(), g.tag(), g.tag()))
		default:
			exprs = append(exprs, fmt.Sprintf("HW{Writer: %s, tag: %s}", target(), g.tag()))
		}
	}
	g.Summary = append(g.Summary, fmt.Sprintf("s%d:HW/%d", id, n))
	b := &g.body
	fmt.Fprintf(&g.sites, "func site%d(w io.Writer, s string) string {\n\tn, err := w.Write([]byte(s))\n\treturn fmt.Sprint(n, err)\n}\n\n", id)
	for k, e := range exprs {
		fmt.Fprintf(b, "\tfmt.Println(\"s%d\", %d, site%d(%s, \"p%d.\"))\n", id, k, id, e, g.val())
	}
}

// genC05Poly renders one program of the stream.
func genC05Poly(r *rng) (src string, summary string) {
	g := &c05Poly{r: r}
	nl := 3 + r.intn(2)
	for k := 0; k < nl; k++ {
		g.Leaves = append(g.Leaves, c05PolyLeaf{Ptr: r.chance(40), Layout: r.intn(3)})
	}
	// L0 and L1: value receivers; L1 has the layout of L0 in most programs; at least one pointer-receiver leaf
	g.Leaves[0].Ptr = false
	g.Leaves[1].Ptr = r.chance(20)
	if r.chance(70) {
		g.Leaves[1].Layout = g.Leaves[0].Layout
	}
	g.Leaves[nl-1].Ptr = true
	g.WSPtr = r.chance(30)
	ns := 3 + r.intn(3)
	for k := 0; k < ns; k++ {
		switch x := r.intn(10); {
		case x < 7:
			g.siteI()
		case x < 9:
			g.siteS()
		default:
			g.siteW()
		}
	}
	var b strings.Builder
	b.WriteString("package main\n\nimport (\n\t\"bytes\"\n\t\"fmt\"\n\t\"io\"\n\t\"strings\"\n)\n\n")
	b.WriteString(g.decls())
	b.WriteString(g.sites.String())
	b.WriteString("func main() {\n\t_ = bytes.NewBuffer\n\t_ = io.EOF\n\t_ = strings.NewReader\n")
	b.WriteString(g.pre.String())
	b.WriteString(g.body.String())
	b.WriteString(g.post.String())
	b.WriteString("}\n")
	return b.String(), strings.Join(g.Summary, " ")
}
