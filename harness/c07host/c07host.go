// Package c07host holds the host-declared types of the C07 embedded-interface stream. yaegi looks
// the interface wrappers (_Shape, _Handler) up under the real package path of the interface type,
// so these types live in a package of their own, exported to scripts under exactly that path.
package c07host

import (
	"fmt"
	"reflect"
	"sync"
)

const Path = "verif/harness/c07host"

// Log is shared by the host and the script of one scenario: who ran, what came back.
type Log struct {
	mu    sync.Mutex
	lines []string
}

func (l *Log) Add(s string) {
	l.mu.Lock()
	l.lines = append(l.lines, s)
	l.mu.Unlock()
}

// Take returns the lines logged so far and empties the log.
func (l *Log) Take() []string {
	l.mu.Lock()
	defer l.mu.Unlock()
	r := l.lines
	l.lines = nil
	return r
}

// One host type per interface of the stream (value receivers), so that a script type embedding
// one of them acquires the methods of that interface only.
type base struct {
	L   *Log
	Tag string
}

type ImplWriter base
type ImplReader base
type ImplStringer base
type ImplError base
type ImplSort base
type ImplRW base
type ImplShape base
type ImplHandler base

func (h ImplWriter) Write(p []byte) (int, error) { h.L.Add("H.Write " + string(p)); return len(p), nil }
func (h ImplReader) Read(p []byte) (int, error)  { h.L.Add("H.Read"); return copy(p, "host-data"), nil }
func (h ImplStringer) String() string            { h.L.Add("H.String"); return "H:" + h.Tag }
func (h ImplError) Error() string                { h.L.Add("H.Error"); return "HE:" + h.Tag }
func (h ImplSort) Len() int                      { h.L.Add("H.Len"); return 2 }
func (h ImplSort) Less(i, j int) bool            { h.L.Add(fmt.Sprint("H.Less ", i, " ", j)); return i < j }
func (h ImplSort) Swap(i, j int)                 { h.L.Add(fmt.Sprint("H.Swap ", i, " ", j)) }
func (h ImplRW) Read(p []byte) (int, error)      { h.L.Add("H.Read"); return copy(p, "host-data"), nil }
func (h ImplRW) Write(p []byte) (int, error)     { h.L.Add("H.Write " + string(p)); return len(p), nil }
func (h ImplShape) Area() int                    { h.L.Add("H.Area"); return 7 }
func (h ImplShape) Name() string                 { h.L.Add("H.Name"); return "H:" + h.Tag }
func (h ImplHandler) Serve(r string) string      { h.L.Add("H.Serve " + r); return "H(" + r + ")" }

// Shape and Handler are host-declared interfaces; _Shape and _Handler are their yaegi wrappers
// (what `yaegi extract` generates).
type Shape interface {
	Area() int
	Name() string
}

type Handler interface{ Serve(string) string }

type _Shape struct {
	IValue interface{}
	WArea  func() int
	WName  func() string
}

func (w _Shape) Area() int    { return w.WArea() }
func (w _Shape) Name() string { return w.WName() }

type _Handler struct {
	IValue interface{}
	WServe func(string) string
}

func (w _Handler) Serve(r string) string { return w.WServe(r) }

// Types are the type entries of the Exports map.
func Types() map[string]reflect.Value {
	return map[string]reflect.Value{
		"Log":          reflect.ValueOf((*Log)(nil)),
		"ImplWriter":   reflect.ValueOf((*ImplWriter)(nil)),
		"ImplReader":   reflect.ValueOf((*ImplReader)(nil)),
		"ImplStringer": reflect.ValueOf((*ImplStringer)(nil)),
		"ImplError":    reflect.ValueOf((*ImplError)(nil)),
		"ImplSort":     reflect.ValueOf((*ImplSort)(nil)),
		"ImplRW":       reflect.ValueOf((*ImplRW)(nil)),
		"ImplShape":    reflect.ValueOf((*ImplShape)(nil)),
		"ImplHandler":  reflect.ValueOf((*ImplHandler)(nil)),
		"Shape":        reflect.ValueOf((*Shape)(nil)),
		"_Shape":       reflect.ValueOf((*_Shape)(nil)),
		"Handler":      reflect.ValueOf((*Handler)(nil)),
		"_Handler":     reflect.ValueOf((*_Handler)(nil)),
	}
}
