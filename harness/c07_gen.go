package main

import (
	"fmt"
	"hash/fnv"
	"math"
	"reflect"
	"sort"
	"strconv"
	"strings"
	"sync"
)

// C07 — function specifications, digests, probe points, seeded generators of types, signatures
// and values, Go literals for scripts, and the script-side renderer / digest source.

// ---------------------------------------------------------------- function specifications

// A generated function computes a digest d of its arguments and returns result templates
// instantiated at d. The same specification is implemented natively (reflect.MakeFunc, see
// c07env.mkFunc), as script source (funcLit) and on value trees (apply: the reference).
type c07fspec struct {
	T     *c07t
	C     int
	Outer int // digest of the enclosing function's arguments (closures)
	Res   []*cval
}

func (f *c07fspec) withOuter(d int) *c07fspec {
	c := *f
	c.Outer = d
	return &c
}

func c07norm(x int) int { return ((x % 1000) + 1000) % 1000 }

func (f *c07fspec) digest(args []*cval) int {
	d := f.C + f.Outer
	for i, a := range args {
		d += (i + 1) * c07digest(a)
	}
	return c07norm(d)
}

// apply is the reference semantics of a specification on value trees.
func (f *c07fspec) apply(args []*cval) []*cval {
	d := f.digest(args)
	out := make([]*cval, len(f.Res))
	for i, r := range f.Res {
		out[i] = c07fill(r.resolved(d))
	}
	return out
}

// c07fill computes the graph of every generated function inside v (pure, on trees).
func c07fill(v *cval) *cval {
	if v == nil || v.Bad != "" {
		return v
	}
	for _, x := range v.L {
		c07fill(x)
	}
	for i := range v.MK {
		c07fill(v.MK[i])
		c07fill(v.MV[i])
	}
	if v.Dyn != nil {
		c07fill(v.Dyn)
	}
	if v.T.K == ckFunc && !v.Nil && v.Fn != nil && v.Gr == nil {
		for k := 0; k < c07NProbes(v.T); k++ {
			args := c07probeArgs(v.T, k)
			v.Gr = append(v.Gr, c07point{Args: args, Res: v.Fn.apply(args)})
		}
	}
	return v
}

func c07errText(v *cval) string {
	switch v.EK {
	case ceNew:
		return v.S
	case ceSentinel:
		return []string{"sentinel-A", "sentinel-B"}[v.I]
	case ceE:
		return "E" + strconv.Itoa(int(v.I))
	}
	return "PE:" + v.S
}

// c07digest is the digest of a value tree; the script-side functions dN compute the same number.
func c07digest(v *cval) int {
	if v.Bad != "" {
		return 7777
	}
	t := v.T
	switch t.K {
	case ckBool:
		if v.B {
			return 1
		}
		return 0
	case ckInt:
		return int(v.I % 97)
	case ckUint:
		return int(v.U % 97)
	case ckFloat:
		return int(v.F % 89)
	case ckComplex:
		return int(v.F%89) + 2*int(v.F2%89)
	case ckString:
		d := len(v.S)
		if d > 0 {
			d += int(v.S[0]) + int(v.S[len(v.S)-1])
		}
		return d
	case ckStruct, ckArr:
		d := 0
		for i, f := range v.L {
			d += (i + 1) * c07digest(f)
		}
		return d
	case ckPtr:
		if v.Nil {
			return 0
		}
		return 1 + c07digest(v.L[0])
	case ckSlice:
		if v.Nil {
			return 0
		}
		d := 1
		for i, f := range v.L {
			d += (i + 1) * c07digest(f)
		}
		return d
	case ckMap:
		if v.Nil {
			return 0
		}
		d := 1
		for i := range v.MK {
			d += (c07digest(v.MK[i]) + 1) * (c07digest(v.MV[i]) + 3)
		}
		return d
	case ckErr:
		if v.Nil {
			return 0
		}
		return 2 + len(c07errText(v))
	case ckAny:
		if v.Nil {
			return 0
		}
		for i, ct := range c07AnyCat {
			if ct.src() == v.Dyn.T.src() {
				return i + 1 + c07digest(v.Dyn)
			}
		}
		return 7777
	case ckFunc:
		if v.Nil {
			return 0
		}
		c07fill(v)
		d := 1
		for _, p := range v.Gr {
			if p.Bad != "" {
				d += 7777
			}
			for _, r := range p.Res {
				d += c07digest(r)
			}
		}
		return d
	}
	return 0
}

// ---------------------------------------------------------------- probe points

func c07NProbes(t *c07t) int {
	if len(t.In) == 0 {
		return 1
	}
	return 2
}

var (
	c07probeMu    sync.Mutex
	c07probeCache = map[string][]*cval{}
)

// c07probeArgs returns the k-th probe point of a function type: a deterministic function of the
// type text and k. For a variadic type the last argument is the slice passed with "...".
func c07probeArgs(t *c07t, k int) []*cval {
	key := t.src() + "#" + strconv.Itoa(k)
	c07probeMu.Lock()
	if a, ok := c07probeCache[key]; ok {
		c07probeMu.Unlock()
		return a
	}
	c07probeMu.Unlock()
	h := fnv.New64a()
	h.Write([]byte(key))
	g := &c07vgen{r: newRng(h.Sum64()), probe: true}
	args := make([]*cval, len(t.In))
	for i, a := range t.In {
		args[i] = g.val(a, false)
		if t.Variadic && i == len(t.In)-1 && args[i].Nil {
			args[i].Nil = false // never "nil..." in a probe
			args[i].L = []*cval{}
		}
		c07fill(args[i])
	}
	c07probeMu.Lock()
	c07probeCache[key] = args
	c07probeMu.Unlock()
	return args
}

// ---------------------------------------------------------------- seeded generators

type c07vgen struct {
	r     *rng
	probe bool // probe points: small values, no zero bias
}

var c07strPool = []string{"", "a", "hello", "two words", "q\"uote", "back\\slash", "uni-\u00e9\u4e16", "nl\n\ttab", "\x00\xff\x7f", "0", "~[]{}<>|,;:&!()"}

func (g *c07vgen) intVal(bits int) int64 {
	min := int64(-1) << (bits - 1)
	max := -(min + 1)
	switch g.r.intn(9) {
	case 0:
		return 0
	case 1:
		return 1
	case 2:
		return -1
	case 3:
		return min
	case 4:
		return max
	case 5, 6:
		return int64(g.r.intn(200)) - 100
	}
	x := int64(g.r.next())
	if bits < 64 {
		x = x >> (64 - bits)
	}
	return x
}

func (g *c07vgen) uintVal(bits int) uint64 {
	max := ^uint64(0) >> (64 - bits)
	switch g.r.intn(7) {
	case 0:
		return 0
	case 1:
		return 1
	case 2:
		return max
	case 3, 4:
		return uint64(g.r.intn(200))
	}
	return g.r.next() & max
}

func (g *c07vgen) floatBits(bits int) uint64 {
	f64 := []float64{0, 1.5, -2.25, 1e100, math.Inf(1), math.Inf(-1), math.MaxFloat64, math.SmallestNonzeroFloat64, 0.1, math.Pi, 1 << 53, -3}
	f32 := []float32{0, 1.5, -2.25, 1e30, float32(math.Inf(1)), float32(math.Inf(-1)), math.MaxFloat32, math.SmallestNonzeroFloat32, 0.1, 3.14159, 1 << 24, -3}
	if bits == 32 {
		if g.r.chance(20) {
			b := uint32(g.r.next())
			if b == 0x80000000 {
				b = 0
			}
			if b&0x7f800000 == 0x7f800000 && b&0x7fffff != 0 {
				b = 0x7fc00000 // one canonical NaN
			}
			return uint64(b)
		}
		return uint64(math.Float32bits(f32[g.r.intn(len(f32))]))
	}
	if g.r.chance(20) {
		b := g.r.next()
		if b == 1<<63 {
			b = 0
		}
		if b&0x7ff0000000000000 == 0x7ff0000000000000 && b&0xfffffffffffff != 0 {
			b = 0x7ff8000000000001
		}
		return b
	}
	if g.r.chance(5) {
		return 0x7ff8000000000001
	}
	return math.Float64bits(f64[g.r.intn(len(f64))])
}

func (g *c07vgen) str() string {
	if g.r.chance(30) {
		n := g.r.intn(9)
		b := make([]byte, n)
		for i := range b {
			b[i] = byte(0x20 + g.r.intn(95))
		}
		return string(b)
	}
	return g.r.pick(c07strPool)
}

func c07zero(t *c07t) *cval {
	v := &cval{T: t}
	switch t.K {
	case ckStruct:
		for _, f := range t.Fields {
			v.L = append(v.L, c07zero(f))
		}
	case ckArr:
		for i := 0; i < t.N; i++ {
			v.L = append(v.L, c07zero(t.Elem))
		}
	case ckPtr, ckSlice, ckMap, ckErr, ckAny, ckFunc:
		v.Nil = true
	}
	return v
}

// val generates a value of type t; dep marks the leaves that vary with the digest d of the
// enclosing function's arguments (result templates).
func (g *c07vgen) val(t *c07t, dep bool) *cval {
	if !g.probe && !dep && g.r.chance(12) {
		return c07zero(t)
	}
	v := &cval{T: t}
	switch t.K {
	case ckBool:
		v.B = g.r.bool()
		v.DepD = dep
	case ckInt:
		v.I = g.intVal(t.Bits)
		v.DepD = dep
	case ckUint:
		v.U = g.uintVal(t.Bits)
		v.DepD = dep
	case ckFloat:
		if dep {
			// exact in float32 and float64 for every d < 1000
			v.DepD = true
			c := []float64{0.25, -1.5, 8}[g.r.intn(3)]
			if t.Bits == 32 {
				v.F = uint64(math.Float32bits(float32(c)))
			} else {
				v.F = math.Float64bits(c)
			}
		} else {
			v.F = g.floatBits(t.Bits)
		}
	case ckComplex:
		hb := t.Bits / 2
		if dep {
			v.DepD = true
			if hb == 32 {
				v.F = uint64(math.Float32bits(0.5))
			} else {
				v.F = math.Float64bits(0.5)
			}
		} else {
			v.F = g.floatBits(hb)
		}
		v.F2 = g.floatBits(hb)
	case ckString:
		v.S = g.str()
		v.DepD = dep
	case ckStruct:
		for _, f := range t.Fields {
			v.L = append(v.L, g.val(f, dep))
		}
	case ckPtr:
		if g.r.chance(20) {
			v.Nil = true
		} else {
			v.L = []*cval{g.val(t.Elem, dep)}
		}
	case ckArr:
		for i := 0; i < t.N; i++ {
			v.L = append(v.L, g.val(t.Elem, dep))
		}
	case ckSlice:
		switch {
		case g.r.chance(15):
			v.Nil = true
		case g.r.chance(15):
			v.L = []*cval{}
		default:
			n := 1 + g.r.intn(3)
			v.L = []*cval{}
			for i := 0; i < n; i++ {
				v.L = append(v.L, g.val(t.Elem, dep))
			}
		}
	case ckMap:
		switch {
		case g.r.chance(15):
			v.Nil = true
		case g.r.chance(10):
		default:
			n := 1 + g.r.intn(3)
			seen := map[string]bool{}
			for i := 0; i < n; i++ {
				k := g.val(t.Key, false) // keys do not vary with d: they must stay distinct
				if t.Key.K == ckFloat || seen[k.String()] {
					continue
				}
				seen[k.String()] = true
				v.MK = append(v.MK, k)
				v.MV = append(v.MV, g.val(t.Elem, dep))
			}
			v.sortMap()
		}
	case ckErr:
		if g.r.chance(30) {
			v.Nil = true
			break
		}
		v.EK = g.r.intn(4)
		switch v.EK {
		case ceNew:
			v.S = "err-" + g.str()
			v.DepD = dep
		case ceSentinel:
			v.I = int64(g.r.intn(2))
		case ceE:
			v.I = int64(g.r.intn(100))
			v.DepD = dep
		case cePE:
			v.S = g.str()
		}
	case ckAny:
		if g.r.chance(15) {
			v.Nil = true
			break
		}
		ct := c07AnyCat[g.r.intn(len(c07AnyCat))]
		dv := g.val(ct, dep)
		for dv.Nil { // no typed nil inside an interface{} (not expressible by a plain literal in argument position)
			if ct.K == ckErr {
				dv = &cval{T: ct, EK: ceNew, S: "err-any"}
			} else {
				dv = g.val(ct, dep)
			}
		}
		v.Dyn = dv
	case ckFunc:
		if !g.probe && g.r.chance(8) {
			v.Nil = true
			break
		}
		spec := &c07fspec{T: t, C: g.r.intn(500)}
		for _, o := range t.Out {
			spec.Res = append(spec.Res, g.val(o, true))
		}
		v.Fn = spec
	}
	return v
}

// ---- types

type c07tgen struct {
	r *rng
}

// typ draws a type of the grammar with composite depth <= depth; fn bounds the nesting of
// function types (0 = no function types).
func (g *c07tgen) typ(depth, fn int) *c07t {
	if depth <= 0 {
		return g.leaf()
	}
	switch g.r.intn(14) {
	case 0, 1, 2, 3:
		return g.leaf()
	case 4:
		return c07Structs[g.r.intn(len(c07Structs))]
	case 5:
		return c07ptr(g.typ(depth-1, fn))
	case 6:
		return c07arr(g.r.intn(4), g.typ(depth-1, 0))
	case 7, 8:
		return c07slice(g.typ(depth-1, fn))
	case 9:
		return c07map(c07Keys[g.r.intn(len(c07Keys))], g.typ(depth-1, fn))
	case 10:
		return ctErr
	case 11:
		return ctAny
	default:
		if fn <= 0 {
			return g.leaf()
		}
		return g.fnType(depth-1, fn-1, 3, 2)
	}
}

func (g *c07tgen) leaf() *c07t {
	switch g.r.intn(10) {
	case 0:
		return ctErr
	case 1:
		return ctAny
	case 2:
		return ctP
	case 3:
		return ctString
	case 4:
		return ctInt
	}
	return c07Basics[g.r.intn(len(c07Basics))]
}

func (g *c07tgen) fnType(depth, fn, maxIn, maxOut int) *c07t {
	ni := g.r.intn(maxIn + 1)
	no := g.r.intn(maxOut + 1)
	var in, out []*c07t
	for i := 0; i < ni; i++ {
		in = append(in, g.typ(depth, fn))
	}
	for i := 0; i < no; i++ {
		out = append(out, g.typ(depth, fn))
	}
	variadic := false
	if ni > 0 && g.r.chance(30) {
		variadic = true
		e := in[ni-1]
		in[ni-1] = c07slice(e)
	}
	if no > 0 && g.r.chance(35) {
		out[no-1] = ctErr
	}
	if no == 1 && g.r.chance(12) {
		out[0] = ctBool
	}
	return c07func(in, out, variadic)
}

// signature: 0..4 parameters, 0..3 results, composite depth <= 3 (a function-typed parameter
// counts one level), function types nested at most twice.
func (g *c07tgen) signature() *c07t {
	return g.fnType(2, 2, 4, 3)
}

// ---------------------------------------------------------------- Go literals (script source)

// c07reg collects the types a script needs helper functions for (renderer rN, digest dN, newN).
type c07reg struct {
	idx   map[string]int
	types []*c07t
}

func newC07reg() *c07reg { return &c07reg{idx: map[string]int{}} }

func (g *c07reg) id(t *c07t) int {
	key := t.src()
	if i, ok := g.idx[key]; ok {
		return i
	}
	i := len(g.types)
	g.idx[key] = i
	g.types = append(g.types, t)
	for _, c := range t.children() {
		g.id(c)
	}
	if t.K == ckAny {
		for _, ct := range c07AnyCat {
			g.id(ct)
		}
	}
	if t.K == ckFunc {
		// probe arguments may contain function values of further types
		for k := 0; k < c07NProbes(t); k++ {
			for _, a := range c07probeArgs(t, k) {
				g.regVal(a)
			}
		}
	}
	return i
}

// regVal registers every type occurring in a value (dynamic types, nested function templates).
func (g *c07reg) regVal(v *cval) {
	if v == nil {
		return
	}
	g.id(v.T)
	for _, x := range v.L {
		g.regVal(x)
	}
	for i := range v.MK {
		g.regVal(v.MK[i])
		g.regVal(v.MV[i])
	}
	g.regVal(v.Dyn)
	if v.Fn != nil {
		for _, r := range v.Fn.Res {
			g.regVal(r)
		}
	}
}

func c07floatLit(bits uint64, size int) string {
	if size == 32 {
		f := math.Float32frombits(uint32(bits))
		if f == float32(math.Trunc(float64(f)*8)/8) && math.Abs(float64(f)) < 1<<20 && !(f == 0 && math.Signbit(float64(f))) {
			return "float32(" + strconv.FormatFloat(float64(f), 'f', -1, 32) + ")"
		}
		return fmt.Sprintf("math.Float32frombits(0x%x)", uint32(bits))
	}
	f := math.Float64frombits(bits)
	if f == math.Trunc(f*8)/8 && math.Abs(f) < 1<<20 && !(f == 0 && math.Signbit(f)) {
		return "float64(" + strconv.FormatFloat(f, 'f', -1, 64) + ")"
	}
	return fmt.Sprintf("math.Float64frombits(0x%x)", bits)
}

// lit renders the value as a Go expression for a script. dvar is the name of the digest variable
// in scope ("" outside function templates); depth numbers nested closures.
func (g *c07reg) lit(v *cval, dvar string, depth int) string {
	t := v.T
	dep := v.DepD && dvar != ""
	switch t.K {
	case ckBool:
		if dep {
			if v.B {
				return "(" + dvar + "%2 == 0)"
			}
			return "(" + dvar + "%2 != 0)"
		}
		return strconv.FormatBool(v.B)
	case ckInt:
		s := t.Name + "(" + strconv.FormatInt(v.I, 10) + ")"
		if dep {
			s = "(" + s + " + " + t.Name + "(" + dvar + "))"
		}
		return s
	case ckUint:
		s := t.Name + "(" + strconv.FormatUint(v.U, 10) + ")"
		if dep {
			s = "(" + s + " + " + t.Name + "(" + dvar + "))"
		}
		return s
	case ckFloat:
		s := c07floatLit(v.F, t.Bits)
		if dep {
			s = "(" + s + " + " + t.Name + "(" + dvar + "))"
		}
		return s
	case ckComplex:
		hb := t.Bits / 2
		re := c07floatLit(v.F, hb)
		if dep {
			re = "(" + re + " + float" + strconv.Itoa(hb) + "(" + dvar + "))"
		}
		return "[1]" + t.Name + "{complex(" + re + ", " + c07floatLit(v.F2, hb) + ")}[0]"
	case ckString:
		s := strconv.Quote(v.S)
		if dep {
			s = "(" + s + " + strconv.Itoa(" + dvar + "))"
		}
		return s
	case ckStruct:
		var fs []string
		for i, f := range v.L {
			fs = append(fs, t.FNames[i]+": "+g.lit(f, dvar, depth))
		}
		return t.src() + "{" + strings.Join(fs, ", ") + "}"
	case ckPtr:
		if v.Nil {
			return "nil"
		}
		if t.Elem.K == ckStruct {
			return "&" + g.lit(v.L[0], dvar, depth)
		}
		return fmt.Sprintf("new%d(%s)", g.id(t.Elem), g.lit(v.L[0], dvar, depth))
	case ckArr, ckSlice:
		if v.Nil {
			return "nil"
		}
		var es []string
		for _, e := range v.L {
			es = append(es, g.lit(e, dvar, depth))
		}
		return t.src() + "{" + strings.Join(es, ", ") + "}"
	case ckMap:
		if v.Nil {
			return "nil"
		}
		var es []string
		for i := range v.MK {
			es = append(es, g.lit(v.MK[i], dvar, depth)+": "+g.lit(v.MV[i], dvar, depth))
		}
		return t.src() + "{" + strings.Join(es, ", ") + "}"
	case ckErr:
		if v.Nil {
			return "nil"
		}
		switch v.EK {
		case ceNew:
			s := strconv.Quote(v.S)
			if dep {
				s += " + strconv.Itoa(" + dvar + ")"
			}
			return "errors.New(" + s + ")"
		case ceSentinel:
			return []string{"host.ErrA", "host.ErrB"}[v.I]
		case ceE:
			s := strconv.FormatInt(v.I, 10)
			if dep {
				s += " + " + dvar
			}
			// conversion form: an interface variable assigned a struct literal directly changes its slot type in yaegi
			return "error(host.E{Code: " + s + "})"
		}
		return "&host.PE{Msg: " + strconv.Quote(v.S) + "}"
	case ckAny:
		if v.Nil {
			return "nil"
		}
		if v.Dyn.T.K == ckStruct {
			return "interface{}(" + g.lit(v.Dyn, dvar, depth) + ")"
		}
		return g.lit(v.Dyn, dvar, depth)
	case ckFunc:
		if v.Nil {
			return "nil"
		}
		return g.funcLit(v.Fn, dvar, depth, "")
	}
	return "nil"
}

// funcLit renders a function specification as a Go function literal. outer is the digest
// variable of the enclosing template ("" = none); pre is extra code at the top of the body.
func (g *c07reg) funcLit(f *c07fspec, outer string, depth int, pre string) string {
	t := f.T
	names := make([]string, len(t.In))
	for i := range names {
		names[i] = fmt.Sprintf("a%d_%d", depth, i)
	}
	return "func" + t.sigSrc(names) + " {" + pre + g.funcBody(f, names, outer, depth) + "}"
}

func (g *c07reg) funcBody(f *c07fspec, names []string, outer string, depth int) string {
	t := f.T
	dv := fmt.Sprintf("d%d", depth)
	var b strings.Builder
	fmt.Fprintf(&b, " %s := %d", dv, f.C+f.Outer)
	if outer != "" {
		b.WriteString(" + " + outer)
	}
	for i, a := range t.In {
		fmt.Fprintf(&b, " + %d*dg%d(%s)", i+1, g.id(a), names[i])
	}
	fmt.Fprintf(&b, "; %s = ((%s %% 1000) + 1000) %% 1000; ", dv, dv)
	if len(f.Res) > 0 {
		var rs []string
		for _, r := range f.Res {
			rs = append(rs, g.lit(r, dv, depth+1))
		}
		b.WriteString("return " + strings.Join(rs, ", ") + " ")
	} else {
		b.WriteString("_ = " + dv + " ")
	}
	return b.String()
}

// callProbe renders the call of function expression fx on probe k and the rendering of the results
// appended to string variable s.
func (g *c07reg) callProbe(t *c07t, fx string, k int, s string) string {
	args := c07probeArgs(t, k)
	var as []string
	for i, a := range args {
		l := g.lit(a, "", 5)
		if t.Variadic && i == len(args)-1 {
			l += "..."
		}
		as = append(as, l)
	}
	call := fx + "(" + strings.Join(as, ", ") + ")"
	if len(t.Out) == 0 {
		return call + "; "
	}
	var xs, rs []string
	for j, o := range t.Out {
		xs = append(xs, fmt.Sprintf("x%d", j))
		rs = append(rs, fmt.Sprintf("r%d(x%d)", g.id(o), j))
	}
	return "{ " + strings.Join(xs, ", ") + " := " + call + "; " + s + " += " + strings.Join(rs, ` + "," + `) + " }; "
}

// source emits the helper functions of every registered type (registration may grow while emitting).
func (g *c07reg) source() string {
	var b strings.Builder
	b.WriteString(`
func sortStrs(a []string) {
	for i := 1; i < len(a); i++ {
		for j := i; j > 0 && a[j] < a[j-1]; j-- {
			a[j], a[j-1] = a[j-1], a[j]
		}
	}
}
func joinStrs(a []string) string {
	s := ""
	for i, x := range a {
		if i > 0 {
			s += ","
		}
		s += x
	}
	return s
}
`)
	for i := 0; i < len(g.types); i++ {
		g.emit(&b, i, g.types[i])
	}
	return b.String()
}

func (g *c07reg) emit(b *strings.Builder, n int, t *c07t) {
	ts := t.src()
	w := func(format string, a ...any) { fmt.Fprintf(b, format, a...) }
	w("func new%d(v %s) *%s { return &v }\n", n, ts, ts)
	// ---- renderer
	w("func r%d(v %s) string {\n", n, ts)
	switch t.K {
	case ckBool:
		w("\tif v { return \"t\" }\n\treturn \"f\"\n")
	case ckInt:
		w("\treturn \"i\" + strconv.FormatInt(int64(v), 10)\n")
	case ckUint:
		w("\treturn \"u\" + strconv.FormatUint(uint64(v), 10)\n")
	case ckFloat:
		if t.Bits == 32 {
			w("\treturn \"x\" + strconv.FormatUint(uint64(math.Float32bits(v)), 16)\n")
		} else {
			w("\treturn \"x\" + strconv.FormatUint(math.Float64bits(v), 16)\n")
		}
	case ckComplex:
		if t.Bits == 64 {
			w("\treturn \"c\" + strconv.FormatUint(uint64(math.Float32bits(real(v))), 16) + \",\" + strconv.FormatUint(uint64(math.Float32bits(imag(v))), 16)\n")
		} else {
			w("\treturn \"c\" + strconv.FormatUint(math.Float64bits(real(v)), 16) + \",\" + strconv.FormatUint(math.Float64bits(imag(v)), 16)\n")
		}
	case ckString:
		w("\treturn strconv.Quote(v)\n")
	case ckStruct:
		var fs []string
		for i, f := range t.Fields {
			fs = append(fs, fmt.Sprintf("r%d(v.%s)", g.id(f), t.FNames[i]))
		}
		w("\treturn \"{\" + %s + \"}\"\n", strings.Join(fs, ` + "," + `))
	case ckPtr:
		w("\tif v == nil { return \"~\" }\n\treturn \"&\" + r%d(*v)\n", g.id(t.Elem))
	case ckArr, ckSlice:
		if t.K == ckSlice {
			w("\tif v == nil { return \"~\" }\n")
		}
		w("\ta := []string{}\n\tfor _, e := range v { a = append(a, r%d(e)) }\n\treturn \"[\" + joinStrs(a) + \"]\"\n", g.id(t.Elem))
	case ckMap:
		w("\tif v == nil { return \"~\" }\n\ta := []string{}\n\tfor k, e := range v { a = append(a, r%d(k) + \":\" + r%d(e)) }\n\tsortStrs(a)\n\treturn \"<\" + joinStrs(a) + \">\"\n", g.id(t.Key), g.id(t.Elem))
	case ckErr:
		w("\tif v == nil { return \"~\" }\n")
		w("\tif v == host.ErrA { return \"!S0\" }\n\tif v == host.ErrB { return \"!S1\" }\n")
		w("\tswitch e := v.(type) {\n\tcase host.E:\n\t\treturn \"!E{i\" + strconv.Itoa(e.Code) + \"}\"\n\tcase *host.PE:\n\t\treturn \"!PE{\" + strconv.Quote(e.Msg) + \"}\"\n\t}\n")
		w("\treturn \"!N\" + strconv.Quote(v.Error())\n")
	case ckAny:
		w("\tif v == nil { return \"~\" }\n\tif e, ok := v.(error); ok { return \"(error)\" + r%d(e) }\n\tswitch e := v.(type) {\n", g.id(ctErr))
		for _, ct := range c07AnyCat {
			if ct.K == ckErr {
				continue
			}
			w("\tcase %s:\n\t\treturn \"(%s)\" + r%d(e)\n", ct.src(), ct.src(), g.id(ct))
		}
		w("\t}\n\treturn \"BAD<dyntype>\"\n")
	case ckFunc:
		w("\tif v == nil { return \"~\" }\n\ts := \"fn[\"\n")
		for k := 0; k < c07NProbes(t); k++ {
			if k > 0 {
				w("\ts += \"|\"\n")
			}
			w("\t%s\n", g.callProbe(t, "v", k, "s"))
		}
		w("\treturn s + \"]\"\n")
	}
	w("}\n")
	// ---- digest
	w("func dg%d(v %s) int {\n", n, ts)
	switch t.K {
	case ckBool:
		w("\tif v { return 1 }\n\treturn 0\n")
	case ckInt, ckUint:
		w("\treturn int(v %% 97)\n")
	case ckFloat:
		if t.Bits == 32 {
			w("\treturn int(math.Float32bits(v) %% 89)\n")
		} else {
			w("\treturn int(math.Float64bits(v) %% 89)\n")
		}
	case ckComplex:
		if t.Bits == 64 {
			w("\treturn int(math.Float32bits(real(v)) %% 89) + 2*int(math.Float32bits(imag(v)) %% 89)\n")
		} else {
			w("\treturn int(math.Float64bits(real(v)) %% 89) + 2*int(math.Float64bits(imag(v)) %% 89)\n")
		}
	case ckString:
		w("\td := len(v)\n\tif d > 0 { d += int(v[0]) + int(v[len(v)-1]) }\n\treturn d\n")
	case ckStruct:
		var fs []string
		for i, f := range t.Fields {
			fs = append(fs, fmt.Sprintf("%d*dg%d(v.%s)", i+1, g.id(f), t.FNames[i]))
		}
		w("\treturn %s\n", strings.Join(fs, " + "))
	case ckPtr:
		w("\tif v == nil { return 0 }\n\treturn 1 + dg%d(*v)\n", g.id(t.Elem))
	case ckArr:
		w("\td := 0\n\tfor i, e := range v { d += (i + 1) * dg%d(e) }\n\treturn d\n", g.id(t.Elem))
	case ckSlice:
		w("\tif v == nil { return 0 }\n\td := 1\n\tfor i, e := range v { d += (i + 1) * dg%d(e) }\n\treturn d\n", g.id(t.Elem))
	case ckMap:
		w("\tif v == nil { return 0 }\n\td := 1\n\tfor k, e := range v { d += (dg%d(k) + 1) * (dg%d(e) + 3) }\n\treturn d\n", g.id(t.Key), g.id(t.Elem))
	case ckErr:
		w("\tif v == nil { return 0 }\n\treturn 2 + len(v.Error())\n")
	case ckAny:
		w("\tif v == nil { return 0 }\n\tif e, ok := v.(error); ok { return %d + dg%d(e) }\n\tswitch e := v.(type) {\n", len(c07AnyCat), g.id(ctErr))
		for i, ct := range c07AnyCat {
			if ct.K == ckErr {
				continue
			}
			w("\tcase %s:\n\t\treturn %d + dg%d(e)\n", ct.src(), i+1, g.id(ct))
		}
		w("\t}\n\treturn 7777\n")
	case ckFunc:
		w("\tif v == nil { return 0 }\n\td := 1\n")
		for k := 0; k < c07NProbes(t); k++ {
			args := c07probeArgs(t, k)
			var as []string
			for i, a := range args {
				l := g.lit(a, "", 5)
				if t.Variadic && i == len(args)-1 {
					l += "..."
				}
				as = append(as, l)
			}
			call := "v(" + strings.Join(as, ", ") + ")"
			if len(t.Out) == 0 {
				w("\t%s\n", call)
				continue
			}
			var xs, ds []string
			for j, o := range t.Out {
				xs = append(xs, fmt.Sprintf("x%d", j))
				ds = append(ds, fmt.Sprintf("dg%d(x%d)", g.id(o), j))
			}
			w("\t{ %s := %s; d += %s }\n", strings.Join(xs, ", "), call, strings.Join(ds, " + "))
		}
		w("\treturn d\n")
	}
	w("}\n")
}

const c07prelude = "package main\n\nimport (\n\t\"errors\"\n\t\"host/host\"\n\t\"math\"\n\t\"strconv\"\n)\n\nvar _ = errors.New\nvar _ = math.Abs\nvar _ = strconv.Itoa\nvar _ host.P\n"

// ---------------------------------------------------------------- host implementation of specifications

// c07hostEnv builds the environment whose functions are reflect.MakeFunc implementations of the
// specifications; record (optional) is told what each top-level function observed.
func c07hostEnv() *c07env {
	env := &c07env{}
	env.mkFunc = func(spec *c07fspec, outer int) reflect.Value {
		sp := spec.withOuter(spec.Outer + outer)
		return reflect.MakeFunc(sp.T.rt, func(in []reflect.Value) []reflect.Value {
			args := make([]*cval, len(in))
			for i := range in {
				args[i] = c07observe(sp.T.In[i], in[i], env)
			}
			d := sp.digest(args)
			out := make([]reflect.Value, len(sp.Res))
			for i, r := range sp.Res {
				out[i] = r.toReflect(env, d)
			}
			return out
		})
	}
	return env
}

// c07typeList is a printable form of a signature for summaries.
func c07sigString(t *c07t) string { return "func" + t.sigSrc(nil) }

func c07valStrings(l []*cval) string {
	s := make([]string, len(l))
	for i, v := range l {
		s[i] = v.String()
	}
	return strings.Join(s, ";")
}

func c07sortedKeys(m map[string]int) []string {
	ks := make([]string, 0, len(m))
	for k := range m {
		ks = append(ks, k)
	}
	sort.Strings(ks)
	return ks
}
