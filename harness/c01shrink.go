package main

import (
	"bytes"
	"fmt"
	"go/ast"
	"go/parser"
	"go/printer"
	"go/token"
	"os"
	"reflect"
	"strings"
	"time"
)

// Shrinking of a program on which yaegi and the compiled binary disagree: statement deletion and
// unwrapping of compound statements on the go/ast tree, every candidate re-validated by go/types and
// re-run on both sides (candidates of one round are built by one `go build`).

type c1edit struct {
	list, from, to int // delete statements [from,to) of statement list number `list`
	unwrap         bool
	expr           int // >= 0: simplify expression slot number expr-1 ... (0 = none)
	how            int // 0: left/inner operand, 1: right operand, 2: drop else branch
}

// c1ExprSlots collects pointers to every expression-valued field of the file (generic walk by reflection).
func c1ExprSlots(f *ast.File) []*ast.Expr {
	var slots []*ast.Expr
	exprT := reflect.TypeOf((*ast.Expr)(nil)).Elem()
	seen := map[uintptr]bool{}
	var walk func(v reflect.Value)
	walk = func(v reflect.Value) {
		switch v.Kind() {
		case reflect.Ptr:
			if v.IsNil() || seen[v.Pointer()] {
				return
			}
			seen[v.Pointer()] = true
			if _, isObj := v.Interface().(*ast.Object); isObj {
				return
			}
			if _, isScope := v.Interface().(*ast.Scope); isScope {
				return
			}
			walk(v.Elem())
		case reflect.Interface:
			if !v.IsNil() {
				walk(v.Elem())
			}
		case reflect.Struct:
			for i := 0; i < v.NumField(); i++ {
				fv := v.Field(i)
				if fv.Type() == exprT && fv.CanAddr() && !fv.IsNil() {
					slots = append(slots, fv.Addr().Interface().(*ast.Expr))
				}
				walk(fv)
			}
		case reflect.Slice:
			for i := 0; i < v.Len(); i++ {
				ev := v.Index(i)
				if ev.Type() == exprT && !ev.IsNil() {
					slots = append(slots, ev.Addr().Interface().(*ast.Expr))
				}
				walk(ev)
			}
		}
	}
	walk(reflect.ValueOf(f))
	return slots
}

func c1IfStmts(f *ast.File) []*ast.IfStmt {
	var out []*ast.IfStmt
	ast.Inspect(f, func(n ast.Node) bool {
		if x, ok := n.(*ast.IfStmt); ok {
			out = append(out, x)
		}
		return true
	})
	return out
}

// c1Lists returns the statement lists of the file in traversal order.
func c1Lists(f *ast.File) []*[]ast.Stmt {
	var ls []*[]ast.Stmt
	ast.Inspect(f, func(n ast.Node) bool {
		switch x := n.(type) {
		case *ast.BlockStmt:
			ls = append(ls, &x.List)
		case *ast.CaseClause:
			ls = append(ls, &x.Body)
		}
		return true
	})
	return ls
}

func c1Apply(src string, e c1edit) (string, bool) {
	fset := token.NewFileSet()
	f, err := parser.ParseFile(fset, "main.go", src, parser.SkipObjectResolution)
	if err != nil {
		return "", false
	}
	ls := c1Lists(f)
	if e.expr > 0 {
		if e.how == 2 {
			ifs := c1IfStmts(f)
			if e.expr-1 >= len(ifs) || ifs[e.expr-1].Else == nil {
				return "", false
			}
			ifs[e.expr-1].Else = nil
		} else {
			slots := c1ExprSlots(f)
			if e.expr-1 >= len(slots) {
				return "", false
			}
			sl := slots[e.expr-1]
			switch x := (*sl).(type) {
			case *ast.BinaryExpr:
				if e.how == 0 {
					*sl = x.X
				} else {
					*sl = x.Y
				}
			case *ast.ParenExpr:
				*sl = x.X
			case *ast.UnaryExpr:
				if x.Op == token.AND {
					return "", false
				}
				*sl = x.X
			case *ast.CallExpr:
				if len(x.Args) != 1 || e.how != 0 {
					return "", false
				}
				*sl = x.Args[0]
			default:
				return "", false
			}
		}
		var b bytes.Buffer
		if err := (&printer.Config{Mode: printer.TabIndent, Tabwidth: 8}).Fprint(&b, token.NewFileSet(), f); err != nil {
			return "", false
		}
		return b.String(), true
	}
	if e.list >= len(ls) {
		return "", false
	}
	l := ls[e.list]
	if e.to > len(*l) || e.from >= e.to {
		return "", false
	}
	if e.unwrap {
		var inner []ast.Stmt
		switch x := (*l)[e.from].(type) {
		case *ast.IfStmt:
			inner = x.Body.List
		case *ast.ForStmt:
			inner = x.Body.List
		case *ast.RangeStmt:
			inner = x.Body.List
		case *ast.BlockStmt:
			inner = x.List
		case *ast.LabeledStmt:
			inner = []ast.Stmt{x.Stmt}
		default:
			return "", false
		}
		nl := append([]ast.Stmt{}, (*l)[:e.from]...)
		nl = append(nl, inner...)
		nl = append(nl, (*l)[e.from+1:]...)
		*l = nl
	} else {
		nl := append([]ast.Stmt{}, (*l)[:e.from]...)
		nl = append(nl, (*l)[e.to:]...)
		*l = nl
	}
	// drop top-level functions that are no longer referenced? (kept: go/types accepts unused functions)
	var b bytes.Buffer
	if err := (&printer.Config{Mode: printer.TabIndent, Tabwidth: 8}).Fprint(&b, token.NewFileSet(), f); err != nil {
		return "", false
	}
	return b.String(), true
}

func c1EndClass(o outcome) string {
	if i := strings.IndexByte(o.End, ':'); i >= 0 {
		return o.End[:i]
	}
	return o.End
}

// c1DropFuncs removes unreferenced top-level functions, variables and the sort import.
func c1DropFuncs(src string) string {
	fset := token.NewFileSet()
	f, err := parser.ParseFile(fset, "main.go", src, parser.SkipObjectResolution)
	if err != nil {
		return src
	}
	changed := true
	for changed {
		changed = false
		used := map[string]int{}
		ast.Inspect(f, func(n ast.Node) bool {
			if id, ok := n.(*ast.Ident); ok {
				used[id.Name]++
			}
			return true
		})
		var nd []ast.Decl
		for _, d := range f.Decls {
			if fd, ok := d.(*ast.FuncDecl); ok && fd.Name.Name != "main" && used[fd.Name.Name] <= 1 {
				changed = true
				continue
			}
			// type declarations that nothing refers to
			if gd, ok := d.(*ast.GenDecl); ok && gd.Tok == token.TYPE && len(gd.Specs) == 1 {
				if ts, ok := gd.Specs[0].(*ast.TypeSpec); ok && used[ts.Name.Name] <= 1 {
					changed = true
					continue
				}
			}
			nd = append(nd, d)
		}
		f.Decls = nd
	}
	var b bytes.Buffer
	if err := (&printer.Config{Mode: printer.TabIndent, Tabwidth: 8}).Fprint(&b, token.NewFileSet(), f); err != nil {
		return src
	}
	out := b.String()
	if c1Validate(out) != nil || c1ClassifyRegion(out) != c1ClassifyRegion(src) {
		return src
	}
	return out
}

func c1Shrink(src string, budget time.Duration) string {
	deadline := time.Now().Add(budget)
	orig := c1RunYaegiChild(src, 2*time.Second)
	class := c1EndClass(orig)
	origRegion := c1ClassifyRegion(src)
	fails := func(cands []string) int {
		// returns the index of the first candidate on which both sides still disagree, or -1
		var progs []goProg
		for i, c := range cands {
			progs = append(progs, goProg{Name: fmt.Sprintf("s%03d", i), Files: map[string]string{"main.go": c}})
		}
		impl := make([]outcome, len(cands))
		done := make(chan struct{})
		go func() {
			parallelMap(len(cands), 8, func(i int) { impl[i] = c1RunYaegiChild(cands[i], 2*time.Second) })
			close(done)
		}()
		ref, err := c1RefBatch(progs, 2*time.Second)
		<-done
		if err != nil {
			return -1
		}
		for i := range cands {
			r := ref[fmt.Sprintf("s%03d", i)]
			if strings.HasPrefix(r.End, "compile-error") || r.End == "timeout" {
				continue
			}
			if !c1Equal(impl[i], r) && c1EndClass(impl[i]) == class {
				return i
			}
		}
		return -1
	}
	cur := src
	if d := c1DropFuncs(cur); d != cur {
		if fails([]string{d}) == 0 {
			cur = d
		}
	}
	for time.Now().Before(deadline) {
		fset := token.NewFileSet()
		f, err := parser.ParseFile(fset, "main.go", cur, parser.SkipObjectResolution)
		if err != nil {
			break
		}
		ls := c1Lists(f)
		var edits []c1edit
		// large deletions first
		for li := len(ls) - 1; li >= 0; li-- {
			n := len(*ls[li])
			for sz := n; sz >= 1; sz /= 2 {
				for from := 0; from+sz <= n; from += sz {
					edits = append(edits, c1edit{list: li, from: from, to: from + sz})
				}
				if sz == 1 {
					break
				}
			}
			for i := 0; i < n; i++ {
				edits = append(edits, c1edit{list: li, from: i, to: i + 1, unwrap: true})
			}
		}
		for i := range c1IfStmts(f) {
			edits = append(edits, c1edit{expr: i + 1, how: 2, unwrap: true, to: 1})
		}
		for i := range c1ExprSlots(f) {
			edits = append(edits, c1edit{expr: i + 1, how: 0, unwrap: true, to: 1}, c1edit{expr: i + 1, how: 1, unwrap: true, to: 1})
		}
		// order: bigger deletions first
		var cands []string
		seen := map[string]bool{cur: true}
		progress := false
		flush := func() bool {
			if len(cands) == 0 {
				return false
			}
			i := fails(cands)
			if i >= 0 {
				cur = cands[i]
				if d := c1DropFuncs(cur); d != cur && fails([]string{d}) == 0 {
					cur = d
				}
				return true
			}
			cands = cands[:0]
			return false
		}
		// sort edits by size descending (stable enough: simple bucket pass)
		for _, minSz := range []int{8, 4, 2, 1} {
			for _, e := range edits {
				sz := e.to - e.from
				if e.unwrap {
					if minSz != 1 {
						continue
					}
				} else if sz < minSz || (minSz > 1 && sz >= minSz*2 && minSz != 8) {
					continue
				}
				c, ok := c1Apply(cur, e)
				if !ok || seen[c] || c1ClassifyRegion(c) != origRegion || c1Validate(c) != nil {
					continue
				}
				seen[c] = true
				cands = append(cands, c)
				if len(cands) >= 24 {
					if flush() {
						progress = true
						break
					}
					if !time.Now().Before(deadline) {
						break
					}
				}
			}
			if progress || !time.Now().Before(deadline) {
				break
			}
			if flush() {
				progress = true
				break
			}
		}
		if !progress {
			break
		}
	}
	return cur
}

func readFileArg(args []string) ([]byte, error) {
	if len(args) < 1 {
		return nil, fmt.Errorf("file argument missing")
	}
	return os.ReadFile(args[0])
}

func init() {
	register("c01-shrink", "C01: shrink one program on which yaegi and the compiled binary disagree (file argument)", func(args []string) error {
		b, err := readFileArg(args)
		if err != nil {
			return err
		}
		fmt.Println(c1Shrink(string(b), 12*time.Minute))
		return nil
	})
}
