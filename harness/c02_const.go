package main

import (
	"fmt"
	"math"
	"math/big"
	"strings"
)

// C02, constant -> typed floating-point destination.  The constants are chosen for float32 and
// float64 rounding: midpoints between adjacent floats, the midpoints perturbed by amounts below and
// above half a float64 ulp (so that rounding once, exact -> float32, and rounding twice, exact ->
// float64 -> float32, differ), integers above 2^24 / 2^53, values around the largest finite float32
// / float64 and around the smallest denormals.  Every constant is written in several ways (decimal
// literal, hexadecimal floating-point literal, constant expression) and reaches the typed
// destination along every path: variable declaration, typed named constant, conversion, return
// value, assignment, call argument, interface destination, composite literal element, operand of
// + (either side), op=, operand of ==.  The reference is the exact rational value rounded once
// (math/big), and the same programs compiled by Go on every run.

type c02Konst struct {
	Name  string   // what the constant is, for reports
	Val   *big.Rat // exact value
	Exprs []string // Go constant expressions denoting exactly Val
}

func c02Pow2(e int) *big.Rat {
	if e >= 0 {
		return new(big.Rat).SetInt(new(big.Int).Lsh(big.NewInt(1), uint(e)))
	}
	return new(big.Rat).SetFrac(big.NewInt(1), new(big.Int).Lsh(big.NewInt(1), uint(-e)))
}

func c02RatAdd(a, b *big.Rat) *big.Rat { return new(big.Rat).Add(a, b) }
func c02RatSub(a, b *big.Rat) *big.Rat { return new(big.Rat).Sub(a, b) }
func c02RatMul(a, b *big.Rat) *big.Rat { return new(big.Rat).Mul(a, b) }

// renderings of a dyadic rational n / 2^k (or an integer)
func c02DyadicExprs(v *big.Rat) []string {
	var out []string
	den := v.Denom()
	num := v.Num()
	if den.Cmp(big.NewInt(1)) == 0 {
		out = append(out, num.String())           // integer literal
		out = append(out, num.String()+".0")      // floating-point literal with an integral value
		if num.BitLen() < 500 && num.Sign() > 0 { // integer written as a hexadecimal literal
			out = append(out, "0x"+num.Text(16))
		}
		return out
	}
	k := den.BitLen() - 1 // den = 2^k
	neg := ""
	abs := new(big.Int).Abs(num)
	if num.Sign() < 0 {
		neg = "-"
	}
	// hexadecimal floating-point literal: exact
	out = append(out, fmt.Sprintf("%s0x%sp-%d", neg, abs.Text(16), k))
	// exact decimal expansion: k digits after the point
	if k <= 420 {
		out = append(out, v.FloatString(k))
	}
	// constant expression
	if k <= 500 && abs.BitLen() <= 500 {
		out = append(out, fmt.Sprintf("%s%s.0 / (1 << %d)", neg, abs.String(), k))
	}
	return out
}

func c02Konsts() []c02Konst {
	var ks []c02Konst
	add := func(name string, v *big.Rat, extra ...string) {
		k := c02Konst{Name: name, Val: v}
		if v.Denom().BitLen() > 0 && new(big.Int).And(v.Denom(), new(big.Int).Sub(v.Denom(), big.NewInt(1))).Sign() == 0 {
			k.Exprs = c02DyadicExprs(v)
		}
		k.Exprs = append(k.Exprs, extra...)
		ks = append(ks, k)
	}
	// float32: a, its ulp, the midpoint above it, perturbed
	type base struct {
		name string
		a    *big.Rat
		ulp  int // exponent of the float32 ulp at a
	}
	f32 := []base{
		{"1", c02Pow2(0), -23}, {"2^24", c02Pow2(24), 1}, {"0.5", c02Pow2(-1), -24}, {"3", big.NewRat(3, 1), -22},
		{"2^100", c02Pow2(100), 77}, {"2^-126 (smallest normal)", c02Pow2(-126), -149}, {"5*2^-149 (denormal)", c02RatMul(big.NewRat(5, 1), c02Pow2(-149)), -149},
		{"2^24+2 (odd mantissa)", c02RatAdd(c02Pow2(24), big.NewRat(2, 1)), 1},
	}
	for _, b := range f32 {
		m := c02RatAdd(b.a, c02Pow2(b.ulp-1))
		add("float32 midpoint above "+b.name, m)
		for _, d := range []int{37, 17} { // 2^-37 ulp: inside half a float64 ulp (2^-30 ulp); 2^-17 ulp: outside
			add(fmt.Sprintf("float32 midpoint above %s + 2^-%d ulp", b.name, d), c02RatAdd(m, c02Pow2(b.ulp-d)))
			add(fmt.Sprintf("float32 midpoint above %s - 2^-%d ulp", b.name, d), c02RatSub(m, c02Pow2(b.ulp-d)))
		}
	}
	neg := func(v *big.Rat) *big.Rat { return new(big.Rat).Neg(v) }
	m24 := c02RatAdd(c02Pow2(24), c02Pow2(0))
	add("-(float32 midpoint above 2^24 + 2^-36)", neg(c02RatAdd(m24, c02Pow2(-36))))
	add("-(float32 midpoint above 2^24 - 2^-36)", neg(c02RatSub(m24, c02Pow2(-36))))
	// decimal perturbations (not dyadic): only the spellings given
	dec := func(name, lit string, extra ...string) {
		v, ok := new(big.Rat).SetString(lit)
		if !ok {
			panic("c02: bad decimal " + lit)
		}
		ks = append(ks, c02Konst{Name: name, Val: v, Exprs: append([]string{lit}, extra...)})
	}
	dec("16777217 + 1e-10", "16777217.0000000001", "16777217 + 1e-10", "1<<24 + 1 + 1.0/10000000000")
	dec("16777217 - 1e-10", "16777216.9999999999", "16777217 - 1e-10")
	dec("16777219 - 1e-10", "16777218.9999999999", "16777219 - 1e-10")
	dec("16777219 + 1e-10", "16777219.0000000001")
	dec("0.5 + 2^-25 + 5e-17", "0.50000002980232244")
	dec("1 + 2^-24 + 1e-29", "1.00000005960464477539062500001")
	dec("1 + 2^-24 - 1e-29", "1.00000005960464477539062499999")
	dec("0.1", "0.1", "1.0 / 10")
	dec("1/3 to 40 digits", "0.3333333333333333333333333333333333333333")
	dec("3.4028235e38 (shortest decimal of the largest float32)", "3.4028235e38")
	dec("1.401298464324817e-45 (about 2^-149)", "1.401298464324817e-45")
	dec("7.006492321624085e-46 + 1e-60 (just above 2^-150)", "7.00649232162408535461864791645e-46")
	// the expression of the task statement: 1 + 2^-24 + 2^-60
	add("1 + 1.0/(1<<24) + 1.0/(1<<60)", c02RatAdd(c02RatAdd(c02Pow2(0), c02Pow2(-24)), c02Pow2(-60)), "1 + 1.0/(1<<24) + 1.0/(1<<60)")
	add("1 + 1.0/(1<<24) - 1.0/(1<<60)", c02RatSub(c02RatAdd(c02Pow2(0), c02Pow2(-24)), c02Pow2(-60)), "1 + 1.0/(1<<24) - 1.0/(1<<60)")
	// float64 midpoints
	f64 := []base{{"1", c02Pow2(0), -52}, {"2^53", c02Pow2(53), 1}, {"3", big.NewRat(3, 1), -51}, {"2^-1022 (smallest normal)", c02Pow2(-1022), -1074}}
	for _, b := range f64 {
		m := c02RatAdd(b.a, c02Pow2(b.ulp-1))
		add("float64 midpoint above "+b.name, m)
		add("float64 midpoint above "+b.name+" + 2^-40 ulp", c02RatAdd(m, c02Pow2(b.ulp-40)))
		add("float64 midpoint above "+b.name+" - 2^-40 ulp", c02RatSub(m, c02Pow2(b.ulp-40)))
	}
	// integers above 2^24 / 2^53
	for _, s := range []string{"16777217", "16777219", "33554433", "33554435", "4294967295", "2147483647", "9007199254740993", "9007199254740995",
		"18014398509481985", "9223372036854775807", "18446744073709551615", "-16777217", "-9007199254740993", "340282346638528859811704183484516925440",
		"340282346638528859811704183484516925441", "340282356779733661637539395458142568447"} {
		v, _ := new(big.Rat).SetString(s)
		add("integer "+s, v)
	}
	// around the largest finite values
	max32 := c02RatMul(big.NewRat(0xffffff, 1), c02Pow2(104))
	add("largest float32 + 2^102 (below the overflow threshold)", c02RatAdd(max32, c02Pow2(102)))
	add("largest float32 + 2^103 - 2^40 (just below the overflow threshold)", c02RatSub(c02RatAdd(max32, c02Pow2(103)), c02Pow2(40)))
	max64 := c02RatMul(new(big.Rat).SetInt(new(big.Int).Sub(new(big.Int).Lsh(big.NewInt(1), 53), big.NewInt(1))), c02Pow2(971))
	ks = append(ks, c02Konst{Name: "largest float64", Val: max64, Exprs: []string{"0x1.fffffffffffffp+1023", "1.7976931348623157e308"}})
	ks = append(ks, c02Konst{Name: "largest float64 + 2^969 (below the overflow threshold)", Val: c02RatAdd(max64, c02Pow2(969)), Exprs: []string{"0x1.fffffffffffff4p+1023", "0x1.fffffffffffffp+1023 + 0x1p+969"}})
	ks = append(ks, c02Konst{Name: "largest float32", Val: max32, Exprs: []string{"0x1.fffffep+127"}})
	// around the smallest denormals
	for _, d := range []struct {
		name string
		v    *big.Rat
	}{
		{"2^-149 (smallest float32 denormal)", c02Pow2(-149)}, {"2^-150 (half of it: tie to zero)", c02Pow2(-150)},
		{"2^-150 + 2^-200", c02RatAdd(c02Pow2(-150), c02Pow2(-200))}, {"3*2^-150 (tie to even)", c02RatMul(big.NewRat(3, 1), c02Pow2(-150))},
		{"2^-151", c02Pow2(-151)}, {"2^-126 - 2^-150 (tie to the smallest normal)", c02RatSub(c02Pow2(-126), c02Pow2(-150))},
		{"2^-126 - 2^-150 - 2^-190", c02RatSub(c02RatSub(c02Pow2(-126), c02Pow2(-150)), c02Pow2(-190))},
		{"-(2^-150 + 2^-200)", neg(c02RatAdd(c02Pow2(-150), c02Pow2(-200)))},
	} {
		add(d.name, d.v)
	}
	ks = append(ks, c02Konst{Name: "2^-1074 (smallest float64 denormal)", Val: c02Pow2(-1074), Exprs: []string{"0x1p-1074", "5e-324"}})
	ks = append(ks, c02Konst{Name: "2^-1075 (tie to zero)", Val: c02Pow2(-1075), Exprs: []string{"0x1p-1075"}})
	ks = append(ks, c02Konst{Name: "2^-1075 + 2^-1200", Val: c02RatAdd(c02Pow2(-1075), c02Pow2(-1200)), Exprs: []string{"0x1p-1075 + 0x1p-1200"}})
	ks = append(ks, c02Konst{Name: "3*2^-1075 (tie to even)", Val: c02RatMul(big.NewRat(3, 1), c02Pow2(-1075)), Exprs: []string{"0x3p-1075"}})
	return ks
}

// c02RoundTok: the exact value rounded once to the destination kind, as a token ("" = overflow)
func c02RoundTok(v *big.Rat, k *c02Kind) string {
	switch k.Name {
	case "float32":
		f, _ := v.Float32()
		if math.IsInf(float64(f), 0) {
			return ""
		}
		return c02Tok(f + 0) // + 0: a negative value that rounds to zero is the constant 0
	case "float64":
		f, _ := v.Float64()
		if math.IsInf(f, 0) {
			return ""
		}
		return c02Tok(f + 0)
	case "complex64":
		f, _ := v.Float32()
		if math.IsInf(float64(f), 0) {
			return ""
		}
		return c02Tok(complex(f+0, 0))
	case "complex128":
		f, _ := v.Float64()
		if math.IsInf(f, 0) {
			return ""
		}
		return c02Tok(complex(f+0, 0))
	}
	panic("c02: bad destination kind")
}

// does rounding twice (exact -> float64 -> float32) differ from rounding once?
func c02DoubleRoundingDiffers(v *big.Rat) bool {
	f32, _ := v.Float32()
	f64, _ := v.Float64()
	return float32(f64) != f32
}

var c02KonstPaths = []string{"kvar", "kconst", "kconv", "kret", "kasg", "karg", "kifc", "klit", "kaddr", "kaddl", "kcmpd", "kcmp"}

// constSites: every constant x spelling x destination kind x {inline, untyped named constant} x path.
func (g *c02Gen) constSites() {
	zero := map[string][]c02V{}
	for _, k := range append(append([]*c02Kind{}, c02FloatKinds...), c02CplxKinds...) {
		zero[k.Name] = []c02V{{K: k}}
	}
	for ci, kc := range c02Konsts() {
		for _, k := range append(append([]*c02Kind{}, c02FloatKinds...), c02CplxKinds...) {
			exp := c02RoundTok(kc.Val, k)
			if exp == "" {
				continue // overflows the destination: rejected by the Go compiler
			}
			paths := c02KonstPaths
			if k.Class == "complex" {
				paths = []string{"kvar", "kconst", "kconv", "kaddr", "kcmpd"}
			}
			for ei, ex := range kc.Exprs {
				isExpr := strings.ContainsAny(ex, "/+") && !strings.Contains(ex, "p+") || strings.Contains(ex, " - ") || strings.Contains(ex, " + ")
				isIntLit := !isExpr && !strings.ContainsAny(ex, ".pe") || strings.HasPrefix(ex, "0x") && !strings.Contains(ex, "p")
				bigInt := isIntLit && (kc.Val.Cmp(new(big.Rat).SetInt64(math.MaxInt64)) > 0 || kc.Val.Cmp(new(big.Rat).SetInt64(math.MinInt64)) < 0)
				for _, named := range []bool{false, true} {
					for _, path := range paths {
						s := &c02Site{Cat: "kconst", Op: path, K: k, Form: "l", Ctx: path, Xs: zero[k.Name], ByIndex: true, KExpr: ex, KVal: kc.Val, KName: kc.Name}
						if named {
							s.Form = "u"
						}
						// known findings on the unchanged tree (each with the output the defect produces)
						narrow := k.Name == "float32" || k.Name == "complex64"
						switch {
						case path == "kret" && bigInt:
							s.Region, s.KPred = "const-return", "FAIL:panic:value:"
						case path == "kret" && k.Name == "float32":
							s.Region, s.KPred = "const-return", c02DoubleTok(kc.Val, k)
						case k.Class == "complex" && !named && (path == "kvar" || path == "kconst"):
							s.Region, s.KPred = "const-real-to-complex", "FAIL:panic:value:reflect.Value.Convert: value of type float64 cannot be converted to type "+k.Name
							if isExpr && k.Name == "complex64" {
								s.KPred2 = c02DoubleTok(kc.Val, k) // expressions whose first operand is an integer constant are folded through float64 instead
							}
						case isExpr && !named && narrow && (path == "kvar" || path == "kconst" || path == "kasg" || path == "kcmpd"):
							s.Region, s.KPred = "const-expr-float32", c02DoubleTok(kc.Val, k)
						}
						g.nextID++
						s.ID = g.nextID
						T := k.Name
						C := "(" + ex + ")"
						decl := ""
						if named {
							decl = fmt.Sprintf("const u%d = %s\n\n", s.ID, ex)
							C = fmt.Sprintf("u%d", s.ID)
						}
						fn := fmt.Sprintf("s%d", s.ID)
						bind := "\tx := @T0@[ix]\n"
						switch path {
						case "kvar":
							decl += fmt.Sprintf("func %s(ix int) %s {\n\tvar f %s = %s\n\treturn f\n}\n", fn, T, T, C)
						case "kconst":
							decl += fmt.Sprintf("const k%d %s = %s\n\nfunc %s(ix int) %s { return k%d }\n", s.ID, T, C, fn, T, s.ID)
						case "kconv":
							decl += fmt.Sprintf("func %s(ix int) %s {\n\tf := %s(%s)\n\treturn f\n}\n", fn, T, T, C)
						case "kret":
							decl += fmt.Sprintf("func %s(ix int) %s { return %s }\n", fn, T, C)
						case "kasg":
							decl += fmt.Sprintf("func %s(ix int) %s {\n\tvar f %s\n\tf = %s\n\treturn f\n}\n", fn, T, T, C)
						case "karg":
							decl += fmt.Sprintf("func %s(ix int) %s { return id_%s(%s) }\n", fn, T, T, C)
						case "kifc":
							decl += fmt.Sprintf("func %s(ix int) interface{} {\n\tvar r interface{} = %s(%s)\n\treturn r\n}\n", fn, T, C)
						case "klit":
							decl += fmt.Sprintf("func %s(ix int) %s {\n\ta := []%s{%s}\n\treturn a[0]\n}\n", fn, T, T, C)
						case "kaddr":
							decl += fmt.Sprintf("func %s(ix int) %s {\n%s\treturn x + %s\n}\n", fn, T, bind, C)
						case "kaddl":
							decl += fmt.Sprintf("func %s(ix int) %s {\n%s\treturn %s + x\n}\n", fn, T, bind, C)
						case "kcmpd":
							decl += fmt.Sprintf("func %s(ix int) %s {\n%s\tr := x\n\tr += %s\n\treturn r\n}\n", fn, T, bind, C)
						case "kcmp":
							// x ranges over the rounded constant and its two neighbours
							decl += fmt.Sprintf("func %s(ix int) bool {\n%s\treturn x == %s\n}\n", fn, bind, C)
						}
						s.Decl = decl
						s.Call = fmt.Sprintf("s%d(x)", s.ID)
						if path == "kcmp" {
							var r float64
							if k.Bits == 32 {
								f, _ := kc.Val.Float32()
								r = float64(f)
								s.Xs = []c02V{{K: k, F: float64(math.Nextafter32(f, float32(math.Inf(-1)))), Boundary: true}, {K: k, F: r, Boundary: true}, {K: k, F: float64(math.Nextafter32(f, float32(math.Inf(1)))), Boundary: true}}
							} else {
								r, _ = kc.Val.Float64()
								s.Xs = []c02V{{K: k, F: math.Nextafter(r, math.Inf(-1)), Boundary: true}, {K: k, F: r, Boundary: true}, {K: k, F: math.Nextafter(r, math.Inf(1)), Boundary: true}}
							}
							for _, x := range s.Xs {
								s.Expect = append(s.Expect, c02Tok(x.F == r))
							}
						} else {
							s.Expect = []string{exp}
						}
						_ = ci
						_ = ei
						g.sites = append(g.sites, s)
					}
				}
			}
		}
	}
}

// Coq rendering of a rational
func c02CoqQ(v *big.Rat) string {
	n := v.Num().String()
	if v.Num().Sign() < 0 {
		n = "(" + n + ")"
	}
	return fmt.Sprintf("(%s # %s)", n, v.Denom().String())
}

// c02TokRat: the exact value of a float token f32:.. / f64:.. (nil for NaN, infinities and non-float tokens; negative zero -> 0)
func c02TokRat(tok string) *big.Rat {
	var f float64
	switch {
	case strings.HasPrefix(tok, "f32:"):
		var b uint32
		if _, err := fmt.Sscanf(tok[4:], "%x", &b); err != nil {
			return nil
		}
		f = float64(math.Float32frombits(b))
	case strings.HasPrefix(tok, "f64:"):
		var b uint64
		if _, err := fmt.Sscanf(tok[4:], "%x", &b); err != nil {
			return nil
		}
		f = math.Float64frombits(b)
	default:
		return nil
	}
	if math.IsNaN(f) || math.IsInf(f, 0) {
		return nil
	}
	return new(big.Rat).SetFloat64(f)
}

// c02DoubleTok: the exact value rounded to float64 and then to the (float32-based) destination:
// what the interpreter's convertConstantValue path produces ("" = not applicable)
func c02DoubleTok(v *big.Rat, k *c02Kind) string {
	f64, _ := v.Float64()
	f := float32(f64)
	switch k.Name {
	case "float32":
		return c02Canon(c02Tok(f + 0))
	case "complex64":
		return c02Canon(c02Tok(complex(f+0, 0)))
	}
	return ""
}
