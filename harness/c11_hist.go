package main

import (
	"bytes"
	"fmt"
	"reflect"
	"sort"
	"strings"
	"testing/fstest"
	"time"

	"github.com/traefik/yaegi/interp"
)

// ---------------------------------------------------------------- histories that redefine functions between uses

type c11hist struct {
	Chunks   [][]c11item
	Vars     []int
	Ptrs     []int
	PkgDecls []c11item // package-level declarations of the reference program
	Body     []string  // body of main of the reference program
	FuncVars []int     // redefined functions: function variables in the reference program
}

func (h c11hist) refSrc() string {
	return c11refSrc(h.PkgDecls, h.Body, h.Vars, h.Ptrs, h.FuncVars)
}

func c11funcLit(it c11item) string {
	var b strings.Builder
	fmt.Fprintf(&b, "f%d = func(a int) int {\n", it.N)
	for _, s := range it.Body {
		b.WriteString("\t\t" + s.goSrc(false) + "\n")
	}
	b.WriteString("\t\treturn " + it.Ret.goSrc() + "\n\t}")
	return b.String()
}

// c11history: declarations first (variables with constant initialisers, pointers, base functions), then
// rounds of [define or redefine a function] [use it in statements]. stale: some functions compiled
// earlier call a function that is redefined afterwards (region stale-callee); otherwise a redefined
// function is called from statements only.
func c11history(r *rng, stale bool) c11hist {
	g := &c11gen{r: r}
	var h c11hist
	nv, np := 2+r.intn(3), r.intn(2)
	var first []c11item
	for i := 1; i <= nv; i++ {
		first = append(first, c11item{K: 'v', N: i, E: g.konst()})
		g.vars = append(g.vars, i)
	}
	for i := 1; i <= np; i++ {
		first = append(first, c11item{K: 'p', N: 100 + i})
		g.ptrs = append(g.ptrs, 100+i)
	}
	nBase := 1 + r.intn(2)
	nf := 0
	var base []int
	for i := 0; i < nBase; i++ {
		nf++
		g.funcs = append([]int(nil), base...)
		body, set := g.stmts(1+r.intn(2), true, nil)
		first = append(first, c11item{K: 'f', N: nf, Body: body, Ret: g.expr(true, g.vars, set)})
		base = append(base, nf)
	}
	h.PkgDecls = append(h.PkgDecls, first...)
	h.Chunks = append(h.Chunks, c11cut(r, first, 2)...)
	h.Vars, h.Ptrs = append([]int(nil), g.vars...), append([]int(nil), g.ptrs...)

	nRedef := 1 + r.intn(2)
	var redef []int
	for i := 0; i < nRedef; i++ {
		nf++
		redef = append(redef, nf)
	}
	h.FuncVars = redef
	defined := map[int]bool{}
	var callers []int
	var set []int
	rounds := 3 + r.intn(4)
	for k := 0; k < rounds; k++ {
		// (re)define one of the redefinable functions; its body calls base functions only
		f := redef[r.intn(len(redef))]
		if k < len(redef) {
			f = redef[k]
		}
		g.funcs = append([]int(nil), base...)
		body, bset := g.stmts(1+r.intn(2), true, nil)
		it := c11item{K: 'f', N: f, Body: body, Ret: g.expr(true, g.vars, bset)}
		h.Chunks = append(h.Chunks, []c11item{it})
		h.Body = append(h.Body, c11funcLit(it))
		defined[f] = true
		// stale stream: a caller compiled now, calling the redefinable functions defined so far
		if stale && k < rounds-1 && r.chance(70) {
			nf++
			g.funcs = nil
			for _, x := range redef {
				if defined[x] {
					g.funcs = append(g.funcs, x)
				}
			}
			cb, cset := g.stmts(1, true, nil)
			c := c11item{K: 'f', N: nf, Body: cb, Ret: &c11expr{K: '+', A: &c11expr{K: 'f', N: g.funcs[r.intn(len(g.funcs))], A: g.pure(1, true, g.vars, cset)}, B: g.konst()}}
			h.Chunks = append(h.Chunks, []c11item{c})
			h.PkgDecls = append(h.PkgDecls, c)
			callers = append(callers, nf)
		}
		// uses
		g.funcs = append([]int(nil), base...)
		for _, x := range redef {
			if defined[x] {
				g.funcs = append(g.funcs, x, x) // favour the redefinable ones
			}
		}
		g.funcs = append(g.funcs, callers...)
		var ss []c11stmt
		ss, set = g.stmts(1+r.intn(3), false, set)
		// always one direct use whose value is printed
		ss = append(ss, c11stmt{K: 'p', E: &c11expr{K: 'f', N: f, A: g.konst()}})
		if len(callers) > 0 {
			ss = append(ss, c11stmt{K: 'p', E: &c11expr{K: 'f', N: callers[r.intn(len(callers))], A: g.konst()}})
		}
		var items []c11item
		for _, s := range ss {
			items = append(items, c11item{K: 's', S: s})
			h.Body = append(h.Body, s.goSrc(false))
		}
		h.Chunks = append(h.Chunks, c11cut(r, items, 2)...)
	}
	return h
}

// ---------------------------------------------------------------- richer programs, outside the Coq model

type c11richProg struct {
	Region  string // "" = main stream; otherwise every line is fed as its own chunk and the label names the finding aimed at
	Name    string
	Decls   []string
	Body    []string
	Globals []string // package-level variables whose final values are compared (whole against pieces)
}

func c11richTemplates(r *rng) []c11richProg {
	k := func(lo, n int) int { return lo + r.intn(n) }
	A, B, C, D := k(1, 9), k(2, 7), k(1, 5), k(3, 6)
	return []c11richProg{
		{Name: "methods", Globals: []string{"t", "hits"},
			Decls: []string{
				"type T struct{ a, b int }",
				"var hits int",
				"func (t *T) Inc(n int) { t.a += n; t.b++; hits++ }",
				"func (t T) Sum() int { return t.a + t.b }",
				fmt.Sprintf("func newT() *T { return &T{%d, %d} }", A, B),
				"var t = newT()",
			},
			Body: []string{
				fmt.Sprintf("t.Inc(%d)", C),
				"fmt.Println(t.Sum())",
				"u := *t",
				"u.Inc(1)",
				"fmt.Println(u.Sum(), t.Sum())",
				"q := t",
				fmt.Sprintf("q.Inc(%d)", D),
				"fmt.Println(t.a, t.b, hits, q == t)",
			}},
		{Name: "closures", Globals: []string{"total"},
			Decls: []string{
				"var total int",
				fmt.Sprintf("func makeCounter() func() int { c := %d; return func() int { c++; total += c; return c } }", A),
				"var next = makeCounter()",
				"func apply(f func() int, n int) int { s := 0; for i := 0; i < n; i++ { s += f() }; return s }",
			},
			Body: []string{
				"fmt.Println(next(), next())",
				"g := next",
				"fmt.Println(g())",
				"h := makeCounter()",
				fmt.Sprintf("fmt.Println(apply(h, %d), next())", B),
				"total *= 2",
				"fmt.Println(total)",
			}},
		{Name: "slices-maps", Globals: []string{"a", "m"},
			Decls: []string{
				fmt.Sprintf("var a = []int{%d, %d, %d}", A, B, C),
				fmt.Sprintf("var m = map[string]int{\"k\": %d}", D),
				"func push(x int) { a = append(a, x) }",
				"func keys() int { n := 0; for range m { n++ }; return n }",
			},
			Body: []string{
				"s := a[:2]",
				"s[0] = 9",
				fmt.Sprintf("push(%d)", D),
				"fmt.Println(a, s, len(a))",
				"m[\"j\"] = 5",
				"n := m",
				"delete(n, \"k\")",
				"fmt.Println(keys(), m[\"j\"], len(n))",
				"sum := 0",
				"for i, v := range a { sum += i * v }",
				"fmt.Println(sum)",
			}},
		{Name: "interfaces", Globals: []string{"nshapes"},
			Decls: []string{
				"type Shape interface{ Area() int }",
				"type Sq struct{ s int }",
				"func (q Sq) Area() int { return q.s * q.s }",
				"type Rc struct{ w, h int }",
				"func (r Rc) Area() int { return r.w * r.h }",
				"var shapes []Shape",
				"var nshapes int",
				"func add(s Shape) { shapes = append(shapes, s); nshapes++ }",
				"func kind(s Shape) string { switch s.(type) { case Sq: return \"sq\"; case Rc: return \"rc\" }; return \"?\" }",
				"func asSq(s Shape) (Sq, bool) { q, ok := s.(Sq); return q, ok }",
			},
			Body: []string{
				fmt.Sprintf("add(Sq{%d})", A),
				fmt.Sprintf("add(Rc{%d, %d})", B, C),
				"for _, s := range shapes { fmt.Println(kind(s), s.Area()) }",
				"s0 := shapes[0]",
				"q, ok := asSq(s0)",
				"fmt.Println(q.s, ok, len(shapes))",
			}},
		{Name: "consts-arrays", Globals: []string{"arr", "K"},
			Decls: []string{
				"const ( Red = iota; Green; Blue )",
				fmt.Sprintf("const K = %d", D),
				"var arr [K]int",
				"type Color int",
				"func (c Color) String() string { switch c { case Red: return \"red\"; case Green: return \"green\" }; return \"blue\" }",
				"func fill(m int) { for i := range arr { arr[i] = i*m + Blue } }",
			},
			Body: []string{
				fmt.Sprintf("fill(%d)", A),
				"fmt.Println(arr, len(arr))",
				"fmt.Println(Color(Green).String(), Color(Blue).String())",
				"b := arr",
				"b[0] = 100",
				"fmt.Println(arr[0], b[0])",
			}},
		{Name: "recover", Globals: []string{"calls"},
			Decls: []string{
				"var calls int",
				"func div(a, b int) (q int, err error) { defer func() { calls++; if r := recover(); r != nil { err = fmt.Errorf(\"recovered\") } }(); q = a / b; return }",
			},
			Body: []string{
				fmt.Sprintf("q, err := div(%d, %d)", 10*A, B),
				"fmt.Println(q, err)",
				"_, err = div(1, 0)",
				"fmt.Println(err != nil, calls)",
			}},
		{Name: "pointers-list", Globals: []string{"x", "count"},
			Decls: []string{
				fmt.Sprintf("var x = %d", A),
				"var p *int",
				"type N struct{ v int; next *N }",
				"var head *N",
				"var count int",
				"func push(v int) { head = &N{v, head}; count++ }",
			},
			Body: []string{
				"p = &x",
				"*p += 2",
				"pp := &p",
				"**pp = **pp * 3",
				"fmt.Println(x, *p, p == &x)",
				fmt.Sprintf("push(%d)", B),
				fmt.Sprintf("push(%d)", C),
				"first := head",
				fmt.Sprintf("push(%d)", D),
				"for n := head; n != nil; n = n.next { fmt.Println(n.v) }",
				"fmt.Println(first == head.next, count)",
			}},
		{Name: "channels", Globals: []string{"acc"},
			Decls: []string{
				"var acc int",
				"func producer(n int, ch chan int) { for i := 0; i < n; i++ { ch <- i * i }; close(ch) }",
			},
			Body: []string{
				fmt.Sprintf("ch := make(chan int, %d)", 8+D),
				fmt.Sprintf("producer(%d, ch)", 1+C),
				"for v := range ch { acc += v }",
				"fmt.Println(acc)",
				"done := make(chan bool)",
				"go func() { acc++; done <- true }()",
				"<-done",
				"fmt.Println(acc)",
			}},
	}
}

// programs aimed at known findings that lie outside the model language
func c11richRegionTemplates(r *rng) []c11richProg {
	A, B := 1+r.intn(9), 2+r.intn(5)
	return []c11richProg{
		{Region: "main-rerun", Name: "funclit-statement", Globals: []string{"total"},
			Decls: []string{fmt.Sprintf("var total = %d", A)},
			Body: []string{
				fmt.Sprintf("total += %d", B),
				"func() { total *= 2 }()",
				"fmt.Println(total)",
				"fmt.Println(total + 1)",
			}},
		{Region: "assert-define", Name: "assert-define", Globals: []string{"n"},
			Decls: []string{fmt.Sprintf("var n = %d", A), "var s0 interface{}"},
			Body: []string{
				"s0 = n",
				"r, ok := s0.(int)",
				"fmt.Println(r, ok)",
			}},
	}
}

func c11cutStrings(r *rng, l []string, avg int) [][]string {
	var out [][]string
	for len(l) > 0 {
		n := 1 + r.intn(2*avg-1)
		if n > len(l) {
			n = len(l)
		}
		out = append(out, l[:n])
		l = l[n:]
	}
	return out
}

func (p c11richProg) whole() string {
	return "package main\n\nimport \"fmt\"\n\n" + strings.Join(p.Decls, "\n") + "\n\nfunc main() {\n\t" + strings.Join(p.Body, "\n\t") + "\n}\n"
}

// c11canon renders the values of the named globals (no addresses).
func c11canon(i *interp.Interpreter, names []string) string {
	g, panicked := c11safeGlobals(i)
	if panicked {
		return "Globals() panics in the host"
	}
	var parts []string
	for _, n := range names {
		v, ok := g[n]
		if !ok || !v.IsValid() {
			parts = append(parts, n+"=<missing>")
			continue
		}
		parts = append(parts, n+"="+c11canonValue(v, 0))
	}
	return strings.Join(parts, ";")
}

func c11canonValue(v reflect.Value, depth int) string {
	if depth > 6 {
		return "..."
	}
	switch v.Kind() {
	case reflect.Ptr:
		if v.IsNil() {
			return "nil"
		}
		return "&" + c11canonValue(v.Elem(), depth+1)
	case reflect.Interface:
		if v.IsNil() {
			return "nil"
		}
		return c11canonValue(v.Elem(), depth+1)
	case reflect.Struct:
		var fs []string
		for k := 0; k < v.NumField(); k++ {
			fs = append(fs, c11canonValue(v.Field(k), depth+1))
		}
		return "{" + strings.Join(fs, " ") + "}"
	case reflect.Slice, reflect.Array:
		var es []string
		for k := 0; k < v.Len(); k++ {
			es = append(es, c11canonValue(v.Index(k), depth+1))
		}
		return "[" + strings.Join(es, " ") + "]"
	case reflect.Map:
		var es []string
		for _, key := range v.MapKeys() {
			es = append(es, c11canonValue(key, depth+1)+":"+c11canonValue(v.MapIndex(key), depth+1))
		}
		sort.Strings(es)
		return "map[" + strings.Join(es, " ") + "]"
	case reflect.Func, reflect.Chan, reflect.UnsafePointer:
		return v.Kind().String()
	case reflect.Int, reflect.Int8, reflect.Int16, reflect.Int32, reflect.Int64:
		return fmt.Sprint(v.Int())
	case reflect.Uint, reflect.Uint8, reflect.Uint16, reflect.Uint32, reflect.Uint64:
		return fmt.Sprint(v.Uint())
	case reflect.String:
		return fmt.Sprintf("%q", v.String())
	case reflect.Bool:
		return fmt.Sprint(v.Bool())
	case reflect.Float32, reflect.Float64:
		return fmt.Sprint(v.Float())
	}
	return v.Kind().String()
}

type c11richRun struct {
	Stdout  string
	Globals string
	Err     string
}

func c11richSession(mode int, chunks []string, files, prelude bool, globals []string) (res c11richRun) {
	out := &bytes.Buffer{}
	defer func() {
		if r := recover(); r != nil {
			res = c11richRun{Stdout: out.String(), Err: "host panic: " + firstLine(fmt.Sprint(r))}
		}
	}()
	opt := interp.Options{Stdout: out, Stderr: out}
	if files {
		mfs := fstest.MapFS{}
		for k, c := range chunks {
			mfs[fmt.Sprintf("c%02d.go", k)] = &fstest.MapFile{Data: []byte(c)}
		}
		opt.SourcecodeFilesystem = mfs
	}
	i := interp.New(opt)
	if err := i.Use(c11fmt); err != nil {
		panic(err)
	}
	done := make(chan string, 1)
	go func() {
		defer func() {
			if r := recover(); r != nil {
				done <- "host panic: " + firstLine(fmt.Sprint(r))
			}
		}()
		if prelude {
			if _, err := i.Eval(`import "fmt"`); err != nil {
				done <- err.Error()
				return
			}
		}
		var progs []*interp.Program
		for k, c := range chunks {
			var err error
			switch {
			case files:
				_, err = i.EvalPath(fmt.Sprintf("c%02d.go", k))
			case mode == c11Eval:
				_, err = i.Eval(c)
			case mode == c11CompileExecute:
				var p *interp.Program
				if p, err = i.Compile(c); err == nil {
					_, err = i.Execute(p)
				}
			case mode == c11CompileAll:
				var p *interp.Program
				if p, err = i.Compile(c); err == nil {
					progs = append(progs, p)
				}
			}
			if err != nil {
				done <- fmt.Sprintf("chunk %d: %s", k, firstLine(err.Error()))
				return
			}
		}
		for k, p := range progs {
			if _, err := i.Execute(p); err != nil {
				done <- fmt.Sprintf("execute %d: %s", k, firstLine(err.Error()))
				return
			}
		}
		done <- ""
	}()
	select {
	case e := <-done:
		res.Err = e
	case <-time.After(20 * time.Second):
		return c11richRun{Stdout: out.String(), Err: "timeout"}
	}
	res.Stdout = out.String()
	res.Globals = c11canon(i, globals)
	return res
}

// c11rich: templates x seeded constants x cuts x entry points; reference = compiled Go (stdout) and the
// evaluation in one piece by yaegi (stdout and globals).
func c11rich(r *rng, rounds int, sm *summary, distinct distinctSet, id *int) error {
	type job struct {
		prog   c11richProg
		kind   string
		mode   int
		files  bool
		chunks []string
		res    c11richRun
		ref    string
		whole  *job
	}
	var jobs []*job
	var refs []goProg
	for k := 0; k < rounds; k++ {
		for ti, p := range append(c11richTemplates(r), c11richRegionTemplates(r)...) {
			name := fmt.Sprintf("r%03d_%d", k, ti)
			refs = append(refs, goProg{Name: name, Files: map[string]string{"main.go": p.whole()}})
			w := &job{prog: p, kind: "whole", mode: c11Eval, chunks: []string{p.whole()}, ref: name}
			jobs = append(jobs, w)
			for c := 0; c < 4; c++ {
				avg := 1 + r.intn(2)
				if p.Region != "" {
					if c > 0 {
						break
					}
					avg = 1
				}
				var chunks []string
				for _, d := range c11cutStrings(r, p.Decls, avg) {
					chunks = append(chunks, strings.Join(d, "\n"))
				}
				for _, b := range c11cutStrings(r, p.Body, avg) {
					chunks = append(chunks, strings.Join(b, "\n"))
				}
				mode := []int{c11Eval, c11CompileExecute, c11Eval, c11CompileAll}[c]
				jobs = append(jobs, &job{prog: p, kind: "pieces", mode: mode, chunks: chunks, ref: name, whole: w})
			}
			if p.Region != "" {
				continue
			}
			// files of package main, main in the last one
			var files []string
			ds := c11cutStrings(r, p.Decls, 2)
			for k, d := range ds {
				src := "package main\n\nimport \"fmt\"\n\nvar _ = fmt.Sprint\n\n" + strings.Join(d, "\n") + "\n"
				if k == len(ds)-1 {
					src += "\nfunc main() {\n\t" + strings.Join(p.Body, "\n\t") + "\n}\n"
				}
				files = append(files, src)
			}
			jobs = append(jobs, &job{prog: p, kind: "files", mode: c11EvalPath, files: true, chunks: files, ref: name, whole: w})
		}
	}
	var refRes map[string]outcome
	var refErr error
	done := make(chan struct{})
	go func() {
		refRes, refErr = goRefBatch(refs, 20*time.Second, false)
		close(done)
	}()
	parallelMap(len(jobs), 0, func(k int) {
		j := jobs[k]
		j.res = c11richSession(j.mode, j.chunks, j.files, j.kind == "pieces", j.prog.Globals)
	})
	<-done
	if refErr != nil {
		return fmt.Errorf("reference build (rich programs): %w", refErr)
	}
	for _, j := range jobs {
		*id++
		in := map[string]any{"kind": "rich:" + j.kind, "template": j.prog.Name, "entry": c11modeNames[j.mode], "chunks": j.chunks}
		sm.CaseIndex[fmt.Sprint(*id)] = in
		sm.Evaluations++
		sm.RefComparisons++
		sm.count("rich:" + j.prog.Name)
		if j.prog.Region != "" {
			sm.count("region:" + j.prog.Region)
		}
		sm.count("session:rich-" + j.kind + ":" + c11modeNames[j.mode])
		distinct.add(fmt.Sprint(in))
		ref := refRes[j.ref]
		if ref.End != "ok" {
			return fmt.Errorf("rich reference program %s did not run: %+v", j.ref, ref)
		}
		if j.res.Err != "" || j.res.Stdout != ref.Stdout {
			sm.RefMismatches = append(sm.RefMismatches, refMismatch{ID: *id, Region: j.prog.Region, Input: in, Impl: j.res, Ref: ref.Stdout, Note: "reference: compiled Go"})
			continue
		}
		if j.whole != nil {
			sm.RefComparisons++
			if j.res.Stdout != j.whole.res.Stdout || j.res.Globals != j.whole.res.Globals {
				sm.RefMismatches = append(sm.RefMismatches, refMismatch{ID: *id, Region: j.prog.Region, Input: in, Impl: j.res, Ref: j.whole.res, Note: "reference: yaegi, whole program in one Eval"})
			}
		}
	}
	return nil
}
