package main

import (
	"flag"
	"fmt"
	"os"
	"path/filepath"
	"regexp"
	"strconv"
	"strings"
	"time"
)

// C06: panics, defers and recover follow Go semantics and never escape Eval.
//   cases = abstract programs over {print, set, defer, panic/fault, call, recover, re-panic, return}
//           (the syntax of coq/Defer/Model.v), each rendered from ONE AST as Go source and as a Gallina term
//   impl  = real yaegi, run in child processes of this binary (c06_child.go): whole-program Eval, and an
//           in-process variant Eval(defs); Eval("Main()"); Eval("Probe()") on one interpreter
//   ref   = the same source compiled by the Go toolchain (goRefBatch)
//   Y, G  = coq/Defer/Model.v evaluated by coqc on the cases files written here

func init() {
	register("c06", "C06 panics/defers/recover: generate cases, run yaegi (child processes) and compiled Go", runC06)
}

// ---------------------------------------------------------------- abstract syntax (mirrors Defer/Model.v)

// variables of an activation, by index
const (
	c06VarA = 0 // parameter
	c06VarR = 1 // named result
	c06VarX = 2 // local int
	c06VarM = 3 // len of a local map with one key (delete makes it 0)
	c06VarC = 4 // 1 when the local channel is closed
)

type c06VRef struct {
	Up bool // variable of the enclosing activation (only inside function literals)
	I  int
}

type c06Arg struct {
	Own bool  // AOwn I: a variable of the executing activation, else AConst Z
	Z   int64 `json:",omitempty"`
	I   int   `json:",omitempty"`
}

// panic values: kind int|str|err|fault
type c06Base struct {
	Kind  string
	Z     int64  `json:",omitempty"` // int value or tag number of s<n> / e<n>
	Fault string `json:",omitempty"`
}

type c06Stmt struct {
	K     string    // print set defer deferloop deferhost deferb panic call recover repanic return
	Tag   int       `json:",omitempty"`
	Var   *c06VRef  `json:",omitempty"` // print (optional), set
	Z     int64     `json:",omitempty"` // set value, return value
	HasZ  bool      `json:",omitempty"` // return with a value
	F     int       `json:",omitempty"` // callee (index into the function table)
	A     c06Arg    `json:",omitempty"`
	N     int       `json:",omitempty"` // deferloop iterations
	B     string    `json:",omitempty"` // close|delete
	Val   *c06Base  `json:",omitempty"`
	Print bool      `json:",omitempty"` // call: print the result
	Sub   []c06Stmt `json:"-"`
}

type c06Fn struct {
	Kind string // named | method | lit
	Body []c06Stmt
}

type c06Prog struct {
	Fns []c06Fn
	// Fwd: functions are declared in table order (callers first), so that every callee is declared
	// after its callers; the default order is callees first (no forward references).
	Fwd bool
}

var c06Faults = []string{"NilDeref", "IndexOutOfRange", "SliceBounds", "DivByZero", "NilMapWrite", "BadAssert", "CloseClosed"}
var c06FaultCoq = map[string]string{"NilDeref": "FNilDeref", "IndexOutOfRange": "FIndex", "SliceBounds": "FSlice", "DivByZero": "FDiv",
	"NilMapWrite": "FNilMap", "BadAssert": "FAssert", "CloseClosed": "FClose"}

// ---------------------------------------------------------------- rendering 1: Gallina

func (v c06VRef) coq() string {
	if v.Up {
		return fmt.Sprintf("(Up %d)", v.I)
	}
	return fmt.Sprintf("(Own %d)", v.I)
}

func (a c06Arg) coq() string {
	if a.Own {
		return fmt.Sprintf("(AOwn %d)", a.I)
	}
	return "(AConst " + coqZ(a.Z) + ")"
}

func (b c06Base) coq() string {
	switch b.Kind {
	case "int":
		return "(BInt " + coqZ(b.Z) + ")"
	case "str":
		return fmt.Sprintf("(BStr %d%%N)", b.Z)
	case "err":
		return fmt.Sprintf("(BErr %d%%N)", b.Z)
	}
	return "(BFault " + c06FaultCoq[b.Fault] + ")"
}

func (s c06Stmt) coq() string {
	switch s.K {
	case "print":
		if s.Var == nil {
			return fmt.Sprintf("SPrint %d%%N None", s.Tag)
		}
		return fmt.Sprintf("SPrint %d%%N (Some %s)", s.Tag, s.Var.coq())
	case "set":
		return fmt.Sprintf("SSet %s %s", s.Var.coq(), coqZ(s.Z))
	case "defer":
		return fmt.Sprintf("SDefer %d %s", s.F, s.A.coq())
	case "deferloop":
		return fmt.Sprintf("SDeferLoop %d %d", s.N, s.F)
	case "deferhost":
		return fmt.Sprintf("SDeferHost %d%%N %s", s.Tag, s.A.coq())
	case "deferb":
		if s.B == "close" {
			return "SDeferB BClose"
		}
		return "SDeferB BDelete"
	case "panic":
		return "SPanic " + s.Val.coq()
	case "call":
		if s.Print {
			return fmt.Sprintf("SCall %d %s (Some %d%%N)", s.F, s.A.coq(), s.Tag)
		}
		return fmt.Sprintf("SCall %d %s None", s.F, s.A.coq())
	case "recover":
		return "SRecover"
	case "repanic":
		return "SRepanic"
	case "recloop":
		return "SRecoverLoop"
	case "callclo":
		return fmt.Sprintf("SCallClosure %d%%N", s.Tag)
	case "return":
		if s.HasZ {
			return "SReturn (Some " + coqZ(s.Z) + ")"
		}
		return "SReturn None"
	}
	panic("c06: unknown statement kind " + s.K)
}

func (p c06Prog) coq() string {
	var fns []string
	kc := map[string]string{"named": "KNamed", "method": "KMethod", "lit": "KLit"}
	for _, f := range p.Fns {
		var ss []string
		for _, s := range f.Body {
			ss = append(ss, s.coq())
		}
		fns = append(fns, "("+kc[f.Kind]+", "+coqList(ss)+")")
	}
	return "(mkprog " + coqBool(p.Fwd) + " " + coqList(fns) + ")"
}

// ---------------------------------------------------------------- rendering 2: Go source

type c06Printer struct {
	p        c06Prog
	b        strings.Builder
	usesErrs bool
}

func c06VarName(i, depth int) string {
	switch i {
	case c06VarA:
		return fmt.Sprintf("a%d", depth)
	case c06VarR:
		return fmt.Sprintf("r%d", depth)
	case c06VarX:
		return fmt.Sprintf("x%d", depth)
	case c06VarM:
		return fmt.Sprintf("m%d", depth)
	case c06VarC:
		return fmt.Sprintf("c%d", depth)
	}
	return "BADVAR"
}

func c06VarExpr(v c06VRef, depth int) string {
	d := depth
	if v.Up {
		d--
	}
	n := c06VarName(v.I, d)
	switch v.I {
	case c06VarM:
		return "len(" + n + ")"
	case c06VarC:
		return "closed(" + n + ")"
	}
	return n
}

func c06ArgExpr(a c06Arg, depth int) string {
	if a.Own {
		return c06VarName(a.I, depth)
	}
	return strconv.FormatInt(a.Z, 10)
}

func (pr *c06Printer) line(ind int, format string, args ...any) {
	pr.b.WriteString(strings.Repeat("\t", ind))
	fmt.Fprintf(&pr.b, format, args...)
	pr.b.WriteByte('\n')
}

// callee expression for a call or defer at lexical depth `depth`; literals are printed inline.
func (pr *c06Printer) callee(f int, depth, ind int) string {
	fn := pr.p.Fns[f]
	switch fn.Kind {
	case "named":
		return fmt.Sprintf("f%d", f)
	case "method":
		return fmt.Sprintf("tt.f%d", f)
	}
	var sub c06Printer
	sub.p = pr.p
	d := depth + 1
	fmt.Fprintf(&sub.b, "func(a%d int) (r%d int) {\n", d, d)
	sub.body(fn.Body, d, ind+1)
	sub.b.WriteString(strings.Repeat("\t", ind) + "}")
	pr.usesErrs = pr.usesErrs || sub.usesErrs
	return sub.b.String()
}

func (pr *c06Printer) faultBlock(k string, ind int) {
	switch k {
	case "NilDeref":
		pr.line(ind, "var p *T")
		pr.line(ind, "sink = p.n")
	case "IndexOutOfRange":
		pr.line(ind, "s := []int{1}")
		pr.line(ind, "i := 3")
		pr.line(ind, "sink = s[i]")
	case "SliceBounds":
		pr.line(ind, "s := []int{1}")
		pr.line(ind, "i := 3")
		pr.line(ind, "sink = len(s[1:i])")
	case "DivByZero":
		pr.line(ind, "n, z := 1, 0")
		pr.line(ind, "sink = n / z")
	case "NilMapWrite":
		pr.line(ind, "var nm map[string]int")
		pr.line(ind, "nm[\"a\"] = 1")
	case "BadAssert":
		pr.line(ind, "var e interface{} = \"x\"")
		pr.line(ind, "sink = e.(int)")
	case "CloseClosed":
		pr.line(ind, "ch := make(chan int)")
		pr.line(ind, "close(ch)")
		pr.line(ind, "close(ch)")
	}
}

func (pr *c06Printer) body(ss []c06Stmt, d, ind int) {
	pr.line(ind, "x%d := 0", d)
	pr.line(ind, "m%d := map[string]int{\"k\": 1}", d)
	pr.line(ind, "c%d := make(chan int)", d)
	pr.line(ind, "var rv%d interface{}", d)
	pr.line(ind, "_, _, _, _ = x%d, m%d, c%d, rv%d", d, d, d, d)
	if c06UsesClosure(pr.p, ss) {
		pr.line(ind, "g%d := func(t int) {", d)
		pr.line(ind+1, "fmt.Println(\"clo\", t)")
		pr.line(ind, "}")
	}
	for _, s := range ss {
		switch s.K {
		case "print":
			if s.Var == nil {
				pr.line(ind, "fmt.Println(\"p\", %d)", s.Tag)
			} else {
				pr.line(ind, "fmt.Println(\"p\", %d, %s)", s.Tag, c06VarExpr(*s.Var, d))
			}
		case "set":
			pr.line(ind, "%s = %d", c06VarExpr(*s.Var, d), s.Z)
		case "defer":
			pr.line(ind, "defer %s(%s)", pr.callee(s.F, d, ind), c06ArgExpr(s.A, d))
		case "deferloop":
			pr.line(ind, "for i%d := 0; i%d < %d; i%d++ {", d, d, s.N, d)
			pr.line(ind+1, "defer %s(i%d)", pr.callee(s.F, d, ind+1), d)
			pr.line(ind, "}")
		case "deferhost":
			pr.line(ind, "defer fmt.Println(\"host\", %d, %s)", s.Tag, c06ArgExpr(s.A, d))
		case "deferb":
			if s.B == "close" {
				pr.line(ind, "defer close(c%d)", d)
			} else {
				pr.line(ind, "defer delete(m%d, \"k\")", d)
			}
		case "panic":
			pr.line(ind, "if one == 1 {")
			switch s.Val.Kind {
			case "int":
				pr.line(ind+1, "panic(%d)", s.Val.Z)
			case "str":
				pr.line(ind+1, "panic(\"s%d\")", s.Val.Z)
			case "err":
				pr.usesErrs = true
				pr.line(ind+1, "panic(errors.New(\"e%d\"))", s.Val.Z)
			default:
				pr.faultBlock(s.Val.Fault, ind+1)
			}
			pr.line(ind, "}")
		case "call":
			call := fmt.Sprintf("%s(%s)", pr.callee(s.F, d, ind), c06ArgExpr(s.A, d))
			if s.Print {
				pr.line(ind, "fmt.Println(\"ret\", %d, %s)", s.Tag, call)
			} else {
				pr.line(ind, "%s", call)
			}
		case "recover":
			pr.line(ind, "rv%d = recover()", d)
			pr.line(ind, "fmt.Println(\"rec\", rv%d)", d)
		case "repanic":
			pr.line(ind, "if rv%d != nil {", d)
			pr.line(ind+1, "panic(rv%d)", d)
			pr.line(ind, "}")
		case "recloop":
			// the same recover() site executed twice in one activation
			pr.line(ind, "for j%d := 0; j%d < 2; j%d++ {", d, d, d)
			pr.line(ind+1, "rl%d := recover()", d)
			pr.line(ind+1, "fmt.Println(\"rec\", rl%d)", d)
			pr.line(ind, "}")
		case "callclo":
			// call of a closure value created by the enclosing activation
			pr.line(ind, "g%d(%d)", d-1, s.Tag)
		case "return":
			pr.line(ind, "if one == 1 {")
			if s.HasZ {
				pr.line(ind+1, "return %d", s.Z)
			} else {
				pr.line(ind+1, "return")
			}
			pr.line(ind, "}")
		}
	}
	pr.line(ind, "return")
}

// c06UsesClosure reports whether a literal used directly by the body calls the closure of the enclosing activation.
func c06UsesClosure(p c06Prog, ss []c06Stmt) bool {
	for _, s := range ss {
		if (s.K == "defer" || s.K == "deferloop" || s.K == "call") && p.Fns[s.F].Kind == "lit" {
			for _, t := range p.Fns[s.F].Body {
				if t.K == "callclo" {
					return true
				}
			}
		}
	}
	return false
}

// goSource renders the program; entry is "main" (whole program) or "Main" (definitions only, for the
// in-process variant where Main and Probe are called by later Evals).
func (p c06Prog) goSource(entry string) string {
	var pr c06Printer
	pr.p = p
	for k := range p.Fns {
		i := len(p.Fns) - 1 - k
		if p.Fwd {
			i = k
		}
		f := p.Fns[i]
		switch f.Kind {
		case "named":
			fmt.Fprintf(&pr.b, "func f%d(a0 int) (r0 int) {\n", i)
		case "method":
			fmt.Fprintf(&pr.b, "func (t T) f%d(a0 int) (r0 int) {\n", i)
		default:
			continue
		}
		pr.body(f.Body, 0, 1)
		pr.b.WriteString("}\n\n")
	}
	var h strings.Builder
	h.WriteString("package main\n\nimport (\n")
	if pr.usesErrs {
		h.WriteString("\t\"errors\"\n")
	}
	h.WriteString("\t\"fmt\"\n)\n\nvar _ = fmt.Sprint\nvar one = 1\nvar sink int\n\ntype T struct{ n int }\n\nvar tt = T{7}\n\n")
	h.WriteString("func closed(c chan int) int {\n\tselect {\n\tcase <-c:\n\t\treturn 1\n\tdefault:\n\t\treturn 0\n\t}\n}\n\n")
	h.WriteString(pr.b.String())
	if entry == "main" {
		h.WriteString("func main() {\n\tf0(0)\n}\n")
	} else {
		h.WriteString("func Main() {\n\tf0(0)\n}\n\nfunc Probe() int {\n\treturn 4242\n}\n")
	}
	return h.String()
}

// ---------------------------------------------------------------- observed outputs -> Gallina

var (
	c06IntRe = regexp.MustCompile(`^-?\d+$`)
	c06StrRe = regexp.MustCompile(`^s(\d+)$`)
	c06ErrRe = regexp.MustCompile(`^e(\d+)$`)
)

// c06Shown renders what fmt printed for a recovered / escaping panic value as a [shown] term.
func c06Shown(text string) string {
	switch {
	case text == "<nil>":
		return "ShNil"
	case text == "<int Value>":
		return "ShIntValue"
	case text == "<error Value>":
		return "ShErrValue"
	case text == "<interface {} Value>":
		return "ShIfaceValue"
	case c06IntRe.MatchString(text):
		z, err := strconv.ParseInt(text, 10, 64)
		if err != nil {
			return "ShJunk"
		}
		return "(ShBase (BInt " + coqZ(z) + "))"
	case c06StrRe.MatchString(text):
		return "(ShBase (BStr " + c06StrRe.FindStringSubmatch(text)[1] + "%N))"
	case c06ErrRe.MatchString(text):
		return "(ShBase (BErr " + c06ErrRe.FindStringSubmatch(text)[1] + "%N))"
	}
	cl := classifyPanic(strings.TrimPrefix(text, "runtime error: "))
	if k, ok := c06FaultCoq[cl]; ok {
		return "(ShBase (BFault " + k + "))"
	}
	return "ShJunk"
}

// canonical text of a shown value, used to compare implementation and reference outside Coq
func c06CanonLine(l string) string {
	if strings.HasPrefix(l, "rec ") {
		return "rec " + c06Shown(strings.TrimPrefix(l, "rec "))
	}
	return l
}

func c06CanonStdout(out string) string {
	ls := strings.Split(strings.TrimSuffix(out, "\n"), "\n")
	for i, l := range ls {
		ls[i] = c06CanonLine(l)
	}
	return strings.Join(ls, "\n")
}

func c06Events(out string) string {
	if out == "" {
		return "[]"
	}
	var evs []string
	for _, l := range strings.Split(strings.TrimSuffix(out, "\n"), "\n") {
		f := strings.Fields(l)
		ev := "EJunk"
		isInt := func(x string) bool { return c06IntRe.MatchString(x) && len(x) < 18 }
		z := func(x string) string { v, _ := strconv.ParseInt(x, 10, 64); return coqZ(v) }
		switch {
		case strings.HasPrefix(l, "rec "):
			ev = "ERec " + c06Shown(strings.TrimPrefix(l, "rec "))
		case len(f) == 2 && f[0] == "p" && isInt(f[1]) && !strings.HasPrefix(f[1], "-"):
			ev = "EPrint " + f[1] + "%N None"
		case len(f) == 3 && f[0] == "p" && isInt(f[1]) && !strings.HasPrefix(f[1], "-") && isInt(f[2]):
			ev = "EPrint " + f[1] + "%N (Some " + z(f[2]) + ")"
		case len(f) == 3 && f[0] == "ret" && isInt(f[1]) && !strings.HasPrefix(f[1], "-") && isInt(f[2]):
			ev = "ERet " + f[1] + "%N " + z(f[2])
		case len(f) == 3 && f[0] == "host" && isInt(f[1]) && !strings.HasPrefix(f[1], "-") && isInt(f[2]):
			ev = "EHost " + f[1] + "%N " + z(f[2])
		case len(f) == 2 && f[0] == "clo" && isInt(f[1]) && !strings.HasPrefix(f[1], "-"):
			ev = "EClo " + f[1] + "%N"
		}
		evs = append(evs, ev)
	}
	return coqList(evs)
}

// c06Fin renders a canonical End ("ok" | "panic:<class or value:text>" | ...) as a [fin] term.
func c06Fin(end string) string {
	switch {
	case end == "ok":
		return "FinOk"
	case end == "timeout":
		return "FinHang"
	case strings.HasPrefix(end, "panic:value:"):
		return "(FinPanic " + c06Shown(strings.TrimPrefix(end, "panic:value:")) + ")"
	case strings.HasPrefix(end, "panic:"):
		if k, ok := c06FaultCoq[strings.TrimPrefix(end, "panic:")]; ok {
			return "(FinPanic (ShBase (BFault " + k + ")))"
		}
	}
	return "FinOther"
}

// c06CarrierCoq renders what Panic.Value was found to carry: None, or Some (layers of reflect.Value, kind).
func c06CarrierCoq(o c06ChildOut) string {
	if !o.IsPanicErr {
		return "None"
	}
	k := map[string]string{"int": "VkInt", "str": "VkStr", "err": "VkErr", "fault": "VkFault"}[o.VKind]
	if k == "" {
		k = "VkOther"
	}
	return fmt.Sprintf("(Some (%d, %s))", o.Wraps, k)
}

func c06CanonEnd(end string) string {
	if strings.HasPrefix(end, "panic:value:") {
		return "panic:" + c06Shown(strings.TrimPrefix(end, "panic:value:"))
	}
	return end
}

// ---------------------------------------------------------------- driver

type c06Case struct {
	ID     int
	Region string
	Shape  string
	Prog   c06Prog
	Src    string
	Impl   c06ChildOut
	Ref    outcome
}

func runC06(args []string) error {
	fs := flag.NewFlagSet("c06", flag.ExitOnError)
	out := fs.String("out", "/verif/build/C06", "output directory")
	tier := fs.String("tier", "quick", "quick|thorough")
	seed := fs.Uint64("seed", envSeed(), "seed")
	dump := fs.Int("dump", 0, "print the Go source of this case id and stop")
	fs.Parse(args)
	if err := os.MkdirAll(*out, 0o755); err != nil {
		return err
	}
	sm := newSummary("C06")
	cases := c06Generate(newRng(*seed), *tier, sm)
	for i := range cases {
		cases[i].ID = i + 1
		cases[i].Src = cases[i].Prog.goSource("main")
	}
	if *dump > 0 && *dump <= len(cases) {
		c := cases[*dump-1]
		fmt.Printf("// region=%q shape=%s\n%s\n(* %s *)\n", c.Region, c.Shape, c.Src, c.Prog.coq())
		return nil
	}

	// ---- streams outside the Coq models: receiver pool, usability sessions (c06_aux.go)
	nPool, nSess := 60, 4
	if *tier == "thorough" {
		nPool, nSess = 600, 40
	}
	auxRng := newRng(*seed ^ 0xC06A)
	pool := c06PoolGenerate(auxRng, nPool)
	sessions := make([]c06Session, nSess)
	for i := range sessions {
		sessions[i] = c06SessionGenerate(auxRng)
	}
	aprogs := c06AssertPrograms() // type-assertion matrix: complete in every run
	ecells := c06EntryCells()     // entry point x panic site x value: complete in every run
	rprogs := c06ReachPrograms()  // callee kind x how the deferred function is reached x use x value: complete in every run
	fprogs := c06FramePrograms(*seed) // declaration form of the frames unwound through x panic kind x recovering frame
	frameID := func(i int) int {
		return len(cases) + len(pool) + len(sessions) + len(aprogs) + len(ecells) + len(rprogs) + 1 + i
	}
	reachID := func(i int) int {
		return len(cases) + len(pool) + len(sessions) + len(aprogs) + len(ecells) + 1 + i
	}
	poolID := func(i int) int { return len(cases) + 1 + i }
	sessID := func(i int) int { return len(cases) + len(pool) + 1 + i }
	assertID := func(i int) int { return len(cases) + len(pool) + len(sessions) + 1 + i }
	entryID := func(i int) int { return len(cases) + len(pool) + len(sessions) + len(aprogs) + 1 + i }
	asDefs := func(src string) string { return strings.Replace(src, "func main() {", "func Main() {", 1) }

	// ---- implementation (child processes) and reference (compiled Go), concurrently
	t0 := time.Now()
	refDone := make(chan error, 1)
	var refs map[string]outcome
	go func() {
		progs := make([]goProg, len(cases))
		for i, c := range cases {
			progs[i] = goProg{Name: fmt.Sprintf("c%05d", c.ID), Files: map[string]string{"main.go": c.Src, "defs": c.Prog.goSource("Main")}}
		}
		for i, pc := range pool {
			progs = append(progs, goProg{Name: fmt.Sprintf("c%05d", poolID(i)), Files: map[string]string{"main.go": pc.Src, "defs": asDefs(pc.Src)}})
			if pc.SrcY != "" {
				progs = append(progs, goProg{Name: fmt.Sprintf("y%05d", poolID(i)), Files: map[string]string{"main.go": pc.SrcY, "defs": asDefs(pc.SrcY)}})
			}
		}
		for i, ss := range sessions {
			src := ss.goSource()
			progs = append(progs, goProg{Name: fmt.Sprintf("c%05d", sessID(i)), Files: map[string]string{"main.go": src, "defs": asDefs(src)}})
		}
		for i, ap := range aprogs {
			progs = append(progs, goProg{Name: fmt.Sprintf("c%05d", assertID(i)), Files: map[string]string{"main.go": ap.Src, "defs": asDefs(ap.Src)}})
		}
		for i, rp := range rprogs {
			progs = append(progs, goProg{Name: fmt.Sprintf("c%05d", reachID(i)), Files: map[string]string{"main.go": rp.Src, "defs": asDefs(rp.Src)}})
		}
		for i, fp := range fprogs {
			progs = append(progs, goProg{Name: fmt.Sprintf("c%05d", frameID(i)), Files: map[string]string{"main.go": fp.Src, "defs": asDefs(fp.Src)}})
		}
		var err error
		refs, err = c06RefAll(progs, 10*time.Second)
		refDone <- err
	}()
	ins := make([]c06ChildIn, len(cases))
	for i, c := range cases {
		ins[i] = c06ChildIn{ID: c.ID, Src: c.Src, Defs: c.Prog.goSource("Main")}
	}
	for i, pc := range pool {
		ins = append(ins, c06ChildIn{ID: poolID(i), Src: pc.Src, Aux: true})
	}
	for i := range sessions {
		ins = append(ins, c06ChildIn{ID: sessID(i), Session: &sessions[i]})
	}
	for i, ap := range aprogs {
		ins = append(ins, c06ChildIn{ID: assertID(i), Src: ap.Src, Aux: true})
	}
	for i := range ecells {
		ins = append(ins, c06ChildIn{ID: entryID(i), Entry: &ecells[i]})
	}
	for i, rp := range rprogs {
		ins = append(ins, c06ChildIn{ID: reachID(i), Src: rp.Src, Aux: true})
	}
	for i, fp := range fprogs {
		ins = append(ins, c06ChildIn{ID: frameID(i), Src: fp.Src, Aux: true})
	}
	outs := c06RunChildren(ins, 4*time.Second)
	tImpl := time.Since(t0)
	if err := <-refDone; err != nil {
		return err
	}
	sm.Notes = append(sm.Notes, fmt.Sprintf("yaegi children %.1fs, go reference (concurrent) done after %.1fs", tImpl.Seconds(), time.Since(t0).Seconds()))

	distinct := distinctSet{}
	var rows []string
	for i := range cases {
		c := &cases[i]
		c.Impl = outs[c.ID]
		c.Ref = refs[fmt.Sprintf("c%05d", c.ID)]
		in := map[string]any{"region": c.Region, "shape": c.Shape, "source": c.Src, "model": c.Prog.coq()}
		sm.CaseIndex[fmt.Sprint(c.ID)] = in
		sm.Evaluations++
		sm.ImplComparisons++
		sm.RefComparisons++
		sm.count("stream:" + c.Shape)
		if c.Region != "" {
			sm.count("region:" + c.Region)
		}
		c06Distribution(sm, c.Prog, c.Ref)
		if c06Nontrivial(c.Prog) {
			distinct.add(c.Prog.coq())
		}
		if len(sm.Samples) < 4 && i%97 == 3 {
			sm.Samples = append(sm.Samples, in)
		}
		implO := outcome{Stdout: c.Impl.Stdout, End: c.Impl.End}
		if c06CanonStdout(implO.Stdout) != c06CanonStdout(c.Ref.Stdout) || c06CanonEnd(implO.End) != c06CanonEnd(c.Ref.End) {
			sm.RefMismatches = append(sm.RefMismatches, refMismatch{ID: c.ID, Region: c.Region, Input: in, Impl: implO, Ref: c.Ref})
		}
		// contract part that has no compiled counterpart: the panic comes back as interp.Panic, the
		// host survives, the same interpreter still evaluates
		if v := c.Impl.contractViolation(); v != "" {
			sm.HarnessViolations = append(sm.HarnessViolations, refMismatch{ID: c.ID, Region: c.Region, Input: in, Impl: c.Impl, Ref: "contract: " + v, Note: v})
		}
		reg := "false"
		if c.Region != "" {
			reg = "true"
		}
		rows = append(rows, fmt.Sprintf("(%d%%N, %s,\n  %s,\n  (%s, %s, %s),\n  (%s, %s))", c.ID, reg, c.Prog.coq(),
			c06Events(implO.Stdout), c06Fin(implO.End), c06CarrierCoq(c.Impl), c06Events(c.Ref.Stdout), c06Fin(c.Ref.End)))
	}

	// ---- receiver pool: implementation vs compiled Go (and vs the rendering of model Y where they differ)
	for i, pc := range pool {
		id := poolID(i)
		impl := outs[id]
		ref := refs[fmt.Sprintf("c%05d", id)]
		in := map[string]any{"region": pc.Region, "shape": "pool", "forms": pc.Forms, "loop": pc.Loop, "depth": pc.Depth, "source": pc.Src}
		sm.CaseIndex[fmt.Sprint(id)] = in
		sm.Evaluations++
		sm.RefComparisons++
		sm.count("stream:pool")
		for _, f := range pc.Forms {
			sm.count("pool-form:" + f)
		}
		distinct.add("pool", pc.Src)
		implO := outcome{Stdout: impl.Stdout, End: impl.End}
		if pc.SrcY != "" {
			sm.count("region:" + pc.Region)
			refY := refs[fmt.Sprintf("y%05d", id)]
			if implO.Stdout != refY.Stdout || implO.End != refY.End {
				sm.HarnessViolations = append(sm.HarnessViolations, refMismatch{ID: id, Region: "", Input: in, Impl: implO, Ref: refY,
					Note: "interpreted method deferred in a loop: output differs from the rendering of model Y (receiver read when the call runs)"})
			}
		}
		if implO.Stdout != ref.Stdout || implO.End != ref.End {
			sm.RefMismatches = append(sm.RefMismatches, refMismatch{ID: id, Region: pc.Region, Input: in, Impl: implO, Ref: ref})
		}
		if len(sm.Samples) < 5 && i == 0 {
			sm.Samples = append(sm.Samples, in)
		}
	}
	// ---- usability sessions: every observed step vs the same session compiled
	for i, ss := range sessions {
		id := sessID(i)
		impl := outs[id]
		ref := refs[fmt.Sprintf("c%05d", id)]
		var refLines []string
		for _, l := range strings.Split(strings.TrimSuffix(ref.Stdout, "\n"), "\n") {
			refLines = append(refLines, c06SessionCanon(l))
		}
		implLines := make([]string, len(impl.Lines))
		for k, l := range impl.Lines {
			implLines[k] = c06SessionCanon(l)
		}
		in := map[string]any{"region": "", "shape": "session", "steps": ss.Steps, "definitions": ss.Defs}
		sm.CaseIndex[fmt.Sprint(id)] = in
		sm.Evaluations++
		sm.RefComparisons++
		sm.count("stream:session")
		sm.Distribution["session-steps"] += len(ss.Steps)
		distinct.add("session", fmt.Sprint(ss.Steps))
		if strings.Join(implLines, "\n") != strings.Join(refLines, "\n") || ref.End != "ok" || strings.HasPrefix(impl.End, "host-crash") {
			first := ""
			for k := 0; k < len(implLines) || k < len(refLines); k++ {
				a, b := "<missing>", "<missing>"
				if k < len(implLines) {
					a = implLines[k]
				}
				if k < len(refLines) {
					b = refLines[k]
				}
				if a != b {
					first = fmt.Sprintf("first difference at step line %d: yaegi %q, compiled Go %q", k+1, a, b)
					break
				}
			}
			sm.RefMismatches = append(sm.RefMismatches, refMismatch{ID: id, Region: "", Input: in, Impl: map[string]any{"lines": implLines, "end": impl.End}, Ref: map[string]any{"lines": refLines, "end": ref.End}, Note: first})
		}
	}

	// ---- type-assertion matrix: every cell vs compiled Go; cells of the baseline c06AssertToday vs the baseline
	for i, ap := range aprogs {
		id := assertID(i)
		impl := outs[id]
		ref := refs[fmt.Sprintf("c%05d", id)]
		il, rl := c06AssertLines(impl.Stdout), c06AssertLines(ref.Stdout)
		op := c06AOperands[i]
		in := map[string]any{"shape": "assert", "static": op.static, "dynamic": op.dyn, "value": op.value, "source": ap.Src}
		sm.CaseIndex[fmt.Sprint(id)] = in
		sm.Evaluations++
		sm.RefComparisons++
		sm.count("stream:assert")
		distinct.add("assert", ap.Src)
		var known, unknown, drift []string
		for _, c := range ap.Cells {
			form := "1"
			if c.CommaOk {
				form = "k"
			}
			sm.count("assert-cell:" + c.Class + ":" + form)
			key := c.Static + "|" + c.Dyn + "|" + c.Target + "|" + form
			desc := fmt.Sprintf("%s x.(%s) [%s, comma-ok=%v]: yaegi %q, compiled Go %q", c.ID, c.Target, c.Class, c.CommaOk, il[c.ID], rl[c.ID])
			if today, ok := c06AssertToday[key]; ok {
				if il[c.ID] != today {
					drift = append(drift, desc+fmt.Sprintf(", recorded behaviour of the unchanged tree %q", today))
				} else if il[c.ID] != rl[c.ID] {
					known = append(known, desc)
				}
			} else if il[c.ID] != rl[c.ID] {
				unknown = append(unknown, desc)
			}
		}
		if ref.End != "ok" || impl.End != "ok" {
			unknown = append(unknown, fmt.Sprintf("program ends: yaegi %q, compiled Go %q", impl.End, ref.End))
		}
		if len(known) > 0 {
			sm.count("region:type-assert-deviations")
			sm.RefMismatches = append(sm.RefMismatches, refMismatch{ID: id, Region: "type-assert-deviations", Input: in, Impl: known, Ref: "compiled Go", Note: known[0]})
		}
		if len(unknown) > 0 {
			sm.RefMismatches = append(sm.RefMismatches, refMismatch{ID: id, Region: "", Input: in, Impl: unknown, Ref: "compiled Go", Note: unknown[0]})
		}
		if len(drift) > 0 {
			sm.HarnessViolations = append(sm.HarnessViolations, refMismatch{ID: id, Region: "", Input: in, Impl: drift, Ref: "recorded behaviour (c06AssertToday)", Note: drift[0]})
		}
	}
	// ---- how the deferred function is reached: every cell vs compiled Go, and vs the mechanism rule where it differs
	for i, rp := range rprogs {
		id := reachID(i)
		impl := outs[id]
		ref := refs[fmt.Sprintf("c%05d", id)]
		il, rl := c06ReachResults(impl.Stdout), c06ReachResults(ref.Stdout)
		in := map[string]any{"shape": "reach", "kind": rp.Kind, "reach": rp.Form, "source": rp.Src}
		sm.CaseIndex[fmt.Sprint(id)] = in
		sm.Evaluations++
		sm.RefComparisons++
		sm.count("stream:reach")
		distinct.add("reach", rp.Src)
		var known, unknown, drift []string
		for _, c := range rp.Cells {
			sm.count("reach-cell:" + c.Kind + ":" + c.Form)
			want := c06ReachExpectedYaegi(c, rl[c.ID])
			desc := fmt.Sprintf("%s: yaegi %q, compiled Go %q", c.ID, il[c.ID], rl[c.ID])
			switch {
			case il[c.ID] != want:
				if want != rl[c.ID] {
					drift = append(drift, desc+fmt.Sprintf(", mechanism of the unchanged tree %q", want))
				} else {
					unknown = append(unknown, desc)
				}
			case il[c.ID] != rl[c.ID]:
				known = append(known, desc)
			}
		}
		if ref.End != "ok" || impl.End != "ok" {
			unknown = append(unknown, fmt.Sprintf("program ends: yaegi %q, compiled Go %q", impl.End, ref.End))
		}
		if len(known) > 0 {
			sm.count("region:funcvalue-recover-anchor")
			sm.RefMismatches = append(sm.RefMismatches, refMismatch{ID: id, Region: "funcvalue-recover-anchor", Input: in, Impl: known, Ref: "compiled Go", Note: known[0]})
		}
		if len(unknown) > 0 {
			sm.RefMismatches = append(sm.RefMismatches, refMismatch{ID: id, Region: "", Input: in, Impl: unknown, Ref: "compiled Go", Note: unknown[0]})
		}
		if len(drift) > 0 {
			sm.HarnessViolations = append(sm.HarnessViolations, refMismatch{ID: id, Region: "", Input: in, Impl: drift, Ref: "mechanism rule c06ReachYaegiEffective", Note: drift[0]})
		}
	}
	// ---- declaration form of the frames a panic unwinds through: stdout, recovered %T/%v and end vs compiled Go
	for i, fp := range fprogs {
		id := frameID(i)
		impl := outs[id]
		ref := refs[fmt.Sprintf("c%05d", id)]
		in := map[string]any{"shape": "frames", "inner": fp.Inner, "mid": fp.Mid, "recovered": fp.Mode, "kind": fp.Kind, "source": fp.Src}
		sm.CaseIndex[fmt.Sprint(id)] = in
		sm.Evaluations++
		sm.RefComparisons++
		sm.count("stream:frames")
		sm.count("frames-inner:" + fp.Inner)
		sm.count("frames-mid:" + fp.Mid)
		sm.Distribution["frames-cells"] += fp.Cells
		distinct.add("frames", fp.Src)
		if d := c06FrameDiff(outcome{Stdout: impl.Stdout, End: impl.End}, ref); d != "" {
			sm.RefMismatches = append(sm.RefMismatches, refMismatch{ID: id, Region: "", Input: in, Impl: outcome{Stdout: impl.Stdout, End: impl.End}, Ref: ref, Note: d})
		}
		if fp.Mode == "none" && !impl.IsPanicErr {
			sm.HarnessViolations = append(sm.HarnessViolations, refMismatch{ID: id, Region: "", Input: in, Impl: impl, Ref: "contract: an unrecovered panic comes out of Eval as interp.Panic", Note: "end " + impl.End})
		}
	}
	// ---- entry points x panic sites: every cell vs the contract; cells of finding import-init-panic-escapes vs today's behaviour
	for i, c := range ecells {
		id := entryID(i)
		o := outs[id]
		src, files, want := c06EntrySources(c)
		got := "host-crash"
		usable := ""
		if len(o.Lines) == 2 {
			got, usable = o.Lines[0], o.Lines[1]
		} else if !strings.HasPrefix(o.End, "host-crash") {
			got = "no result: " + o.End
		}
		in := map[string]any{"shape": "entry", "entry": c.Entry, "site": c.Site, "value": c.Val, "source": src, "gopath_files": files}
		sm.CaseIndex[fmt.Sprint(id)] = in
		sm.Evaluations++
		sm.RefComparisons++
		sm.count("stream:entry")
		sm.count("entry:" + c.Entry)
		sm.count("entry-site:" + c.Site)
		distinct.add("entry", c.Entry, c.Site, c.Val)
		contract := "panic-err:" + want
		impl := map[string]any{"outcome": got, "after": usable, "child": o.End}
		today := c06EntryExpectedToday(c, want)
		switch {
		case today != "":
			sm.count("region:import-init-panic-escapes")
			if got != today || (today != "host-crash" && usable != "usable") {
				sm.HarnessViolations = append(sm.HarnessViolations, refMismatch{ID: id, Region: "", Input: in, Impl: impl, Ref: "behaviour of the unchanged tree: " + today + ", usable",
					Note: "entry " + c.Entry + ", panic in " + c.Site + ": differs from the recorded behaviour of the unchanged tree"})
			} else {
				sm.RefMismatches = append(sm.RefMismatches, refMismatch{ID: id, Region: "import-init-panic-escapes", Input: in, Impl: impl, Ref: "contract: " + contract + ", usable"})
			}
		case got != contract || usable != "usable":
			sm.RefMismatches = append(sm.RefMismatches, refMismatch{ID: id, Region: "", Input: in, Impl: impl, Ref: "contract: " + contract + ", usable",
				Note: "entry " + c.Entry + ", panic in " + c.Site + " (" + c.Val + ")"})
		}
	}

	hdr := "From Verif Require Import Defer.Model Defer.Cases.\nImport ListNotations.\nOpen Scope list_scope.\n"
	per := 250
	for i, k := 0, 0; i < len(rows); i, k = i+per, k+1 {
		j := i + per
		if j > len(rows) {
			j = len(rows)
		}
		body := fmt.Sprintf("Definition cases : list c06_case := [\n%s\n].\nDefinition MY := Eval vm_compute in c06_mis_y cases.\nPrint MY.\nDefinition MG := Eval vm_compute in c06_mis_g cases.\nPrint MG.\n",
			strings.Join(rows[i:j], ";\n"))
		name := fmt.Sprintf("cases_c06_%d.v", k)
		sm.CasesFiles = append(sm.CasesFiles, name)
		if err := os.WriteFile(filepath.Join(*out, name), []byte(hdr+body), 0o644); err != nil {
			return err
		}
	}
	sm.Notes = append(sm.Notes,
		"not generated: deferred builtin println (yaegi writes it to Options.Stdout, compiled Go to stderr), panic values of struct type (the run-time prints them differently from fmt), goroutines, runtime.Goexit, os.Exit/log.Fatal",
		"pool stream (c06_aux.go): deferred method values of host types, interpreted methods with value/pointer receivers, function values in slices/fields/variables with 0..n arguments, the same defer statement executed in a loop and in a recursion on different receivers; compared with compiled Go (and, for interpreted methods in a loop, with the rendering of model Y); not evaluated in Coq",
		"session stream (c06_aux.go): one interpreter; named function, methods, closure / method value / literal in package variables, global state and host-held function values are used from later Evals and natively after each of 13 kinds of panicking Eval; compared step by step with the same session compiled; not evaluated in Coq",
		"assert stream (c06_assert.go): failed type assertion as a run-time fault: operand static type x dynamic value x target (concrete, script interface with fewer/equal/more/other methods, host interface, empty interface) x single-value and comma-ok, complete matrix in every run, each cell vs compiled Go; the cells on which the unchanged tree already deviates are held to the recorded baseline c06AssertToday (behavioural, not a model); not evaluated in Coq",
		"reach stream (c06_reach.go): recover in a callee of kind package-level function / value- and pointer-receiver method / literal (0 or 1 argument) reached by direct name, local variable, package variable, slice element, struct field, map element, parameter, function result, range variable, either deferred itself or called by a deferred literal, with a string panic, a fault or none; complete matrix in every run, each cell vs compiled Go; where the unchanged tree deviates (finding funcvalue-recover-anchor) the cell is held to the mechanism rule c06ReachYaegiEffective (frame where the value was taken); not evaluated in Coq; left out: function returning a package-level function, method expressions (yaegi cannot run them)",
		"frames stream (c06_frames.go): call path plain function -> mid frame -> inner frame with the panic in the inner frame; declaration form of both frames (function, literal in a package variable, method with named / unnamed / blank value and pointer receiver, method value, method expression, function with blank parameters and named results, literal with a named result; every form in both positions in every run, pairing rotated by the seed) x panic kind (string, int, error, named string type, divide by zero, nil map write, index out of range) x recovered in the inner frame / the mid frame / the function on top / not at all; stdout, recovered value as %v (faults reduced to their class; %T printed but not compared: finding C06-repanic-wrap) and the end vs compiled Go; not evaluated in Coq; left out: function with unnamed parameters and named results (the unchanged tree misruns func f(int) (r int), not investigated)",
		"entry stream (c06_entry.go): Eval, EvalWithContext, EvalPath, EvalPathWithContext, Compile+Execute, Compile+ExecuteWithContext, REPL x panic in main / init / package variable / deferred call / nested call / init and variable initialiser of an imported source package x string, error, fault; each cell in a child process against the contract (interp.Panic with the value, no Go panic on any goroutine, 1+1 afterwards); not evaluated in Coq",
		"every case is also run as Eval(definitions); Eval(\"Main()\"); Eval(\"Probe()\") through Interpreter.Eval on one interpreter: same output, error of type interp.Panic, carried value (reflect.Value layers, kind) as predicted by Y, Probe() = 4242")
	sm.DistinctNontriv = len(distinct)
	sm.Rule = "programs = function tables (call trees of depth <= 4) over print/set/defer(named|method|literal|host|close|delete|in a loop)/panic(int|string|error)/" +
		"seven run-time faults/call/recover/re-panic/return, systematic small shapes plus seeded sampling; distinct = distinct abstract programs; " +
		"non-trivial = at least one defer and one panic/fault or recover somewhere in the table"
	return sm.write(*out)
}

func c06Nontrivial(p c06Prog) bool {
	def, pan := false, false
	for _, f := range p.Fns {
		for _, s := range f.Body {
			switch s.K {
			case "defer", "deferloop", "deferhost", "deferb":
				def = true
			case "panic", "recover", "repanic", "recloop":
				pan = true
			}
		}
	}
	return def && pan
}

func c06Distribution(sm *summary, p c06Prog, ref outcome) {
	sm.count(fmt.Sprintf("functions:%d", len(p.Fns)))
	for _, f := range p.Fns {
		for _, s := range f.Body {
			k := s.K
			switch s.K {
			case "panic":
				k = "panic:" + s.Val.Kind
				if s.Val.Kind == "fault" {
					k = "fault:" + s.Val.Fault
				}
			case "defer", "deferloop", "call":
				k = s.K + ":" + p.Fns[s.F].Kind
			case "deferb":
				k = "defer:" + s.B
			}
			sm.count("stmt:" + k)
		}
	}
	switch {
	case ref.End == "ok":
		sm.count("ref-end:ok")
	case strings.HasPrefix(ref.End, "panic:"):
		sm.count("ref-end:panic")
	default:
		sm.count("ref-end:" + ref.End)
	}
	if strings.Contains(ref.Stdout, "rec ") && !strings.Contains(c06CanonStdout(ref.Stdout), "rec ShNil") {
		sm.count("ref:effective-recover")
	}
}
