package main

import (
	"context"
	"errors"
	"flag"
	"fmt"
	"os"
	"path/filepath"
	"reflect"
	"sort"
	"strings"
	"sync/atomic"
	"time"

	"github.com/traefik/yaegi/interp"
)

// C10: a cancelled evaluation does not damage earlier definitions.
//   impl  = real yaegi driven through histories  define ; (use | redefine | cancelled-eval)*
//   Y     = the run-id gate machine (coq/Cancel/Model.v) driven by the same history (Cancel/Cases.v y_hist)
//   ref/G = every use yields what the same use yielded before the first cancellation
// Histories are executed by the C09 worker processes (the step hook is needed to cancel a busy
// loop at an exact operation and to decide the race of an already expired context).

func init() {
	register("c10", "C10 earlier definitions after cancelled evaluations: seeded histories against the run-id gate model", runC10)
}

type c10ev struct {
	Op    string `json:"op"`              // define | use | cancel
	Kind  string `json:"kind,omitempty"`  // use: named method closvar methval chanfn
	Via   string `json:"via,omitempty"`   // use: eval evalctx host-eval host-sym
	What  string `json:"what,omitempty"`  // cancel: busy blocked expired (as executed: expired-ran / expired-not)
	K     int    `json:"k,omitempty"`     // cancel busy: park before operation k
	Entry string `json:"entry,omitempty"` // cancel: "" = EvalWithContext, exec = Compile + ExecuteWithContext
}

type c10use struct {
	Expr   string `json:"expr"`
	Got    string `json:"got"`
	Want   string `json:"want"`
	Normal bool   `json:"normal"`
	Zero   bool   `json:"zero"`
}

const c10defs = `package main

import (
	"host"
	"sync"
)

func F(x int) int { return 7*x + 1 }

type T struct{ a int }

func (t T) M(x int) int { return t.a + x }

var T0 = T{5}

var Clo = func(x int) int { return 3*x + 2 }

var MV = T0.M

func CC() int {
	c := make(chan int)
	go func() {
		host.Wait()
		c <- 42
	}()
	v := <-c
	return v + 1
}

// the same rendez-vous through the other blocking constructs; the partner first waits in the host
// (host.Wait: a short delay, or until the harness lets it go)
func CSend() int {
	c := make(chan int)
	r := make(chan int, 1)
	go func() {
		host.Wait()
		v := <-c
		r <- v
	}()
	c <- 42
	return <-r + 1
}

func CRecv2() int {
	c := make(chan int)
	go func() {
		host.Wait()
		c <- 42
	}()
	v, ok := <-c
	if !ok {
		return -1
	}
	return v + 1
}

func CRange() int {
	c := make(chan int)
	go func() {
		host.Wait()
		c <- 42
	}()
	for v := range c {
		return v + 1
	}
	return -1
}

func CSel() int {
	c := make(chan int)
	d := make(chan int)
	go func() {
		host.Wait()
		c <- 42
	}()
	select {
	case v := <-c:
		return v + 1
	case v := <-d:
		return v
	}
}

// a shared resource taken for the duration of the call and released by a DEFERRED call (Mutex.Unlock,
// WaitGroup.Done), with the rendez-vous inside the section: when the evaluation that is cancelled is
// stopped inside it, the deferred release must still happen, or every later use waits for ever
var gmu sync.Mutex

var gwg sync.WaitGroup

func DM() int {
	gmu.Lock()
	defer gmu.Unlock()
	c := make(chan int)
	go func() {
		host.Wait()
		c <- 42
	}()
	v := <-c
	return v + 1
}

func DW() int {
	gwg.Wait()
	gwg.Add(1)
	defer gwg.Done()
	c := make(chan int)
	go func() {
		host.Wait()
		c <- 42
	}()
	select {
	case v := <-c:
		return v + 1
	}
}

// the same rendez-vous over channels that BELONG TO THE DEFINITIONS (package variables): a goroutine of
// a cancelled evaluation that stays parked on one of them takes the value of the next use
var gcr = make(chan int)

var gcs = make(chan int)

var gcsr = make(chan int, 1)

var gc2 = make(chan int)

var gcg = make(chan int)

var gcl = make(chan int)

var gcd = make(chan int)

func GC() int {
	go func() {
		host.Wait()
		gcr <- 42
	}()
	v := <-gcr
	return v + 1
}

func GSend() int {
	go func() {
		host.Wait()
		v := <-gcs
		gcsr <- v
	}()
	gcs <- 42
	return <-gcsr + 1
}

func GRecv2() int {
	go func() {
		host.Wait()
		gc2 <- 42
	}()
	v, ok := <-gc2
	if !ok {
		return -1
	}
	return v + 1
}

func GRange() int {
	go func() {
		host.Wait()
		gcg <- 42
	}()
	for v := range gcg {
		return v + 1
	}
	return -1
}

func GSel() int {
	go func() {
		host.Wait()
		gcl <- 42
	}()
	select {
	case v := <-gcl:
		return v + 1
	case v := <-gcd:
		return v
	}
}

// bodies without channels: mutex and WaitGroup, calls of other definitions, a function literal
// created and called inside the call
func MU() int {
	var mu sync.Mutex
	var wg sync.WaitGroup
	n := 0
	for i := 0; i < 3; i++ {
		wg.Add(1)
		go func() {
			mu.Lock()
			n++
			mu.Unlock()
			wg.Done()
		}()
	}
	wg.Wait()
	return n + 40
}

func CO() int { return F(2) + T0.M(1) }

func MK() int {
	k := 20
	f := func(x int) int { return x + k + 1 }
	return f(21)
}

// named functions and methods used as VALUES inside a definition: passed as argument, stored in a
// local variable, in a slice and in a struct field, a method value taken locally
func Dbl(x int) int { return 2 * x }

func Apply(f func(int) int, x int) int { return f(x) }

type holder struct{ f func(int) int }

func FA() int { return Apply(Dbl, 21) }

func FV() int {
	var g func(int) int = Dbl
	return Apply(g, 20) + 2
}

func FR() int {
	fs := []func(int) int{Dbl}
	h := holder{f: Dbl}
	return fs[0](11) + h.f(10)
}

func ML() int {
	m := T0.M
	return Apply(m, 37)
}
`

var c10expr = map[string]string{"named": "F(2)", "method": "T0.M(2)", "closvar": "Clo(2)", "methval": "MV(2)", "chanfn": "CC()",
	"chan-send": "CSend()", "chan-recv2": "CRecv2()", "chan-range": "CRange()", "chan-select": "CSel()", "chan-defer-mutex": "DM()", "chan-defer-wg": "DW()", "chan-g-recv": "GC()", "chan-g-send": "GSend()", "chan-g-recv2": "GRecv2()", "chan-g-range": "GRange()", "chan-g-select": "GSel()", "mutex": "MU()", "callsother": "CO()", "mkclosure": "MK()",
	"fv-arg": "FA()", "fv-var": "FV()", "fv-ret": "FR()", "fv-method": "ML()"}
var c10name = map[string]string{"named": "F", "method": "T0.M", "closvar": "Clo", "methval": "MV", "chanfn": "CC",
	"chan-send": "CSend", "chan-recv2": "CRecv2", "chan-range": "CRange", "chan-select": "CSel", "chan-defer-mutex": "DM", "chan-defer-wg": "DW", "chan-g-recv": "GC", "chan-g-send": "GSend", "chan-g-recv2": "GRecv2", "chan-g-range": "GRange", "chan-g-select": "GSel", "mutex": "MU", "callsother": "CO", "mkclosure": "MK",
	"fv-arg": "FA", "fv-var": "FV", "fv-ret": "FR", "fv-method": "ML"}
var c10want = map[string]string{"named": "15", "method": "7", "closvar": "8", "methval": "7", "chanfn": "43",
	"chan-send": "43", "chan-recv2": "43", "chan-range": "43", "chan-select": "43", "chan-defer-mutex": "43", "chan-defer-wg": "43", "chan-g-recv": "43", "chan-g-send": "43", "chan-g-recv2": "43", "chan-g-range": "43", "chan-g-select": "43", "mutex": "43", "callsother": "21", "mkclosure": "42",
	"fv-arg": "42", "fv-var": "42", "fv-ret": "42", "fv-method": "42"}

// kinds whose body goes through a blocking channel construct (Y: Tick; Block; Tick, like CC)
func c10isChan(k string) bool { return k == "chanfn" || strings.HasPrefix(k, "chan-") }

// kinds without argument
func c10noArg(k string) bool {
	return c10isChan(k) || k == "mutex" || k == "callsother" || k == "mkclosure" || strings.HasPrefix(k, "fv-")
}

func c10show(v reflect.Value, err error) string {
	if err != nil {
		return "error: " + firstLine(err.Error())
	}
	if !v.IsValid() {
		return "<invalid>"
	}
	return fmt.Sprint(v.Interface())
}

func c10call(f reflect.Value, kind string) (s string) {
	defer func() {
		if p := recover(); p != nil {
			s = "panic: " + fmt.Sprint(p)
		}
	}()
	if !f.IsValid() || f.Kind() != reflect.Func {
		return "<not a function>"
	}
	var in []reflect.Value
	if !c10noArg(kind) {
		in = []reflect.Value{reflect.ValueOf(2)}
	}
	out := f.Call(in)
	if len(out) != 1 {
		return "<results>"
	}
	return fmt.Sprint(out[0].Interface())
}

// c10guard runs one use under a watchdog: after a cancelled evaluation the interpreter must still answer.
func c10guard(f func() string) (string, bool) {
	ch := make(chan string, 1)
	go func() { ch <- f() }()
	select {
	case s := <-ch:
		return s, true
	case <-time.After(c09ReturnBound):
		return "<no answer within " + c09ReturnBound.String() + ">", false
	}
}

func c10runHist(j c09job) (res c09res) {
	res.ID = j.ID
	before := c09ids()
	ip := c09newInterp(nil)
	bg := context.Background()
	// WHEN the definitions are compiled: through EvalWithContext, or ("context-virgin" interpreter) by a
	// plain Eval before the interpreter's first *WithContext call, as an embedding does at start-up; the
	// reference uses below are plain Evals and host calls, so the first *WithContext call of a virgin
	// session is made by the history
	var derr error
	if j.Virgin {
		_, derr = ip.Eval(c10defs)
	} else {
		_, derr = ip.EvalWithContext(bg, c10defs)
	}
	if derr != nil {
		res.Err = "definitions: " + derr.Error()
		return
	}
	// function values held by the host, obtained before anything is cancelled
	hostEval := map[string]reflect.Value{}
	for k, n := range c10name {
		v, err := ip.Eval(n)
		if err != nil {
			res.Err = "Eval(" + n + "): " + err.Error()
			return
		}
		hostEval[k] = v
	}
	syms := func() map[string]reflect.Value { return ip.Symbols("main")["main"] }
	hostSym := map[string]reflect.Value{}
	for k, n := range c10name {
		if k != "method" {
			hostSym[k] = syms()[n]
		}
	}
	// reference: every use before the first cancellation. In a "cold" session the functions with a
	// blocking construct are NOT executed here: their first execution comes later (possibly inside the
	// evaluation that is cancelled); their values are the constants every warm session confirms.
	for k, e := range c10expr {
		if !j.Warm && c10isChan(k) {
			continue
		}
		if got := c10show(ip.Eval(e)); got != c10want[k] {
			res.Err = fmt.Sprintf("before any cancellation %s = %s, want %s", e, got, c10want[k])
			return
		}
		if got := c10call(hostEval[k], k); got != c10want[k] {
			res.Err = fmt.Sprintf("before any cancellation host call of %s = %s, want %s", c10name[k], got, c10want[k])
			return
		}
	}
	nchan := 0
	var parked []string // virgin sessions: goroutines of cancelled evaluations that never left (the later uses judge the damage)
	gen := uint64(0) // the interpreter's run id: stop() is called once per cancelled evaluation
	for _, ev := range j.Hist {
		switch ev.Op {
		case "define":
			msg, answered := c10guard(func() string {
				if _, err := ip.Eval("Clo = func(x int) int { return 3*x + 2 }"); err != nil {
					return "redefine: " + err.Error()
				}
				// the host takes the new value without evaluating anything (Symbols reads the variable)
				v := syms()["Clo"]
				hostEval["closvar"], hostSym["closvar"] = v, v
				return ""
			})
			if !answered {
				res.HistEvents = append(res.HistEvents, ev)
				res.Err, res.Runaway = "the interpreter hangs: redefinition of Clo: "+msg, true
				return
			}
			if msg != "" {
				res.Err = msg
				return
			}
		case "use":
			var got string
			expr := c10expr[ev.Kind]
			answered := true
			switch ev.Via {
			case "eval":
				got, answered = c10guard(func() string { return c10show(ip.Eval(expr)) })
			case "evalctx":
				got, answered = c10guard(func() string { return c10show(ip.EvalWithContext(bg, expr)) })
			case "host-eval":
				expr = "host call of the value of " + c10name[ev.Kind]
				got, answered = c10guard(func() string { return c10call(hostEval[ev.Kind], ev.Kind) })
			case "host-sym":
				expr = "host call of Symbols()[" + c10name[ev.Kind] + "]"
				got, answered = c10guard(func() string { return c10call(hostSym[ev.Kind], ev.Kind) })
			}
			if !answered {
				res.Uses = append(res.Uses, c10use{Expr: expr, Got: got, Want: c10want[ev.Kind]})
				res.HistEvents = append(res.HistEvents, ev)
				res.Err = "the interpreter hangs: " + expr + ": " + got
				res.Runaway = true // the worker is replaced
				return
			}
			res.Uses = append(res.Uses, c10use{Expr: expr, Got: got, Want: c10want[ev.Kind], Normal: got == c10want[ev.Kind], Zero: got == "0"})
			// goroutines started by the use (the partner of CC's rendez-vous) end before the next event
			if left, _, _, _ := c09settle(before, c09ExitBound, nil); len(left) > 0 {
				res.Err = "goroutines of a use are still alive: " + c09short(left[0].stack)
				return
			}
		case "cancel":
			what, err := c10cancel(ip, ev, &nchan, &gen, before, j.Virgin, &parked)
			if err != "" {
				res.Err = err
				res.Runaway = strings.Contains(err, "still alive") // the worker is replaced
				return
			}
			ev.What = what
		}
		res.HistEvents = append(res.HistEvents, ev)
	}
	if left, _, _, _ := c09settle(before, c09ExitBound, nil); len(left) > 0 {
		res.Leftover = len(left)
		res.LeftStacks = c09short(left[0].stack)
	} else if len(parked) > 0 {
		res.Leftover = len(parked)
		res.LeftStacks = "goroutine of a cancelled evaluation, parked since the cancellation: " + parked[0]
		res.Runaway = true // they stay in this process: the worker is replaced
	}
	return
}

// c10cancel performs one cancelled evaluation and reports what happened (for an expired context:
// whether the evaluation ran all the same).
func c10cancel(ip *interp.Interpreter, ev c10ev, nchan *int, gen *uint64, before map[uint64]bool, tolerate bool, parked *[]string) (what, errs string) {
	what = ev.What
	k := ev.K
	var src string
	switch ev.What {
	case "busy":
		src = "for {\n}"
		if k < 1 {
			k = 1
		}
	case "blocked":
		*nchan++
		src = fmt.Sprintf("c%d := make(chan int)\ngo func() { <-c%d }()\n<-c%d", *nchan, *nchan, *nchan)
		k = 0
	case "expired":
		src = "host.Tick(99)"
		k = 1
	case "in-def":
		// the evaluation that is cancelled calls an earlier definition and blocks inside its blocking
		// construct: the partner goroutine is held in the host until the cancellation is over
		src = c10expr[ev.Kind]
		k = 0
		hold := make(chan struct{})
		c09hold.Store(&hold)
		defer func() {
			if c09hold.Swap(nil) != nil {
				close(hold)
			}
		}()
	}
	// no goroutine of an earlier use may still be on its way out: it would be the one the hook parks
	if left, _, _, _ := c09settle(before, c09ExitBound, nil); len(left) > 0 {
		return what, "goroutines of earlier events are still alive: " + c09short(left[0].stack)
	}
	r := c09newRun(ip, k)
	c09tickTarget.Store(r)
	c09cur.Store(r)
	defer func() {
		c09cur.Store(nil)
		c09tickTarget.Store(nil)
	}()
	ctx, cancel := context.WithCancel(context.Background())
	defer cancel()
	if ev.What == "expired" {
		cancel()
	}
	errc := make(chan error, 1)
	go func() {
		errc <- c09enter(ip, ctx, ev.Entry, src)
	}()
	if ev.What != "expired" {
		tick := time.NewTicker(time.Millisecond)
		still := 0
		tw := time.Now()
	wait:
		for {
			select {
			case <-r.parkedCh:
				break wait
			case err := <-errc:
				tick.Stop()
				return what, fmt.Sprintf("the evaluation to be cancelled (%s) ended by itself: %v", ev.What, err)
			case <-tick.C:
				r.mu.Lock()
				n := r.n
				r.mu.Unlock()
				if time.Since(tw) > c09ReturnBound {
					tick.Stop()
					return what, "the interpreter hangs: the evaluation to be cancelled (" + ev.What + ") neither runs nor ends; goroutines still alive"
				}
				if k != 0 || n == 0 {
					continue
				}
				if time.Since(time.Unix(0, atomic.LoadInt64(&r.lastMove))) > c09StallQuiet {
					break wait
				}
				// standstill seen directly: every goroutine of the evaluation sits in a channel operation
				// (or in the host, held back), twice in a row
				if c09allWaiting(before) {
					if still++; still >= 2 {
						break wait
					}
				} else {
					still = 0
				}
			}
		}
		tick.Stop()
	}
	cancel()
	var err error
	select {
	case err = <-errc:
	case <-time.After(c09ReturnBound):
		return what, "EvalWithContext did not return after the cancellation"
	}
	if ev.What == "expired" {
		if err == nil {
			// the evaluation won the race in EvalWithContext's select: nothing was cancelled
			what = "expired-completed"
		} else {
			// stop() has been called. The evaluation ran all the same if its first operation was reached
			// in a frame of the NEW run id (stop() came before Execute refreshed the global frame); if it
			// was reached with the old one, stop() came while that operation was in flight: an ordinary
			// cancellation, after which the global frame is stale as when nothing ran.
			what = "expired-not"
			if c09parkedOrGone(r, before, c09ExitBound) {
				r.mu.Lock()
				fid := r.parkFID
				r.mu.Unlock()
				if fid == *gen+1 {
					what = "expired-ran"
				}
			}
		}
	} else if !errors.Is(err, context.Canceled) {
		return what, fmt.Sprintf("cancelled evaluation returned %v", err)
	}
	if err != nil {
		*gen++
	}
	r.mu.Lock()
	r.returned = true
	r.mu.Unlock()
	r.release()
	if h := c09hold.Swap(nil); h != nil {
		close(*h) // the partner goroutines may go on now
	}
	runaway := func() bool {
		r.mu.Lock()
		defer r.mu.Unlock()
		n := 0
		for _, c := range r.after {
			n += c
		}
		return n > c09RunawayOps
	}
	if left, _, _, timedOut := c09settle(before, c09ExitBound, runaway); len(left) > 0 {
		if tolerate && !timedOut && !runaway() {
			// all of them wait (in a channel operation): the history goes on and the uses of the
			// definitions tell whether the parked goroutines do harm; reported at the end in any case
			for _, g := range left {
				before[g.id] = true
				*parked = append(*parked, c09short(g.stack))
			}
			return what, ""
		}
		return what, "goroutines of the cancelled evaluation are still alive: " + c09short(left[0].stack)
	}
	return what, ""
}

// ---------------------------------------------------------------- generator

type c10state struct {
	anyCancel    bool // some evaluation was cancelled
	sinceExec    bool // an Execute (Eval / EvalWithContext / redefinition) happened since the last cancel
	sinceCtx     bool // an EvalWithContext happened since the last cancel (fresh cancellation channel)
	execAfterCtx bool // the last Execute came after that EvalWithContext (root frame carries the fresh channel)
	cloLive      bool // the function literal in Clo was created after the last cancel
}

func (s *c10state) apply(ev c10ev) {
	switch ev.Op {
	case "define":
		s.sinceExec, s.cloLive = true, true
		if s.sinceCtx {
			s.execAfterCtx = true
		}
	case "use":
		switch ev.Via {
		case "eval":
			s.sinceExec = true
			if s.sinceCtx {
				s.execAfterCtx = true
			}
		case "evalctx":
			s.sinceExec, s.sinceCtx, s.execAfterCtx = true, true, true
		}
	case "cancel":
		s.anyCancel, s.sinceExec, s.sinceCtx, s.execAfterCtx, s.cloLive = true, false, false, false, false
	}
}

// region in which a use lies ("" = where the property holds)
func (s *c10state) region(ev c10ev) string {
	if !s.anyCancel {
		return ""
	}
	host := strings.HasPrefix(ev.Via, "host")
	switch ev.Kind {
	case "closvar":
		if !s.cloLive {
			return "closure-after-cancel"
		}
		return ""
	case "chanfn", "chan-send", "chan-recv2", "chan-range", "chan-select", "chan-defer-mutex", "chan-defer-wg",
		"chan-g-recv", "chan-g-send", "chan-g-recv2", "chan-g-range", "chan-g-select":
		if host {
			if !s.sinceExec {
				return "hostheld-between"
			}
			if !s.execAfterCtx {
				return "plain-eval-chan"
			}
			return ""
		}
		if ev.Via == "eval" && !s.sinceCtx {
			return "plain-eval-chan"
		}
		return ""
	default:
		if host && !s.sinceExec {
			return "hostheld-between"
		}
		return ""
	}
}

func c10gen(r *rng, stream string, maxLen int, virgin bool) []c10ev {
	kinds := []string{"named", "method", "closvar", "methval", "chanfn", "chan-send", "chan-recv2", "chan-range", "chan-select", "chan-defer-mutex", "chan-defer-wg", "chan-g-recv", "chan-g-send", "chan-g-recv2", "chan-g-range", "chan-g-select", "mutex", "callsother", "mkclosure", "fv-arg", "fv-var", "fv-ret", "fv-method"}
	chans := c10chanKinds
	if virgin {
		chans = c10virginOK // the others lie in region virgin-nocancel (corpus cells)
	}
	vias := []string{"eval", "evalctx", "host-eval", "host-sym"}
	cancels := []string{"busy", "busy", "blocked", "expired", "in-def", "in-def"}
	st := &c10state{}
	var h []c10ev
	n := 4 + r.intn(maxLen-3)
	for len(h) < n {
		var ev c10ev
		switch x := r.intn(10); {
		case x < 6:
			ev = c10ev{Op: "use", Kind: kinds[r.intn(len(kinds))], Via: vias[r.intn(len(vias))]}
			if ev.Via == "host-sym" && ev.Kind == "method" {
				ev.Via = "host-eval" // Symbols has no entry for a method
			}
			reg := st.region(ev)
			if stream == "" && reg != "" {
				continue
			}
			if stream != "" && reg != "" && reg != stream {
				continue
			}
		case x < 9:
			ev = c10ev{Op: "cancel", What: cancels[r.intn(len(cancels))], K: 1 + r.intn(9)}
			if ev.What == "in-def" {
				ev.Kind = chans[r.intn(len(chans))]
			}
			if r.bool() {
				ev.Entry = "exec" // Compile + ExecuteWithContext instead of EvalWithContext
			}
			if virgin && ev.What == "blocked" {
				// Compile before the interpreter's first *WithContext call generates the receive of the
				// cancelled source itself without cancellation (C09-nocancel-gen, judged by C09)
				ev.Entry = ""
			}
			if ev.What == "expired" && stream == "" && r.chance(50) {
				continue
			}
		default:
			ev = c10ev{Op: "define"}
		}
		h = append(h, ev)
		st.apply(ev)
	}
	return h
}

var c10chanKinds = []string{"chanfn", "chan-send", "chan-recv2", "chan-range", "chan-select", "chan-defer-mutex", "chan-defer-wg", "chan-g-recv", "chan-g-send", "chan-g-recv2", "chan-g-range", "chan-g-select"}

// constructs that select on the cancellation channel however their definition was compiled; send,
// receive and two-value receive compiled before the interpreter's first *WithContext call never do
// (finding C09-nocancel-gen), which for C10 means: their parked goroutine keeps the mutex (DM) or takes
// the value of the next use (definition-owned channels): region virgin-nocancel
var c10virginOK = []string{"chan-range", "chan-select", "chan-defer-wg", "chan-g-range", "chan-g-select"}

func c10in(l []string, x string) bool {
	for _, y := range l {
		if x == y {
			return true
		}
	}
	return false
}

func c10coq(h []c10ev) string {
	k := map[string]string{"named": "KNamed", "method": "KMethod", "closvar": "KClosVar", "methval": "KMethVal", "chanfn": "KChanFn",
		"chan-send": "KChanFn", "chan-recv2": "KChanFn", "chan-range": "KChanFn", "chan-select": "KChanFn", "chan-defer-mutex": "KChanFn", "chan-defer-wg": "KChanFn", "chan-g-recv": "KChanFn", "chan-g-send": "KChanFn", "chan-g-recv2": "KChanFn", "chan-g-range": "KChanFn", "chan-g-select": "KChanFn", "mutex": "KNamed", "callsother": "KNamed", "mkclosure": "KNamed",
		"fv-arg": "KNamed", "fv-var": "KNamed", "fv-ret": "KNamed", "fv-method": "KNamed"}
	v := map[string]string{"eval": "VEval", "evalctx": "VEvalCtx", "host-eval": "VHost", "host-sym": "VHost"}
	c := map[string]string{"busy": "CBusy", "blocked": "CBlocked", "expired-ran": "CExpRan", "expired-not": "CExpNot", "in-def": "CInDef"}
	var it []string
	for _, ev := range h {
		switch ev.Op {
		case "define":
			it = append(it, "HDefine")
		case "use":
			it = append(it, fmt.Sprintf("HUse %s %s", k[ev.Kind], v[ev.Via]))
		case "cancel":
			if ev.What == "expired-completed" {
				it = append(it, "HEvalCtx") // nothing was cancelled: the evaluation ran and ended normally
				continue
			}
			it = append(it, "HCancel "+c[ev.What])
		}
	}
	return coqList(it)
}

func runC10(args []string) error {
	fs := flag.NewFlagSet("c10", flag.ExitOnError)
	out := fs.String("out", "/verif/build/C10", "output directory")
	tier := fs.String("tier", "quick", "quick|thorough")
	seed := fs.Uint64("seed", envSeed(), "seed")
	workers := fs.Int("workers", 0, "worker processes")
	fs.Parse(args)
	if err := os.MkdirAll(*out, 0o755); err != nil {
		return err
	}
	r := newRng(*seed)
	sm := newSummary("C10")
	sm.RefMismatches = []refMismatch{}
	nMain, nReg, maxLen := 3500, 300, 12
	if *tier == "thorough" {
		nMain, nReg, maxLen = 40000, 4000, 12
	}
	type meta struct {
		stream string
		h      []c10ev
		warm   bool
		virgin bool
	}
	var jobs []c09job
	metas := map[int]meta{}
	id := 0
	addv := func(stream string, h []c10ev, warm, virgin bool) {
		id++
		jobs = append(jobs, c09job{ID: id, Kind: "hist", Hist: h, Warm: warm, Virgin: virgin})
		metas[id] = meta{stream, h, warm, virgin}
	}
	addw := func(stream string, h []c10ev, warm bool) { addv(stream, h, warm, false) }
	add := func(stream string, h []c10ev) { addw(stream, h, id%2 == 1) }
	// the witnesses of the _refuted theorems, replayed
	use := func(k, v string) c10ev { return c10ev{Op: "use", Kind: k, Via: v} }
	busy := c10ev{Op: "cancel", What: "busy", K: 5}
	add("closure-after-cancel", []c10ev{use("closvar", "eval"), busy, use("closvar", "eval"), use("closvar", "host-eval"), use("named", "eval"), use("closvar", "eval")})
	add("hostheld-between", []c10ev{use("named", "host-eval"), busy, use("named", "host-eval"), use("method", "host-eval"), use("named", "eval"), use("named", "host-eval")})
	add("plain-eval-chan", []c10ev{use("chanfn", "eval"), busy, use("chanfn", "eval"), use("chanfn", "evalctx"), use("chanfn", "eval")})
	// corpus: a definition with a blocking construct whose FIRST execution happens inside the evaluation that
	// is cancelled (cold session), then used again; and the same after a first normal execution (warm)
	// ... crossed with WHEN the definitions were compiled: through EvalWithContext, or by a plain Eval on a
	// context-virgin interpreter (the cancelled evaluation is then the interpreter's first *WithContext call)
	for _, k := range c10chanKinds {
		indef := c10ev{Op: "cancel", What: "in-def", Kind: k}
		for _, virgin := range []bool{false, true} {
			stream := ""
			if virgin && !c10in(c10virginOK, k) {
				stream = "virgin-nocancel"
			}
			for _, warm := range []bool{false, true} {
				if stream != "" && warm {
					continue
				}
				for _, entry := range []string{"", "exec"} {
					if stream != "" && entry != "" {
						continue
					}
					indef.Entry = entry
					addv(stream, []c10ev{indef, use(k, "evalctx"), use("named", "eval"), use(k, "evalctx"), busy, use(k, "evalctx")}, warm, virgin)
				}
			}
		}
	}
	for i := 0; i < nMain; i++ {
		virgin := i%2 == 1
		addv("", c10gen(r.fork(), "", maxLen, virgin), i%4 < 2, virgin)
	}
	for _, reg := range []string{"closure-after-cancel", "hostheld-between", "plain-eval-chan"} {
		for i := 0; i < nReg; i++ {
			add(reg, c10gen(r.fork(), reg, maxLen, false))
		}
	}
	t0 := time.Now()
	results, err := c09dispatch(jobs, *workers, *out)
	if err != nil {
		return err
	}
	sm.Notes = append(sm.Notes, fmt.Sprintf("%d histories in %.1fs", len(jobs), time.Since(t0).Seconds()))
	distinct := distinctSet{}
	var cases []string
	ids := make([]int, 0, len(results))
	for i := range results {
		ids = append(ids, i)
	}
	sort.Ints(ids)
	for _, i := range ids {
		res := results[i]
		m := metas[i]
		if res.Skipped {
			sm.count("skipped-after-repeated-run-aways")
			continue
		}
		in := map[string]any{"definitions": "F, T.M, T0, Clo (function literal), MV (method value), CC CSend CRecv2 CRange CSel (rendez-vous through receive, send, two-value receive, range, select), DM DW (the same inside a section guarded by a mutex / counted by a WaitGroup and released by a deferred call), MU (mutex, WaitGroup), CO (calls F and T0.M), MK (creates and calls a function literal); host holds Eval(name) and Symbols values",
			"session": map[bool]string{true: "warm: every definition executed once before the history", false: "cold: the definitions with a blocking construct are first executed by the history"}[metas[i].warm],
			"definitions_compiled": map[bool]string{true: "by a plain Eval on a new interpreter (before its first *WithContext call)", false: "through EvalWithContext"}[m.virgin], "history": res.HistEvents}
		if res.Err != "" {
			in["history_generated"] = m.h
		}
		sm.Evaluations++
		if res.Err != "" {
			hreg := ""
			if m.stream == "virgin-nocancel" {
				hreg = m.stream
			}
			sm.HarnessViolations = append(sm.HarnessViolations, refMismatch{ID: i, Region: hreg, Input: in, Impl: res.Err, Ref: "the history can be executed", Note: "harness-level failure"})
			continue
		}
		sm.CaseIndex[fmt.Sprint(i)] = in
		var impl, ref []string
		bad, other := false, false
		for _, u := range res.Uses {
			impl = append(impl, coqBool(u.Normal))
			ref = append(ref, "true")
			if !u.Normal {
				bad = true
				if !u.Zero {
					other = true
				}
			}
			sm.count("uses")
		}
		ncancel := 0
		for _, ev := range res.HistEvents {
			if ev.Op == "cancel" {
				ncancel++
				sm.count("cancel:" + ev.What)
			}
		}
		cases = append(cases, fmt.Sprintf("(%d%%N, %s, %s, %s)", i, c10coq(res.HistEvents), coqList(impl), coqList(ref)))
		sm.ImplComparisons++
		sm.RefComparisons++
		if ncancel > 0 && len(res.Uses) > 0 {
			distinct.add(c10coq(res.HistEvents))
		}
		if len(sm.Samples) < 5 && ncancel > 1 && len(res.Uses) > 3 {
			sm.Samples = append(sm.Samples, map[string]any{"history": res.HistEvents, "uses": res.Uses})
		}
		if m.stream != "" {
			sm.count("stream:" + m.stream)
		}
		if m.virgin {
			sm.count("definitions-compiled-before-first-context")
		}
		if bad {
			reg := m.stream
			note := ""
			if other {
				reg, note = "", "a use returned neither its earlier value nor the zero value"
			}
			sm.RefMismatches = append(sm.RefMismatches, refMismatch{ID: i, Region: reg, Input: in, Impl: res.Uses, Ref: "every use yields what it yielded before the first cancellation", Note: note})
		}
		if res.Leftover > 0 {
			hreg := ""
			if m.stream == "virgin-nocancel" {
				hreg = m.stream
			}
			sm.HarnessViolations = append(sm.HarnessViolations, refMismatch{ID: i, Region: hreg, Input: in, Impl: "goroutines left at the end of the history: " + res.LeftStacks, Ref: "none"})
		}
	}
	hdr := "From Verif Require Import Cancel.Model Cancel.Cases.\n"
	per := 150
	for i, k := 0, 0; i < len(cases); i, k = i+per, k+1 {
		j := i + per
		if j > len(cases) {
			j = len(cases)
		}
		name := fmt.Sprintf("cases_c10_%d.v", k)
		body := fmt.Sprintf("Definition cases : list c10_case := [\n%s\n].\nDefinition MY := Eval vm_compute in c10_mis_y cases.\nPrint MY.\nDefinition MG := Eval vm_compute in c10_mis_g cases.\nPrint MG.\n", strings.Join(cases[i:j], ";\n"))
		if err := os.WriteFile(filepath.Join(*out, name), []byte(hdr+body), 0o644); err != nil {
			return err
		}
		sm.CasesFiles = append(sm.CasesFiles, name)
	}
	sm.DistinctNontriv = len(distinct)
	sm.Rule = "one evaluation = one history: definitions (named function, method, function literal in a variable, method value, function with a channel rendez-vous; values handed to the host through Eval(name) and Symbols), " +
		"then up to 12 events among use (through Eval, through EvalWithContext, direct host call), redefinition of the function literal, cancelled evaluation (busy loop parked before operation k, goroutines blocked on a channel, context already expired); " +
		"every use compared with its value before the first cancellation and with model Y; distinct = distinct histories as executed; non-trivial = at least one cancelled evaluation and one use"
	return sm.write(*out)
}
