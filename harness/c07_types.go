package main

import (
	"errors"
	"fmt"
	"math"
	"reflect"
	"sort"
	"strconv"
	"strings"
)

// C07 — type grammar, value trees, canonical rendering (host side), parsing of the canonical
// form written by the script-side renderers, and the three renderings of one value tree:
// reflect.Value (host), Go source (script), Gallina term (cases files).

// ---------------------------------------------------------------- host-declared types (exported to scripts as host.P ...)

type C07P struct {
	X int
	Y string
}

type C07Q struct {
	A []int16
	M map[string]uint8
	P *C07P
	F float64
	B bool
}

type C07R struct {
	P C07P
	N [2]int8
	E error
	I interface{}
}

// C07E is an error type with a value receiver, C07PE one with a pointer receiver.
type C07E struct{ Code int }

func (e C07E) Error() string { return "E" + strconv.Itoa(e.Code) }

type C07PE struct{ Msg string }

func (e *C07PE) Error() string { return "PE:" + e.Msg }

// Methods of a host type called from scripts (receiver offset handling in callBin).
func (p C07P) Sum(k int) int        { return p.X + k + len(p.Y) }
func (p *C07P) Set(x int, y string) { p.X, p.Y = x, y }
func (p C07P) Cat(sep string, xs ...int) string {
	s := p.Y
	for _, x := range xs {
		s += sep + strconv.Itoa(x)
	}
	return s
}
func (p *C07P) Both(a int, b string) (int, string, error) {
	if a < 0 {
		return 0, "", C07E{a}
	}
	return p.X + a, p.Y + b, nil
}

var (
	c07ErrA = errors.New("sentinel-A")
	c07ErrB = errors.New("sentinel-B")
)

// ---------------------------------------------------------------- types

type c07kind int

const (
	ckBool c07kind = iota
	ckInt
	ckUint
	ckFloat
	ckComplex
	ckString
	ckStruct
	ckPtr
	ckArr
	ckSlice
	ckMap
	ckFunc
	ckErr
	ckAny
)

type c07t struct {
	K        c07kind
	Name     string // Go name of the basic kind, or short name of the host struct
	Bits     int
	Elem     *c07t
	Key      *c07t
	N        int
	In, Out  []*c07t // for a variadic function the last In is the slice type
	Variadic bool
	Fields   []*c07t
	FNames   []string
	rt       reflect.Type
}

func c07basic(k c07kind, name string, bits int, rt reflect.Type) *c07t {
	return &c07t{K: k, Name: name, Bits: bits, rt: rt}
}

var (
	ctBool    = c07basic(ckBool, "bool", 0, reflect.TypeOf(false))
	ctInt     = c07basic(ckInt, "int", 64, reflect.TypeOf(int(0)))
	ctInt8    = c07basic(ckInt, "int8", 8, reflect.TypeOf(int8(0)))
	ctInt16   = c07basic(ckInt, "int16", 16, reflect.TypeOf(int16(0)))
	ctInt32   = c07basic(ckInt, "int32", 32, reflect.TypeOf(int32(0)))
	ctInt64   = c07basic(ckInt, "int64", 64, reflect.TypeOf(int64(0)))
	ctUint    = c07basic(ckUint, "uint", 64, reflect.TypeOf(uint(0)))
	ctUint8   = c07basic(ckUint, "uint8", 8, reflect.TypeOf(uint8(0)))
	ctUint16  = c07basic(ckUint, "uint16", 16, reflect.TypeOf(uint16(0)))
	ctUint32  = c07basic(ckUint, "uint32", 32, reflect.TypeOf(uint32(0)))
	ctUint64  = c07basic(ckUint, "uint64", 64, reflect.TypeOf(uint64(0)))
	ctUintptr = c07basic(ckUint, "uintptr", 64, reflect.TypeOf(uintptr(0)))
	ctF32     = c07basic(ckFloat, "float32", 32, reflect.TypeOf(float32(0)))
	ctF64     = c07basic(ckFloat, "float64", 64, reflect.TypeOf(float64(0)))
	ctC64     = c07basic(ckComplex, "complex64", 64, reflect.TypeOf(complex64(0)))
	ctC128    = c07basic(ckComplex, "complex128", 128, reflect.TypeOf(complex128(0)))
	ctString  = c07basic(ckString, "string", 0, reflect.TypeOf(""))
	ctErr     = &c07t{K: ckErr, Name: "error", rt: reflect.TypeOf((*error)(nil)).Elem()}
	ctAny     = &c07t{K: ckAny, Name: "interface{}", rt: reflect.TypeOf((*interface{})(nil)).Elem()}

	c07Basics = []*c07t{ctBool, ctInt, ctInt8, ctInt16, ctInt32, ctInt64, ctUint, ctUint8, ctUint16, ctUint32, ctUint64, ctUintptr, ctF32, ctF64, ctC64, ctC128, ctString}
	c07Keys   = []*c07t{ctBool, ctInt, ctInt8, ctInt32, ctInt64, ctUint, ctUint8, ctUint16, ctUint64, ctString}

	ctP, ctQ, ctR, ctE, ctPE *c07t
	c07Structs               []*c07t
	// dynamic types that generated interface{} values may hold (the script-side renderer
	// switches over exactly this catalogue)
	c07AnyCat []*c07t
)

func c07slice(e *c07t) *c07t { return &c07t{K: ckSlice, Elem: e, rt: reflect.SliceOf(e.rt)} }
func c07ptr(e *c07t) *c07t   { return &c07t{K: ckPtr, Elem: e, rt: reflect.PtrTo(e.rt)} }
func c07arr(n int, e *c07t) *c07t {
	return &c07t{K: ckArr, N: n, Elem: e, rt: reflect.ArrayOf(n, e.rt)}
}
func c07map(k, e *c07t) *c07t { return &c07t{K: ckMap, Key: k, Elem: e, rt: reflect.MapOf(k.rt, e.rt)} }
func c07func(in, out []*c07t, variadic bool) *c07t {
	ri := make([]reflect.Type, len(in))
	for i, t := range in {
		ri[i] = t.rt
	}
	ro := make([]reflect.Type, len(out))
	for i, t := range out {
		ro[i] = t.rt
	}
	return &c07t{K: ckFunc, In: in, Out: out, Variadic: variadic, rt: reflect.FuncOf(ri, ro, variadic)}
}

func init() {
	mk := func(name string, rt reflect.Type, fn []string, ft []*c07t) *c07t {
		return &c07t{K: ckStruct, Name: name, rt: rt, FNames: fn, Fields: ft}
	}
	ctP = mk("P", reflect.TypeOf(C07P{}), []string{"X", "Y"}, []*c07t{ctInt, ctString})
	ctQ = mk("Q", reflect.TypeOf(C07Q{}), []string{"A", "M", "P", "F", "B"},
		[]*c07t{c07slice(ctInt16), c07map(ctString, ctUint8), c07ptr(ctP), ctF64, ctBool})
	ctR = mk("R", reflect.TypeOf(C07R{}), []string{"P", "N", "E", "I"},
		[]*c07t{ctP, c07arr(2, ctInt8), ctErr, ctAny})
	ctE = mk("E", reflect.TypeOf(C07E{}), []string{"Code"}, []*c07t{ctInt})
	ctPE = mk("PE", reflect.TypeOf(C07PE{}), []string{"Msg"}, []*c07t{ctString})
	c07Structs = []*c07t{ctP, ctQ, ctR}
	c07AnyCat = []*c07t{ctInt, ctString, ctF64, ctBool, ctUint8, ctInt64, ctP, c07ptr(ctP), c07slice(ctInt), c07map(ctString, ctInt), c07arr(2, ctInt8), c07slice(ctAny), ctErr}
}

// src is the Go source text of the type inside a script (host structs live in package host).
func (t *c07t) src() string {
	switch t.K {
	case ckStruct:
		return "host." + t.Name
	case ckPtr:
		return "*" + t.Elem.src()
	case ckArr:
		return fmt.Sprintf("[%d]%s", t.N, t.Elem.src())
	case ckSlice:
		return "[]" + t.Elem.src()
	case ckMap:
		return "map[" + t.Key.src() + "]" + t.Elem.src()
	case ckFunc:
		return "func" + t.sigSrc(nil)
	}
	return t.Name
}

// sigSrc renders "(a0 T0, a1 ...T1) (R0, R1)"; names may be nil.
func (t *c07t) sigSrc(names []string) string {
	var in []string
	for i, a := range t.In {
		s := a.src()
		if t.Variadic && i == len(t.In)-1 {
			s = "..." + a.Elem.src()
		}
		if names != nil {
			s = names[i] + " " + s
		}
		in = append(in, s)
	}
	r := "(" + strings.Join(in, ", ") + ")"
	switch len(t.Out) {
	case 0:
	case 1:
		r += " " + t.Out[0].src()
	default:
		var out []string
		for _, o := range t.Out {
			out = append(out, o.src())
		}
		r += " (" + strings.Join(out, ", ") + ")"
	}
	return r
}

func (t *c07t) depth() int {
	d := 0
	for _, c := range t.children() {
		if x := c.depth(); x > d {
			d = x
		}
	}
	if t.K >= ckStruct && t.K <= ckFunc {
		return d + 1
	}
	return d
}

func (t *c07t) children() []*c07t {
	var r []*c07t
	if t.Elem != nil {
		r = append(r, t.Elem)
	}
	if t.Key != nil {
		r = append(r, t.Key)
	}
	r = append(r, t.Fields...)
	r = append(r, t.In...)
	r = append(r, t.Out...)
	return r
}

func (t *c07t) hasFunc() bool {
	if t.K == ckFunc {
		return true
	}
	for _, c := range t.children() {
		if c.hasFunc() {
			return true
		}
	}
	return false
}

// coq renders the type as a Gallina term of Boundary.Types.ty.
func (t *c07t) coq() string {
	switch t.K {
	case ckBool:
		return "TBool"
	case ckInt:
		return fmt.Sprintf("(TInt %d)", t.Bits)
	case ckUint:
		return fmt.Sprintf("(TUint %d)", t.Bits)
	case ckFloat:
		return fmt.Sprintf("(TFloat %d)", t.Bits)
	case ckComplex:
		return fmt.Sprintf("(TComplex %d)", t.Bits)
	case ckString:
		return "TString"
	case ckStruct:
		var fs []string
		for _, f := range t.Fields {
			fs = append(fs, f.coq())
		}
		return fmt.Sprintf("(TStruct %s %s)", coqStr(t.Name), coqList(fs))
	case ckPtr:
		return "(TPtr " + t.Elem.coq() + ")"
	case ckArr:
		return fmt.Sprintf("(TArr %d %s)", t.N, t.Elem.coq())
	case ckSlice:
		return "(TSlice " + t.Elem.coq() + ")"
	case ckMap:
		return "(TMap " + t.Key.coq() + " " + t.Elem.coq() + ")"
	case ckFunc:
		return fmt.Sprintf("(TFunc %s %s %s)", c07coqTypes(t.In), coqBool(t.Variadic), c07coqTypes(t.Out))
	case ckErr:
		return "TErr"
	}
	return "TAny"
}

func c07coqTypes(ts []*c07t) string {
	var l []string
	for _, t := range ts {
		l = append(l, t.coq())
	}
	return coqList(l)
}

// ---------------------------------------------------------------- value trees

// error flavours
const (
	ceNew      = iota // errors.New(text): *errors.errorString
	ceSentinel        // host.ErrA / host.ErrB (identity matters)
	ceE               // host.E{Code}
	cePE              // &host.PE{Msg}
)

type c07point struct {
	Args []*cval
	Res  []*cval
	Bad  string // the call panicked / was impossible
}

type cval struct {
	T      *c07t
	B      bool
	I      int64
	U      uint64
	F      uint64 // bits (float32: low 32 bits); complex: real part
	F2     uint64 // complex: imaginary part bits
	S      string
	Nil    bool
	L      []*cval // struct fields, array/slice elements, pointee (L[0]), error payload
	MK     []*cval
	MV     []*cval
	Dyn    *cval // interface{}: the dynamic value (Dyn.T is its type)
	EK     int   // error flavour
	Fn     *c07fspec
	Gr     []c07point // functions: graph on the probe points
	Bad    string     // observation that does not conform to the expected type: a small class name
	BadMsg string     // the full text behind Bad (summary only)
	Named  bool       // functions: a named script function (a *node until it is wrapped)
	DepD   bool       // generated templates: this leaf varies with the digest d of the arguments
}

// String is the canonical form; the script-side renderers print exactly the same text.
func (v *cval) String() string {
	var b strings.Builder
	v.write(&b)
	return b.String()
}

func (v *cval) write(b *strings.Builder) {
	if v.Bad != "" {
		b.WriteString("BAD<" + v.Bad + ">")
		return
	}
	t := v.T
	switch t.K {
	case ckBool:
		if v.B {
			b.WriteString("t")
		} else {
			b.WriteString("f")
		}
	case ckInt:
		b.WriteString("i" + strconv.FormatInt(v.I, 10))
	case ckUint:
		b.WriteString("u" + strconv.FormatUint(v.U, 10))
	case ckFloat:
		b.WriteString("x" + strconv.FormatUint(v.F, 16))
	case ckComplex:
		b.WriteString("c" + strconv.FormatUint(v.F, 16) + "," + strconv.FormatUint(v.F2, 16))
	case ckString:
		b.WriteString(strconv.Quote(v.S))
	case ckStruct:
		b.WriteString("{")
		for i, f := range v.L {
			if i > 0 {
				b.WriteString(",")
			}
			f.write(b)
		}
		b.WriteString("}")
	case ckPtr:
		if v.Nil {
			b.WriteString("~")
		} else {
			b.WriteString("&")
			v.L[0].write(b)
		}
	case ckArr, ckSlice:
		if v.Nil {
			b.WriteString("~")
			return
		}
		b.WriteString("[")
		for i, f := range v.L {
			if i > 0 {
				b.WriteString(",")
			}
			f.write(b)
		}
		b.WriteString("]")
	case ckMap:
		if v.Nil {
			b.WriteString("~")
			return
		}
		b.WriteString("<")
		for i := range v.MK {
			if i > 0 {
				b.WriteString(",")
			}
			v.MK[i].write(b)
			b.WriteString(":")
			v.MV[i].write(b)
		}
		b.WriteString(">")
	case ckErr:
		if v.Nil {
			b.WriteString("~")
			return
		}
		switch v.EK {
		case ceNew:
			b.WriteString("!N" + strconv.Quote(v.S))
		case ceSentinel:
			b.WriteString("!S" + strconv.FormatInt(v.I, 10))
		case ceE:
			b.WriteString("!E{i" + strconv.FormatInt(v.I, 10) + "}")
		case cePE:
			b.WriteString("!PE{" + strconv.Quote(v.S) + "}")
		}
	case ckAny:
		if v.Nil {
			b.WriteString("~")
			return
		}
		b.WriteString("(" + v.Dyn.T.src() + ")")
		v.Dyn.write(b)
	case ckFunc:
		if v.Nil {
			b.WriteString("~")
			return
		}
		b.WriteString("fn[")
		for i, p := range v.Gr {
			if i > 0 {
				b.WriteString("|")
			}
			if p.Bad != "" {
				b.WriteString("BAD<" + p.Bad + ">")
				continue
			}
			for j, r := range p.Res {
				if j > 0 {
					b.WriteString(",")
				}
				r.write(b)
			}
		}
		b.WriteString("]")
	}
}

func (v *cval) sortMap() {
	idx := make([]int, len(v.MK))
	keys := make([]string, len(v.MK))
	for i := range idx {
		idx[i] = i
		keys[i] = v.MK[i].String() + ":"
	}
	sort.SliceStable(idx, func(a, b int) bool { return keys[idx[a]] < keys[idx[b]] })
	mk := make([]*cval, len(idx))
	mv := make([]*cval, len(idx))
	for i, j := range idx {
		mk[i], mv[i] = v.MK[j], v.MV[j]
	}
	v.MK, v.MV = mk, mv
}

// coq renders the value as a Gallina term of Boundary.Types.val.
func (v *cval) coq() string {
	if v.Bad != "" {
		return "(VBad " + coqStr(v.Bad) + ")"
	}
	list := func(l []*cval) string {
		it := make([]string, len(l))
		for i, x := range l {
			it[i] = x.coq()
		}
		return coqList(it)
	}
	t := v.T
	switch t.K {
	case ckBool:
		return "(VBool " + coqBool(v.B) + ")"
	case ckInt:
		return "(VInt " + coqZ(v.I) + ")"
	case ckUint:
		return fmt.Sprintf("(VUint %d%%N)", v.U)
	case ckFloat:
		return fmt.Sprintf("(VFloat %d%%N)", v.F)
	case ckComplex:
		return fmt.Sprintf("(VComplex %d%%N %d%%N)", v.F, v.F2)
	case ckString:
		return "(VStr " + c07coqString(v.S) + ")"
	case ckStruct:
		return "(VStruct " + list(v.L) + ")"
	case ckArr:
		return "(VArr " + list(v.L) + ")"
	}
	if v.Nil {
		return "VNil"
	}
	switch t.K {
	case ckPtr:
		return "(VPtr " + v.L[0].coq() + ")"
	case ckSlice:
		return "(VSlice " + list(v.L) + ")"
	case ckMap:
		return "(VMap " + list(v.MK) + " " + list(v.MV) + ")"
	case ckErr:
		switch v.EK {
		case ceNew:
			return "(VIface (TPtr (TStruct " + coqStr("errors.errorString") + " [TString])) (VPtr (VStruct [VStr " + c07coqString(v.S) + "])))"
		case ceSentinel:
			return fmt.Sprintf("(VIface (TOpaque %s) (VOpaque %d%%N))", coqStr("sentinel"), v.I)
		case ceE:
			return "(VIface " + ctE.coq() + " (VStruct [VInt " + coqZ(v.I) + "]))"
		default:
			return "(VIface " + c07ptr(ctPE).coq() + " (VPtr (VStruct [VStr " + c07coqString(v.S) + "])))"
		}
	case ckAny:
		if v.Dyn.T.K == ckErr {
			return v.Dyn.coq() // the dynamic type of an error value is its own
		}
		return "(VIface " + v.Dyn.T.coq() + " " + v.Dyn.coq() + ")"
	case ckFunc:
		it := make([]string, len(v.Gr))
		for i, p := range v.Gr {
			if p.Bad != "" {
				it[i] = "(VPoint " + list(p.Args) + " [VBad " + coqStr(p.Bad) + "])"
			} else {
				it[i] = "(VPoint " + list(p.Args) + " " + list(p.Res) + ")"
			}
		}
		rep := "RNative"
		if v.Named {
			rep = "RNode"
		}
		return "(VFunc " + rep + " " + coqList(it) + ")"
	}
	return "(VBad " + coqStr("?") + ")"
}

func c07coqVals(l []*cval) string {
	it := make([]string, len(l))
	for i, x := range l {
		it[i] = x.coq()
	}
	return coqList(it)
}

// c07coqString renders a Go string as a term of type str: a literal when it is plain printable
// ASCII, a list of byte codes otherwise.
func c07coqString(x string) string {
	plain := true
	for i := 0; i < len(x); i++ {
		if x[i] < 0x20 || x[i] > 0x7e {
			plain = false
			break
		}
	}
	if plain {
		return coqStr(x)
	}
	var l []string
	for i := 0; i < len(x); i++ {
		l = append(l, strconv.Itoa(int(x[i])))
	}
	return "(bytes " + coqList(l) + ")"
}

// ---------------------------------------------------------------- value tree -> reflect.Value (host side)

// c07env carries what building host values needs: a way to manufacture functions.
type c07env struct {
	mkFunc func(spec *c07fspec, outer int) reflect.Value // host implementation of a function spec
}

// toReflect builds the host value of a tree; d is the digest offset of the enclosing function
// template (0 for plain values).
func (v *cval) toReflect(env *c07env, d int) reflect.Value {
	t := v.T
	r := reflect.New(t.rt).Elem()
	dd := 0
	if v.DepD {
		dd = d
	}
	switch t.K {
	case ckBool:
		b := v.B
		if v.DepD && d%2 != 0 {
			b = !b
		}
		r.SetBool(b)
	case ckInt:
		r.SetInt(c07wrapInt(v.I, dd, t.Bits))
	case ckUint:
		r.SetUint(c07wrapUint(v.U, dd, t.Bits))
	case ckFloat:
		if t.Bits == 32 {
			f := math.Float32frombits(uint32(v.F))
			if v.DepD {
				f += float32(d)
			}
			r.SetFloat(float64(f))
		} else {
			f := math.Float64frombits(v.F)
			if v.DepD {
				f += float64(d)
			}
			r.SetFloat(f)
		}
	case ckComplex:
		if t.Bits == 64 {
			re, im := math.Float32frombits(uint32(v.F)), math.Float32frombits(uint32(v.F2))
			if v.DepD {
				re += float32(d)
			}
			r.SetComplex(complex(float64(re), float64(im)))
		} else {
			re, im := math.Float64frombits(v.F), math.Float64frombits(v.F2)
			if v.DepD {
				re += float64(d)
			}
			r.SetComplex(complex(re, im))
		}
	case ckString:
		s := v.S
		if v.DepD {
			s += strconv.Itoa(d)
		}
		r.SetString(s)
	case ckStruct:
		for i, f := range v.L {
			r.Field(i).Set(f.toReflect(env, d))
		}
	case ckPtr:
		if !v.Nil {
			p := reflect.New(t.Elem.rt)
			p.Elem().Set(v.L[0].toReflect(env, d))
			r.Set(p)
		}
	case ckArr:
		for i, f := range v.L {
			r.Index(i).Set(f.toReflect(env, d))
		}
	case ckSlice:
		if !v.Nil {
			s := reflect.MakeSlice(t.rt, len(v.L), len(v.L))
			for i, f := range v.L {
				s.Index(i).Set(f.toReflect(env, d))
			}
			r.Set(s)
		}
	case ckMap:
		if !v.Nil {
			m := reflect.MakeMap(t.rt)
			for i := range v.MK {
				m.SetMapIndex(v.MK[i].toReflect(env, d), v.MV[i].toReflect(env, d))
			}
			r.Set(m)
		}
	case ckErr:
		if !v.Nil {
			var e error
			switch v.EK {
			case ceNew:
				s := v.S
				if v.DepD {
					s += strconv.Itoa(d)
				}
				e = errors.New(s)
			case ceSentinel:
				e = []error{c07ErrA, c07ErrB}[v.I]
			case ceE:
				e = C07E{int(v.I) + dd}
			case cePE:
				e = &C07PE{v.S}
			}
			r.Set(reflect.ValueOf(e))
		}
	case ckAny:
		if !v.Nil {
			r.Set(v.Dyn.toReflect(env, d))
		}
	case ckFunc:
		if !v.Nil {
			r.Set(env.mkFunc(v.Fn, d))
		}
	}
	return r
}

func c07wrapInt(c int64, d int, bits int) int64 {
	x := c + int64(d)
	switch bits {
	case 8:
		return int64(int8(c) + int8(d))
	case 16:
		return int64(int16(c) + int16(d))
	case 32:
		return int64(int32(c) + int32(d))
	}
	return x
}

func c07wrapUint(c uint64, d int, bits int) uint64 {
	switch bits {
	case 8:
		return uint64(uint8(c) + uint8(d))
	case 16:
		return uint64(uint16(c) + uint16(d))
	case 32:
		return uint64(uint32(c) + uint32(d))
	}
	return c + uint64(d)
}

// resolved returns the tree with the digest offset applied (what toReflect(d) denotes).
func (v *cval) resolved(d int) *cval {
	c := *v
	c.DepD = false
	dd := 0
	if v.DepD {
		dd = d
	}
	switch v.T.K {
	case ckBool:
		if v.DepD && d%2 != 0 {
			c.B = !v.B
		}
	case ckInt:
		c.I = c07wrapInt(v.I, dd, v.T.Bits)
	case ckUint:
		c.U = c07wrapUint(v.U, dd, v.T.Bits)
	case ckFloat:
		if v.DepD {
			if v.T.Bits == 32 {
				c.F = uint64(math.Float32bits(math.Float32frombits(uint32(v.F)) + float32(d)))
			} else {
				c.F = math.Float64bits(math.Float64frombits(v.F) + float64(d))
			}
		}
	case ckComplex:
		if v.DepD {
			if v.T.Bits == 64 {
				c.F = uint64(math.Float32bits(math.Float32frombits(uint32(v.F)) + float32(d)))
			} else {
				c.F = math.Float64bits(math.Float64frombits(v.F) + float64(d))
			}
		}
	case ckString:
		if v.DepD {
			c.S = v.S + strconv.Itoa(d)
		}
	case ckErr:
		if !v.Nil && v.DepD {
			switch v.EK {
			case ceNew:
				c.S = v.S + strconv.Itoa(d)
			case ceE:
				c.I = v.I + int64(d)
			}
		}
	case ckAny:
		if !v.Nil {
			c.Dyn = v.Dyn.resolved(d)
		}
	case ckFunc:
		if !v.Nil {
			c.Fn = v.Fn.withOuter(d)
		}
	}
	if len(v.L) > 0 {
		c.L = make([]*cval, len(v.L))
		for i, x := range v.L {
			c.L[i] = x.resolved(d)
		}
	}
	if len(v.MK) > 0 {
		c.MK = make([]*cval, len(v.MK))
		c.MV = make([]*cval, len(v.MV))
		for i := range v.MK {
			c.MK[i] = v.MK[i].resolved(d)
			c.MV[i] = v.MV[i].resolved(d)
		}
		c.sortMap()
	}
	return &c
}

// ---------------------------------------------------------------- reflect.Value -> value tree (host-side observation)

// c07observe reads a host value as a tree of the expected type t. Functions are observed
// extensionally by calling them on the probe points of their type.
func c07observe(t *c07t, r reflect.Value, env *c07env) (v *cval) {
	v = &cval{T: t}
	defer func() {
		if p := recover(); p != nil {
			v = &cval{T: t, Bad: "panic", BadMsg: "observe-panic:" + c07short(fmt.Sprint(p))}
		}
	}()
	if !r.IsValid() {
		v.Bad = "invalid"
		return
	}
	if r.Type() != t.rt && (t.K == ckAny || t.K == ckErr) && r.Kind() != reflect.Interface && r.Type().AssignableTo(t.rt) {
		// Eval of an interface-typed expression may hand out the dynamic value: what the host gets
		// through Interface() is the same
		ev := reflect.New(t.rt).Elem()
		ev.Set(r)
		r = ev
	}
	if r.Type() != t.rt {
		v.Bad, v.BadMsg = "type", r.Type().String()
		return
	}
	switch t.K {
	case ckBool:
		v.B = r.Bool()
	case ckInt:
		v.I = r.Int()
	case ckUint:
		v.U = r.Uint()
	case ckFloat:
		if t.Bits == 32 {
			v.F = uint64(math.Float32bits(float32(r.Float())))
		} else {
			v.F = math.Float64bits(r.Float())
		}
	case ckComplex:
		c := r.Complex()
		if t.Bits == 64 {
			v.F, v.F2 = uint64(math.Float32bits(float32(real(c)))), uint64(math.Float32bits(float32(imag(c))))
		} else {
			v.F, v.F2 = math.Float64bits(real(c)), math.Float64bits(imag(c))
		}
	case ckString:
		v.S = r.String()
	case ckStruct:
		for i, ft := range t.Fields {
			v.L = append(v.L, c07observe(ft, r.Field(i), env))
		}
	case ckPtr:
		if r.IsNil() {
			v.Nil = true
		} else {
			v.L = []*cval{c07observe(t.Elem, r.Elem(), env)}
		}
	case ckArr:
		for i := 0; i < r.Len(); i++ {
			v.L = append(v.L, c07observe(t.Elem, r.Index(i), env))
		}
	case ckSlice:
		if r.IsNil() {
			v.Nil = true
		} else {
			v.L = []*cval{}
			for i := 0; i < r.Len(); i++ {
				v.L = append(v.L, c07observe(t.Elem, r.Index(i), env))
			}
		}
	case ckMap:
		if r.IsNil() {
			v.Nil = true
		} else {
			it := r.MapRange()
			for it.Next() {
				v.MK = append(v.MK, c07observe(t.Key, it.Key(), env))
				v.MV = append(v.MV, c07observe(t.Elem, it.Value(), env))
			}
			v.sortMap()
		}
	case ckErr:
		if r.IsNil() {
			v.Nil = true
			return
		}
		e := r.Interface().(error)
		switch x := e.(type) {
		case C07E:
			v.EK, v.I = ceE, int64(x.Code)
		case *C07PE:
			v.EK, v.S = cePE, x.Msg
		default:
			switch {
			case e == c07ErrA:
				v.EK, v.I = ceSentinel, 0
			case e == c07ErrB:
				v.EK, v.I = ceSentinel, 1
			case reflect.TypeOf(e) == reflect.TypeOf(c07ErrA):
				v.EK, v.S = ceNew, e.Error()
			default:
				v.Bad, v.BadMsg = "errtype", reflect.TypeOf(e).String()
			}
		}
	case ckAny:
		if r.IsNil() {
			v.Nil = true
			return
		}
		dyn := r.Elem()
		for _, ct := range c07AnyCat {
			if ct.K == ckErr {
				if dyn.Type().Implements(ctErr.rt) {
					ev := reflect.New(ctErr.rt).Elem()
					ev.Set(dyn)
					v.Dyn = c07observe(ctErr, ev, env)
					return
				}
				continue
			}
			if dyn.Type() == ct.rt {
				v.Dyn = c07observe(ct, dyn, env)
				return
			}
		}
		v.Bad, v.BadMsg = "dyntype", dyn.Type().String()
	case ckFunc:
		if r.IsNil() {
			v.Nil = true
			return
		}
		for k := 0; k < c07NProbes(t); k++ {
			args := c07probeArgs(t, k)
			v.Gr = append(v.Gr, c07callPoint(t, r, args, env))
		}
	}
	return
}

// c07callPoint calls a host-visible function value on one probe point and observes the results.
func c07callPoint(t *c07t, f reflect.Value, args []*cval, env *c07env) (pt c07point) {
	pt.Args = args
	defer func() {
		if p := recover(); p != nil {
			pt.Res = nil
			pt.Bad = "panic"
		}
	}()
	in := make([]reflect.Value, len(args))
	for i, a := range args {
		in[i] = a.toReflect(env, 0)
	}
	var out []reflect.Value
	if t.Variadic {
		out = f.CallSlice(in)
	} else {
		out = f.Call(in)
	}
	if len(out) != len(t.Out) {
		pt.Bad = "nresults"
		return
	}
	for j, o := range out {
		pt.Res = append(pt.Res, c07observe(t.Out[j], o, env))
	}
	return
}

func c07short(s string) string {
	s = firstLine(s)
	if len(s) > 160 {
		s = s[:160]
	}
	return s
}

// ---------------------------------------------------------------- parsing the canonical form (script-side observations)

type c07parser struct {
	s   string
	pos int
	err string
}

func c07parse(t *c07t, s string) *cval {
	p := &c07parser{s: s}
	v := p.val(t)
	if p.err == "" && p.pos != len(s) {
		p.err = "trailing"
	}
	if p.err != "" {
		return &cval{T: t, Bad: "unparsable", BadMsg: p.err + ": " + c07short(s)}
	}
	return v
}

// c07parseList parses "v0;v1;v2" for the given types.
func c07parseList(ts []*c07t, s string) []*cval {
	p := &c07parser{s: s}
	var out []*cval
	for i, t := range ts {
		if i > 0 {
			p.lit(";")
		}
		out = append(out, p.val(t))
	}
	if p.err == "" && p.pos != len(s) {
		p.err = "trailing"
	}
	if p.err != "" {
		out = nil
		for _, t := range ts {
			out = append(out, &cval{T: t, Bad: "unparsable", BadMsg: p.err + ": " + c07short(s)})
		}
	}
	return out
}

func (p *c07parser) peek(x string) bool { return strings.HasPrefix(p.s[p.pos:], x) }
func (p *c07parser) lit(x string) bool {
	if p.err != "" {
		return false
	}
	if p.peek(x) {
		p.pos += len(x)
		return true
	}
	p.err = fmt.Sprintf("expected %q at %d", x, p.pos)
	return false
}

func (p *c07parser) num(base int, signed bool) (int64, uint64) {
	st := p.pos
	if signed && p.pos < len(p.s) && p.s[p.pos] == '-' {
		p.pos++
	}
	for p.pos < len(p.s) && (p.s[p.pos] >= '0' && p.s[p.pos] <= '9' || base == 16 && p.s[p.pos] >= 'a' && p.s[p.pos] <= 'f') {
		p.pos++
	}
	txt := p.s[st:p.pos]
	if signed {
		x, err := strconv.ParseInt(txt, base, 64)
		if err != nil {
			p.err = "int:" + txt
		}
		return x, 0
	}
	x, err := strconv.ParseUint(txt, base, 64)
	if err != nil {
		p.err = "uint:" + txt
	}
	return 0, x
}

func (p *c07parser) str() string {
	q, err := strconv.QuotedPrefix(p.s[p.pos:])
	if err != nil {
		p.err = fmt.Sprintf("string at %d", p.pos)
		return ""
	}
	p.pos += len(q)
	u, err := strconv.Unquote(q)
	if err != nil {
		p.err = "unquote"
	}
	return u
}

func (p *c07parser) val(t *c07t) *cval {
	v := &cval{T: t}
	if p.err != "" {
		return v
	}
	if p.peek("BAD<") {
		// BAD<...> may contain anything up to the matching '>' at the end of a panic text; take the rest greedily
		end := strings.Index(p.s[p.pos:], ">")
		if end < 0 {
			p.err = "bad"
			return v
		}
		v.Bad = p.s[p.pos+4 : p.pos+end]
		p.pos += end + 1
		return v
	}
	switch t.K {
	case ckBool:
		switch {
		case p.peek("t"):
			v.B = true
			p.pos++
		case p.peek("f"):
			p.pos++
		default:
			p.err = fmt.Sprintf("bool at %d", p.pos)
		}
	case ckInt:
		if p.lit("i") {
			v.I, _ = p.num(10, true)
		}
	case ckUint:
		if p.lit("u") {
			_, v.U = p.num(10, false)
		}
	case ckFloat:
		if p.lit("x") {
			_, v.F = p.num(16, false)
		}
	case ckComplex:
		if p.lit("c") {
			_, v.F = p.num(16, false)
			p.lit(",")
			_, v.F2 = p.num(16, false)
		}
	case ckString:
		v.S = p.str()
	case ckStruct:
		p.lit("{")
		for i, ft := range t.Fields {
			if i > 0 {
				p.lit(",")
			}
			v.L = append(v.L, p.val(ft))
		}
		p.lit("}")
	case ckPtr:
		if p.peek("~") {
			p.pos++
			v.Nil = true
		} else if p.lit("&") {
			v.L = []*cval{p.val(t.Elem)}
		}
	case ckArr, ckSlice:
		if t.K == ckSlice && p.peek("~") {
			p.pos++
			v.Nil = true
			return v
		}
		p.lit("[")
		v.L = []*cval{}
		for p.err == "" && !p.peek("]") {
			if len(v.L) > 0 {
				p.lit(",")
			}
			v.L = append(v.L, p.val(t.Elem))
		}
		p.lit("]")
	case ckMap:
		if p.peek("~") {
			p.pos++
			v.Nil = true
			return v
		}
		p.lit("<")
		for p.err == "" && !p.peek(">") {
			if len(v.MK) > 0 {
				p.lit(",")
			}
			v.MK = append(v.MK, p.val(t.Key))
			p.lit(":")
			v.MV = append(v.MV, p.val(t.Elem))
		}
		p.lit(">")
	case ckErr:
		if p.peek("~") {
			p.pos++
			v.Nil = true
			return v
		}
		p.lit("!")
		switch {
		case p.peek("N"):
			p.pos++
			v.EK, v.S = ceNew, p.str()
		case p.peek("S"):
			p.pos++
			v.EK = ceSentinel
			v.I, _ = p.num(10, true)
		case p.peek("E{i"):
			p.pos += 3
			v.EK = ceE
			v.I, _ = p.num(10, true)
			p.lit("}")
		case p.peek("PE{"):
			p.pos += 3
			v.EK, v.S = cePE, p.str()
			p.lit("}")
		default:
			p.err = fmt.Sprintf("error flavour at %d", p.pos)
		}
	case ckAny:
		if p.peek("~") {
			p.pos++
			v.Nil = true
			return v
		}
		p.lit("(")
		found := false
		for _, ct := range c07AnyCat {
			tag := ct.src() + ")"
			if p.peek(tag) {
				p.pos += len(tag)
				v.Dyn = p.val(ct)
				found = true
				break
			}
		}
		if !found && p.err == "" {
			p.err = fmt.Sprintf("dyn type at %d", p.pos)
		}
	case ckFunc:
		if p.peek("~") {
			p.pos++
			v.Nil = true
			return v
		}
		p.lit("fn[")
		for k := 0; k < c07NProbes(t) && p.err == ""; k++ {
			if k > 0 {
				p.lit("|")
			}
			pt := c07point{Args: c07probeArgs(t, k)}
			if p.peek("BAD<") {
				pt.Bad = p.val(ctBool).Bad
			} else {
				for j, ot := range t.Out {
					if j > 0 {
						p.lit(",")
					}
					pt.Res = append(pt.Res, p.val(ot))
				}
			}
			v.Gr = append(v.Gr, pt)
		}
		p.lit("]")
	}
	return v
}
