package main

import (
	"bytes"
	"context"
	"encoding/json"
	"flag"
	"fmt"
	"go/ast"
	"go/importer"
	"go/parser"
	"go/token"
	"go/types"
	"os"
	"os/exec"
	"path/filepath"
	"regexp"
	"runtime"
	"sort"
	"strings"
	"sync"
	"time"
)

// C04: values are copied or shared exactly as Go prescribes.
//   impl  = yaegi evaluating the generated program (pool printed after every step)
//   ref   = the same program compiled by the Go toolchain
//   Y, G  = coq/Mem/ReflectModel.v, coq/Mem/GoStore.v evaluated by coqc on the cases files written
//           here (operation list + growth table + observed dumps)

func init() {
	register("c04", "C04 copy/share semantics: generate histories, run yaegi and the compiled reference, write cases", runC04)
}

type c04hist struct {
	ID       int
	Seed     uint64
	Region   string // "" main stream
	Ops      []*c04op
	Modelled bool // every operation is in the Coq grammar
	Src      string
	Grow     map[[3]int]int
	Expect   [][]int64 // dumps predicted by the reference interpreter
	PanicAt  string    // class of the deliberate final panic, "" if none
	Boundary string    // boundary stream: the cell family of this history
	Stats    map[string]int
	Decls    []string
	impl     outcome
	ref      outcome
}

var c04IntRe = regexp.MustCompile(`-?\d+`)

// dumps parses the printed pool lines back into integer lists.
func c04Dumps(stdout string) [][]int64 {
	var out [][]int64
	for _, line := range strings.Split(stdout, "\n") {
		if !strings.HasPrefix(line, "a=") {
			continue
		}
		var d []int64
		for _, m := range c04IntRe.FindAllString(line, -1) {
			var z int64
			fmt.Sscan(m, &z)
			d = append(d, z)
		}
		out = append(out, d)
	}
	return out
}

func c04CoqDumps(ds [][]int64) string {
	var ls []string
	for _, d := range ds {
		var xs []string
		for _, z := range d {
			if z < 0 {
				xs = append(xs, fmt.Sprintf("(%d)", z))
			} else {
				xs = append(xs, fmt.Sprint(z))
			}
		}
		ls = append(ls, "["+strings.Join(xs, ";")+"]%Z")
	}
	return "[" + strings.Join(ls, ";\n   ") + "]"
}

func c04CoqGrow(m map[[3]int]int) string {
	var ks [][3]int
	for k := range m {
		ks = append(ks, k)
	}
	sort.Slice(ks, func(i, j int) bool {
		for x := 0; x < 3; x++ {
			if ks[i][x] != ks[j][x] {
				return ks[i][x] < ks[j][x]
			}
		}
		return false
	})
	var xs []string
	for _, k := range ks {
		xs = append(xs, fmt.Sprintf("(%d,%d,%d,%d)%%nat", k[0], k[1], k[2], m[k]))
	}
	return "[" + strings.Join(xs, "; ") + "]"
}

// c04Setup gives the pool some content before the random operations start.
func (g *c04gen) setup(out *[][]int64) []*c04op {
	var ops []*c04op
	add := func(o *c04op) {
		cl := g.st.clone()
		var scratch [][]int64
		if cl.tryExec(o, &scratch) != "" || !g.acceptable(o) {
			return
		}
		g.commit(o, out)
		ops = append(ops, o)
	}
	asg := func(l *c04ex, r *c04rhs) *c04op { return &c04op{K: "assign", Lv: l, Rhs: r} }
	for n := 0; n < 3; n++ {
		if g.r.chance(70) {
			add(asg(c04Fld(c04Idx(c04Var(0, c04TA3S), c04IntLit(int64(n))), 0), c04Pure(c04IntLit(g.smallInt()))))
		}
	}
	if g.r.chance(70) {
		add(asg(c04Var(7, c04TA4), c04Pure(g.litOf(c04TA4, 0))))
	}
	if g.r.chance(70) {
		add(asg(c04Fld(c04Var(1, c04TS), 0), c04Pure(c04IntLit(g.smallInt()))))
	}
	if g.r.chance(60) {
		add(asg(c04Var(8, c04TLI), g.rhsOf(c04TLI, 1)))
	}
	if g.r.chance(60) {
		add(asg(c04Var(2, c04TLS), &c04rhs{K: "slicelit", T: c04TLS, L: []*c04ex{g.rvOf(c04TS, 1), g.rvOf(c04TS, 1)}}))
	}
	if g.r.chance(60) {
		add(asg(c04Var(3, c04TLL), &c04rhs{K: "slicelit", T: c04TLL, L: []*c04ex{g.rvOf(c04TLI, 1), g.rvOf(c04TLI, 1)}}))
	}
	if g.r.chance(60) {
		add(asg(c04Var(4, c04TMS), &c04rhs{K: "maplit", T: c04TMS, L: []*c04ex{c04KeyLit(int64(g.r.intn(4)))}, L2: []*c04ex{g.rvOf(c04TS, 1)}}))
	}
	if g.r.chance(60) {
		add(asg(c04Fld(g.lvS(0), 3), &c04rhs{K: "maplit", T: c04TMI, L: []*c04ex{c04KeyLit(int64(g.r.intn(4)))}, L2: []*c04ex{c04IntLit(g.smallInt())}}))
	}
	if g.r.chance(60) {
		add(asg(c04Var(5, c04TPS), c04Pure(c04Addr(g.lvS(0)))))
	}
	if g.r.chance(50) {
		add(asg(c04Var(6, c04TPA), c04Pure(c04Addr(c04Var(0, c04TA3S)))))
	}
	if g.r.chance(50) {
		add(asg(c04Fld(g.lvS(0), 2), g.rhsOf(c04TLI, 1)))
	}
	for n := 0; n < 3; n++ {
		if g.r.chance(60) {
			add(asg(c04Idx(c04Var(12, c04TA3E), c04IntLit(int64(n))), c04Pure(g.rvOf(c04TAny, 1))))
		}
	}
	if g.r.chance(70) {
		add(asg(c04Var(13, c04TLE), &c04rhs{K: "slicelit", T: c04TLE, L: []*c04ex{g.rvOf(c04TAny, 1), g.rvOf(c04TAny, 1), g.rvOf(c04TAny, 1)}}))
	}
	if g.r.chance(50) {
		add(asg(c04Var(14, c04TME), &c04rhs{K: "maplit", T: c04TME, L: []*c04ex{c04KeyLit(int64(g.r.intn(4)))}, L2: []*c04ex{g.rvOf(c04TAny, 1)}}))
	}
	if g.r.chance(50) {
		add(asg(g.lvOf(c04TAny, 1), c04Pure(g.rvOf(c04TAny, 1))))
	}
	return ops
}

// c04Generate builds one history.
func c04Generate(id int, seed uint64, region string, steps int) *c04hist {
	if strings.HasPrefix(region, "boundary:") {
		var k int
		fmt.Sscanf(region, "boundary:%d", &k)
		return c04Boundary(id, seed, k)
	}
	if strings.HasPrefix(region, "return:") {
		return c04Return(id, seed)
	}
	if strings.HasPrefix(region, "repeat:") {
		var k int
		fmt.Sscanf(region, "repeat:%d", &k)
		return c04Repeat(id, seed, k)
	}
	if strings.HasPrefix(region, "escape:") {
		var k int
		fmt.Sscanf(region, "escape:%d", &k)
		return c04Escape(id, seed, k)
	}
	r := newRng(seed)
	g := c04NewGen(r, region)
	g.sugarOK = region == "" && r.chance(30)
	h := &c04hist{ID: id, Seed: seed, Region: region, Modelled: true}
	var out [][]int64
	dump := func() {
		o := &c04op{K: "dump"}
		g.commit(o, &out)
		h.Ops = append(h.Ops, o)
	}
	dump()
	h.Ops = append(h.Ops, g.setup(&out)...)
	dump()
	for i := 0; i < steps; i++ {
		var o *c04op
		if region != "" && (i == steps/3 || i == (2*steps)/3 || r.chance(12)) {
			o = g.regionOp(&out)
		}
		if o == nil {
			o = g.next(2, &out)
		}
		h.Ops = append(h.Ops, o)
		dump()
	}
	if region == "" && r.chance(4) {
		if o, class := g.panicOp(); o != nil {
			h.Ops = append(h.Ops, o, &c04op{K: "dump"})
			h.PanicAt = class
		}
	}
	for _, o := range h.Ops {
		if c04AnyOp(o, func(x *c04op) bool {
			// doComposite decides "destination is an interface" from the FIRST left-hand operand of the
			// statement (destType): a compiled-away tuple assignment whose first destination has static
			// type interface{} lies outside the (untyped) Coq grammar, wherever it was generated
			return x.K == "sugar" || x.Unmodelled || (c04OpInMultiDirect(x) && x.Lvs[0].T == c04TAny)
		}) {
			h.Modelled = false
		}
	}
	if region != "" && !g.regionHit {
		// no operation of the region could be placed: the history lies in the main region
		h.Region = ""
	}
	h.Expect = out
	h.Grow = g.st.Grow
	h.Src = c04Program(g.fns, h.Decls, h.Ops)
	return h
}

// regionOp produces an operation inside the stream's region (nil if none could be built now).
func (g *c04gen) regionOp(out *[][]int64) *c04op {
	for try := 0; try < 30; try++ {
		var o *c04op
		switch g.mode {
		case "var-struct-lit":
			// take the address of a struct variable, then assign a struct literal to that variable
			if g.r.chance(50) {
				o = &c04op{K: "assign", Lv: c04Var(5, c04TPS), Rhs: c04Pure(c04Addr(c04Var(1, c04TS)))}
			} else {
				vs := g.varsOf(c04TS)
				o = &c04op{K: "assign", Lv: vs[g.r.intn(len(vs))], Rhs: c04Pure(g.litOf(c04TS, 1))}
			}
		case "multi-assign-call-or-lit":
			o = &c04op{K: "multi"}
			n := 2 + g.r.intn(2)
			for i := 0; i < n; i++ {
				switch g.r.intn(4) {
				case 0:
					o.Lvs = append(o.Lvs, g.lvOf(c04TInt, 1))
					if g.r.bool() {
						o.Rvs = append(o.Rvs, c04Len(c04Load(g.lvOf(c04TLI, 1))))
					} else {
						o.Rvs = append(o.Rvs, c04Cap(c04Load(g.lvOf(c04TLI, 1))))
					}
				case 1:
					vs := g.varsOf(c04TS)
					o.Lvs = append(o.Lvs, vs[g.r.intn(len(vs))])
					o.Rvs = append(o.Rvs, g.litOf(c04TS, 1))
				case 2:
					o.Lvs = append(o.Lvs, c04Var(7, c04TA4))
					o.Rvs = append(o.Rvs, g.litOf(c04TA4, 1))
				default:
					t := g.pickType()
					o.Lvs = append(o.Lvs, g.lvOf(t, 1))
					o.Rvs = append(o.Rvs, g.rvOf(t, 1))
				}
			}
		case "multi-assign-map-entry":
			o = &c04op{K: "multi"}
			kvar := c04Var(11, c04TKey)
			switch g.r.intn(3) {
			case 0: // k, m[k] = "kX", v
				o.Lvs = []*c04ex{kvar, c04MapL(c04Load(c04Var(4, c04TMS)), c04Load(kvar))}
				o.Rvs = []*c04ex{c04KeyLit(int64(g.r.intn(4))), g.rvOf(c04TS, 1)}
			case 1: // k, x.M[k] = "kX", c
				o.Lvs = []*c04ex{kvar, c04MapL(c04Load(g.lvOf(c04TMI, 1)), c04Load(kvar))}
				o.Rvs = []*c04ex{c04KeyLit(int64(g.r.intn(4))), c04IntLit(g.smallInt())}
			default: // x.M, x.M[c] = y.M, c
				l := g.lvOf(c04TMI, 1)
				o.Lvs = []*c04ex{l, c04MapL(c04Load(l), g.keyRv())}
				o.Rvs = []*c04ex{g.rvOf(c04TMI, 1), c04IntLit(g.smallInt())}
			}
		case "multi-assign-nil":
			o = &c04op{K: "multi"}
			switch g.r.intn(3) {
			case 0:
				o.Lvs, o.Rvs = []*c04ex{g.lvOf(c04TPS, 1), g.lvOf(c04TInt, 1)}, []*c04ex{c04Nil(c04TPS), c04IntLit(g.smallInt())}
			case 1:
				o.Lvs, o.Rvs = []*c04ex{g.lvOf(c04TInt, 1), g.lvOf(c04TLI, 1)}, []*c04ex{c04IntLit(g.smallInt()), c04Nil(c04TLI)}
			default:
				o.Lvs, o.Rvs = []*c04ex{g.lvOf(c04TMI, 1), g.lvOf(c04TPS, 1)}, []*c04ex{c04Nil(c04TMI), c04Nil(c04TPS)}
			}
		case "multi-assign-iface":
			o = &c04op{K: "multi"}
			l1, l2 := g.lvOf(c04TAny, 1), g.lvOf(c04TAny, 1)
			if g.r.bool() {
				o.Lvs, o.Rvs = []*c04ex{l1, l2}, []*c04ex{c04Load(l2), c04Load(l1)}
			} else {
				o.Lvs, o.Rvs = []*c04ex{l1, g.lvOf(c04TInt, 1)}, []*c04ex{c04Load(l2), c04IntLit(g.smallInt())}
			}
			o.Unmodelled = true
		case "append-multi-alias":
			// append within capacity whose later arguments read the cells the earlier ones overwrite
			lo := g.r.intn(3)
			base := c04SliceEx(c04Addr(c04Var(7, c04TA4)), c04IntLit(int64(lo)), c04IntLit(int64(lo+1)), nil)
			args := []*c04ex{g.rvOf(c04TInt, 1), c04Load(c04Idx(c04Var(7, c04TA4), c04IntLit(int64(lo+1))))}
			if lo < 1 && g.r.bool() {
				args = append(args, c04Load(c04Idx(c04Var(7, c04TA4), c04IntLit(int64(lo+2)))))
			}
			o = &c04op{K: "assign", Lv: g.lvOf(c04TLI, 1), Rhs: &c04rhs{K: "append", T: c04TLI, E: base, L: args}}
		default:
			o = g.regionSugar()
			if o == nil {
				continue
			}
		}
		if !g.acceptable(o) {
			continue
		}
		cl := g.st.clone()
		var scratch [][]int64
		if cl.tryExec(o, &scratch) != "" {
			continue
		}
		g.commit(o, out)
		g.regionHit = true
		return o
	}
	return nil
}

// c04TypeCheck makes sure a generated program is valid Go before it is handed to either side.
var c04ImporterMu sync.Mutex
var c04Importer types.Importer

func c04TypeCheck(src string) error {
	fset := token.NewFileSet()
	f, err := parser.ParseFile(fset, "main.go", src, 0)
	if err != nil {
		return err
	}
	c04ImporterMu.Lock()
	if c04Importer == nil {
		c04Importer = importer.ForCompiler(fset, "source", nil)
	}
	imp := c04Importer
	c04ImporterMu.Unlock()
	conf := types.Config{Importer: imp}
	c04ImporterMu.Lock()
	_, err = conf.Check("main", fset, []*ast.File{f}, nil)
	c04ImporterMu.Unlock()
	return err
}

func runC04(args []string) error {
	fs := flag.NewFlagSet("c04", flag.ExitOnError)
	tier := fs.String("tier", "quick", "quick|thorough")
	seed := fs.Uint64("seed", envSeed(), "seed")
	out := fs.String("out", "", "output directory")
	only := fs.Int("only", 0, "run a single history id and print its program")
	fs.Parse(args)
	if *out == "" {
		return fmt.Errorf("-out required")
	}
	if err := os.MkdirAll(*out, 0o755); err != nil {
		return err
	}
	sm := newSummary("C04")
	// ---------------------------------------------------------------- generate
	ids, seeds, regs, steps := c04Plan(*tier, *seed)
	hs := make([]*c04hist, len(ids))
	for i := range ids {
		hs[i] = &c04hist{ID: ids[i], Seed: seeds[i], Region: regs[i], Ops: make([]*c04op, steps[i])}
	}
	parallelMap(len(hs), 0, func(i int) {
		h := hs[i]
		hs[i] = c04Generate(h.ID, h.Seed, h.Region, len(h.Ops))
	})
	if os.Getenv("C04_SRC_DIR") != "" {
		os.MkdirAll(os.Getenv("C04_SRC_DIR"), 0o755)
		for _, h := range hs {
			os.WriteFile(filepath.Join(os.Getenv("C04_SRC_DIR"), fmt.Sprintf("h%d.go", h.ID)), []byte(h.Src), 0o644)
		}
	}
	if *only != 0 {
		for _, h := range hs {
			if h.ID == *only {
				fmt.Println(h.Src)
			}
		}
	}

	// every program must be valid Go (checked with go/types before either side runs it)
	for _, h := range hs {
		if err := c04TypeCheck(h.Src); err != nil {
			return fmt.Errorf("generated program %d does not type-check: %v\n%s", h.ID, err, h.Src)
		}
	}

	// ---------------------------------------------------------------- run both sides
	t0 := time.Now()
	if err := c04RunYaegi(hs, sm); err != nil {
		return err
	}
	tY := time.Since(t0)
	t0 = time.Now()
	refs, err := c04GoRef(hs, 60*time.Second)
	if err != nil {
		return err
	}
	tG := time.Since(t0)
	sm.Notes = append(sm.Notes, fmt.Sprintf("yaegi %.1fs, go build+run %.1fs", tY.Seconds(), tG.Seconds()))

	// ---------------------------------------------------------------- compare, write cases
	distinct := distinctSet{}
	var cases []string
	shrunk := 0
	for _, h := range hs {
		h.ref = refs[h.ID]
		sm.Evaluations++
		sm.RefComparisons++
		sm.count("history")
		if h.Boundary != "" {
			sm.count("history:boundary")
			for k, v := range h.Stats {
				if strings.HasPrefix(k, "cell:") {
					sm.Distribution[k] += v
				}
			}
		}
		if h.Region != "" {
			sm.count("history:" + h.Region)
		}
		nops := 0
		kinds := map[string]bool{}
		for _, o := range h.Ops {
			o.walk(func(x *c04op) {
				if x.K != "dump" {
					nops++
					kinds[x.K] = true
					sm.count("op:" + x.K)
				}
			})
		}
		if nops >= 5 && len(kinds) >= 3 {
			distinct.add(h.Src)
		}
		in := map[string]any{"kind": "history", "seed": h.Seed, "region": h.Region, "steps": len(h.Ops), "source": h.Src}
		sm.CaseIndex[fmt.Sprint(h.ID)] = in
		if len(sm.Samples) < 3 && h.Region == "" && nops > 8 && nops < 16 {
			sm.Samples = append(sm.Samples, in)
		}
		if strings.HasPrefix(h.ref.End, "compile-error") {
			return fmt.Errorf("reference does not compile history %d: %s\n%s", h.ID, h.ref.End, h.Src)
		}
		// the reference interpreter of the generator must agree with compiled Go (it is only a guide,
		// but a difference means the generator no longer knows the state)
		gd := c04Dumps(h.ref.Stdout)
		if fmt.Sprint(gd) != fmt.Sprint(h.Expect) {
			sm.count("generator-state-differs-from-go")
		}
		if h.PanicAt != "" {
			sm.count("history:ends-in-panic")
			if h.ref.End != "panic:"+h.PanicAt {
				sm.count("panic-class-differs-from-go")
			}
		}
		if h.impl.String() != h.ref.String() {
			// several interpreters run in this process at once: confirm in a process of its own
			if again := runYaegiChild(h.Src, 60*time.Second); again.String() != h.impl.String() {
				sm.count("yaegi-outcome-not-reproducible-in-child-process")
				h.impl = again
			}
		}
		if h.impl.String() != h.ref.String() {
			note := ""
			if h.Region == "" && shrunk < 3 {
				// delete operations while yaegi still differs (delta debugging on the operation list)
				shrunk++
				if small := c04Shrink(h.Ops); len(small) < len(h.Ops) {
					note = "shrunk operation list:\n" + c04OpsText(small)
				}
			}
			sm.RefMismatches = append(sm.RefMismatches, refMismatch{ID: h.ID, Region: h.Region, Input: in, Note: note,
				Impl: c04FirstDiff(h.impl, h.ref, true), Ref: c04FirstDiff(h.impl, h.ref, false)})
			sm.count("ref-mismatch:" + h.Region)
		}
		if h.Modelled {
			sm.ImplComparisons++
			yd := c04Dumps(h.impl.Stdout)
			yp := h.impl.End != "ok"
			gp := h.ref.End != "ok"
			gs := "None"
			if fmt.Sprint(yd) != fmt.Sprint(gd) || yp != gp {
				gs = fmt.Sprintf("(Some (%s, %s))", c04CoqDumps(gd), coqBool(gp))
			}
			cases = append(cases, fmt.Sprintf("(%d%%N, %s,\n  (%s ++ gtab),\n  %s, %s, %s)", h.ID, c04CoqOps(h.Ops), c04CoqGrow(h.Grow), c04CoqDumps(yd), coqBool(yp), gs))
		}
	}

	// the growth policy of the Go run-time for the three element sizes, small capacities: inside a
	// defect region yaegi's state leaves the state of the reference interpreter, so Y may need
	// entries the generator never observed
	hdr := "From Verif Require Import Mem.GoStore Mem.ReflectModel Mem.Cases.\nDefinition gtab : list (nat * nat * nat * nat) := " + c04GeneralGrow() + ".\n"
	per := 15 // cases per file: one coqc each, 16 at a time
	if *tier == "thorough" {
		per = 40 // about 400 MB per coqc
	}
	for k := 0; k*per < len(cases); k++ {
		lo, hi := k*per, (k+1)*per
		if hi > len(cases) {
			hi = len(cases)
		}
		body := fmt.Sprintf("Definition cases : list c04_case := [\n%s\n].\nDefinition MY := Eval vm_compute in c04_mis_y cases.\nPrint MY.\nDefinition MG := Eval vm_compute in c04_mis_g cases.\nPrint MG.\n", strings.Join(cases[lo:hi], ";\n"))
		name := fmt.Sprintf("cases_c04_%d.v", k)
		sm.CasesFiles = append(sm.CasesFiles, name)
		if err := os.WriteFile(filepath.Join(*out, name), []byte(hdr+body), 0o644); err != nil {
			return err
		}
	}
	nsl, nap, nesc, ngr, nret := 0, 0, 0, 0, 0
	for k := range sm.Distribution {
		if strings.HasPrefix(k, "cell:slice:") {
			nsl++
		} else if strings.HasPrefix(k, "cell:append:") {
			nap++
		} else if strings.HasPrefix(k, "cell:escape:") {
			nesc++
		} else if strings.HasPrefix(k, "cell:growth:") {
			ngr++
		} else if strings.HasPrefix(k, "cell:return:") {
			nret++
		}
	}
	sm.Notes = append(sm.Notes, fmt.Sprintf("boundary stream: %d slicing cells (operand x lo x hi x max) and %d append cells (kind x destination) hit, each followed by writes through every possibly aliasing slice and an append; escape stream: %d cells (argument shape x escaping callee, call site executed 3 times in one activation); growth grid: %d cells (element type x capacity x number of values x form); return stream: %d cells (returned operand x deferred update)", nsl, nap, nesc, ngr, nret))
	nrep, nord := 0, 0
	for k := range sm.Distribution {
		if strings.HasPrefix(k, "cell:repeat-order:") {
			nord++
		} else if strings.HasPrefix(k, "cell:repeat:") {
			nrep++
		}
	}
	sm.Notes = append(sm.Notes, fmt.Sprintf("repeated-site stream: %d cells (copy-yielding read expression x element type), %d cells x hit/miss orders of length 3 (same site executed 3-5 times in one activation, value mutated after printing, container printed at the end)", nrep, nord))
	if len(sm.Samples) == 0 && len(hs) > 0 {
		sm.Samples = append(sm.Samples, sm.CaseIndex[fmt.Sprint(hs[0].ID)])
	}
	sm.DistinctNontriv = len(distinct)
	sm.Rule = "seeded operation histories (5-60 steps plus a random set-up) over the pool of DESIGN.md D.2, the whole pool printed after every step; " +
		"distinct = distinct program texts; non-trivial = at least 5 operations of at least 3 different kinds"
	return sm.write(*out)
}

// c04FirstDiff reports the first differing output line of the two runs.
func c04FirstDiff(impl, ref outcome, wantImpl bool) map[string]any {
	il, rl := strings.Split(impl.Stdout, "\n"), strings.Split(ref.Stdout, "\n")
	n := 0
	for n < len(il) && n < len(rl) && il[n] == rl[n] {
		n++
	}
	get := func(l []string) string {
		if n < len(l) {
			return l[n]
		}
		return "<no more output>"
	}
	if wantImpl {
		return map[string]any{"first_differing_dump": n, "line": get(il), "end": impl.End}
	}
	return map[string]any{"first_differing_dump": n, "line": get(rl), "end": ref.End}
}

// ---------------------------------------------------------------- shrinking (vh c04-shrink)

func init() {
	register("c04-shrink", "C04: regenerate one history and delete operations while yaegi still differs from the reference interpreter", func(args []string) error {
		fs := flag.NewFlagSet("c04-shrink", flag.ExitOnError)
		tier := fs.String("tier", "quick", "quick|thorough")
		seed := fs.Uint64("seed", envSeed(), "seed")
		id := fs.Int("id", 0, "history id")
		fs.Parse(args)
		h := c04Regenerate(*tier, *seed, *id)
		if h == nil {
			return fmt.Errorf("no history %d", *id)
		}
		ops := c04Shrink(h.Ops)
		src := c04Program(c04Catalogue(), nil, ops)
		fmt.Println(src)
		y := runYaegi(src, yaegiOpts{Timeout: 30 * time.Second})
		refs, err := goRefBatch([]goProg{{Name: "m", Files: map[string]string{"main.go": src}}}, 30*time.Second, false)
		if err != nil {
			return err
		}
		fmt.Printf("// yaegi: %s\n//   %s\n// go:    %s\n//   %s\n", y.End, strings.ReplaceAll(y.Stdout, "\n", "\n//   "), refs["m"].End, strings.ReplaceAll(refs["m"].Stdout, "\n", "\n//   "))
		return nil
	})
}

func c04Plan(tier string, seed uint64) (ids []int, seeds []uint64, regions []string, steps []int) {
	nMain, nRegion := 205, 6
	if tier == "thorough" {
		nMain, nRegion = 6000, 150
	}
	// (experiments: C04_NMAIN / C04_NREGION override the sizes of the streams)
	if v := os.Getenv("C04_NMAIN"); v != "" {
		fmt.Sscan(v, &nMain)
	}
	if v := os.Getenv("C04_NREGION"); v != "" {
		fmt.Sscan(v, &nRegion)
	}
	master := newRng(seed).fork()
	id := 0
	mk := func(region string, n int) {
		for i := 0; i < n; i++ {
			id++
			st := 5 + master.intn(56)
			if region != "" {
				st = 6 + master.intn(20)
			}
			ids, seeds, regions, steps = append(ids, id), append(seeds, master.next()), append(regions, region), append(steps, st)
		}
	}
	mk("", nMain)
	for _, rg := range c04Regions {
		mk(rg, nRegion)
	}
	// the boundary stream: every cell of the slicing and append cross products, in every run
	for k := range c04BoundarySpecs() {
		mk(fmt.Sprintf("boundary:%d", k), 1)
	}
	// the escape stream: argument shape x escaping callee x repeated call site, in every run
	for k := range c04EscapeKinds {
		mk(fmt.Sprintf("escape:%d", k), 2)
	}
	// the return stream: returned operand x deferred update after the return statement
	mk("return:0", 3)
	// the repeated-site stream: copy-yielding read expression x element type x hit/miss order, the
	// same site executed 3-5 times in one activation; 8 histories = every order of length 3 per cell
	// (histories 8 and 9: the cells of v, ok := m[k], inside the region of finding C04-map-commaok-result-not-fresh)
	// (history 10: the cells of v := <-c / v, ok := <-c, inside the region of finding C04-chan-recv-result-unaddressable)
	// (history 11: the cells of v, ok := x.(T), inside the region of finding C04-typeassert-commaok-result-not-fresh)
	for k := 0; k < 12; k++ {
		mk(fmt.Sprintf("repeat:%d", k), 1)
	}
	return
}

var c04Regions = []string{"var-struct-lit", "multi-assign-call-or-lit", "multi-assign-map-entry", "multi-assign-nil", "append-multi-alias",
	"range-ptr-array", "addr-of-ptr-array-elem", "arraylit-ptr-array-field", "method-value-receiver-alias", "defer-arg-alias", "named-result-alias", "interface-boxing-alias", "multi-assign-iface", "iface-holds-type-with-methods", "append-nil-elem"}

func c04Regenerate(tier string, seed uint64, id int) *c04hist {
	ids, seeds, regions, steps := c04Plan(tier, seed)
	for i := range ids {
		if ids[i] == id {
			return c04Generate(id, seeds[i], regions[i], steps[i])
		}
	}
	return nil
}

// c04Differs: the operation list is valid (the reference interpreter runs it without panic) and
// yaegi's output differs from the interpreter's prediction.
func c04Differs(ops []*c04op) bool {
	st := c04InitState()
	var out [][]int64
	for _, o := range ops {
		ok := func() (ok bool) {
			defer func() {
				if r := recover(); r != nil {
					ok = false
				}
			}()
			st.exec(o, &out)
			return true
		}()
		if !ok {
			return false
		}
	}
	src := c04Program(c04Catalogue(), nil, ops)
	if c04TypeCheck(src) != nil {
		return false
	}
	y := runYaegi(src, yaegiOpts{Timeout: 30 * time.Second})
	return y.End != "ok" || fmt.Sprint(c04Dumps(y.Stdout)) != fmt.Sprint(out)
}

func c04Shrink(ops []*c04op) []*c04op {
	// keep only the last dump: drop all dumps, then append one
	strip := func(l []*c04op) []*c04op {
		var out []*c04op
		for _, o := range l {
			if o.K != "dump" {
				out = append(out, o)
			}
		}
		return append(out, &c04op{K: "dump"})
	}
	if c := strip(ops); c04Differs(c) {
		ops = c
	}
	for changed := true; changed; {
		changed = false
		for chunk := len(ops) / 2; chunk >= 1; chunk /= 2 {
			for i := 0; i+chunk <= len(ops); {
				cand := append(append([]*c04op{}, ops[:i]...), ops[i+chunk:]...)
				if len(cand) > 0 && c04Differs(cand) {
					ops = cand
					changed = true
				} else {
					i += chunk
				}
			}
		}
		// shrink loop bodies
		for i, o := range ops {
			if o.K == "range" && len(o.Body) > 0 {
				for j := range o.Body {
					nb := append(append([]*c04op{}, o.Body[:j]...), o.Body[j+1:]...)
					no := *o
					no.Body = nb
					cand := append(append(append([]*c04op{}, ops[:i]...), &no), ops[i+1:]...)
					if c04Differs(cand) {
						ops = cand
						changed = true
						break
					}
				}
			}
		}
	}
	return ops
}

// ---------------------------------------------------------------- compiled reference, many histories per binary

// c04GoRef compiles the histories natively. To keep the build short, the main functions of up to
// 100 histories are placed (renamed hN, bodies unchanged) in one package whose real main calls the
// one selected on the command line; every history runs in its own process.
func c04GoRef(hs []*c04hist, timeout time.Duration) (map[int]outcome, error) {
	res := map[int]outcome{}
	dir, err := os.MkdirTemp("", "vh-c04ref-*")
	if err != nil {
		return nil, err
	}
	defer os.RemoveAll(dir)
	if err := os.WriteFile(filepath.Join(dir, "go.mod"), []byte("module ref\n\ngo 1.22\n"), 0o644); err != nil {
		return nil, err
	}
	const per = 100
	type job struct {
		h   *c04hist
		bin string
	}
	var jobs []job
	for b := 0; b*per < len(hs); b++ {
		pkg := fmt.Sprintf("b%d", b)
		os.MkdirAll(filepath.Join(dir, pkg), 0o755)
		var common strings.Builder
		common.WriteString(strings.Replace(c04Prelude, `import "fmt"`, "import (\n\t\"fmt\"\n\t\"os\"\n)", 1))
		common.WriteString(c04DumpDecl)
		for _, f := range c04Catalogue() {
			common.WriteString(f.goDecl() + "\n")
		}
		common.WriteString("func main() {\n\tswitch os.Args[1] {\n")
		for i := b * per; i < (b+1)*per && i < len(hs); i++ {
			h := hs[i]
			fmt.Fprintf(&common, "\tcase \"%d\":\n\t\th%d()\n", h.ID, h.ID)
			k := strings.Index(h.Src, "func main() {")
			if k < 0 {
				return nil, fmt.Errorf("history %d has no main", h.ID)
			}
			body := "package main\n\nimport \"fmt\"\n\nvar _ = fmt.Sprint // (the repeated-site stream prints inside main)\n\n" + strings.Replace(h.Src[k:], "func main() {", fmt.Sprintf("func h%d() {", h.ID), 1)
			if err := os.WriteFile(filepath.Join(dir, pkg, fmt.Sprintf("h%d.go", h.ID)), []byte(body), 0o644); err != nil {
				return nil, err
			}
			jobs = append(jobs, job{h, filepath.Join(dir, "bin", pkg)})
		}
		common.WriteString("\t}\n}\n")
		if err := os.WriteFile(filepath.Join(dir, pkg, "common.go"), []byte(common.String()), 0o644); err != nil {
			return nil, err
		}
	}
	os.MkdirAll(filepath.Join(dir, "bin"), 0o755)
	build := func(extra ...string) ([]byte, error) {
		cmd := exec.Command("go", append(append([]string{"build", "-o", filepath.Join(dir, "bin") + "/"}, extra...), "./...")...)
		cmd.Dir = dir
		cmd.Env = append(os.Environ(), "GOFLAGS=-mod=mod", "GOPROXY=off", "GOSUMDB=off", "GOTOOLCHAIN=local", "GO111MODULE=on")
		return cmd.CombinedOutput()
	}
	if bout, err := build(); err != nil {
		if !strings.Contains(string(bout), "internal compiler error") {
			return nil, fmt.Errorf("go build of the reference programs failed: %v\n%s", err, bout)
		}
		// a bug of the Go compiler's optimiser on one of the programs (seen: "nilcheck still has 1 uses"):
		// build without optimisation, the meaning of the programs is the same
		if bout2, err2 := build("-gcflags=-N"); err2 != nil {
			return nil, fmt.Errorf("go build of the reference programs failed: %v\n%s\n(without optimisation) %v\n%s", err, bout, err2, bout2)
		}
	}
	var mu sync.Mutex
	parallelMap(len(jobs), 0, func(i int) {
		j := jobs[i]
		ctx, cancel := context.WithTimeout(context.Background(), timeout)
		defer cancel()
		c := exec.CommandContext(ctx, j.bin, fmt.Sprint(j.h.ID))
		var out, errb bytes.Buffer
		c.Stdout, c.Stderr = &out, &errb
		err := c.Run()
		r := outcome{Stdout: out.String()}
		switch {
		case ctx.Err() != nil:
			r.End = "timeout"
		case err == nil:
			r.End = "ok"
		default:
			r.End = goEnd(errb.String(), err)
		}
		mu.Lock()
		res[j.h.ID] = r
		mu.Unlock()
	})
	return res, nil
}

func c04OpsText(ops []*c04op) string {
	var b strings.Builder
	for _, o := range ops {
		for _, l := range o.goLines("") {
			b.WriteString(l + "\n")
		}
	}
	return b.String()
}

func init() {
	register("c04-case", "C04: regenerate one history, run yaegi, and write a Coq file that prints the dumps of Y next to yaegi's", func(args []string) error {
		fs := flag.NewFlagSet("c04-case", flag.ExitOnError)
		tier := fs.String("tier", "quick", "quick|thorough")
		seed := fs.Uint64("seed", envSeed(), "seed")
		id := fs.Int("id", 0, "history id")
		out := fs.String("out", "", "output .v file")
		fs.Parse(args)
		h := c04Regenerate(*tier, *seed, *id)
		if h == nil {
			return fmt.Errorf("no history %d", *id)
		}
		y := runYaegi(h.Src, yaegiOpts{Timeout: 60 * time.Second})
		fmt.Println(h.Src)
		fmt.Println("// yaegi end:", y.End)
		body := fmt.Sprintf("From Verif Require Import Mem.GoStore Mem.ReflectModel Mem.Cases.\nDefinition os : ops := %s.\nDefinition tab := %s ++ %s.\nDefinition yo := Eval vm_compute in (fst (y_ops (grow_of tab) init_st os), %s).\nPrint yo.\n",
			c04CoqOps(h.Ops), c04CoqGrow(h.Grow), c04GeneralGrow(), c04CoqDumps(c04Dumps(y.Stdout)))
		return os.WriteFile(*out, []byte(body), 0o644)
	})
}

// c04GeneralGrow: the growth policy of the Go run-time for the three element sizes and small capacities.
func c04GeneralGrow() string {
	general := map[[3]int]int{}
	for ek := 0; ek < 4; ek++ {
		for c := 0; c <= 48; c++ {
			for n := c + 1; n <= c+8; n++ {
				general[[3]int{ek, c, n}] = c04RealGrow(ek, c, c, n)
			}
		}
	}
	return c04CoqGrow(general)
}

// ---------------------------------------------------------------- yaegi in child processes

func init() {
	register("c04-yaegi-batch", "internal: evaluate the given Go source files with yaegi, one JSON outcome per line", func(args []string) error {
		enc := json.NewEncoder(os.Stdout)
		for _, f := range args {
			b, err := os.ReadFile(f)
			if err != nil {
				return err
			}
			r := runYaegi(string(b), yaegiOpts{Timeout: 60 * time.Second})
			if err := enc.Encode(map[string]any{"file": filepath.Base(f), "outcome": r}); err != nil {
				return err
			}
		}
		return nil
	})
}

// c04RunYaegi evaluates the histories in child processes of this binary (one interpreter at a time
// per process), so that a fatal error of the host (stack overflow, ...) on one program is observed
// as the outcome of that program instead of killing the harness.
func c04RunYaegi(hs []*c04hist, sm *summary) error {
	dir, err := os.MkdirTemp("", "vh-c04y-*")
	if err != nil {
		return err
	}
	defer os.RemoveAll(dir)
	self, err := os.Executable()
	if err != nil {
		return err
	}
	nproc := runtime.NumCPU()
	if nproc > len(hs) {
		nproc = len(hs)
	}
	chunks := make([][]int, nproc)
	for i, h := range hs {
		if err := os.WriteFile(filepath.Join(dir, fmt.Sprintf("h%d.go", h.ID)), []byte(h.Src), 0o644); err != nil {
			return err
		}
		chunks[i%nproc] = append(chunks[i%nproc], i)
	}
	done := make([]bool, len(hs))
	var mu sync.Mutex
	parallelMap(nproc, nproc, func(c int) {
		var files []string
		for _, i := range chunks[c] {
			files = append(files, filepath.Join(dir, fmt.Sprintf("h%d.go", hs[i].ID)))
		}
		ctx, cancel := context.WithTimeout(context.Background(), time.Duration(len(files))*70*time.Second)
		defer cancel()
		cmd := exec.CommandContext(ctx, self, append([]string{"c04-yaegi-batch"}, files...)...)
		var out bytes.Buffer
		cmd.Stdout = &out
		cmd.Run()
		dec := json.NewDecoder(&out)
		for k := 0; k < len(files); k++ {
			var rec struct {
				File    string
				Outcome outcome
			}
			if dec.Decode(&rec) != nil || rec.Outcome.End == "" {
				break
			}
			i := chunks[c][k]
			if rec.File != fmt.Sprintf("h%d.go", hs[i].ID) {
				break
			}
			mu.Lock()
			hs[i].impl, done[i] = rec.Outcome, true
			mu.Unlock()
		}
	})
	// programs whose batch died: each one alone, so that the crashing one is identified
	var rest []int
	for i := range hs {
		if !done[i] {
			rest = append(rest, i)
		}
	}
	parallelMap(len(rest), 0, func(k int) {
		i := rest[k]
		hs[i].impl = runYaegiChild(hs[i].Src, 60*time.Second)
		if strings.HasPrefix(hs[i].impl.End, "host-crash") {
			mu.Lock()
			sm.count("yaegi-host-crash")
			mu.Unlock()
		}
	})
	return nil
}
