package main

import (
	"fmt"
	"go/ast"
	"go/constant"
	"go/importer"
	"go/parser"
	"go/token"
	"go/types"
	"math/big"
	"strings"
)

// C03, the enlarged PROVED fragment (coq/Const/FloatProofs.v, [frf]): untyped integer, rune and
// FLOATING-POINT constants (exact rationals) with + - * / and unary + -, mixed operands (the larger
// kind wins, int < rune < float; the quotient truncates only between integer kinds), the integer-only
// operators, shifts of integer kinds, strings and !; and their rejections (zero divisor, % & | ^ &^
// and unary ^ on a floating-point kind, shift count out of range).
//
//   stream "floatfrag"  : fmt.Printf("%T|%v", e, e) with e a seeded tree of the fragment: yaegi vs
//                         go/types + go/constant, Y and G in Coq (cases_prog_*.v, with the other programs)
//   stream "floatdest"  : T(e) printed and var v T = lit for every numeric type T (typed destinations)
//   cases_geval_*.v     : for every generated tree, `const K = e` checked by go/types: the untyped
//                         kind and the EXACT go/constant value (or the rejection) against G.eval, the
//                         same against Y.eval, and membership of the tree in the proved fragment.

type c03fragStats struct {
	sm *summary
}

func (s c03fragStats) count(k string) {
	if strings.HasPrefix(k, "inject:") {
		s.sm.count("fraggen:" + k)
	}
}

// fragFloatLit: decimal, exponent and hexadecimal floating-point literals (all exact rationals).
// fragExtremeLit: a floating-point literal whose magnitude is below the smallest float64 denormal
// (small=true: decimal exponents -310..-450, hexadecimal exponents -1000..-1400) or above the
// largest float64 (decimal exponents 300..450, hexadecimal 1000..1400), with a seeded mantissa.
func (g *c03gen) fragExtremeLit(small bool) *cx {
	r := g.r
	var lit string
	sign := ""
	if small {
		sign = "-"
	}
	switch r.intn(4) {
	case 0:
		lit = fmt.Sprintf("%de%s%d", 1+r.intn(9), sign, 310+r.intn(141))
	case 1:
		lit = fmt.Sprintf("%d.%de%s%d", r.intn(10), 1+r.intn(999), sign, 310+r.intn(141))
	case 2:
		lit = fmt.Sprintf("0x1p%s%d", sign, 1030+r.intn(371))
	default:
		lit = fmt.Sprintf("0x%x.%xp%s%d", 1+r.intn(255), r.intn(16), sign, 1080+r.intn(321))
	}
	if !small && r.chance(30) {
		lit = fmt.Sprintf("%de%d", 1+r.intn(9), 300+r.intn(151)) // includes in-range 1e300..1e308
	}
	v := constant.MakeFromLiteral(lit, token.FLOAT, 0)
	q, ok := constant.Val(v).(*big.Rat)
	if !ok {
		panic("c03: extreme literal left the exact regime: " + lit)
	}
	return &cx{K: "float", Q: q, Lit: lit}
}

func (g *c03gen) fragFloatLit() *cx {
	r := g.r
	if g.extreme && r.chance(7) {
		return g.fragExtremeLit(r.bool())
	}
	var lit string
	switch r.intn(14) {
	case 0:
		lit = fmt.Sprintf("%d.0", r.intn(20))
	case 1:
		lit = fmt.Sprintf("%d.%d", r.intn(100), r.intn(1000))
	case 2:
		lit = fmt.Sprintf("%d.5", r.intn(1000))
	case 3:
		lit = fmt.Sprintf("0.%d", 1+r.intn(99))
	case 4:
		lit = fmt.Sprintf("%de%d", 1+r.intn(9), r.intn(25))
	case 5:
		lit = fmt.Sprintf("%d.%de-%d", r.intn(10), r.intn(100), 1+r.intn(12))
	case 6:
		lit = fmt.Sprintf("%d.25", r.intn(64))
	case 7:
		lit = fmt.Sprintf("0x1p-%d", r.intn(30))
	case 8:
		lit = fmt.Sprintf("0x%xp%d", 1+r.intn(255), r.intn(20)-10)
	case 9:
		lit = fmt.Sprintf("0x1.%xp%d", 1+r.intn(15), r.intn(12)-6)
	case 10:
		lit = fmt.Sprintf(".%d", 1+r.intn(999))
	case 11:
		lit = fmt.Sprintf("%d.", r.intn(300))
	case 12:
		lit = fmt.Sprintf("1e%d", r.intn(40))
	default:
		lit = fmt.Sprintf("%d.%d", r.intn(10), r.intn(10))
	}
	v := constant.MakeFromLiteral(lit, token.FLOAT, 0)
	q, ok := constant.Val(v).(*big.Rat)
	if !ok {
		lit = "1.5"
		q = big.NewRat(3, 2)
	}
	return &cx{K: "float", Q: q, Lit: lit}
}

func (g *c03gen) fragIntLit() *cx {
	if g.r.chance(70) {
		n := g.r.intn(40)
		return &cx{K: "int", Z: big.NewInt(int64(n)), Lit: fmt.Sprint(n)}
	}
	return g.intLit()
}

// fragZero returns an expression of kind k whose value is zero (a divisor both must reject).
func (g *c03gen) fragZero(k string) *cx {
	l := g.fragLeaf(k)
	switch g.r.intn(3) {
	case 0:
		return &cx{K: "paren", A: &cx{K: "bin", Op: "-", A: l, C: l}}
	case 1:
		return &cx{K: "bin", Op: "*", A: l, C: &cx{K: "int", Z: big.NewInt(0), Lit: "0"}}
	}
	switch k {
	case "float":
		return &cx{K: "float", Q: new(big.Rat), Lit: "0.0"}
	case "rune":
		return &cx{K: "rune", Z: big.NewInt(0), Lit: "'\\x00'"}
	}
	return &cx{K: "int", Z: big.NewInt(0), Lit: "0"}
}

func (g *c03gen) fragLeaf(k string) *cx {
	switch k {
	case "float":
		return g.fragFloatLit()
	case "rune":
		return g.runeLit()
	}
	return g.fragIntLit()
}

// fragTree returns a tree of the proved fragment whose Go kind is k (int, rune, float) unless a
// rejected form was injected below it.
func (g *c03gen) fragTree(k string, depth int, st c03fragStats) *cx {
	r := g.r
	if depth <= 0 || r.chance(15) {
		st.count("leaf:" + k)
		return g.fragLeaf(k)
	}
	bin := func(op string, a, c *cx) *cx {
		st.count("op:" + op)
		return g.maybeParen(&cx{K: "bin", Op: op, A: a, C: c})
	}
	switch c := r.intn(100); {
	case c < 12:
		op := r.pick([]string{"-", "-", "+"})
		st.count("op:unary" + op)
		return &cx{K: "un", Op: op, A: g.fragTree(k, depth-1, st)}
	case c < 18:
		st.count("op:paren")
		return paren(g.fragTree(k, depth-1, st))
	}
	switch k {
	case "float":
		ka, kc := "float", "float"
		switch r.intn(8) {
		case 0, 1:
			ka = "int"
		case 2, 3:
			kc = "int"
		case 4:
			ka = "rune"
		case 5:
			kc = "rune"
		}
		if g.extreme && r.chance(6) {
			// a sub-expression outside the float64 range (either side) that a further factor or divisor
			// brings back: x / tiny / huge, x * tiny * huge, huge / huge', x / tiny * tiny', tiny * tiny' / tiny''
			st.count("inject:rescale")
			small := r.bool()
			x := g.fragTree(ka, depth-1, st)
			a, b := g.fragExtremeLit(small), g.fragExtremeLit(small)
			switch r.intn(6) {
			case 0:
				return bin("/", bin("/", x, a), g.fragExtremeLit(!small))
			case 1:
				return bin("*", bin("*", x, a), g.fragExtremeLit(!small))
			case 2:
				return bin(r.pick([]string{"*", "+", "-"}), x, paren(bin("/", a, b)))
			case 3:
				return bin("*", bin("/", x, a), b)
			case 4:
				return bin("/", x, paren(bin("*", a, g.fragExtremeLit(!small))))
			default:
				return bin("/", a, paren(bin("*", b, x)))
			}
		}
		switch c := r.intn(100); {
		case c < 3:
			// integer-only operator on a floating-point kind: rejected
			st.count("inject:intop-on-float")
			return bin(r.pick([]string{"%", "&", "|", "^", "&^"}), g.fragTree(ka, depth-1, st), g.fragTree(kc, depth-1, st))
		case c < 5:
			st.count("inject:xor-on-float")
			st.count("op:unary^")
			return &cx{K: "un", Op: "^", A: g.fragTree("float", depth-1, st)}
		case c < 7:
			st.count("inject:zero-divisor")
			return bin("/", g.fragTree(ka, depth-1, st), g.fragZero(kc))
		}
		return bin(r.pick([]string{"+", "-", "*", "/", "/"}), g.fragTree(ka, depth-1, st), g.fragTree(kc, depth-1, st))
	case "rune":
		ka, kc := "rune", "rune"
		switch r.intn(3) {
		case 0:
			ka = "int"
		case 1:
			kc = "int"
		}
		op := r.pick(c03IntOps)
		if op == "/" && kc == "int" {
			kc = "rune" // 'a' / 2 takes the kind of the divisor in yaegi (region quo-no-unify)
		}
		if r.chance(12) {
			n := r.intn(9)
			return bin(r.pick([]string{"<<", ">>"}), g.fragTree("rune", depth-1, st), &cx{K: "int", Z: big.NewInt(int64(n)), Lit: fmt.Sprint(n)})
		}
		return bin(op, g.fragTree(ka, depth-1, st), g.fragTree(kc, depth-1, st))
	}
	// int
	switch c := r.intn(100); {
	case c < 15:
		n := r.intn(70)
		if r.chance(8) {
			n = 60 + r.intn(600)
		}
		cnt := &cx{K: "int", Z: big.NewInt(int64(n)), Lit: fmt.Sprint(n)}
		return bin(r.pick([]string{"<<", "<<", ">>"}), g.fragTree("int", depth-1, st), cnt)
	case c < 17:
		st.count("inject:zero-divisor")
		return bin(r.pick([]string{"/", "%"}), g.fragTree("int", depth-1, st), g.fragZero("int"))
	}
	return bin(r.pick(c03IntOps), g.fragTree("int", depth-1, st), g.fragTree("int", depth-1, st))
}

func cxDepth(e *cx) int {
	if e == nil {
		return 0
	}
	d := cxDepth(e.A)
	if c := cxDepth(e.C); c > d {
		d = c
	}
	if e.K == "int" || e.K == "rune" || e.K == "float" || e.K == "str" || e.K == "bool" {
		return 0
	}
	return d + 1
}

var c03NumTypes = c03Types[:13]

type c03fragCase struct {
	p    *c03prog
	tree *cx // the untyped tree of the fragment inside the program
}

// c03FloatFrag generates the programs of the two streams.
func (g *c03gen) c03FloatFrag(n int, maxDepth int, st c03fragStats) []c03fragCase {
	r := g.r
	var out []c03fragCase
	for i := 0; i < n; i++ {
		k := "float"
		switch c := r.intn(100); {
		case c < 22:
			k = "int"
		case c < 34:
			k = "rune"
		}
		depth := 1 + r.intn(maxDepth)
		switch c := r.intn(100); {
		case c < 72:
			e := g.fragTree(k, depth, st)
			out = append(out, c03fragCase{&c03prog{Kind: "expr", E: e}, e})
		case c < 92:
			// T(e): small trees so that many values fit; the integer destinations meet integral and
			// fractional floating-point values (truncation), the float32 destination meets inexact ones
			t := r.pick(c03NumTypes)
			d := depth
			if d > 3 {
				d = 3
			}
			save := g.bigLits
			g.bigLits = r.chance(15)
			e := g.fragTree(k, d, st)
			if k == "float" && isIntT(t) && r.chance(50) {
				// an integral floating-point value: x.0, x.5 * 2, 0x1p3
				switch r.intn(3) {
				case 0:
					n := r.intn(300)
					e = &cx{K: "float", Q: new(big.Rat).SetInt64(int64(n)), Lit: fmt.Sprintf("%d.0", n)}
				case 1:
					n := r.intn(200)
					e = &cx{K: "bin", Op: "*", A: &cx{K: "float", Q: big.NewRat(int64(2*n+1), 2), Lit: fmt.Sprintf("%d.5", n)}, C: &cx{K: "int", Z: big.NewInt(2), Lit: "2"}}
				default:
					n := r.intn(66)
					e = &cx{K: "float", Q: new(big.Rat).SetInt(new(big.Int).Lsh(big.NewInt(1), uint(n))), Lit: fmt.Sprintf("0x1p%d", n)}
				}
			}
			g.bigLits = save
			out = append(out, c03fragCase{&c03prog{Kind: "expr", E: &cx{K: "conv", T: t, A: e}}, e})
		default:
			t := r.pick(c03NumTypes)
			e := g.fragLeaf(k)
			out = append(out, c03fragCase{&c03prog{Kind: "var", VarT: t, E: e}, e})
		}
	}
	return out
}

// ---------------------------------------------------------------- exact reference for one tree

type c03exact struct {
	Rejected bool
	Err      string
	Kind     string // int rune float string bool
	Z        *big.Int
	Q        *big.Rat
	Exact    bool
	MaxBit   int
	Tree     *cx // the tree as go/parser built it (parentheses are nodes)
}

// c03ExactRef type-checks `const K = e` and returns the untyped kind and the exact value go/types
// recorded for K (no default type, no rounding).
func c03ExactRef(e *cx) (*c03exact, error) {
	src := "package p\n\nconst K = " + e.src() + "\n"
	fset := token.NewFileSet()
	f, err := parser.ParseFile(fset, "p.go", src, 0)
	if err != nil {
		return nil, err
	}
	x := &c03exact{Exact: true}
	x.Tree, err = fromAST(f.Decls[0].(*ast.GenDecl).Specs[0].(*ast.ValueSpec).Values[0])
	if err != nil {
		return nil, err
	}
	var errs []string
	info := &types.Info{Types: map[ast.Expr]types.TypeAndValue{}}
	conf := types.Config{Importer: importer.Default(), Error: func(err error) { errs = append(errs, err.Error()) }}
	pkg, _ := conf.Check("p", fset, []*ast.File{f}, info)
	for _, tv := range info.Types {
		if tv.Value == nil {
			continue
		}
		switch v := constant.Val(tv.Value).(type) {
		case *big.Float:
			x.Exact = false
		case *big.Rat:
			if n := v.Num().BitLen(); n > x.MaxBit {
				x.MaxBit = n
			}
			if n := v.Denom().BitLen(); n > x.MaxBit {
				x.MaxBit = n
			}
		case *big.Int:
			if n := v.BitLen(); n > x.MaxBit {
				x.MaxBit = n
			}
		}
	}
	if len(errs) > 0 {
		x.Rejected, x.Err = true, errs[0]
		return x, nil
	}
	obj, ok := pkg.Scope().Lookup("K").(*types.Const)
	if !ok {
		return nil, fmt.Errorf("no constant K")
	}
	b, ok := obj.Type().(*types.Basic)
	if !ok {
		return nil, fmt.Errorf("type %v", obj.Type())
	}
	switch b.Kind() {
	case types.UntypedInt, types.UntypedRune:
		x.Kind = "int"
		if b.Kind() == types.UntypedRune {
			x.Kind = "rune"
		}
		switch z := constant.Val(constant.ToInt(obj.Val())).(type) {
		case *big.Int:
			x.Z = z
		case int64:
			x.Z = big.NewInt(z)
		default:
			return nil, fmt.Errorf("integer value %v", obj.Val())
		}
	case types.UntypedFloat:
		x.Kind = "float"
		switch v := constant.Val(obj.Val()).(type) {
		case *big.Rat:
			x.Q = v
		case *big.Int:
			x.Q = new(big.Rat).SetInt(v)
		case int64:
			x.Q = new(big.Rat).SetInt64(v)
		default:
			x.Exact = false
		}
	default:
		return nil, fmt.Errorf("kind %v", b)
	}
	return x, nil
}

func (x *c03exact) coq() string {
	if x.Rejected {
		return "None"
	}
	switch x.Kind {
	case "int":
		return "(Some (UInt, GI " + coqBigZ(x.Z) + "))"
	case "rune":
		return "(Some (URune, GI " + coqBigZ(x.Z) + "))"
	}
	return "(Some (UFloat, GQ " + coqQ(x.Q) + "))"
}

// fragRejectClass: the rejections of the fragment (the property's own, plus the integer-only operators)
func fragRejectClass(msg string) string {
	if c := refErrorClass(msg); c != "" {
		return c
	}
	if strings.Contains(msg, "not defined on") {
		return "operator-not-defined"
	}
	return ""
}

// walkCx counts operand-kind combinations of the binary nodes (measured distribution).
func walkCx(e *cx, f func(*cx)) {
	if e == nil {
		return
	}
	f(e)
	walkCx(e.A, f)
	walkCx(e.C, f)
}

// fragKind: the kind the Go specification gives a tree of the fragment (syntactic).
func fragKind(e *cx) string {
	switch e.K {
	case "int", "iota":
		return "int"
	case "rune", "float", "str", "bool":
		return e.K
	case "paren", "un":
		return fragKind(e.A)
	case "bin":
		a, c := fragKind(e.A), fragKind(e.C)
		if e.Op == "<<" || e.Op == ">>" {
			return a
		}
		if urank(a) < urank(c) {
			return c
		}
		return a
	}
	return "?"
}

// fragMeasure records the measured distribution of one admitted tree.
func fragMeasure(sm *summary, x *c03exact) {
	t := x.Tree
	if x.Rejected {
		sm.count("frag:result:rejected:" + fragRejectClass(x.Err))
	} else {
		sm.count("frag:result:untyped " + x.Kind)
	}
	if !x.Rejected && x.Q != nil && x.Q.Sign() != 0 {
		f, _ := x.Q.Float64()
		switch {
		case f == 0:
			sm.count("frag:magnitude:result below smallest denormal")
		case f > 1.797e308 || f < -1.797e308:
			sm.count("frag:magnitude:result above MaxFloat64")
		default:
			sm.count("frag:magnitude:result in float64 range")
		}
	}
	sm.count(fmt.Sprintf("frag:depth:%02d", cxDepth(t)))
	walkCx(t, func(n *cx) {
		switch n.K {
		case "bin":
			sm.count("frag:op:" + n.Op)
			sm.count("frag:operands:" + fragKind(n.A) + " " + n.Op + " " + fragKind(n.C))
		case "un":
			sm.count("frag:op:unary" + n.Op)
		case "paren":
			sm.count("frag:op:paren")
		case "float":
			if n.Q.Sign() != 0 {
				if f, _ := n.Q.Float64(); f == 0 {
					sm.count("frag:literal-magnitude:below smallest denormal")
				} else if f > 1.797e308 {
					sm.count("frag:literal-magnitude:above MaxFloat64")
				}
			}
			switch {
			case strings.HasPrefix(n.Lit, "0x"):
				sm.count("frag:literal:hex-float")
			case strings.ContainsAny(n.Lit, "eE"):
				sm.count("frag:literal:exponent-float")
			default:
				sm.count("frag:literal:decimal-float")
			}
		case "int", "rune":
			sm.count("frag:literal:" + n.K)
		}
	})
}
