package main

func c1FragmentCases(r *rng, n int) []*c1case                      { return nil }
func c1WriteCases(out string, cs []*c1case) ([]string, int, error) { return nil, 0, nil }
