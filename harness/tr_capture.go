package main

import (
	"bytes"
	"flag"
	"fmt"
	"go/ast"
	"go/parser"
	"go/printer"
	"go/token"
	"os"
	"path/filepath"
	"sort"
	"strings"
)

// tr-capture: regenerates coq/gen/Captured_gen.v from the source text of interp/*.go.
//
// A *run-time closure* is a function literal with a parameter of type *frame
// (n.exec = func(f *frame) bltn {...}, the func(*frame) reflect.Value closures of value.go, ...).
// It is created once per statement when the CFG is generated and executed by every goroutine
// that runs the statement. Every variable that is declared OUTSIDE such a closure (a local of
// the generator, a parameter, a package-level variable) and that the closure body WRITES is
// therefore state shared by all executing goroutines. This translator lists those writes:
//
//	(generator function, variable, kind of write, enclosing lock, file:line of the first site, number of sites)
//
// kinds: assign (x = ..., x op= ..., x++), index (x[i] = ..., x[i].F = ...), field (x.F = ...),
// deref (*x = ...), addr (&x, &x[i], &x.F: passed by address), append (x = append(x, ...) is an
// assign; append kept separate only when the result goes elsewhere), copy (copy(x, ...)),
// delete (delete(x, k)), setcall (x.Set*(...) / x.Store(...) on a captured value: a write through reflect),
// frame-writeback: a function literal NESTED in the run-time closure (it may run later, in another goroutine:
// reflect.MakeFunc wrappers, go/defer literals) assigns to a slot of the frame the OUTER closure was executed
// with (f.data[i] = ..., getFrame(f, l).data[i] = ...): a write to a frame that is not on the writer's own chain.
// The position is informative only; the Coq side compares (generator, variable, kind, lock).

func init() {
	register("tr-capture", "translator: writes to captured (per-statement) state inside run-time closures of interp/*.go -> Captured_gen.v", trCapture)
}

type capRow struct {
	Gen, Var, Kind, Lock string
	Pos                  string
	Sites                int
}

func (r capRow) key() string { return r.Gen + "\x00" + r.Var + "\x00" + r.Kind + "\x00" + r.Lock }

func hasFrameParam(ft *ast.FuncType) bool {
	if ft == nil || ft.Params == nil {
		return false
	}
	for _, p := range ft.Params.List {
		if st, ok := p.Type.(*ast.StarExpr); ok {
			if id, ok := st.X.(*ast.Ident); ok && id.Name == "frame" {
				return true
			}
		}
	}
	return false
}

func exprString(fset *token.FileSet, e ast.Expr) string {
	var b bytes.Buffer
	printer.Fprint(&b, fset, e)
	return b.String()
}

// rootIdent strips index, selector, star, paren and slice expressions.
// kind is the outermost access form: "assign" for a bare identifier, "index", "field", "deref".
func rootIdent(e ast.Expr) (id *ast.Ident, kind string) {
	kind = "assign"
	first := true
	set := func(k string) {
		if first {
			kind = k
			first = false
		}
	}
	for {
		switch x := e.(type) {
		case *ast.Ident:
			return x, kind
		case *ast.ParenExpr:
			e = x.X
		case *ast.IndexExpr:
			set("index")
			e = x.X
		case *ast.SliceExpr:
			set("index")
			e = x.X
		case *ast.SelectorExpr:
			set("field")
			e = x.X
		case *ast.StarExpr:
			set("deref")
			e = x.X
		default:
			return nil, kind
		}
	}
}

type lockEvent struct {
	pos      token.Pos
	expr     string // receiver expression, e.g. "f.mutex"
	read     bool
	unlock   bool
	deferred bool
}

// captureScan lists the writes to outer variables inside one run-time closure.
func captureScan(fset *token.FileSet, gen string, lit *ast.FuncLit, pkgVars map[string]bool, add func(capRow)) {
	inside := func(p token.Pos) bool { return p >= lit.Pos() && p < lit.End() }
	// identifiers declared inside the closure (params, :=, var, range, nested literals' params)
	declaredInside := func(id *ast.Ident) bool {
		if id.Obj != nil {
			return inside(id.Obj.Pos())
		}
		return false
	}
	captured := func(id *ast.Ident) bool {
		if id == nil || id.Name == "_" {
			return false
		}
		if id.Obj != nil {
			return id.Obj.Kind == ast.Var && !declaredInside(id)
		}
		return pkgVars[id.Name] // package-level variable declared in another file
	}
	// lock events in source order
	var locks []lockEvent
	var deferredCalls = map[*ast.CallExpr]bool{}
	ast.Inspect(lit.Body, func(n ast.Node) bool {
		if d, ok := n.(*ast.DeferStmt); ok {
			deferredCalls[d.Call] = true
		}
		return true
	})
	ast.Inspect(lit.Body, func(n ast.Node) bool {
		c, ok := n.(*ast.CallExpr)
		if !ok {
			return true
		}
		sel, ok := c.Fun.(*ast.SelectorExpr)
		if !ok || len(c.Args) != 0 {
			return true
		}
		switch sel.Sel.Name {
		case "Lock", "RLock", "Unlock", "RUnlock":
			locks = append(locks, lockEvent{pos: c.Pos(), expr: exprString(fset, sel.X),
				read: strings.HasPrefix(sel.Sel.Name, "R"), unlock: strings.HasSuffix(sel.Sel.Name, "nlock"), deferred: deferredCalls[c]})
		}
		return true
	})
	sort.Slice(locks, func(i, j int) bool { return locks[i].pos < locks[j].pos })
	lockAt := func(p token.Pos) string {
		type held struct {
			expr string
			read bool
		}
		var stack []held
		for _, ev := range locks {
			if ev.pos >= p {
				break
			}
			if ev.unlock {
				if ev.deferred {
					continue // released at function exit: still held at p
				}
				for k := len(stack) - 1; k >= 0; k-- {
					if stack[k].expr == ev.expr {
						stack = append(stack[:k], stack[k+1:]...)
						break
					}
				}
				continue
			}
			stack = append(stack, held{ev.expr, ev.read})
		}
		if len(stack) == 0 {
			return "none"
		}
		h := stack[len(stack)-1]
		if h.read {
			return "rlock:" + h.expr
		}
		return "lock:" + h.expr
	}
	emit := func(id *ast.Ident, kind string, at token.Pos) {
		if !captured(id) {
			return
		}
		p := fset.Position(at)
		add(capRow{Gen: gen, Var: id.Name, Kind: kind, Lock: lockAt(at), Pos: fmt.Sprintf("%s:%d", filepath.Base(p.Filename), p.Line), Sites: 1})
	}
	// frame parameters of the run-time closure itself
	frameParams := map[string]bool{}
	for _, p := range lit.Type.Params.List {
		if st, ok := p.Type.(*ast.StarExpr); ok {
			if id, ok := st.X.(*ast.Ident); ok && id.Name == "frame" {
				for _, nm := range p.Names {
					frameParams[nm.Name] = true
				}
			}
		}
	}
	// outerFrameRoot: the assigned location is a slot of the outer closure's frame
	outerFrameRoot := func(e ast.Expr) string {
		for {
			switch x := e.(type) {
			case *ast.ParenExpr:
				e = x.X
			case *ast.IndexExpr:
				e = x.X
			case *ast.SelectorExpr:
				e = x.X
			case *ast.StarExpr:
				e = x.X
			case *ast.Ident:
				if frameParams[x.Name] && x.Obj != nil && x.Obj.Pos() >= lit.Type.Pos() && x.Obj.Pos() < lit.Type.End() {
					return x.Name
				}
				return ""
			case *ast.CallExpr:
				if fn, ok := x.Fun.(*ast.Ident); ok && fn.Name == "getFrame" && len(x.Args) > 0 {
					e = x.Args[0]
					continue
				}
				return ""
			default:
				return ""
			}
		}
	}
	ast.Inspect(lit.Body, func(n ast.Node) bool {
		nested, ok := n.(*ast.FuncLit)
		if !ok {
			return true
		}
		ast.Inspect(nested.Body, func(m ast.Node) bool {
			as, ok := m.(*ast.AssignStmt)
			if !ok || as.Tok == token.DEFINE {
				return true
			}
			for _, lhs := range as.Lhs {
				if _, isIdent := lhs.(*ast.Ident); isIdent {
					continue
				}
				if name := outerFrameRoot(lhs); name != "" {
					p := fset.Position(lhs.Pos())
					add(capRow{Gen: gen, Var: name, Kind: "frame-writeback", Lock: lockAt(lhs.Pos()), Pos: fmt.Sprintf("%s:%d", filepath.Base(p.Filename), p.Line), Sites: 1})
				}
			}
			return true
		})
		return false
	})
	ast.Inspect(lit.Body, func(n ast.Node) bool {
		switch x := n.(type) {
		case *ast.AssignStmt:
			if x.Tok == token.DEFINE {
				// x, y := ...: a redeclaration can still assign an outer variable only in the same
				// scope; inside the closure body every name of := is new or closure-local.
				return true
			}
			for _, lhs := range x.Lhs {
				id, kind := rootIdent(lhs)
				emit(id, kind, lhs.Pos())
			}
		case *ast.IncDecStmt:
			id, kind := rootIdent(x.X)
			emit(id, kind, x.Pos())
		case *ast.RangeStmt:
			if x.Tok == token.ASSIGN {
				for _, e := range []ast.Expr{x.Key, x.Value} {
					if e != nil {
						id, kind := rootIdent(e)
						emit(id, kind, e.Pos())
					}
				}
			}
		case *ast.UnaryExpr:
			if x.Op == token.AND {
				if _, isLit := x.X.(*ast.CompositeLit); !isLit {
					id, _ := rootIdent(x.X)
					emit(id, "addr", x.Pos())
				}
			}
		case *ast.CallExpr:
			switch fn := x.Fun.(type) {
			case *ast.Ident:
				if fn.Obj == nil && len(x.Args) > 0 {
					switch fn.Name {
					case "copy":
						id, _ := rootIdent(x.Args[0])
						emit(id, "copy", x.Pos())
					case "delete":
						id, _ := rootIdent(x.Args[0])
						emit(id, "delete", x.Pos())
					}
				}
			case *ast.SelectorExpr:
				name := fn.Sel.Name
				if strings.HasPrefix(name, "Set") || name == "Store" {
					id, _ := rootIdent(fn.X)
					// only a value rooted directly at a captured variable (x.Set, x.F.Set, x[i].Set),
					// not the result of a call such as value(f).Set(...)
					emit(id, "setcall", x.Pos())
				}
			}
		}
		return true
	})
}

func trCapture(args []string) error {
	fs := flag.NewFlagSet("tr-capture", flag.ExitOnError)
	repo := fs.String("repo", "/repo", "repository root")
	out := fs.String("out", "/verif/coq/gen", "output directory")
	dump := fs.Bool("dump", false, "print the rows with positions to stdout")
	fs.Parse(args)

	dir := filepath.Join(*repo, "interp")
	ents, err := os.ReadDir(dir)
	if err != nil {
		return err
	}
	fset := token.NewFileSet()
	var files []*ast.File
	var names []string
	for _, e := range ents {
		n := e.Name()
		if !strings.HasSuffix(n, ".go") || strings.HasSuffix(n, "_test.go") || strings.HasPrefix(n, "verif_") {
			continue
		}
		f, err := parser.ParseFile(fset, filepath.Join(dir, n), nil, 0)
		if err != nil {
			return err
		}
		files = append(files, f)
		names = append(names, n)
	}
	pkgVars := map[string]bool{}
	for _, f := range files {
		for _, d := range f.Decls {
			gd, ok := d.(*ast.GenDecl)
			if !ok || gd.Tok != token.VAR {
				continue
			}
			for _, sp := range gd.Specs {
				for _, id := range sp.(*ast.ValueSpec).Names {
					pkgVars[id.Name] = true
				}
			}
		}
	}
	rows := map[string]*capRow{}
	nClosures, nGenerators := 0, 0
	for _, f := range files {
		for _, d := range f.Decls {
			fd, ok := d.(*ast.FuncDecl)
			if !ok || fd.Body == nil {
				continue
			}
			gen := fd.Name.Name
			if fd.Recv != nil && len(fd.Recv.List) == 1 {
				t := fd.Recv.List[0].Type
				if st, ok := t.(*ast.StarExpr); ok {
					t = st.X
				}
				if id, ok := t.(*ast.Ident); ok {
					gen = id.Name + "." + gen
				}
			}
			had := false
			var visit func(n ast.Node) bool
			visit = func(n ast.Node) bool {
				lit, ok := n.(*ast.FuncLit)
				if !ok {
					return true
				}
				if !hasFrameParam(lit.Type) {
					return true // look inside for run-time closures created by helper literals
				}
				nClosures++
				had = true
				captureScan(fset, gen, lit, pkgVars, func(r capRow) {
					if old, ok := rows[r.key()]; ok {
						old.Sites++
						return
					}
					rr := r
					rows[r.key()] = &rr
				})
				return false // nested literals were scanned as part of this closure
			}
			ast.Inspect(fd.Body, visit)
			if had {
				nGenerators++
			}
		}
	}
	keys := make([]string, 0, len(rows))
	for k := range rows {
		keys = append(keys, k)
	}
	sort.Strings(keys)

	var b strings.Builder
	b.WriteString("(* generated by vh tr-capture from interp/*.go; do not edit.\n")
	b.WriteString("   One row per (generator, captured variable, kind of write, enclosing lock) written inside a\n")
	b.WriteString("   run-time closure (function literal with a *frame parameter); position of the first site and number of sites are informative. *)\n")
	b.WriteString("From Coq Require Import String List.\nImport ListNotations.\nOpen Scope string_scope.\n")
	b.WriteString("Record cap_row := { cap_gen : string; cap_var : string; cap_kind : string; cap_lock : string; cap_pos : string; cap_sites : nat }.\n")
	fmt.Fprintf(&b, "Definition captured_files : list string := [%s].\n", strings.Join(mapStr(names, coqRawStr), "; "))
	fmt.Fprintf(&b, "Definition captured_closures : nat := %d.\nDefinition captured_generators : nat := %d.\n", nClosures, nGenerators)
	b.WriteString("Definition captured_gen : list cap_row := [\n")
	for i, k := range keys {
		r := rows[k]
		sep := ";"
		if i == len(keys)-1 {
			sep = ""
		}
		fmt.Fprintf(&b, "  {| cap_gen := %s; cap_var := %s; cap_kind := %s; cap_lock := %s; cap_pos := %s; cap_sites := %d |}%s\n",
			coqRawStr(r.Gen), coqRawStr(r.Var), coqRawStr(r.Kind), coqRawStr(r.Lock), coqRawStr(r.Pos), r.Sites, sep)
		if *dump {
			fmt.Printf("%-28s %-16s %-8s %-22s %s x%d\n", r.Gen, r.Var, r.Kind, r.Lock, r.Pos, r.Sites)
		}
	}
	b.WriteString("].\n")
	if *dump {
		fmt.Printf("%d files, %d generators, %d run-time closures, %d rows\n", len(names), nGenerators, nClosures, len(keys))
	}
	return writeIfChanged(filepath.Join(*out, "Captured_gen.v"), []byte(b.String()))
}

func mapStr(l []string, f func(string) string) []string {
	o := make([]string, len(l))
	for i, x := range l {
		o[i] = f(x)
	}
	return o
}
