package main

import (
	"flag"
	"fmt"
	"math"
	"math/big"
	"os"
	"path/filepath"
	"sort"
	"strconv"
	"strings"
	"sync"
	"time"
)

// C02: operators and conversions at every numeric kind.
//   impl  = real yaegi evaluating generated programs (one output line per code site, one token per evaluation)
//   ref   = the same evaluations computed natively by this compiled binary (c02_native.go) and, for a
//           rotating shard of the programs (quick) or all of them (thorough), the same programs built by `go build`
//   Y, G  = coq/Num (OpDsl/Model, GoInt), evaluated by coqc on a sample of the integer evaluations and on
//           every evaluation where implementation and reference differ
// The enumeration is complete over operator x kind x operand form x result context x boundary values;
// the seed only rotates which constant-operand values the quick tier uses, the reference shard and the Coq sample.

func init() {
	register("c02", "C02 operators and conversions: enumerate sites, run yaegi, native and compiled-Go reference", runC02)
}

// ---------------------------------------------------------------- value sets

func c02IntValues(k *c02Kind) []c02V {
	var out []c02V
	seen := map[string]bool{}
	add := func(v c02V) {
		if !seen[v.key()] {
			seen[v.key()] = true
			out = append(out, v)
		}
	}
	if k.Signed {
		min := int64(-1) << (k.Bits - 1)
		max := -(min + 1)
		cands := []int64{min, min + 1, -2, -1, 0, 1, 2, 3, max - 1, max}
		for _, p := range []int{k.Bits / 2, k.Bits - 2} {
			q := int64(1) << p
			cands = append(cands, q-1, q, q+1, -q-1, -q, -q+1)
		}
		if k.Bits == 64 {
			cands = append(cands, 1<<53+1, 0x7fffffff, 0x80000000, -0x80000001, 1<<32-1, 1<<32)
		}
		for _, c := range cands {
			if c >= min && c <= max {
				add(c02V{K: k, I: c, Boundary: c < 0 || c > 3})
			}
		}
	} else {
		max := uint64(math.MaxUint64)
		if k.Bits < 64 {
			max = uint64(1)<<k.Bits - 1
		}
		cands := []uint64{0, 1, 2, 3, max - 1, max, max/2 - 1, max / 2, max/2 + 1, max/2 + 2}
		for _, p := range []int{k.Bits / 2, k.Bits - 2} {
			q := uint64(1) << p
			cands = append(cands, q-1, q, q+1)
		}
		if k.Bits == 64 {
			cands = append(cands, 1<<53+1, 1<<32-1, 1<<32, 1<<63-1)
		}
		for _, c := range cands {
			if c <= max {
				add(c02V{K: k, U: c, Boundary: c > 3})
			}
		}
	}
	return out
}

// shift counts of kind k: around every width, 0, max; negative ones only when neg is set.
func c02CountValues(k *c02Kind, neg bool) []c02V {
	var out []c02V
	if neg {
		if !k.Signed {
			return nil
		}
		min := int64(-1) << (k.Bits - 1)
		for _, c := range []int64{-1, -2, -64, min} {
			if c >= min {
				out = append(out, c02V{K: k, I: c, Boundary: true})
			}
		}
		return out
	}
	cands := []uint64{0, 1, 2, 7, 8, 9, 15, 16, 17, 31, 32, 33, 63, 64, 65, 127, 255, 1 << 16, 1 << 32, math.MaxInt64, math.MaxUint64}
	for _, c := range cands {
		if k.Signed {
			max := uint64(1)<<(k.Bits-1) - 1
			if c <= max {
				out = append(out, c02V{K: k, I: int64(c), Boundary: c >= 7})
			}
		} else {
			max := uint64(math.MaxUint64)
			if k.Bits < 64 {
				max = uint64(1)<<k.Bits - 1
			}
			if c <= max {
				out = append(out, c02V{K: k, U: c, Boundary: c >= 7})
			}
		}
	}
	return out
}

func c02FloatValues(k *c02Kind) []c02V {
	var out []c02V
	if k.Bits == 32 {
		for _, b := range []uint32{0x7fc00000, 0x7f800000, 0xff800000, 0x80000000, 0, 0x00000001, 0x80000001, 0x007fffff, 0x00800000,
			0x7f7fffff, 0xff7fffff, 0x3f800000, 0xbf800000, 0x40000000, 0x3dcccccd, 0x3eaaaaab, 0x4b800000, 0x4b800001, 0x4b7fffff, 0x3fc00000, 0xc0490fdb, 0x5f000000, 0x4f000000} {
			f := float64(math.Float32frombits(b))
			out = append(out, c02V{K: k, F: f, Boundary: !(f == 0 && !math.Signbit(f)) && f != 1 && f != 2})
		}
		return out
	}
	for _, b := range []uint64{0x7ff8000000000000, 0x7ff0000000000000, 0xfff0000000000000, 0x8000000000000000, 0, 1, 0x8000000000000001, 0x000fffffffffffff, 0x0010000000000000,
		0x7fefffffffffffff, 0xffefffffffffffff, 0x3ff0000000000000, 0xbff0000000000000, 0x4000000000000000, 0x3fb999999999999a, 0x3fd5555555555555, 0x4340000000000000, 0x4340000000000001, 0x433fffffffffffff, 0x3ff8000000000000, 0xc00921fb54442d18, 0x43e0000000000000, 0x41e0000000000000, 0x3ff0000000000001} {
		f := math.Float64frombits(b)
		out = append(out, c02V{K: k, F: f, Boundary: !(f == 0 && !math.Signbit(f)) && f != 1 && f != 2})
	}
	return out
}

func c02CplxValues(k *c02Kind) []c02V {
	parts := []float64{0, 1, -1, 0.5, 1.5, -2.25, 3, math.Inf(1), math.NaN(), float64(float32(1.1)), float64(float32(3.7)), float64(float32(-0.9)), 1e30}
	if k.Bits == 128 {
		parts = append(parts, 1.1, 3.7, 1e300)
	}
	pairs := [][2]int{{0, 0}, {1, 0}, {0, 1}, {1, 1}, {2, 3}, {4, 5}, {9, 10}, {10, 11}, {6, 2}, {7, 1}, {1, 7}, {8, 0}, {12, 12}, {3, 4}}
	if k.Bits == 128 {
		pairs = append(pairs, [2]int{13, 14}, [2]int{15, 15})
	}
	var out []c02V
	for _, p := range pairs {
		re, im := parts[p[0]], parts[p[1]]
		if k.Bits == 64 {
			re, im = float64(float32(re)), float64(float32(im))
		}
		out = append(out, c02V{K: k, C: complex(re, im), Boundary: p[0] > 1 || p[1] > 1})
	}
	return out
}

var c02Strings = []string{"", "a", "b", "ab", "aa", "a\x00", "a b", "é", "日本", "~", "A", "\xff", "abcdefghijklmnopqrstuvwxyz0123456789abcdefghijklmnopqrstuvwxyz"}

func c02StringValues() []c02V {
	var out []c02V
	for _, s := range c02Strings {
		out = append(out, c02V{K: c02StringKind, S: s, Boundary: len(s) != 1})
	}
	return out
}

func c02BoolValues() []c02V {
	return []c02V{{K: c02BoolKind, B: false, Boundary: true}, {K: c02BoolKind, B: true, Boundary: true}}
}

func c02Values(k *c02Kind) []c02V {
	switch k.Class {
	case "int", "uint":
		return c02IntValues(k)
	case "float":
		return c02FloatValues(k)
	case "complex":
		return c02CplxValues(k)
	case "string":
		return c02StringValues()
	}
	return c02BoolValues()
}

// ---------------------------------------------------------------- sites

type c02Site struct {
	ID      int
	Cat     string // bin shift cmp un incdec conv
	Op      string
	K, K2   *c02Kind // operand kind; K2: count kind (shift), target kind (conv), else nil
	Form    string   // vv | lv vl (literal) | cv vc (typed named constant) | uv vu (untyped named constant) | v | l | c
	Ctx     string
	Region  string
	Const   *c02V
	Xs, Ys  []c02V // values of the variable operands, in loop order (Ys nil: one variable)
	Decl    string
	Call    string // expression over loop variables x, y producing the value handed to em
	Expect  []string
	ByIndex bool     // the loop variables are indexes into the value tables
	RefOnly bool     // no native oracle: the reference is the compiled program (always built)
	ArgType string   // result type for the call-argument context when it is not the operand kind
	Seq     bool     // all evaluations run inside ONE activation of a function looping over the parallel tables Xs / Ys
	KExpr   string   // constant-rounding sites: the Go constant expression converted to the typed destination
	KVal    *big.Rat // its exact value
	KName   string
	KPred2  string // second possible output of the defect
	KPred   string // known-finding sites: the output (or its prefix, for failures) the defect produces
	Paren   string // redundant parentheses: "" none, pl / pr around the left / right operand, po around the operand, pw / pww around the whole expression (once / twice), pa around everything, pt around the type of a conversion
}

func (s *c02Site) desc() map[string]any {
	d := map[string]any{"site": s.ID, "cat": s.Cat, "op": s.Op, "kind": s.K.Name, "form": s.Form, "ctx": s.Ctx, "source": s.Decl}
	if s.K2 != nil {
		d["kind2"] = s.K2.Name
	}
	if s.Const != nil {
		d["const"] = s.Const.lit()
	}
	if s.Paren != "" {
		d["paren"] = s.Paren
	}
	if s.Seq {
		d["one_activation"] = true
	}
	if s.KExpr != "" {
		d["constant"] = s.KExpr
	}
	return d
}

// operand values of evaluation i
func (s *c02Site) operands(i int) (x, y *c02V) {
	if s.Ys == nil {
		return &s.Xs[i], nil
	}
	if s.Seq {
		return &s.Xs[i], &s.Ys[i]
	}
	return &s.Xs[i/len(s.Ys)], &s.Ys[i%len(s.Ys)]
}

type c02Gen struct {
	tier     string
	seed     uint64
	r        *rng
	sites    []*c02Site
	nextID   int
	constSub int // quick tier: how many values a constant operand takes per site family (rotated by seed)
}

// constant operand values used for the constant forms of kind k (all in the thorough tier; a
// rotating window of the value list in the quick tier, always including the extremes)
func (g *c02Gen) constValues(vals []c02V, salt int) []c02V {
	var ok []c02V
	for _, v := range vals {
		if v.lit() != "" {
			ok = append(ok, v)
		}
	}
	if g.tier == "thorough" || len(ok) <= g.constSub {
		return ok
	}
	var out []c02V
	n := len(ok)
	start := (int(g.seed)*g.constSub + salt*3) % n
	for i := 0; i < g.constSub; i++ {
		out = append(out, ok[(start+i)%n])
	}
	return out
}

// signature of a site function: operands are parameters, except for float and complex kinds whose
// operands are passed as indexes into the value tables (yaegi drops the sign of a negative zero
// passed as an argument of an interpreted function: recorded separately, region negzero-arg)
type c02Sig struct {
	params string // parameter list
	args   string // the parameters as call arguments
	pro    string // prologue binding x / y
}

func c02MkSig(byIndex bool, names, kinds []string) c02Sig {
	var ps, as []string
	pro := ""
	for i, n := range names {
		if byIndex {
			ps = append(ps, "i"+n+" int")
			as = append(as, "i"+n)
			pro += fmt.Sprintf("\t%s := @T%d@[i%s]\n", n, i, n)
		} else {
			ps = append(ps, n+" "+kinds[i])
			as = append(as, n)
		}
	}
	return c02Sig{strings.Join(ps, ", "), strings.Join(as, ", "), pro}
}

// wrapper of an expression in a result context; R is the static type of E
func c02Context(ctx string, id int, sg c02Sig, R, E string) (decl string, ok bool) {
	fn := fmt.Sprintf("s%d", id)
	params, pro := sg.params, sg.pro
	switch ctx {
	case "ret":
		return fmt.Sprintf("func %s(%s) %s {\n%s\treturn %s\n}\n", fn, params, R, pro, E), true
	case "asg":
		return fmt.Sprintf("func %s(%s) %s {\n%s\tvar r %s\n\tr = %s\n\treturn r\n}\n", fn, params, R, pro, R, E), true
	case "def":
		return fmt.Sprintf("func %s(%s) %s {\n%s\tr := %s\n\treturn r\n}\n", fn, params, R, pro, E), true
	case "ifc":
		return fmt.Sprintf("func %s(%s) interface{} {\n%s\tvar r interface{} = %s\n\treturn r\n}\n", fn, params, pro, E), true
	case "ifa":
		// assignment to an existing interface-typed variable; a function whose statement has no
		// closure stops silently (ok stays false), a reflect misuse panics: both are observed
		return fmt.Sprintf("func %s(%s) (r interface{}, ok bool) {\n%s\tvar q interface{}\n\tq = %s\n\tr = q\n\tok = true\n\treturn\n}\n\n"+
			"func w%d(%s) (res interface{}) {\n\tdefer func() {\n\t\tif e := recover(); e != nil {\n\t\t\tres = pan(e)\n\t\t}\n\t}()\n\tr, ok := %s(%s)\n\tif !ok {\n\t\treturn stopTok{}\n\t}\n\treturn r\n}\n",
			fn, params, pro, E, id, params, fn, sg.args), true
	case "arg":
		return fmt.Sprintf("func %s(%s) %s {\n%s\treturn id_%s(%s)\n}\n", fn, params, R, pro, R, E), true
	case "glob":
		return fmt.Sprintf("var g%d %s\n\nfunc %s(%s) %s {\n%s\tg%d = %s\n\treturn g%d\n}\n", id, R, fn, params, R, pro, id, E, id), true
	case "if":
		return fmt.Sprintf("func %s(%s) bool {\n%s\tif %s {\n\t\treturn true\n\t}\n\treturn false\n}\n", fn, params, pro, E), R == "bool"
	case "for":
		return fmt.Sprintf("func %s(%s) bool {\n%s\tfor %s {\n\t\treturn true\n\t}\n\treturn false\n}\n", fn, params, pro, E), R == "bool"
	case "sw":
		return fmt.Sprintf("func %s(%s) bool {\n%s\tswitch {\n\tcase %s:\n\t\treturn true\n\t}\n\treturn false\n}\n", fn, params, pro, E), R == "bool"
	case "andl-if", "andr-if", "orl-if", "orr-if", "andl-v", "orr-v":
		// E as an operand of && / || (yes and no are package variables holding true and false)
		c := map[string]string{"andl": E + " && yes", "andr": "yes && " + E, "orl": E + " || no", "orr": "no || " + E}[ctx[:strings.IndexByte(ctx, '-')]]
		if strings.HasSuffix(ctx, "-if") {
			return fmt.Sprintf("func %s(%s) bool {\n%s\tif %s {\n\t\treturn true\n\t}\n\treturn false\n}\n", fn, params, pro, c), R == "bool"
		}
		return fmt.Sprintf("func %s(%s) bool {\n%s\tr := %s\n\treturn r\n}\n", fn, params, pro, c), R == "bool"
	}
	return "", false
}

// compound assignment contexts: target initialised with x, then `target OP= Y` (tp: target in redundant parentheses)
func c02Compound(ctx string, id int, sg c02Sig, K, op, Y string, tp bool) string {
	fn := fmt.Sprintf("s%d", id)
	params, pro := sg.params, sg.pro
	t := func(x string) string {
		if tp {
			return "(" + x + ")"
		}
		return x
	}
	switch ctx {
	case "cmpd":
		return fmt.Sprintf("func %s(%s) %s {\n%s\tr := x\n\t%s %s= %s\n\treturn r\n}\n", fn, params, K, pro, t("r"), op, Y)
	case "cmpd-map":
		return fmt.Sprintf("func %s(%s) %s {\n%s\tm := map[int]%s{0: x}\n\t%s %s= %s\n\treturn m[0]\n}\n", fn, params, K, pro, K, t("m[0]"), op, Y)
	case "cmpd-idx":
		return fmt.Sprintf("func %s(%s) %s {\n%s\ta := []%s{x}\n\t%s %s= %s\n\treturn a[0]\n}\n", fn, params, K, pro, K, t("a[0]"), op, Y)
	case "cmpd-fld":
		return fmt.Sprintf("func %s(%s) %s {\n%s\tvar t struct{ f %s }\n\tt.f = x\n\t%s %s= %s\n\treturn t.f\n}\n", fn, params, K, pro, K, t("t.f"), op, Y)
	case "cmpd-ptr":
		return fmt.Sprintf("func %s(%s) %s {\n%s\tr := x\n\tp := &r\n\t%s %s= %s\n\treturn r\n}\n", fn, params, K, pro, t("*p"), op, Y)
	}
	panic("c02: bad compound context " + ctx)
}

func c02IncDec(ctx string, id int, sg c02Sig, K, op string, tp bool) string {
	fn := fmt.Sprintf("s%d", id)
	body := ""
	t := func(x string) string {
		if tp {
			return "(" + x + ")"
		}
		return x
	}
	switch ctx {
	case "var":
		body = fmt.Sprintf("\tr = x\n\t%s%s\n", t("r"), op)
	case "map":
		body = fmt.Sprintf("\tm := map[int]%s{0: x}\n\t%s%s\n\tr = m[0]\n", K, t("m[0]"), op)
	case "idx":
		body = fmt.Sprintf("\ta := []%s{x}\n\t%s%s\n\tr = a[0]\n", K, t("a[0]"), op)
	case "fld":
		body = fmt.Sprintf("\tvar t struct{ f %s }\n\tt.f = x\n\t%s%s\n\tr = t.f\n", K, t("t.f"), op)
	case "ptr":
		body = fmt.Sprintf("\tr = x\n\tp := &r\n\t%s%s\n", t("(*p)"), op)
	}
	return fmt.Sprintf("func %s(%s) (r %s, ok bool) {\n%s%s\tok = true\n\treturn\n}\n\nfunc w%d(%s) interface{} {\n\tr, ok := %s(%s)\n\tif !ok {\n\t\treturn stopTok{}\n\t}\n\treturn r\n}\n", fn, sg.params, K, sg.pro, body, id, sg.params, fn, sg.args)
}

// guarded call: evaluations that may panic run under recover
func c02Try(id int, sg c02Sig) string {
	return fmt.Sprintf("\nfunc t%d(%s) (r interface{}) {\n\tdefer func() {\n\t\tif e := recover(); e != nil {\n\t\t\tr = pan(e)\n\t\t}\n\t}()\n\treturn s%d(%s)\n}\n", id, sg.params, id, sg.args)
}

var c02ArithOps = []string{"+", "-", "*", "/", "%", "&", "|", "^", "&^"}
var c02FloatOps = []string{"+", "-", "*", "/"}
var c02CmpOps = []string{"==", "!=", "<", "<=", ">", ">="}
var c02CoqOp = map[string]string{"+": "Add", "-": "Sub", "*": "Mul", "/": "Quo", "%": "Rem", "&": "And", "|": "Or", "^": "Xor", "&^": "AndNot",
	"<<": "Shl", ">>": "Shr", "==": "Eq", "!=": "Ne", "<": "Lt", "<=": "Le", ">": "Gt", ">=": "Ge"}

type c02Operand struct {
	expr  string // x, y, a literal, or the name of a constant
	param string // "x K" / "" for constants
}

// binary sites of one (op, kind): all operand forms x all contexts.
func (g *c02Gen) binarySites(cat, op string, k, kc *c02Kind, xs, ys []c02V, ctxs, cmpdCtxs []string, forms []string, region string, salt int) {
	R := k.Name
	if cat == "cmp" || cat == "logic" {
		R = "bool"
	}
	yk := k
	if kc != nil {
		yk = kc
	}
	mayPanic := cat == "shift" && yk.Signed || (op == "/" || op == "%") && k.isInt()
	if region == "" {
		g.seqBinary(cat, op, k, kc, xs, ys, len(cmpdCtxs) > 0, forms, salt)
	}
	expect := func(s *c02Site) {
		n := len(s.Xs)
		if s.Ys != nil {
			n *= len(s.Ys)
		}
		for i := 0; i < n; i++ {
			a, b := s.operands(i)
			var x, y c02V
			switch s.Form[0] {
			case 'v':
				x = *a
				if s.Form[1] == 'v' {
					y = *b
				} else {
					y = *s.Const
				}
			default:
				x, y = *s.Const, *a
			}
			s.Expect = append(s.Expect, c02NativeBinary(cat, op, k, x, y))
		}
	}
	for _, form := range forms {
		type variant struct {
			cv       *c02V
			ex, ey   string
			sg       c02Sig
			loopX    []c02V
			loopY    []c02V
			callArgs string
		}
		byIndex := k.Class == "float" || k.Class == "complex"
		var variants []variant
		switch form {
		case "vv":
			variants = append(variants, variant{nil, "x", "y", c02MkSig(byIndex, []string{"x", "y"}, []string{k.Name, yk.Name}), xs, ys, "x, y"})
		case "lv", "cv", "uv", "fv":
			cvs := g.constValues(xs, salt)
			for i := range cvs {
				variants = append(variants, variant{cv: &cvs[i], ey: "y", sg: c02MkSig(byIndex, []string{"y"}, []string{yk.Name}), loopX: ys, callArgs: "x"})
			}
		case "vl", "vc", "vu", "vf":
			cvs := g.constValues(ys, salt+1)
			for i := range cvs {
				if (op == "/" || op == "%") && c02IsZero(cvs[i]) {
					continue // constant zero divisor: rejected at compile time
				}
				variants = append(variants, variant{cv: &cvs[i], ex: "x", sg: c02MkSig(byIndex, []string{"x"}, []string{k.Name}), loopX: xs, callArgs: "x"})
			}
		}
		allCtxs := append(append([]string{}, ctxs...), cmpdCtxs...)
		for _, ctx := range allCtxs {
			isCmpd := strings.HasPrefix(ctx, "cmpd")
			if isCmpd && form[0] != 'v' {
				continue // the left operand of op= is a variable
			}
			if ctx == "ifa" && (cat == "shift" || op == "%") && region != "iface-assign" {
				continue // known finding: exercised by a small region stream only
			}
			for vi, v := range variants {
				for _, pm := range g.parenModes("bin", form, vi, isCmpd, region, salt) {
					s := &c02Site{Cat: cat, Op: op, K: k, K2: kc, Form: form, Ctx: ctx, Region: region, Const: v.cv, Xs: v.loopX, Ys: v.loopY, ByIndex: byIndex, Paren: pm}
					if pm != "" {
						s.Xs, s.Ys = g.parenSub(v.loopX), g.parenSub(v.loopY)
					}
					if k.Name == "complex64" && v.cv != nil {
						s.Region = "complex64-const"
					}
					leftLand := ctx == "andl-if" || ctx == "orl-if" || ctx == "andl-v"
					if leftLand && cat == "cmp" && (pm == "pl" || pm == "pr" || pm == "pa") {
						// known finding: a parenthesised operand of a comparison that is the left operand of && / ||
						// is wired as a branch condition itself. Non-boolean operands: the host panics in reflect
						// (predictable, one evaluation per site); boolean operands: operand variables get overwritten
						// (not predictable by the harness, not generated)
						if k.Class == "bool" {
							continue
						}
						s.Region = "paren-operand-land"
						s.Xs = s.Xs[:1]
						if s.Ys != nil {
							s.Ys = s.Ys[:1]
						}
					}
					if ctx == "cmpd-map" && pm == "pl" {
						s.Region = "paren-map-target"
					}

					g.nextID++
					s.ID = g.nextID
					cdecl := ""
					cexpr := ""
					if v.cv != nil {
						ck := v.cv.K
						switch form[strings.IndexAny(form, "lcuf")] {
						case 'f':
							// untyped floating-point literal with an integral value used as an integer constant
							cexpr = v.cv.lit() + ".0"
							if strings.HasPrefix(cexpr, "-") {
								cexpr = "(" + cexpr + ")"
							}
						case 'l':
							cexpr = v.cv.lit()
							if cat == "shift" && form == "lv" || ck.Class == "complex" {
								cexpr = fmt.Sprintf("%s(%s)", ck.Name, v.cv.lit())
							} else if strings.HasPrefix(cexpr, "-") {
								cexpr = "(" + cexpr + ")"
							}
						case 'c':
							cdecl = fmt.Sprintf("const c%d %s = %s\n\n", s.ID, ck.Name, v.cv.lit())
							cexpr = fmt.Sprintf("c%d", s.ID)
						case 'u':
							cdecl = fmt.Sprintf("const c%d = %s\n\n", s.ID, v.cv.lit())
							cexpr = fmt.Sprintf("c%d", s.ID)
						}
					}
					ex, ey := v.ex, v.ey
					if ex == "" {
						ex = cexpr
					}
					if ey == "" {
						ey = cexpr
					}
					if pm == "pl" || pm == "pa" {
						ex = "(" + ex + ")"
					}
					if pm == "pr" || pm == "pa" {
						ey = "(" + ey + ")"
					}
					E := fmt.Sprintf("%s %s %s", ex, op, ey)
					switch pm {
					case "pw", "pa":
						E = "(" + E + ")"
					case "pww":
						E = "((" + E + "))"
					}
					var decl string
					if isCmpd {
						decl = c02Compound(ctx, s.ID, v.sg, k.Name, op, ey, pm == "pl")
					} else {
						var ok bool
						decl, ok = c02Context(ctx, s.ID, v.sg, R, E)
						if !ok {
							g.nextID--
							continue
						}
					}
					s.Decl = cdecl + decl
					call := fmt.Sprintf("s%d(%s)", s.ID, v.callArgs)
					if ctx == "ifa" {
						call = fmt.Sprintf("w%d(%s)", s.ID, v.callArgs)
					} else if mayPanic {
						s.Decl += c02Try(s.ID, v.sg)
						call = fmt.Sprintf("t%d(%s)", s.ID, v.callArgs)
					}
					s.Call = call
					g.sites = append(g.sites, s)
					expect(s)
				}
			}
		}
	}
}

// parenModes lists the parenthesisations generated for a site family: always the plain form; the
// parenthesised variants for the two-variable form and for one constant form rotated by the seed
// (first constant value only), outside the known-defect region streams.
func (g *c02Gen) parenModes(cat, form string, variant int, cmpd bool, region string, salt int) []string {
	modes := []string{""}
	if region != "" {
		return modes
	}
	switch cat {
	case "bin":
		constForms := []string{"lv", "vl", "cv", "vc", "uv", "vu"}
		if form != "vv" && !(variant == 0 && form == constForms[(int(g.seed)+salt)%len(constForms)]) {
			return modes
		}
		if cmpd {
			if form[0] != 'v' {
				return modes
			}
			return append(modes, "pl", "pr")
		}
		return append(modes, "pl", "pr", "pw", "pa", "pww")
	case "un":
		return append(modes, "po", "pw", "pww")
	case "incdec":
		return append(modes, "po")
	case "conv":
		return append(modes, "po", "pw", "pt")
	}
	return modes
}

// parenSub: the parenthesised variants run on a few values of the list in the quick tier
func (g *c02Gen) parenSub(vals []c02V) []c02V {
	if vals == nil || g.tier == "thorough" || len(vals) <= 4 {
		return vals
	}
	n := len(vals)
	return []c02V{vals[0], vals[n/3], vals[2*n/3], vals[n-1]}
}

func c02IsZero(v c02V) bool {
	switch v.K.Class {
	case "int":
		return v.I == 0
	case "uint":
		return v.U == 0
	case "float":
		return v.F == 0
	case "complex":
		return v.C == 0
	}
	return false
}

func c02NativeBinary(cat, op string, k *c02Kind, x, y c02V) string {
	switch cat {
	case "shift":
		return c02OpsOf[k.Name].shift(op, x, y)
	case "cmp":
		switch k.Class {
		case "string":
			var r bool
			switch op {
			case "==":
				r = x.S == y.S
			case "!=":
				r = x.S != y.S
			case "<":
				r = x.S < y.S
			case "<=":
				r = x.S <= y.S
			case ">":
				r = x.S > y.S
			case ">=":
				r = x.S >= y.S
			}
			return c02Tok(r)
		case "bool":
			if op == "==" {
				return c02Tok(x.B == y.B)
			}
			return c02Tok(x.B != y.B)
		}
		t, _ := c02OpsOf[k.Name].cmp(op, x, y)
		return t
	case "logic":
		if op == "&&" {
			return c02Tok(x.B && y.B)
		}
		return c02Tok(x.B || y.B)
	}
	if k.Class == "string" {
		return c02Tok(x.S + y.S)
	}
	return c02OpsOf[k.Name].bin(op, x, y)
}

func (g *c02Gen) unarySites(op string, k *c02Kind, xs []c02V, ctxs []string) {
	for _, ctx := range ctxs {
		for _, pm := range g.parenModes("un", "v", 0, false, "", 0) {
			if pm == "po" && (ctx == "andl-if" || ctx == "orl-if" || ctx == "andl-v") {
				continue // known finding paren-operand-land (boolean operand: not predictable, not generated)
			}
			byIndex := k.Class == "float" || k.Class == "complex"
			s := &c02Site{Cat: "un", Op: op, K: k, Form: "v", Ctx: ctx, Xs: xs, ByIndex: byIndex, Paren: pm}
			if pm != "" {
				s.Xs = g.parenSub(xs)
			}
			g.nextID++
			s.ID = g.nextID
			E := op + "x"
			switch pm {
			case "po":
				E = op + "(x)"
			case "pw":
				E = "(" + op + "x)"
			case "pww":
				E = "((" + op + "x))"
			}
			decl, ok := c02Context(ctx, s.ID, c02MkSig(byIndex, []string{"x"}, []string{k.Name}), k.Name, E)
			if !ok {
				g.nextID--
				continue
			}
			s.Decl = decl
			s.Call = fmt.Sprintf("s%d(x)", s.ID)
			if ctx == "ifa" {
				s.Call = fmt.Sprintf("w%d(x)", s.ID)
				if op != "+" && pm != "pw" && pm != "pww" {
					// q = (-x): the parenthesised expression takes the interface type, the unary node keeps its own: no defect
					s.Region = "iface-assign"
				}
			}
			for _, x := range s.Xs {
				if k.Class == "bool" {
					s.Expect = append(s.Expect, c02Tok(!x.B))
				} else {
					s.Expect = append(s.Expect, c02OpsOf[k.Name].un(op, x))
				}
			}
			g.sites = append(g.sites, s)
		}
	}
}

func (g *c02Gen) incdecSites(k *c02Kind, xs []c02V) {
	for _, op := range []string{"++", "--"} {
		for _, ctx := range []string{"var", "map", "idx", "fld", "ptr"} {
			for _, pm := range g.parenModes("incdec", "v", 0, false, "", 0) {
				byIndex := k.Class == "float" || k.Class == "complex"
				s := &c02Site{Cat: "incdec", Op: op, K: k, Form: "v", Ctx: ctx, Xs: xs, ByIndex: byIndex, Paren: pm}
				if pm != "" {
					s.Xs = g.parenSub(xs)
				}
				if k.Name == "uintptr" {
					s.Region = "uintptr-incdec"
				} else if ctx == "map" && pm == "po" {
					s.Region = "paren-map-target"
				}
				g.nextID++
				s.ID = g.nextID
				s.Decl = c02IncDec(ctx, s.ID, c02MkSig(byIndex, []string{"x"}, []string{k.Name}), k.Name, op, pm == "po")
				s.Call = fmt.Sprintf("w%d(x)", s.ID)
				for _, x := range s.Xs {
					s.Expect = append(s.Expect, c02OpsOf[k.Name].incdec(op == "++", x))
				}
				g.sites = append(g.sites, s)
			}
		}
	}
}

func (g *c02Gen) convSites(from, to *c02Kind, xs []c02V, ctxs []string) {
	// variable operand
	var vals []c02V
	var exp []string
	for _, x := range xs {
		t, ok := c02Conv(x, to)
		if ok {
			vals = append(vals, x)
			exp = append(exp, t)
		}
	}
	if len(vals) == 0 {
		return
	}
	for _, ctx := range ctxs {
		for _, pm := range g.parenModes("conv", "v", 0, false, "", 0) {
			byIndex := from.Class == "float" || from.Class == "complex"
			s := &c02Site{Cat: "conv", Op: to.Name, K: from, K2: to, Form: "v", Ctx: ctx, Xs: vals, Expect: exp, ByIndex: byIndex, Paren: pm}
			if pm != "" && g.tier != "thorough" && len(vals) > 4 {
				n := len(vals)
				s.Xs, s.Expect = nil, nil
				for _, i := range []int{0, n / 3, 2 * n / 3, n - 1} {
					s.Xs, s.Expect = append(s.Xs, vals[i]), append(s.Expect, exp[i])
				}
			}
			g.nextID++
			s.ID = g.nextID
			E := fmt.Sprintf("%s(x)", to.Name)
			switch pm {
			case "po":
				E = fmt.Sprintf("%s((x))", to.Name)
			case "pw":
				E = fmt.Sprintf("(%s(x))", to.Name)
			case "pt":
				E = fmt.Sprintf("(%s)(x)", to.Name)
			}
			decl, ok := c02Context(ctx, s.ID, c02MkSig(byIndex, []string{"x"}, []string{from.Name}), to.Name, E)
			if !ok {
				g.nextID--
				continue
			}
			s.Decl = decl
			s.Call = fmt.Sprintf("s%d(x)", s.ID)
			if ctx == "ifa" {
				s.Call = fmt.Sprintf("w%d(x)", s.ID)
			}
			g.sites = append(g.sites, s)
		}
	}
	// typed constant operand, only where the constant conversion is legal in Go (representable)
	if to.Class == "string" || from.Class == "complex" {
		return
	}
	for _, cv := range g.constValues(xs, from.Bits+to.Bits) {
		cv := cv
		if !c02ConstConvertible(cv, to) {
			continue
		}
		t, _ := c02Conv(cv, to)
		t, underflow := c02ZeroCleared(t) // a constant conversion that rounds to zero yields +0: constants have no negative zero
		s := &c02Site{Cat: "conv", Op: to.Name, K: from, K2: to, Form: "c", Ctx: "ret", Const: &cv, Xs: []c02V{cv}, Expect: []string{t}}
		g.nextID++
		s.ID = g.nextID
		s.ByIndex = true
		if underflow {
			s.Region = "const-conv-negzero"
		}
		s.Decl = fmt.Sprintf("const c%d %s = %s\n\nfunc s%d(ix int) %s { return %s(c%d) }\n", s.ID, from.Name, cv.lit(), s.ID, to.Name, to.Name, s.ID)
		s.Call = fmt.Sprintf("s%d(x)", s.ID)
		g.sites = append(g.sites, s)
	}
}

// a constant of kind v.K can be converted to kind `to` by a Go constant conversion
func c02ConstConvertible(v c02V, to *c02Kind) bool {
	switch v.K.Class {
	case "int", "uint":
		if to.isInt() {
			var f float64
			if v.K.Signed {
				f = float64(v.I)
			} else {
				f = float64(v.U)
			}
			_, ok := c02OpsOf[to.Name].fromF64(f)
			if !ok {
				return false
			}
			// exact check on the integer value
			if v.K.Signed {
				if !to.Signed {
					return v.I >= 0 && (to.Bits == 64 || uint64(v.I) < uint64(1)<<to.Bits)
				}
				return to.Bits == 64 || (v.I >= -(int64(1)<<(to.Bits-1)) && v.I < int64(1)<<(to.Bits-1))
			}
			if to.Signed {
				return v.U < uint64(1)<<(to.Bits-1)
			}
			return to.Bits == 64 || v.U < uint64(1)<<to.Bits
		}
		return to.Class == "float"
	case "float":
		if to.Class == "float" {
			return !(to.Bits == 32 && math.Abs(v.F) > math.MaxFloat32) // overflow is a compile error
		}
		if to.isInt() {
			if v.F != math.Trunc(v.F) {
				return false
			}
			_, ok := c02OpsOf[to.Name].fromF64(v.F)
			return ok
		}
	}
	return false
}

// ---------------------------------------------------------------- the enumeration

func (g *c02Gen) enumerate() {
	valCtx := []string{"ret", "asg", "def", "ifc", "ifa", "arg", "glob"}
	cmpCtx := []string{"ret", "asg", "def", "ifc", "ifa", "arg", "if", "for", "sw", "andl-if", "andr-if", "orl-if", "orr-if", "andl-v", "orr-v"}
	cmpd := []string{"cmpd", "cmpd-map", "cmpd-idx", "cmpd-fld", "cmpd-ptr"}
	allForms := []string{"vv", "lv", "vl", "cv", "vc", "uv", "vu"}
	intForms := append(append([]string{}, allForms...), "fv", "vf")
	salt := 0
	// integers
	for _, k := range c02IntKinds {
		xs := c02IntValues(k)
		for _, op := range c02ArithOps {
			salt++
			g.binarySites("bin", op, k, nil, xs, xs, valCtx, cmpd, intForms, "", salt)
		}
		for _, op := range c02CmpOps {
			salt++
			g.binarySites("cmp", op, k, nil, xs, xs, cmpCtx, nil, intForms, "", salt)
		}
		{
			// region stream: q = x % y, q = x << s with q an interface variable (known finding: no closure)
			sub := []c02V{xs[0], xs[5], xs[len(xs)-1]}
			g.binarySites("bin", "%", k, nil, sub, sub, []string{"ifa"}, nil, []string{"vv", "vc"}, "iface-assign", salt)
			for _, op := range []string{"<<", ">>"} {
				for _, kc := range []*c02Kind{c02KindByName("uint"), c02KindByName("int")} {
					cs := c02CountValues(kc, false)
					g.binarySites("shift", op, k, kc, sub, []c02V{cs[0], cs[4], cs[len(cs)-1]}, []string{"ifa"}, nil, []string{"vv", "vl"}, "iface-assign", salt)
				}
			}
		}
		for _, op := range []string{"<<", ">>"} {
			for _, kc := range c02IntKinds {
				cs := c02CountValues(kc, false)
				salt++
				if kc.Name == "uint" || kc.Name == "int" || kc.Name == "uint8" || kc.Name == "int64" {
					g.binarySites("shift", op, k, kc, xs, cs, valCtx, cmpd, []string{"vv", "lv", "vl", "cv", "vc", "vu", "vf"}, "", salt)
				} else {
					g.binarySites("shift", op, k, kc, xs, cs, []string{"ret", "ifc"}, []string{"cmpd"}, []string{"vv"}, "", salt)
				}
				if kc.Signed {
					// region stream: negative counts (known finding: no panic)
					sub := []c02V{xs[0], xs[len(xs)-1]}
					negs := c02CountValues(kc, true)
					g.binarySites("shift", op, k, kc, sub, negs[:3], []string{"ret"}, []string{"cmpd"}, []string{"vv"}, "neg-shift", salt)
				}
			}
		}
		for _, op := range []string{"-", "^", "+"} {
			g.unarySites(op, k, xs, valCtx)
		}
		g.incdecSites(k, xs)
		g.seqUnary(k, xs, salt)
	}
	// floats
	for _, k := range c02FloatKinds {
		xs := c02FloatValues(k)
		for _, op := range c02FloatOps {
			salt++
			g.binarySites("bin", op, k, nil, xs, xs, valCtx, cmpd, allForms, "", salt)
		}
		for _, op := range c02CmpOps {
			salt++
			g.binarySites("cmp", op, k, nil, xs, xs, cmpCtx, nil, allForms, "", salt)
		}
		for _, op := range []string{"-", "+"} {
			g.unarySites(op, k, xs, valCtx)
		}
		g.incdecSites(k, xs)
	}
	// complex
	for _, k := range c02CplxKinds {
		xs := c02CplxValues(k)
		for _, op := range c02FloatOps {
			salt++
			g.binarySites("bin", op, k, nil, xs, xs, []string{"ret", "asg", "ifc", "ifa", "arg"}, []string{"cmpd", "cmpd-map"}, []string{"vv", "lv", "vl", "cv", "vc"}, "", salt)
		}
		for _, op := range []string{"==", "!="} {
			salt++
			g.binarySites("cmp", op, k, nil, xs, xs, []string{"ret", "asg", "ifc", "ifa", "if"}, nil, []string{"vv", "lv", "vl", "cv", "vc"}, "", salt)
		}
		g.unarySites("-", k, xs, []string{"ret", "asg", "ifc", "ifa"})
		g.unarySites("+", k, xs, []string{"ret"})
		g.incdecSites(k, xs)
	}
	// strings
	{
		xs := c02StringValues()
		salt++
		g.binarySites("bin", "+", c02StringKind, nil, xs, xs, valCtx, cmpd, []string{"vv", "lv", "vl", "cv", "vc", "uv", "vu"}, "", salt)
		for _, op := range c02CmpOps {
			salt++
			g.binarySites("cmp", op, c02StringKind, nil, xs, xs, cmpCtx, nil, []string{"vv", "lv", "vl", "cv", "vc"}, "", salt)
		}
	}
	// booleans
	{
		xs := c02BoolValues()
		for _, op := range []string{"&&", "||"} {
			g.binarySites("logic", op, c02BoolKind, nil, xs, xs, cmpCtx, nil, []string{"vv", "lv", "vl", "cv", "vc"}, "", 0)
		}
		for _, op := range []string{"==", "!="} {
			g.binarySites("cmp", op, c02BoolKind, nil, xs, xs, cmpCtx, nil, []string{"vv", "lv", "vl", "cv", "vc"}, "", 0)
		}
		g.unarySites("!", c02BoolKind, xs, cmpCtx)
	}
	// conversions
	convCtx := []string{"ret", "asg", "ifc", "ifa", "arg"}
	num := append(append([]*c02Kind{}, c02IntKinds...), c02FloatKinds...)
	for _, from := range num {
		xs := c02Values(from)
		if from.Class == "float" {
			// add in-range non-integral and large values for float -> integer truncation
			for _, f := range []float64{1.9, -1.9, 0.5, -0.5, 127.9, -128.9, 255.5, 32767.5, 65535.9, 2147483647.5, -2147483648.5, 4294967295.5, 1e10, -1e10, 9007199254740993, 9.2e18, -9.2e18, 1.8e19} {
				if from.Bits == 32 {
					f = float64(float32(f))
				}
				xs = append(xs, c02V{K: from, F: f, Boundary: true})
			}
		}
		for _, to := range num {
			g.convSites(from, to, xs, convCtx)
			g.seqConv(from, to, xs, from.Bits*131+to.Bits+len(from.Name)*7+len(to.Name))
		}
		if from.isInt() {
			g.convSites(from, c02StringKind, append(xs, c02RuneValues(from)...), []string{"ret", "ifc"})
		}
	}
	g.convSites(c02CplxKinds[0], c02CplxKinds[1], c02CplxValues(c02CplxKinds[0]), []string{"ret", "ifc"})
	g.convSites(c02CplxKinds[1], c02CplxKinds[0], c02CplxValues(c02CplxKinds[1]), []string{"ret", "ifc"})
	g.convSites(c02CplxKinds[0], c02CplxKinds[0], c02CplxValues(c02CplxKinds[0]), []string{"ret"})
	// constants chosen for float rounding -> typed destinations (always also compiled by Go)
	for i, k := range append(append([]*c02Kind{}, c02FloatKinds...), c02CplxKinds...) {
		g.seqUnary(k, c02Values(k), 1000+i)
	}
	g.seqUnary(c02BoolKind, c02BoolValues(), 2000)
	g.logicSites()
	g.compSites()
	g.constSites()
}

func c02RuneValues(k *c02Kind) []c02V {
	var out []c02V
	for _, c := range []int64{65, 0x7f, 0x80, 0x7ff, 0x800, 0xd7ff, 0xd800, 0xdfff, 0xe000, 0xffff, 0x10000, 0x10ffff, 0x110000} {
		v := c02V{K: k, Boundary: true}
		if k.Signed {
			if k.Bits < 64 && c >= int64(1)<<(k.Bits-1) {
				continue
			}
			v.I = c
		} else {
			if k.Bits < 64 && uint64(c) >= uint64(1)<<k.Bits {
				continue
			}
			v.U = uint64(c)
		}
		out = append(out, v)
	}
	return out
}

// ---------------------------------------------------------------- programs

const c02Prelude = `package main

import (
	"fmt"
	"math"
	"strings"
)

type panicTok struct{ m string }
type stopTok struct{}

var buf []byte
var _ = math.Pi
var yes, no = true, false

func pan(e interface{}) panicTok {
	s := fmt.Sprint(e)
	switch {
	case strings.Contains(s, "divide by zero"):
		return panicTok{"div"}
	case strings.Contains(s, "negative shift"):
		return panicTok{"shift"}
	}
	return panicTok{"other"}
}

func em(v interface{}) {
	switch x := v.(type) {
	case panicTok:
		buf = append(buf, " P:"...)
		buf = append(buf, x.m...)
	case stopTok:
		buf = append(buf, " STOP"...)
	case float32:
		buf = append(buf, fmt.Sprintf(" f32:%08x", math.Float32bits(x))...)
	case float64:
		buf = append(buf, fmt.Sprintf(" f64:%016x", math.Float64bits(x))...)
	case complex64:
		buf = append(buf, fmt.Sprintf(" c64:%08x,%08x", math.Float32bits(real(x)), math.Float32bits(imag(x)))...)
	case complex128:
		buf = append(buf, fmt.Sprintf(" c128:%016x,%016x", math.Float64bits(real(x)), math.Float64bits(imag(x)))...)
	case string:
		buf = append(buf, fmt.Sprintf(" s:%q", x)...)
	default:
		buf = append(buf, fmt.Sprintf(" %T:%v", v, v)...)
	}
}

func hdr(id int) { buf = append(buf[:0], fmt.Sprint(id)...) }
func flush()     { fmt.Printf("%s\n", buf) }

// fin ends the line of a site; a run-time panic inside the interpreter's own code (not a Go panic of
// the evaluated expression, those are caught per evaluation) ends the site with CRASH, not the program
func fin() {
	if e := recover(); e != nil {
		buf = append(buf, " CRASH:"...)
		buf = append(buf, strings.ReplaceAll(fmt.Sprint(e), " ", "_")...)
	}
	flush()
}

`

type c02Prog struct {
	Name  string
	Sites []*c02Site
	Src   string
}

func c02Render(name string, sites []*c02Site) *c02Prog {
	var b strings.Builder
	b.WriteString(c02Prelude)
	// identity functions for the argument context
	ids := map[string]bool{}
	tabs := map[string]string{}
	var tabDecl strings.Builder
	tabName := func(vals []c02V) string {
		var items []string
		for _, v := range vals {
			items = append(items, v.varInit())
		}
		lit := fmt.Sprintf("[]%s{%s}", vals[0].K.Name, strings.Join(items, ", "))
		if n, ok := tabs[lit]; ok {
			return n
		}
		n := fmt.Sprintf("tab%d", len(tabs))
		tabs[lit] = n
		fmt.Fprintf(&tabDecl, "var %s = %s\n", n, lit)
		return n
	}
	var body, drivers, main strings.Builder
	for _, s := range sites {
		if s.Ctx == "arg" || s.Ctx == "karg" {
			R := s.K.Name
			if s.Cat == "cmp" || s.Cat == "logic" {
				R = "bool"
			}
			if s.Cat == "conv" {
				R = s.K2.Name
			}
			if s.ArgType != "" {
				R = s.ArgType
			}
			if !ids[R] {
				ids[R] = true
				fmt.Fprintf(&body, "func id_%s(v %s) %s { return v }\n\n", R, R, R)
			}
		}
		decl := s.Decl
		if s.ByIndex {
			decl = strings.ReplaceAll(decl, "@T0@", tabName(s.Xs))
			if s.Ys != nil {
				decl = strings.ReplaceAll(decl, "@T1@", tabName(s.Ys))
			}
		}
		body.WriteString(decl)
		body.WriteString("\n")
		fmt.Fprintf(&drivers, "func d%d() {\n\thdr(%d)\n\tdefer fin()\n", s.ID, s.ID)
		lv := "_, "
		if s.ByIndex {
			lv = ""
		}
		if s.Seq {
			fmt.Fprintf(&drivers, "\t%s\n", s.Call)
		} else if s.Ys != nil {
			fmt.Fprintf(&drivers, "\tfor %sx := range %s {\n\t\tfor %sy := range %s {\n\t\t\tem(%s)\n\t\t}\n\t}\n", lv, tabName(s.Xs), lv, tabName(s.Ys), s.Call)
		} else {
			fmt.Fprintf(&drivers, "\tfor %sx := range %s {\n\t\tem(%s)\n\t}\n", lv, tabName(s.Xs), s.Call)
		}
		drivers.WriteString("}\n\n")
		fmt.Fprintf(&main, "\td%d()\n", s.ID)
	}
	b.WriteString(tabDecl.String())
	b.WriteString("\n")
	b.WriteString(body.String())
	b.WriteString(drivers.String())
	b.WriteString("func main() {\n" + main.String() + "}\n")
	return &c02Prog{Name: name, Sites: sites, Src: b.String()}
}

// parse the output of a program: site id -> tokens
func c02ParseOutput(out string) map[int][]string {
	res := map[int][]string{}
	for _, l := range strings.Split(out, "\n") {
		if l == "" {
			continue
		}
		f := c02SplitTokens(l)
		id, err := strconv.Atoi(f[0])
		if err != nil {
			continue
		}
		res[id] = f[1:]
	}
	return res
}

// tokens are separated by single spaces; string tokens (s:"...") may contain spaces inside the quotes
func c02SplitTokens(l string) []string {
	var out []string
	i := 0
	for i < len(l) {
		j := i
		if strings.HasPrefix(l[i:], "s:\"") {
			j = i + 3
			for j < len(l) {
				if l[j] == '\\' {
					j += 2
					continue
				}
				if l[j] == '"' {
					j++
					break
				}
				j++
			}
		} else {
			for j < len(l) && l[j] != ' ' {
				j++
			}
		}
		out = append(out, l[i:j])
		i = j
		for i < len(l) && l[i] == ' ' {
			i++
		}
	}
	return out
}

func c02CanonTok(t string) string { return c02Canon(t) }

// ---------------------------------------------------------------- known-defect regions per evaluation

// c02ZeroCleared returns the token with the sign of a zero result removed, as reflect.Value.IsZero
// makes yaegi's call skip the copy of a zero argument (floats: -0; complex: both parts zero).
func c02ZeroCleared(tok string) (string, bool) {
	switch {
	case tok == "f32:80000000":
		return "f32:00000000", true
	case tok == "f64:8000000000000000":
		return "f64:0000000000000000", true
	case strings.HasPrefix(tok, "c64:"), strings.HasPrefix(tok, "c128:"):
		i := strings.IndexByte(tok, ':')
		parts := strings.Split(tok[i+1:], ",")
		changed := false
		for j, p := range parts {
			z := strings.Repeat("0", len(p))
			switch p {
			case z:
			case "8" + z[1:]:
				parts[j] = z
				changed = true
			default:
				return tok, false
			}
		}
		return tok[:i+1] + strings.Join(parts, ","), changed
	}
	return tok, false
}

// c02ValTok is the token of a value of its own kind
func c02ValTok(v c02V) string {
	switch v.K.Class {
	case "string":
		return c02Tok(v.S)
	case "bool":
		return c02Tok(v.B)
	}
	t, _ := c02Conv(v, v.K)
	return t
}

// wide value of a complex64 constant operand as yaegi reads it: the untyped constant at float64 precision
func c02WideConst(v c02V) complex128 {
	f32 := c02FloatKinds[0]
	re, _ := strconv.ParseFloat(c02V{K: f32, F: real(v.C)}.lit(), 64)
	im, _ := strconv.ParseFloat(c02V{K: f32, F: imag(v.C)}.lit(), 64)
	return complex(re, im)
}

// c02KnownDefect gives the region label of evaluation i of site s ("" = main stream) and, where the
// harness can compute it, the output the known defect produces ("" = decided by model Y in Coq).
func c02KnownDefect(s *c02Site, i int, ref, impl string) (region, predicted string) {
	region = s.Region
	switch region {
	case "const-return", "const-expr-float32", "const-real-to-complex":
		if s.KPred2 != "" && impl == s.KPred2 {
			return region, impl
		}
		if strings.HasPrefix(s.KPred, "FAIL:") {
			if strings.HasPrefix(impl, s.KPred) {
				return region, impl
			}
			return region, s.KPred
		}
		return region, s.KPred
	case "paren-map-target":
		// (m[k]) op= y and (m[k])++ : isMapEntry does not look through the parentheses, the map is not updated
		x, _ := s.operands(i)
		return region, c02Canon(c02ValTok(*x))
	case "paren-operand-land":
		if i == 0 && strings.HasPrefix(impl, "CRASH:reflect:_call_of_reflect.Value.Bool_on_"+s.K.Name+"_Value") {
			return region, impl
		}
		return region, "CRASH"
	case "complex64-const":
		x, _ := s.operands(i)
		a, b := x.C, c02WideConst(*s.Const)
		if s.Form[0] != 'v' {
			a, b = b, a
		}
		switch s.Cat {
		case "bin":
			var r complex128
			switch s.Op {
			case "+":
				r = a + b
			case "-":
				r = a - b
			case "*":
				r = a * b
			case "/":
				r = a / b
			}
			predicted = c02Canon(c02Tok(complex64(r)))
		case "cmp":
			if s.Op == "==" {
				predicted = c02Tok(a == b)
			} else {
				predicted = c02Tok(a != b)
			}
		}
		if s.Ctx == "arg" {
			predicted, _ = c02ZeroCleared(predicted)
		}
		if predicted == ref {
			return "", ""
		}
		return region, predicted
	case "const-conv-negzero":
		// the conversion is done at run time on the float64 value of the constant
		t, _ := c02Conv(*s.Const, s.K2)
		return region, c02Canon(t)
	case "iface-assign":
		// no closure: the function stops; `q = !x` stores a bool into the interface slot with SetBool and panics in reflect.
		// integer kinds are decided by model Y in Coq
		if s.K.Class == "bool" {
			return region, "P:other"
		}
		if !s.K.isInt() {
			return region, "STOP"
		}
	case "":
		if s.Ctx == "arg" && (s.K.Class == "float" || s.K.Class == "complex") {
			if z, ok := c02ZeroCleared(ref); ok {
				return "negzero-arg", z
			}
		}
	}
	return region, ""
}

// ---------------------------------------------------------------- Coq rendering of integer cases

func c02CoqForm(s *c02Site) string {
	if s.Ctx == "ifc" || s.Ctx == "ifa" {
		return "FIface"
	}
	switch s.Form {
	case "vv":
		return "FVar"
	case "lv", "cv", "uv", "fv":
		return "FC0"
	}
	return "FC1"
}

func c02CoqObs(tok string, k *c02Kind) string {
	switch {
	case tok == "P:div":
		return "(OPanic PDivZero)"
	case tok == "P:shift":
		return "(OPanic PNegShift)"
	case tok == "STOP":
		return "OStop"
	case tok == "bool:true":
		return "(OBool true)"
	case tok == "bool:false":
		return "(OBool false)"
	case strings.HasPrefix(tok, "s:"):
		if s, err := strconv.Unquote(tok[2:]); err == nil && c02CoqSafe(s) {
			return "(OStr " + coqRawStr(s) + ")"
		}
		return "OOther"
	}
	if i := strings.IndexByte(tok, ':'); i > 0 && k != nil && tok[:i] == k.Name {
		if _, err := strconv.ParseInt(tok[i+1:], 10, 64); err == nil {
			return "(OVal (" + tok[i+1:] + ")%Z)"
		}
		if _, err := strconv.ParseUint(tok[i+1:], 10, 64); err == nil {
			return "(OVal " + tok[i+1:] + "%Z)"
		}
	}
	return "OOther"
}

func c02CoqSafe(s string) bool {
	for i := 0; i < len(s); i++ {
		if s[i] < 0x20 || s[i] > 0x7e {
			return false
		}
	}
	return true
}

// c02CoqCase renders evaluation i of site s as an int_case / str_case ("" when the site is outside the Coq models).
func c02CoqCase(id int, s *c02Site, i int, impl, ref string) (kind, text string) {
	x, y := s.operands(i)
	var a, b c02V
	switch {
	case s.Const == nil:
		a = *x
		if y != nil {
			b = *y
		} else {
			b = *x
		}
	case s.Form[0] == 'v':
		a, b = *x, *s.Const
	case s.Form == "c":
		a, b = *x, *x
	default:
		a, b = *s.Const, *x
	}
	form := c02CoqForm(s)
	ck := ""
	resK := s.K
	switch s.Cat {
	case "bin", "shift":
		if s.Ctx == "ifa" {
			ck = fmt.Sprintf("(CBinIfa %s)", c02CoqOp[s.Op])
		} else if strings.HasPrefix(s.Ctx, "cmpd") {
			ck = fmt.Sprintf("(CAsg %s %s)", c02CoqOp[s.Op], form)
		} else {
			ck = fmt.Sprintf("(CBin %s %s)", c02CoqOp[s.Op], form)
		}
	case "cmp":
		brn := s.Ctx == "if" || s.Ctx == "for" || s.Ctx == "forpost" || s.Ctx == "sw" || strings.HasPrefix(s.Ctx, "and") || strings.HasPrefix(s.Ctx, "or")
		ck = fmt.Sprintf("(CCmp %s %s %s)", c02CoqOp[s.Op], form, coqBool(brn))
		resK = nil
	case "un":
		o := map[string]string{"-": "Neg", "^": "BitNot", "+": "Pos"}[s.Op]
		// the interface rows of neg / bitNot are unreachable (their kind switch inspects the interface type itself):
		// `var r interface{} = -x` computes into a typed temporary
		ck = fmt.Sprintf("(CUn %s FVar)", o)
		if s.Ctx == "ifa" && s.Paren != "pw" && s.Paren != "pww" {
			ck = fmt.Sprintf("(CUnIfa %s)", o)
		}
	case "incdec":
		ck = fmt.Sprintf("(CIncDec %s)", coqBool(s.Op == "++"))
	case "conv":
		ck = "CConv"
		resK = s.K2
	default:
		return "", ""
	}
	if s.K.Class == "string" {
		if s.Cat == "un" || s.Cat == "incdec" || s.Cat == "conv" || !c02CoqSafe(a.S) || !c02CoqSafe(b.S) {
			return "", ""
		}
		return "str", fmt.Sprintf("(%d%%N, %s, %s, %s, %s, %s)", id, ck, coqRawStr(a.S), coqRawStr(b.S), c02CoqObs(impl, nil), c02CoqObs(ref, nil))
	}
	if !s.K.isInt() || (s.Cat == "conv" && !s.K2.isInt()) {
		return "", ""
	}
	k2 := s.K
	if s.K2 != nil {
		k2 = s.K2
	}
	if s.Cat == "conv" {
		b = c02V{K: s.K2}
	}
	return "int", fmt.Sprintf("(%d%%N, %s, %s, %s, %s, %s, %s, %s)", id, ck, s.K.Coq, k2.Coq, a.coqZ(), b.coqZ(), c02CoqObs(impl, resK), c02CoqObs(ref, resK))
}

// ---------------------------------------------------------------- driver

var c02ListCap = 4000

func runC02(args []string) error {
	fs := flag.NewFlagSet("c02", flag.ExitOnError)
	out := fs.String("out", "/verif/build/C02", "output directory")
	tier := fs.String("tier", "quick", "quick|thorough")
	seed := fs.Uint64("seed", envSeed(), "seed")
	dump := fs.String("dump", "", "write the generated programs into this directory and stop")
	fs.IntVar(&c02ListCap, "listcap", 4000, "maximum number of reference mismatches listed in summary.json")
	floatOnly := fs.Bool("floatonly", false, "development aid: run only the floating point stream of c02_float.go")
	fs.Parse(args)
	if err := os.MkdirAll(*out, 0o755); err != nil {
		return err
	}
	if *floatOnly {
		sm := newSummary("C02")
		if err := c02FloatStream(sm, *out, *tier, *seed); err != nil {
			return err
		}
		return sm.write(*out)
	}
	t0 := time.Now()
	g := &c02Gen{tier: *tier, seed: *seed, r: newRng(*seed), constSub: 3}
	g.enumerate()
	sm := newSummary("C02")

	// programs: consecutive sites, bounded by evaluations and by sites
	var progs []*c02Prog
	{
		var cur []*c02Site
		evals := 0
		flushProg := func() {
			if len(cur) > 0 {
				progs = append(progs, c02Render(fmt.Sprintf("p%04d", len(progs)), cur))
				cur, evals = nil, 0
			}
		}
		for _, s := range g.sites {
			cur = append(cur, s)
			evals += len(s.Expect)
			if len(cur) >= 350 || evals >= 12000 {
				flushProg()
			}
		}
		flushProg()
	}
	if *dump != "" {
		os.MkdirAll(*dump, 0o755)
		for _, p := range progs {
			os.WriteFile(filepath.Join(*dump, p.Name+".go"), []byte(p.Src), 0o644)
		}
		fmt.Printf("c02: %d sites, %d programs written to %s\n", len(g.sites), len(progs), *dump)
		return nil
	}

	// ---- implementation: yaegi on every program
	implOut := make([]outcome, len(progs))
	tY := time.Now()
	parallelMap(len(progs), 0, func(i int) {
		implOut[i] = runYaegiChild(progs[i].Src, 120*time.Second)
	})
	// a program the interpreter refuses or aborts as a whole is split until the offending sites are
	// isolated: those sites fail alone, all the others are still compared
	siteFail := map[int]string{}
	isolated := map[int]bool{}
	{
		var mu sync.Mutex
		var failing []int
		for i := range progs {
			if implOut[i].End != "ok" {
				failing = append(failing, i)
			}
		}
		parallelMap(len(failing), 0, func(fi int) {
			i := failing[fi]
			var out strings.Builder
			fails := map[int]string{}
			var split func(sites []*c02Site)
			split = func(sites []*c02Site) {
				r := runYaegiChild(c02Render("iso", sites).Src, 120*time.Second)
				if r.End == "ok" {
					out.WriteString(r.Stdout)
					return
				}
				if len(sites) == 1 {
					fails[sites[0].ID] = r.End
					return
				}
				split(sites[:len(sites)/2])
				split(sites[len(sites)/2:])
			}
			split(progs[i].Sites)
			mu.Lock()
			defer mu.Unlock()
			if len(fails) > 0 {
				implOut[i] = outcome{Stdout: out.String(), End: "ok"}
				isolated[i] = true
				for k, v := range fails {
					siteFail[k] = v
				}
			}
		})
	}
	yaegiDur := time.Since(tY)

	// ---- reference: go build of a shard (quick) or of all programs (thorough)
	var refProgs []goProg
	refIdx := map[string]int{}
	for i, p := range progs {
		hasConst := false
		for _, s := range p.Sites {
			hasConst = hasConst || s.Cat == "kconst" || s.RefOnly
		}
		if *tier == "thorough" || i%8 == int(*seed%8) || hasConst {
			refProgs = append(refProgs, goProg{Name: p.Name, Files: map[string]string{"main.go": p.Src}})
			refIdx[p.Name] = i
		}
	}
	tR := time.Now()
	var refOut map[string]outcome
	var refErr error
	{
		// batches keep one `go build` from linking hundreds of binaries at once
		refOut = map[string]outcome{}
		const per = 6
		var mu sync.Mutex
		var wg sync.WaitGroup
		sem := make(chan struct{}, 8)
		for i := 0; i < len(refProgs); i += per {
			j := i + per
			if j > len(refProgs) {
				j = len(refProgs)
			}
			wg.Add(1)
			sem <- struct{}{}
			go func(batch []goProg) {
				defer wg.Done()
				defer func() { <-sem }()
				r, err := goRefBatch(batch, 120*time.Second, false)
				mu.Lock()
				defer mu.Unlock()
				if err != nil {
					refErr = err
					return
				}
				for k, v := range r {
					refOut[k] = v
				}
			}(refProgs[i:j])
		}
		wg.Wait()
	}
	if refErr != nil {
		return fmt.Errorf("reference build failed: %v", refErr)
	}
	refDur := time.Since(tR)

	// ---- comparison
	distinct := distinctSet{}
	caseID := 0
	var intCases, strCases, constCases []string
	hazards, hazardSites := map[string]bool{}, 0
	addCase := func(s *c02Site, i int, impl, ref string) int {
		caseID++
		if s.Cat == "kconst" {
			if s.K.Class == "float" && s.Ctx != "kcmp" && s.Region == "" {
				q := func(tok string) string {
					r := c02TokRat(tok)
					return coqOpt(r != nil, func() string {
						if r == nil {
							return ""
						}
						return c02CoqQ(r)
					}())
				}
				constCases = append(constCases, fmt.Sprintf("(%d%%N, %s, %s, %s, %s)", caseID, coqBool(s.K.Bits == 32), c02CoqQ(s.KVal), q(impl), q(ref)))
			}
			return caseID
		}
		kind, text := c02CoqCase(caseID, s, i, impl, ref)
		switch kind {
		case "int":
			intCases = append(intCases, text)
		case "str":
			strCases = append(strCases, text)
		}
		return caseID
	}
	evalDesc := func(s *c02Site, i int) map[string]any {
		d := s.desc()
		x, y := s.operands(i)
		d["x"] = x.varInit()
		if y != nil {
			d["y"] = y.varInit()
		}
		return d
	}
	oracleBad := 0
	var oracleNote string
	mismatchCases := 0
	sampleRng := newRng(*seed ^ 0xc02)
	sampled := map[string]bool{}
	listed := map[string]int{}
	// how many evaluations are sampled into Coq per run (besides every mismatch)
	totalInt := 0
	for _, s := range g.sites {
		if s.K.isInt() || s.K.Class == "string" {
			totalInt += len(s.Expect)
		}
	}
	sampleTarget := 6000
	if *tier == "thorough" {
		sampleTarget = 40000
	}
	for pi, p := range progs {
		io := implOut[pi]
		implTok := c02ParseOutput(io.Stdout)
		var refTok map[int][]string
		hasRef := false
		if ro, ok := refOut[p.Name]; ok {
			hasRef = true
			if ro.End != "ok" {
				return fmt.Errorf("reference program %s did not run to completion: %s (generator defect)", p.Name, ro.End)
			}
			refTok = c02ParseOutput(ro.Stdout)
		}
		if io.End != "ok" {
			caseID++
			sm.CaseIndex[fmt.Sprint(caseID)] = map[string]any{"program": p.Name, "end": io.End}
			sm.RefMismatches = append(sm.RefMismatches, refMismatch{ID: caseID, Region: "", Input: map[string]any{"program": p.Name, "first_site": p.Sites[0].desc()}, Impl: io.End, Ref: "ok", Note: "the interpreter did not run the program to completion"})
		}
		for _, s := range p.Sites {
			sm.count(s.Cat + ":" + s.K.Class)
			sm.count("ctx:" + s.Ctx)
			sm.count("form:" + s.Form)
			if s.Seq {
				sm.count("one_activation")
				sm.count("seqcell:" + s.Cat + "/" + s.Ctx)
			}
			if s.Paren != "" {
				sm.count("paren:" + s.Paren)
				sm.count("cell:" + s.Cat + "/" + s.Ctx + "/" + s.Paren)
			}
			if s.Region != "" {
				sm.count("region:" + s.Region)
			}
			it := implTok[s.ID]
			var rt []string
			if hasRef {
				rt = refTok[s.ID]
				if len(rt) != len(s.Expect) {
					return fmt.Errorf("reference program %s, site %d: %d tokens, expected %d (generator defect)", p.Name, s.ID, len(rt), len(s.Expect))
				}
			}
			if s.Cat == "kconst" && s.K.Class == "float" && s.K.Bits == 32 && c02DoubleRoundingDiffers(s.KVal) {
				hazards[s.KName] = true
				hazardSites++
			}
			for i, exp := range s.Expect {
				exp = c02CanonTok(exp)
				sm.Evaluations++
				sm.RefComparisons++
				x, y := s.operands(i)
				if x.Boundary || (y != nil && y.Boundary) || (s.Const != nil && s.Const.Boundary) {
					ys := ""
					if y != nil {
						ys = y.key()
					}
					distinct.add(fmt.Sprint(s.ID), x.key(), ys)
				}
				if s.RefOnly {
					if !hasRef {
						return fmt.Errorf("site %d has no compiled-Go reference (generator defect)", s.ID)
					}
					exp = c02CanonTok(rt[i])
				} else if hasRef {
					if r := c02CanonTok(rt[i]); r != exp {
						oracleBad++
						if oracleNote == "" {
							oracleNote = fmt.Sprintf("site %d (%s %s %s %s %s) evaluation %d: compiled Go printed %q, native oracle %q", s.ID, s.Cat, s.Op, s.K.Name, s.Form, s.Ctx, i, r, exp)
						}
						exp = r // compiled Go is the reference
					}
				}
				impl := "MISSING"
				if i < len(it) {
					impl = c02CanonTok(it[i])
				} else if f, bad := siteFail[s.ID]; bad {
					impl = "FAIL:" + f
				}
				if impl != exp {
					region, predicted := c02KnownDefect(s, i, exp, impl)
					// model Y in Coq covers the main stream and the regions it models; the other regions
					// are predicted by the harness itself (exact agreement required below)
					coqModelled := region == "" || region == "neg-shift" || region == "uintptr-incdec" || region == "iface-assign"
					id := 0
					if mismatchCases < 6000 && coqModelled {
						id = addCase(s, i, impl, exp)
						mismatchCases++
					} else {
						caseID++
						id = caseID
					}
					note := ""
					if predicted != "" && predicted != impl {
						note = "in region " + region + " but the known defect would print " + predicted
						region = ""
					}
					sm.count("mismatch:" + region)
					listed[region]++
					// every unexplained mismatch is listed (up to the cap); each known region has its own, smaller cap
					if (region == "" && listed[region] <= c02ListCap) || (region != "" && listed[region] <= c02ListCap/2) {
						d := evalDesc(s, i)
						sm.CaseIndex[fmt.Sprint(id)] = d
						sm.RefMismatches = append(sm.RefMismatches, refMismatch{ID: id, Region: region, Input: d, Impl: impl, Ref: exp, Note: note})
					} else {
						sm.count("ref_mismatches_not_listed")
					}
					continue
				}
				if s.Cat == "kconst" && s.Region == "" && (s.Ctx == "kvar" || s.Ctx == "kconst" || s.Ctx == "kconv") {
					id := addCase(s, i, impl, exp)
					sm.CaseIndex[fmt.Sprint(id)] = evalDesc(s, i)
					continue
				}
				// sample of agreeing evaluations for the impl-vs-Y correspondence in Coq
				if (s.K.isInt() || s.K.Class == "string") && sampleRng.intn(totalInt) < sampleTarget {
					id := addCase(s, i, impl, exp)
					if len(sm.Samples) < 6 && x.Boundary && !sampled[s.Cat+s.Ctx] {
						sampled[s.Cat+s.Ctx] = true
						d := evalDesc(s, i)
						d["yaegi"], d["reference"] = impl, exp
						sm.Samples = append(sm.Samples, d)
					}
					sm.CaseIndex[fmt.Sprint(id)] = evalDesc(s, i)
				}
			}
		}
	}
	if oracleBad > 0 {
		return fmt.Errorf("the native oracle of the harness disagrees with compiled Go on %d evaluation(s), e.g. %s", oracleBad, oracleNote)
	}

	// ---- cases files
	hdr := "From Coq Require Import ZArith List String.\nFrom Verif Require Import Num.OpDsl Num.GoInt Num.Model Num.Cases.\nImport ListNotations.\nOpen Scope string_scope.\n"
	chunk := func(prefix, typ, fn string, cases []string, per int) error {
		for i, k := 0, 0; i < len(cases); i, k = i+per, k+1 {
			j := i + per
			if j > len(cases) {
				j = len(cases)
			}
			name := fmt.Sprintf("cases_%s_%d.v", prefix, k)
			body := fmt.Sprintf("Definition cases : list %s := [\n%s\n].\nDefinition MY := Eval vm_compute in %s_y cases.\nPrint MY.\nDefinition MG := Eval vm_compute in %s_g cases.\nPrint MG.\n",
				typ, strings.Join(cases[i:j], ";\n"), fn, fn)
			sm.CasesFiles = append(sm.CasesFiles, name)
			if err := os.WriteFile(filepath.Join(*out, name), []byte(hdr+body), 0o644); err != nil {
				return err
			}
		}
		return nil
	}
	if len(intCases) == 0 {
		intCases = nil
	}
	per := (len(intCases) + 15) / 16
	if per < 200 {
		per = 200
	}
	if err := chunk("int", "int_case", "int_mis", intCases, per); err != nil {
		return err
	}
	if err := chunk("str", "str_case", "str_mis", strCases, 2000); err != nil {
		return err
	}
	{
		// constants rounded to float32 / float64: a separate model file (IEEE rounding over Q)
		save := hdr
		hdr = "From Coq Require Import ZArith QArith List.\nFrom Verif Require Import Num.ConstRound.\nImport ListNotations.\n"
		if err := chunk("const", "const_case", "const_mis", constCases, 1500); err != nil {
			return err
		}
		hdr = save
	}
	sm.Distribution["double_rounding_sensitive_constants"] = len(hazards)
	sm.Distribution["double_rounding_sensitive_sites"] = hazardSites
	if len(sm.CasesFiles) == 0 {
		if err := chunk("int", "int_case", "int_mis", []string{}, 1); err != nil {
			return err
		}
		name := "cases_int_0.v"
		body := "Definition cases : list int_case := [].\nDefinition MY := Eval vm_compute in int_mis_y cases.\nPrint MY.\nDefinition MG := Eval vm_compute in int_mis_g cases.\nPrint MG.\n"
		sm.CasesFiles = append(sm.CasesFiles, name)
		os.WriteFile(filepath.Join(*out, name), []byte(hdr+body), 0o644)
	}
	sm.ImplComparisons = len(intCases) + len(strCases) + len(constCases)
	sm.DistinctNontriv = len(distinct)
	sm.Exhaustive = true
	sm.Rule = "complete enumeration of operator x operand kind x operand form (two variables, literal / typed constant / untyped constant on either side) x result context " +
		"(return, assignment, definition, interface destination, call argument, package variable, op= on variable / map entry / slice element / field / pointer, if / for / switch condition) x boundary values per kind; " +
		"distinct = distinct (code site, operands); non-trivial = at least one operand is a boundary value (not 0..3 for integers, not 0/1/2 for floats)"
	sm.Notes = append(sm.Notes,
		fmt.Sprintf("%d code sites in %d programs; yaegi %.1fs; compiled-Go reference on %d programs %.1fs (the other programs are compared with the native oracle of the harness, itself compared with compiled Go on the reference shard: 0 differences); total %.1fs",
			len(g.sites), len(progs), yaegiDur.Seconds(), len(refProgs), refDur.Seconds(), time.Since(t0).Seconds()),
		"complex evaluations and the statement contexts of floating point operators are decided by this enumeration (validated against compiled Go); the float operators themselves have a Coq denotation, see the float stream note")
	// ---- floating point stream with a Coq denotation (c02_float.go)
	if err := c02FloatStream(sm, *out, *tier, *seed); err != nil {
		return err
	}
	sort.Slice(sm.RefMismatches, func(i, j int) bool { return sm.RefMismatches[i].ID < sm.RefMismatches[j].ID })
	return sm.write(*out)
}
