package main

import (
	"bytes"
	"context"
	"fmt"
	"reflect"
	"strings"
	"sync"
	"time"

	"github.com/traefik/yaegi/interp"
	"github.com/traefik/yaegi/stdlib"
)

// C19 runners: one program is executed
//   - plainly (Eval), the reference for output / result / panic,
//   - plainly with every generated closure instrumented (verif export), which yields the true
//     sequence of CFG nodes executed, the oracle that is independent of the debugger's tracking,
//   - through the Debugger's public API, driven by a list of resume requests.

// debug event reasons (interp.DebugEventReason values, fixed by the iota in debugger.go).
const (
	c19Run = iota
	c19Pause
	c19Break
	c19Entry
	c19StepInto
	c19StepOver
	c19StepOut
	c19Terminate
	c19EnterG
	c19ExitG
)

// a resume request: "c" continue, "i"/"o"/"u" step into/over/out, "e" Step(DebugEntry),
// "p" Step(DebugPause), "t" Terminate.
type c19Req string

type c19Event struct {
	Reason int `json:"r"`
	Line   int `json:"l"`
	Col    int `json:"c"`
	G      int `json:"g,omitempty"` // goroutine that emitted the event (always 0 in the modelled, sequential programs)
}

type c19Session struct {
	Stdout string
	End    string
	Result string
	Events []c19Event
	Valid  []bool // per breakpoint request
	Dump   []interp.VerifC19Node
	Hang   string // non-empty: the session did not finish (what was being waited for)
}

func c19Result(v reflect.Value) string {
	if !v.IsValid() {
		return "invalid"
	}
	return v.Type().String()
}

func c19NewInterp(out, errb *bytes.Buffer) *interp.Interpreter {
	i := interp.New(interp.Options{Stdout: out, Stderr: errb})
	if err := i.Use(stdlib.Symbols); err != nil {
		panic(err)
	}
	return i
}

// c19Plain evaluates the program without a debugger, through the plain entry point Eval (NOT
// EvalWithContext: the context variants switch the channel operations to their cancellable
// implementations, which is what the Debugger always runs). The generated programs terminate; a
// watchdog reports one that does not.
func c19Plain(src string, timeout time.Duration) (stdout, end, result string) {
	var out, errb bytes.Buffer
	i := c19NewInterp(&out, &errb)
	type res struct {
		v   reflect.Value
		err error
	}
	done := make(chan res, 1)
	go func() {
		var r res
		defer func() {
			if p := recover(); p != nil {
				r.err = fmt.Errorf("host panic: %v", p)
			}
			done <- r
		}()
		r.v, r.err = i.Eval(src)
	}()
	select {
	case r := <-done:
		return out.String(), yaegiEnd(r.err), c19Result(r.v)
	case <-time.After(timeout):
		return "", "timeout", ""
	}
}

// trace modes
const (
	c19TracePlain  = 0 // Compile + Execute: the closures of plain execution
	c19TraceCtx    = 1 // Compile + ExecuteWithContext: the closures a debug session without line requests runs
	c19TraceCtxPre = 2 // SetBreakpoints with a line request first, then ExecuteWithContext
)

// c19Trace runs the program without a debugger attached, with instrumented closures, the closures
// being generated as in the given mode.
func c19Trace(src string, mode int, timeout time.Duration) (steps []interp.VerifC19Step, dump []interp.VerifC19Node, stdout, end string) {
	var out, errb bytes.Buffer
	i := c19NewInterp(&out, &errb)
	prog, err := i.Compile(src)
	if err != nil {
		return nil, nil, "", "compile-error:" + firstLine(err.Error())
	}
	var mu sync.Mutex
	interp.VerifC19Instrument(prog, func(s interp.VerifC19Step) {
		mu.Lock()
		steps = append(steps, s)
		mu.Unlock()
	})
	if mode == c19TraceCtxPre {
		if msg := func() (msg string) {
			defer func() {
				if p := recover(); p != nil {
					msg = fmt.Sprint(p)
				}
			}()
			interp.VerifC19SetLineBreakpoints(i, prog, []int{1})
			return ""
		}(); msg != "" {
			return nil, nil, "", "host-panic:" + msg
		}
	}
	if mode == c19TracePlain {
		done := make(chan error, 1)
		go func() {
			var e error
			defer func() {
				if p := recover(); p != nil {
					e = fmt.Errorf("host panic: %v", p)
				}
				done <- e
			}()
			_, e = i.Execute(prog)
		}()
		select {
		case err = <-done:
		case <-time.After(timeout):
			return nil, nil, "", "timeout"
		}
		mu.Lock()
		defer mu.Unlock()
		return steps, interp.VerifC19Dump(prog), out.String(), yaegiEnd(err)
	}
	ctx, cancel := context.WithTimeout(context.Background(), timeout)
	defer cancel()
	_, err = i.ExecuteWithContext(ctx, prog)
	mu.Lock()
	defer mu.Unlock()
	return steps, interp.VerifC19Dump(prog), out.String(), yaegiEnd(err)
}

// c19Debug runs one debug session: breakpoints on the given lines and functions, the first
// request starts the program, each further request answers one stop event; when the list is
// exhausted every further stop is answered by "continue".
func c19Debug(src string, lines []int, funcs []string, reqs []c19Req, timeout time.Duration) (res c19Session) {
	var out, errb bytes.Buffer
	i := c19NewInterp(&out, &errb)
	prog, err := i.Compile(src)
	if err != nil {
		res.End = "compile-error:" + firstLine(err.Error())
		return res
	}
	return c19DebugOn(i, prog, &out, lines, funcs, reqs, timeout)
}

// c19Chain runs several debug sessions one after the other on ONE interpreter and one compiled
// program (Debug is called once per session). A session that does not finish ends the chain: the
// sessions after it are reported as not finished either.
func c19Chain(src string, specs []c19SessSpec, timeout time.Duration) []c19Session {
	res := make([]c19Session, len(specs))
	var out, errb bytes.Buffer
	i := c19NewInterp(&out, &errb)
	prog, err := i.Compile(src)
	for k, sp := range specs {
		switch {
		case err != nil:
			res[k].End = "compile-error:" + firstLine(err.Error())
		case k > 0 && res[k-1].Hang != "":
			res[k].Hang = "an earlier session on this interpreter did not finish"
		default:
			res[k] = c19DebugOn(i, prog, &out, sp.Lines, sp.Funcs, sp.Reqs, timeout)
		}
	}
	return res
}

// c19DebugOn runs one debug session of prog on the interpreter i, whose standard output is out.
func c19DebugOn(i *interp.Interpreter, prog *interp.Program, out *bytes.Buffer, lines []int, funcs []string, reqs []c19Req, timeout time.Duration) (res c19Session) {
	out.Reset()
	ctx, cancel := context.WithTimeout(context.Background(), timeout+5*time.Second)
	defer cancel()
	evch := make(chan c19Event, 1<<16)
	dbg := i.Debug(ctx, prog, func(e *interp.DebugEvent) {
		ev := c19Event{Reason: int(e.Reason())}
		switch e.Reason() {
		case interp.DebugTerminate, interp.DebugEnterGoRoutine, interp.DebugExitGoRoutine:
		default:
			if fr := e.Frames(0, 1); len(fr) > 0 {
				p := fr[0].Position()
				ev.Line, ev.Col = p.Line, p.Column
			}
			ev.G = e.GoRoutine()
		}
		evch <- ev
	}, nil)
	var bq []interp.BreakpointRequest
	for _, l := range lines {
		bq = append(bq, interp.LineBreakpoint(l))
	}
	for _, f := range funcs {
		bq = append(bq, interp.FunctionBreakpoint(f))
	}
	if len(bq) > 0 {
		hostPanic := func() (msg string) {
			defer func() {
				if p := recover(); p != nil {
					msg = fmt.Sprint(p)
				}
			}()
			for _, b := range dbg.SetBreakpoints(interp.ProgramBreakpointTarget(prog), bq...) {
				res.Valid = append(res.Valid, b.Valid)
			}
			return ""
		}()
		if hostPanic != "" {
			res.Hang = "SetBreakpoints panicked in the host: " + hostPanic
			func() {
				defer func() { recover() }()
				dbg.Terminate()
			}()
			cancel()
			return res
		}
	}
	deadline := time.Now().Add(timeout)
	next := 0
	issue := func(gid int) string {
		rq := c19Req("c")
		if next < len(reqs) {
			rq = reqs[next]
		}
		next++
		done := make(chan error, 1)
		go func() {
			defer func() {
				if p := recover(); p != nil {
					done <- fmt.Errorf("host panic in request: %v", p)
				}
			}()
			for {
				var err error
				switch rq {
				case "c":
					err = dbg.Continue(gid)
				case "i":
					err = dbg.Step(gid, interp.DebugStepInto)
				case "o":
					err = dbg.Step(gid, interp.DebugStepOver)
				case "u":
					err = dbg.Step(gid, interp.DebugStepOut)
				case "e":
					err = dbg.Step(gid, interp.DebugEntry)
				case "p":
					err = dbg.Step(gid, interp.DebugPause)
				case "t":
					dbg.Terminate()
				}
				// Step reads the routine's "running" flag, which the interpreter clears only after the
				// event callback has returned: retry while the flag has not been cleared yet.
				if err == interp.ErrRunning && time.Now().Before(deadline) {
					time.Sleep(20 * time.Microsecond)
					continue
				}
				done <- err
				return
			}
		}()
		select {
		case err := <-done:
			if err != nil {
				return "request " + string(rq) + ": " + err.Error()
			}
			return ""
		case <-time.After(time.Until(deadline)):
			return "request " + string(rq) + " not accepted"
		}
	}
	finish := func(hang string) c19Session {
		res.Hang = hang
		func() {
			defer func() { recover() }()
			dbg.Terminate()
		}()
		cancel()
		res.Stdout = out.String()
		return res
	}
	if h := issue(0); h != "" {
		return finish(h)
	}
	waited := make(chan struct{})
	go func() {
		dbg.Wait()
		close(waited)
	}()
	var grace <-chan time.Time
	for {
		select {
		case <-waited:
			// the session's context is done; the terminate event is delivered right after
			waited = nil
			grace = time.After(2 * time.Second)
		case <-grace:
			v, err := dbg.Wait()
			res.Stdout, res.End, res.Result = out.String(), yaegiEnd(err), c19Result(v)
			res.Dump = interp.VerifC19Dump(prog)
			res.Hang = "the session ended without a terminate event"
			return res
		case ev := <-evch:
			res.Events = append(res.Events, ev)
			switch ev.Reason {
			case c19Terminate:
				v, err := dbg.Wait()
				res.Stdout, res.End, res.Result = out.String(), yaegiEnd(err), c19Result(v)
				res.Dump = interp.VerifC19Dump(prog)
				return res
			case c19EnterG, c19ExitG:
			default:
				if h := issue(ev.G); h != "" {
					return finish(h)
				}
			}
		case <-time.After(time.Until(deadline)):
			return finish("no event")
		}
	}
}

// ---------------------------------------------------------------- the CFG as the model sees it

// c19CFG is the dump re-indexed by pre-order position.
type c19CFG struct {
	N     []interp.VerifC19Node
	Pos   map[int64]int // node index -> position
	Tn    []int         // position of tnext or -1
	Fn    []int
	Anc   []int
	Size  []int // subtree size
	PC    []int // canonical code address of exec: 0 = none, 1.. by first appearance in the process-wide table
	Start []int
}

// c19pcTab numbers the code addresses met in the dumps of one program: 1.. by first appearance.
type c19pcTab map[uintptr]int

type c19StepT = interp.VerifC19Step

func (t c19pcTab) id(p uintptr) int {
	if p == 0 {
		return 0
	}
	if v, ok := t[p]; ok {
		return v
	}
	v := len(t) + 1
	t[p] = v
	return v
}

func c19MakeCFG(dump []interp.VerifC19Node, tab c19pcTab) *c19CFG {
	g := &c19CFG{N: dump, Pos: map[int64]int{}}
	for p, n := range dump {
		g.Pos[n.Index] = p
	}
	at := func(ix int64) int {
		if ix < 0 {
			return -1
		}
		if p, ok := g.Pos[ix]; ok {
			return p
		}
		return -1
	}
	n := len(dump)
	g.Tn, g.Fn, g.Anc, g.Size, g.PC, g.Start = make([]int, n), make([]int, n), make([]int, n), make([]int, n), make([]int, n), make([]int, n)
	for p, nd := range dump {
		g.Tn[p], g.Fn[p], g.Anc[p], g.Start[p] = at(nd.Tnext), at(nd.Fnext), at(nd.Anc), at(nd.Start)
		g.PC[p] = tab.id(nd.ExecPC)
		g.Size[p] = 1
	}
	for p := n - 1; p > 0; p-- {
		if a := g.Anc[p]; a >= 0 {
			g.Size[a] += g.Size[p]
		}
	}
	return g
}

// same shape (kinds, positions, edges by pre-order position)?
func c19SameShape(a, b *c19CFG) bool {
	if len(a.N) != len(b.N) {
		return false
	}
	for p := range a.N {
		x, y := a.N[p], b.N[p]
		if x.Kind != y.Kind || x.Action != y.Action || x.Line != y.Line || x.Col != y.Col || x.HasPos != y.HasPos ||
			a.Tn[p] != b.Tn[p] || a.Fn[p] != b.Fn[p] || a.Anc[p] != b.Anc[p] {
			return false
		}
	}
	return true
}

// ---------------------------------------------------------------- tokens of the replay machine

// token kinds: "E" nested runCfg entered at node P; "R" the running operation returned a closure
// with code address PC that will run node P; "X" the running operation returned nil.
type c19Tok struct {
	K  byte
	PC int
	P  int
}

// c19Tokens turns the recorded steps into tokens. g supplies positions and code addresses (of the
// debugged interpreter: the instrumented one only has wrappers). ok=false: a shape the replay
// machine does not cover (closure invoked from an unknown place, inconsistent depth).
func c19Tokens(steps []interp.VerifC19Step, tg, g *c19CFG) (toks []c19Tok, ok bool, why string) {
	var stack []int
	for _, s := range steps {
		p, found := tg.Pos[s.Index]
		if !found {
			return nil, false, "step on a node outside the program tree"
		}
		if s.Via == 3 {
			return nil, false, "closure invoked from an unknown place"
		}
		pc := g.PC[p]
		if s.Via != 0 {
			pc = 0 // forwarding closure: no node carries its code address
		}
		in := -1
		for k := len(stack) - 1; k >= 0; k-- {
			if stack[k] == s.Frame {
				in = k
				break
			}
		}
		switch {
		case in >= 0:
			for len(stack)-1 > in {
				stack = stack[:len(stack)-1]
				toks = append(toks, c19Tok{K: 'X'})
			}
			toks = append(toks, c19Tok{K: 'R', PC: pc, P: p})
		default:
			if s.Depth < 1 || len(stack) < s.Depth-1 {
				return nil, false, "inconsistent depth"
			}
			for len(stack) > s.Depth-1 {
				stack = stack[:len(stack)-1]
				toks = append(toks, c19Tok{K: 'X'})
			}
			if s.Via != 0 {
				return nil, false, "frame entered through a forwarding closure"
			}
			stack = append(stack, s.Frame)
			toks = append(toks, c19Tok{K: 'E', P: p})
		}
	}
	for range stack {
		toks = append(toks, c19Tok{K: 'X'})
	}
	return toks, true, ""
}

// ---------------------------------------------------------------- Go twin of the Coq model Y (used to label regions and to debug)

type c19Sim struct {
	g     *c19CFG
	flag  []bool
	mode  int
	depth int
	fstep int
	reqs  []c19Req
	ev    []c19Event
	// ghost
	heads [][2]int // (tracked, true) at every loop head; -1 = nil
}

func (s *c19Sim) orig(n, pc int) int {
	g := s.g
	for a := g.Anc[n]; a >= 0; a = g.Anc[a] {
		found := -1
		for p := a; p < a+g.Size[a]; {
			if p != n && g.PC[p] != 0 && g.PC[p] == pc {
				found = p
				p += g.Size[p]
				continue
			}
			p++
		}
		if found >= 0 {
			return found
		}
	}
	return -1
}

func (s *c19Sim) isExec(n, pc int) bool {
	return n >= 0 && s.g.PC[n] != 0 && pc != 0 && s.g.PC[n] == pc
}

func (s *c19Sim) track(n0, m, pc int) int {
	if m < 0 {
		return s.orig(n0, pc)
	}
	switch {
	case s.isExec(s.g.Tn[m], pc):
		return s.g.Tn[m]
	case s.isExec(s.g.Fn[m], pc):
		return s.g.Fn[m]
	}
	return s.orig(m, pc)
}

func (s *c19Sim) setMode(r int) {
	if s.mode == c19Terminate {
		return
	}
	if s.mode == c19Entry && r == c19Entry {
		return
	}
	switch r {
	case c19StepInto, c19StepOver, c19StepOut:
		s.mode, s.fstep = r, s.depth
	default:
		s.mode = c19Pause
	}
}

func (s *c19Sim) resume() {
	rq := c19Req("c")
	if len(s.reqs) > 0 {
		rq, s.reqs = s.reqs[0], s.reqs[1:]
	}
	switch rq {
	case "c":
		s.mode = c19Run
	case "i":
		s.setMode(c19StepInto)
	case "o":
		s.setMode(c19StepOver)
	case "u":
		s.setMode(c19StepOut)
	case "e":
		s.setMode(c19Entry)
	case "p":
		s.setMode(c19Pause)
	case "t":
		s.mode = c19Terminate
	}
}

// dbgExec: the debugger's exec hook at a loop head. stop=true: leave the loop.
func (s *c19Sim) dbgExec(m, truth int) (stop bool) {
	s.heads = append(s.heads, [2]int{m, truth})
	if m >= 0 && !s.g.N[m].HasPos {
		return false
	}
	reason := s.mode
	switch {
	case s.mode == c19Terminate:
		return true
	case m >= 0 && s.flag[m]:
		reason = c19Break
	case s.mode == c19Run:
		return false
	case s.mode == c19StepOut:
		if s.depth >= s.fstep {
			return false
		}
	case s.mode == c19StepOver:
		if s.depth > s.fstep {
			return false
		}
	}
	e := c19Event{Reason: reason}
	if m >= 0 {
		e.Line, e.Col = s.g.N[m].Line, s.g.N[m].Col
	}
	s.ev = append(s.ev, e)
	s.resume()
	return false
}

// run replays the tokens. status: 0 returned, 1 stopped.
func (s *c19Sim) run(toks []c19Tok, n0, m, truth int, head bool) ([]c19Tok, int) {
	for {
		if head && s.dbgExec(m, truth) {
			return toks, 1
		}
		if len(toks) == 0 {
			return toks, 0
		}
		t := toks[0]
		toks = toks[1:]
		switch t.K {
		case 'E':
			s.depth++
			var st int
			toks, st = s.run(toks, t.P, t.P, t.P, true)
			s.depth--
			if st != 0 {
				return toks, st
			}
			head = false
		case 'X':
			return toks, 0
		case 'R':
			m, truth, head = s.track(n0, m, t.PC), t.P, true
		}
	}
}

func c19Simulate(g *c19CFG, flag []bool, toks []c19Tok, reqs []c19Req) *c19Sim {
	s := &c19Sim{g: g, flag: flag, mode: c19Entry, reqs: reqs}
	s.resume()
	s.ev = append(s.ev, c19Event{Reason: c19EnterG})
	s.run(toks, -1, -1, -1, false)
	s.ev = append(s.ev, c19Event{Reason: c19ExitG}, c19Event{Reason: c19Terminate})
	return s
}

// c19Flags: where SetBreakpoints puts its flags (first positioned non-nop node with a closure on
// the line, in Walk order; the start node of a named function).
func c19Flags(g *c19CFG, lines []int, funcs []string) (flag []bool, valid []bool) {
	flag = make([]bool, len(g.N))
	valid = make([]bool, len(lines)+len(funcs))
	lineReq := map[int]int{}
	for i, l := range lines {
		lineReq[l] = i
	}
	funcReq := map[string]int{}
	for i, f := range funcs {
		funcReq[f] = len(lines) + i
	}
	for p, n := range g.N {
		if len(funcReq) > 0 && n.Kind == "funcDecl" && len(n.Children) > 1 {
			name := g.N[g.Pos[n.Children[1]]].Ident
			if i, ok := funcReq[name]; ok && !valid[i] && g.Start[p] >= 0 {
				valid[i] = true
				flag[g.Start[p]] = true
				continue
			}
		}
		if len(lineReq) > 0 && n.HasPos && n.Action != "nop" && g.PC[p] != 0 {
			if i, ok := lineReq[n.Line]; ok && !valid[i] {
				valid[i] = true
				flag[p] = true
			}
		}
	}
	return flag, valid
}

func c19EventsString(ev []c19Event) string {
	var b strings.Builder
	for _, e := range ev {
		fmt.Fprintf(&b, "%d@%d:%d ", e.Reason, e.Line, e.Col)
	}
	return b.String()
}
