package main

import (
	"fmt"
	"strings"
)

// C01 identity / aliasing stream (part of the boundary stream, enumerated completely in EVERY run;
// values sampled by the seed). Two families:
//
// (A) variable identity: which executions of a declaration denote the SAME variable.
//       variable kind   range key, range value (over int / slice / array / string / one-entry map),
//                       3-clause loop variable, variable declared in a loop body by := / by var,
//                       function parameter, named result, variable of a block entered repeatedly (goto)
//       escape          address stored in a slice / in a map / in a struct field / in an outer pointer
//                       variable; captured by a closure stored in a slice
//       body            with or without an (unrelated) function literal in the loop body
//       observation     after the loop: every escaped alias is read, then written, then read again
//
// (B) argument passing: what the callee shares with the caller.
//       call form       explicit variadic arguments, no variadic argument, spread f(s...), spread of a
//                       sub-slice f(s[1:]...), spread of nil; slice / array / struct / map / pointer
//                       parameter
//       callee          interpreted function, function literal, host (append / copy / fmt.Sprint)
//       callee effect   writes elements, appends, re-assigns the parameter, reports len / cap / nil-ness
//       observation     the caller's value and every sharer of its backing array, after the call

type idCell struct{ id, body string }

const idDecls = `type Box struct {
	P *int
	V int
}

`

// ---------------------------------------------------------------- (A) variable identity

// idLoop: header and the name of the per-iteration variable (int), for n iterations.
type idLoop struct {
	key, pre, hdr, v string
}

func idLoops(r *rng) []idLoop {
	a, b, c := 10+r.intn(9), 20+r.intn(9), 30+r.intn(9)
	return []idLoop{
		{key: "rangeIntKey", hdr: "for k := range 3 {", v: "k"},
		{key: "rangeSliceKey", hdr: fmt.Sprintf("for k := range []int{%d, %d, %d} {", a, b, c), v: "k"},
		{key: "rangeSliceVal", hdr: fmt.Sprintf("for _, e := range []int{%d, %d, %d} {", a, b, c), v: "e"},
		{key: "rangeSliceKV", hdr: fmt.Sprintf("for k, e := range []int{%d, %d, %d} {\n\t\t_ = k", a, b, c), v: "e"},
		{key: "rangeArrayVal", pre: fmt.Sprintf("\tarr := [3]int{%d, %d, %d}\n", a, b, c), hdr: "for _, e := range arr {", v: "e"},
		{key: "rangeStringKey", hdr: "for k := range \"xyz\" {", v: "k"},
		{key: "rangeMapVal", hdr: fmt.Sprintf("for _, e := range map[string]int{\"m\": %d} {", a), v: "e"},
		{key: "for3", hdr: "for i := 0; i < 3; i++ {", v: "i"},
		{key: "bodyDefine", hdr: "for i := 0; i < 3; i++ {\n\t\tw := i * " + fmt.Sprint(a), v: "w"},
		{key: "bodyVar", hdr: "for i := 0; i < 3; i++ {\n\t\tvar w int\n\t\tw += i + " + fmt.Sprint(b), v: "w"},
		{key: "rangeBodyDefine", hdr: "for k := range 3 {\n\t\tw := k + " + fmt.Sprint(c), v: "w"},
	}
}

var idEscapes = []string{"slice", "map", "field", "outer", "closure"}

func idLoopCell(l idLoop, esc string, withLit bool) idCell {
	id := fmt.Sprintf("id_%s_%s", l.key, esc)
	if withLit {
		id += "_lit"
	}
	var b strings.Builder
	b.WriteString("func " + id + "() {\n" + l.pre)
	switch esc {
	case "slice":
		b.WriteString("\tvar ps []*int\n")
	case "map":
		b.WriteString("\tps := map[int]*int{}\n\tn := 0\n")
	case "field":
		b.WriteString("\tvar bs []Box\n")
	case "outer":
		b.WriteString("\tvar first, last *int\n")
	case "closure":
		b.WriteString("\tvar fs []func() int\n")
	}
	b.WriteString("\t" + l.hdr + "\n")
	if withLit {
		b.WriteString("\t\tnop := func() int { return 1 }\n\t\t_ = nop\n")
	}
	switch esc {
	case "slice":
		b.WriteString("\t\tps = append(ps, &" + l.v + ")\n")
	case "map":
		b.WriteString("\t\tps[n] = &" + l.v + "\n\t\tn++\n")
	case "field":
		b.WriteString("\t\tbs = append(bs, Box{P: &" + l.v + ", V: " + l.v + "})\n")
	case "outer":
		b.WriteString("\t\tif first == nil {\n\t\t\tfirst = &" + l.v + "\n\t\t}\n\t\tlast = &" + l.v + "\n")
	case "closure":
		b.WriteString("\t\tfs = append(fs, func() int { " + l.v + " += 100; return " + l.v + " })\n")
	}
	b.WriteString("\t}\n")
	switch esc {
	case "slice":
		b.WriteString("\tfor _, p := range ps {\n\t\tfmt.Println(*p)\n\t}\n\t*ps[0] += 1000\n\tfor _, p := range ps {\n\t\tfmt.Println(*p)\n\t}\n\tfmt.Println(ps[0] == ps[1], ps[1] == ps[2])\n")
	case "map":
		b.WriteString("\tfor j := 0; j < n; j++ {\n\t\tfmt.Println(*ps[j])\n\t}\n\t*ps[0] += 1000\n\tfor j := 0; j < n; j++ {\n\t\tfmt.Println(*ps[j])\n\t}\n")
	case "field":
		b.WriteString("\tfor _, x := range bs {\n\t\tfmt.Println(*x.P, x.V)\n\t}\n\t*bs[0].P += 1000\n\tfor _, x := range bs {\n\t\tfmt.Println(*x.P, x.V)\n\t}\n")
	case "outer":
		b.WriteString("\tfmt.Println(*first, *last, first == last)\n\t*first += 1000\n\tfmt.Println(*first, *last)\n")
	case "closure":
		b.WriteString("\tfor _, f := range fs {\n\t\tfmt.Println(f(), f())\n\t}\n")
	}
	b.WriteString("}\n")
	return idCell{id, b.String()}
}

// parameters, named results and blocks entered repeatedly
func idOtherCells(r *rng) []idCell {
	a := 3 + r.intn(20)
	var out []idCell
	out = append(out, idCell{"id_param_slice", fmt.Sprintf(`func id_param_slice_f(x int, ps *[]*int) {
	*ps = append(*ps, &x)
	x += %d
}

func id_param_slice() {
	var ps []*int
	for i := 0; i < 3; i++ {
		id_param_slice_f(i, &ps)
	}
	for _, p := range ps {
		fmt.Println(*p)
	}
	*ps[0] += 1000
	fmt.Println(*ps[0], *ps[1], ps[0] == ps[1])
}
`, a)})
	out = append(out, idCell{"id_param_closure", fmt.Sprintf(`func id_param_closure_f(x int) func() int {
	return func() int { x += %d; return x }
}

func id_param_closure() {
	var fs []func() int
	for i := 0; i < 3; i++ {
		fs = append(fs, id_param_closure_f(i))
	}
	for _, f := range fs {
		fmt.Println(f(), f())
	}
}
`, a)})
	out = append(out, idCell{"id_named_result", fmt.Sprintf(`func id_named_result_f(x int) (r int, p *int) {
	r = x * %d
	p = &r
	return
}

func id_named_result() {
	var ps []*int
	for i := 1; i < 4; i++ {
		v, p := id_named_result_f(i)
		ps = append(ps, p)
		fmt.Println(v, *p)
	}
	*ps[0] += 1000
	fmt.Println(*ps[0], *ps[1], *ps[2])
}
`, a)})
	out = append(out, idCell{"id_goto_block", fmt.Sprintf(`func id_goto_block() {
	var ps []*int
	n := 0
again:
	{
		w := n * %d
		ps = append(ps, &w)
	}
	n++
	if n < 3 {
		goto again
	}
	for _, p := range ps {
		fmt.Println(*p)
	}
	*ps[0] += 1000
	fmt.Println(*ps[0], *ps[1], ps[0] == ps[1])
}
`, a)})
	out = append(out, idCell{"id_recursion_local", fmt.Sprintf(`func id_recursion_local_f(d int, ps *[]*int) {
	w := d * %d
	*ps = append(*ps, &w)
	if d > 0 {
		id_recursion_local_f(d-1, ps)
	}
	w++
}

func id_recursion_local() {
	var ps []*int
	id_recursion_local_f(2, &ps)
	for _, p := range ps {
		fmt.Println(*p)
	}
}
`, a)})
	return out
}

// ---------------------------------------------------------------- (B) argument passing

type idCallee struct {
	key, decl, call string // call: format with one %s = the argument list
	lit            bool
}

type idEffect struct {
	key, body string // body of a callee with parameter v (variadic []int or slice), returns int
}

var idEffects = []idEffect{
	{"write", "\tif len(v) > 0 {\n\t\tv[0] += 1000\n\t}\n\treturn len(v)\n"},
	{"writeLast", "\tfor i := range v {\n\t\tv[i] = -v[i]\n\t}\n\treturn len(v)\n"},
	{"append", "\tv = append(v, 7)\n\tv[0] = 5\n\treturn len(v)\n"},
	{"reassign", "\tv = []int{9, 9}\n\tv[1] = 8\n\treturn len(v)\n"},
	{"inspect", "\tn := 0\n\tif v == nil {\n\t\tn = 100\n\t}\n\treturn n + len(v)\n"},
	{"capOf", "\treturn cap(v)*10 + len(v)\n"},
}

// argument forms for a variadic (...int) callee
var idArgForms = []struct{ key, args string }{
	{"explicit", "s[0], s[1], s[2]"},
	{"none", ""},
	{"spread", "s..."},
	{"spreadSub", "s[1:]..."},
	{"spreadFull", "s[0:2:2]..."},
	{"spreadNil", "nilS..."},
	{"spreadLit", "[]int{4, 5}..."},
}

func idCallCells(r *rng) []idCell {
	a, b, c := 1+r.intn(9), 10+r.intn(9), 20+r.intn(9)
	var out []idCell
	for _, eff := range idEffects {
		for _, form := range idArgForms {
			if (eff.key == "append" || eff.key == "reassign") && (form.key == "none" || form.key == "spreadNil") {
				continue // v[0] on an empty slice
			}
			if eff.key == "capOf" && form.key == "explicit" {
				continue // the capacity of the slice built for explicit arguments is not specified
			}
			for _, lit := range []bool{false, true} {
				id := fmt.Sprintf("id_variadic_%s_%s", eff.key, form.key)
				var bb strings.Builder
				callee := id + "_f"
				if lit {
					id += "_lit"
					callee = "f"
				}
				if !lit {
					bb.WriteString("func " + callee + "(v ...int) int {\n" + eff.body + "}\n\n")
				}
				bb.WriteString("func " + id + "() {\n")
				fmt.Fprintf(&bb, "\ts := []int{%d, %d, %d}\n\tt := s[1:]\n\tvar nilS []int\n\t_, _ = t, nilS\n", a, b, c)
				if lit {
					bb.WriteString("\tf := func(v ...int) int {\n" + idIndent(eff.body) + "\t}\n")
				}
				fmt.Fprintf(&bb, "\tfmt.Println(%s(%s))\n\tfmt.Println(s, t, len(s), nilS == nil)\n", callee, form.args)
				fmt.Fprintf(&bb, "\tfmt.Println(%s(%s))\n\tfmt.Println(s, t)\n", callee, form.args)
				bb.WriteString("}\n")
				out = append(out, idCell{id, bb.String()})
			}
		}
	}
	// non-variadic parameters of every category: what a callee's writes mean for the caller
	params := []struct{ key, typ, val, write, show string }{
		{"slice", "[]int", fmt.Sprintf("[]int{%d, %d, %d}", a, b, c), "v[0] += 1000\n\tv = append(v, 1)\n\tv[1] = 77", "x"},
		{"subslice", "[]int", fmt.Sprintf("[]int{%d, %d, %d}[0:2]", a, b, c), "v = append(v, 55)\n\tv[0] = 66", "x, x[0:3]"},
		{"array", "[3]int", fmt.Sprintf("[3]int{%d, %d, %d}", a, b, c), "v[0] += 1000", "x"},
		{"struct", "Box", fmt.Sprintf("Box{V: %d}", a), "v.V += 1000", "x.V"},
		{"map", "map[string]int", fmt.Sprintf("map[string]int{\"k\": %d}", a), "v[\"k\"] += 1000\n\tv = nil", "x"},
		{"pointer", "*int", "new(int)", "*v += 1000\n\tv = nil", "*x"},
		{"ptrToArray", "*[3]int", fmt.Sprintf("&[3]int{%d, %d, %d}", a, b, c), "v[1] += 1000", "*x"},
		{"ptrToStruct", "*Box", fmt.Sprintf("&Box{V: %d}", b), "v.V += 1000\n\tv = &Box{V: 1}", "x.V"},
	}
	for _, p := range params {
		for _, lit := range []bool{false, true} {
			id := "id_param_" + p.key
			callee := id + "_f"
			var bb strings.Builder
			if lit {
				id += "_lit"
				callee = "f"
			} else {
				fmt.Fprintf(&bb, "func %s(v %s) {\n\t%s\n\t_ = v\n}\n\n", callee, p.typ, p.write)
			}
			bb.WriteString("func " + id + "() {\n")
			fmt.Fprintf(&bb, "\tx := %s\n\ty := x\n", p.val)
			if lit {
				fmt.Fprintf(&bb, "\tf := func(v %s) {\n\t\t%s\n\t\t_ = v\n\t}\n", p.typ, strings.ReplaceAll(p.write, "\n\t", "\n\t\t"))
			}
			fmt.Fprintf(&bb, "\t%s(x)\n\tfmt.Println(%s)\n\t%s(y)\n\tfmt.Println(%s)\n}\n", callee, p.show, callee, p.show)
			out = append(out, idCell{id, bb.String()})
		}
	}
	// host callees with a spread argument
	out = append(out, idCell{"id_host_spread", fmt.Sprintf(`func id_host_spread() {
	s := []int{%d, %d, %d}
	u := []int{%d}
	u = append(u, s...)
	u[1] += 1000
	fmt.Println(s, u)
	w := append(s[0:1:1], s[1:]...)
	w[0] = -1
	fmt.Println(s, w)
	n := copy(s, s[1:])
	fmt.Println(n, s)
	anys := []interface{}{%d, "z"}
	fmt.Println(fmt.Sprint(anys...), anys)
}
`, a, b, c, c, a)})
	return out
}

func idIndent(body string) string {
	var b strings.Builder
	for _, l := range strings.Split(strings.TrimRight(body, "\n"), "\n") {
		b.WriteString("\t" + l + "\n")
	}
	return b.String()
}

func idProgram(cells []idCell) string {
	var b strings.Builder
	b.WriteString("package main\n\nimport \"fmt\"\n\n" + idDecls)
	for _, c := range cells {
		b.WriteString(c.body + "\n")
	}
	b.WriteString("func cell(name string, f func()) {\n\tdefer func() {\n\t\tif e := recover(); e != nil {\n\t\t\tfmt.Println(\"PANIC in\", name)\n\t\t}\n\t}()\n\tfmt.Println(\"#\", name)\n\tf()\n}\n\n")
	b.WriteString("func main() {\n")
	for _, c := range cells {
		b.WriteString("\tcell(\"" + c.id + "\", " + c.id + ")\n")
	}
	b.WriteString("}\n")
	return b.String()
}

func c1IdentityCases(r *rng, count func(string)) []*c1case {
	var all []idCell
	for _, l := range idLoops(r) {
		for _, esc := range idEscapes {
			for _, withLit := range []bool{false, true} {
				all = append(all, idLoopCell(l, esc, withLit))
			}
		}
	}
	all = append(all, idOtherCells(r)...)
	all = append(all, idCallCells(r)...)
	var cells []idCell
	for _, c := range all {
		one := idProgram([]idCell{c})
		if err := c1Validate(one); err != nil {
			count("ident-cell-invalid")
			continue
		}
		if reg := c1ClassifyRegion(one); reg != "" {
			count("ident-cell-in-region:" + reg)
			continue
		}
		if reg := idKnownCell(c.id); reg != "" {
			count("ident-cell-in-region:" + reg)
			continue
		}
		count("ident-cell")
		cells = append(cells, c)
	}
	var out []*c1case
	const per = 25
	for i := 0; i < len(cells); i += per {
		j := i + per
		if j > len(cells) {
			j = len(cells)
		}
		out = append(out, &c1case{Stream: "boundary", Src: idProgram(cells[i:j]), Feat: map[string]int{"ident-cell": j - i}, Size: (j - i) * 12})
	}
	return out
}

// idKnownCell: cells that already disagree with compiled Go on the unchanged tree and whose region
// cannot be decided on the syntax alone ("" = none).
func idKnownCell(id string) string { return "" }
