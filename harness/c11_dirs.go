package main

import (
	"bytes"
	"fmt"
	"os"
	"path/filepath"
	"sort"
	"strings"
	"testing/fstest"
	"time"

	"github.com/traefik/yaegi/interp"
)

// C11, directories: the declarations of a program are spread over 2-4 files of one package in a seeded
// order, so that package-level initialisers read variables and call functions declared in LATER files
// (and in earlier ones); the directory is evaluated with EvalPath on disk and on a MapFS and compared with
// Eval of the concatenated source (one piece) and with the compiled package.
//
// Dependencies that are only visible through function bodies are ordered by Go but not by yaegi
// (property C15); a layout is kept only if the initialisation order computed with and without those
// hidden dependencies is the same, so that the stream stays a C11 stream.

type c11mention struct {
	vars  map[int]bool // variables and pointers (pointers have ids > 100)
	funcs map[int]bool
}

func c11exprMentions(e *c11expr, m *c11mention) {
	if e == nil {
		return
	}
	switch e.K {
	case 'v', 'd':
		m.vars[e.N] = true
	case 'f':
		m.funcs[e.N] = true
	}
	c11exprMentions(e.A, m)
	c11exprMentions(e.B, m)
}

func c11stmtMentions(s c11stmt, m *c11mention) {
	switch s.K {
	case '=':
		m.vars[s.X] = true
	case '&':
		m.vars[s.X], m.vars[s.P] = true, true
	case 's':
		m.vars[s.P] = true
	}
	c11exprMentions(s.E, m)
}

// c11initOrder computes the order in which the variables of decls (in this declaration order) are
// initialised: repeatedly the earliest variable all of whose dependencies are initialised.
// hidden: also count the variables mentioned, transitively, by the functions an initialiser calls.
func c11initOrder(decls []c11item, hidden bool) []int {
	fn := map[int]*c11mention{}
	for _, d := range decls {
		if d.K == 'f' {
			m := &c11mention{map[int]bool{}, map[int]bool{}}
			for _, s := range d.Body {
				c11stmtMentions(s, m)
			}
			c11exprMentions(d.Ret, m)
			fn[d.N] = m
		}
	}
	// transitive closure over calls
	for changed := true; changed; {
		changed = false
		for _, m := range fn {
			for f := range m.funcs {
				if c := fn[f]; c != nil {
					for v := range c.vars {
						if !m.vars[v] {
							m.vars[v], changed = true, true
						}
					}
					for g := range c.funcs {
						if !m.funcs[g] {
							m.funcs[g], changed = true, true
						}
					}
				}
			}
		}
	}
	type vd struct {
		id   int
		deps map[int]bool
	}
	var vs []vd
	for _, d := range decls {
		switch d.K {
		case 'p':
			vs = append(vs, vd{d.N, map[int]bool{}})
		case 'v':
			m := &c11mention{map[int]bool{}, map[int]bool{}}
			c11exprMentions(d.E, m)
			deps := map[int]bool{}
			for v := range m.vars {
				deps[v] = true
			}
			if hidden {
				for f := range m.funcs {
					if c := fn[f]; c != nil {
						for v := range c.vars {
							deps[v] = true
						}
					}
				}
			}
			delete(deps, d.N)
			vs = append(vs, vd{d.N, deps})
		}
	}
	inited := map[int]bool{}
	var order []int
	for len(order) < len(vs) {
		progress := false
		for _, v := range vs {
			if inited[v.id] {
				continue
			}
			ready := true
			for d := range v.deps {
				ready = ready && inited[d]
			}
			if ready {
				inited[v.id] = true
				order = append(order, v.id)
				progress = true
				break
			}
		}
		if !progress {
			return nil // a loop: not a valid program
		}
	}
	return order
}

type c11dirLayout struct {
	Files   [][]c11item // declaration files, in file-name order
	MainPos int         // position of the file holding main among them
	Forward int         // initialisers that read a variable or call a function declared in a later file
}

// c11layout spreads the declarations over files; nil if no admissible layout was found.
func c11layout(r *rng, p c11prog) *c11dirLayout {
	for try := 0; try < 30; try++ {
		nf := 2 + r.intn(3)
		pieces := c11cutN(r, p.Decls, nf)
		perm := make([]int, len(pieces))
		for i := range perm {
			perm[i] = i
		}
		for i := len(perm) - 1; i > 0; i-- {
			j := r.intn(i + 1)
			perm[i], perm[j] = perm[j], perm[i]
		}
		var files [][]c11item
		var flat []c11item
		fileOf := map[string]int{}
		for k, pi := range perm {
			files = append(files, pieces[pi])
			for _, it := range pieces[pi] {
				fileOf[fmt.Sprintf("%c%d", it.K, it.N)] = k
				flat = append(flat, it)
			}
		}
		a, b := c11initOrder(flat, false), c11initOrder(flat, true)
		if a == nil || b == nil || fmt.Sprint(a) != fmt.Sprint(b) {
			continue
		}
		forward := 0
		for k, f := range files {
			for _, it := range f {
				if it.K != 'v' {
					continue
				}
				m := &c11mention{map[int]bool{}, map[int]bool{}}
				c11exprMentions(it.E, m)
				for v := range m.vars {
					kind := 'v'
					if v > 100 {
						kind = 'p'
					}
					if fileOf[fmt.Sprintf("%c%d", kind, v)] > k {
						forward++
					}
				}
				for fn := range m.funcs {
					if fileOf[fmt.Sprintf("f%d", fn)] > k {
						forward++
					}
				}
			}
		}
		if forward == 0 && try < 20 {
			continue
		}
		return &c11dirLayout{Files: files, MainPos: r.intn(len(files) + 1), Forward: forward}
	}
	return nil
}

// c11cutN cuts l into at most n non-empty consecutive pieces.
func c11cutN(r *rng, l []c11item, n int) [][]c11item {
	if n > len(l) {
		n = len(l)
	}
	cuts := map[int]bool{}
	for len(cuts) < n-1 {
		cuts[1+r.intn(len(l)-1)] = true
	}
	var pos []int
	for c := range cuts {
		pos = append(pos, c)
	}
	sort.Ints(pos)
	var out [][]c11item
	prev := 0
	for _, c := range append(pos, len(l)) {
		out = append(out, l[prev:c])
		prev = c
	}
	return out
}

// sources renders the files of the package (name -> source) and the same declarations as one file.
func (ly *c11dirLayout) sources(p c11prog) (map[string]string, string) {
	files := map[string]string{}
	var body []string
	for _, s := range p.Body {
		body = append(body, s.goSrc(false))
	}
	mainSrc := c11refSrc(nil, body, p.Vars, p.Ptrs, nil)
	var flat []c11item
	k := 0
	for i, f := range ly.Files {
		if i == ly.MainPos {
			files[fmt.Sprintf("f%02d.go", k)] = mainSrc
			k++
		}
		files[fmt.Sprintf("f%02d.go", k)] = c11fileSrc(f)
		k++
		flat = append(flat, f...)
	}
	if ly.MainPos == len(ly.Files) {
		files[fmt.Sprintf("f%02d.go", k)] = mainSrc
	}
	return files, c11refSrc(flat, body, p.Vars, p.Ptrs, nil)
}

func c11evalDirSrc(files map[string]string, mapfs bool) (stdout, errStr string) {
	out := &bytes.Buffer{}
	defer func() {
		if r := recover(); r != nil {
			stdout, errStr = out.String(), "host panic: "+firstLine(fmt.Sprint(r))
		}
	}()
	opt := interp.Options{Stdout: out, Stderr: out}
	path := "./prog"
	if mapfs {
		mfs := fstest.MapFS{}
		for n, src := range files {
			mfs["prog/"+n] = &fstest.MapFile{Data: []byte(src)}
		}
		opt.SourcecodeFilesystem = mfs
	} else {
		dir, err := os.MkdirTemp("", "vh-c11p-*")
		if err != nil {
			return "", err.Error()
		}
		defer os.RemoveAll(dir)
		for n, src := range files {
			if err := os.WriteFile(filepath.Join(dir, n), []byte(src), 0o644); err != nil {
				return "", err.Error()
			}
		}
		wd, _ := os.Getwd()
		rel, err := filepath.Rel(wd, dir)
		if err != nil {
			return "", err.Error()
		}
		if !strings.HasPrefix(rel, ".") {
			rel = "./" + rel
		}
		path = rel
	}
	i := interp.New(opt)
	if err := i.Use(c11fmt); err != nil {
		panic(err)
	}
	if _, err := i.EvalPath(path); err != nil {
		return out.String(), firstLine(err.Error())
	}
	return out.String(), ""
}

func c11evalOne(src string) (stdout, errStr string) {
	out := &bytes.Buffer{}
	defer func() {
		if r := recover(); r != nil {
			stdout, errStr = out.String(), "host panic: "+firstLine(fmt.Sprint(r))
		}
	}()
	i := interp.New(interp.Options{Stdout: out, Stderr: out})
	if err := i.Use(c11fmt); err != nil {
		panic(err)
	}
	if _, err := i.Eval(src); err != nil {
		return out.String(), firstLine(err.Error())
	}
	return out.String(), ""
}

func c11dirs(r *rng, n int, sm *summary, distinct distinctSet, id *int) error {
	type job struct {
		files           map[string]string
		one             string
		forward         int
		ref             string
		disk, mfs, eval [2]string
	}
	var jobs []*job
	var refs []goProg
	for k := 0; len(jobs) < n && k < 4*n; k++ {
		g := &c11gen{r: r.fork(), direct: true}
		p := g.program(4+g.r.intn(7), 2+g.r.intn(4))
		ly := c11layout(r.fork(), p)
		if ly == nil {
			sm.count("dirs:no-admissible-layout")
			continue
		}
		files, one := ly.sources(p)
		name := fmt.Sprintf("d%05d", k)
		refs = append(refs, goProg{Name: name, Files: files})
		jobs = append(jobs, &job{files: files, one: one, forward: ly.Forward, ref: name})
	}
	var refRes map[string]outcome
	var refErr error
	done := make(chan struct{})
	go func() {
		refRes, refErr = goRefBatch(refs, 20*time.Second, false)
		close(done)
	}()
	parallelMap(len(jobs), 0, func(k int) {
		j := jobs[k]
		j.disk[0], j.disk[1] = c11evalDirSrc(j.files, false)
		j.mfs[0], j.mfs[1] = c11evalDirSrc(j.files, true)
		j.eval[0], j.eval[1] = c11evalOne(j.one)
	})
	<-done
	if refErr != nil {
		return fmt.Errorf("reference build (directories): %w", refErr)
	}
	for _, j := range jobs {
		ref := refRes[j.ref]
		if ref.End != "ok" {
			return fmt.Errorf("directory reference program %s did not run: %+v\n%v", j.ref, ref, j.files)
		}
		var names []string
		for n := range j.files {
			names = append(names, n)
		}
		sort.Strings(names)
		var srcs []string
		for _, n := range names {
			srcs = append(srcs, "// "+n+"\n"+j.files[n])
		}
		for _, e := range []struct {
			entry string
			res   [2]string
		}{{"EvalPath(directory on disk)", j.disk}, {"EvalPath(directory on a MapFS)", j.mfs}, {"Eval(concatenated source)", j.eval}} {
			*id++
			in := map[string]any{"kind": "dirs", "entry": e.entry, "chunks": srcs, "forward_dependencies": j.forward}
			sm.CaseIndex[fmt.Sprint(*id)] = in
			sm.Evaluations++
			sm.RefComparisons++
			sm.count("session:dirs:" + e.entry)
			if j.forward > 0 {
				sm.count("dirs:with-forward-dependencies")
			}
			distinct.add(fmt.Sprint(in))
			impl := map[string]any{"Stdout": e.res[0], "Err": e.res[1]}
			switch {
			case e.res[1] != "" || e.res[0] != ref.Stdout:
				sm.RefMismatches = append(sm.RefMismatches, refMismatch{ID: *id, Region: "", Input: in, Impl: impl, Ref: ref.Stdout, Note: "reference: compiled Go (the same files)"})
			case e.res[0] != j.eval[0]:
				sm.RefMismatches = append(sm.RefMismatches, refMismatch{ID: *id, Region: "", Input: in, Impl: impl, Ref: j.eval[0], Note: "reference: yaegi, Eval of the concatenated source"})
			}
		}
	}
	return nil
}
