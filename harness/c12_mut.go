package main

import (
	"fmt"
	"go/ast"
	"go/scanner"
	"go/token"
	"go/types"
	"regexp"
	"sort"
	"strings"
)

// C12 mutation operators on the rich stream (catalogue DESIGN.md Appendix D.1).
// A mutant is a text splice at the source range of an AST node of the well-typed original; the
// sites are found with the go/types information of the original.

type c12mutant struct {
	Op      string // catalogue number + variant, e.g. "01-operand-string/+"
	Ctx     string // context shape of the site (enclosing syntactic roles up to the statement)
	Src     string
	Line    string // the mutated source line(s), for reports
	RefErr  string
	Prelude bool // the site lies in the fixed prelude
}

type c12mctx struct {
	src              string
	ck               *c12Checked
	out              []c12mutant
	stack            []ast.Node
	preludeEnd       int
	poolFrom, poolTo int
}

func (m *c12mctx) off(p token.Pos) int    { return m.ck.Fset.Position(p).Offset }
func (m *c12mctx) text(n ast.Node) string { return m.src[m.off(n.Pos()):m.off(n.End())] }
func (m *c12mctx) typeOf(e ast.Expr) types.Type {
	if tv, ok := m.ck.Info.Types[e]; ok {
		return tv.Type
	}
	if id, ok := e.(*ast.Ident); ok {
		if o := m.ck.Info.Uses[id]; o != nil {
			return o.Type()
		}
		if o := m.ck.Info.Defs[id]; o != nil {
			return o.Type()
		}
	}
	return nil
}
func (m *c12mctx) isConst(e ast.Expr) bool {
	tv, ok := m.ck.Info.Types[e]
	return ok && tv.Value != nil
}

// splice records the mutant obtained by replacing src[from:to) by repl.
func (m *c12mctx) splice(op string, from, to int, repl string) {
	ns := m.src[:from] + repl + m.src[to:]
	ls := strings.LastIndexByte(ns[:from], '\n') + 1
	le := strings.IndexByte(ns[from+len(repl):], '\n')
	if le < 0 {
		le = len(ns)
	} else {
		le += from + len(repl)
	}
	line := strings.TrimSpace(ns[ls:le])
	m.out = append(m.out, c12mutant{Op: op + " {" + m.detail() + "}", Ctx: m.snippetAt(from) + " | " + m.ctxKey() + " | " + c12normLine(line), Src: ns, Line: line, Prelude: from < m.preludeEnd})
}

// snippetAt: the template snippet the offset belongs to ("prelude" for the fixed part).
func (m *c12mctx) snippetAt(off int) string {
	if off < m.preludeEnd {
		return "prelude"
	}
	i := strings.LastIndex(m.src[:off], "// snippet ")
	if i < 0 {
		return "main-head"
	}
	rest := m.src[i+len("// snippet "):]
	if j := strings.IndexByte(rest, '\n'); j >= 0 {
		rest = rest[:j]
	}
	return rest
}

// detail: the types of the node being mutated, of its direct sub-expressions and of its parent
// (they decide which rule of the checker is exercised).
func (m *c12mctx) detail() string {
	var parts []string
	add := func(n ast.Node) {
		e, ok := n.(ast.Expr)
		if !ok || e == nil {
			return
		}
		if id, ok := e.(*ast.Ident); ok && id.Name == "_" {
			return
		}
		if t := m.typeOf(e); t != nil {
			parts = append(parts, c12typeString(t))
		} else {
			parts = append(parts, "-")
		}
	}
	n := m.stack[len(m.stack)-1]
	add(n)
	cnt := 0
	ast.Inspect(n, func(c ast.Node) bool {
		if c == nil || cnt > 6 {
			return false
		}
		if c == n {
			return true
		}
		cnt++
		add(c)
		return false
	})
	if p := m.parent(1); p != nil {
		parts = append(parts, "^")
		add(p)
	}
	return strings.Join(parts, ",")
}

func c12typeString(t types.Type) string {
	s := types.TypeString(t, func(*types.Package) string { return "" })
	if len(s) > 40 {
		s = s[:40]
	}
	return s
}

// c12normLine: the mutated line with generated names and numeric literals normalised, so that the
// label identifies the statement shape and not the seed.
func c12normLine(line string) string {
	var sc scanner.Scanner
	fset := token.NewFileSet()
	f := fset.AddFile("", fset.Base(), len(line))
	sc.Init(f, []byte(line), nil, 0)
	var out []string
	for {
		_, tok, lit := sc.Scan()
		if tok == token.EOF {
			break
		}
		switch tok {
		case token.IDENT:
			out = append(out, c12normIdent(lit))
		case token.INT:
			out = append(out, c12normInt(lit))
		case token.FLOAT:
			out = append(out, lit)
		case token.STRING, token.CHAR:
			out = append(out, lit)
		case token.SEMICOLON:
			if lit == "\n" {
				continue
			}
			out = append(out, ";")
		default:
			if lit != "" {
				out = append(out, lit)
			} else {
				out = append(out, tok.String())
			}
		}
	}
	return strings.Join(out, " ")
}

var c12genName = regexp.MustCompile(`^([a-z]+)[0-9]+([a-z]?)$`)

func c12normIdent(id string) string {
	switch id {
	case "int8", "int16", "int32", "int64", "uint8", "uint16", "uint32", "uint64", "float32", "float64":
		return id
	}
	if mm := c12genName.FindStringSubmatch(id); mm != nil {
		return mm[1] + "#" + mm[2]
	}
	return id
}

// integer literals: the magnitude class decides representability, the exact digits do not.
func c12normInt(lit string) string {
	switch {
	case len(lit) <= 2:
		return "#"
	case len(lit) == 3 && lit < "128":
		return "#"
	case len(lit) == 3 && lit < "256":
		return "2##"
	default:
		return lit
	}
}

func (m *c12mctx) replace(op string, n ast.Node, repl string) {
	m.splice(op, m.off(n.Pos()), m.off(n.End()), repl)
}

// role of child c within parent p.
func c12role(p, c ast.Node) string {
	switch p := p.(type) {
	case *ast.BinaryExpr:
		if p.X == c {
			return "Bin" + p.Op.String() + ".X"
		}
		return "Bin" + p.Op.String() + ".Y"
	case *ast.UnaryExpr:
		return "Un" + p.Op.String()
	case *ast.ParenExpr:
		return "Paren"
	case *ast.CallExpr:
		if p.Fun == c {
			return "Call.Fun"
		}
		return "Call.Arg"
	case *ast.CompositeLit:
		if p.Type == c {
			return "Lit.Type"
		}
		return "Lit.Elt"
	case *ast.KeyValueExpr:
		if p.Key == c {
			return "KV.Key"
		}
		return "KV.Val"
	case *ast.IndexExpr:
		if p.X == c {
			return "Index.X"
		}
		return "Index.I"
	case *ast.SliceExpr:
		if p.X == c {
			return "Slice.X"
		}
		return "Slice.I"
	case *ast.SelectorExpr:
		if p.X == c {
			return "Sel.X"
		}
		return "Sel.Sel"
	case *ast.StarExpr:
		return "Star"
	case *ast.TypeAssertExpr:
		if p.X == c {
			return "Assert.X"
		}
		return "Assert.T"
	case *ast.FuncLit:
		return "FuncLit"
	case *ast.AssignStmt:
		for _, l := range p.Lhs {
			if l == c {
				return "Assign" + p.Tok.String() + ".L"
			}
		}
		return "Assign" + p.Tok.String() + ".R"
	case *ast.ValueSpec:
		if p.Type == c {
			return "Spec.Type"
		}
		for _, v := range p.Values {
			if v == c {
				if p.Type != nil {
					return "SpecT.Val"
				}
				return "Spec.Val"
			}
		}
		return "Spec.Name"
	case *ast.GenDecl:
		return "Decl" + p.Tok.String()
	case *ast.DeclStmt:
		return "DeclStmt"
	case *ast.ReturnStmt:
		return "Return"
	case *ast.IfStmt:
		if p.Cond == c {
			return "If.Cond"
		}
		if p.Init == c {
			return "If.Init"
		}
		return "If.Body"
	case *ast.ForStmt:
		if p.Cond == c {
			return "For.Cond"
		}
		if p.Init == c {
			return "For.Init"
		}
		if p.Post == c {
			return "For.Post"
		}
		return "For.Body"
	case *ast.RangeStmt:
		if p.X == c {
			return "Range.X"
		}
		return "Range.Body"
	case *ast.SwitchStmt:
		if p.Tag == c {
			return "Switch.Tag"
		}
		return "Switch.Body"
	case *ast.TypeSwitchStmt:
		return "TypeSwitch"
	case *ast.CaseClause:
		for _, l := range p.List {
			if l == c {
				return "Case.List"
			}
		}
		return "Case.Body"
	case *ast.SendStmt:
		if p.Chan == c {
			return "Send.Chan"
		}
		return "Send.Val"
	case *ast.ExprStmt:
		return "ExprStmt"
	case *ast.GoStmt:
		return "Go"
	case *ast.DeferStmt:
		return "Defer"
	case *ast.IncDecStmt:
		return "IncDec"
	case *ast.BlockStmt:
		return "Block"
	case *ast.LabeledStmt:
		return "Labeled"
	case *ast.BranchStmt:
		return "Branch"
	case *ast.FuncDecl:
		return "Func"
	case *ast.Ellipsis:
		return "Ellipsis"
	case *ast.ArrayType, *ast.MapType, *ast.ChanType, *ast.FuncType, *ast.StructType, *ast.InterfaceType, *ast.FieldList, *ast.Field:
		return "Type"
	}
	return fmt.Sprintf("%T", p)
}

// ctxKey: the roles from the site up to the enclosing statement (innermost first, at most 4),
// and whether the site is at package level or in a function body.
func (m *c12mctx) ctxKey() string {
	var parts []string
	scope := "pkg"
	for i := len(m.stack) - 1; i > 0; i-- {
		p, c := m.stack[i-1], m.stack[i]
		if _, ok := p.(*ast.FuncDecl); ok {
			scope = "func"
		}
		if len(parts) < 4 {
			stop := false
			switch p.(type) {
			case *ast.BlockStmt, *ast.FuncDecl, *ast.File, *ast.CaseClause, *ast.LabeledStmt:
				stop = true
			}
			if _, isCase := p.(*ast.CaseClause); isCase && c12role(p, c) == "Case.List" {
				stop = false
			}
			if !stop {
				parts = append(parts, c12role(p, c))
			} else if len(parts) == 0 {
				parts = append(parts, c12role(p, c))
			}
			if stop {
				// keep scanning only for the scope
				for j := i - 1; j > 0; j-- {
					if _, ok := m.stack[j-1].(*ast.FuncDecl); ok {
						scope = "func"
					}
				}
				break
			}
		}
	}
	return scope + ":" + strings.Join(parts, "<")
}

func (m *c12mctx) parent(k int) ast.Node {
	if len(m.stack)-1-k < 0 {
		return nil
	}
	return m.stack[len(m.stack)-1-k]
}

// ---------------------------------------------------------------- type classes

func c12class(t types.Type) string {
	if t == nil {
		return "?"
	}
	named := ""
	if n, ok := t.(*types.Named); ok {
		named = "N"
		_ = n
	}
	switch u := t.Underlying().(type) {
	case *types.Basic:
		switch {
		case u.Info()&types.IsUntyped != 0:
			switch {
			case u.Info()&types.IsInteger != 0:
				return "untyped-int"
			case u.Info()&types.IsFloat != 0:
				return "untyped-float"
			case u.Info()&types.IsString != 0:
				return "untyped-string"
			case u.Info()&types.IsBoolean != 0:
				return "untyped-bool"
			case u.Kind() == types.UntypedNil:
				return "nil"
			}
			return "untyped"
		case u.Info()&types.IsInteger != 0:
			return named + "int"
		case u.Info()&types.IsFloat != 0:
			return named + "float"
		case u.Info()&types.IsString != 0:
			return named + "string"
		case u.Info()&types.IsBoolean != 0:
			return named + "bool"
		case u.Info()&types.IsComplex != 0:
			return named + "complex"
		}
		return named + "basic"
	case *types.Struct:
		return "struct"
	case *types.Pointer:
		return "ptr"
	case *types.Slice:
		return "slice"
	case *types.Array:
		return "array"
	case *types.Map:
		return "map"
	case *types.Chan:
		return "chan"
	case *types.Signature:
		return "func"
	case *types.Interface:
		if u.NumMethods() == 0 {
			return "eface"
		}
		return "iface"
	case *types.Tuple:
		return "tuple"
	}
	return "other"
}

func c12isIntT(t types.Type) bool {
	if t == nil {
		return false
	}
	b, ok := t.Underlying().(*types.Basic)
	return ok && b.Info()&types.IsInteger != 0
}
func c12isFloatT(t types.Type) bool {
	if t == nil {
		return false
	}
	b, ok := t.Underlying().(*types.Basic)
	return ok && b.Info()&types.IsFloat != 0
}
func isStringT(t types.Type) bool {
	if t == nil {
		return false
	}
	b, ok := t.Underlying().(*types.Basic)
	return ok && b.Info()&types.IsString != 0
}
func isBoolT(t types.Type) bool {
	if t == nil {
		return false
	}
	b, ok := t.Underlying().(*types.Basic)
	return ok && b.Info()&types.IsBoolean != 0
}
func c12isUntypedT(t types.Type) bool {
	if t == nil {
		return false
	}
	b, ok := t.(*types.Basic)
	return ok && b.Info()&types.IsUntyped != 0
}

// a replacement expression whose type is not assignable to t ("" if none is known).
func c12wrongFor(t types.Type) (repl, tag string) {
	switch c12class(t) {
	case "int", "Nint", "untyped-int":
		return `"zz"`, "string"
	case "float", "Nfloat", "untyped-float":
		return `"zz"`, "string"
	case "string", "Nstring", "untyped-string":
		return "12345", "int"
	case "bool", "Nbool", "untyped-bool":
		return "1", "int"
	case "struct":
		if strings.HasSuffix(t.String(), "Pair") {
			return "origin", "struct"
		}
		return `Pair{1, "b", 2.5}`, "struct"
	case "ptr":
		return "&Pair{}", "ptr"
	case "slice":
		if strings.Contains(t.String(), "bool") {
			return `[]string{"a"}`, "slice"
		}
		return "[]bool{true}", "slice"
	case "array":
		return "[1]bool{true}", "array"
	case "map":
		return "map[bool]bool{}", "map"
	case "chan":
		return "make(chan bool)", "chan"
	case "func":
		return "func(bool) {}", "func"
	case "iface":
		return "origin", "struct-nomethods"
	}
	return "", ""
}

// ---------------------------------------------------------------- driver

// c12Mutants enumerates every applicable mutation at every applicable site.
func c12Mutants(src string, ck *c12Checked) []c12mutant {
	m := &c12mctx{src: src, ck: ck}
	if i := strings.Index(src, c12PreludeEndMarker); i >= 0 {
		m.preludeEnd = i
	}
	if i, j := strings.Index(src, "// pool begin"), strings.Index(src, "// pool end"); i >= 0 && j > i {
		m.poolFrom, m.poolTo = i, j
	}
	var visit func(n ast.Node)
	visit = func(n ast.Node) {
		if n == nil {
			return
		}
		m.stack = append(m.stack, n)
		m.atNode(n)
		// children
		ast.Inspect(n, func(c ast.Node) bool {
			if c == nil || c == n {
				return c == n
			}
			visit(c)
			return false
		})
		m.stack = m.stack[:len(m.stack)-1]
	}
	visit(ck.File)
	// deterministic order, duplicates removed
	sort.SliceStable(m.out, func(i, j int) bool { return false })
	seen := map[string]bool{}
	var res []c12mutant
	for _, x := range m.out {
		if x.Src == src || seen[x.Src] {
			continue
		}
		seen[x.Src] = true
		res = append(res, x)
	}
	return res
}

// inPrelude: sites in the fixed prelude are mutated too (they are part of the program) except the
// marker machinery itself.
func (m *c12mctx) inMarker(n ast.Node) bool {
	if o := m.off(n.Pos()); o >= m.poolFrom && o < m.poolTo {
		return true
	}
	for _, a := range m.stack {
		if fd, ok := a.(*ast.FuncDecl); ok && (fd.Name.Name == "mark" || fd.Name.Name == "init") {
			return true
		}
	}
	return false
}

func (m *c12mctx) atNode(n ast.Node) {
	if m.inMarker(n) {
		return
	}
	switch x := n.(type) {
	case *ast.BinaryExpr:
		m.opBinary(x)
	case *ast.UnaryExpr:
		m.opUnary(x)
	case *ast.Ident:
		m.opIdent(x)
	case *ast.CallExpr:
		m.opCall(x)
	case *ast.ReturnStmt:
		m.opReturn(x)
	case *ast.AssignStmt:
		m.opAssign(x)
	case *ast.ValueSpec:
		m.opValueSpec(x)
	case *ast.IfStmt:
		if x.Cond != nil {
			m.opCond("if", x.Cond)
		}
	case *ast.ForStmt:
		if x.Cond != nil {
			m.opCond("for", x.Cond)
		}
	case *ast.SelectorExpr:
		m.opSelector(x)
	case *ast.CompositeLit:
		m.opCompositeLit(x)
	case *ast.TypeAssertExpr:
		m.opTypeAssert(x)
	case *ast.SendStmt:
		m.opSend(x)
	case *ast.RangeStmt:
		m.opRange(x)
	case *ast.SliceExpr:
		m.opSlice(x)
	case *ast.IndexExpr:
		m.opIndex(x)
	case *ast.StarExpr:
		m.opStar(x)
	case *ast.BranchStmt:
		m.opBranch(x)
	case *ast.IncDecStmt:
		m.opIncDec(x)
	case *ast.TypeSwitchStmt:
		m.opTypeSwitch(x)
	case *ast.SwitchStmt:
		m.opSwitch(x)
	case *ast.BlockStmt:
		m.opBlock(x)
	}
	if e, ok := n.(ast.Expr); ok {
		m.opExpected(e)
	}
}
