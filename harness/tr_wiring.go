package main

import (
	"flag"
	"fmt"
	"go/ast"
	"go/parser"
	"go/token"
	"path/filepath"
	"sort"
	"strings"
)

// tr-wiring: extracts, from the post-order cases ifStmt0..3 and forStmt0..7 of interp/cfg.go, the
// control-flow edge assignments (X.start = ..., X.tnext = ..., setFNext(X, ...)) under each kind of
// condition (not a constant / constant true / constant false) and writes them as data into
// coq/gen/Wiring_gen.v. Core/Wiring.v proves that the wiring tables of the model Y (Cfg.wire_if,
// Cfg.wire_for) denote exactly these edge sets (theorem wiring_matches_source, by computation).

func init() {
	register("tr-wiring", "translator: if/for wiring of interp/cfg.go -> coq/gen/Wiring_gen.v", runTrWiring)
}

var wrRole = map[string]int{"n": 0, "init": 1, "cond": 2, "post": 3, "body": 4, "tbody": 4, "fbody": 5}

type wrEdge struct {
	src, field, dst int
	start           bool
}

// wrTarget decodes the right-hand side of an edge: role, role.start, or body.child[0] (the loop-variable node).
func wrTarget(e ast.Expr) (int, bool, bool) {
	switch x := e.(type) {
	case *ast.Ident:
		r, ok := wrRole[x.Name]
		return r, false, ok
	case *ast.SelectorExpr:
		if id, ok := x.X.(*ast.Ident); ok && x.Sel.Name == "start" {
			r, ok := wrRole[id.Name]
			return r, true, ok
		}
	case *ast.IndexExpr:
		// body.child[0]
		if sel, ok := x.X.(*ast.SelectorExpr); ok && sel.Sel.Name == "child" {
			if id, ok := sel.X.(*ast.Ident); ok && id.Name == "body" {
				return 6, false, true
			}
		}
	}
	return 0, false, false
}

func wrIsCall(e ast.Expr, recvPath string, name string) bool {
	c, ok := e.(*ast.CallExpr)
	if !ok {
		return false
	}
	sel, ok := c.Fun.(*ast.SelectorExpr)
	if !ok || sel.Sel.Name != name {
		return false
	}
	var b strings.Builder
	var pr func(e ast.Expr)
	pr = func(e ast.Expr) {
		switch x := e.(type) {
		case *ast.Ident:
			b.WriteString(x.Name)
		case *ast.SelectorExpr:
			pr(x.X)
			b.WriteString("." + x.Sel.Name)
		}
	}
	pr(sel.X)
	return b.String() == recvPath
}

// wrEval collects the edges assigned by the statements under condition kind k (1 true, 2 false, 3 dynamic, 0 none).
func wrEval(stmts []ast.Stmt, k int, out *[]wrEdge) {
	for _, s := range stmts {
		switch x := s.(type) {
		case *ast.AssignStmt:
			if len(x.Lhs) != 1 || len(x.Rhs) != 1 {
				continue
			}
			sel, ok := x.Lhs[0].(*ast.SelectorExpr)
			if !ok {
				continue
			}
			id, ok := sel.X.(*ast.Ident)
			if !ok {
				continue
			}
			src, ok := wrRole[id.Name]
			if !ok {
				continue
			}
			field := -1
			switch sel.Sel.Name {
			case "start":
				field = 0
			case "tnext":
				field = 1
			case "fnext":
				field = 2
			}
			if field < 0 {
				continue
			}
			if dst, st, ok := wrTarget(x.Rhs[0]); ok {
				*out = append(*out, wrEdge{src, field, dst, st})
			}
		case *ast.ExprStmt:
			if c, ok := x.X.(*ast.CallExpr); ok {
				if id, ok := c.Fun.(*ast.Ident); ok && id.Name == "setFNext" && len(c.Args) == 2 {
					if sid, ok := c.Args[0].(*ast.Ident); ok {
						if src, ok := wrRole[sid.Name]; ok {
							if dst, st, ok := wrTarget(c.Args[1]); ok {
								*out = append(*out, wrEdge{src, 2, dst, st})
							}
						}
					}
				}
			}
		case *ast.IfStmt:
			switch {
			case wrIsCall(x.Cond, "cond.rval", "IsValid"):
				if k == 1 || k == 2 {
					wrEval(x.Body.List, k, out)
				} else if x.Else != nil {
					if eb, ok := x.Else.(*ast.BlockStmt); ok {
						wrEval(eb.List, k, out)
					}
				}
			case wrIsCall(x.Cond, "cond.rval", "Bool"):
				if k == 1 {
					wrEval(x.Body.List, k, out)
				} else if x.Else != nil {
					if eb, ok := x.Else.(*ast.BlockStmt); ok {
						wrEval(eb.List, k, out)
					}
				}
			default:
				// error checks (non-bool condition): no edges
			}
		}
	}
}

func runTrWiring(args []string) error {
	fs := flag.NewFlagSet("tr-wiring", flag.ExitOnError)
	repo := fs.String("repo", "/repo", "repository")
	out := fs.String("out", "/verif/coq/gen", "output directory")
	fs.Parse(args)
	fset := token.NewFileSet()
	f, err := parser.ParseFile(fset, filepath.Join(*repo, "interp", "cfg.go"), nil, 0)
	if err != nil {
		return err
	}
	clauses := map[string]*ast.CaseClause{}
	ast.Inspect(f, func(n ast.Node) bool {
		cc, ok := n.(*ast.CaseClause)
		if !ok || len(cc.List) != 1 {
			return true
		}
		if id, ok := cc.List[0].(*ast.Ident); ok && (strings.HasPrefix(id.Name, "ifStmt") || strings.HasPrefix(id.Name, "forStmt")) {
			if _, dup := clauses[id.Name]; dup {
				clauses[id.Name+"#dup"] = cc
			} else {
				clauses[id.Name] = cc
			}
		}
		return true
	})
	hasCond := map[string]bool{"ifStmt0": true, "ifStmt1": true, "ifStmt2": true, "ifStmt3": true,
		"forStmt2": true, "forStmt3": true, "forStmt5": true, "forStmt7": true}
	render := func(prefix string, count int) (string, error) {
		var rows []string
		for i := 0; i < count; i++ {
			name := fmt.Sprintf("%s%d", prefix, i)
			cc, ok := clauses[name]
			if !ok {
				return "", fmt.Errorf("case %s not found in cfg.go", name)
			}
			if _, dup := clauses[name+"#dup"]; dup {
				return "", fmt.Errorf("case %s found twice in cfg.go", name)
			}
			kinds := []int{0}
			if hasCond[name] {
				kinds = []int{1, 2, 3}
			}
			for _, k := range kinds {
				var es []wrEdge
				wrEval(cc.Body, k, &es)
				// the last assignment to a field wins; order by (src, field)
				last := map[[2]int]wrEdge{}
				for _, e := range es {
					last[[2]int{e.src, e.field}] = e
				}
				var keys [][2]int
				for kk := range last {
					keys = append(keys, kk)
				}
				sort.Slice(keys, func(a, b int) bool {
					if keys[a][0] != keys[b][0] {
						return keys[a][0] < keys[b][0]
					}
					return keys[a][1] < keys[b][1]
				})
				var it []string
				for _, kk := range keys {
					e := last[kk]
					it = append(it, fmt.Sprintf("(%d, %d, %d, %s)", e.src, e.field, e.dst, coqBool(e.start)))
				}
				rows = append(rows, fmt.Sprintf("  (%d, %d, [%s])", i, k, strings.Join(it, "; ")))
			}
		}
		return strings.Join(rows, ";\n"), nil
	}
	ifRows, err := render("ifStmt", 4)
	if err != nil {
		return err
	}
	forRows, err := render("forStmt", 8)
	if err != nil {
		return err
	}
	var b strings.Builder
	b.WriteString("(* generated by vh tr-wiring from interp/cfg.go: do not edit.\n")
	b.WriteString("   rows: (form number, condition kind: 0 none / 1 constant true / 2 constant false / 3 not constant,\n")
	b.WriteString("          edges (source role, field: 0 start / 1 tnext / 2 fnext, target role, target is .start))\n")
	b.WriteString("   roles: 0 n, 1 init, 2 cond, 3 post, 4 body or tbody, 5 fbody, 6 body.child[0] (loop variable) *)\n")
	b.WriteString("From Coq Require Import List Bool.\nImport ListNotations.\nOpen Scope nat_scope.\n\n")
	b.WriteString("Definition wedge := (nat * nat * nat * bool)%type.\n\n")
	b.WriteString("Definition if_wiring_src : list (nat * nat * list wedge) := [\n" + ifRows + "\n].\n\n")
	b.WriteString("Definition for_wiring_src : list (nat * nat * list wedge) := [\n" + forRows + "\n].\n")
	return writeIfChanged(filepath.Join(*out, "Wiring_gen.v"), []byte(b.String()))
}
