package main

import (
	"flag"
	"fmt"
	"go/ast"
	"go/parser"
	"go/token"
	"go/types"
	"path/filepath"
	"sort"
	"strings"
)

// tr-wiring: extracts, from the post-order cases ifStmt0..3, forStmt0..7, switchStmt and switchIfStmt of interp/cfg.go, the
// control-flow edge assignments (X.start = ..., X.tnext = ..., setFNext(X, ...)) under each kind of
// condition (not a constant / constant true / constant false) and writes them as data into
// coq/gen/Wiring_gen.v. Core/Wiring.v proves that the wiring tables of the model Y (Cfg.wire_if,
// Cfg.wire_for) denote exactly these edge sets (theorem wiring_matches_source, by computation).

func init() {
	register("tr-wiring", "translator: if/for wiring of interp/cfg.go -> coq/gen/Wiring_gen.v", runTrWiring)
}

var wrRole = map[string]int{"n": 0, "init": 1, "cond": 2, "post": 3, "body": 4, "tbody": 4, "fbody": 5}

type wrEdge struct {
	src, field, dst int
	start           bool
}

// wrTarget decodes the right-hand side of an edge: role, role.start, or body.child[0] (the loop-variable node).
func wrTarget(e ast.Expr) (int, bool, bool) {
	switch x := e.(type) {
	case *ast.Ident:
		r, ok := wrRole[x.Name]
		return r, false, ok
	case *ast.SelectorExpr:
		if id, ok := x.X.(*ast.Ident); ok && x.Sel.Name == "start" {
			r, ok := wrRole[id.Name]
			return r, true, ok
		}
	case *ast.IndexExpr:
		// body.child[0]
		if sel, ok := x.X.(*ast.SelectorExpr); ok && sel.Sel.Name == "child" {
			if id, ok := sel.X.(*ast.Ident); ok && id.Name == "body" {
				return 6, false, true
			}
		}
	}
	return 0, false, false
}

func wrIsCall(e ast.Expr, recvPath string, name string) bool {
	c, ok := e.(*ast.CallExpr)
	if !ok {
		return false
	}
	sel, ok := c.Fun.(*ast.SelectorExpr)
	if !ok || sel.Sel.Name != name {
		return false
	}
	var b strings.Builder
	var pr func(e ast.Expr)
	pr = func(e ast.Expr) {
		switch x := e.(type) {
		case *ast.Ident:
			b.WriteString(x.Name)
		case *ast.SelectorExpr:
			pr(x.X)
			b.WriteString("." + x.Sel.Name)
		}
	}
	pr(sel.X)
	return b.String() == recvPath
}

// wrEval collects the edges assigned by the statements under condition kind k (1 true, 2 false, 3 dynamic, 0 none).
func wrEval(stmts []ast.Stmt, k int, out *[]wrEdge) {
	for _, s := range stmts {
		switch x := s.(type) {
		case *ast.AssignStmt:
			if len(x.Lhs) != 1 || len(x.Rhs) != 1 {
				continue
			}
			sel, ok := x.Lhs[0].(*ast.SelectorExpr)
			if !ok {
				continue
			}
			id, ok := sel.X.(*ast.Ident)
			if !ok {
				continue
			}
			src, ok := wrRole[id.Name]
			if !ok {
				continue
			}
			field := -1
			switch sel.Sel.Name {
			case "start":
				field = 0
			case "tnext":
				field = 1
			case "fnext":
				field = 2
			}
			if field < 0 {
				continue
			}
			if dst, st, ok := wrTarget(x.Rhs[0]); ok {
				*out = append(*out, wrEdge{src, field, dst, st})
			}
		case *ast.ExprStmt:
			if c, ok := x.X.(*ast.CallExpr); ok {
				if id, ok := c.Fun.(*ast.Ident); ok && id.Name == "setFNext" && len(c.Args) == 2 {
					if sid, ok := c.Args[0].(*ast.Ident); ok {
						if src, ok := wrRole[sid.Name]; ok {
							if dst, st, ok := wrTarget(c.Args[1]); ok {
								*out = append(*out, wrEdge{src, 2, dst, st})
							}
						}
					}
				}
			}
		case *ast.IfStmt:
			switch {
			case wrIsCall(x.Cond, "cond.rval", "IsValid"):
				if k == 1 || k == 2 {
					wrEval(x.Body.List, k, out)
				} else if x.Else != nil {
					if eb, ok := x.Else.(*ast.BlockStmt); ok {
						wrEval(eb.List, k, out)
					}
				}
			case wrIsCall(x.Cond, "cond.rval", "Bool"):
				if k == 1 {
					wrEval(x.Body.List, k, out)
				} else if x.Else != nil {
					if eb, ok := x.Else.(*ast.BlockStmt); ok {
						wrEval(eb.List, k, out)
					}
				}
			default:
				// error checks (non-bool condition): no edges
			}
		}
	}
}

// ---------------------------------------------------------------- switch clauses

// The clause loops of switchStmt / switchIfStmt ("for i := l - 1; i >= 0; i--") are evaluated symbolically
// under every assignment of their guards; sources, fields and targets are recognised by their source text.
var swGuards = map[string]string{
	"len(c.child) == 0": "empty",
	"i == l-1":          "last",
	"i < l-1 && len(body.child) > 0 && body.lastChild().kind == fallthroughtStmt": "ft",
	"len(clauses[i+1].child) == 0":                                                "nempty",
	"len(clauses[i+1].child) > 1":                                                 "nmulti",
	"len(c.child) > 1":                                                            "hascond",
	"n.kind == typeSwitch":                                                        "false",
}

// sources: 0 c, 1 c.child[0] / cond, 2 body, 3 sbn, 4 n, 5 n.child[0]
var swSrc = map[string]int{"c": 0, "clauses[i]": 0, "c.child[0]": 1, "cond": 1, "body": 2, "sbn": 3, "n": 4, "n.child[0]": 5}

// targets: 1 n, 2 c, 3 body.start, 4 c.child[0].start / cond.start, 5 clauses[i+1].lastChild().start,
// 6 clauses[i+1].start, 7 clauses[i+1], 8 clauses[0].start, 9 n.child[0].start, 10 sbn.start
var swDst = map[string]int{"n": 1, "c": 2, "body.start": 3, "c.child[0].start": 4, "cond.start": 4,
	"clauses[i+1].lastChild().start": 5, "clauses[i+1].start": 6, "clauses[i+1]": 7,
	"clauses[0].start": 8, "n.child[0].start": 9, "sbn.start": 10}

type swEdge struct{ src, field, dst int }

func swStr(e ast.Expr) string { return strings.ReplaceAll(types.ExprString(e), " ", "") }

func swNoSpace[T any](m map[string]T) map[string]T {
	out := map[string]T{}
	for k, v := range m {
		out[strings.ReplaceAll(k, " ", "")] = v
	}
	return out
}

func init() {
	swGuards, swSrc, swDst = swNoSpace(swGuards), swNoSpace(swSrc), swNoSpace(swDst)
}

// swEval returns false when a "continue" ended the iteration.
func swEval(stmts []ast.Stmt, env map[string]bool, out *[]swEdge) (bool, error) {
	for _, st := range stmts {
		switch x := st.(type) {
		case *ast.AssignStmt:
			if len(x.Lhs) != 1 || len(x.Rhs) != 1 || x.Tok != token.ASSIGN {
				continue // local definitions (body := ..., cond := ...)
			}
			sel, ok := x.Lhs[0].(*ast.SelectorExpr)
			if !ok {
				continue
			}
			field := map[string]int{"start": 0, "tnext": 1, "fnext": 2}
			f, ok := field[sel.Sel.Name]
			if !ok {
				continue // c.gen = nop, err = ...
			}
			src, ok := swSrc[swStr(sel.X)]
			if !ok {
				return false, fmt.Errorf("switch wiring: unknown edge source %s", swStr(x.Lhs[0]))
			}
			dst, ok := swDst[swStr(x.Rhs[0])]
			if !ok {
				return false, fmt.Errorf("switch wiring: unknown edge target %s", swStr(x.Rhs[0]))
			}
			*out = append(*out, swEdge{src, f, dst})
		case *ast.ExprStmt:
			c, ok := x.X.(*ast.CallExpr)
			if !ok {
				continue
			}
			if id, ok := c.Fun.(*ast.Ident); ok && id.Name == "setFNext" && len(c.Args) == 2 {
				src, ok1 := swSrc[swStr(c.Args[0])]
				dst, ok2 := swDst[swStr(c.Args[1])]
				if !ok1 || !ok2 {
					return false, fmt.Errorf("switch wiring: unknown setFNext(%s, %s)", swStr(c.Args[0]), swStr(c.Args[1]))
				}
				*out = append(*out, swEdge{src, 2, dst})
			}
		case *ast.BranchStmt:
			if x.Tok == token.CONTINUE {
				return false, nil
			}
		case *ast.IfStmt:
			g, ok := swGuards[swStr(x.Cond)]
			if !ok {
				return false, fmt.Errorf("switch wiring: unknown guard %s", swStr(x.Cond))
			}
			v := g != "false" && env[g]
			var branch []ast.Stmt
			if v {
				branch = x.Body.List
			} else if eb, ok := x.Else.(*ast.BlockStmt); ok {
				branch = eb.List
			} else if ei, ok := x.Else.(*ast.IfStmt); ok {
				branch = []ast.Stmt{ei}
			}
			cont, err := swEval(branch, env, out)
			if err != nil || !cont {
				return cont, err
			}
		}
	}
	return true, nil
}

func swRender(es []swEdge) string {
	last := map[[2]int]swEdge{}
	for _, e := range es {
		last[[2]int{e.src, e.field}] = e
	}
	var keys [][2]int
	for k := range last {
		keys = append(keys, k)
	}
	sort.Slice(keys, func(a, b int) bool {
		if keys[a][0] != keys[b][0] {
			return keys[a][0] < keys[b][0]
		}
		return keys[a][1] < keys[b][1]
	})
	var it []string
	for _, k := range keys {
		e := last[k]
		it = append(it, fmt.Sprintf("(%d, %d, %d)", e.src, e.field, e.dst))
	}
	return "[" + strings.Join(it, "; ") + "]"
}

// swTable: the rows of one switch form: (guards, edges of one iteration of the clause loop), and the edges
// assigned after the loop.
func swTable(cc *ast.CaseClause, guards []string) (string, string, error) {
	var loop *ast.ForStmt
	var after []ast.Stmt
	for _, st := range cc.Body {
		if f, ok := st.(*ast.ForStmt); ok && loop == nil {
			loop = f
			continue
		}
		if loop != nil {
			after = append(after, st)
		}
	}
	if loop == nil {
		return "", "", fmt.Errorf("switch wiring: clause loop not found")
	}
	var rows []string
	n := len(guards)
	for m := 0; m < 1<<n; m++ {
		env := map[string]bool{}
		var bs []string
		for k, g := range guards {
			env[g] = (m>>(n-1-k))&1 == 1
			bs = append(bs, coqBool(env[g]))
		}
		if env["last"] && env["ft"] {
			continue // the fallthrough guard contains i < l-1
		}
		var es []swEdge
		if _, err := swEval(loop.Body.List, env, &es); err != nil {
			return "", "", err
		}
		rows = append(rows, "  (["+strings.Join(bs, "; ")+"], "+swRender(es)+")")
	}
	var es []swEdge
	if _, err := swEval(after, map[string]bool{}, &es); err != nil {
		return "", "", err
	}
	return strings.Join(rows, ";\n"), swRender(es), nil
}

func runTrWiring(args []string) error {
	fs := flag.NewFlagSet("tr-wiring", flag.ExitOnError)
	repo := fs.String("repo", "/repo", "repository")
	out := fs.String("out", "/verif/coq/gen", "output directory")
	fs.Parse(args)
	fset := token.NewFileSet()
	f, err := parser.ParseFile(fset, filepath.Join(*repo, "interp", "cfg.go"), nil, 0)
	if err != nil {
		return err
	}
	clauses := map[string]*ast.CaseClause{}
	ast.Inspect(f, func(n ast.Node) bool {
		cc, ok := n.(*ast.CaseClause)
		if !ok || len(cc.List) != 1 {
			return true
		}
		if id, ok := cc.List[0].(*ast.Ident); ok && (strings.HasPrefix(id.Name, "ifStmt") || strings.HasPrefix(id.Name, "forStmt") || id.Name == "switchStmt" || id.Name == "switchIfStmt") {
			if _, dup := clauses[id.Name]; dup {
				clauses[id.Name+"#dup"] = cc
			} else {
				clauses[id.Name] = cc
			}
		}
		return true
	})
	hasCond := map[string]bool{"ifStmt0": true, "ifStmt1": true, "ifStmt2": true, "ifStmt3": true,
		"forStmt2": true, "forStmt3": true, "forStmt5": true, "forStmt7": true}
	render := func(prefix string, count int) (string, error) {
		var rows []string
		for i := 0; i < count; i++ {
			name := fmt.Sprintf("%s%d", prefix, i)
			cc, ok := clauses[name]
			if !ok {
				return "", fmt.Errorf("case %s not found in cfg.go", name)
			}
			if _, dup := clauses[name+"#dup"]; dup {
				return "", fmt.Errorf("case %s found twice in cfg.go", name)
			}
			kinds := []int{0}
			if hasCond[name] {
				kinds = []int{1, 2, 3}
			}
			for _, k := range kinds {
				var es []wrEdge
				wrEval(cc.Body, k, &es)
				// the last assignment to a field wins; order by (src, field)
				last := map[[2]int]wrEdge{}
				for _, e := range es {
					last[[2]int{e.src, e.field}] = e
				}
				var keys [][2]int
				for kk := range last {
					keys = append(keys, kk)
				}
				sort.Slice(keys, func(a, b int) bool {
					if keys[a][0] != keys[b][0] {
						return keys[a][0] < keys[b][0]
					}
					return keys[a][1] < keys[b][1]
				})
				var it []string
				for _, kk := range keys {
					e := last[kk]
					it = append(it, fmt.Sprintf("(%d, %d, %d, %s)", e.src, e.field, e.dst, coqBool(e.start)))
				}
				rows = append(rows, fmt.Sprintf("  (%d, %d, [%s])", i, k, strings.Join(it, "; ")))
			}
		}
		return strings.Join(rows, ";\n"), nil
	}
	ifRows, err := render("ifStmt", 4)
	if err != nil {
		return err
	}
	forRows, err := render("forStmt", 8)
	if err != nil {
		return err
	}
	var swRows, swAfter [2]string
	for k, name := range []string{"switchStmt", "switchIfStmt"} {
		cc, ok := clauses[name]
		if !ok {
			return fmt.Errorf("case %s not found in cfg.go", name)
		}
		if _, dup := clauses[name+"#dup"]; dup {
			return fmt.Errorf("case %s found twice in cfg.go", name)
		}
		guards := []string{"empty", "last", "ft", "nempty", "nmulti"}
		if k == 1 {
			guards = []string{"empty", "hascond", "last", "ft"}
		}
		if swRows[k], swAfter[k], err = swTable(cc, guards); err != nil {
			return err
		}
	}
	var b strings.Builder
	b.WriteString("(* generated by vh tr-wiring from interp/cfg.go: do not edit.\n")
	b.WriteString("   rows: (form number, condition kind: 0 none / 1 constant true / 2 constant false / 3 not constant,\n")
	b.WriteString("          edges (source role, field: 0 start / 1 tnext / 2 fnext, target role, target is .start))\n")
	b.WriteString("   roles: 0 n, 1 init, 2 cond, 3 post, 4 body or tbody, 5 fbody, 6 body.child[0] (loop variable) *)\n")
	b.WriteString("From Coq Require Import List Bool.\nImport ListNotations.\nOpen Scope nat_scope.\n\n")
	b.WriteString("Definition wedge := (nat * nat * nat * bool)%type.\n\n")
	b.WriteString("Definition if_wiring_src : list (nat * nat * list wedge) := [\n" + ifRows + "\n].\n\n")
	b.WriteString("Definition for_wiring_src : list (nat * nat * list wedge) := [\n" + forRows + "\n].\n\n")
	b.WriteString("(* clause loops of switchStmt (guards empty, last, ft, nempty, nmulti) and switchIfStmt (guards empty, hascond,\n")
	b.WriteString("   last, ft): edges (source: 0 c, 1 c.child[0] or cond, 2 body, 3 sbn, 4 n, 5 n.child[0]; field; target: 1 n, 2 c,\n")
	b.WriteString("   3 body.start, 4 c.child[0].start or cond.start, 5 clauses[i+1].lastChild().start, 6 clauses[i+1].start,\n")
	b.WriteString("   7 clauses[i+1], 8 clauses[0].start, 9 n.child[0].start, 10 sbn.start) *)\n")
	b.WriteString("Definition sedge := (nat * nat * nat)%type.\n\n")
	b.WriteString("Definition case_wiring_src : list (list bool * list sedge) := [\n" + swRows[0] + "\n].\n\n")
	b.WriteString("Definition case_after_src : list sedge := " + swAfter[0] + ".\n\n")
	b.WriteString("Definition caseif_wiring_src : list (list bool * list sedge) := [\n" + swRows[1] + "\n].\n\n")
	b.WriteString("Definition caseif_after_src : list sedge := " + swAfter[1] + ".\n")
	return writeIfChanged(filepath.Join(*out, "Wiring_gen.v"), []byte(b.String()))
}
