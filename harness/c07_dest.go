package main

import (
	"errors"
	"fmt"
	"reflect"
	"strings"
)

// C07 — stream D: WHERE the script stores the result of a host function call. interp/cfg.go removes
// the assign node of `x = hostcall()` and redirects the result slot of the call to the destination
// (findex and level of the destination), so every kind of destination is a path of its own in callBin.
// Matrix: destination kind x statement form x result type x context (the statement runs in a function
// literal / in a named function). Every function level declares neighbouring locals (an int, a string,
// a variable of the result type) that are printed after the statement: a result written to the wrong
// frame slot shows as a changed neighbour, a lost result as an unchanged destination.
// Oracle: the host function returns a value derived from its argument K; the script renders the
// destination, its neighbours and the other destinations; the expected text is computed natively.

type C07N int // named host type that is not a struct

type c07D struct {
	Ctx  string // literal | named
	Dest string // see c07dDests
	Form string // see c07dForms
	RT   string // see c07dTypes
	K    int
}

var c07dDests = []string{"local", "pkg", "cap1", "cap2", "param", "result", "field", "elem", "map", "deref", "blank"}
var c07dForms = []string{"assign", "define", "var", "tuple", "opassign", "return", "arg", "arghost", "defer", "go"}
var c07dRTs = []string{"int", "string", "struct", "slice", "func", "error", "named"}

type c07dT struct {
	typ, init, show string
	zero            string             // rendering of the zero value
	val             func(k int) string // rendering of the value the host function returns for k
	plus            func(k int) string // rendering of init += value ("" = the type has no +=)
}

var c07dTypes = map[string]c07dT{
	"int": {typ: "int", init: "5", show: "\treturn strconv.Itoa(x)", zero: "0",
		val: func(k int) string { return fmt.Sprint(3*k + 1) }, plus: func(k int) string { return fmt.Sprint(5 + 3*k + 1) }},
	"string": {typ: "string", init: `"i"`, show: "\treturn x", zero: "",
		val: func(k int) string { return fmt.Sprint("s", k) }, plus: func(k int) string { return fmt.Sprint("is", k) }},
	"struct": {typ: "host.P", init: `host.P{X: 5, Y: "i"}`, show: "\treturn strconv.Itoa(x.X) + \"/\" + x.Y", zero: "0/",
		val: func(k int) string { return fmt.Sprint(k, "/y", k) }},
	"slice": {typ: "[]int", init: "[]int{5}", show: "\tif x == nil {\n\t\treturn \"nil\"\n\t}\n\ts := \"\"\n\tfor _, e := range x {\n\t\ts += strconv.Itoa(e) + \",\"\n\t}\n\treturn s", zero: "nil",
		val: func(k int) string { return fmt.Sprint(k, ",", k+1, ",") }},
	"func": {typ: "func(int) int", init: "nil", show: "\tif x == nil {\n\t\treturn \"nil\"\n\t}\n\treturn strconv.Itoa(x(1000))", zero: "nil",
		val: func(k int) string { return fmt.Sprint(1000 + k) }},
	"error": {typ: "error", init: "nil", show: "\tif x == nil {\n\t\treturn \"nil\"\n\t}\n\treturn x.Error()", zero: "nil",
		val: func(k int) string { return fmt.Sprint("e", k) }},
	"named": {typ: "host.N", init: "host.N(5)", show: "\treturn strconv.Itoa(int(x))", zero: "0",
		val: func(k int) string { return fmt.Sprint(k + 2) }, plus: func(k int) string { return fmt.Sprint(5 + k + 2) }},
}

func c07dTwo[T any](f func(int) T) func(int) (T, int) {
	return func(k int) (T, int) { return f(k), k + 7 }
}
func c07dId[T any](v T) T { return v }

func c07dHost(rt string) map[string]reflect.Value {
	m := map[string]reflect.Value{"N": reflect.ValueOf((*C07N)(nil))}
	put := func(d, d2, id any) {
		m["D"], m["D2"], m["Id"] = reflect.ValueOf(d), reflect.ValueOf(d2), reflect.ValueOf(id)
	}
	switch rt {
	case "int":
		f := func(k int) int { return 3*k + 1 }
		put(f, c07dTwo(f), c07dId[int])
	case "string":
		f := func(k int) string { return fmt.Sprint("s", k) }
		put(f, c07dTwo(f), c07dId[string])
	case "struct":
		f := func(k int) C07P { return C07P{X: k, Y: fmt.Sprint("y", k)} }
		put(f, c07dTwo(f), c07dId[C07P])
	case "slice":
		f := func(k int) []int { return []int{k, k + 1} }
		put(f, c07dTwo(f), c07dId[[]int])
	case "func":
		f := func(k int) func(int) int { return func(x int) int { return x + k } }
		put(f, c07dTwo(f), c07dId[func(int) int])
	case "error":
		f := func(k int) error { return errors.New(fmt.Sprint("e", k)) }
		put(f, c07dTwo(f), c07dId[error])
	case "named":
		f := func(k int) C07N { return C07N(k + 2) }
		put(f, c07dTwo(f), c07dId[C07N])
	}
	return m
}

func (d *c07D) key() string { return d.Ctx + "|" + d.Dest + "|" + d.Form + "|" + d.RT }

// valid: the cells of the matrix that are Go programs.
func (d *c07D) valid() bool {
	t := c07dTypes[d.RT]
	switch d.Form {
	case "define":
		return d.Dest == "local"
	case "var":
		return d.Dest == "local" || d.Dest == "pkg" || d.Dest == "blank"
	case "opassign":
		return t.plus != nil && d.Dest != "blank"
	}
	return true
}

func (d *c07D) nest() int {
	switch d.Dest {
	case "cap1":
		return 1
	case "cap2":
		return 2
	}
	return 0
}

func (d *c07D) destExpr() string {
	return map[string]string{"local": "d", "pkg": "gd", "cap1": "d", "cap2": "d", "param": "p", "result": "r", "field": "st.F", "elem": "ar[1]",
		"map": `m["k"]`, "deref": "*pd", "blank": "_"}[d.Dest]
}

func (d *c07D) source() string {
	t := c07dTypes[d.RT]
	T := t.typ
	call := fmt.Sprintf("host.D(%d)", d.K)
	var b strings.Builder
	b.WriteString("package main\n\nimport (\n\t\"host/host\"\n\t\"strconv\"\n)\n\nvar _ = strconv.Itoa\nvar _ host.P\n\n")
	b.WriteString("func sh(x " + T + ") string {\n" + t.show + "\n}\n")
	b.WriteString("func nb(tag string, i int, s string, x " + T + ") string { return tag + strconv.Itoa(i) + s + \",\" + sh(x) + \";\" }\n")
	b.WriteString("func idT(v " + T + ") " + T + " { return v }\n")
	if d.Dest == "pkg" && d.Form == "var" {
		b.WriteString("var gd " + T + " = " + call + "\n")
	} else {
		b.WriteString("var gd " + T + "\n")
	}
	if d.Form == "return" && d.Ctx == "named" {
		b.WriteString("func retN() " + T + " {\n\tq := 3\n\t_ = q\n\treturn " + call + "\n}\n")
	}
	var body strings.Builder
	nest := d.nest()
	var level func(l int)
	level = func(l int) {
		in := strings.Repeat("\t", l+1)
		w := func(f string, a ...any) { body.WriteString(in + fmt.Sprintf(f, a...) + "\n") }
		w("i%d, s%d := %d, \"a%d\"", l, l, 10+l, l)
		w("var z%d %s", l, T)
		if l == 0 && nest > 0 {
			w("var d %s", T)
			w("d = %s", t.init)
		}
		if l < nest {
			w("func() {")
			level(l + 1)
			w("}()")
		} else {
			d.statement(w, call)
		}
		w("out += nb(\"L%d\", i%d, s%d, z%d)", l, l, l, l)
		if l == 0 && nest > 0 {
			w("out += \"D=\" + sh(d) + \";\"")
		}
	}
	level(0)
	sig := "(p " + T + ") (r " + T + ", out string)"
	if d.Ctx == "named" {
		b.WriteString("func execN" + sig + " {\n" + body.String() + "\treturn\n}\n")
		b.WriteString("func Run() string {\n\tr, o := execN(" + t.init + ")\n")
	} else {
		b.WriteString("func Run() string {\n\texec := func" + sig + " {\n" + strings.ReplaceAll(body.String(), "\n\t", "\n\t\t") + "\t\treturn\n\t}\n\tr, o := exec(" + t.init + ")\n")
	}
	b.WriteString("\treturn o + \"|r=\" + sh(r) + \"|g=\" + sh(gd)\n}\n")
	src := b.String()
	if d.Ctx == "literal" {
		src = strings.Replace(src, "{\n\ti0, s0", "{\n\t\ti0, s0", 1)
	}
	return src
}

// statement writes the declarations of the destination, the statement, and the rendering of the destination.
func (d *c07D) statement(w func(f string, a ...any), call string) {
	t := c07dTypes[d.RT]
	T := t.typ
	dst := d.destExpr()
	declared := d.Form == "define" || d.Form == "var"
	switch d.Dest {
	case "local":
		if !declared {
			w("var d %s", T)
			w("d = %s", t.init)
		}
	case "pkg":
		if !declared {
			w("gd = %s", t.init)
		}
	case "result":
		w("r = %s", t.init)
	case "field":
		w("var st struct {\n\t\tA int\n\t\tF %s\n\t\tB string\n\t}", T)
		w("st.A, st.B = 7, \"sb\"")
		w("st.F = %s", t.init)
	case "elem":
		w("ar := make([]%s, 3)", T)
		w("ar[1] = %s", t.init)
	case "map":
		w("m := map[string]%s{}", T)
		w("m[\"k\"] = %s", t.init)
	case "deref":
		w("var d %s", T)
		w("d = %s", t.init)
		w("pd := &d")
	}
	switch d.Form {
	case "assign":
		w("%s = %s", dst, call)
	case "define":
		w("d := %s", call)
	case "var":
		if d.Dest != "pkg" {
			w("var %s %s = %s", dst, T, call)
		}
	case "tuple":
		w("var e int")
		w("%s, e = host.D2(%d)", dst, d.K)
	case "opassign":
		w("%s += %s", dst, call)
	case "return":
		if d.Ctx == "named" {
			w("%s = retN()", dst)
		} else {
			w("rf := func() %s {\n\t\tq := 3\n\t\t_ = q\n\t\treturn %s\n\t}", T, call)
			w("%s = rf()", dst)
		}
	case "arg":
		w("%s = idT(%s)", dst, call)
	case "arghost":
		w("%s = host.Id(%s)", dst, call)
	case "defer":
		w("func() {\n\t\tdefer func(v %s) { %s = v }(%s)\n\t}()", T, dst, call)
	case "go":
		w("ch := make(chan int)")
		w("go func(v %s) {\n\t\t%s = v\n\t\tch <- 1\n\t}(%s)", T, dst, call)
		w("<-ch")
	}
	if d.Dest != "blank" {
		w("out += \"d=\" + sh(%s) + \";\"", dst)
	}
	switch d.Dest {
	case "field":
		w("out += strconv.Itoa(st.A) + st.B + \";\"")
	case "elem":
		w("out += sh(ar[0]) + \",\" + sh(ar[2]) + \";\"")
	case "map":
		w("out += strconv.Itoa(len(m)) + \";\"")
	case "deref":
		w("out += sh(d) + \";\"")
	}
	if d.Form == "tuple" {
		w("out += \"e=\" + strconv.Itoa(e) + \";\"")
	}
}

func (d *c07D) expected() string {
	t := c07dTypes[d.RT]
	v := t.val(d.K)
	if d.Form == "opassign" {
		v = t.plus(d.K)
	}
	out := ""
	if d.Dest != "blank" {
		out += "d=" + v + ";"
	}
	switch d.Dest {
	case "field":
		out += "7sb;"
	case "elem":
		out += t.zero + "," + t.zero + ";"
	case "map":
		out += "1;"
	case "deref":
		out += v + ";"
	}
	if d.Form == "tuple" {
		out += fmt.Sprint("e=", d.K+7, ";")
	}
	for l := d.nest(); l >= 0; l-- {
		out += fmt.Sprintf("L%d%da%d,%s;", l, 10+l, l, t.zero)
	}
	if d.nest() > 0 {
		out += "D=" + v + ";"
	}
	r, g := t.zero, t.zero
	if d.Dest == "result" {
		r = v
	}
	if d.Dest == "pkg" {
		g = v
	}
	return out + "|r=" + r + "|g=" + g
}

// allD: every valid cell of context x destination x form x result type, with a seeded argument.
func (h *c07h) allD(r *rng) []*c07D {
	var all []*c07D
	for _, ctx := range []string{"literal", "named"} {
		for _, dest := range c07dDests {
			for _, form := range c07dForms {
				for _, rt := range c07dRTs {
					d := &c07D{Ctx: ctx, Dest: dest, Form: form, RT: rt, K: 1 + r.intn(400)}
					if d.valid() {
						all = append(all, d)
					}
				}
			}
		}
	}
	return all
}

func (h *c07h) runD(j *c07job, d *c07D) {
	run := c07new(c07dHost(d.RT))
	src := d.source()
	run.eval(src, h.timeout)
	got := run.evalString("Run()", h.timeout)
	exp := d.expected()
	j.evals++
	j.refs++
	j.tick("D:" + d.Dest + ":" + d.Form)
	j.dist = append(j.dist, "D|"+d.key()+fmt.Sprint(d.K))
	if run.failed != "" || got != exp {
		j.other = append(j.other, refMismatch{Region: d.region(), Input: map[string]any{"stream": "host-result-destination", "context": d.Ctx, "destination": d.Dest, "form": d.Form,
			"result-type": d.RT, "k": d.K, "script": src},
			Impl: map[string]any{"seen": got, "failed": run.failed}, Ref: exp,
			Note: "d=destination;extras of the destination;e=second result;L<n>=neighbouring locals of function level n (int, string, zero of the result type);D=captured variable seen by its owner|r=named result|g=package variable"})
	}
}

// region: the cells where yaegi deviates on the unchanged tree (decidable in the cell's coordinates).
//   - hostresult-func-slot-replaced: callBin stores a func-typed result by REPLACING the frame slot
//     (data[findex+i] = r) instead of setting the value in it; when cfg.go redirected the call to a
//     destination whose slot is shared (captured variable) or is a temporary holding an element /
//     pointee, the destination never receives the function.
//   - hostresult-map-entry-tuple: m[k], e = host.F(): the map entry is not written.
func (d *c07D) region() string {
	switch {
	case d.RT == "func" && (d.Form == "assign" || d.Form == "arghost") && (d.Dest == "cap1" || d.Dest == "cap2" || d.Dest == "elem" || d.Dest == "deref"):
		return "hostresult-func-slot-replaced"
	case d.Dest == "map" && d.Form == "tuple":
		return "hostresult-map-entry-tuple"
	}
	return ""
}

// enumD: exploration aid ("vh c07 -enumd"): every cell, only the deviating ones are printed.
func (h *c07h) enumD() {
	r := newRng(1)
	n := 0
	for _, d := range h.allD(r) {
		j := &c07job{}
		h.runD(j, d)
		n++
		for _, m := range j.other {
			im := m.Impl.(map[string]any)
			fmt.Println(d.key(), "=> seen", im["seen"], "failed", c07short(fmt.Sprint(im["failed"])), "want", m.Ref)
		}
	}
	fmt.Println("cells", n)
}
