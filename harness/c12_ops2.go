package main

import (
	"go/ast"
	"go/token"
	"go/types"
	"strings"
)

// operators 13, 14 (spread), 25, 27: calls, builtins, conversions
func (m *c12mctx) opCall(x *ast.CallExpr) {
	tvf, ok := m.ck.Info.Types[x.Fun]
	if !ok {
		return
	}
	lp, rp := m.off(x.Lparen), m.off(x.Rparen)
	argsText := m.src[lp+1 : rp]
	fun := m.text(x.Fun)
	// ---- 27 conversions
	if tvf.IsType() {
		if len(x.Args) != 1 {
			return
		}
		to := tvf.Type
		ct := c12class(to)
		switch ct {
		case "int", "Nint", "float", "Nfloat":
			m.replace("27-conv-string-to-"+ct+"/const", x.Args[0], "Greeting")
			m.replace("27-conv-string-to-"+ct+"/var", x.Args[0], "names[0]")
			m.replace("27-conv-struct-to-"+ct, x.Args[0], "origin")
			m.replace("27-conv-bool-to-"+ct, x.Args[0], "true")
			m.replace("27-conv-slice-to-"+ct, x.Args[0], "names")
		case "string", "Nstring":
			m.replace("27-conv-float-to-"+ct+"/const", x.Args[0], "1.5")
			m.replace("27-conv-float-to-"+ct+"/var", x.Args[0], "unit.W")
			m.replace("27-conv-struct-to-"+ct, x.Args[0], "origin")
			m.replace("27-conv-bool-to-"+ct, x.Args[0], "true")
		case "slice":
			if isStringT(m.typeOf(x.Args[0])) {
				m.replace("27-conv-string-to-intslice", x.Fun, "[]int")
				m.replace("27-conv-int-to-slice", x.Args[0], "total")
			}
		case "struct":
			m.replace("27-conv-struct-to-otherstruct", x.Args[0], `Pair{1, "b", 2.5}`)
			m.replace("27-conv-int-to-struct", x.Args[0], "total")
		case "iface":
			m.replace("19-conv-to-iface/struct-nomethods", x.Args[0], "origin")
			m.replace("19-conv-to-iface/ptrrecv-value", x.Args[0], "Circle{1}")
		}
		m.splice("27-conv-two-args", rp, rp, ", 1")
		m.splice("27-conv-no-args", lp+1, rp, "")
		return
	}
	// ---- 25 builtins
	if id, ok := x.Fun.(*ast.Ident); ok {
		if _, isB := m.ck.Info.Uses[id].(*types.Builtin); isB {
			m.opBuiltin(id.Name, x, lp, rp)
			return
		}
	}
	sig, ok := tvf.Type.Underlying().(*types.Signature)
	if !ok {
		return
	}
	kind := "src"
	if id := c12funIdent(x.Fun); id != nil {
		if o := m.ck.Info.Uses[id]; o != nil && o.Pkg() != nil && o.Pkg().Name() != "main" {
			kind = "bin"
		}
	}
	if s, ok := x.Fun.(*ast.SelectorExpr); ok && kind == "src" && m.ck.Info.Selections[s] != nil {
		kind = "method"
	}
	if _, ok := x.Fun.(*ast.FuncLit); ok {
		kind = "lit"
	}
	if id, ok := x.Fun.(*ast.Ident); ok {
		if _, isVar := m.ck.Info.Uses[id].(*types.Var); isVar {
			kind = "funcvar"
		}
	}
	if sig.Variadic() {
		kind += "-variadic"
	}
	multi := len(x.Args) == 1 && sig.Params().Len() > 1 && !sig.Variadic()
	if multi {
		kind += "-tuplearg"
	}
	// 13 too many / too few
	extra := `"zz"`
	if sig.Variadic() {
		if isStringT(sig.Params().At(sig.Params().Len() - 1).Type().(*types.Slice).Elem()) {
			extra = "12345"
		}
	} else {
		extra = "0"
	}
	if !x.Ellipsis.IsValid() {
		if len(x.Args) == 0 {
			m.splice("13-arg-too-many/"+kind, rp, rp, extra)
		} else {
			m.splice("13-arg-too-many/"+kind, rp, rp, ", "+extra)
		}
	}
	if len(x.Args) > 0 && !multi {
		last := x.Args[len(x.Args)-1]
		from := m.off(last.Pos())
		if len(x.Args) > 1 {
			from = m.off(x.Args[len(x.Args)-2].End())
		}
		m.splice("13-arg-too-few/"+kind, from, rp, "")
		if len(x.Args) > 1 {
			m.splice("13-arg-none/"+kind, lp+1, rp, "")
		}
	}
	// 14 spread
	if len(x.Args) > 0 && !x.Ellipsis.IsValid() && !multi {
		last := x.Args[len(x.Args)-1]
		tl := m.typeOf(last)
		m.splice("14-spread-"+c12class(tl)+"/"+kind, m.off(last.End()), m.off(last.End()), "...")
	}
	if x.Ellipsis.IsValid() {
		last := x.Args[len(x.Args)-1]
		m.replace("14-spread-nonslice/"+kind, last, "total")
		m.replace("14-spread-wrong-elem/"+kind, last, "[]bool{true}")
	}
	// 16-like: a call with a multi-valued argument of the wrong arity
	if multi {
		m.replace("13-tuplearg-arity/"+kind, x.Args[0], "triple()")
	}
	// calling a non-function
	if _, ok := x.Fun.(*ast.Ident); ok {
		m.replace("13-call-nonfunc/"+kind, x.Fun, "total")
	}
	// using a call without result as a value
	if sig.Results().Len() == 1 && sig.Params().Len() == 1 && c12isIntT(sig.Params().At(0).Type()) && kind == "src" {
		if _, ok := m.parent(1).(*ast.ExprStmt); !ok {
			m.replace("15-novalue-as-value", x, "noresult(1)")
		}
	}
	_ = argsText
	_ = fun
}

func (m *c12mctx) opBuiltin(name string, x *ast.CallExpr, lp, rp int) {
	arg := func(i int) ast.Expr {
		if i < len(x.Args) {
			return x.Args[i]
		}
		return nil
	}
	switch name {
	case "len", "cap":
		if a := arg(0); a != nil {
			m.replace("25-"+name+"-of-int", a, "total")
			m.replace("25-"+name+"-of-intlit", a, "5")
			m.replace("25-"+name+"-of-struct", a, "origin")
			m.replace("25-"+name+"-of-func", a, "single")
			if name == "cap" {
				m.replace("25-cap-of-map", a, "ages")
				m.replace("25-cap-of-string", a, "Greeting")
			}
			m.splice("25-"+name+"-two-args", rp, rp, ", 1")
			m.splice("25-"+name+"-no-args", lp+1, rp, "")
		}
	case "append":
		if a := arg(0); a != nil {
			m.replace("25-append-to-int", a, "total")
			m.replace("25-append-to-map", a, "ages")
			m.replace("25-append-to-array", a, "[2]int{1, 2}")
			st, _ := m.typeOf(a).Underlying().(*types.Slice)
			if st != nil && len(x.Args) > 1 {
				if repl, tag := c12wrongFor(st.Elem()); repl != "" {
					if x.Ellipsis.IsValid() {
						m.replace("25-append-spread-wrong", x.Args[1], "[]bool{true}")
						m.replace("25-append-spread-nonslice", x.Args[1], "total")
					} else {
						m.replace("25-append-wrong-elem/"+c12class(st.Elem())+"<-"+tag, x.Args[len(x.Args)-1], repl)
					}
				}
			}
			m.splice("25-append-no-args", lp+1, rp, "")
		}
	case "copy":
		if len(x.Args) == 2 {
			m.replace("25-copy-dst-int", x.Args[0], "total")
			m.replace("25-copy-src-int", x.Args[1], "total")
			m.replace("25-copy-mismatched", x.Args[1], "names")
			m.replace("25-copy-dst-string", x.Args[0], "Greeting")
			m.replace("25-copy-dst-array", x.Args[0], "[2]int{1, 2}")
			m.splice("25-copy-one-arg", m.off(x.Args[0].End()), rp, "")
			m.splice("25-copy-three-args", rp, rp, ", 1")
		}
	case "delete":
		if len(x.Args) == 2 {
			m.replace("25-delete-nonmap", x.Args[0], "names")
			m.replace("25-delete-int", x.Args[0], "total")
			m.replace("25-delete-wrong-key", x.Args[1], "5")
			m.replace("25-delete-wrong-key-var", x.Args[1], "total")
			m.splice("25-delete-one-arg", m.off(x.Args[0].End()), rp, "")
			m.splice("25-delete-three-args", rp, rp, ", 1")
		}
	case "make":
		if a := arg(0); a != nil {
			t := m.typeOf(a)
			if _, ok := t.Underlying().(*types.Slice); ok && len(x.Args) >= 2 {
				m.splice("25-make-slice-no-size", m.off(a.End()), rp, "")
				m.replace("25-make-size-string", x.Args[1], `"2"`)
				m.replace("25-make-size-float", x.Args[1], "2.5")
				m.replace("25-make-size-negative", x.Args[1], "-1")
				if len(x.Args) == 3 {
					m.replace("25-make-len-gt-cap", x.Args[1], "9")
					m.splice("25-make-four-args", rp, rp, ", 1")
				}
			}
			m.replace("25-make-struct", a, "Point")
			m.replace("25-make-int", a, "int")
			m.replace("25-make-array", a, "[2]int")
			m.replace("25-make-ptr", a, "*int")
			m.replace("25-make-value", a, "total")
			m.splice("25-make-no-args", lp+1, rp, "")
		}
	case "new":
		if a := arg(0); a != nil {
			m.replace("25-new-of-value", a, "total")
			m.replace("25-new-of-literal", a, "5")
			m.splice("25-new-two-args", rp, rp, ", 1")
			m.splice("25-new-no-args", lp+1, rp, "")
		}
	case "close":
		if a := arg(0); a != nil {
			m.replace("25-close-nonchan", a, "total")
			m.replace("25-close-slice", a, "names")
			if id, ok := a.(*ast.Ident); ok && strings.HasPrefix(id.Name, "so") {
				m.replace("26-close-recvonly", a, "ro"+id.Name[2:])
			}
			m.splice("25-close-two-args", rp, rp, ", 1")
			m.splice("25-close-no-args", lp+1, rp, "")
		}
	case "panic":
		m.splice("25-panic-two-args", rp, rp, ", 2")
		m.splice("25-panic-no-args", lp+1, rp, "")
	case "println", "print":
		if len(x.Args) > 0 {
			m.replace("25-println-novalue", x.Args[0], "noresult(1)")
			m.replace("25-println-type", x.Args[0], "int")
		}
	}
}

// operator 15: return statements
func (m *c12mctx) opReturn(x *ast.ReturnStmt) {
	sig := m.enclosingSig()
	if sig == nil {
		return
	}
	end := m.off(x.End())
	kind := "func"
	for i := len(m.stack) - 1; i >= 0; i-- {
		if _, ok := m.stack[i].(*ast.FuncLit); ok {
			kind = "lit"
			break
		}
		if fd, ok := m.stack[i].(*ast.FuncDecl); ok {
			if fd.Recv != nil {
				kind = "method"
			}
			break
		}
	}
	kind += "-" + string(rune('0'+sig.Results().Len()))
	if len(x.Results) == 0 {
		m.splice("15-return-too-many/"+kind, end, end, " 1")
		return
	}
	m.splice("15-return-too-many/"+kind, end, end, ", 0")
	last := x.Results[len(x.Results)-1]
	if len(x.Results) > 1 {
		m.splice("15-return-too-few/"+kind, m.off(x.Results[len(x.Results)-2].End()), end, "")
	}
	m.splice("15-return-none/"+kind, m.off(x.Return)+len("return"), end, "")
	if len(x.Results) == 1 && sig.Results().Len() == 1 {
		m.replace("15-return-tuple/"+kind, last, "divmod(7, 2)")
		m.replace("15-return-novalue/"+kind, last, "noresult(1)")
	}
}

// operators 9 (op-assign), 10, 16, 32: assignments
func (m *c12mctx) opAssign(x *ast.AssignStmt) {
	// 16: arity of a multi-valued right-hand side
	if len(x.Rhs) == 1 && len(x.Lhs) >= 2 {
		if call, ok := x.Rhs[0].(*ast.CallExpr); ok {
			tok := x.Tok.String()
			if len(x.Lhs) == 2 {
				m.replace("16-assign-arity/2"+tok+"1", call, "single()")
				m.replace("16-assign-arity/2"+tok+"3", call, "triple()")
				m.replace("16-assign-arity/2"+tok+"0", call, "noresult(1)")
			} else {
				m.replace("16-assign-arity/3"+tok+"2", call, "divmod(7, 2)")
				m.replace("16-assign-arity/3"+tok+"1", call, "single()")
			}
		} else {
			m.replace("16-assign-arity/n"+x.Tok.String()+"expr", x.Rhs[0], "1")
		}
	}
	if len(x.Rhs) == 1 && len(x.Lhs) == 1 {
		tok := x.Tok.String()
		if call, ok := x.Rhs[0].(*ast.CallExpr); ok && !m.ck.Info.Types[call.Fun].IsType() {
			m.replace("16-assign-arity/1"+tok+"2", call, "divmod(7, 2)")
			m.replace("16-assign-arity/1"+tok+"0", call, "noresult(1)")
		}
		// extra value on the right / extra variable on the left
		m.splice("16-assign-count/1"+tok+"2", m.off(x.Rhs[0].End()), m.off(x.Rhs[0].End()), ", 2")
		// 10: untyped nil
		if x.Tok == token.DEFINE {
			m.replace("10-define-nil", x.Rhs[0], "nil")
		}
		// 9: op-assignment with mismatched operand
		if x.Tok != token.ASSIGN && x.Tok != token.DEFINE {
			lt := m.typeOf(x.Lhs[0])
			if repl, tag := c12wrongFor(lt); repl != "" {
				m.replace("09-opassign/"+tok+"/"+c12class(lt)+"<-"+tag, x.Rhs[0], repl)
			}
			if c12isFloatT(lt) || isStringT(lt) {
				m.splice("03-opassign-intop/"+c12class(lt), m.off(x.TokPos), m.off(x.TokPos)+len(tok), "%=")
			}
		}
		// 32: assignment to a constant, to a call, to a literal
		if x.Tok != token.DEFINE {
			lt := m.typeOf(x.Lhs[0])
			if c12isIntT(lt) && !c12isUntypedT(lt) && c12class(lt) == "int" {
				m.replace("32-assign-to-const/"+tok, x.Lhs[0], "Limit")
				m.replace("32-assign-to-call/"+tok, x.Lhs[0], "single()")
				m.replace("32-assign-to-literal/"+tok, x.Lhs[0], "7")
			}
			if isStringT(lt) {
				m.replace("32-assign-to-const/"+tok+"/string", x.Lhs[0], "Greeting")
				m.replace("32-assign-to-string-index/"+tok, x.Lhs[0], m.text(x.Lhs[0])+"[0]")
			}
		}
		// redeclaration with := of an existing variable only
		if x.Tok == token.ASSIGN {
			if id, ok := x.Lhs[0].(*ast.Ident); ok && id.Name != "_" {
				if v, ok := m.ck.Info.Uses[id].(*types.Var); ok && v.Parent() != m.ck.Pkg.Scope() {
					// only if declared in the very same block: approximated by position in the same statement list
					if blk, ok := m.parent(1).(*ast.BlockStmt); ok && blk.Pos() < v.Pos() && v.Pos() < blk.End() && m.declaredDirectlyIn(blk, v) {
						m.splice("17-redeclare-no-new-var", m.off(x.TokPos), m.off(x.TokPos)+1, ":=")
					}
				}
			}
		}
	}
}

func (m *c12mctx) declaredDirectlyIn(blk *ast.BlockStmt, v *types.Var) bool {
	for _, st := range blk.List {
		switch s := st.(type) {
		case *ast.AssignStmt:
			if s.Tok == token.DEFINE {
				for _, l := range s.Lhs {
					if id, ok := l.(*ast.Ident); ok && m.ck.Info.Defs[id] == v {
						return true
					}
				}
			}
		case *ast.DeclStmt:
			if gd, ok := s.Decl.(*ast.GenDecl); ok {
				for _, sp := range gd.Specs {
					if vs, ok := sp.(*ast.ValueSpec); ok {
						for _, id := range vs.Names {
							if m.ck.Info.Defs[id] == v {
								return true
							}
						}
					}
				}
			}
		}
	}
	return false
}

// operators 10, 16 on declarations
func (m *c12mctx) opValueSpec(x *ast.ValueSpec) {
	if len(x.Values) == 1 && len(x.Names) == 1 {
		if x.Type == nil {
			m.replace("10-var-nil", x.Values[0], "nil")
		}
		m.splice("16-decl-count/1=2", m.off(x.Values[0].End()), m.off(x.Values[0].End()), ", 2")
		if call, ok := x.Values[0].(*ast.CallExpr); ok && !m.ck.Info.Types[call.Fun].IsType() {
			m.replace("16-decl-arity/1=2", call, "divmod(7, 2)")
		}
		if gd, ok := m.parent(1).(*ast.GenDecl); ok && gd.Tok == token.CONST {
			m.replace("32-const-nonconstant", x.Values[0], "single()")
			m.replace("32-const-var", x.Values[0], "total")
		}
	}
	if len(x.Names) == 2 && len(x.Values) == 0 && x.Type != nil {
		m.splice("16-decl-count/2=1", m.off(x.Type.End()), m.off(x.Type.End()), " = 1")
	}
}

// operator 18: undefined field or method
func (m *c12mctx) opSelector(x *ast.SelectorExpr) {
	sel := m.ck.Info.Selections[x]
	if sel == nil {
		if id, ok := x.X.(*ast.Ident); ok {
			if _, isPkg := m.ck.Info.Uses[id].(*types.PkgName); isPkg {
				m.replace("18-undefined-pkg-member", x.Sel, "NoSuchThing")
				m.replace("18-unexported-pkg-member", x.Sel, "lower")
			}
		}
		return
	}
	recv := c12class(sel.Recv())
	switch sel.Kind() {
	case types.FieldVal:
		m.replace("18-undefined-field/"+recv, x.Sel, "Nope")
	case types.MethodVal:
		m.replace("18-undefined-method/"+recv, x.Sel, "Nope")
		if _, isCall := m.parent(1).(*ast.CallExpr); isCall && recv == "iface" {
			m.replace("18-method-not-in-iface", x.Sel, "W")
		}
	}
	// method / field on a type that has none
	m.replace("18-selector-on-int", x.X, "total")
}

// operators 22-24: composite literals
func (m *c12mctx) opCompositeLit(x *ast.CompositeLit) {
	t := m.typeOf(x)
	if t == nil {
		return
	}
	lb, rb := m.off(x.Lbrace), m.off(x.Rbrace)
	elided := ""
	if x.Type == nil {
		elided = "-elided"
	}
	switch u := t.Underlying().(type) {
	case *types.Struct:
		if len(x.Elts) == 0 {
			m.splice("22-struct-too-few"+elided+"/one-of-many", lb+1, rb, "1")
			m.splice("22-struct-unknown-field"+elided, lb+1, rb, "Nope: 1")
			return
		}
		first := x.Elts[0]
		lastE := x.Elts[len(x.Elts)-1]
		if kv, ok := first.(*ast.KeyValueExpr); ok {
			m.replace("22-struct-unknown-field"+elided, kv.Key, "Nope")
			m.splice("22-struct-duplicate-field"+elided, m.off(lastE.End()), m.off(lastE.End()), ", "+m.text(first))
			if len(x.Elts) >= 2 {
				m.replace("22-struct-mixture"+elided+"/first", first, m.text(kv.Value))
				if kv2, ok := lastE.(*ast.KeyValueExpr); ok {
					m.replace("22-struct-mixture"+elided+"/last", lastE, m.text(kv2.Value))
				}
			}
			m.replace("22-struct-key-not-ident"+elided, kv.Key, "1")
		} else {
			m.splice("22-struct-too-many"+elided, m.off(lastE.End()), m.off(lastE.End()), ", 0")
			if len(x.Elts) >= 2 {
				m.splice("22-struct-too-few"+elided, m.off(x.Elts[len(x.Elts)-2].End()), m.off(lastE.End()), "")
				if u.NumFields() > 0 {
					m.replace("22-struct-mixture"+elided+"/positional-first", first, u.Field(0).Name()+": "+m.text(first))
				}
			}
		}
	case *types.Array, *types.Slice:
		kind := "slice"
		n := int64(-1)
		if a, ok := u.(*types.Array); ok {
			kind = "array"
			n = a.Len()
		}
		if len(x.Elts) == 0 {
			return
		}
		lastE := x.Elts[len(x.Elts)-1]
		val := func(e ast.Expr) string {
			if kv, ok := e.(*ast.KeyValueExpr); ok {
				return m.text(kv.Value)
			}
			return m.text(e)
		}
		m.splice("23-"+kind+"-duplicate-index"+elided, m.off(lastE.End()), m.off(lastE.End()), ", 0: "+val(lastE))
		m.splice("23-"+kind+"-negative-index"+elided, m.off(lastE.End()), m.off(lastE.End()), ", -1: "+val(lastE))
		m.splice("23-"+kind+"-nonconst-index"+elided, m.off(lastE.End()), m.off(lastE.End()), ", total: "+val(lastE))
		m.splice("23-"+kind+"-string-index"+elided, m.off(lastE.End()), m.off(lastE.End()), `, "k": `+val(lastE))
		if n >= 0 {
			if _, ell := x.Type.(*ast.ArrayType); ell {
				if _, isEll := x.Type.(*ast.ArrayType).Len.(*ast.Ellipsis); isEll {
					return
				}
			}
			m.splice("23-array-index-out-of-bounds"+elided+"/key", m.off(lastE.End()), m.off(lastE.End()), ", "+itoa(int(n))+": "+val(lastE))
			// enough extra elements to overflow
			extra := ""
			for i := int64(0); i <= n; i++ {
				extra += ", " + val(lastE)
			}
			m.splice("23-array-index-out-of-bounds"+elided+"/count", m.off(lastE.End()), m.off(lastE.End()), extra)
		}
	case *types.Map:
		if len(x.Elts) == 0 {
			return
		}
		first := x.Elts[0]
		lastE := x.Elts[len(x.Elts)-1]
		if kv, ok := first.(*ast.KeyValueExpr); ok {
			m.replace("24-map-missing-key"+elided, first, m.text(kv.Value))
			if m.isConst(kv.Key) {
				m.splice("24-map-duplicate-key"+elided+"/"+c12class(m.typeOf(kv.Key)), m.off(lastE.End()), m.off(lastE.End()), ", "+m.text(first))
			}
		}
	}
	// literal of a non-composite type
	if x.Type != nil {
		m.replace("22-literal-of-int", x.Type, "int")
		m.replace("22-literal-of-undefined", x.Type, "NoSuchType")
	}
}

func itoa(n int) string {
	if n == 0 {
		return "0"
	}
	s := ""
	neg := n < 0
	if neg {
		n = -n
	}
	for n > 0 {
		s = string(rune('0'+n%10)) + s
		n /= 10
	}
	if neg {
		s = "-" + s
	}
	return s
}

// operator 20: type assertions
func (m *c12mctx) opTypeAssert(x *ast.TypeAssertExpr) {
	if x.Type == nil {
		return
	}
	xt := m.typeOf(x.X)
	if xt == nil {
		return
	}
	iface := c12class(xt)
	if iface == "iface" {
		m.replace("20-impossible-assert/missing-method", x.Type, "Point")
		m.replace("20-impossible-assert/ptr-recv", x.Type, "Circle")
		m.replace("20-impossible-assert/basic", x.Type, "int")
		m.replace("20-impossible-assert/ptr-to-nomethods", x.Type, "*Point")
	}
	m.replace("20-assert-on-struct", x.X, "origin")
	m.replace("20-assert-on-int", x.X, "total")
	m.replace("20-assert-on-literal", x.X, "5")
	m.replace("20-assert-undefined-type", x.Type, "NoSuchType")
	m.replace("20-assert-to-value", x.Type, "total")
}

// operator 26: channel direction
func (m *c12mctx) opSend(x *ast.SendStmt) {
	if id, ok := x.Chan.(*ast.Ident); ok {
		if strings.HasPrefix(id.Name, "so") {
			m.replace("26-send-on-recvonly", x.Chan, "ro"+id.Name[2:])
		}
		if id.Name == "out" {
			// inside produce(out chan<- int): receive from the send-only parameter
			m.replace("26-recv-from-sendonly-param", x, "_ = <-out")
		}
	}
	m.replace("26-send-on-nonchan", x.Chan, "total")
	m.replace("26-send-on-slice", x.Chan, "names")
}

func (m *c12mctx) opRange(x *ast.RangeStmt) {
	t := m.typeOf(x.X)
	if id, ok := x.X.(*ast.Ident); ok {
		if strings.HasPrefix(id.Name, "ro") {
			m.replace("26-range-over-sendonly", x.X, "so"+id.Name[2:])
		}
		if id.Name == "in" {
			m.splice("26-send-on-recvonly-param", m.off(x.Body.Lbrace)+1, m.off(x.Body.Lbrace)+1, " in <- 1; ")
		}
	}
	m.replace("34-range-over-struct", x.X, "origin")
	m.replace("34-range-over-func", x.X, "single")
	m.replace("34-range-over-float", x.X, "1.5")
	if x.Key != nil && x.Value != nil {
		if _, ok := t.Underlying().(*types.Chan); !ok {
			m.replace("34-range-two-vars-over-chan", x.X, "make(chan int)")
		}
	}
	if x.Value == nil && x.Key != nil {
		if _, ok := t.Underlying().(*types.Chan); ok {
			m.splice("34-range-two-vars-over-chan", m.off(x.Key.End()), m.off(x.Key.End()), ", extra")
		}
	}
}

// operator 28
func (m *c12mctx) opSlice(x *ast.SliceExpr) {
	t := m.typeOf(x.X)
	m.replace("28-slice-of-int", x.X, "total")
	m.replace("28-slice-of-map", x.X, "ages")
	m.replace("28-slice-of-struct", x.X, "origin")
	m.replace("28-slice-of-func", x.X, "single")
	rb := m.off(x.Rbrack)
	if isStringT(t) && !x.Slice3 && x.High != nil {
		m.splice("28-3index-of-string", rb, rb, ":3")
	}
	if !x.Slice3 {
		m.splice("28-indices-out-of-order/"+c12class(t), m.off(x.Lbrack)+1, rb, "2:1")
		m.splice("28-index-string/"+c12class(t), m.off(x.Lbrack)+1, rb, `"a":`)
		m.splice("28-index-float/"+c12class(t), m.off(x.Lbrack)+1, rb, "1.5:")
		m.splice("28-index-negative/"+c12class(t), m.off(x.Lbrack)+1, rb, "-1:")
		m.splice("28-3index-missing-middle/"+c12class(t), m.off(x.Lbrack)+1, rb, "0::2")
	}
	if a, ok := t.Underlying().(*types.Array); ok {
		m.splice("28-array-index-out-of-range", m.off(x.Lbrack)+1, rb, ":"+itoa(int(a.Len())+1))
	}
	if m.isConst(x.X) && isStringT(t) {
		m.splice("28-const-string-out-of-range", m.off(x.Lbrack)+1, rb, ":99")
	}
}

// operators 11 (array index), 29
func (m *c12mctx) opIndex(x *ast.IndexExpr) {
	t := m.typeOf(x.X)
	if t == nil {
		return
	}
	if m.ck.Info.Types[x.X].IsType() {
		return
	}
	ct := c12class(t)
	if p, ok := t.Underlying().(*types.Pointer); ok {
		if _, isArr := p.Elem().Underlying().(*types.Array); isArr {
			ct = "ptr-array"
			t = p.Elem()
		}
	}
	switch ct {
	case "map":
		// wrong key type is produced by the expected-type operator
		m.replace("29-index-of-int", x.X, "total")
	case "slice", "array", "string", "Nstring", "ptr-array":
		m.replace("29-index-string/"+ct, x.Index, `"a"`)
		m.replace("29-index-float/"+ct, x.Index, "1.5")
		m.replace("29-index-floatvar/"+ct, x.Index, "unit.W")
		m.replace("29-index-negative/"+ct, x.Index, "-1")
		m.replace("29-index-bool/"+ct, x.Index, "true")
		m.replace("29-index-of-int", x.X, "total")
		m.replace("29-index-of-struct", x.X, "origin")
		m.replace("29-index-of-func", x.X, "single")
		if a, ok := t.Underlying().(*types.Array); ok {
			m.replace("11-array-index-out-of-range/"+ct, x.Index, itoa(int(a.Len())))
		}
		if m.isConst(x.X) {
			m.replace("11-const-string-index-out-of-range", x.Index, "99")
		}
	}
}

// operator 30
func (m *c12mctx) opStar(x *ast.StarExpr) {
	if tv, ok := m.ck.Info.Types[x.X]; ok && tv.IsType() {
		return
	}
	lhs := ""
	if as, ok := m.parent(1).(*ast.AssignStmt); ok {
		for _, l := range as.Lhs {
			if l == x {
				lhs = "-lhs"
			}
		}
	}
	m.replace("30-deref-int"+lhs, x.X, "total")
	m.replace("30-deref-struct"+lhs, x.X, "origin")
	m.replace("30-deref-literal"+lhs, x.X, "5")
	m.replace("30-deref-nil"+lhs, x.X, "nil")
}

// operator 31
func (m *c12mctx) opBranch(x *ast.BranchStmt) {
	if x.Label != nil {
		name := x.Label.Name
		if strings.HasPrefix(name, "outer") {
			m.replace("31-label-not-enclosing/"+x.Tok.String(), x.Label, "other"+name[5:])
		}
		if strings.HasPrefix(name, "other") {
			m.replace("31-label-not-enclosing/"+x.Tok.String(), x.Label, "outer"+name[5:])
		}
		m.replace("31-label-undefined/"+x.Tok.String(), x.Label, "nolabel")
		return
	}
}

// operator 32 on ++/--
func (m *c12mctx) opIncDec(x *ast.IncDecStmt) {
	m.replace("32-incdec-const", x.X, "Limit")
	m.replace("32-incdec-string", x.X, "names[0]")
	m.replace("32-incdec-call", x.X, "single()")
	m.replace("32-incdec-bool", x.X, "(total > 1)")
	m.replace("32-incdec-struct", x.X, "origin")
}

// operator 34
func (m *c12mctx) opTypeSwitch(x *ast.TypeSwitchStmt) {
	var clauses []*ast.CaseClause
	for _, st := range x.Body.List {
		if cc, ok := st.(*ast.CaseClause); ok && len(cc.List) > 0 {
			clauses = append(clauses, cc)
		}
	}
	if len(clauses) >= 2 {
		firstT := m.text(clauses[0].List[0])
		last := clauses[1].List[len(clauses[1].List)-1]
		m.splice("34-typeswitch-duplicate-case", m.off(last.End()), m.off(last.End()), ", "+firstT)
		m.replace("34-typeswitch-case-value", clauses[0].List[0], "5")
		m.replace("34-typeswitch-case-undefined", clauses[0].List[0], "NoSuchType")
	}
	// fallthrough in a type switch
	if len(clauses) >= 1 {
		cc := clauses[0]
		if len(cc.Body) > 0 {
			e := m.off(cc.Body[len(cc.Body)-1].End())
			m.splice("35-fallthrough-in-typeswitch", e, e, "\n\t\tfallthrough")
		}
	}
	// type switch on a non-interface
	switch a := x.Assign.(type) {
	case *ast.AssignStmt:
		if ta, ok := a.Rhs[0].(*ast.TypeAssertExpr); ok {
			m.replace("34-typeswitch-on-noninterface", ta.X, "total")
		}
	case *ast.ExprStmt:
		if ta, ok := a.X.(*ast.TypeAssertExpr); ok {
			m.replace("34-typeswitch-on-noninterface", ta.X, "total")
		}
	}
	// impossible case
	if len(clauses) >= 1 {
		if as, ok := x.Assign.(*ast.AssignStmt); ok {
			if ta, ok := as.Rhs[0].(*ast.TypeAssertExpr); ok && c12class(m.typeOf(ta.X)) == "iface" {
				m.replace("34-typeswitch-impossible-case", clauses[0].List[0], "Point")
			}
		}
	}
}

// operators 34 (duplicate constant case), 35
func (m *c12mctx) opSwitch(x *ast.SwitchStmt) {
	var clauses []*ast.CaseClause
	for _, st := range x.Body.List {
		if cc, ok := st.(*ast.CaseClause); ok {
			clauses = append(clauses, cc)
		}
	}
	if len(clauses) == 0 {
		return
	}
	lastC := clauses[len(clauses)-1]
	if len(lastC.Body) > 0 {
		e := m.off(lastC.Body[len(lastC.Body)-1].End())
		m.splice("35-fallthrough-last-clause", e, e, "\n\t\tfallthrough")
	}
	if len(clauses[0].Body) > 1 {
		// fallthrough not last in its clause
		e := m.off(clauses[0].Body[0].Pos())
		m.splice("35-fallthrough-not-last", e, e, "fallthrough\n\t\t")
	}
	if x.Tag != nil && len(clauses) >= 2 && len(clauses[0].List) > 0 && len(clauses[1].List) > 0 && m.isConst(clauses[0].List[0]) {
		last := clauses[1].List[len(clauses[1].List)-1]
		m.splice("34-switch-duplicate-case", m.off(last.End()), m.off(last.End()), ", "+m.text(clauses[0].List[0]))
	}
	if x.Tag == nil && len(clauses[0].List) > 0 {
		m.replace("21-case-nonbool", clauses[0].List[0], "1")
	}
	// two defaults
	e := m.off(x.Body.Rbrace)
	m.splice("34-switch-two-defaults", e, e, "default:\n\tdefault:\n\t")
}

// operator 35 outside of a switch; 31 unlabeled break/continue outside of a loop
func (m *c12mctx) opBlock(x *ast.BlockStmt) {
	p := m.parent(1)
	switch pp := p.(type) {
	case *ast.IfStmt:
		if pp.Body == x && len(x.List) > 0 {
			// skip if inside a switch clause (fallthrough at the end of an if body is still illegal, keep)
			e := m.off(x.List[len(x.List)-1].End())
			m.splice("35-fallthrough-in-if", e, e, "\n\t\tfallthrough")
		}
	case *ast.FuncDecl:
		if pp.Name.Name == "main" || pp.Name.Name == "helper" {
			e := m.off(x.Lbrace) + 1
			m.splice("31-break-outside-loop", e, e, "\n\tif total > 100 {\n\t\tbreak\n\t}")
			m.splice("31-continue-outside-loop", e, e, "\n\tif total > 100 {\n\t\tcontinue\n\t}")
			m.splice("31-goto-undefined-label", e, e, "\n\tif total > 100 {\n\t\tgoto nolabel\n\t}")
			m.splice("17-duplicate-decl", e, e, "\n\tvar dup int\n\tvar dup string\n\t_ = dup")
			m.splice("33-unused-result-expr", e, e, "\n\ttotal + 1")
			m.splice("15-missing-return", e, e, "\n\t_ = func() int { println(\"x\") }")
		}
	}
}
