package main

import (
	"bytes"
	"flag"
	"fmt"
	"go/ast"
	"go/parser"
	"go/scanner"
	"os"
	"path/filepath"
	"reflect"
	"sort"
	"strconv"
	"strings"
	"sync"
	"testing/fstest"
	"time"

	"github.com/traefik/yaegi/interp"
	"github.com/traefik/yaegi/stdlib"
)

// C11: evaluating a program piecewise equals evaluating it whole.
//   impl  = one interp.Interpreter fed through Eval / Compile+Execute / CompileAST+Execute / EvalPath
//   Y, G  = coq/Session/Model.v, evaluated by coqc on the cases files written here
//   ref   = the whole program (or the history rendered with function variables) compiled by the Go toolchain,
//           and the whole-program evaluation by yaegi itself

func init() {
	register("c11", "C11 piecewise evaluation: generate programs x cuts x entry points, run yaegi and the Go reference", runC11)
}

// ---------------------------------------------------------------- the model language (mirrors Session/Model.v)

type c11expr struct {
	K    byte // 'c' const, 'v' var, 'a' arg, '+', '-', '*', 'f' call, 'd' deref
	Z    int64
	N    int // variable / pointer / function id
	A, B *c11expr
}

type c11stmt struct {
	K    byte // '=' assign, '&' setptr, 's' storep, 'p' print, 'e' expr
	X, P int
	E    *c11expr
}

type c11item struct {
	K    byte // 'v' var, 'p' ptr, 'f' func, 's' stmt
	N    int
	E    *c11expr  // var initialiser
	Body []c11stmt // func
	Ret  *c11expr
	S    c11stmt
}

func (e *c11expr) goSrc() string {
	switch e.K {
	case 'c':
		if e.Z < 0 {
			return fmt.Sprintf("(%d)", e.Z)
		}
		return fmt.Sprint(e.Z)
	case 'v':
		return fmt.Sprintf("v%d", e.N)
	case 'a':
		return "a"
	case '+', '-', '*':
		return "(" + e.A.goSrc() + " " + string(e.K) + " " + e.B.goSrc() + ")"
	case 'f':
		return fmt.Sprintf("f%d(%s)", e.N, e.A.goSrc())
	case 'd':
		return fmt.Sprintf("*p%d", e.N)
	}
	panic("expr kind")
}

func (e *c11expr) coq() string {
	switch e.K {
	case 'c':
		return "(EConst " + coqZ(e.Z) + ")"
	case 'v':
		return fmt.Sprintf("(EVar %d)", e.N)
	case 'a':
		return "EArg"
	case '+':
		return "(EAdd " + e.A.coq() + " " + e.B.coq() + ")"
	case '-':
		return "(ESub " + e.A.coq() + " " + e.B.coq() + ")"
	case '*':
		return "(EMul " + e.A.coq() + " " + e.B.coq() + ")"
	case 'f':
		return fmt.Sprintf("(ECall %d %s)", e.N, e.A.coq())
	case 'd':
		return fmt.Sprintf("(EDeref %d)", e.N)
	}
	panic("expr kind")
}

// goSrc of a statement; bare = the expression statement is written as a bare expression (incremental
// mode), otherwise as "_ = e" (valid Go inside a function body).
func (s c11stmt) goSrc(bare bool) string {
	switch s.K {
	case '=':
		return fmt.Sprintf("v%d = %s", s.X, s.E.goSrc())
	case '&':
		return fmt.Sprintf("p%d = &v%d", s.P, s.X)
	case 's':
		return fmt.Sprintf("*p%d = %s", s.P, s.E.goSrc())
	case 'p':
		return fmt.Sprintf("fmt.Println(%s)", s.E.goSrc())
	case 'e':
		if bare {
			return s.E.goSrc()
		}
		return "_ = " + s.E.goSrc()
	case 'u':
		return "fmt.Println(" + c11pkgs[s.X].Expr + ")"
	}
	panic("stmt kind")
}

func (s c11stmt) coq() string {
	switch s.K {
	case '=':
		return fmt.Sprintf("(SAssign %d %s)", s.X, s.E.coq())
	case '&':
		return fmt.Sprintf("(SSetPtr %d %d)", s.P, s.X)
	case 's':
		return fmt.Sprintf("(SStoreP %d %s)", s.P, s.E.coq())
	case 'p':
		return "(SPrint " + s.E.coq() + ")"
	case 'e':
		return "(SExpr " + s.E.coq() + ")"
	case 'u':
		return fmt.Sprintf("(SUse %d)", s.X)
	}
	panic("stmt kind")
}

func c11funcSrc(name string, isMain bool, body []c11stmt, ret *c11expr) string {
	var b strings.Builder
	if isMain {
		b.WriteString("func main() {\n")
	} else {
		b.WriteString("func " + name + "(a int) int {\n")
	}
	for _, s := range body {
		b.WriteString("\t" + s.goSrc(false) + "\n")
	}
	if !isMain {
		b.WriteString("\treturn " + ret.goSrc() + "\n")
	}
	b.WriteString("}")
	return b.String()
}

func (it c11item) goSrc(bare bool) string {
	switch it.K {
	case 'v':
		return fmt.Sprintf("var v%d = %s", it.N, it.E.goSrc())
	case 'p':
		return fmt.Sprintf("var p%d *int", it.N)
	case 'f':
		if it.N == 0 {
			return c11funcSrc("main", true, it.Body, nil)
		}
		return c11funcSrc(fmt.Sprintf("f%d", it.N), false, it.Body, it.Ret)
	case 's':
		return it.S.goSrc(bare)
	case 'i':
		return fmt.Sprintf("import %q", c11pkgs[it.N].Path)
	}
	panic("item kind")
}

func (it c11item) coq() string {
	switch it.K {
	case 'v':
		return fmt.Sprintf("(IVar %d %s)", it.N, it.E.coq())
	case 'p':
		return fmt.Sprintf("(IPtr %d)", it.N)
	case 'f':
		var ss []string
		for _, s := range it.Body {
			ss = append(ss, s.coq())
		}
		ret := "(EConst 0%Z)"
		if it.Ret != nil {
			ret = it.Ret.coq()
		}
		return fmt.Sprintf("(IFunc %d (%s, %s))", it.N, coqList(ss), ret)
	case 's':
		return "(IStmt " + it.S.coq() + ")"
	case 'i':
		return fmt.Sprintf("(IImport %d)", it.N)
	}
	panic("item kind")
}

func c11chunkCoq(c []c11item) string {
	var l []string
	for _, it := range c {
		l = append(l, it.coq())
	}
	return coqList(l)
}

func c11chunksCoq(cs [][]c11item) string {
	var l []string
	for _, c := range cs {
		l = append(l, c11chunkCoq(c))
	}
	return coqList(l)
}

// c11memo shares the Coq text of items and chunks inside one cases file (the same program is fed many times).
type c11memo struct {
	names map[string]string
	defs  strings.Builder
}

func (m *c11memo) def(prefix, typ, body string) string {
	if n, ok := m.names[typ+body]; ok {
		return n
	}
	n := fmt.Sprintf("%s%d", prefix, len(m.names))
	m.names[typ+body] = n
	fmt.Fprintf(&m.defs, "Definition %s : %s := %s.\n", n, typ, body)
	return n
}

func (m *c11memo) chunks(cs [][]c11item) string {
	var l []string
	for _, c := range cs {
		var its []string
		for _, it := range c {
			its = append(its, m.def("i", "item", it.coq()))
		}
		l = append(l, m.def("c", "chunk", coqList(its)))
	}
	return m.def("s", "list chunk", coqList(l))
}

// steps renders what is fed as a list of Model.step
func (m *c11memo) steps(pl *c11plan) string {
	var l []string
	chunk := func(c []c11item) string {
		var its []string
		for _, it := range c {
			its = append(its, m.def("i", "item", it.coq()))
		}
		return m.def("c", "chunk", coqList(its))
	}
	if pl.Steps != nil {
		for _, st := range pl.Steps {
			switch st.Kind {
			case 'f':
				l = append(l, fmt.Sprintf("(SFile %d %s)", st.Name, chunk(st.Chunk)))
			case 'd':
				l = append(l, fmt.Sprintf("(SDir %s)", chunk(st.Chunk)))
			default:
				l = append(l, fmt.Sprintf("(SEval %s)", chunk(st.Chunk)))
			}
		}
	} else {
		for k, c := range pl.Chunks {
			if pl.Mode == c11EvalPath {
				l = append(l, fmt.Sprintf("(SFile %d %s)", k+1, chunk(c)))
			} else {
				l = append(l, fmt.Sprintf("(SEval %s)", chunk(c)))
			}
		}
	}
	return m.def("t", "list step", coqList(l))
}

func c11chunkSrc(c []c11item) string {
	var l []string
	for _, it := range c {
		l = append(l, it.goSrc(true))
	}
	return strings.Join(l, "\n")
}

// ---------------------------------------------------------------- generator

type c11gen struct {
	r      *rng
	vars   []int // declared int variables
	ptrs   []int
	funcs  []int
	direct bool  // initialisers may mention variables directly (region var-xdep)
	imps   []int // packages imported so far (mixed sessions only)
}

func (g *c11gen) konst() *c11expr { return &c11expr{K: 'c', Z: int64(g.r.intn(9)) - 2} }

func (g *c11gen) op() byte { return "+-*+*"[g.r.intn(5)] }

// pure: no calls; reads of the variables given (and of the pointers known to be set).
func (g *c11gen) pure(depth int, arg bool, vars, setPtrs []int) *c11expr {
	if depth <= 0 || g.r.chance(35) {
		switch k := g.r.intn(6); {
		case k < 2 && len(vars) > 0:
			return &c11expr{K: 'v', N: vars[g.r.intn(len(vars))]}
		case k == 2 && arg:
			return &c11expr{K: 'a'}
		case k == 3 && len(setPtrs) > 0:
			return &c11expr{K: 'd', N: setPtrs[g.r.intn(len(setPtrs))]}
		}
		return g.konst()
	}
	return &c11expr{K: g.op(), A: g.pure(depth-1, arg, vars, setPtrs), B: g.pure(depth-1, arg, vars, setPtrs)}
}

// readFree: constants, the parameter and calls whose arguments are read-free (class K: Go fixes the order of calls).
func (g *c11gen) readFree(depth int, arg bool) *c11expr {
	if depth <= 0 || g.r.chance(30) || len(g.funcs) == 0 {
		if arg && g.r.bool() {
			return &c11expr{K: 'a'}
		}
		return g.konst()
	}
	if g.r.chance(50) {
		return &c11expr{K: 'f', N: g.funcs[g.r.intn(len(g.funcs))], A: g.readFree(depth-1, arg)}
	}
	return &c11expr{K: g.op(), A: g.readFree(depth-1, arg), B: g.readFree(depth-1, arg)}
}

// expr: P | K | f(P) | f(P) op K | f(f(P) op K): every read of a global precedes the first call.
func (g *c11gen) expr(arg bool, vars, setPtrs []int) *c11expr {
	if len(g.funcs) == 0 {
		return g.pure(2, arg, vars, setPtrs)
	}
	f := func() int { return g.funcs[g.r.intn(len(g.funcs))] }
	switch g.r.intn(6) {
	case 0, 1:
		return g.pure(2, arg, vars, setPtrs)
	case 2:
		return g.readFree(2, arg)
	case 3:
		return &c11expr{K: 'f', N: f(), A: g.pure(1, arg, vars, setPtrs)}
	case 4:
		return &c11expr{K: g.op(), A: &c11expr{K: 'f', N: f(), A: g.pure(1, arg, vars, setPtrs)}, B: g.readFree(1, arg)}
	default:
		return &c11expr{K: 'f', N: f(), A: &c11expr{K: g.op(), A: &c11expr{K: 'f', N: f(), A: g.pure(1, arg, vars, setPtrs)}, B: g.readFree(1, arg)}}
	}
}

// stmts generates a statement list; setPtrs is the set of pointers known to be non-nil on entry,
// the returned set is the one known on exit. inFunc: a function body (parameter available, no bare expression).
func (g *c11gen) stmts(n int, inFunc bool, setPtrs []int) ([]c11stmt, []int) {
	var out []c11stmt
	set := append([]int(nil), setPtrs...)
	for i := 0; i < n; i++ {
		if len(g.imps) > 0 && g.r.chance(18) {
			out = append(out, c11stmt{K: 'u', X: g.imps[g.r.intn(len(g.imps))]})
			continue
		}
		switch k := g.r.intn(10); {
		case k < 3 && len(g.vars) > 0:
			out = append(out, c11stmt{K: '=', X: g.vars[g.r.intn(len(g.vars))], E: g.expr(inFunc, g.vars, set)})
		case k < 5:
			out = append(out, c11stmt{K: 'p', E: g.expr(inFunc, g.vars, set)})
		case k == 5 && len(g.ptrs) > 0 && len(g.vars) > 0:
			p := g.ptrs[g.r.intn(len(g.ptrs))]
			out = append(out, c11stmt{K: '&', P: p, X: g.vars[g.r.intn(len(g.vars))]})
			has := false
			for _, q := range set {
				has = has || q == p
			}
			if !has {
				set = append(set, p)
			}
		case k == 6 && len(set) > 0:
			// the right-hand side makes no call: Go leaves open whether p is read before or after a call that re-points it
			out = append(out, c11stmt{K: 's', P: set[g.r.intn(len(set))], E: g.pure(2, inFunc, g.vars, set)})
		case k == 7 && !inFunc:
			out = append(out, c11stmt{K: 'e', E: g.expr(false, g.vars, set)})
		case len(g.vars) > 0:
			// the order-sensitive update x = x*c + e
			x := g.vars[g.r.intn(len(g.vars))]
			out = append(out, c11stmt{K: '=', X: x, E: &c11expr{K: '+', A: &c11expr{K: '*', A: &c11expr{K: 'v', N: x}, B: &c11expr{K: 'c', Z: int64(2 + g.r.intn(3))}}, B: g.pure(1, inFunc, g.vars, set)}})
		default:
			out = append(out, c11stmt{K: 'p', E: g.konst()})
		}
	}
	return out, set
}

type c11prog struct {
	Decls []c11item
	Body  []c11stmt
	Vars  []int
	Ptrs  []int
}

// program generates declarations in dependency order ("interactive style") and the body of main.
func (g *c11gen) program(nDecl, nBody int) c11prog {
	g.vars, g.ptrs, g.funcs = nil, nil, nil
	var p c11prog
	nv, np, nf := 0, 100, 0
	for i := 0; i < nDecl; i++ {
		switch k := g.r.intn(10); {
		case k < 4 || i == 0:
			nv++
			var e *c11expr
			if g.direct && len(g.vars) > 0 {
				e = g.expr(false, g.vars, nil)
			} else if len(g.funcs) > 0 && g.r.chance(70) {
				e = g.readFree(2, false)
			} else {
				e = g.konst()
			}
			p.Decls = append(p.Decls, c11item{K: 'v', N: nv, E: e})
			g.vars = append(g.vars, nv)
		case k == 4:
			np++
			p.Decls = append(p.Decls, c11item{K: 'p', N: np})
			g.ptrs = append(g.ptrs, np)
		default:
			nf++
			body, set := g.stmts(1+g.r.intn(3), true, nil)
			ret := g.expr(true, g.vars, set)
			p.Decls = append(p.Decls, c11item{K: 'f', N: nf, Body: body, Ret: ret})
			g.funcs = append(g.funcs, nf)
		}
	}
	p.Body, _ = g.stmts(nBody, false, nil)
	p.Vars, p.Ptrs = append([]int(nil), g.vars...), append([]int(nil), g.ptrs...)
	return p
}

func (p c11prog) stmtItems() []c11item {
	var l []c11item
	for _, s := range p.Body {
		l = append(l, c11item{K: 's', S: s})
	}
	return l
}

func (p c11prog) mainItem() c11item { return c11item{K: 'f', N: 0, Body: p.Body} }

func (p c11prog) wholeItems() []c11item {
	return append(append([]c11item(nil), p.Decls...), p.mainItem())
}

// c11cut cuts l into pieces at seeded positions (mean piece length about avg).
func c11cut(r *rng, l []c11item, avg int) [][]c11item {
	var out [][]c11item
	for len(l) > 0 {
		n := 1 + r.intn(2*avg-1)
		if n > len(l) {
			n = len(l)
		}
		out = append(out, l[:n])
		l = l[n:]
	}
	return out
}

func c11fileSrc(items []c11item) string {
	var b strings.Builder
	b.WriteString("package main\n\nimport \"fmt\"\n")
	for _, it := range items {
		if it.K == 'i' {
			b.WriteString(it.goSrc(false) + "\n")
		}
	}
	b.WriteString("\nvar _ = fmt.Sprint\n\n")
	for _, it := range items {
		if it.K != 'i' {
			b.WriteString(it.goSrc(false) + "\n")
		}
	}
	return b.String()
}

// c11refSrc renders the reference program: the items (main's body extended by an epilogue that
// prints "#", the variables and the pointer targets).
func c11refSrc(decls []c11item, body []string, vars, ptrs []int, funcVars []int) string {
	var b strings.Builder
	b.WriteString("package main\n\nimport \"fmt\"\n\n")
	seenImp := map[int]bool{}
	var keep []string
	for _, it := range decls {
		if it.K == 'i' && !seenImp[it.N] {
			seenImp[it.N] = true
			fmt.Fprintf(&b, "import %q\n", c11pkgs[it.N].Path)
			keep = append(keep, "var _ = "+c11pkgs[it.N].Keep)
		}
	}
	b.WriteString(strings.Join(keep, "\n") + "\n")
	for _, f := range funcVars {
		fmt.Fprintf(&b, "var f%d func(a int) int\n", f)
	}
	for _, it := range decls {
		if it.K != 'i' {
			b.WriteString(it.goSrc(false) + "\n")
		}
	}
	b.WriteString("func ptrName(p *int) int {\n\tswitch p {\n")
	for _, v := range vars {
		fmt.Fprintf(&b, "\tcase &v%d:\n\t\treturn %d\n", v, v)
	}
	b.WriteString("\t}\n\treturn 0\n}\n")
	b.WriteString("func main() {\n")
	for _, s := range body {
		b.WriteString("\t" + s + "\n")
	}
	b.WriteString("\tfmt.Println(\"#\")\n")
	for _, v := range vars {
		fmt.Fprintf(&b, "\tfmt.Println(v%d)\n", v)
	}
	for _, p := range ptrs {
		fmt.Fprintf(&b, "\tfmt.Println(ptrName(p%d))\n", p)
	}
	b.WriteString("}\n")
	return b.String()
}

// ---------------------------------------------------------------- observations

type c11chunkObs struct {
	Status int     `json:"status"` // 0 ok, 1 parse, 2 undefined, 3 definition loop, 9 other
	Val    *int64  `json:"val,omitempty"`
	Out    []int64 `json:"out"`
	Err    string  `json:"err,omitempty"`
}

type c11final struct {
	Vars []int64 `json:"vars"`
	Ptrs []int   `json:"ptrs"` // 0 = nil, -1 = points to none of the variables
}

func (o c11chunkObs) coq() string {
	var outs []string
	for _, v := range o.Out {
		outs = append(outs, coqZ(v))
	}
	val := "None"
	if o.Val != nil {
		val = "(Some " + coqZ(*o.Val) + ")"
	}
	return fmt.Sprintf("(%d, %s, %s)", o.Status, val, coqList(outs))
}

func (f c11final) coq() string {
	var vs, ps []string
	for _, v := range f.Vars {
		vs = append(vs, coqZ(v))
	}
	for _, p := range f.Ptrs {
		if p == 0 {
			ps = append(ps, "None")
		} else if p < 0 {
			ps = append(ps, "(Some 999999)")
		} else {
			ps = append(ps, fmt.Sprintf("(Some %d)", p))
		}
	}
	return "(" + coqList(vs) + ", " + coqList(ps) + ")"
}

func c11status(err error) (int, string) {
	if err == nil {
		return 0, ""
	}
	msg := firstLine(err.Error())
	if _, ok := err.(scanner.ErrorList); ok {
		return 1, msg
	}
	switch {
	case strings.Contains(msg, "variable definition loop"):
		return 3, msg
	case strings.Contains(msg, "undefined"):
		return 2, msg
	}
	return 9, msg
}

func c11parseInts(s string) ([]int64, bool) {
	var out []int64
	for _, l := range strings.Split(s, "\n") {
		if l == "" {
			continue
		}
		v, err := strconv.ParseInt(strings.TrimSpace(l), 10, 64)
		if err != nil {
			return out, false
		}
		out = append(out, v)
	}
	return out, true
}

// packages of the import dimension: [SUse k] prints Expr, whose value is Model.impval k
var c11pkgs = map[int]struct{ Path, Expr, Keep string }{
	1: {"strings", `strings.Count("aXbXc", "X")`, "strings.Count"},
	2: {"strconv", `len(strconv.Itoa(12345))`, "strconv.Itoa"},
	3: {"math/bits", `bits.Len(8)`, "bits.Len"},
	4: {"unicode/utf8", `utf8.RuneCountInString("abcdefg")`, "utf8.RuneCountInString"},
}

var c11fmt = interp.Exports{"fmt/fmt": stdlib.Symbols["fmt/fmt"], "strings/strings": stdlib.Symbols["strings/strings"],
	"strconv/strconv": stdlib.Symbols["strconv/strconv"], "math/bits/bits": stdlib.Symbols["math/bits/bits"], "unicode/utf8/utf8": stdlib.Symbols["unicode/utf8/utf8"]}

type c11session struct {
	i   *interp.Interpreter
	out *bytes.Buffer
	obs []c11chunkObs
}

func c11newSession(opt interp.Options) *c11session {
	s := &c11session{out: &bytes.Buffer{}}
	opt.Stdout, opt.Stderr = s.out, s.out
	s.i = interp.New(opt)
	if err := s.i.Use(c11fmt); err != nil {
		panic(err)
	}
	return s
}

// step runs one evaluation and records its observation; wantVal: the chunk ends with an expression statement.
func (s *c11session) step(wantVal bool, f func() (reflect.Value, error)) {
	s.out.Reset()
	var o c11chunkObs
	func() {
		defer func() {
			if r := recover(); r != nil {
				o.Status, o.Err = 9, "host panic: "+firstLine(fmt.Sprint(r))
			}
		}()
		v, err := f()
		o.Status, o.Err = c11status(err)
		if err == nil && wantVal {
			if v.IsValid() && v.CanInt() {
				x := v.Int()
				o.Val = &x
			} else {
				o.Status, o.Err = 9, "no int value returned"
			}
		}
	}()
	ints, ok := c11parseInts(s.out.String())
	o.Out = ints
	if !ok {
		o.Status, o.Err = 9, "unexpected output: "+firstLine(s.out.String())
	}
	s.obs = append(s.obs, o)
}

func c11safeGlobals(i *interp.Interpreter) (g map[string]reflect.Value, panicked bool) {
	defer func() {
		if r := recover(); r != nil {
			g, panicked = nil, true
		}
	}()
	return i.Globals(), false
}

func (s *c11session) final(vars, ptrs []int) c11final {
	g, panicked := c11safeGlobals(s.i)
	if panicked {
		s.obs = append(s.obs, c11chunkObs{Status: 9, Err: "Globals() panics in the host"})
	}
	var f c11final
	addr := map[uintptr]int{}
	for _, v := range vars {
		x, ok := g[fmt.Sprintf("v%d", v)]
		if !ok || !x.IsValid() || !x.CanInt() {
			f.Vars = append(f.Vars, 0)
			continue
		}
		f.Vars = append(f.Vars, x.Int())
		if x.CanAddr() {
			addr[x.Addr().Pointer()] = v
		}
	}
	for _, p := range ptrs {
		x, ok := g[fmt.Sprintf("p%d", p)]
		switch {
		case !ok || !x.IsValid() || x.Kind() != reflect.Ptr || x.IsNil():
			f.Ptrs = append(f.Ptrs, 0)
		default:
			if v, ok := addr[x.Pointer()]; ok {
				f.Ptrs = append(f.Ptrs, v)
			} else {
				f.Ptrs = append(f.Ptrs, -1)
			}
		}
	}
	return f
}

func c11endsWithExpr(c []c11item) bool {
	return len(c) > 0 && c[len(c)-1].K == 's' && c[len(c)-1].S.K == 'e'
}

func c11isDeclChunk(c []c11item) bool { return len(c) > 0 && c[0].K != 's' }

const (
	c11Eval = iota
	c11CompileExecute
	c11CompileAST
	c11EvalPath
	c11CompileAll
)

var c11modeNames = []string{"Eval", "Compile+Execute", "CompileAST+Execute", "EvalPath", "CompileAll+ExecuteAll"}

// c11parseAST parses a chunk the way interp.parse does in incremental mode, with the interpreter's FileSet.
func c11parseAST(i *interp.Interpreter, c []c11item, src string) (ast.Node, error) {
	return c11parseASTNamed(i, c, src, "_.go")
}

// name: the source name in force (the caller of CompileAST chooses the name the chunk is parsed under).
func c11parseASTNamed(i *interp.Interpreter, c []c11item, src, name string) (ast.Node, error) {
	if c11isDeclChunk(c) {
		return parser.ParseFile(i.FileSet(), name, "package main;"+src, parser.DeclarationErrors)
	}
	f, err := parser.ParseFile(i.FileSet(), name, "package main; func main() {"+src+"\n}", parser.DeclarationErrors)
	if err != nil {
		return nil, err
	}
	return f.Decls[0].(*ast.FuncDecl).Body, nil
}

// c11run feeds the chunks through one entry point. fsKind (EvalPath only): "dir" real directory, "mapfs".
func c11run(mode int, chunks [][]c11item, vars, ptrs []int, fsKind string) ([]c11chunkObs, c11final) {
	var s *c11session
	prelude := `import "fmt"`
	switch mode {
	case c11Eval:
		s = c11newSession(interp.Options{})
		s.i.Eval(prelude)
		for _, c := range chunks {
			src := c11chunkSrc(c)
			s.step(c11endsWithExpr(c), func() (reflect.Value, error) { return s.i.Eval(src) })
		}
	case c11CompileExecute:
		s = c11newSession(interp.Options{})
		s.i.Eval(prelude)
		for _, c := range chunks {
			src := c11chunkSrc(c)
			s.step(c11endsWithExpr(c), func() (reflect.Value, error) {
				p, err := s.i.Compile(src)
				if err != nil {
					return reflect.Value{}, err
				}
				return s.i.Execute(p)
			})
		}
	case c11CompileAST:
		s = c11newSession(interp.Options{})
		s.i.Eval(prelude)
		for _, c := range chunks {
			c, src := c, c11chunkSrc(c)
			s.step(c11endsWithExpr(c), func() (reflect.Value, error) {
				n, err := c11parseAST(s.i, c, src)
				if err != nil {
					return reflect.Value{}, err
				}
				p, err := s.i.CompileAST(n)
				if err != nil {
					return reflect.Value{}, err
				}
				return s.i.Execute(p)
			})
		}
	case c11CompileAll:
		s = c11newSession(interp.Options{})
		s.i.Eval(prelude)
		progs := make([]*interp.Program, len(chunks))
		errs := make([]error, len(chunks))
		for k, c := range chunks {
			func() {
				defer func() {
					if r := recover(); r != nil {
						errs[k] = fmt.Errorf("host panic: %v", r)
					}
				}()
				progs[k], errs[k] = s.i.Compile(c11chunkSrc(c))
			}()
		}
		for k, c := range chunks {
			k := k
			s.step(c11endsWithExpr(c), func() (reflect.Value, error) {
				if errs[k] != nil {
					return reflect.Value{}, errs[k]
				}
				return s.i.Execute(progs[k])
			})
		}
	case c11EvalPath:
		// every chunk is a file of package main, evaluated in turn
		names := make([]string, len(chunks))
		if fsKind == "mapfs" {
			mfs := fstest.MapFS{}
			for k, c := range chunks {
				names[k] = fmt.Sprintf("c%02d.go", k)
				mfs[names[k]] = &fstest.MapFile{Data: []byte(c11fileSrc(c))}
			}
			s = c11newSession(interp.Options{SourcecodeFilesystem: mfs})
		} else {
			dir, err := os.MkdirTemp("", "vh-c11-*")
			if err != nil {
				panic(err)
			}
			defer os.RemoveAll(dir)
			for k, c := range chunks {
				names[k] = filepath.Join(dir, fmt.Sprintf("c%02d.go", k))
				if err := os.WriteFile(names[k], []byte(c11fileSrc(c)), 0o644); err != nil {
					panic(err)
				}
			}
			s = c11newSession(interp.Options{})
		}
		for k := range chunks {
			name := names[k]
			s.step(false, func() (reflect.Value, error) { return s.i.EvalPath(name) })
		}
	}
	fin := s.final(vars, ptrs)
	return s.obs, fin
}

// c11evalDir evaluates the program as a directory of files (importSrc path): output only.
func c11evalDir(files [][]c11item, mapfs bool) (out []int64, errStr string) {
	defer func() {
		if r := recover(); r != nil {
			errStr = "host panic: " + firstLine(fmt.Sprint(r))
		}
	}()
	var s *c11session
	var path string
	if mapfs {
		mfs := fstest.MapFS{}
		for k, c := range files {
			mfs[fmt.Sprintf("prog/c%02d.go", k)] = &fstest.MapFile{Data: []byte(c11fileSrc(c))}
		}
		s = c11newSession(interp.Options{SourcecodeFilesystem: mfs})
		path = "./prog"
	} else {
		dir, err := os.MkdirTemp("", "vh-c11d-*")
		if err != nil {
			return nil, err.Error()
		}
		defer os.RemoveAll(dir)
		for k, c := range files {
			if err := os.WriteFile(filepath.Join(dir, fmt.Sprintf("c%02d.go", k)), []byte(c11fileSrc(c)), 0o644); err != nil {
				return nil, err.Error()
			}
		}
		wd, _ := os.Getwd()
		rel, err := filepath.Rel(wd, dir)
		if err != nil {
			return nil, err.Error()
		}
		if !strings.HasPrefix(rel, ".") {
			rel = "./" + rel
		}
		s = c11newSession(interp.Options{})
		path = rel
	}
	_, err := s.i.EvalPath(path)
	if err != nil {
		return nil, firstLine(err.Error())
	}
	ints, ok := c11parseInts(s.out.String())
	if !ok {
		return ints, "unexpected output"
	}
	return ints, ""
}

func c11flatOut(obs []c11chunkObs) []int64 {
	var out []int64
	for _, o := range obs {
		out = append(out, o.Out...)
	}
	return out
}

func c11allOK(obs []c11chunkObs) bool {
	for _, o := range obs {
		if o.Status != 0 {
			return false
		}
	}
	return true
}

func c11eqInts(a, b []int64) bool {
	if len(a) != len(b) {
		return false
	}
	for i := range a {
		if a[i] != b[i] {
			return false
		}
	}
	return true
}

func c11eqFinal(a, b c11final) bool {
	if !c11eqInts(a.Vars, b.Vars) || len(a.Ptrs) != len(b.Ptrs) {
		return false
	}
	for i := range a.Ptrs {
		if a.Ptrs[i] != b.Ptrs[i] {
			return false
		}
	}
	return true
}

// parse the reference binary's output: lines, "#", variables, pointer targets
func c11parseRef(o outcome, nv, np int) (out []int64, fin c11final, ok bool) {
	if o.End != "ok" {
		return nil, fin, false
	}
	parts := strings.SplitN(o.Stdout, "#\n", 2)
	if len(parts) != 2 {
		return nil, fin, false
	}
	out, ok1 := c11parseInts(parts[0])
	tail, ok2 := c11parseInts(parts[1])
	if !ok1 || !ok2 || len(tail) != nv+np {
		return nil, fin, false
	}
	fin.Vars = append([]int64{}, tail[:nv]...)
	for _, p := range tail[nv:] {
		fin.Ptrs = append(fin.Ptrs, int(p))
	}
	if fin.Vars == nil {
		fin.Vars = []int64{}
	}
	return out, fin, true
}

// ---------------------------------------------------------------- one planned session

type c11plan struct {
	ID      int
	Region  string
	Kind    string // whole | pieces | files | history
	Mode    int
	FS      string
	Chunks  [][]c11item
	GChunks [][]c11item
	Vars    []int
	Ptrs    []int
	Steps   []c11step // mixed entry points; nil: Chunks fed through Mode
	RefName string    // key of the reference program
	ProgIdx int
	// results
	Obs []c11chunkObs
	Fin c11final
}

func (pl *c11plan) input() map[string]any {
	if pl.Steps != nil {
		var steps []map[string]string
		for _, st := range pl.Steps {
			steps = append(steps, map[string]string{"entry": st.entryName(pl.FS), "source": st.src()})
		}
		return map[string]any{"kind": pl.Kind, "entry": "mixed", "fs": pl.FS, "steps": steps}
	}
	var srcs []string
	for _, c := range pl.Chunks {
		if pl.Mode == c11EvalPath {
			srcs = append(srcs, c11fileSrc(c))
		} else {
			srcs = append(srcs, c11chunkSrc(c))
		}
	}
	return map[string]any{"kind": pl.Kind, "entry": c11modeNames[pl.Mode], "fs": pl.FS, "chunks": srcs}
}

func runC11(args []string) error {
	fs := flag.NewFlagSet("c11", flag.ExitOnError)
	outDir := fs.String("out", "/verif/build/C11", "output directory")
	tier := fs.String("tier", "quick", "quick|thorough")
	seed := fs.Uint64("seed", envSeed(), "seed")
	fs.Parse(args)
	if err := os.MkdirAll(*outDir, 0o755); err != nil {
		return err
	}
	r := newRng(*seed)
	sm := newSummary("C11")
	distinct := distinctSet{}
	nMain, nRerun, nXdep, nHist, nStale, nRich := 110, 14, 14, 30, 12, 1
	nBlocks, nDirs := 40, 40
	nMixed, nRel := 40, 2
	nRedef := 40
	if *tier == "thorough" {
		nMain, nRerun, nXdep, nHist, nStale, nRich = 1500, 150, 150, 400, 150, 8
		nBlocks, nDirs = 600, 400
		nMixed, nRel = 600, 20
		nRedef = 800
	}

	var plans []*c11plan
	var refProgs []goProg
	type refInfo struct {
		nv, np int
		src    string
	}
	refInfos := map[string]refInfo{}
	id := 0
	add := func(pl *c11plan) {
		id++
		pl.ID = id
		plans = append(plans, pl)
	}
	addRef := func(name, src string, nv, np int) {
		refProgs = append(refProgs, goProg{Name: name, Files: map[string]string{"main.go": src}})
		refInfos[name] = refInfo{nv, np, src}
	}
	bodySrc := func(body []c11stmt) []string {
		var l []string
		for _, s := range body {
			l = append(l, s.goSrc(false))
		}
		return l
	}

	// ------------------------------------------------------------ A. programs x cuts x entry points
	genProgram := func(direct bool) c11prog {
		g := &c11gen{r: r.fork(), direct: direct}
		return g.program(3+g.r.intn(8), 2+g.r.intn(7))
	}
	planProgram := func(pi int, p c11prog, region string, nCuts int) {
		ref := fmt.Sprintf("p%05d", pi)
		addRef(ref, c11refSrc(p.Decls, bodySrc(p.Body), p.Vars, p.Ptrs, nil), len(p.Vars), len(p.Ptrs))
		whole := [][]c11item{p.wholeItems()}
		base := c11plan{Region: region, Vars: p.Vars, Ptrs: p.Ptrs, RefName: ref, ProgIdx: pi, GChunks: whole}
		mk := func(kind string, mode int, fsk string, chunks [][]c11item) {
			pl := base
			pl.Kind, pl.Mode, pl.FS, pl.Chunks = kind, mode, fsk, chunks
			add(&pl)
		}
		// evaluating in one piece, through every entry point
		mk("whole", c11Eval, "", whole)
		if region == "" {
			mk("whole", c11CompileExecute, "", whole)
			mk("whole", c11CompileAST, "", whole)
			mk("whole", c11EvalPath, "dir", whole)
			mk("whole", c11EvalPath, "mapfs", whole)
		}
		for c := 0; c < nCuts; c++ {
			rr := r.fork()
			avg := 1 + rr.intn(3)
			pieces := append(c11cut(rr, p.Decls, avg), c11cut(rr, p.stmtItems(), avg)...)
			switch c % 4 {
			case 0:
				mk("pieces", c11Eval, "", pieces)
			case 1:
				mk("pieces", c11CompileExecute, "", pieces)
				mk("pieces", c11Eval, "", pieces)
			case 2:
				mk("pieces", c11CompileAST, "", pieces)
			case 3:
				mk("pieces", c11CompileAll, "", pieces)
			}
			// files of package main: declarations cut into files, main in the last one
			if c%2 == 0 {
				files := c11cut(rr, p.Decls, 1+avg)
				if len(files) == 0 {
					files = [][]c11item{nil}
				}
				last := append(append([]c11item(nil), files[len(files)-1]...), p.mainItem())
				files = append(append([][]c11item(nil), files[:len(files)-1]...), last)
				fsk := "mapfs"
				if c%4 == 0 {
					fsk = "dir"
				}
				mk("files", c11EvalPath, fsk, files)
			}
		}
		// single items, one Eval each
		if region == "" || region == "var-xdep" {
			var single [][]c11item
			for _, it := range append(append([]c11item(nil), p.Decls...), p.stmtItems()...) {
				single = append(single, []c11item{it})
			}
			mk("pieces", c11Eval, "", single)
		}
	}
	progIdx := 0
	var progs []c11prog
	for i := 0; i < nMain; i++ {
		p := genProgram(false)
		progs = append(progs, p)
		planProgram(progIdx, p, "", 4)
		progIdx++
	}
	// region var-xdep: initialisers that mention earlier variables directly
	for i := 0; i < nXdep; i++ {
		p := genProgram(true)
		progs = append(progs, p)
		planProgram(progIdx, p, "var-xdep", 3)
		progIdx++
	}
	// region main-rerun: complete programs fed declaration by declaration, func main not in the last piece
	for i := 0; i < nRerun; i++ {
		p := genProgram(false)
		progs = append(progs, p)
		ref := fmt.Sprintf("p%05d", progIdx)
		addRef(ref, c11refSrc(p.Decls, bodySrc(p.Body), p.Vars, p.Ptrs, nil), len(p.Vars), len(p.Ptrs))
		// main may only mention what precedes it: it goes after the last declaration it uses; the
		// declarations after it are moved there by putting main at a seeded position and keeping
		// only programs whose body mentions earlier items
		rr := r.fork()
		pos := c11lastUse(p) + 1
		if pos < len(p.Decls) {
			pos += rr.intn(len(p.Decls) - pos)
		}
		items := append(append(append([]c11item(nil), p.Decls[:pos]...), p.mainItem()), p.Decls[pos:]...)
		whole := [][]c11item{items}
		for c := 0; c < 3; c++ {
			avg := 1 + rr.intn(2)
			pieces := c11cut(rr, items, avg)
			mode := []int{c11Eval, c11CompileExecute, c11CompileAll}[c]
			pl := c11plan{Region: "main-rerun", Kind: "pieces", Mode: mode, Chunks: pieces, GChunks: whole, Vars: p.Vars, Ptrs: p.Ptrs, RefName: ref, ProgIdx: progIdx}
			add(&pl)
		}
		pl := c11plan{Region: "main-rerun", Kind: "whole", Mode: c11Eval, Chunks: whole, GChunks: whole, Vars: p.Vars, Ptrs: p.Ptrs, RefName: ref, ProgIdx: progIdx}
		add(&pl)
		progIdx++
	}
	// region main-rerun, interactive variant: the declarations, then func main, then more statements fed as
	// statement chunks (which are not files): contract = main runs once, where it is declared
	for i := 0; i < nRerun; i++ {
		g := &c11gen{r: r.fork()}
		p := g.program(3+g.r.intn(6), 1+g.r.intn(3))
		more, _ := g.stmts(2+g.r.intn(4), false, nil)
		// pointers: the second statement list may only use pointers it sets itself (main's body runs first anyway)
		progs = append(progs, p)
		ref := fmt.Sprintf("p%05d", progIdx)
		addRef(ref, c11refSrc(p.Decls, append(bodySrc(p.Body), bodySrc(more)...), p.Vars, p.Ptrs, nil), len(p.Vars), len(p.Ptrs))
		rr := r.fork()
		var moreItems []c11item
		for _, st := range more {
			moreItems = append(moreItems, c11item{K: 's', S: st})
		}
		for c := 0; c < 2; c++ {
			pieces := append(c11cut(rr, p.wholeItems(), 2), c11cut(rr, moreItems, 1+rr.intn(2))...)
			mode := []int{c11Eval, c11CompileAST}[c]
			pl := c11plan{Region: "main-rerun", Kind: "pieces", Mode: mode, Chunks: pieces, GChunks: pieces, Vars: p.Vars, Ptrs: p.Ptrs, RefName: ref, ProgIdx: -1}
			add(&pl)
		}
		progIdx++
	}

	// ------------------------------------------------------------ B. histories with redefinition
	for i := 0; i < nHist+nStale; i++ {
		stale := i >= nHist
		region := ""
		if stale {
			region = "stale-callee"
		}
		h := c11history(r.fork(), stale)
		ref := fmt.Sprintf("h%05d", i)
		addRef(ref, h.refSrc(), len(h.Vars), len(h.Ptrs))
		for _, mode := range []int{c11Eval, c11CompileExecute, c11CompileAST} {
			if mode != c11Eval && i%3 != mode {
				continue
			}
			pl := c11plan{Region: region, Kind: "history", Mode: mode, Chunks: h.Chunks, GChunks: h.Chunks, Vars: h.Vars, Ptrs: h.Ptrs, RefName: ref, ProgIdx: -1}
			add(&pl)
		}
	}

	// ------------------------------------------------------------ F. sessions that mix the entry points
	for i := 0; i < nMixed; i++ {
		g := &c11gen{r: r.fork()}
		p := g.programImp(4+g.r.intn(7), 2+g.r.intn(5))
		progs = append(progs, p)
		ref := fmt.Sprintf("p%05d", progIdx)
		addRef(ref, c11refSrc(p.Decls, bodySrc(p.Body), p.Vars, p.Ptrs, nil), len(p.Vars), len(p.Ptrs))
		whole := [][]c11item{p.wholeItemsImp()}
		wpl := c11plan{Kind: "whole", Mode: c11Eval, Chunks: whole, GChunks: whole, Vars: p.Vars, Ptrs: p.Ptrs, RefName: ref, ProgIdx: progIdx}
		add(&wpl)
		rr := r.fork()
		for c := 0; c < 3; c++ {
			steps := c11mixedSession(rr, p)
			region := ""
			if bad := c11visible(steps); bad >= 0 {
				// the session ends with the step that cannot see an import made under another source name
				// (what a failed chunk leaves behind is outside the model)
				region, steps = "import-scope", steps[:bad+1]
			}
			pl := c11plan{Region: region, Kind: "mixed", Mode: c11Eval, FS: []string{"mapfs", "dir"}[(i+c)%2], Steps: steps, GChunks: whole,
				Vars: p.Vars, Ptrs: p.Ptrs, RefName: ref, ProgIdx: progIdx}
			add(&pl)
		}
		progIdx++
		// region dir-scope: the declarations as a directory, then a chunk calling one of its functions
		if len(g.funcs) > 0 && i%3 == 0 {
			call := c11stmt{K: 'p', E: &c11expr{K: 'f', N: g.funcs[rr.intn(len(g.funcs))], A: g.konst()}}
			ref := fmt.Sprintf("p%05d", progIdx)
			addRef(ref, c11refSrc(p.Decls, []string{call.goSrc(false)}, p.Vars, p.Ptrs, nil), len(p.Vars), len(p.Ptrs))
			q := p
			q.Body = []c11stmt{call}
			progs = append(progs, q)
			steps := []c11step{{Kind: 'd', Chunk: c11hoist(p.Decls)}, {Kind: 'e', Entry: c11Eval, Chunk: []c11item{{K: 's', S: call}}}}
			pl := c11plan{Region: "dir-scope", Kind: "mixed", Mode: c11Eval, FS: []string{"mapfs", "dir"}[i%2], Steps: steps, GChunks: [][]c11item{q.wholeItemsImp()},
				Vars: p.Vars, Ptrs: p.Ptrs, RefName: ref, ProgIdx: -1}
			add(&pl)
			progIdx++
		}
	}

	// ------------------------------------------------------------ run implementation and reference
	var refRes map[string]outcome
	var refErr error
	var wg sync.WaitGroup
	wg.Add(1)
	go func() {
		defer wg.Done()
		refRes, refErr = goRefBatch(refProgs, 20*time.Second, false)
	}()
	parallelMap(len(plans), 0, func(k int) {
		pl := plans[k]
		if pl.Steps != nil {
			pl.Obs, pl.Fin = c11runSteps(pl.Steps, pl.Vars, pl.Ptrs, pl.FS, pl.Region == "import-scope")
		} else {
			pl.Obs, pl.Fin = c11run(pl.Mode, pl.Chunks, pl.Vars, pl.Ptrs, pl.FS)
		}
	})
	// directory form (importSrc): output only, compared with the whole evaluation
	type dirRes struct {
		out []int64
		err string
	}
	dirOut := make([][2]dirRes, len(progs))
	parallelMap(nMain, 0, func(k int) {
		p := progs[k]
		rr := newRng(*seed*1000003 + uint64(k))
		files := c11cut(rr, p.Decls, 2)
		files = append(files, []c11item{p.mainItem()})
		for j, mapfs := range []bool{false, true} {
			o, e := c11evalDir(files, mapfs)
			dirOut[k][j] = dirRes{o, e}
		}
	})
	wg.Wait()
	if refErr != nil {
		return fmt.Errorf("reference build: %w", refErr)
	}

	// ------------------------------------------------------------ compare, write cases
	var cases []func(memo *c11memo) string
	wholeOf := map[int]*c11plan{} // program -> its whole evaluation by Eval
	for _, pl := range plans {
		if pl.Kind == "whole" && pl.Mode == c11Eval && pl.ProgIdx >= 0 {
			wholeOf[pl.ProgIdx] = pl
		}
	}
	for _, pl := range plans {
		ri := refInfos[pl.RefName]
		refOut, refFin, ok := c11parseRef(refRes[pl.RefName], ri.nv, ri.np)
		if !ok {
			return fmt.Errorf("reference program %s did not run: %+v\n%s", pl.RefName, refRes[pl.RefName], ri.src)
		}
		in := pl.input()
		sm.CaseIndex[fmt.Sprint(pl.ID)] = in
		var obs []string
		for _, o := range pl.Obs {
			obs = append(obs, o.coq())
		}
		var refOutC []string
		for _, v := range refOut {
			refOutC = append(refOutC, coqZ(v))
		}
		var vs, ps []string
		for _, v := range pl.Vars {
			vs = append(vs, fmt.Sprint(v))
		}
		for _, p := range pl.Ptrs {
			ps = append(ps, fmt.Sprint(p))
		}
		pl, obsC, refC, refFinC, vsC, psC := pl, coqList(obs), coqList(refOutC), refFin.coq(), coqList(vs), coqList(ps)
		cases = append(cases, func(memo *c11memo) string {
			return fmt.Sprintf("(%d, %d, %s, %s, %s, %s, %s, %s, %s, %s)", pl.ID, pl.Mode, memo.steps(pl), vsC, psC,
				obsC, pl.Fin.coq(), memo.chunks(pl.GChunks), refC, refFinC)
		})
		sm.Evaluations++
		sm.ImplComparisons++
		sm.RefComparisons++
		sm.count("session:" + pl.Kind + ":" + c11modeNames[pl.Mode])
		sm.count(fmt.Sprintf("chunks:%02d", min(len(pl.Chunks), 12)))
		if pl.Region != "" {
			sm.count("region:" + pl.Region)
		}
		nontrivial := len(c11flatOut(pl.Obs)) >= 2
		if nontrivial {
			distinct.add(fmt.Sprint(in))
		}
		if len(sm.Samples) < 4 && pl.Kind == "pieces" && len(pl.Chunks) >= 4 && nontrivial {
			sm.Samples = append(sm.Samples, map[string]any{"input": in, "observed": pl.Obs, "final": pl.Fin})
		}
		implOut := c11flatOut(pl.Obs)
		if !c11allOK(pl.Obs) || !c11eqInts(implOut, refOut) || !c11eqFinal(pl.Fin, refFin) {
			sm.RefMismatches = append(sm.RefMismatches, refMismatch{ID: pl.ID, Region: pl.Region, Input: in,
				Impl: map[string]any{"chunks": pl.Obs, "final": pl.Fin}, Ref: map[string]any{"stdout": refOut, "final": refFin}, Note: "reference: compiled Go"})
			continue
		}
		// yaegi against yaegi: the same program evaluated in one piece
		if w := wholeOf[pl.ProgIdx]; w != nil && w != pl {
			sm.RefComparisons++
			if !c11eqInts(implOut, c11flatOut(w.Obs)) || !c11eqFinal(pl.Fin, w.Fin) {
				sm.RefMismatches = append(sm.RefMismatches, refMismatch{ID: pl.ID, Region: pl.Region, Input: in,
					Impl: map[string]any{"chunks": pl.Obs, "final": pl.Fin}, Ref: map[string]any{"stdout": c11flatOut(w.Obs), "final": w.Fin}, Note: "reference: yaegi, whole program in one Eval"})
			}
		}
	}
	for k := 0; k < nMain; k++ {
		w := wholeOf[k]
		for j, name := range []string{"dir", "mapfs"} {
			sm.Evaluations++
			sm.RefComparisons++
			sm.count("session:directory:EvalPath:" + name)
			d := dirOut[k][j]
			if d.err != "" || !c11eqInts(d.out, c11flatOut(w.Obs)) {
				id++
				in := map[string]any{"kind": "directory", "entry": "EvalPath(" + name + ")", "program": c11fileSrc(progs[k].wholeItems())}
				sm.CaseIndex[fmt.Sprint(id)] = in
				sm.RefMismatches = append(sm.RefMismatches, refMismatch{ID: id, Region: "", Input: in, Impl: map[string]any{"stdout": d.out, "error": d.err}, Ref: c11flatOut(w.Obs), Note: "reference: yaegi, whole program in one Eval"})
			}
		}
	}

	// ------------------------------------------------------------ C. richer programs (outside the model): yaegi against yaegi and against compiled Go
	if err := c11rich(r.fork(), nRich, sm, distinct, &id); err != nil {
		return err
	}

	// ------------------------------------------------------------ D. structured main bodies; E. directories with cross-file dependencies
	if err := c11blocks(r.fork(), nBlocks, sm, distinct, &id); err != nil {
		return err
	}
	if err := c11dirs(r.fork(), nDirs, sm, distinct, &id); err != nil {
		return err
	}
	c11relimport(r.fork(), nRel, sm, distinct, &id)
	// ------------------------------------------------------------ F. redefinition observed through function literals
	if err := c11redef(r.fork(), nRedef, sm, distinct, &id); err != nil {
		return err
	}

	hdr := "From Verif Require Import Lib.Str Session.Model Session.Cases.\nFrom Coq Require Import NArith.\nOpen Scope N_scope.\n"
	per := 120
	for i, k := 0, 0; i < len(cases); i, k = i+per, k+1 {
		j := min(i+per, len(cases))
		memo := &c11memo{names: map[string]string{}}
		var rendered []string
		for _, c := range cases[i:j] {
			rendered = append(rendered, c(memo))
		}
		body := fmt.Sprintf("%s\nDefinition cases : list sess_case := [\n%s\n].\nClose Scope N_scope.\nDefinition MY := Eval vm_compute in sess_mis_y cases.\nPrint MY.\nDefinition MG := Eval vm_compute in sess_mis_g cases.\nPrint MG.\n",
			memo.defs.String(), strings.Join(rendered, ";\n"))
		name := fmt.Sprintf("cases_sess_%d.v", k)
		sm.CasesFiles = append(sm.CasesFiles, name)
		if err := os.WriteFile(filepath.Join(*outDir, name), []byte(hdr+body), 0o644); err != nil {
			return err
		}
	}
	sm.DistinctNontriv = len(distinct)
	sm.Rule = "one evaluation = one session (one interpreter fed one program through one entry point with one cut); programs: seeded declaration-ordered programs of the model language " +
		"(int globals, a pointer kind, one-parameter functions that read/write globals and print, order-sensitive updates) x seeded cuts x {Eval, Compile+Execute, CompileAST+Execute, EvalPath files on disk and on a MapFS, Compile all then Execute all}, " +
		"sessions that mix the entry points step by step (unnamed sources through Eval / Compile+Execute / CompileAST, named files through EvalPath on disk or MapFS, directories; file first then chunks, chunks then file, file-chunks-file) whose later steps use symbols and imports of earlier steps, relative imports after a named file, histories that redefine functions between uses, sessions whose later chunks redefine one or several functions in either textual order with references through function literals (local, invoked, deferred, nested, stored in package variables, in methods, recursion through a literal) checked against the program in which every definition has a name of its own, richer hand-written programs (types with methods, closures, slices, maps, loops), seeded structured main bodies (for/range/if/switch/bare blocks with local := declarations, closures over block-local and loop variables called after the block, function literals with defer, nested literals; top-level multi-value definitions, redeclarations, captures by closures and pointers before a redeclaration, locals of main that shadow a package-level variable read by functions) evaluated inside func main and as top-level chunks, and packages spread over 2-4 files with initialisers that read variables and call functions of later files (EvalPath on disk and MapFS against Eval of the concatenated source and the compiled package); distinct = distinct (entry point, chunk texts); non-trivial = the session prints at least 2 lines"
	keys := sortedKeys(sm.Distribution)
	sort.Strings(keys)
	return sm.write(*outDir)
}

// c11lastUse returns the index of the last declaration that main's body mentions.
func c11lastUse(p c11prog) int {
	last := -1
	var walk func(e *c11expr, f func(kind byte, n int))
	walk = func(e *c11expr, f func(kind byte, n int)) {
		if e == nil {
			return
		}
		switch e.K {
		case 'v':
			f('v', e.N)
		case 'd':
			f('p', e.N)
		case 'f':
			f('f', e.N)
		}
		walk(e.A, f)
		walk(e.B, f)
	}
	use := func(kind byte, n int) {
		for i, d := range p.Decls {
			if d.K == kind && d.N == n && i > last {
				last = i
			}
		}
	}
	for _, s := range p.Body {
		switch s.K {
		case '=':
			use('v', s.X)
		case '&':
			use('v', s.X)
			use('p', s.P)
		case 's':
			use('p', s.P)
		}
		walk(s.E, use)
	}
	return last
}
