package main

import (
	"flag"
	"fmt"
	"go/build"
	"io"
	"os"
	"path/filepath"
	"reflect"
	"sort"
	"strings"
	"testing/fstest"

	"github.com/traefik/yaegi/interp"
)

// C17: file selection by build constraints.
//   impl  = interp.skipFile / buildLineOk / buildOk (through the verif exports) and EvalPath on a MapFS
//   Y, G  = coq/Build/Model.v, evaluated by coqc on the cases files written here
//   ref   = go/build.Context.MatchFile (installed Go release)

func init() {
	register("c17", "C17 build constraints: generate cases, run implementation and go/build reference", runC17)
}

type c17ctx struct {
	GOOS, GOARCH string
	Tags         []string
}

func (c c17ctx) coq() string {
	return fmt.Sprintf("(mkctx %s %s %s)", coqStr(c.GOOS), coqStr(c.GOARCH), coqStrList(c.Tags))
}

func (c c17ctx) refCtx(content string) *build.Context {
	ctx := build.Default
	ctx.GOOS, ctx.GOARCH = c.GOOS, c.GOARCH
	ctx.BuildTags = append([]string(nil), c.Tags...)
	ctx.CgoEnabled = false
	ctx.ToolTags = nil
	ctx.OpenFile = func(path string) (io.ReadCloser, error) {
		return io.NopCloser(strings.NewReader(content)), nil
	}
	return &ctx
}

func refMatch(c c17ctx, name, content string) (bool, error) {
	return c.refCtx(content).MatchFile("/d", name)
}

// term/option/line of a structured header
type pterm struct {
	Neg bool
	Tag string
}
type c17header struct {
	GoBuild string // rendered //go:build expression ("" = none)
	gbCoq   string
	Plus    [][][]pterm
	Doc     [][][]pterm
	YTags   []string
}

func coqPlus(ls [][][]pterm) string {
	var lines []string
	for _, l := range ls {
		var opts []string
		for _, o := range l {
			var ts []string
			for _, t := range o {
				ts = append(ts, fmt.Sprintf("(%s, %s)", coqBool(t.Neg), coqStr(t.Tag)))
			}
			opts = append(opts, coqList(ts))
		}
		lines = append(lines, coqList(opts))
	}
	return coqList(lines)
}

func (h c17header) coq() string {
	return fmt.Sprintf("(Build_header %s %s %s %s)", coqOpt(h.GoBuild != "", h.gbCoq), coqPlus(h.Plus), coqPlus(h.Doc), coqStrList(h.YTags))
}

func printPlusLine(l [][]pterm) string {
	var opts []string
	for _, o := range l {
		var ts []string
		for _, t := range o {
			if t.Neg {
				ts = append(ts, "!"+t.Tag)
			} else {
				ts = append(ts, t.Tag)
			}
		}
		opts = append(opts, strings.Join(ts, ","))
	}
	return " +build " + strings.Join(opts, " ")
}

// groups renders the header the same way as Model.print_header (checked in Coq for every case).
func (h c17header) groups() (groups [][]string, adjacent bool) {
	var g1, g2 []string
	if h.GoBuild != "" {
		g1 = append(g1, "go:build "+h.GoBuild)
	}
	for _, l := range h.Plus {
		g1 = append(g1, printPlusLine(l))
	}
	if len(h.YTags) > 0 {
		g1 = append(g1, " yaegi:tags "+strings.Join(h.YTags, " "))
	}
	for _, l := range h.Doc {
		g2 = append(g2, printPlusLine(l))
	}
	if len(g1) > 0 {
		groups = append(groups, g1)
	}
	if len(g2) > 0 {
		groups = append(groups, g2)
		adjacent = true
	}
	return
}

func renderSource(groups [][]string, adjacent bool, body string) string {
	var b strings.Builder
	for i, g := range groups {
		for _, l := range g {
			b.WriteString("//" + l + "\n")
		}
		if i < len(groups)-1 || !adjacent {
			b.WriteString("\n")
		}
	}
	b.WriteString("package p\n")
	b.WriteString(body)
	return b.String()
}

func coqGroups(groups [][]string) string {
	var gs []string
	for _, g := range groups {
		gs = append(gs, coqStrList(g))
	}
	return coqList(gs)
}

var (
	c17OSWords   = []string{"aix", "android", "darwin", "dragonfly", "freebsd", "hurd", "illumos", "ios", "js", "linux", "nacl", "netbsd", "openbsd", "plan9", "solaris", "wasip1", "windows", "zos"}
	c17ArchWords = []string{"386", "amd64", "amd64p32", "arm", "arm64", "arm64be", "armbe", "loong64", "mips", "mips64", "mips64le", "mips64p32", "mips64p32le", "mipsle", "ppc", "ppc64", "ppc64le", "riscv", "riscv64", "s390", "s390x", "sparc", "sparc64", "wasm"}
	c17Other     = []string{"foo", "test", "unix", "x"}
	c17Ctxs      = []c17ctx{
		{"linux", "amd64", nil}, {"windows", "386", nil}, {"darwin", "arm64", nil}, {"js", "wasm", nil},
		{"freebsd", "riscv64", nil}, {"android", "arm64", nil}, {"illumos", "amd64", nil}, {"ios", "arm64", nil},
		{"plan9", "arm", nil}, {"linux", "s390x", nil},
	}
	c17CustomTags = []string{"foo", "bar", "baz", "integration", "purego"}
)

type c17gen struct {
	r  *rng
	sm *summary
}

// plain vocabulary: GOOS/GOARCH words, custom tags; no word that go/build treats specially.
func (g *c17gen) plainTag(c c17ctx) string {
	switch g.r.intn(10) {
	case 0, 1:
		return c.GOOS
	case 2:
		return c.GOARCH
	case 3:
		return g.r.pick(c17OSWords)
	case 4:
		return g.r.pick(c17ArchWords)
	case 5:
		return "ignore"
	case 6:
		return fmt.Sprintf("go1.%d", 1+g.r.intn(40)) // canonical release tags (C17_plusbuild_partial covers them)
	default:
		return g.r.pick(c17CustomTags)
	}
}

func (g *c17gen) plusLines(c c17ctx, tag func(c17ctx) string) [][][]pterm {
	n := 1 + g.r.intn(3)
	var ls [][][]pterm
	for i := 0; i < n; i++ {
		no := 1 + g.r.intn(3)
		var l [][]pterm
		for j := 0; j < no; j++ {
			nt := 1 + g.r.intn(3)
			var o []pterm
			for k := 0; k < nt; k++ {
				o = append(o, pterm{g.r.chance(35), tag(c)})
			}
			l = append(l, o)
		}
		ls = append(ls, l)
	}
	return ls
}

func (g *c17gen) expr(c c17ctx, depth int) (string, string) {
	if depth == 0 || g.r.chance(30) {
		t := g.plainTag(c)
		return t, "(ETag " + coqStr(t) + ")"
	}
	switch g.r.intn(3) {
	case 0:
		a, ac := g.expr(c, depth-1)
		if strings.HasPrefix(a, "!") { // go/build rejects a double negation
			return a, ac
		}
		return "!" + a, "(ENot " + ac + ")"
	case 1:
		a, ac := g.expr(c, depth-1)
		b, bc := g.expr(c, depth-1)
		return "(" + a + " && " + b + ")", "(EAnd " + ac + " " + bc + ")"
	default:
		a, ac := g.expr(c, depth-1)
		b, bc := g.expr(c, depth-1)
		return "(" + a + " || " + b + ")", "(EOr " + ac + " " + bc + ")"
	}
}

func (g *c17gen) randCtx() c17ctx {
	c := c17Ctxs[g.r.intn(len(c17Ctxs))]
	// the main stream keeps to GOOS values without implied tags
	var tags []string
	for _, t := range c17CustomTags {
		if g.r.chance(30) {
			tags = append(tags, t)
		}
	}
	// names of other platforms are ordinary tags for go/build when they are listed in the build tags
	// (`-tags plan9` on linux selects a "+build plan9" file): the tag list is consulted for every word
	if g.r.chance(35) {
		for n := 1 + g.r.intn(2); n > 0; n-- {
			w := g.r.pick(c17OSWords)
			if g.r.bool() {
				w = g.r.pick(c17ArchWords)
			}
			if w != c.GOOS && w != c.GOARCH {
				tags = append(tags, w)
			}
		}
	}
	c.Tags = tags
	return c
}

func impliedOS(goos string) bool { return goos == "android" || goos == "illumos" || goos == "ios" }

func runC17(args []string) error {
	fs := flag.NewFlagSet("c17", flag.ExitOnError)
	out := fs.String("out", "/verif/build/C17", "output directory")
	tier := fs.String("tier", "quick", "quick|thorough")
	seed := fs.Uint64("seed", envSeed(), "seed")
	fs.Parse(args)
	if err := os.MkdirAll(*out, 0o755); err != nil {
		return err
	}
	g := &c17gen{r: newRng(*seed), sm: newSummary("C17")}
	sm := g.sm
	distinct := distinctSet{}
	nHeaders, nLines, nSeqs, nE2E := 1500, 1500, 150, 40
	nSess := 60
	nameCtxs := []c17ctx{c17Ctxs[0], c17Ctxs[1+int(*seed)%(len(c17Ctxs)-1)]}
	if *tier == "thorough" {
		nHeaders, nLines, nSeqs, nE2E = 40000, 40000, 3000, 150
		nSess = 400
		nameCtxs = c17Ctxs
	}

	var nameCases, lineCases, fileCases, rawCases, seqCases []string
	id := 0
	newID := func(input any) int {
		id++
		sm.CaseIndex[fmt.Sprint(id)] = input
		return id
	}

	// ---------------------------------------------------------------- A. file names (exhaustive over the word lists)
	words := append(append(append([]string{}, c17OSWords...), c17ArchWords...), c17Other...)
	var names []string
	for _, pre := range []string{"p", "a_b", ""} {
		for _, suf := range []string{".go", "_test.go"} {
			for _, x := range words {
				if pre != "" {
					names = append(names, pre+"_"+x+suf)
				} else {
					names = append(names, x+suf)
				}
				for _, y := range words {
					if pre != "" {
						names = append(names, pre+"_"+x+"_"+y+suf)
					} else {
						names = append(names, x+"_"+y+suf)
					}
				}
			}
		}
	}
	names = append(names, "p.go", "_p.go", ".p.go", "p.txt", "p_linux.c", "p", "a.b_linux.go", "a.b_windows.go", "p_.go", "p__.go", "p_linux_.go", "p__linux.go",
		"p_x_linux_amd64.go", "p_windows_x_amd64.go", "p_linux_amd64_x.go", "p_test_linux.go", "linux_test.go", "_test.go", "p_windows_amd64_test.go", "go", ".go", "_.go")
	for _, c := range nameCtxs {
		for _, skipTest := range []bool{true, false} {
			if !skipTest && *tier != "thorough" && c.GOOS != "linux" {
				continue
			}
			ictx := interp.VerifCtx(c.GOOS, c.GOARCH, c.Tags)
			for _, name := range names {
				implSkip := interp.VerifSkipFile(ictx, name, skipTest)
				match, err := refMatch(c, name, "package p\n")
				refSkip := !match || err != nil
				if filepath.Ext(name) != ".go" {
					refSkip = true
				}
				if skipTest && strings.HasSuffix(name, "_test.go") {
					refSkip = true
				}
				region := c17NameRegion(c, name, skipTest)
				in := map[string]any{"kind": "name", "goos": c.GOOS, "goarch": c.GOARCH, "name": name, "skipTest": skipTest}
				cid := newID(in)
				nameCases = append(nameCases, fmt.Sprintf("(%d%%N, %s, %s, %s, %s, %s)", cid, c.coq(), coqStr(name), coqBool(skipTest), coqBool(implSkip), coqBool(refSkip)))
				sm.Evaluations++
				sm.RefComparisons++
				sm.ImplComparisons++
				sm.count("name")
				if region != "" {
					sm.count("name:" + region)
				}
				if strings.Contains(name, "_") {
					distinct.add("name", c.GOOS, c.GOARCH, name, fmt.Sprint(skipTest))
				}
				if implSkip != refSkip {
					sm.RefMismatches = append(sm.RefMismatches, refMismatch{ID: cid, Region: region, Input: in, Impl: implSkip, Ref: refSkip})
				}
			}
		}
	}

	// ---------------------------------------------------------------- B. single constraint lines (impl vs Y only)
	lineAlphabet := []string{"linux", "amd64", "foo", "bar", "!foo", "!linux", "go1.1", "go1.22", "go1.23", "go1.24", "go1.99", "go1.0", "go1.", "go1.x", "go1.+5", "go1.-1", "go1.023", "go1.99999999999999999999", "!", "!!foo", "", "ignore", "unix", "a,b", "foo,bar", "foo,!bar", "linux,amd64", ",", "foo,", ",foo"}
	for i := 0; i < nLines; i++ {
		c := g.randCtx()
		var line string
		switch g.r.intn(8) {
		case 0:
			line = g.r.pick([]string{"+build", "+build ", "+build\tlinux", "build linux", " +build linux", "+buildx linux", "", "+build  ", "+build linux ", "// +build linux"})
		default:
			n := 1 + g.r.intn(4)
			var ws []string
			for j := 0; j < n; j++ {
				ws = append(ws, g.r.pick(lineAlphabet))
			}
			sep := " "
			if g.r.chance(10) {
				sep = "  "
			}
			line = "+build " + strings.Join(ws, sep)
		}
		ok, panicked := interp.VerifBuildLineOk(interp.VerifCtx(c.GOOS, c.GOARCH, c.Tags), line)
		cid := newID(map[string]any{"kind": "line", "ctx": c, "line": line})
		lineCases = append(lineCases, fmt.Sprintf("(%d%%N, %s, %s, %s)", cid, c.coq(), coqStr(line), coqOpt(!panicked, coqBool(ok))))
		sm.Evaluations++
		sm.ImplComparisons++
		sm.count("line")
		if panicked {
			sm.count("line:host-panic")
		}
		distinct.add("line", c.GOOS, c.GOARCH, strings.Join(c.Tags, ","), line)
	}

	// ---------------------------------------------------------------- C. structured headers
	ip := interp.New(interp.Options{})
	evalHeader := func(c c17ctx, groups [][]string, adjacent bool) (implOK, panicked bool, refOK bool, src string) {
		src = renderSource(groups, adjacent, "")
		ictx := interp.VerifCtx(c.GOOS, c.GOARCH, c.Tags)
		ok, _, err, p := ip.VerifBuildOk(ictx, "p.go", src)
		if err != nil {
			ok = false
		}
		m, rerr := refMatch(c, "p.go", src)
		return ok, p, m && rerr == nil, src
	}
	for i := 0; i < nHeaders; i++ {
		c := g.randCtx()
		h := c17header{}
		region := ""
		kind := g.r.intn(20)
		switch {
		case kind < 13: // main stream
			if impliedOS(c.GOOS) {
				c.GOOS = "linux"
			}
			h.Plus = g.plusLines(c, g.plainTag)
			if g.r.chance(15) {
				h.Plus = nil
			}
		case kind < 15:
			region = "gobuild"
			h.GoBuild, h.gbCoq = g.expr(c, 3)
			if g.r.bool() {
				h.Plus = g.plusLines(c, g.plainTag)
			}
		case kind < 17:
			region = "docplus"
			if g.r.bool() {
				h.Plus = g.plusLines(c, g.plainTag)
			}
			h.Doc = g.plusLines(c, g.plainTag)
		default:
			region = "vocab"
			special := []string{"unix", "gc", "go1.0", "go1.1", "go1.22", "go1.23", "go1.24", "go1.021", "go1.+5", "linux", "solaris", "darwin", "cgo", "gccgo"}
			h.Plus = g.plusLines(c, func(c c17ctx) string {
				if g.r.bool() {
					return g.r.pick(special)
				}
				return g.plainTag(c)
			})
		}
		groups, adjacent := h.groups()
		implOK, panicked, refOK, src := evalHeader(c, groups, adjacent)
		in := map[string]any{"kind": "header", "ctx": c, "source": src}
		cid := newID(in)
		fileCases = append(fileCases, fmt.Sprintf("(%d%%N, %s, %s, %s, %s, %s)", cid, c.coq(), h.coq(), coqGroups(groups), coqOpt(!panicked, coqBool(implOK)), coqBool(refOK)))
		sm.Evaluations++
		sm.RefComparisons++
		sm.ImplComparisons++
		sm.count("header")
		if region != "" {
			sm.count("header:" + region)
		}
		if len(h.Plus)+len(h.Doc) > 0 || h.GoBuild != "" {
			distinct.add("header", c.GOOS, c.GOARCH, strings.Join(c.Tags, ","), src)
		}
		if len(sm.Samples) < 3 && len(h.Plus) > 1 {
			sm.Samples = append(sm.Samples, in)
		}
		if panicked || implOK != refOK {
			var impl any = implOK
			if panicked {
				impl = "host panic"
			}
			sm.RefMismatches = append(sm.RefMismatches, refMismatch{ID: cid, Region: region, Input: in, Impl: impl, Ref: refOK})
		}
	}

	// ---------------------------------------------------------------- C'. raw (malformed / boundary) headers: impl vs Y, impl vs reference
	rawLines := []string{" +build linux", "+build linux", "  +build linux", " +build  linux", " +build linux  amd64", " +build linux,,amd64", " +build !!linux", " +build !", " +build", " +build ",
		" +build\tlinux", " +build windows", " +build !windows", " +build foo", "", " ", " hello", "go:build ignore", "go:build linux", "go:generate x", "line 1", "export f", "extern f",
		"a:b", "A:b +build windows", " yaegi:tags foo bar", " yaegi:tags  baz", " +build linux,amd64 windows", " +build windows ", "+build windows", " \t+build windows", "x:", ":x", "ab:c +build windows"}
	nRaw := nHeaders / 3
	for i := 0; i < nRaw; i++ {
		c := g.randCtx()
		ng := 1 + g.r.intn(3)
		var groups [][]string
		for j := 0; j < ng; j++ {
			nl := 1 + g.r.intn(3)
			var gl []string
			for k := 0; k < nl; k++ {
				gl = append(gl, g.r.pick(rawLines))
			}
			groups = append(groups, gl)
		}
		adjacent := g.r.chance(30)
		implOK, panicked, refOK, src := evalHeader(c, groups, adjacent)
		region := "malformed"
		in := map[string]any{"kind": "rawheader", "ctx": c, "source": src}
		cid := newID(in)
		rawCases = append(rawCases, fmt.Sprintf("(%d%%N, %s, %s, %s)", cid, c.coq(), coqGroups(groups), coqOpt(!panicked, coqBool(implOK))))
		sm.Evaluations++
		sm.RefComparisons++
		sm.ImplComparisons++
		sm.count("rawheader")
		distinct.add("raw", c.GOOS, c.GOARCH, strings.Join(c.Tags, ","), src)
		if panicked {
			sm.count("rawheader:host-panic")
		}
		if panicked || implOK != refOK {
			var impl any = implOK
			if panicked {
				impl = "host panic"
			}
			sm.RefMismatches = append(sm.RefMismatches, refMismatch{ID: cid, Region: region, Input: in, Impl: impl, Ref: refOK})
		}
	}

	// ---------------------------------------------------------------- D. file sequences sharing one context (yaegi:tags)
	for i := 0; i < nSeqs; i++ {
		c := g.randCtx()
		if impliedOS(c.GOOS) {
			c.GOOS = "linux"
		}
		nf := 2 + g.r.intn(4)
		ictx := interp.VerifCtx(c.GOOS, c.GOARCH, c.Tags)
		refTags := append([]string(nil), c.Tags...)
		var hs, gs, obs, refs []string
		var srcs []string
		anyPanic := false
		for j := 0; j < nf; j++ {
			h := c17header{}
			if g.r.chance(70) {
				h.Plus = g.plusLines(c, g.plainTag)
			}
			if g.r.chance(60) {
				n := 1 + g.r.intn(2)
				for k := 0; k < n; k++ {
					h.YTags = append(h.YTags, g.r.pick(c17CustomTags))
				}
			}
			groups, adjacent := h.groups()
			src := renderSource(groups, adjacent, "")
			srcs = append(srcs, src)
			ok, _, err, p := ip.VerifBuildOk(ictx, "p.go", src)
			if err != nil {
				ok = false
			}
			anyPanic = anyPanic || p
			rc := c
			rc.Tags = refTags
			m, rerr := refMatch(rc, "p.go", src)
			m = m && rerr == nil
			if m {
				for _, t := range h.YTags {
					found := false
					for _, x := range refTags {
						found = found || x == t
					}
					if !found {
						refTags = append(refTags, t)
					}
				}
			}
			hs = append(hs, h.coq())
			gs = append(gs, coqGroups(groups))
			obs = append(obs, coqOpt(!p, coqBool(ok)))
			refs = append(refs, coqBool(m))
		}
		in := map[string]any{"kind": "sequence", "ctx": c, "sources": srcs}
		cid := newID(in)
		seqCases = append(seqCases, fmt.Sprintf("(%d%%N, %s, %s, %s, %s, %s)", cid, c.coq(), coqList(hs), coqList(gs), coqList(obs), coqList(refs)))
		sm.Evaluations++
		sm.RefComparisons++
		sm.ImplComparisons++
		sm.count("sequence")
		distinct.add("seq", strings.Join(srcs, "\x01"))
		if len(sm.Samples) < 5 {
			sm.Samples = append(sm.Samples, in)
		}
		if strings.Join(obs, ";") != seqAsOpt(refs) {
			sm.RefMismatches = append(sm.RefMismatches, refMismatch{ID: cid, Region: "", Input: in, Impl: obs, Ref: refs})
		}
	}

	// ---------------------------------------------------------------- E. end to end: which files of a package take part (EvalPath on a MapFS)
	for i := 0; i < nE2E; i++ {
		c := c17ctx{GOOS: build.Default.GOOS, GOARCH: build.Default.GOARCH}
		for _, t := range c17CustomTags {
			if g.r.chance(30) {
				c.Tags = append(c.Tags, t)
			}
		}
		mfs := fstest.MapFS{}
		nf := 3 + g.r.intn(4)
		var expect, all []string
		type fileDesc struct{ Name, Source string }
		var files []fileDesc
		region := ""
		for j := 0; j < nf; j++ {
			sym := fmt.Sprintf("F%d", j)
			name := fmt.Sprintf("f%d", j)
			switch g.r.intn(6) {
			case 0:
				name += "_" + g.r.pick(c17OSWords)
			case 1:
				name += "_" + g.r.pick(c17ArchWords)
			case 2:
				name += "_" + g.r.pick(c17OSWords) + "_" + g.r.pick(c17ArchWords)
			}
			name += ".go"
			h := c17header{}
			if g.r.chance(60) {
				h.Plus = g.plusLines(c, g.plainTag)
			}
			groups, adjacent := h.groups()
			src := renderSource(groups, adjacent, fmt.Sprintf("\nfunc %s() string { return %q }\n", sym, sym))
			src = strings.Replace(src, "package p\n", "package pkg\n", 1)
			// spelling of the constraint comment: go/build (and yaegi) also accept "//+build" without a blank
			if g.r.chance(35) {
				src = strings.ReplaceAll(src, "// +build ", "//+build ")
			}
			mfs["src/pkg/"+name] = &fstest.MapFile{Data: []byte(src)}
			files = append(files, fileDesc{name, src})
			all = append(all, sym)
			m, err := refMatch(c, name, src)
			if m && err == nil {
				expect = append(expect, sym)
			}
			if r := c17NameRegion(c, name, true); r != "" {
				region = r
			}
		}
		// always one unconstrained file so that the package exists
		mfs["src/pkg/base.go"] = &fstest.MapFile{Data: []byte("package pkg\n\nfunc Base() string { return \"Base\" }\n")}
		files = append(files, fileDesc{"base.go", "package pkg"})
		got, evalErr := c17Visible(mfs, c.Tags, all)
		sort.Strings(expect)
		sort.Strings(got)
		in := map[string]any{"kind": "package", "tags": c.Tags, "files": files}
		cid := newID(in)
		sm.Evaluations++
		sm.RefComparisons++
		sm.count("package")
		distinct.add("pkg", fmt.Sprint(files), strings.Join(c.Tags, ","))
		if evalErr != "" || !reflect.DeepEqual(expect, got) {
			sm.RefMismatches = append(sm.RefMismatches, refMismatch{ID: cid, Region: region, Input: in, Impl: map[string]any{"visible": got, "error": evalErr}, Ref: expect})
		}
	}

	// ---------------------------------------------------------------- F. sessions of several packages on one interpreter (the tag set is the
	// interpreter's: a yaegi:tags line of a selected file counts for every file examined after it, in the same package or a later one)
	for i := 0; i < nSess; i++ {
		c := c17ctx{GOOS: build.Default.GOOS, GOARCH: build.Default.GOARCH}
		for _, t := range c17CustomTags {
			if g.r.chance(25) {
				c.Tags = append(c.Tags, t)
			}
		}
		np := 2 + g.r.intn(2)
		mfs := fstest.MapFS{}
		refTags := append([]string(nil), c.Tags...)
		type fileDesc struct{ Pkg, Name, Source string }
		var files []fileDesc
		var hs, gs, refs []string
		var syms [][2]string // package, symbol, in the order the files are examined
		var pkgs []string
		for p := 0; p < np; p++ {
			pk := fmt.Sprintf("pk%d", p)
			pkgs = append(pkgs, pk)
			// "a_base.go" is examined first and always selected, so that the package exists
			mfs["src/"+pk+"/a_base.go"] = &fstest.MapFile{Data: []byte("package " + pk + "\n\nfunc Base() string { return \"Base\" }\n")}
			nf := 2 + g.r.intn(3)
			for j := 0; j < nf; j++ {
				sym := fmt.Sprintf("F%d", j)
				name := fmt.Sprintf("f%d.go", j)
				h := c17header{}
				if g.r.chance(75) {
					h.Plus = g.plusLines(c, g.plainTag)
				}
				if g.r.chance(55) {
					n := 1 + g.r.intn(2)
					for k := 0; k < n; k++ {
						h.YTags = append(h.YTags, g.r.pick(c17CustomTags))
					}
				}
				groups, adjacent := h.groups()
				src := renderSource(groups, adjacent, fmt.Sprintf("\nfunc %s() string { return %q }\n", sym, pk+"."+sym))
				src = strings.Replace(src, "package p\n", "package "+pk+"\n", 1)
				mfs["src/"+pk+"/"+name] = &fstest.MapFile{Data: []byte(src)}
				files = append(files, fileDesc{pk, name, src})
				rc := c
				rc.Tags = refTags
				m, rerr := refMatch(rc, name, src)
				m = m && rerr == nil
				if m {
					for _, t := range h.YTags {
						found := false
						for _, x := range refTags {
							found = found || x == t
						}
						if !found {
							refTags = append(refTags, t)
						}
					}
				}
				hs = append(hs, h.coq())
				gs = append(gs, coqGroups(groups))
				refs = append(refs, coqBool(m))
				syms = append(syms, [2]string{pk, sym})
			}
		}
		how := g.r.intn(2) // 0: one Eval per import, 1: one import declaration for all
		visible, evalErr := c17SessionVisible(mfs, c.Tags, pkgs, syms, how == 1)
		var obs []string
		for _, v := range visible {
			obs = append(obs, coqOpt(evalErr == "", coqBool(v)))
		}
		in := map[string]any{"kind": "session", "tags": c.Tags, "packages": pkgs, "one_import_decl": how == 1, "files": files}
		cid := newID(in)
		seqCases = append(seqCases, fmt.Sprintf("(%d%%N, %s, %s, %s, %s, %s)", cid, c.coq(), coqList(hs), coqList(gs), coqList(obs), coqList(refs)))
		sm.Evaluations++
		sm.RefComparisons++
		sm.ImplComparisons++
		sm.count("session")
		sm.count(fmt.Sprintf("session-how-%d", how))
		distinct.add("sess", fmt.Sprint(files), strings.Join(c.Tags, ","), fmt.Sprint(how))
		if evalErr != "" || strings.Join(obs, ";") != seqAsOpt(refs) {
			sm.RefMismatches = append(sm.RefMismatches, refMismatch{ID: cid, Region: "", Input: in, Impl: map[string]any{"visible": visible, "error": evalErr}, Ref: refs})
		}
	}

	// ---------------------------------------------------------------- write cases files
	hdr := "From Verif Require Import Lib.Str Build.Model Build.Cases.\n"
	write := func(name, body string) error {
		sm.CasesFiles = append(sm.CasesFiles, name)
		return os.WriteFile(filepath.Join(*out, name), []byte(hdr+body), 0o644)
	}
	chunk := func(prefix, typ, fn string, cases []string, per int) error {
		for i, k := 0, 0; i < len(cases); i, k = i+per, k+1 {
			j := i + per
			if j > len(cases) {
				j = len(cases)
			}
			body := fmt.Sprintf("Definition cases : list %s := [\n%s\n].\nDefinition MY := Eval vm_compute in %s_y cases.\nPrint MY.\nDefinition MG := Eval vm_compute in %s_g cases.\nPrint MG.\n",
				typ, strings.Join(cases[i:j], ";\n"), fn, fn)
			if err := write(fmt.Sprintf("cases_%s_%d.v", prefix, k), body); err != nil {
				return err
			}
		}
		return nil
	}
	if err := chunk("name", "name_case", "name_mis", nameCases, 4000); err != nil {
		return err
	}
	if err := chunk("line", "line_case", "line_mis", lineCases, 4000); err != nil {
		return err
	}
	if err := chunk("file", "file_case", "file_mis", fileCases, 2500); err != nil {
		return err
	}
	if err := chunk("raw", "raw_case", "raw_mis", rawCases, 2500); err != nil {
		return err
	}
	if err := chunk("seq", "seq_case", "seq_mis", seqCases, 1000); err != nil {
		return err
	}
	sm.DistinctNontriv = len(distinct)
	sm.Exhaustive = false
	sm.Rule = "file names: every one- and two-word combination of the OS/arch words known to yaegi or go/build (plus unknown words) x 3 prefixes x {.go,_test.go} x contexts (exhaustive over that word set); " +
		"headers: seeded structured +build / go:build headers, raw boundary headers, file sequences with yaegi:tags, whole packages loaded through EvalPath on a MapFS, and sessions of several packages imported on one interpreter (tag set shared across packages; their observations are also checked against Y in Coq); " +
		"distinct = distinct (context, input) pairs; non-trivial = the name has an underscore part / the header has at least one constraint line"
	return sm.write(*out)
}

func seqAsOpt(refs []string) string {
	o := make([]string, len(refs))
	for i, r := range refs {
		o[i] = "(Some " + r + ")"
	}
	return strings.Join(o, ";")
}

// c17NameRegion classifies a file name into the known-finding regions of skipFile (the negated
// side conditions of Build.Proofs.C17_name_partial); "" = the region where the theorem applies.
func c17NameRegion(c c17ctx, name string, skipTest bool) string {
	yOS := map[string]bool{}
	yArch := map[string]bool{}
	for _, w := range []string{"aix", "android", "darwin", "dragonfly", "freebsd", "illumos", "ios", "js", "linux", "netbsd", "openbsd", "plan9", "solaris", "wasip1", "windows"} {
		yOS[w] = true
	}
	for _, w := range []string{"386", "amd64", "arm", "arm64", "loong64", "mips", "mips64", "mips64le", "mipsle", "ppc64", "ppc64le", "s390x", "wasm"} {
		yArch[w] = true
	}
	gOS := map[string]bool{}
	gArch := map[string]bool{}
	for _, w := range c17OSWords {
		gOS[w] = true
	}
	for _, w := range c17ArchWords {
		gArch[w] = true
	}
	if !strings.HasSuffix(name, ".go") {
		return ""
	}
	stem := strings.TrimSuffix(name, ".go")
	if strings.Contains(stem, ".") {
		return "name-dot"
	}
	i := strings.Index(stem, "_")
	if i < 0 {
		return ""
	}
	a := strings.Split(stem[i+1:], "_")
	if a[len(a)-1] == "test" {
		if skipTest {
			return ""
		}
		return "name-test"
	}
	for _, w := range a[max(0, len(a)-2):] {
		if gOS[w] != yOS[w] || gArch[w] != yArch[w] {
			return "name-lists"
		}
	}
	if impliedOS(c.GOOS) {
		return "name-implied"
	}
	if len(a) >= 2 {
		y := a[len(a)-1]
		if gOS[y] && y != c.GOOS {
			return "name-last-os"
		}
	}
	return ""
}

// c17Visible loads package "pkg" from the MapFS and reports which of the symbols are defined.
func c17Visible(mfs fstest.MapFS, tags []string, syms []string) (visible []string, evalErr string) {
	defer func() {
		if r := recover(); r != nil {
			evalErr = fmt.Sprint("host panic: ", r)
		}
	}()
	i := interp.New(interp.Options{GoPath: ".", BuildTags: tags, SourcecodeFilesystem: mfs})
	if _, err := i.Eval(`import "pkg"`); err != nil {
		return nil, err.Error()
	}
	for _, sname := range syms {
		v, err := i.Eval("pkg." + sname + "()")
		if err == nil && v.IsValid() && v.Kind() == reflect.String && v.String() == sname {
			visible = append(visible, sname)
		}
	}
	return visible, ""
}

// c17SessionVisible loads the packages in order on ONE interpreter (one Eval per import, or one import declaration)
// and reports, for every (package, symbol) in the order the files are examined, whether the symbol is defined.
func c17SessionVisible(mfs fstest.MapFS, tags []string, pkgs []string, syms [][2]string, oneDecl bool) (visible []bool, evalErr string) {
	defer func() {
		if r := recover(); r != nil {
			evalErr = fmt.Sprint("host panic: ", r)
		}
	}()
	visible = make([]bool, len(syms))
	i := interp.New(interp.Options{GoPath: ".", BuildTags: append([]string(nil), tags...), SourcecodeFilesystem: mfs})
	if oneDecl {
		src := "import (\n"
		for _, p := range pkgs {
			src += fmt.Sprintf("\t%q\n", p)
		}
		src += ")"
		if _, err := i.Eval(src); err != nil {
			return visible, err.Error()
		}
	} else {
		for _, p := range pkgs {
			if _, err := i.Eval(fmt.Sprintf("import %q", p)); err != nil {
				return visible, err.Error()
			}
		}
	}
	for k, ps := range syms {
		v, err := i.Eval(ps[0] + "." + ps[1] + "()")
		visible[k] = err == nil && v.IsValid() && v.Kind() == reflect.String && v.String() == ps[0]+"."+ps[1]
	}
	return visible, ""
}
