package main

import (
	"bytes"
	"context"
	"encoding/json"
	"flag"
	"fmt"
	"os"
	"os/exec"
	"path/filepath"
	"reflect"
	"regexp"
	"runtime"
	"sort"
	"strconv"
	"strings"
	"sync"
	"time"

	"github.com/traefik/yaegi/interp"
	"github.com/traefik/yaegi/stdlib"
)

// C08: concurrent execution is correct and free of interpreter-induced races.
//   impl  = real yaegi, run in child processes of TWO builds of this harness: the plain one and one
//           built with the Go race detector (go build -race); seeded runtime.Gosched injection through
//           interp.VerifStepHook; GOMAXPROCS 1/2/16; goroutine counts 2/4/8/32
//   ref   = the same program compiled by the Go toolchain (goRefBatch); zero race reports
//   Y, G  = coq/Conc/Model.v: closed forms of every template's output (G) and the set of outcomes the
//           interpreter's mechanism accepts (Y; depends on the select variant read from the source by tr-capture)

func init() {
	register("c08", "C08 concurrency: schedule-independent programs under the race detector, host-concurrent calls, parallel interpreters", runC08)
	register("c08-child", "internal: run one C08 job (in this binary; the race build of this binary reports data races on stderr)", runC08Child)
}

// ---------------------------------------------------------------- templates

const (
	tplPipeline = iota
	tplFanout
	tplMutex
	tplProdCons
	tplSelMain
	tplSelPriv
	tplClosure
	tplHostCall
	tplMulti
	tplSelSend
	tplSelSendX
	tplGoLit
	tplOps
	nTpl
)

var c08TplName = []string{"pipeline", "fanout", "mutex", "prodcons", "selmain", "selpriv", "closure", "hostcall", "multi", "selsend", "selsendx", "golit", "ops"}
var c08TplCoq = []string{"TPipeline", "TFanout", "TMutex", "TProdCons", "TSelMain", "TSelPriv", "TClosure", "THostCall", "TMulti", "TSelSend", "TSelSendX", "TGoLit", "TOps"}

const (
	regionSelect   = "select-shared-cases"
	regionSendExpr = "select-send-expr"
	regionGetFunc  = "getfunc-writeback"
	regionLazyType = "case-lazy-reftype"
)

type c08params struct {
	Tpl, N, K, A, B, Buf int
	Sub                  int    // tplOps: index into c08Ops (the language mechanism exercised)
	SubName              string `json:",omitempty"`
}

func (p c08params) coq() string {
	if p.Tpl == tplOps && c08Ops[p.Sub].Region == regionLazyType {
		return fmt.Sprintf("(mkparams TOpsLazy %d %d %s %s)", p.N, p.K, coqZ(int64(p.A)), coqZ(int64(p.B)))
	}
	return fmt.Sprintf("(mkparams %s %d %d %s %s)", c08TplCoq[p.Tpl], p.N, p.K, coqZ(int64(p.A)), coqZ(int64(p.B)))
}

func c08subst(src string, p c08params) string {
	r := strings.NewReplacer("@N@", strconv.Itoa(p.N), "@K@", strconv.Itoa(p.K), "@A@", strconv.Itoa(p.A), "@B@", strconv.Itoa(p.B), "@BUF@", strconv.Itoa(p.Buf))
	return r.Replace(src)
}

// Every program prints integers only, one per line, in a deterministic order.
var c08Sources = map[int]string{
	tplPipeline: `package main

import "fmt"

func stage(in chan int, out chan int, a, b int) {
	for v := range in {
		out <- (v*a + b) % 1009
	}
	close(out)
}

func main() {
	src := make(chan int, @BUF@)
	in := src
	for j := 0; j < @N@; j++ {
		out := make(chan int, @BUF@)
		go stage(in, out, @A@+j, @B@+j)
		in = out
	}
	go func() {
		for x := 1; x <= @K@; x++ {
			src <- x
		}
		close(src)
	}()
	for v := range in {
		fmt.Println(v)
	}
}
`,
	tplFanout: `package main

import (
	"fmt"
	"sort"
	"strconv"
	"sync"
)

func work(id int, jobs chan int, results chan int, wg *sync.WaitGroup) {
	defer wg.Done()
	for j := range jobs {
		acc := 0
		for i := 0; i < 3; i++ {
			acc += (j*@A@ + @B@ + i) % 1009
		}
		acc += 10000 * len(strconv.Itoa(acc))
		results <- acc
	}
}

func main() {
	jobs := make(chan int, @BUF@)
	results := make(chan int, @K@)
	var wg sync.WaitGroup
	for id := 0; id < @N@; id++ {
		wg.Add(1)
		go work(id, jobs, results, &wg)
	}
	for j := 1; j <= @K@; j++ {
		jobs <- j
	}
	close(jobs)
	wg.Wait()
	close(results)
	var all []int
	for r := range results {
		all = append(all, r)
	}
	sort.Ints(all)
	for _, r := range all {
		fmt.Println(r)
	}
}
`,
	tplMutex: `package main

import (
	"fmt"
	"sync"
)

type counter struct {
	mu    sync.Mutex
	total int
}

func (c *counter) add(d int) {
	c.mu.Lock()
	c.total += d
	c.mu.Unlock()
}

func bump(id int, c *counter, locals []int, start chan bool, tokens chan int, wg *sync.WaitGroup) {
	defer wg.Done()
	<-start
	t := <-tokens
	mine := t - t
	for i := 0; i < @K@; i++ {
		c.add(id + @A@)
		mine += id + @A@
	}
	locals[id] = mine
}

func main() {
	c := &counter{}
	locals := make([]int, @N@)
	start := make(chan bool)
	tokens := make(chan int, @BUF@)
	var wg sync.WaitGroup
	for id := 0; id < @N@; id++ {
		wg.Add(1)
		go bump(id, c, locals, start, tokens, &wg)
	}
	close(start)
	for id := 0; id < @N@; id++ {
		tokens <- id
	}
	wg.Wait()
	fmt.Println(c.total)
	for _, v := range locals {
		fmt.Println(v)
	}
}
`,
	tplProdCons: `package main

import (
	"fmt"
	"sync"
)

func consume(ch chan int, mu *sync.Mutex, total, count *int, wg *sync.WaitGroup) {
	defer wg.Done()
	s, c := 0, 0
	for {
		v, ok := <-ch
		if !ok {
			break
		}
		s += v
		c++
	}
	mu.Lock()
	*total += s
	*count += c
	mu.Unlock()
}

func main() {
	ch := make(chan int, @BUF@)
	var mu sync.Mutex
	var wg sync.WaitGroup
	total, count := 0, 0
	for id := 0; id < @N@; id++ {
		wg.Add(1)
		go consume(ch, &mu, &total, &count, &wg)
	}
	go func() {
		for x := 1; x <= @K@; x++ {
			ch <- (x*@A@ + @B@) % 1009
		}
		close(ch)
	}()
	wg.Wait()
	fmt.Println(total)
	fmt.Println(count)
}
`,
	// the select statement is executed by the main goroutine only
	tplSelMain: `package main

import (
	"fmt"
	"sync"
)

func produce(id int, c chan int, wg *sync.WaitGroup) {
	defer wg.Done()
	for x := 1; x <= @K@; x++ {
		c <- ((id*@K@+x)*@A@ + @B@) % 1009
	}
}

func main() {
	c0 := make(chan int, @BUF@)
	c1 := make(chan int, @BUF@)
	var wg sync.WaitGroup
	for id := 0; id < @N@; id++ {
		wg.Add(1)
		if id%2 == 0 {
			go produce(id, c0, &wg)
		} else {
			go produce(id, c1, &wg)
		}
	}
	go func() {
		wg.Wait()
		close(c0)
		close(c1)
	}()
	s0, n0, s1, n1 := 0, 0, 0, 0
	d0, d1 := false, false
	for !(d0 && d1) {
		select {
		case v, ok := <-c0:
			if !ok {
				d0 = true
				continue
			}
			s0 += v
			n0++
		case v, ok := <-c1:
			if !ok {
				d1 = true
				continue
			}
			s1 += v
			n1++
		}
	}
	fmt.Println(s0)
	fmt.Println(n0)
	fmt.Println(s1)
	fmt.Println(n1)
}
`,
	// ONE select statement executed concurrently by all workers, each on its two PRIVATE channels.
	// Values carry the owner's id; a worker counts the values that are not its own (cross-talk).
	// Terminates also when workers receive on each other's channels (all channels are buffered and get closed).
	tplSelPriv: `package main

import (
	"fmt"
	"sync"
)

func worker(id int, pa, pb chan int, res []int, wg *sync.WaitGroup) {
	defer wg.Done()
	sum, cnt, bad := 0, 0, 0
	da, db := false, false
	for !(da && db) {
		select {
		case v, ok := <-pa:
			if !ok {
				da = true
				continue
			}
			if v/100000 != id {
				bad++
			}
			sum += v % 100000
			cnt++
		case v, ok := <-pb:
			if !ok {
				db = true
				continue
			}
			if v/100000 != id {
				bad++
			}
			sum += v % 100000
			cnt++
		}
	}
	res[3*id] = sum
	res[3*id+1] = cnt
	res[3*id+2] = bad
}

func feed(id int, pa, pb chan int, wg *sync.WaitGroup) {
	defer wg.Done()
	for x := 1; x <= @K@; x++ {
		pa <- id*100000 + (x*@A@+@B@)%1009
		pb <- id*100000 + (x*@B@+@A@)%1009
	}
	close(pa)
	close(pb)
}

func main() {
	res := make([]int, 3*@N@)
	var wg sync.WaitGroup
	for id := 0; id < @N@; id++ {
		pa := make(chan int, @K@)
		pb := make(chan int, @K@)
		wg.Add(2)
		go worker(id, pa, pb, res, &wg)
		go feed(id, pa, pb, &wg)
	}
	wg.Wait()
	for _, v := range res {
		fmt.Println(v)
	}
}
`,
	// closures created concurrently by the same function literal statement (getFunc clones the frame)
	tplClosure: `package main

import (
	"fmt"
	"sync"
)

func mk(id int) func(int) int {
	off := id * @A@
	return func(x int) int {
		off++
		return x + off
	}
}

func worker(id int, res []int, wg *sync.WaitGroup) {
	defer wg.Done()
	f := mk(id)
	s := 0
	for x := 0; x < @K@; x++ {
		s += f(x)
	}
	res[id] = s
}

func main() {
	res := make([]int, @N@)
	var wg sync.WaitGroup
	run := func(k int) {
		worker(k, res, &wg)
	}
	k := 0
	for id := 0; id < @N@; id++ {
		wg.Add(1)
		k = id // one variable for all iterations: the go statement must pass its value at this point
		go run(k) // a closure value: the goroutine branch of call that copies the arguments
	}
	wg.Wait()
	for _, v := range res {
		fmt.Println(v)
	}
}
`,
	// a function literal evaluated again and again while goroutines started from its earlier evaluations end:
	// getFunc's wrapper writes the literal's frame slot back when a call ends (known finding, region
	// getfunc-writeback): the next go statement may find a stale closure (captured base of an older
	// iteration) or a nil function there (host crash)
	tplGoLit: `package main

import (
	"fmt"
	"sync"
)

func main() {
	res := make([]int, @N@)
	var wg sync.WaitGroup
	for id := 0; id < @N@; id++ {
		wg.Add(1)
		base := id * @A@
		go func(k int) {
			defer wg.Done()
			s := 0
			for x := 0; x < @K@; x++ {
				s += x + base
			}
			res[k] = s + @B@
		}(id)
	}
	wg.Wait()
	for _, v := range res {
		fmt.Println(v)
	}
}
`,
	// select with a send case and a default, executed by one goroutine (the producer) at a time
	tplSelSend: `package main

import "fmt"

func main() {
	c := make(chan int, @BUF@)
	done := make(chan int)
	go func() {
		s, n := 0, 0
		for v := range c {
			s += v
			n++
		}
		done <- s
		done <- n
	}()
	spins := 0
	for x := 1; x <= @K@*@N@; {
		v := (x*@A@ + @B@) % 1009
		select {
		case c <- v:
			x++
		default:
			spins++
		}
	}
	close(c)
	fmt.Println(<-done)
	fmt.Println(<-done)
}
`,
	// as selsend, but the value of the send clause is an expression: yaegi does not evaluate the operand
	// sub-expression x*A of the clause (known finding, region select-send-expr): every value sent is 0*A+B
	tplSelSendX: `package main

import "fmt"

func main() {
	c := make(chan int, @BUF@)
	done := make(chan int)
	go func() {
		s, n := 0, 0
		for v := range c {
			s += v
			n++
		}
		done <- s
		done <- n
	}()
	spins := 0
	for x := 1; x <= @K@*@N@; {
		select {
		case c <- x*@A@ + @B@:
			x++
		default:
			spins++
		}
	}
	close(c)
	fmt.Println(<-done)
	fmt.Println(<-done)
}
`,
}

// function called concurrently by N host goroutines (package foo, exported F)
const c08HostSrc = `package foo

func F(x int) int {
	s := 0
	g := func(y int) int { return (y*@A@ + @B@) % 1009 }
	for i := 0; i < @K@; i++ {
		s += g(x + i)
	}
	return s
}
`

// reference program for the host-call template: the same function, called sequentially
const c08HostRefMain = `package main

import "fmt"

func F(x int) int {
	s := 0
	g := func(y int) int { return (y*@A@ + @B@) % 1009 }
	for i := 0; i < @K@; i++ {
		s += g(x + i)
	}
	return s
}

func main() {
	for x := 0; x < @N@; x++ {
		fmt.Println(F(x))
	}
}
`

func c08source(p c08params) string {
	switch p.Tpl {
	case tplHostCall:
		return c08subst(c08HostSrc, p)
	case tplMulti:
		return "" // see c08multiSources
	case tplOps:
		return c08subst(c08opsSource(p.Sub), p)
	}
	return c08subst(c08Sources[p.Tpl], p)
}

// the programs of the N interpreters of a multi job: prodcons instances with a shifted by the interpreter index
func c08multiSources(p c08params) []string {
	var l []string
	for i := 0; i < p.N; i++ {
		q := p
		q.Tpl, q.N, q.A = tplProdCons, 2, p.A+i
		l = append(l, c08subst(c08Sources[tplProdCons], q))
	}
	return l
}

// ---------------------------------------------------------------- jobs, child side

type c08job struct {
	ID       int       `json:"id"`
	P        c08params `json:"p"`
	Kind     string    `json:"kind"` // prog | host | multi
	Sources  []string  `json:"sources"`
	GMP      int       `json:"gmp"`
	YieldPct int       `json:"yield_pct"`
	YieldSd  uint64    `json:"yield_seed"`
	Race     bool      `json:"race"`
	Region   string    `json:"region"`
}

type c08result struct {
	Out   outcome `json:"out"`
	Steps uint64  `json:"steps"`
	Race  bool    `json:"race_enabled"`
}

var (
	c08hookCtr  uint64
	c08hookSeed uint64
	c08hookPct  uint64
)

// c08Hook runs before every interpreted operation, on the executing goroutine. It must not
// synchronise goroutines with each other (an atomic counter would create happens-before edges and
// hide races from the detector): it uses a plain counter and is excluded from race instrumentation.
//
//go:norace
func c08Hook(_ *interp.Interpreter, _ uint64) {
	c08hookCtr++
	if c08hookPct == 0 {
		return
	}
	z := c08hookCtr*0x9E3779B97F4A7C15 + c08hookSeed
	z = (z ^ (z >> 30)) * 0xBF58476D1CE4E5B9
	z = (z ^ (z >> 27)) * 0x94D049BB133111EB
	z ^= z >> 31
	if z%100 < c08hookPct {
		runtime.Gosched()
	}
}

//go:norace
func c08Steps() uint64 { return c08hookCtr }

func runC08Child(args []string) error {
	fs := flag.NewFlagSet("c08-child", flag.ExitOnError)
	jobFile := fs.String("job", "", "job file (JSON)")
	fs.Parse(args)
	b, err := os.ReadFile(*jobFile)
	if err != nil {
		return err
	}
	var j c08job
	if err := json.Unmarshal(b, &j); err != nil {
		return err
	}
	runtime.GOMAXPROCS(j.GMP)
	c08hookSeed, c08hookPct = j.YieldSd, uint64(j.YieldPct)
	interp.VerifStepHook = c08Hook
	var res c08result
	res.Race = c08raceEnabled
	switch j.Kind {
	case "prog":
		res.Out = runYaegi(j.Sources[0], yaegiOpts{Timeout: 40 * time.Second})
	case "host":
		res.Out = c08hostCall(j)
	case "multi":
		res.Out = c08multi(j)
	default:
		return fmt.Errorf("unknown job kind %q", j.Kind)
	}
	res.Steps = c08Steps()
	return json.NewEncoder(os.Stdout).Encode(res)
}

// N host goroutines call one exported script function concurrently through reflect.Value.Call.
func c08hostCall(j c08job) (r outcome) {
	defer func() {
		if p := recover(); p != nil {
			r = outcome{End: "host-crash:" + fmt.Sprint(p)}
		}
	}()
	i := interp.New(interp.Options{})
	if err := i.Use(stdlib.Symbols); err != nil {
		return outcome{End: "host-crash:use"}
	}
	if _, err := i.Eval(j.Sources[0]); err != nil {
		return outcome{End: yaegiEnd(err)}
	}
	v, err := i.Eval("foo.F")
	if err != nil {
		return outcome{End: yaegiEnd(err)}
	}
	n := j.P.N
	results := make([]int64, n)
	crashes := make([]string, n)
	var wg sync.WaitGroup
	for g := 0; g < n; g++ {
		wg.Add(1)
		go func(g int) {
			defer wg.Done()
			defer func() {
				if p := recover(); p != nil {
					crashes[g] = fmt.Sprint(p)
				}
			}()
			results[g] = v.Call([]reflect.Value{reflect.ValueOf(g)})[0].Int()
		}(g)
	}
	wg.Wait()
	var b strings.Builder
	for g := 0; g < n; g++ {
		if crashes[g] != "" {
			return outcome{End: "host-crash:" + crashes[g]}
		}
		fmt.Fprintln(&b, results[g])
	}
	return outcome{Stdout: b.String(), End: "ok"}
}

// N independent interpreters evaluate their programs in parallel.
func c08multi(j c08job) outcome {
	n := len(j.Sources)
	outs := make([]outcome, n)
	var wg sync.WaitGroup
	for g := 0; g < n; g++ {
		wg.Add(1)
		go func(g int) {
			defer wg.Done()
			outs[g] = runYaegi(j.Sources[g], yaegiOpts{Timeout: 40 * time.Second})
		}(g)
	}
	wg.Wait()
	var b strings.Builder
	for g := 0; g < n; g++ {
		if outs[g].End != "ok" {
			return outcome{Stdout: b.String(), End: fmt.Sprintf("interp%d:%s", g, outs[g].End)}
		}
		b.WriteString(outs[g].Stdout)
	}
	return outcome{Stdout: b.String(), End: "ok"}
}

// ---------------------------------------------------------------- race reports

type c08race struct {
	InInterp bool     `json:"in_interp"` // a stack frame of the report is inside github.com/traefik/yaegi/interp
	Select   bool     `json:"select"`    // at least one of the two accesses is made by the exec closure of _select (incl. reflect.Select called from it)
	GetFunc  bool     `json:"getfunc"`   // one access is the write-back of the literal's slot by getFunc's wrapper (getFunc.func1.1), the other is in getFunc's exec closure
	Tops     []string `json:"tops"`      // first yaegi function of each access stack
	Text     string   `json:"text,omitempty"`
}

var c08fnLine = regexp.MustCompile(`(?m)^  (\S+)\(\)$`)

// parseRaces splits the stderr of a race-enabled child into reports.
func parseRaces(stderr string) []c08race {
	var res []c08race
	parts := strings.Split(stderr, "==================")
	for _, part := range parts {
		if !strings.Contains(part, "WARNING: DATA RACE") {
			continue
		}
		// access sections: text up to the first "Goroutine N (...) created at:" paragraph
		body := part
		if i := strings.Index(body, "\nGoroutine "); i >= 0 {
			body = body[:i]
		}
		secs := strings.Split(strings.TrimSpace(body), "\n\n")
		r := c08race{}
		nWB, nGF := 0, 0
		for _, sec := range secs {
			fns := c08fnLine.FindAllStringSubmatch(sec, -1)
			if len(fns) == 0 {
				continue
			}
			top, inSel, inWB, inGF := "", false, false, false
			for _, m := range fns {
				fn := m[1]
				if strings.Contains(fn, "github.com/traefik/yaegi/interp.") {
					r.InInterp = true
					if top == "" {
						top = strings.TrimPrefix(fn, "github.com/traefik/yaegi/")
					}
					if strings.Contains(fn, "yaegi/interp._select.") {
						inSel = true
					}
					if strings.HasSuffix(fn, "yaegi/interp.getFunc.func1.1") {
						inWB = true
					} else if strings.HasSuffix(fn, "yaegi/interp.getFunc.func1") {
						inGF = true
					}
				}
			}
			if top == "" && len(fns) > 0 {
				top = fns[0][1]
			}
			r.Tops = append(r.Tops, top)
			if inSel {
				r.Select = true
			}
			if inWB {
				nWB++
			} else if inGF {
				nGF++
			}
		}
		r.GetFunc = nWB >= 1 && nWB+nGF >= 2 && !r.Select
		if strings.Contains(part, "github.com/traefik/yaegi/interp.") {
			r.InInterp = true
		}
		txt := strings.TrimSpace(part)
		if len(txt) > 1800 {
			txt = txt[:1800] + " ..."
		}
		r.Text = txt
		res = append(res, r)
	}
	return res
}

// ---------------------------------------------------------------- parent side

type c08obs struct {
	Job     c08job
	Out     outcome
	Races   []c08race
	Steps   uint64
	Err     string
	Elapsed time.Duration
}

func c08harnessDir() string {
	self, err := os.Executable()
	if err != nil {
		return ""
	}
	return filepath.Join(filepath.Dir(filepath.Dir(self)), "harness")
}

// ensureRaceBinary builds (incrementally: go build relinks only when an input changed) the
// race-detector build of this harness next to the plain binary.
func ensureRaceBinary() (string, error) {
	self, err := os.Executable()
	if err != nil {
		return "", err
	}
	bin := filepath.Join(filepath.Dir(self), "vh-race")
	hdir := c08harnessDir()
	if _, err := os.Stat(filepath.Join(hdir, "go.mod")); err != nil {
		return "", fmt.Errorf("harness sources not found at %s: %v", hdir, err)
	}
	args := []string{"build", "-race", "-tags", "verif", "-o", bin}
	if repo := os.Getenv("VERIF_REPO"); repo != "" {
		if rp, err := filepath.EvalSymlinks(repo); err == nil && rp != "/repo" {
			args = append(args, "-modfile="+filepath.Join(hdir, "go.alt.mod"))
		}
	}
	args = append(args, ".")
	ctx, cancel := context.WithTimeout(context.Background(), 15*time.Minute)
	defer cancel()
	cmd := exec.CommandContext(ctx, "go", args...)
	cmd.Dir = hdir
	cmd.Env = append(os.Environ(), "GOFLAGS=-mod=mod", "GOPROXY=off", "GOSUMDB=off", "GOTOOLCHAIN=local", "CGO_ENABLED=1")
	out, err := cmd.CombinedOutput()
	if err != nil {
		return "", fmt.Errorf("go build -race failed: %v\n%s", err, out)
	}
	// the binary must really carry the detector
	probe := exec.Command(bin, "c08-probe")
	pout, _ := probe.CombinedOutput()
	if !strings.Contains(string(pout), "race-detector:on") {
		return "", fmt.Errorf("race build does not report an active detector: %s", pout)
	}
	return bin, nil
}

func init() {
	register("c08-probe", "internal: report whether this binary was built with the race detector", func([]string) error {
		if c08raceEnabled {
			fmt.Println("race-detector:on")
			// and that it detects: two unsynchronised writes
			return nil
		}
		fmt.Println("race-detector:off")
		return nil
	})
}

func c08runChild(bin string, j c08job, dir string) c08obs {
	t0 := time.Now()
	o := c08obs{Job: j}
	jf := filepath.Join(dir, fmt.Sprintf("job%d.json", j.ID))
	b, _ := json.Marshal(j)
	if err := os.WriteFile(jf, b, 0o644); err != nil {
		o.Err = err.Error()
		return o
	}
	defer os.Remove(jf)
	ctx, cancel := context.WithTimeout(context.Background(), 120*time.Second)
	defer cancel()
	cmd := exec.CommandContext(ctx, bin, "c08-child", "-job", jf)
	cmd.Env = append(os.Environ(), "GORACE=halt_on_error=0 exitcode=0 history_size=3")
	var so, se bytes.Buffer
	cmd.Stdout, cmd.Stderr = &so, &se
	err := cmd.Run()
	o.Elapsed = time.Since(t0)
	var r c08result
	if json.Unmarshal(so.Bytes(), &r) == nil && r.Out.End != "" {
		o.Out, o.Steps = r.Out, r.Steps
		if j.Race && !r.Race {
			o.Err = "race job ran in a binary without the race detector"
		}
	} else if ctx.Err() != nil {
		o.Out = outcome{End: "timeout"}
	} else {
		msg := firstLine(se.String())
		if i := strings.Index(se.String(), "panic: "); i >= 0 {
			msg = firstLine(se.String()[i:]) // the child died from a panic in a goroutine (race reports may precede it)
		} else if i := strings.Index(se.String(), "fatal error: "); i >= 0 {
			msg = firstLine(se.String()[i:])
		}
		o.Out = outcome{Stdout: so.String(), End: "host-crash:" + firstLine(fmt.Sprint(err)) + ":" + msg}
	}
	o.Races = parseRaces(se.String())
	return o
}

func parseInts(s string) ([]int64, bool) {
	var l []int64
	for _, ln := range strings.Split(strings.TrimSpace(s), "\n") {
		if ln == "" {
			continue
		}
		v, err := strconv.ParseInt(strings.TrimSpace(ln), 10, 64)
		if err != nil {
			return nil, false
		}
		l = append(l, v)
	}
	return l, true
}

func coqZList(l []int64) string {
	it := make([]string, len(l))
	for i, v := range l {
		it[i] = coqZ(v)
	}
	return coqList(it)
}

func runC08(args []string) error {
	fs := flag.NewFlagSet("c08", flag.ExitOnError)
	out := fs.String("out", "/verif/build/C08", "output directory")
	tier := fs.String("tier", "quick", "quick|thorough")
	seed := fs.Uint64("seed", envSeed(), "seed")
	fs.Parse(args)
	if err := os.MkdirAll(*out, 0o755); err != nil {
		return err
	}
	sm := newSummary("C08")
	r := newRng(*seed)
	thorough := *tier == "thorough"

	// ---- the race build (loud failure: without the detector the check cannot decide half of the property)
	t0 := time.Now()
	raceBin, err := ensureRaceBinary()
	if err != nil {
		fmt.Fprintln(os.Stderr, "C08: THE GO RACE DETECTOR IS NOT AVAILABLE; THE CHECK CANNOT OBSERVE DATA RACES:", err)
		return fmt.Errorf("race detector unavailable: %v", err)
	}
	sm.Notes = append(sm.Notes, fmt.Sprintf("race build %s ready in %.1fs", filepath.Base(raceBin), time.Since(t0).Seconds()))
	plainBin, _ := os.Executable()

	// ---- generate jobs
	goroutines := []int{2, 4, 8, 32}
	gmps := []int{1, 2, 16}
	yields := []int{0, 5, 30}
	var jobs []c08job
	id := 0
	addJob := func(p c08params, gmp, ypct int, race bool) {
		id++
		j := c08job{ID: id, P: p, GMP: gmp, YieldPct: ypct, YieldSd: r.next(), Race: race, Kind: "prog"}
		switch p.Tpl {
		case tplHostCall:
			j.Kind, j.Sources = "host", []string{c08source(p)}
		case tplMulti:
			j.Kind, j.Sources = "multi", c08multiSources(p)
		default:
			j.Sources = []string{c08source(p)}
		}
		if p.Tpl == tplSelPriv && p.N >= 2 {
			j.Region = regionSelect
		}
		if p.Tpl == tplSelSendX {
			j.Region = regionSendExpr
		}
		if p.Tpl == tplOps && c08Ops[p.Sub].Region != "" {
			j.Region = c08Ops[p.Sub].Region
		}
		if p.Tpl == tplGoLit && p.N >= 2 {
			j.Region = regionGetFunc
		}
		jobs = append(jobs, j)
	}
	mainTpls := []int{tplPipeline, tplFanout, tplMutex, tplProdCons, tplSelMain, tplClosure, tplHostCall, tplMulti, tplSelSend}
	perTpl, plainExtra, regionJobs := 5, 2, 4
	if thorough {
		perTpl, plainExtra, regionJobs = 72, 8, 48
	}
	mkParams := func(tpl, n int) c08params {
		p := c08params{Tpl: tpl, N: n, K: 6 + r.intn(20), A: 2 + r.intn(40), B: r.intn(500), Buf: []int{0, 0, 1, 3}[r.intn(4)]}
		switch tpl {
		case tplMulti:
			if p.N > 8 {
				p.N = 8
			}
		case tplSelPriv:
			p.K = 20 + r.intn(30)
		case tplGoLit:
			if n > 1 {
				p.N = 16 + r.intn(48) // iterations of the loop = goroutines started
			}
			p.K = 3 + r.intn(6)
		case tplSelSend, tplSelSendX:
			p.N = 1 + n%4
			if p.Buf == 0 {
				p.Buf = 1
			}
		case tplPipeline:
			if p.N > 8 {
				p.K = 4 + r.intn(6)
			}
		}
		return p
	}
	for _, tpl := range mainTpls {
		for k := 0; k < perTpl; k++ {
			// the cross product goroutines x GOMAXPROCS x yield is covered cyclically, offset by the seed
			c := k + int(*seed) + tpl
			p := mkParams(tpl, goroutines[c%len(goroutines)])
			addJob(p, gmps[(c/len(goroutines)+k)%len(gmps)], yields[(c+k/2)%len(yields)], true)
			for e := 0; e < plainExtra && e < 2+k; e++ {
				if e >= plainExtra {
					break
				}
				addJob(p, gmps[r.intn(len(gmps))], yields[r.intn(len(yields))], false)
			}
		}
	}
	// operand templates: every statement form executed concurrently by N goroutines with distinct operands.
	// Each sub-template runs under the race detector and in the plain build; GOMAXPROCS / yield cover the grid cyclically.
	opsRounds := 1
	if thorough {
		opsRounds = 12
	}
	for round := 0; round < opsRounds; round++ {
		for sub := range c08Ops {
			if c08Ops[sub].Skip != "" {
				sm.count("skipped:" + c08Ops[sub].Name + " (" + c08Ops[sub].Skip + ")")
				continue
			}
			c := sub + round + int(*seed)
			p := mkParams(tplOps, goroutines[c%len(goroutines)])
			p.Sub, p.SubName = sub, c08Ops[sub].Name
			if p.N > 8 && p.K > 12 {
				p.K = 12
			}
			if m := c08Ops[sub].KMul; m > 1 {
				p.K *= m
			}
			addJob(p, gmps[(c/2)%len(gmps)], yields[c%len(yields)], true)
			addJob(p, gmps[r.intn(len(gmps))], yields[r.intn(len(yields))], false)
		}
	}
	// neighbourhood stream of the known finding: one select statement shared by all workers
	for k := 0; k < regionJobs; k++ {
		p := mkParams(tplSelPriv, goroutines[(k+int(*seed))%len(goroutines)])
		addJob(p, gmps[(k+1)%len(gmps)], yields[k%len(yields)], true)
		addJob(p, gmps[r.intn(len(gmps))], yields[r.intn(len(yields))], false)
	}
	// second known finding: the operand expression of a send clause
	for k := 0; k < 2; k++ {
		addJob(mkParams(tplSelSendX, 1+k), gmps[k%len(gmps)], yields[k%len(yields)], k == 0)
	}
	// third known finding: a function literal re-evaluated while its earlier instances end
	for k := 0; k < regionJobs; k++ {
		p := mkParams(tplGoLit, goroutines[(k+int(*seed))%len(goroutines)])
		addJob(p, gmps[(k+2)%len(gmps)], []int{30, 50}[k%2], k%2 == 0)
	}
	// the same template with ONE worker: the statement is not shared; belongs to the main stream
	addJob(mkParams(tplSelPriv, 1), 2, 5, true)

	// ---- reference: every distinct program once, compiled by the Go toolchain
	refProgs := map[string]goProg{} // source -> prog
	refName := func(src string) string {
		if gp, ok := refProgs[src]; ok {
			return gp.Name
		}
		name := fmt.Sprintf("p%d", len(refProgs))
		refProgs[src] = goProg{Name: name, Files: map[string]string{"main.go": src}}
		return name
	}
	jobRefs := map[int][]string{}
	for _, j := range jobs {
		switch j.Kind {
		case "host":
			jobRefs[j.ID] = []string{refName(c08subst(c08HostRefMain, j.P))}
		default:
			for _, s := range j.Sources {
				jobRefs[j.ID] = append(jobRefs[j.ID], refName(s))
			}
		}
	}
	var progs []goProg
	for _, gp := range refProgs {
		progs = append(progs, gp)
	}
	sort.Slice(progs, func(a, b int) bool { return progs[a].Name < progs[b].Name })
	var refOut map[string]outcome
	var refErr error
	var refWG sync.WaitGroup
	refWG.Add(1)
	go func() {
		defer refWG.Done()
		// thorough: the reference binaries are themselves built with -race, which validates that the
		// templates are data-race-free programs (a report would show up as a non-"ok" end)
		refOut, refErr = goRefBatch(progs, 60*time.Second, thorough)
	}()

	// ---- run the implementation
	scratch, err := os.MkdirTemp("", "vh-c08-*")
	if err != nil {
		return err
	}
	defer os.RemoveAll(scratch)
	obs := make([]c08obs, len(jobs))
	workers := runtime.NumCPU() / 2
	if workers < 2 {
		workers = 2
	}
	if workers > 8 {
		workers = 8
	}
	parallelMap(len(jobs), workers, func(i int) {
		bin := plainBin
		if jobs[i].Race {
			bin = raceBin
		}
		obs[i] = c08runChild(bin, jobs[i], scratch)
	})
	refWG.Wait()
	if refErr != nil {
		return refErr
	}

	// ---- compare, write cases
	distinct := distinctSet{}
	var cases []string
	for _, o := range obs {
		j := o.Job
		if o.Err != "" {
			return fmt.Errorf("job %d: %s", j.ID, o.Err)
		}
		var ref outcome
		ref.End = "ok"
		for _, name := range jobRefs[j.ID] {
			ro := refOut[name]
			if ro.End != "ok" {
				ref.End = ro.End
			}
			ref.Stdout += ro.Stdout
		}
		implInts, implOK := parseInts(o.Out.Stdout)
		implOK = implOK && o.Out.End == "ok"
		if !implOK {
			implInts = nil
		}
		refInts, refOK := parseInts(ref.Stdout)
		refOK = refOK && ref.End == "ok"
		raceSel, raceGF, raceOther := false, false, false
		for _, rc := range o.Races {
			switch {
			case rc.Select:
				raceSel = true
			case rc.GetFunc:
				raceGF = true
			default:
				raceOther = true
			}
		}
		crashNil := strings.HasPrefix(o.Out.End, "host-crash:") && strings.Contains(o.Out.End, "call of nil function")
		crosstalk := false
		if j.P.Tpl == tplSelPriv && implOK {
			for k := 2; k < len(implInts); k += 3 {
				if implInts[k] != 0 || implInts[k-1] != int64(2*j.P.K) {
					crosstalk = true
				}
			}
		}
		in := map[string]any{"template": c08TplName[j.P.Tpl], "params": j.P, "gomaxprocs": j.GMP, "yield_pct": j.YieldPct, "yield_seed": j.YieldSd, "race_build": j.Race, "kind": j.Kind}
		sm.CaseIndex[fmt.Sprint(j.ID)] = map[string]any{"input": in, "sources": j.Sources}
		cases = append(cases, fmt.Sprintf("(%d%%N, %s, (mkobs %s %s %s %s %s %s), %s, %s)", j.ID, j.P.coq(), coqBool(implOK), coqZList(implInts),
			coqBool(raceSel), coqBool(raceGF), coqBool(raceOther), coqBool(crashNil), coqBool(refOK), coqZList(refInts)))
		sm.Evaluations++
		sm.ImplComparisons++
		sm.RefComparisons++
		key := c08TplName[j.P.Tpl]
		if j.P.Tpl == tplOps {
			key = "ops/" + j.P.SubName
		}
		sm.count("tpl:" + key)
		sm.count(fmt.Sprintf("goroutines:%d", j.P.N))
		sm.count(fmt.Sprintf("gomaxprocs:%d", j.GMP))
		sm.count(fmt.Sprintf("yield:%d%%", j.YieldPct))
		if j.Race {
			sm.count("race-build")
		} else {
			sm.count("plain-build")
		}
		if raceSel {
			sm.count("observed:race-in-_select")
		}
		if raceOther {
			sm.count("observed:race-elsewhere")
		}
		if raceGF {
			sm.count("observed:race-getFunc-writeback")
		}
		if crashNil {
			sm.count("observed:host-crash-call-of-nil-function")
		}
		if j.P.Tpl == tplGoLit && implOK && o.Out.String() != ref.String() {
			sm.count("observed:stale-closure")
		}
		if crosstalk {
			sm.count("observed:cross-talk")
		}
		if o.Out.End != "ok" {
			sm.count("observed:end-" + strings.SplitN(o.Out.End, ":", 2)[0])
		}
		if j.P.N >= 2 || j.Kind != "prog" {
			distinct.add(key, fmt.Sprint(j.P), fmt.Sprint(j.GMP), fmt.Sprint(j.YieldPct), fmt.Sprint(j.YieldSd), fmt.Sprint(j.Race))
		}
		if len(sm.Samples) < 4 && (j.ID%7 == 1) {
			sm.Samples = append(sm.Samples, map[string]any{"input": in, "output": o.Out, "races": len(o.Races), "steps": o.Steps})
		}
		if o.Out.String() != ref.String() || len(o.Races) > 0 {
			impl := map[string]any{"outcome": o.Out, "race_reports": o.Races, "cross_talk": crosstalk}
			note := ""
			if len(o.Races) > 0 {
				note = fmt.Sprintf("%d data race report(s); first: %s", len(o.Races), strings.Join(o.Races[0].Tops, " / "))
			}
			sm.RefMismatches = append(sm.RefMismatches, refMismatch{ID: j.ID, Region: j.Region, Input: map[string]any{"input": in, "sources": j.Sources},
				Impl: impl, Ref: map[string]any{"outcome": ref, "race_reports": 0}, Note: note})
		}
	}
	hdr := "From Verif Require Import Conc.Model Conc.Cases.\nFrom Coq Require Import List ZArith NArith.\nImport ListNotations.\n"
	body := fmt.Sprintf("Definition cases : list c08_case := [\n%s\n].\nDefinition MY := Eval vm_compute in c08_mis_y cases.\nPrint MY.\nDefinition MG := Eval vm_compute in c08_mis_g cases.\nPrint MG.\n",
		strings.Join(cases, ";\n"))
	if err := os.WriteFile(filepath.Join(*out, "cases_c08_0.v"), []byte(hdr+body), 0o644); err != nil {
		return err
	}
	sm.CasesFiles = append(sm.CasesFiles, "cases_c08_0.v")
	sm.DistinctNontriv = len(distinct)
	sm.Rule = "one evaluation = one run of a schedule-independent concurrent program (or of N host goroutines calling one script function, or of N interpreters in parallel) in a child process, " +
		"with a given goroutine count, GOMAXPROCS and seeded yield injection, either in the race-detector build or in the plain build; " +
		"distinct = distinct (template, parameters, GOMAXPROCS, yield seed, build); non-trivial = at least two goroutines / host goroutines / interpreters"
	sm.Notes = append(sm.Notes, fmt.Sprintf("%d distinct reference programs compiled by the Go toolchain", len(progs)))
	return sm.write(*out)
}
