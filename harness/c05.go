package main

import (
	"flag"
	"fmt"
	"os"
	"path/filepath"
	"sort"
	"strings"
	"sync"
	"time"

	"github.com/traefik/yaegi/interp"
	"github.com/traefik/yaegi/stdlib"
)

// C05: method calls and interface operations dispatch as in compiled Go.
//   impl  = real yaegi: (a) function level, the unexported lookups of interp/type.go through the
//           verif exports (lookupField, lookupMethod, methodDepth, methods, implements) on every
//           (type, name) of every generated universe; (b) program level, generated programs whose
//           methods print their identity and receiver state.
//   Y, G  = coq/Disp/Model.v, evaluated by coqc on the cases files written here
//   ref   = go/types (LookupFieldOrMethod, NewMethodSet, Implements) and the same programs
//           compiled and run by the Go toolchain (goRefBatch)

func init() {
	register("c05", "C05 dispatch: generate type universes, run yaegi, go/types and compiled Go", runC05)
}

// one Coq case / one comparable observation
type c05Case struct {
	ID     int
	Region string
	Input  map[string]any
	Coq    string // rendered tuple (without the universe)
	Kind   string // fl | ms | impl | psel | assert | switch
}

type c05Unit struct {
	idx    int
	stream string
	u      *c05Univ
	ct     *c05Types
	progs  []*c05ProgUnit
	px     [][]*c05ProbeX // probes of each program
	cases  []*c05Case     // function-level cases, then (after the runs) the program-level ones
	notes  []string
	refPkg string // package name of the universe in the shared reference binary
	refSrc string
	refOut string // the part of the reference binary's output belonging to this universe
	refEnd string
}

type c05ProgUnit struct {
	child  bool // run yaegi in a child process (the host may die)
	name   string
	src    string
	probes []*c05Probe
	region string
	y, g   outcome
}

var c05TypesMu sync.Mutex

func c05CheckLocked(src string) (*c05Types, error) {
	c05TypesMu.Lock()
	defer c05TypesMu.Unlock()
	return c05Check(src)
}

// classification of a (type, name) pair by the twins: "" when Y and G agree.
func (u *c05Univ) selRegion(t int, name string) (g, y c05Sel, region string) {
	g = u.gSelect(t, name)
	y = u.ySelect(t, name)
	if selEq(g, y) {
		return g, y, ""
	}
	switch {
	case y.Kind == "crash":
		region = "embed-cycle"
	case y.Kind == "ambig":
		region = "field-method-depth"
	case (y.Kind == "field" || y.Kind == "method") && !u.pathAllEmbedded(t, y.Path, y.Kind == "field"):
		region = "named-field-descent"
	case y.Kind == "method" && g.Kind == "field" || y.Kind == "field" && g.Kind == "method":
		region = "depth-first"
	default:
		region = "depth-first"
	}
	return g, y, region
}

func (un *c05Unit) key() string { return fmt.Sprintf("u%d", un.idx) }

func c05Names(u *c05Univ) []string {
	set := map[string]bool{}
	for _, n := range c05FieldNames {
		set[n] = true
	}
	for _, n := range c05MethNames {
		set[n] = true
	}
	for i, s := range u.Structs {
		set[tname(i)] = true
		for _, f := range s.Fields {
			set[f.Name] = true
		}
	}
	return sortedKeys(set)
}

func runC05(args []string) error {
	fs := flag.NewFlagSet("c05", flag.ExitOnError)
	out := fs.String("out", "/verif/build/C05", "output directory")
	tier := fs.String("tier", "quick", "quick|thorough")
	seed := fs.Uint64("seed", envSeed(), "seed")
	dump := fs.String("dump", "", "debug: directory receiving the programs with reference mismatches")
	fs.Parse(args)
	if err := os.MkdirAll(*out, 0o755); err != nil {
		return err
	}
	sm := newSummary("C05")
	r := newRng(*seed)
	nMain, nRegion, nCyc, nHost, nHostX, nPoly := 80, 32, 4, 30, 40, 40
	if *tier == "thorough" {
		nMain, nRegion, nCyc, nHost, nHostX, nPoly = 1700, 500, 40, 800, 1500, 1500
	}
	t0 := time.Now()
	st := &c05State{sm: sm, distinct: distinctSet{}, out: *out}
	var units []*c05Unit
	for i := 0; i < nMain; i++ {
		units = append(units, &c05Unit{idx: len(units), stream: "main", u: genC05Universe(r.fork(), c05MainKnobs)})
	}
	regionKnobs := []c05Knobs{
		{fieldShadow: 60, methShadow: 70, ptrCycle: 0},                   // more shadowing: depth-first
		{fieldShadow: 50, methShadow: 50, namedStruct: 35, ptrCycle: 0},  // named-field-descent
		{fieldShadow: 50, methShadow: 50, fieldMethMix: 50, ptrCycle: 0}, // field-method-depth
		{fieldShadow: 40, methShadow: 60, sigClash: true, ptrCycle: 0},   // signatures
	}
	for i := 0; i < nRegion; i++ {
		units = append(units, &c05Unit{idx: len(units), stream: "region", u: genC05Universe(r.fork(), regionKnobs[i%len(regionKnobs)])})
	}
	for i := 0; i < nCyc; i++ {
		// structs embedding pointers to each other (cycles): every program runs in a child process
		var u *c05Univ
		rr := r.fork()
		for try := 0; try < 50; try++ {
			u = genC05Universe(rr.fork(), c05Knobs{fieldShadow: 40, methShadow: 50, ptrCycle: 60})
			if u.cyclic() {
				break
			}
		}
		units = append(units, &c05Unit{idx: len(units), stream: "cycle", u: u})
	}
	rngs := make([]*rng, len(units))
	for i := range rngs {
		rngs[i] = r.fork()
	}
	// host stream and witnesses
	for i := 0; i < nHost; i++ {
		h := genC05Host(r.fork())
		st.extras = append(st.extras, &c05Extra{id: 900000000 + i*1000, name: fmt.Sprintf("h%d", i), src: h.source(), input: h.describe()})
	}
	// polymorphic call sites: one interface call site executed consecutively with different receivers
	for i := 0; i < nPoly; i++ {
		rr := r.fork()
		for try := 0; try < 20; try++ {
			src, desc := genC05Poly(rr.fork())
			if _, err := c05CheckLocked(src); err != nil {
				st.note("polysite program rejected by go/types (generator defect): %s", firstLine(err.Error()))
				continue
			}
			st.extras = append(st.extras, &c05Extra{id: 700000000 + i*1000, name: fmt.Sprintf("s%d", i), src: src,
				input: map[string]any{"level": "polysite", "sites": desc}})
			break
		}
	}
	{
		// interfaces probed dynamically by compiled code: all subsets (every run) + random chains
		tbl := hxTable()
		hxs := genHostXPairs(tbl)
		hxs = append(hxs, genHostXProvenance(r.fork(), tbl)...)
		hxs = append(hxs, genHostXShadow(r.fork(), tbl)...)
		hxs = append(hxs, genHostXDefined(r.fork(), tbl)...)
		for i := 0; i < nHostX; i++ {
			hxs = append(hxs, genHostXRandom(r.fork(), tbl))
		}
		for i, hx := range hxs {
			st.extras = append(st.extras, &c05Extra{id: 800000000 + i*1000, name: fmt.Sprintf("x%d", i), src: hx.src, hx: hx, child: hx.child,
				input: map[string]any{"level": "hostx", "kind": hx.kind}})
		}
	}
	for i, w := range c05Witnesses {
		st.extras = append(st.extras, &c05Extra{id: 990000000 + i*1000, name: w.Name, region: w.Region, child: w.Child, src: w.Src, expect: w.Expect, wit: &c05Witnesses[i],
			input: map[string]any{"level": "witness", "name": w.Name}})
	}
	// ids are assigned deterministically per unit: unit k owns [k*100000, (k+1)*100000)
	// the work proceeds in waves so that the sources of at most a few hundred universes are alive at once
	const wave = 400
	allExtras := st.extras
	for lo := 0; lo < len(units) || len(allExtras) > 0; lo += wave {
		hi := lo + wave
		if hi > len(units) {
			hi = len(units)
		}
		var w []*c05Unit
		if lo < hi {
			w = units[lo:hi]
		}
		ne := len(allExtras)
		if ne > wave/2 && hi < len(units) {
			ne = wave / 2
		}
		st.extras, allExtras = allExtras[:ne], allExtras[ne:]
		parallelMap(len(w), 0, func(i int) {
			st.prepare(w[i], rngs[lo+i])
		})
		if err := st.runAll(w); err != nil {
			return err
		}
		st.collect(w, *dump)
		w = append(append([]*c05Unit{}, w...), st.collectExtras(*dump)...)
		if err := st.writeCases(*out, w); err != nil {
			return err
		}
		for _, un := range w {
			un.progs, un.px, un.cases, un.refSrc, un.refOut, un.ct = nil, nil, nil, "", "", nil
		}
		st.extras = nil
	}
	sm.DistinctNontriv = len(st.distinct)
	sm.Rule = "one evaluation = one (universe, type, selector name) lookup at function level, or one probe (selector / assertion target / type switch) of a generated program run by yaegi and by compiled Go; " +
		"distinct = distinct (universe declarations, probe) pairs; non-trivial = the universe has embedding depth >= 1 and the selector resolves through at least one embedded field, or the assertion / switch involves a type with promoted methods"
	sm.Notes = append(sm.Notes, fmt.Sprintf("harness wall time %.1fs", time.Since(t0).Seconds()))
	sm.Notes = append(sm.Notes, st.notes...)
	return sm.write(*out)
}

// an extra program (host stream, witnesses): package main source, run by yaegi and, as a package
// of the shared reference binary, by compiled Go
type c05Extra struct {
	id     int
	name   string
	region string
	child  bool
	src    string
	expect string // witnesses only
	wit    *c05Witness
	hx     *c05HostX // probes of the "interfaces probed by compiled code" stream
	input  map[string]any
	y      outcome
	refOut string
	refEnd string
}

type c05State struct {
	out       string
	nfiles    int
	fullCount map[string]int
	extras    []*c05Extra
	mu        sync.Mutex
	sm        *summary
	distinct  distinctSet
	notes     []string
}

func (st *c05State) note(format string, a ...any) {
	st.mu.Lock()
	defer st.mu.Unlock()
	if len(st.notes) < 20 {
		st.notes = append(st.notes, fmt.Sprintf(format, a...))
	}
}

// ---------------------------------------------------------------- preparation of one universe

func intsStr(l []int) string {
	return strings.Trim(strings.Join(strings.Fields(fmt.Sprint(l)), ","), "[]")
}

func coqOptPath(p []int, present bool) string {
	if !present {
		return "None"
	}
	return "(Some " + coqNatList(p) + ")"
}

func (st *c05State) prepare(un *c05Unit, r *rng) {
	u := un.u
	nextID := un.idx*100000 + 1
	newID := func() int { nextID++; return nextID - 1 }
	declSrc := "package main\n\nimport \"strconv\"\n\n" + u.decls() + "var _ = strconv.Itoa\n"
	ct, err := c05CheckLocked(declSrc)
	if err != nil {
		un.notes = append(un.notes, "declarations rejected by go/types: "+err.Error())
		return
	}
	un.ct = ct

	// ---- function level: the real lookups on the declarations
	ip := interp.New(interp.Options{})
	ip.Use(stdlib.Symbols)
	if _, err := ip.Eval(declSrc); err != nil {
		un.notes = append(un.notes, "yaegi rejects the declarations: "+firstLine(err.Error()))
		un.cases = append(un.cases, &c05Case{ID: newID(), Kind: "decl", Region: "", Input: map[string]any{"decls": u.decls(), "error": firstLine(err.Error())}})
		return
	}
	names := c05Names(u)
	for t := range u.Structs {
		for _, name := range names {
			for _, ptr := range []bool{false, true} {
				if ptr && r.intn(4) != 0 {
					continue
				}
				res, ok := ip.VerifC05Lookup(tname(t), ptr, name)
				if !ok {
					continue
				}
				ref := ct.refSelect(u, t, name)
				g, y, region := u.selRegion(t, name)
				if !selEq(ref, g) {
					st.note("twin of G differs from go/types on %s.%s: %v vs %v\n%s", tname(t), name, g, ref, u.decls())
				}
				depth := "None"
				if res.MethodDepth >= 0 {
					depth = fmt.Sprintf("(Some %d)", res.MethodDepth)
				}
				// the implementation's selector decision, recomputed from the raw lookups exactly as cfg.go does
				implSel := c05ImplSelect(u, t, name, res)
				id := newID()
				c := &c05Case{ID: id, Kind: "fl", Region: region,
					Input: map[string]any{"level": "function", "type": tname(t), "ptr": ptr, "name": name, "universe": un.key()},
					Coq: fmt.Sprintf("(%s, %d, %s, %s, %s, %s, %s)", coqN(id), t, coqStr(name),
						coqOptPath(res.FieldPath, len(res.FieldPath) > 0), coqOptPath(res.MethPath, res.MethFound), depth, ref.coq())}
				c.Input["impl"] = implSel.String()
				c.Input["ref"] = ref.String()
				c.Input["twinY"] = y.String()
				c.Input["mismatch"] = !selEq(implSel, ref)
				un.cases = append(un.cases, c)
			}
		}
		// method sets and implements
		for _, ptr := range []bool{false, true} {
			ynames, ok := ip.VerifC05Methods(tname(t), ptr)
			if !ok {
				continue
			}
			gnames := ct.refMethodSet(t, ptr)
			region := ""
			if strings.Join(ynames, ",") != strings.Join(gnames, ",") {
				region = "assert-methodset"
			}
			id := newID()
			c := &c05Case{ID: id, Kind: "ms", Region: region,
				Input: map[string]any{"level": "function", "what": "method set", "type": tname(t), "ptr": ptr, "universe": un.key(), "impl": ynames, "ref": gnames,
					"mismatch": region != ""},
				Coq: fmt.Sprintf("(%s, %d, %s, %s, %s)", coqN(id), t, coqBool(ptr), coqStrList(ynames), coqStrList(gnames))}
			un.cases = append(un.cases, c)
			for j := range u.Ifaces {
				impl, _, _, ok := ip.VerifC05Implements(tname(t), ptr, iname(j))
				if !ok {
					continue
				}
				ref := ct.refImplements(t, ptr, j)
				region := ""
				if impl != ref {
					region = "assert-methodset"
					if u.gImplementsNames(t, ptr, j) == impl {
						region = "assert-sig"
					}
				}
				id := newID()
				c := &c05Case{ID: id, Kind: "impl", Region: region,
					Input: map[string]any{"level": "function", "what": "implements", "type": tname(t), "ptr": ptr, "iface": iname(j), "universe": un.key(), "impl": impl, "ref": ref,
						"mismatch": impl != ref},
					Coq: fmt.Sprintf("(%s, %d, %s, %d, %s, %s)", coqN(id), t, coqBool(ptr), j, coqBool(impl), coqBool(ref))}
				un.cases = append(un.cases, c)
			}
		}
	}
	if u.cyclic() {
		// recursive struct types: only the lookups are exercised (the fixed witness w_embed_cycle runs a program)
		return
	}
	st.buildPrograms(un, r, newID)
}

// c05ImplSelect applies the decision of the selectorExpr case of cfg.go to the raw lookups.
func c05ImplSelect(u *c05Univ, t int, name string, res interp.VerifC05Sel) c05Sel {
	methSel := func() c05Sel {
		owner := t
		for _, i := range res.MethPath {
			owner = u.Structs[owner].Fields[i].Typ
		}
		for k := range u.Structs[owner].Meths {
			if u.Structs[owner].Meths[k].Name == name {
				return c05Sel{Kind: "method", Path: res.MethPath, Owner: owner, Meth: &u.Structs[owner].Meths[k]}
			}
		}
		return c05Sel{Kind: "none"}
	}
	if len(res.FieldPath) > 0 {
		d := res.MethodDepth
		if d >= 0 && d < len(res.FieldPath) {
			return methSel()
		}
		if d == len(res.FieldPath) {
			return c05Sel{Kind: "ambig"}
		}
		return c05Sel{Kind: "field", Path: res.FieldPath, Owner: u.ownerOfFieldPath(t, res.FieldPath)}
	}
	if res.MethFound {
		return methSel()
	}
	return c05Sel{Kind: "none"}
}

func (st *c05State) runAll(units []*c05Unit) error {
	var progs []*c05ProgUnit
	var withRef []*c05Unit
	for _, un := range units {
		progs = append(progs, un.progs...)
		if un.refSrc != "" {
			withRef = append(withRef, un)
		}
	}
	// reference: the universes are packages of a few shared binaries (one link step per chunk)
	const chunk = 40
	var gp []goProg
	for lo := 0; lo < len(withRef); lo += chunk {
		hi := lo + chunk
		if hi > len(withRef) {
			hi = len(withRef)
		}
		name := fmt.Sprintf("ref%d", lo/chunk)
		files := map[string]string{}
		var mainSrc strings.Builder
		mainSrc.WriteString("package main\n\nimport (\n\t\"fmt\"\n")
		for _, un := range withRef[lo:hi] {
			fmt.Fprintf(&mainSrc, "\t\"ref/%s/%s\"\n", name, un.refPkg)
			files[un.refPkg+"/u.go"] = un.refSrc
		}
		mainSrc.WriteString(")\n\nfunc main() {\n")
		for _, un := range withRef[lo:hi] {
			fmt.Fprintf(&mainSrc, "\tfmt.Println(\"==== %s\")\n\t%s.Run()\n", un.refPkg, un.refPkg)
		}
		mainSrc.WriteString("}\n")
		files["main.go"] = mainSrc.String()
		gp = append(gp, goProg{Name: name, Files: files})
	}
	{
		files := map[string]string{}
		var mainSrc strings.Builder
		mainSrc.WriteString("package main\n\nimport (\n\t\"fmt\"\n")
		for _, e := range st.extras {
			fmt.Fprintf(&mainSrc, "\t\"ref/refx/%s\"\n", e.name)
			src := strings.Replace(e.src, "package main", "package "+e.name, 1)
			src = strings.Replace(src, "func main() {", "func Run() {", 1)
			files[e.name+"/u.go"] = src
		}
		mainSrc.WriteString(")\n\nfunc main() {\n")
		for _, e := range st.extras {
			fmt.Fprintf(&mainSrc, "\tfmt.Println(\"==== %s\")\n\t%s.Run()\n", e.name, e.name)
		}
		mainSrc.WriteString("}\n")
		files["main.go"] = mainSrc.String()
		if len(st.extras) > 0 {
			gp = append(gp, goProg{Name: "refx", Files: files})
		}
	}
	var refErr error
	var ref map[string]outcome
	var wg sync.WaitGroup
	wg.Add(1)
	go func() {
		defer wg.Done()
		ref, refErr = goRefBatch(gp, 120*time.Second, false)
	}()
	parallelMap(len(progs), 0, func(i int) {
		if progs[i].child {
			progs[i].y = runYaegiChild(progs[i].src, 20*time.Second)
			if strings.HasPrefix(progs[i].y.End, "host-crash:") {
				progs[i].y.End = "host-crash"
			}
			return
		}
		progs[i].y = runYaegi(progs[i].src, yaegiOpts{Timeout: 20 * time.Second})
	})
	// a run that timed out under load is repeated alone with a long time-out (these programs take milliseconds)
	for _, p := range progs {
		if p.y.End == "timeout" && !p.child {
			p.y = runYaegi(p.src, yaegiOpts{Timeout: 120 * time.Second})
			st.note("program %s timed out in the parallel phase and was run again: %s", p.name, p.y.End)
		}
	}
	parallelMap(len(st.extras), 0, func(i int) {
		e := st.extras[i]
		if e.child {
			e.y = runYaegiChild(e.src, 20*time.Second)
			if strings.HasPrefix(e.y.End, "host-crash:") {
				e.y.End = "host-crash"
			}
			return
		}
		e.y = runYaegi(e.src, yaegiOpts{Timeout: 20 * time.Second})
	})
	for _, e := range st.extras {
		if e.y.End == "timeout" && !e.child {
			e.y = runYaegi(e.src, yaegiOpts{Timeout: 120 * time.Second})
			st.note("program %s timed out in the parallel phase and was run again: %s", e.name, e.y.End)
		}
	}
	wg.Wait()
	if refErr != nil {
		return refErr
	}
	{
		o := ref["refx"]
		byName := map[string]*c05Extra{}
		for _, e := range st.extras {
			byName[e.name] = e
			e.refEnd = o.End
		}
		var cur *c05Extra
		for _, l := range strings.SplitAfter(o.Stdout, "\n") {
			if strings.HasPrefix(l, "==== ") {
				cur = byName[strings.TrimSpace(l[5:])]
				continue
			}
			if cur != nil {
				cur.refOut += l
			}
		}
		if len(st.extras) > 0 && o.End != "ok" {
			st.note("reference binary refx ended with %s", o.End)
		}
	}
	byPkg := map[string]*c05Unit{}
	for _, un := range withRef {
		byPkg[un.refPkg] = un
	}
	for _, g := range gp {
		o := ref[g.Name]
		var cur *c05Unit
		for _, l := range strings.SplitAfter(o.Stdout, "\n") {
			if strings.HasPrefix(l, "==== ") {
				cur = byPkg[strings.TrimSpace(l[5:])]
				continue
			}
			if cur != nil {
				cur.refOut += l
			}
		}
		for pkg := range g.Files {
			if un := byPkg[strings.TrimSuffix(pkg, "/u.go")]; un != nil {
				un.refEnd = o.End
			}
		}
		if o.End != "ok" {
			st.note("reference binary %s ended with %s", g.Name, o.End)
		}
	}
	return nil
}

func sortedLabels(a, b map[string]string) []string {
	set := map[string]bool{}
	for k := range a {
		set[k] = true
	}
	for k := range b {
		set[k] = true
	}
	ks := sortedKeys(set)
	sort.Strings(ks)
	return ks
}

func (st *c05State) writeCases(out string, units []*c05Unit) error {
	sm := st.sm
	hdr := "From Verif Require Import Lib.Str Disp.Model Disp.Cases.\n"
	// one definition per universe, cases grouped by kind
	const perFile = 25
	for lo := 0; lo < len(units); lo += perFile {
		hi := lo + perFile
		if hi > len(units) {
			hi = len(units)
		}
		var b strings.Builder
		b.WriteString(hdr)
		var items []string
		for _, un := range units[lo:hi] {
			if un.u == nil || len(un.cases) == 0 {
				continue
			}
			byKind := map[string][]string{}
			for _, c := range un.allCases() {
				if c.Coq == "" {
					continue
				}
				byKind[c.Kind] = append(byKind[c.Kind], c.Coq)
			}
			items = append(items, fmt.Sprintf("(%s,\n  %s,\n  %s,\n  %s,\n  %s,\n  %s,\n  %s)", un.u.coq(),
				coqList(byKind["fl"]), coqList(byKind["ms"]), coqList(byKind["impl"]), coqList(byKind["psel"]), coqList(byKind["assert"]), coqList(byKind["switch"])))
		}
		fmt.Fprintf(&b, "Definition cases : list ucase := [\n%s\n].\nDefinition MY := Eval vm_compute in c05_mis_y cases.\nPrint MY.\nDefinition MG := Eval vm_compute in c05_mis_g cases.\nPrint MG.\n", strings.Join(items, ";\n"))
		name := fmt.Sprintf("cases_c05_%d.v", st.nfiles)
		st.nfiles++
		if err := os.WriteFile(filepath.Join(out, name), []byte(b.String()), 0o644); err != nil {
			return err
		}
		sm.CasesFiles = append(sm.CasesFiles, name)
	}
	return nil
}
