package main

import (
	"bufio"
	"bytes"
	"flag"
	"fmt"
	"go/ast"
	"go/build"
	"go/constant"
	"go/parser"
	"go/printer"
	"go/token"
	"go/types"
	"math/big"
	"os"
	"path/filepath"
	"regexp"
	"runtime"
	"sort"
	"strconv"
	"strings"
	"sync"
)

// tr-bind: regenerates the binding tables of C14 from the source text of /repo/stdlib/** and the
// truth (go/types view of $GOROOT/src per platform, $GOROOT/api/go1*.txt) as plain Coq data:
//   coq/gen/BindRestricted_gen.v   extract's restricted table and the declarations of restricted.go
//   coq/gen/Bind_math_gen.v        the group of go1_22_math.go (holds the witness of the known finding)
//   coq/gen/Bind_00_gen.v ... Bind_15_gen.v   all other host-platform groups of the quick set, balanced
//   coq/gen/BindX_00_gen.v ... BindX_15_gen.v the tables of every other platform (stdlib/syscall + stdlib/unrestricted,
//                                  release the installed toolchain compiles), truth = go/types for that GOOS/GOARCH
//   coq/gen/BindXDrift_gen.v       truth objects excused from completeness there (release drift, see bindCollection.drift)
// Data only: no lemma, no proof.  The same collection code is used by the harness (c14.go).

func init() {
	register("tr-bind", "translator: stdlib binding files + go/types truth + api lists -> Bind_*_gen.v", trBind)
}

const bindShards = 16

// ---------------------------------------------------------------- data

type bindRow struct {
	ID          int
	Key, Name   string
	Form        string // sel ident addrsel typesel typeident lit funclit other
	Q, Ident    string
	Tok, Lit    string
	Text        string
	File        string
	Line        int
	viaMapTypes bool
	groupIdx    int
	fileIdx     int
	truth       *truthObj
	truthPkg    *truthPkg
}

type bindParam struct{ Name, Type string }

type bindArg struct {
	Name     string
	Ellipsis bool
}

type bindMethod struct {
	Name, Recv      string
	Params, Results []bindParam
	Forward         bool
	HasRet          bool
	CallRecv, Field string
	Args            []bindArg
	Guard           bool
	Text            string
}

type bindField struct {
	Name            string
	IsFunc          bool
	Params, Results []bindParam
	Type            string
}

type bindWrapper struct {
	ID      int
	Name    string
	File    string
	Line    int
	Fields  []bindField
	Methods []bindMethod
}

type bindImport struct{ Alias, Path string }

type bindFile struct {
	Path     string // relative to the repository root
	Imports  []bindImport
	Locals   []string
	Rows     []*bindRow
	Wrappers []*bindWrapper
	Skipped  int // rows of yaegi's own self-referencing tables
}

type truthMethod struct {
	Name            string
	Since           int
	Params, Results []string
	sig             *types.Signature
}

type apiRec struct {
	Kind   string // func var type const
	Since  int
	Num    *big.Int
	Den    *big.Int
	valRel int
}

type truthObj struct {
	ID       int
	Name     string
	Kind     string // func genfunc var type iface gentype constraint constid uint urune ufloat ustring builtin
	Num, Den *big.Int
	Str      string
	Since    int
	API      *apiRec
	Methods  []truthMethod
	obj      types.Object
}

type truthPkg struct {
	Path, Name string
	Objs       []*truthObj
	byName     map[string]*truthObj
	pkg        *types.Package
}

type bindGroup struct {
	Name         string
	Release      int
	Complete     bool
	GOOS, GOARCH string
	Files        []*bindFile
	Truth        []*truthPkg
	Quick        bool // host platform: main shards of the quick set, observed in the compiled tables
	XPlat        bool // another platform, release the installed toolchain compiles: cross-platform shards of the quick set
	SiblingOnly  bool // quick tier: parsed only because the drift rule compares with it; not decided
}

// ---------------------------------------------------------------- truth: go/types on $GOROOT/src

type bindLoader struct {
	mu    sync.Mutex
	ctx   build.Context
	fset  *token.FileSet
	pkgs  map[string]*types.Package
	sizes types.Sizes
	errs  []string
}

func newBindLoader(goos, goarch string) *bindLoader {
	ctx := build.Default
	ctx.GOOS, ctx.GOARCH = goos, goarch
	ctx.CgoEnabled = false
	ctx.BuildTags = nil
	ctx.GOPATH = ""
	sz := types.SizesFor("gc", goarch)
	if sz == nil {
		sz = types.SizesFor("gc", "amd64")
	}
	return &bindLoader{ctx: ctx, fset: token.NewFileSet(), pkgs: map[string]*types.Package{}, sizes: sz}
}

func (l *bindLoader) Import(path string) (*types.Package, error) { return l.ImportFrom(path, "", 0) }

func (l *bindLoader) ImportFrom(path, dir string, _ types.ImportMode) (*types.Package, error) {
	if path == "unsafe" {
		return types.Unsafe, nil
	}
	if path == "C" {
		return nil, fmt.Errorf("cgo is not loaded")
	}
	bp, err := l.ctx.Import(path, dir, 0)
	if err != nil {
		return nil, err
	}
	if p, ok := l.pkgs[bp.ImportPath]; ok {
		if p == nil {
			return nil, fmt.Errorf("import cycle through %s", bp.ImportPath)
		}
		return p, nil
	}
	l.pkgs[bp.ImportPath] = nil
	var files []*ast.File
	for _, name := range bp.GoFiles {
		f, err := parser.ParseFile(l.fset, filepath.Join(bp.Dir, name), nil, parser.SkipObjectResolution)
		if err != nil {
			return nil, err
		}
		files = append(files, f)
	}
	conf := types.Config{
		Importer:         l,
		FakeImportC:      true,
		IgnoreFuncBodies: true,
		Sizes:            l.sizes,
		Error: func(err error) {
			if len(l.errs) < 20 {
				l.errs = append(l.errs, err.Error())
			}
		},
	}
	p, _ := conf.Check(bp.ImportPath, l.fset, files, nil)
	if p == nil {
		return nil, fmt.Errorf("type-check of %s failed", bp.ImportPath)
	}
	l.pkgs[bp.ImportPath] = p
	return p, nil
}

var (
	bindLoadersMu sync.Mutex
	bindLoaders   = map[string]*bindLoader{}
)

func bindLoaderFor(goos, goarch string) *bindLoader {
	bindLoadersMu.Lock()
	defer bindLoadersMu.Unlock()
	k := goos + "/" + goarch
	if l, ok := bindLoaders[k]; ok {
		return l
	}
	l := newBindLoader(goos, goarch)
	bindLoaders[k] = l
	return l
}

// typeText renders a go/types type the way extract.genContent does (every package by its name).
func bindTypeText(t types.Type) string {
	return types.TypeString(t, func(p *types.Package) string { return p.Name() })
}

func ratOf(v constant.Value) (*big.Int, *big.Int, bool) {
	switch x := constant.Val(v).(type) {
	case int64:
		return big.NewInt(x), big.NewInt(1), true
	case *big.Int:
		return new(big.Int).Set(x), big.NewInt(1), true
	case *big.Rat:
		return new(big.Int).Set(x.Num()), new(big.Int).Set(x.Denom()), true
	case *big.Float:
		r, acc := x.Rat(nil)
		if r == nil || acc != big.Exact {
			return nil, nil, false
		}
		return new(big.Int).Set(r.Num()), new(big.Int).Set(r.Denom()), true
	}
	return nil, nil, false
}

// loadTruth builds the truth of one package for one platform (cached per loader).
func (l *bindLoader) truth(path string, api map[string]map[string]*apiEntry, plat string) (*truthPkg, error) {
	l.mu.Lock()
	defer l.mu.Unlock()
	var pkg *types.Package
	var err error
	if path == "unsafe" {
		pkg = types.Unsafe
	} else {
		pkg, err = l.Import(path)
		if err != nil {
			return nil, fmt.Errorf("truth of %s: %w", path, err)
		}
	}
	tp := &truthPkg{Path: path, Name: pkg.Name(), byName: map[string]*truthObj{}, pkg: pkg}
	sc := pkg.Scope()
	for _, name := range sc.Names() {
		o := sc.Lookup(name)
		if !o.Exported() {
			continue
		}
		t := &truthObj{Name: name, obj: o}
		switch o := o.(type) {
		case *types.Const:
			t.Kind = "constid"
			if b, ok := o.Type().(*types.Basic); ok && b.Info()&types.IsUntyped != 0 {
				switch o.Val().Kind() {
				case constant.Int:
					if n, d, ok := ratOf(o.Val()); ok {
						t.Kind, t.Num, t.Den = "uint", n, d
						if b.Kind() == types.UntypedRune {
							t.Kind = "urune" // same values, but the default type is rune
						}
					}
				case constant.Float:
					if n, d, ok := ratOf(o.Val()); ok {
						t.Kind, t.Num, t.Den = "ufloat", n, d
					} else {
						t.Kind = "ufloat-inexact"
					}
				case constant.String:
					t.Kind, t.Str = "ustring", constant.StringVal(o.Val())
				}
			}
		case *types.Func:
			t.Kind = "func"
			if s := o.Type().(*types.Signature); s.TypeParams().Len() > 0 || s.RecvTypeParams().Len() > 0 {
				t.Kind = "genfunc"
			}
		case *types.Var:
			t.Kind = "var"
		case *types.TypeName:
			t.Kind = "type"
			if n, ok := o.Type().(interface{ TypeParams() *types.TypeParamList }); ok && n.TypeParams().Len() > 0 {
				t.Kind = "gentype" // generic named type or generic alias
			} else if it, ok := o.Type().Underlying().(*types.Interface); ok {
				if it.NumMethods() == 0 && it.NumEmbeddeds() != 0 {
					t.Kind = "constraint"
				} else {
					t.Kind = "iface"
					for i := 0; i < it.NumMethods(); i++ {
						f := it.Method(i)
						if !f.Exported() {
							continue
						}
						sig := f.Type().(*types.Signature)
						m := truthMethod{Name: f.Name(), sig: sig}
						if e := api[path][name]; e != nil {
							m.Since = e.methods[f.Name()]
						}
						for j := 0; j < sig.Params().Len(); j++ {
							txt := bindTypeText(sig.Params().At(j).Type())
							if sig.Variadic() && j == sig.Params().Len()-1 {
								txt = "..." + txt[2:]
							}
							m.Params = append(m.Params, txt)
						}
						for j := 0; j < sig.Results().Len(); j++ {
							m.Results = append(m.Results, bindTypeText(sig.Results().At(j).Type()))
						}
						t.Methods = append(t.Methods, m)
					}
				}
			}
		case *types.Builtin:
			t.Kind = "builtin"
		default:
			t.Kind = "other"
		}
		if e := api[path][name]; e != nil {
			t.Since = e.sinceFor(plat)
			if apiCovered[plat] {
				t.API = e.rec(plat) // the api files say nothing about the platforms they do not cover
			}
		}
		tp.Objs = append(tp.Objs, t)
		tp.byName[name] = t
	}
	return tp, nil
}

// ---------------------------------------------------------------- $GOROOT/api/go1*.txt

type apiValue struct {
	rel      int
	plat     string
	num, den *big.Int
}

type apiEntry struct {
	kind      string
	since     int            // first release that lists the name for any platform
	generic   int            // first release that lists it without a platform (-1: none)
	sincePlat map[string]int // first release that lists it for a platform ("-cgo" variants folded)
	values    []apiValue
	methods   map[string]int // interface methods: first release that lists them
}

// apiCovered: the platforms the api files speak about ("linux-amd64", "openbsd-386", ...).
var apiCovered = map[string]bool{}

// sinceFor: the first release that declares the name on a platform.  A line without platform means
// "on every platform the api files cover".  For a platform they do not cover nothing is known
// about a platform-dependent name (0: taken to exist in every release; see the drift rule of the
// harness); a name that is never listed per platform is platform-independent.
func (e *apiEntry) sinceFor(plat string) int {
	if !apiCovered[plat] {
		if len(e.sincePlat) == 0 && e.generic >= 0 {
			return e.generic
		}
		return 0
	}
	best := -1
	if e.generic >= 0 {
		best = e.generic
	}
	if r, ok := e.sincePlat[plat]; ok && (best < 0 || r < best) {
		best = r
	}
	if best < 0 {
		return 0
	}
	return best
}

var apiMethodRe = regexp.MustCompile(`^ interface, ([A-Za-z_][A-Za-z0-9_]*)\(`)

func (e *apiEntry) rec(plat string) *apiRec {
	r := &apiRec{Kind: e.kind, Since: e.since, valRel: -1}
	for _, v := range e.values {
		if v.plat != "" && v.plat != plat {
			continue
		}
		// the latest release that states a value wins (api/except.txt lists the statements that no
		// longer hold); a platform-specific statement beats a generic one of the same release
		if v.rel > r.valRel || (v.rel == r.valRel && v.plat != "") {
			r.valRel, r.Num, r.Den = v.rel, v.num, v.den
		}
	}
	return r
}

var apiLineRe = regexp.MustCompile(`^pkg ([^ ,]+)(?: \(([^)]+)\))?, (func|var|const|type) ([A-Za-z_][A-Za-z0-9_]*)(.*)$`)

// loadAPI reads $GOROOT/api/go1*.txt: for every package-level name its kind, the first release
// that lists it (go1.txt = 0) and the constant values given there.
func loadAPI() (map[string]map[string]*apiEntry, error) {
	dir := filepath.Join(runtime.GOROOT(), "api")
	files, err := filepath.Glob(filepath.Join(dir, "go1*.txt"))
	if err != nil || len(files) == 0 {
		return nil, fmt.Errorf("no api files in %s", dir)
	}
	out := map[string]map[string]*apiEntry{}
	// api/except.txt: statements of earlier api files that no longer hold (changed values, removals)
	except := map[string]bool{}
	if b, err := os.ReadFile(filepath.Join(dir, "except.txt")); err == nil {
		for _, l := range strings.Split(string(b), "\n") {
			except[strings.TrimSpace(l)] = true
		}
	}
	issueRe := regexp.MustCompile(`\s+#\d+\s*$`)
	for _, f := range files {
		base := strings.TrimSuffix(filepath.Base(f), ".txt")
		rel := 0
		if base != "go1" {
			rel, err = strconv.Atoi(strings.TrimPrefix(base, "go1."))
			if err != nil {
				continue
			}
		}
		fh, err := os.Open(f)
		if err != nil {
			return nil, err
		}
		sc := bufio.NewScanner(fh)
		sc.Buffer(make([]byte, 1<<20), 1<<24)
		for sc.Scan() {
			line := sc.Text()
			if except[strings.TrimSpace(line)] {
				continue
			}
			line = issueRe.ReplaceAllString(line, "")
			if i := strings.Index(line, " //deprecated"); i >= 0 {
				line = line[:i]
			}
			m := apiLineRe.FindStringSubmatch(line)
			if m == nil {
				continue
			}
			path, plat, kind, name, rest := m[1], m[2], m[3], m[4], m[5]
			if out[path] == nil {
				out[path] = map[string]*apiEntry{}
			}
			e := out[path][name]
			if e == nil {
				e = &apiEntry{kind: kind, since: rel, generic: -1, sincePlat: map[string]int{}}
				out[path][name] = e
			}
			if rel < e.since {
				e.since = rel
			}
			if plat == "" {
				if e.generic < 0 || rel < e.generic {
					e.generic = rel
				}
			} else {
				pl := strings.TrimSuffix(plat, "-cgo")
				apiCovered[pl] = true
				if old, ok := e.sincePlat[pl]; !ok || rel < old {
					e.sincePlat[pl] = rel
				}
			}
			if kind == "type" {
				if mm := apiMethodRe.FindStringSubmatch(rest); mm != nil {
					if e.methods == nil {
						e.methods = map[string]int{}
					}
					if old, ok := e.methods[mm[1]]; !ok || rel < old {
						e.methods[mm[1]] = rel
					}
				}
			}
			if kind == "const" && strings.HasPrefix(rest, " = ") {
				val := strings.TrimPrefix(rest, " = ")
				exact := ""
				if i := strings.Index(val, "  // "); i >= 0 {
					exact = strings.TrimSpace(val[i+5:])
					val = val[:i]
				}
				var n, d *big.Int
				if exact != "" {
					if r, ok := new(big.Rat).SetString(exact); ok {
						n, d = r.Num(), r.Denom()
					}
				} else if z, ok := new(big.Int).SetString(val, 10); ok {
					n, d = z, big.NewInt(1)
				}
				if n != nil {
					e.values = append(e.values, apiValue{rel: rel, plat: plat, num: n, den: d})
				}
			}
		}
		fh.Close()
	}
	return out, nil
}

// ---------------------------------------------------------------- parsing of the binding files

type bindFileParser struct {
	fset    *token.FileSet
	file    *ast.File
	rel     string
	imports []bindImport
}

func (p *bindFileParser) text(n ast.Node) string {
	var b bytes.Buffer
	printer.Fprint(&b, p.fset, n)
	return strings.Join(strings.Fields(b.String()), " ")
}

// qual reports whether identifier x refers to the import of path (by its explicit name, or by the
// last element of the path for the packages the translator itself has to recognise).
func (p *bindFileParser) qual(x ast.Expr, path string) bool {
	id, ok := x.(*ast.Ident)
	if !ok {
		return false
	}
	for _, im := range p.imports {
		if im.Path != path {
			continue
		}
		name := im.Alias
		if name == "" {
			name = path[strings.LastIndex(path, "/")+1:]
		}
		return id.Name == name
	}
	return false
}

func (p *bindFileParser) isReflectCall(e ast.Expr, fn string) (ast.Expr, bool) {
	c, ok := e.(*ast.CallExpr)
	if !ok || len(c.Args) != 1 || c.Ellipsis.IsValid() {
		return nil, false
	}
	s, ok := c.Fun.(*ast.SelectorExpr)
	if !ok || s.Sel.Name != fn || !p.qual(s.X, "reflect") {
		return nil, false
	}
	return c.Args[0], true
}

func selParts(e ast.Expr) (q, id string, ok bool) {
	s, ok := e.(*ast.SelectorExpr)
	if !ok {
		return "", "", false
	}
	x, ok := s.X.(*ast.Ident)
	if !ok {
		return "", "", false
	}
	return x.Name, s.Sel.Name, true
}

// form classifies the value expression of one table entry.
func (p *bindFileParser) form(e ast.Expr, r *bindRow) {
	r.Text = p.text(e)
	r.Form = "other"
	// reflect.ValueOf(&q.id).Elem()
	if c, ok := e.(*ast.CallExpr); ok && len(c.Args) == 0 {
		if s, ok := c.Fun.(*ast.SelectorExpr); ok && s.Sel.Name == "Elem" {
			if a, ok := p.isReflectCall(s.X, "ValueOf"); ok {
				if u, ok := a.(*ast.UnaryExpr); ok && u.Op == token.AND {
					if q, id, ok := selParts(u.X); ok {
						r.Form, r.Q, r.Ident = "addrsel", q, id
					}
				}
			}
		}
		return
	}
	a, ok := p.isReflectCall(e, "ValueOf")
	if !ok {
		return
	}
	p.argForm(a, r)
}

func (p *bindFileParser) argForm(a ast.Expr, r *bindRow) {
	switch a := a.(type) {
	case *ast.SelectorExpr:
		if q, id, ok := selParts(a); ok {
			r.Form, r.Q, r.Ident = "sel", q, id
		}
	case *ast.Ident:
		r.Form, r.Ident = "ident", a.Name
	case *ast.FuncLit:
		r.Form = "funclit"
	case *ast.CallExpr:
		// (*T)(nil)
		if pe, ok := a.Fun.(*ast.ParenExpr); ok && len(a.Args) == 1 && !a.Ellipsis.IsValid() {
			if n, ok := a.Args[0].(*ast.Ident); ok && n.Name == "nil" {
				if st, ok := pe.X.(*ast.StarExpr); ok {
					if q, id, ok := selParts(st.X); ok {
						r.Form, r.Q, r.Ident = "typesel", q, id
					} else if id, ok := st.X.(*ast.Ident); ok {
						r.Form, r.Ident = "typeident", id.Name
					}
				}
			}
			return
		}
		// constant.MakeFromLiteral("lit", token.TOK, 0)
		if s, ok := a.Fun.(*ast.SelectorExpr); ok && s.Sel.Name == "MakeFromLiteral" && p.qual(s.X, "go/constant") && len(a.Args) == 3 && !a.Ellipsis.IsValid() {
			lit, ok1 := a.Args[0].(*ast.BasicLit)
			ts, ok2 := a.Args[1].(*ast.SelectorExpr)
			z, ok3 := a.Args[2].(*ast.BasicLit)
			if ok1 && ok2 && ok3 && lit.Kind == token.STRING && p.qual(ts.X, "go/token") && z.Kind == token.INT && z.Value == "0" {
				if v, err := strconv.Unquote(lit.Value); err == nil {
					r.Form, r.Tok, r.Lit = "lit", ts.Sel.Name, v
				}
			}
		}
	}
}

func (p *bindFileParser) params(fl *ast.FieldList) []bindParam {
	var out []bindParam
	if fl == nil {
		return nil
	}
	for _, f := range fl.List {
		var txt string
		if el, ok := f.Type.(*ast.Ellipsis); ok {
			txt = "..." + p.text(el.Elt)
		} else {
			txt = p.text(f.Type)
		}
		if len(f.Names) == 0 {
			out = append(out, bindParam{"", txt})
		}
		for _, n := range f.Names {
			out = append(out, bindParam{n.Name, txt})
		}
	}
	return out
}

func (p *bindFileParser) method(fd *ast.FuncDecl) bindMethod {
	m := bindMethod{Name: fd.Name.Name, Text: p.text(fd)}
	if len(fd.Recv.List) == 1 && len(fd.Recv.List[0].Names) == 1 {
		m.Recv = fd.Recv.List[0].Names[0].Name
	}
	m.Params = p.params(fd.Type.Params)
	m.Results = p.params(fd.Type.Results)
	if fd.Body == nil {
		return m
	}
	stmts := fd.Body.List
	if len(stmts) == 2 {
		// if recv.WString == nil { return "" }
		if is, ok := stmts[0].(*ast.IfStmt); ok && is.Init == nil && is.Else == nil && len(is.Body.List) == 1 {
			be, ok1 := is.Cond.(*ast.BinaryExpr)
			rs, ok2 := is.Body.List[0].(*ast.ReturnStmt)
			if ok1 && ok2 && be.Op == token.EQL && len(rs.Results) == 1 {
				q, id, ok3 := selParts(be.X)
				n, ok4 := be.Y.(*ast.Ident)
				bl, ok5 := rs.Results[0].(*ast.BasicLit)
				if ok3 && ok4 && ok5 && q == m.Recv && id == "W"+m.Name && n.Name == "nil" && bl.Value == `""` {
					m.Guard = true
					stmts = stmts[1:]
				}
			}
		}
	}
	if len(stmts) != 1 {
		return m
	}
	var call *ast.CallExpr
	switch st := stmts[0].(type) {
	case *ast.ReturnStmt:
		if len(st.Results) == 1 {
			call, _ = st.Results[0].(*ast.CallExpr)
			m.HasRet = true
		}
	case *ast.ExprStmt:
		call, _ = st.X.(*ast.CallExpr)
	}
	if call == nil {
		return m
	}
	q, id, ok := selParts(call.Fun)
	if !ok {
		return m
	}
	m.CallRecv, m.Field = q, id
	for i, a := range call.Args {
		n, ok := a.(*ast.Ident)
		if !ok {
			return m
		}
		m.Args = append(m.Args, bindArg{n.Name, call.Ellipsis.IsValid() && i == len(call.Args)-1})
	}
	m.Forward = true
	return m
}

var yaegiSelfKey = regexp.MustCompile(`^(github\.com/traefik/yaegi/|\.$)`)

// parseBindFile reads one binding file into rows and wrappers (keys of MapTypes entries are
// recorded as self-named rows: they have to denote an existing function or type).
func parseBindFile(repo, rel string) (*bindFile, error) {
	fset := token.NewFileSet()
	f, err := parser.ParseFile(fset, filepath.Join(repo, rel), nil, parser.SkipObjectResolution)
	if err != nil {
		return nil, err
	}
	p := &bindFileParser{fset: fset, file: f, rel: rel}
	bf := &bindFile{Path: rel}
	for _, im := range f.Imports {
		path, _ := strconv.Unquote(im.Path.Value)
		alias := ""
		if im.Name != nil {
			alias = im.Name.Name
		}
		p.imports = append(p.imports, bindImport{alias, path})
	}
	bf.Imports = p.imports
	wrappers := map[string]*bindWrapper{}
	for _, d := range f.Decls {
		switch d := d.(type) {
		case *ast.GenDecl:
			if d.Tok != token.TYPE {
				continue
			}
			for _, sp := range d.Specs {
				ts := sp.(*ast.TypeSpec)
				st, ok := ts.Type.(*ast.StructType)
				if !ok || !strings.HasPrefix(ts.Name.Name, "_") {
					continue
				}
				w := &bindWrapper{Name: ts.Name.Name, File: rel, Line: fset.Position(ts.Pos()).Line}
				for _, fl := range st.Fields.List {
					bfld := bindField{Type: p.text(fl.Type)}
					if ft, ok := fl.Type.(*ast.FuncType); ok {
						bfld.IsFunc = true
						bfld.Params = p.params(ft.Params)
						bfld.Results = p.params(ft.Results)
					}
					if len(fl.Names) == 0 {
						bfld.Name = "?embedded"
						w.Fields = append(w.Fields, bfld)
					}
					for _, n := range fl.Names {
						c := bfld
						c.Name = n.Name
						w.Fields = append(w.Fields, c)
					}
				}
				wrappers[w.Name] = w
				bf.Wrappers = append(bf.Wrappers, w)
			}
		}
	}
	for _, d := range f.Decls {
		fd, ok := d.(*ast.FuncDecl)
		if !ok {
			continue
		}
		if fd.Recv == nil {
			if fd.Name.Name != "init" && fd.Name.Name != "_" {
				bf.Locals = append(bf.Locals, fd.Name.Name)
			}
			continue
		}
		if len(fd.Recv.List) != 1 {
			continue
		}
		rt := fd.Recv.List[0].Type
		if st, ok := rt.(*ast.StarExpr); ok {
			rt = st.X
		}
		if id, ok := rt.(*ast.Ident); ok {
			if w := wrappers[id.Name]; w != nil {
				w.Methods = append(w.Methods, p.method(fd))
			}
		}
	}
	addRow := func(key, name string, val ast.Expr, pos token.Pos) {
		if yaegiSelfKey.MatchString(key) {
			bf.Skipped++
			return
		}
		r := &bindRow{Key: key, Name: name, File: rel, Line: fset.Position(pos).Line}
		p.form(val, r)
		bf.Rows = append(bf.Rows, r)
	}
	symKey := func(e ast.Expr) (string, bool) {
		ix, ok := e.(*ast.IndexExpr)
		if !ok {
			return "", false
		}
		if id, ok := ix.X.(*ast.Ident); !ok || id.Name != "Symbols" {
			return "", false
		}
		bl, ok := ix.Index.(*ast.BasicLit)
		if !ok || bl.Kind != token.STRING {
			return "", false
		}
		k, err := strconv.Unquote(bl.Value)
		return k, err == nil
	}
	var problems []string
	for _, d := range f.Decls {
		fd, ok := d.(*ast.FuncDecl)
		if !ok || fd.Recv != nil || fd.Name.Name != "init" || fd.Body == nil {
			continue
		}
		ast.Inspect(fd.Body, func(n ast.Node) bool {
			as, ok := n.(*ast.AssignStmt)
			if !ok || len(as.Lhs) != 1 || len(as.Rhs) != 1 {
				return true
			}
			// Symbols["key"] = map[string]reflect.Value{ "Name": value, ... }
			if key, ok := symKey(as.Lhs[0]); ok {
				cl, ok := as.Rhs[0].(*ast.CompositeLit)
				if !ok {
					problems = append(problems, fmt.Sprintf("%s:%d: table %q is not a composite literal", rel, fset.Position(as.Pos()).Line, key))
					return false
				}
				for _, el := range cl.Elts {
					kv, ok := el.(*ast.KeyValueExpr)
					if !ok {
						problems = append(problems, fmt.Sprintf("%s:%d: entry without key", rel, fset.Position(el.Pos()).Line))
						continue
					}
					bl, ok := kv.Key.(*ast.BasicLit)
					if !ok || bl.Kind != token.STRING {
						problems = append(problems, fmt.Sprintf("%s:%d: key is not a string literal", rel, fset.Position(el.Pos()).Line))
						continue
					}
					name, _ := strconv.Unquote(bl.Value)
					addRow(key, name, kv.Value, kv.Pos())
				}
				return false
			}
			// Symbols["key"]["Name"] = value
			if ix, ok := as.Lhs[0].(*ast.IndexExpr); ok {
				if key, ok := symKey(ix.X); ok {
					if bl, ok := ix.Index.(*ast.BasicLit); ok && bl.Kind == token.STRING {
						name, _ := strconv.Unquote(bl.Value)
						addRow(key, name, as.Rhs[0], as.Pos())
						return false
					}
					problems = append(problems, fmt.Sprintf("%s:%d: computed name in table %q", rel, fset.Position(as.Pos()).Line, key))
				}
			}
			return true
		})
		// references of MapTypes entries: reflect.ValueOf(pkg.F), reflect.TypeOf((*pkg.T)(nil)), (*_pkg_I)(nil)
		ast.Inspect(fd.Body, func(n ast.Node) bool {
			as, ok := n.(*ast.AssignStmt)
			if ok && len(as.Lhs) == 1 {
				if _, isSym := symKey(as.Lhs[0]); isSym {
					return false
				}
				if ix, ok := as.Lhs[0].(*ast.IndexExpr); ok {
					if _, isSym := symKey(ix.X); isSym {
						return false
					}
				}
			}
			c, ok := n.(*ast.CallExpr)
			if !ok {
				return true
			}
			var arg ast.Expr
			if a, ok := p.isReflectCall(c, "ValueOf"); ok {
				arg = a
			} else if a, ok := p.isReflectCall(c, "TypeOf"); ok {
				arg = a
			} else {
				return true
			}
			r := &bindRow{File: rel, Line: fset.Position(c.Pos()).Line, viaMapTypes: true, Text: p.text(c), Form: "other"}
			p.argForm(arg, r)
			switch r.Form {
			case "sel", "typesel":
				for _, im := range p.imports {
					name := im.Alias
					if name == "" {
						name = im.Path[strings.LastIndex(im.Path, "/")+1:]
					}
					if name == r.Q {
						r.Key, r.Name = im.Path+"/?", r.Ident // the package name is filled in from the truth
					}
				}
				if r.Key != "" {
					bf.Rows = append(bf.Rows, r)
				}
			case "typeident":
				if wrappers[r.Ident] != nil {
					return true // a composed wrapper declared in this file
				}
				// a generated wrapper of another file: its package is found once the truth is loaded
				r.Key, r.Name = "?", r.Ident
				bf.Rows = append(bf.Rows, r)
			}
			return true
		})
	}
	if len(problems) > 0 {
		return bf, fmt.Errorf("unreadable table entries: %s", strings.Join(problems, "; "))
	}
	return bf, nil
}

// wrappedPath finds the import path a table key "path/name" refers to among the imports of the file.
func wrappedPath(key string, imports []bindImport) (string, bool) {
	i := strings.LastIndex(key, "/")
	if i < 0 {
		return "", false
	}
	path := key[:i]
	for _, im := range imports {
		if im.Path == path {
			return path, true
		}
	}
	return path, false
}

func extractPrefix(path string) string {
	return "_" + strings.NewReplacer("/", "_", "-", "_", ".", "_", "~", "_").Replace(path) + "_"
}

// ---------------------------------------------------------------- collection of the groups

var bindFileRe = regexp.MustCompile(`^go1_(\d+)_(.+)\.go$`)
var bindSysRe = regexp.MustCompile(`^go1_(\d+)_syscall_([a-z0-9]+)_([a-z0-9]+)\.go$`)

type bindCollection struct {
	Groups       []*bindGroup
	Restricted   []string // keys of extract's restricted table
	RestrictedGo []string // declarations of stdlib/restricted.go
	API          map[string]map[string]*apiEntry
	// CompiledRelease: the N of the stdlib/syscall/go1_N_* files the installed toolchain compiles
	CompiledRelease int
}

// bindReleaseCompiled: does the installed toolchain satisfy the release tag go1.N?
func bindReleaseCompiled(rel int) bool {
	tag := fmt.Sprintf("go1.%d", rel)
	for _, t := range build.Default.ReleaseTags {
		if t == tag {
			return true
		}
	}
	return false
}

func readRestricted(repo string) (tab, decls []string, err error) {
	tab, err = mapLitKeys(filepath.Join(repo, "extract", "extract.go"), "restricted")
	if err != nil {
		return nil, nil, err
	}
	fset := token.NewFileSet()
	f, err := parser.ParseFile(fset, filepath.Join(repo, "stdlib", "restricted.go"), nil, parser.SkipObjectResolution)
	if err != nil {
		return nil, nil, err
	}
	for _, d := range f.Decls {
		switch d := d.(type) {
		case *ast.FuncDecl:
			if d.Recv == nil {
				decls = append(decls, d.Name.Name)
			}
		case *ast.GenDecl:
			if d.Tok == token.TYPE {
				for _, sp := range d.Specs {
					decls = append(decls, sp.(*ast.TypeSpec).Name.Name)
				}
			}
		}
	}
	sort.Strings(decls)
	return tab, decls, nil
}

// bindCollect parses the binding files of the tier, loads the truth and numbers everything.
// The quick groups come first and get the same ids in both tiers.
func bindCollect(repo, tier string) (*bindCollection, error) {
	api, err := loadAPI()
	if err != nil {
		return nil, err
	}
	col := &bindCollection{API: api}
	col.Restricted, col.RestrictedGo, err = readRestricted(repo)
	if err != nil {
		return nil, err
	}
	hostOS, hostArch := runtime.GOOS, runtime.GOARCH
	std := filepath.Join(repo, "stdlib")
	ents, err := os.ReadDir(std)
	if err != nil {
		return nil, err
	}
	type spec struct {
		g     *bindGroup
		files []string
		paths []string // wrapped packages (found from the keys when empty)
	}
	var specs []*spec
	for _, e := range ents {
		m := bindFileRe.FindStringSubmatch(e.Name())
		if m == nil || e.IsDir() {
			continue
		}
		rel, _ := strconv.Atoi(m[1])
		specs = append(specs, &spec{g: &bindGroup{Name: e.Name(), Release: rel, Complete: true, GOOS: hostOS, GOARCH: hostArch, Quick: true},
			files: []string{"stdlib/" + e.Name()}})
	}
	sysEnts, err := os.ReadDir(filepath.Join(std, "syscall"))
	if err != nil {
		return nil, err
	}
	sysMax := 0
	for _, e := range sysEnts {
		m := bindSysRe.FindStringSubmatch(e.Name())
		if m == nil {
			continue
		}
		rel, _ := strconv.Atoi(m[1])
		if rel > sysMax && bindReleaseCompiled(rel) {
			sysMax = rel
		}
	}
	col.CompiledRelease = sysMax
	for _, e := range sysEnts {
		m := bindSysRe.FindStringSubmatch(e.Name())
		if m == nil {
			continue
		}
		rel, _ := strconv.Atoi(m[1])
		quick := m[2] == hostOS && m[3] == hostArch
		// the tables of the other platforms: those of the release the installed toolchain compiles are
		// decided in both tiers (cross-platform shards), the others in the thorough tier only; the quick
		// tier still reads them, because the drift rule compares the two releases of a table
		xplat := !quick && rel == sysMax
		files := []string{"stdlib/syscall/" + e.Name()}
		if _, err := os.Stat(filepath.Join(std, "unrestricted", e.Name())); err == nil {
			files = append(files, "stdlib/unrestricted/"+e.Name())
		}
		specs = append(specs, &spec{g: &bindGroup{Name: "syscall/" + e.Name(), Release: rel, Complete: true, GOOS: m[2], GOARCH: m[3], Quick: quick,
			XPlat: xplat, SiblingOnly: !quick && !xplat && tier != "thorough"},
			files: files, paths: []string{"syscall"}})
	}
	// unrestricted files without a syscall counterpart would otherwise be lost
	unrEnts, _ := os.ReadDir(filepath.Join(std, "unrestricted"))
	for _, e := range unrEnts {
		if bindSysRe.MatchString(e.Name()) {
			if _, err := os.Stat(filepath.Join(std, "syscall", e.Name())); err != nil {
				return nil, fmt.Errorf("stdlib/unrestricted/%s has no counterpart in stdlib/syscall", e.Name())
			}
		}
	}
	for _, rel := range []int{21, 22} {
		specs = append(specs, &spec{g: &bindGroup{Name: fmt.Sprintf("unsafe/go1_%d_unsafe.go", rel), Release: rel, Complete: true, GOOS: hostOS, GOARCH: hostArch, Quick: true},
			files: []string{fmt.Sprintf("stdlib/unsafe/go1_%d_unsafe.go", rel), "stdlib/unsafe/unsafe.go"}, paths: []string{"unsafe"}})
	}
	specs = append(specs, &spec{g: &bindGroup{Name: "unrestricted/unrestricted.go", Release: 22, Complete: false, GOOS: hostOS, GOARCH: hostArch, Quick: true},
		files: []string{"stdlib/unrestricted/unrestricted.go"}})
	specs = append(specs, &spec{g: &bindGroup{Name: "composed", Release: 22, Complete: false, GOOS: hostOS, GOARCH: hostArch, Quick: true},
		files: []string{"stdlib/wrapper-composed.go", "stdlib/maptypes.go"}})
	sort.SliceStable(specs, func(i, j int) bool {
		if specs[i].g.Quick != specs[j].g.Quick {
			return specs[i].g.Quick
		}
		if specs[i].g.XPlat != specs[j].g.XPlat {
			return specs[i].g.XPlat
		}
		return specs[i].g.Name < specs[j].g.Name
	})

	// parse (parallel), then load the truth (parallel per platform), then number
	errs := make([]error, len(specs))
	parallelMap(len(specs), 0, func(i int) {
		sp := specs[i]
		for _, rel := range sp.files {
			bf, err := parseBindFile(repo, rel)
			if err != nil {
				errs[i] = err
				return
			}
			sp.g.Files = append(sp.g.Files, bf)
		}
	})
	for _, e := range errs {
		if e != nil {
			return nil, e
		}
	}
	byPlat := map[string][]*spec{}
	var plats []string
	for _, sp := range specs {
		k := sp.g.GOOS + "/" + sp.g.GOARCH
		if byPlat[k] == nil {
			plats = append(plats, k)
		}
		byPlat[k] = append(byPlat[k], sp)
	}
	perr := make([]error, len(plats))
	parallelMap(len(plats), 0, func(pi int) {
		for _, sp := range byPlat[plats[pi]] {
			g := sp.g
			ld := bindLoaderFor(g.GOOS, g.GOARCH)
			paths := append([]string(nil), sp.paths...)
			seen := map[string]bool{}
			for _, p := range paths {
				seen[p] = true
			}
			for _, bf := range g.Files {
				for _, r := range bf.Rows {
					if r.viaMapTypes && r.Form == "typeident" {
						continue
					}
					if p, ok := wrappedPath(r.Key, bf.Imports); ok && !seen[p] {
						seen[p] = true
						paths = append(paths, p)
					}
				}
			}
			sort.Strings(paths)
			for _, p := range paths {
				tp, err := ld.truth(p, api, g.GOOS+"-"+g.GOARCH)
				if err != nil {
					perr[pi] = err
					return
				}
				g.Truth = append(g.Truth, tp)
			}
			// MapTypes references: fill in the package name / the wrapper's package
			for _, bf := range g.Files {
				for _, r := range bf.Rows {
					if !r.viaMapTypes {
						continue
					}
					if strings.HasSuffix(r.Key, "/?") {
						path := strings.TrimSuffix(r.Key, "/?")
						for _, tp := range g.Truth {
							if tp.Path == path {
								r.Key = path + "/" + tp.Name
							}
						}
					} else if r.Key == "?" {
						for _, im := range bf.Imports {
							if pre := extractPrefix(im.Path); strings.HasPrefix(r.Ident, pre) {
								var tp *truthPkg
								for _, t := range g.Truth {
									if t.Path == im.Path {
										tp = t
									}
								}
								if tp == nil {
									t, err := ld.truth(im.Path, api, g.GOOS+"-"+g.GOARCH)
									if err != nil {
										continue
									}
									// only a real match counts: the interface must exist
									if o := t.byName[strings.TrimPrefix(r.Ident, pre)]; o == nil || o.Kind != "iface" {
										continue
									}
									tp = t
									g.Truth = append(g.Truth, tp)
								}
								r.Key, r.Name = im.Path+"/"+tp.Name, "_"+strings.TrimPrefix(r.Ident, pre)
							}
						}
					}
				}
			}
		}
	})
	for _, e := range perr {
		if e != nil {
			return nil, e
		}
	}
	// ids: rows from 1, truth objects from 1,000,001, wrappers from 2,000,001, in the order of the groups.
	// The cross-platform groups number in blocks of their own (by position among the cross-platform
	// groups), so that a row added to or removed from another file does not renumber them: only the
	// shards whose files changed are regenerated and re-proved.
	const xBlock = 6000
	grid, gtid, gwid := 0, 1000000, 2000000
	xi := 0
	for gi, sp := range specs {
		g := sp.g
		rid, tid, wid := grid, gtid, gwid
		if g.XPlat {
			rid, tid, wid = 400000+xi*xBlock, 1400000+xi*xBlock, 2400000+xi*xBlock
			xi++
		}
		rid0, tid0, wid0 := rid, tid, wid
		// truth objects are shared between groups of one platform: copy them so that ids are per group
		for ti, tp := range g.Truth {
			cp := &truthPkg{Path: tp.Path, Name: tp.Name, byName: map[string]*truthObj{}, pkg: tp.pkg}
			for _, o := range tp.Objs {
				c := *o
				tid++
				c.ID = tid
				cp.Objs = append(cp.Objs, &c)
				cp.byName[c.Name] = &c
			}
			g.Truth[ti] = cp
		}
		for fi, bf := range g.Files {
			// a file shared by several groups (unsafe.go) is parsed once per group: rows are fresh
			for _, r := range bf.Rows {
				rid++
				r.ID, r.groupIdx, r.fileIdx = rid, gi, fi
				for _, tp := range g.Truth {
					if tp.Path+"/"+tp.Name == r.Key {
						r.truthPkg = tp
						r.truth = tp.byName[strings.TrimPrefix(r.Name, "_")]
						if !strings.HasPrefix(r.Name, "_") {
							r.truth = tp.byName[r.Name]
						}
					}
				}
			}
			for _, w := range bf.Wrappers {
				wid++
				w.ID = wid
			}
		}
		if g.XPlat {
			if rid-rid0 >= xBlock || tid-tid0 >= xBlock || wid-wid0 >= xBlock {
				return nil, fmt.Errorf("group %s exceeds the id block of %d", g.Name, xBlock)
			}
		} else {
			grid, gtid, gwid = rid, tid, wid
		}
		col.Groups = append(col.Groups, g)
	}
	if grid >= 400000 || gtid >= 1400000 || gwid >= 2400000 {
		return nil, fmt.Errorf("id ranges overlap: %d rows, %d truth objects, %d wrappers", grid, gtid-1000000, gwid-2000000)
	}
	return col, nil
}

// ---------------------------------------------------------------- Coq rendering

// bindIntern, when set, replaces every string by a reference to a per-file definition (the same
// text is then elaborated once by Coq instead of once per occurrence; the data is unchanged).
var bindIntern *bindStrTable

type bindStrTable struct {
	idx   map[string]int
	order []string
}

func (t *bindStrTable) ref(x string) string {
	i, ok := t.idx[x]
	if !ok {
		i = len(t.order)
		t.idx[x] = i
		t.order = append(t.order, x)
	}
	return fmt.Sprintf("x%d", i)
}

func bindStr(x string) string {
	if bindIntern != nil {
		return bindIntern.ref(x)
	}
	return bindStrLit(x)
}

func bindStrLit(x string) string {
	plain := true
	for i := 0; i < len(x); i++ {
		if x[i] < 32 || x[i] > 126 {
			plain = false
			break
		}
	}
	if plain {
		return coqStr(x)
	}
	parts := make([]string, len(x))
	for i := 0; i < len(x); i++ {
		parts[i] = strconv.Itoa(int(x[i]))
	}
	return "(bs [" + strings.Join(parts, ";") + "])"
}

// bindZ renders an integer; large ones in hexadecimal (Coq reads those much faster).
func bindZ(z *big.Int) string {
	t := z.String()
	if z.BitLen() > 64 {
		t = "0x" + new(big.Int).Abs(z).Text(16)
		if z.Sign() < 0 {
			t = "-" + t
		}
	}
	if z.Sign() < 0 {
		return "(" + t + ")"
	}
	return t
}

func bindTok(t string) string {
	switch t {
	case "INT", "FLOAT", "CHAR", "STRING", "IMAG":
		return "T" + t
	}
	return "TOTHER"
}

func (r *bindRow) coqForm() string {
	switch r.Form {
	case "sel":
		return fmt.Sprintf("(FSel %s %s)", bindStr(r.Q), bindStr(r.Ident))
	case "ident":
		return fmt.Sprintf("(FIdent %s)", bindStr(r.Ident))
	case "addrsel":
		return fmt.Sprintf("(FAddrSel %s %s)", bindStr(r.Q), bindStr(r.Ident))
	case "typesel":
		return fmt.Sprintf("(FTypeSel %s %s)", bindStr(r.Q), bindStr(r.Ident))
	case "typeident":
		return fmt.Sprintf("(FTypeIdent %s)", bindStr(r.Ident))
	case "lit":
		return fmt.Sprintf("(FLit %s %s)", bindTok(r.Tok), bindStr(r.Lit))
	case "funclit":
		return "FFuncLit"
	}
	return fmt.Sprintf("(FOther %s)", bindStr(r.Text))
}

func coqParams(ps []bindParam) string {
	it := make([]string, len(ps))
	for i, p := range ps {
		it[i] = fmt.Sprintf("P %s %s", bindStr(p.Name), bindStr(p.Type))
	}
	return coqList(it)
}

func (w *bindWrapper) coq() string {
	var fs, ms []string
	for _, f := range w.Fields {
		if f.IsFunc {
			fs = append(fs, fmt.Sprintf("(%s, FTFunc %s %s)", bindStr(f.Name), coqParams(f.Params), coqParams(f.Results)))
		} else {
			fs = append(fs, fmt.Sprintf("(%s, FTOther %s)", bindStr(f.Name), bindStr(f.Type)))
		}
	}
	for _, m := range w.Methods {
		body := "BOther"
		if m.Forward {
			as := make([]string, len(m.Args))
			for i, a := range m.Args {
				as[i] = fmt.Sprintf("(%s, %s)", bindStr(a.Name), coqBool(a.Ellipsis))
			}
			body = fmt.Sprintf("(BForward %s %s %s %s %s)", coqBool(m.HasRet), bindStr(m.CallRecv), bindStr(m.Field), coqList(as), coqBool(m.Guard))
		}
		ms = append(ms, fmt.Sprintf("WM %s %s %s %s %s", bindStr(m.Name), bindStr(m.Recv), coqParams(m.Params), coqParams(m.Results), body))
	}
	return fmt.Sprintf("W %d %s\n    %s\n    [%s]", w.ID, bindStr(w.Name), coqList(fs), strings.Join(ms, ";\n     "))
}

func (t *truthObj) coqKind() string {
	switch t.Kind {
	case "func":
		return "KFunc"
	case "genfunc":
		return "KGenFunc"
	case "var":
		return "KVar"
	case "type":
		return "KType"
	case "gentype":
		return "KGenType"
	case "constraint":
		return "KConstraint"
	case "constid":
		return "KConstId"
	case "builtin":
		return "KBuiltin"
	case "uint":
		return fmt.Sprintf("(KUInt %s)", bindZ(t.Num))
	case "urune":
		return fmt.Sprintf("(KURune %s)", bindZ(t.Num))
	case "ufloat":
		return fmt.Sprintf("(KUFloat %s %s)", bindZ(t.Num), bindZ(t.Den))
	case "ustring":
		return fmt.Sprintf("(KUString %s)", bindStr(t.Str))
	case "iface":
		ms := make([]string, len(t.Methods))
		for i, m := range t.Methods {
			ps := make([]string, len(m.Params))
			for j, x := range m.Params {
				ps[j] = bindStr(x)
			}
			rs := make([]string, len(m.Results))
			for j, x := range m.Results {
				rs[j] = bindStr(x)
			}
			ms[i] = fmt.Sprintf("TM %s %d %s %s", bindStr(m.Name), m.Since, coqList(ps), coqList(rs))
		}
		return fmt.Sprintf("(KIface %s)", coqList(ms))
	}
	return "KGenType" // unknown kinds of objects are never expected and never denoted
}

func (t *truthObj) coqAPI() string {
	if t.API == nil {
		return "ANone"
	}
	k := map[string]string{"func": "AFunc", "var": "AVar", "type": "AType", "const": "AConst"}[t.API.Kind]
	if k == "" {
		return "ANone"
	}
	if t.API.Num != nil {
		return fmt.Sprintf("(AKnown %s (Some (%s, %s)))", k, bindZ(t.API.Num), bindZ(t.API.Den))
	}
	return fmt.Sprintf("(AKnown %s None)", k)
}

func coqIdent(x string) string {
	var b strings.Builder
	for _, c := range x {
		if c >= 'a' && c <= 'z' || c >= 'A' && c <= 'Z' || c >= '0' && c <= '9' {
			b.WriteRune(c)
		} else {
			b.WriteByte('_')
		}
	}
	return b.String()
}

func (g *bindGroup) coqName() string { return "g_" + coqIdent(strings.TrimSuffix(g.Name, ".go")) }

func (g *bindGroup) coq(b *strings.Builder) {
	fmt.Fprintf(b, "Definition %s : group := G %s %d %s\n [", g.coqName(), bindStr(g.Name), g.Release, coqBool(g.Complete))
	for fi, f := range g.Files {
		if fi > 0 {
			b.WriteString(";\n  ")
		}
		ims := make([]string, len(f.Imports))
		for i, im := range f.Imports {
			ims[i] = fmt.Sprintf("(%s, %s)", bindStr(im.Alias), bindStr(im.Path))
		}
		fmt.Fprintf(b, "F %s %s %s\n   [", bindStr(f.Path), coqList(ims), coqStrList(f.Locals))
		for i, r := range f.Rows {
			if i > 0 {
				b.WriteString(";\n    ")
			}
			fmt.Fprintf(b, "R %d %s %s %s", r.ID, bindStr(r.Key), bindStr(r.Name), r.coqForm())
		}
		b.WriteString("]\n   [")
		for i, w := range f.Wrappers {
			if i > 0 {
				b.WriteString(";\n    ")
			}
			b.WriteString(w.coq())
		}
		b.WriteString("]")
	}
	b.WriteString("]\n [")
	for ti, tp := range g.Truth {
		if ti > 0 {
			b.WriteString(";\n  ")
		}
		fmt.Fprintf(b, "TP %s %s\n   [", bindStr(tp.Path), bindStr(tp.Name))
		for i, t := range tp.Objs {
			if i > 0 {
				b.WriteString(";\n    ")
			}
			fmt.Fprintf(b, "T %d %s %s %d %s", t.ID, bindStr(t.Name), t.coqKind(), t.Since, t.coqAPI())
		}
		b.WriteString("]")
	}
	b.WriteString("].\n\n")
}

func (g *bindGroup) weight() int {
	n := 0
	for _, f := range g.Files {
		n += len(f.Rows) + 4*len(f.Wrappers)
	}
	for _, tp := range g.Truth {
		n += len(tp.Objs)
	}
	return n
}

const bindGenHeader = "(* generated by vh tr-bind from stdlib/** of the repository, go/types on $GOROOT/src and $GOROOT/api; data only; do not edit *)\n" +
	"From Verif Require Import Lib.Str Bind.Literal Bind.Model.\nOpen Scope Z_scope.\n\n"

var bindTextMu sync.Mutex

func bindShardText(gs []*bindGroup) string {
	bindTextMu.Lock()
	defer bindTextMu.Unlock()
	var body strings.Builder
	bindIntern = &bindStrTable{idx: map[string]int{}}
	names := make([]string, len(gs))
	for i, g := range gs {
		g.coq(&body)
		names[i] = g.coqName()
	}
	tab := bindIntern
	bindIntern = nil
	var b strings.Builder
	b.WriteString(bindGenHeader)
	for i, x := range tab.order {
		fmt.Fprintf(&b, "Definition x%d := %s.\n", i, bindStrLit(x))
	}
	b.WriteString("\n")
	b.WriteString(body.String())
	fmt.Fprintf(&b, "Definition groups : list group := %s.\n", coqList(names))
	return b.String()
}

const bindWitnessGroup = "go1_22_math.go"

// bindShardsOf distributes the quick groups: the witness group alone, the others balanced by weight.
func bindShardsOf(groups []*bindGroup) (math []*bindGroup, shards [][]*bindGroup) {
	shards = make([][]*bindGroup, bindShards)
	load := make([]int, bindShards)
	var rest []*bindGroup
	for _, g := range groups {
		if !g.Quick {
			continue
		}
		if g.Name == bindWitnessGroup {
			math = append(math, g)
			continue
		}
		rest = append(rest, g)
	}
	sort.SliceStable(rest, func(i, j int) bool {
		if rest[i].weight() != rest[j].weight() {
			return rest[i].weight() > rest[j].weight()
		}
		return rest[i].Name < rest[j].Name
	})
	for _, g := range rest {
		k := 0
		for i := range load {
			if load[i] < load[k] {
				k = i
			}
		}
		shards[k] = append(shards[k], g)
		load[k] += g.weight()
	}
	for _, s := range shards {
		sort.SliceStable(s, func(i, j int) bool { return s[i].Name < s[j].Name })
	}
	return
}

// ---------------------------------------------------------------- cross-platform shards and release drift

const bindXShards = 16

// bindXShardsOf distributes the cross-platform groups (tables of the other platforms for the release
// the toolchain compiles) over a fixed number of shards: sorted by platform, consecutive platforms
// together, so that the tables of one operating system share their strings.
func bindXShardsOf(groups []*bindGroup) [][]*bindGroup {
	var xs []*bindGroup
	for _, g := range groups {
		if g.XPlat {
			xs = append(xs, g)
		}
	}
	sort.SliceStable(xs, func(i, j int) bool { return xs[i].Name < xs[j].Name })
	shards := make([][]*bindGroup, bindXShards)
	per := (len(xs) + bindXShards - 1) / bindXShards
	if per == 0 {
		per = 1
	}
	for i, g := range xs {
		k := i / per
		if k >= bindXShards {
			k = bindXShards - 1
		}
		shards[k] = append(shards[k], g)
	}
	return shards
}

// bindMissing is the completeness rule on one truth object (Go rendition of Model.obj_complete).
func bindMissing(g *bindGroup, tp *truthPkg, t *truthObj) string {
	switch t.Kind {
	case "genfunc", "gentype", "constraint", "builtin", "other":
		return ""
	}
	if t.Since > g.Release {
		return ""
	}
	key := tp.Path + "/" + tp.Name
	has := func(name string) bool {
		for _, f := range g.Files {
			for _, r := range f.Rows {
				if r.Key == key && r.Name == name {
					return true
				}
			}
		}
		return false
	}
	if !has(t.Name) {
		return "no entry " + t.Name
	}
	if t.Kind == "iface" {
		hasW := false
		for _, f := range g.Files {
			for _, w := range f.Wrappers {
				if w.Name == extractPrefix(tp.Path)+t.Name {
					hasW = true
				}
			}
		}
		if !has("_"+t.Name) || !hasW {
			return "no wrapper entry _" + t.Name
		}
	}
	return ""
}

func (g *bindGroup) rowOf(key, name string) *bindRow {
	for _, f := range g.Files {
		for _, r := range f.Rows {
			if r.Key == key && r.Name == name {
				return r
			}
		}
	}
	return nil
}

// sibling: the group of the same platform for the other release yaegi ships tables for.
func (col *bindCollection) sibling(g *bindGroup) *bindGroup {
	if !strings.HasPrefix(g.Name, "syscall/") {
		return nil
	}
	for _, o := range col.Groups {
		if o != g && strings.HasPrefix(o.Name, "syscall/") && o.GOOS == g.GOOS && o.GOARCH == g.GOARCH && o.Release != g.Release {
			return o
		}
	}
	return nil
}

// bindDrift: the truth objects of a table for another platform than the host's that the installed
// source declares, $GOROOT/api says nothing about (platform not covered) and BOTH releases of the
// table lack: release drift that cannot be decided offline (see c14.go).  Only missing entries; a
// differing value in a table of the compiled release is never excused.
type bindDriftObj struct {
	G  *bindGroup
	TP *truthPkg
	T  *truthObj
}

func (col *bindCollection) drift(g *bindGroup) []bindDriftObj {
	var out []bindDriftObj
	if g.Quick || !g.Complete || (g.GOOS == runtime.GOOS && g.GOARCH == runtime.GOARCH) {
		return nil
	}
	sib := col.sibling(g)
	if sib == nil {
		return nil
	}
	for _, tp := range g.Truth {
		for _, t := range tp.Objs {
			if t.API != nil || bindMissing(g, tp, t) == "" {
				continue
			}
			if sib.rowOf(tp.Path+"/"+tp.Name, t.Name) == nil {
				out = append(out, bindDriftObj{g, tp, t})
			}
		}
	}
	return out
}

func writeDriftGen(out string, col *bindCollection) error {
	var b strings.Builder
	b.WriteString("(* generated by vh tr-bind: truth objects of the cross-platform tables that the installed source declares,\n" +
		"   $GOROOT/api does not cover (platform not listed) and both releases of the table lack (release drift, undecidable offline);\n" +
		"   completeness of the cross-platform tables is proved up to these; do not edit *)\n")
	b.WriteString("From Coq Require Import NArith List.\nImport ListNotations.\n")
	var ids []string
	for _, g := range col.Groups {
		if !g.XPlat {
			continue
		}
		for _, d := range col.drift(g) {
			fmt.Fprintf(&b, "(* %d: %s.%s (%s) for %s/%s, absent from %s and from its sibling release *)\n", d.T.ID, d.TP.Path, d.T.Name, d.T.Kind, g.GOOS, g.GOARCH, g.Name)
			ids = append(ids, fmt.Sprintf("%d%%N", d.T.ID))
		}
	}
	fmt.Fprintf(&b, "Definition drift : list N := %s.\n", coqList(ids))
	return writeIfChanged(filepath.Join(out, "BindXDrift_gen.v"), []byte(b.String()))
}

// ---------------------------------------------------------------- word-size dependent constants

const bindWordsizeRegion = "wordsize-const-32bit"

// bindWordsize judges the platform-INDEPENDENT binding files of the compiled release (stdlib/go1_N_*.go:
// no GOOS/GOARCH in name or constraint, one table for every platform) against the go/types truth of a
// 32-bit platform as well.  Only the untyped constants whose exact value there differs from the host
// truth are emitted, with their rows: one group per file, named "<file>@linux/386".
func bindWordsize(col *bindCollection) ([]*bindGroup, error) {
	const goos, goarch = "linux", "386"
	ld := bindLoaderFor(goos, goarch)
	var out []*bindGroup
	rid, tid := 3000000, 3100000
	for _, g := range col.Groups {
		if !g.Quick || g.Release != col.CompiledRelease || strings.Contains(g.Name, "/") || !bindFileRe.MatchString(g.Name) {
			continue
		}
		ng := &bindGroup{Name: g.Name + "@" + goos + "/" + goarch, Release: g.Release, GOOS: goos, GOARCH: goarch}
		names := map[string]bool{}
		for _, tp := range g.Truth {
			tp32, err := ld.truth(tp.Path, col.API, goos+"-"+goarch)
			if err != nil {
				continue // the package does not exist on that platform
			}
			cp := &truthPkg{Path: tp.Path, Name: tp.Name, byName: map[string]*truthObj{}, pkg: tp32.pkg}
			for _, o := range tp32.Objs {
				h := tp.byName[o.Name]
				if h == nil || o.Num == nil && o.Kind != "ustring" {
					continue
				}
				same := h.Kind == o.Kind && h.Str == o.Str && (h.Num == nil) == (o.Num == nil) &&
					(o.Num == nil || (h.Num.Cmp(o.Num) == 0 && h.Den.Cmp(o.Den) == 0))
				if same {
					continue
				}
				c := *o
				tid++
				c.ID = tid
				cp.Objs = append(cp.Objs, &c)
				cp.byName[c.Name] = &c
				names[tp.Path+"/"+tp.Name+"\x00"+c.Name] = true
			}
			if len(cp.Objs) > 0 {
				ng.Truth = append(ng.Truth, cp)
			}
		}
		if len(ng.Truth) == 0 {
			continue
		}
		for _, f := range g.Files {
			nf := &bindFile{Path: f.Path, Imports: f.Imports, Locals: f.Locals}
			for _, r := range f.Rows {
				if !names[r.Key+"\x00"+r.Name] {
					continue
				}
				rc := *r
				rid++
				rc.ID = rid
				for _, tp := range ng.Truth {
					if tp.Path+"/"+tp.Name == rc.Key {
						rc.truthPkg, rc.truth = tp, tp.byName[rc.Name]
					}
				}
				nf.Rows = append(nf.Rows, &rc)
			}
			ng.Files = append(ng.Files, nf)
		}
		out = append(out, ng)
	}
	return out, nil
}

func writeRestrictedGen(out string, tab, decls []string) error {
	var b strings.Builder
	b.WriteString("(* generated by vh tr-bind from extract/extract.go (restricted) and stdlib/restricted.go; do not edit *)\n")
	b.WriteString("From Verif Require Import Lib.Str.\n")
	fmt.Fprintf(&b, "Definition restricted : list str := %s.\n", coqStrList(tab))
	fmt.Fprintf(&b, "Definition restricted_decls : list str := %s.\n", coqStrList(decls))
	return writeIfChanged(filepath.Join(out, "BindRestricted_gen.v"), []byte(b.String()))
}

func trBind(args []string) error {
	fs := flag.NewFlagSet("tr-bind", flag.ExitOnError)
	repo := fs.String("repo", "/repo", "repository root")
	out := fs.String("out", "/verif/coq/gen", "output directory")
	fs.Parse(args)
	col, err := bindCollect(*repo, "quick")
	if err != nil {
		return err
	}
	if err := writeRestrictedGen(*out, col.Restricted, col.RestrictedGo); err != nil {
		return err
	}
	math, shards := bindShardsOf(col.Groups)
	if len(math) != 1 {
		return fmt.Errorf("stdlib/%s not found", bindWitnessGroup)
	}
	if err := writeIfChanged(filepath.Join(*out, "Bind_math_gen.v"), []byte(bindShardText(math))); err != nil {
		return err
	}
	for i, s := range shards {
		if err := writeIfChanged(filepath.Join(*out, fmt.Sprintf("Bind_%02d_gen.v", i)), []byte(bindShardText(s))); err != nil {
			return err
		}
	}
	// word-size dependent constants of the platform-independent files, against go/types for linux/386
	ws, err := bindWordsize(col)
	if err != nil {
		return err
	}
	if err := writeIfChanged(filepath.Join(*out, "BindW_gen.v"), []byte(bindShardText(ws))); err != nil {
		return err
	}
	// the tables of the other platforms (release the toolchain compiles), against go/types per GOOS/GOARCH
	if err := writeDriftGen(*out, col); err != nil {
		return err
	}
	for i, s := range bindXShardsOf(col.Groups) {
		if err := writeIfChanged(filepath.Join(*out, fmt.Sprintf("BindX_%02d_gen.v", i)), []byte(bindShardText(s))); err != nil {
			return err
		}
	}
	return nil
}
