package main

import (
	"fmt"
	"reflect"
	"sort"
	"strings"
)

// C07 — two more dimensions of script -> host calls.
//
// Stream L: composite literals of HOST-DECLARED named types (slice, array, map, struct) with keyed,
// un-keyed and mixed elements, handed to a host function directly, through a variable, nested in
// another host literal. Reference: Go's rule for element indexes ("an element without a key uses the
// previous element's index plus one"), evaluated natively on the same abstract literal; the same
// literal written with a script-declared type and converted is a second oracle.
//
// Stream P: placement of the results of a multi-result call in :=, = and re-declarations whose
// re-used variables were captured by a closure and/or had their address taken beforehand. After the
// statement the new values must be seen directly, through the closure and through the pointer.
// Callees: host function, host method, script function (the same statement wholly inside the script).

// ---------------------------------------------------------------- host-declared named types

type C07Vec []float64
type C07Grid [6]int
type C07Names []string
type C07Dict map[string]int
type C07Rec struct {
	A int
	B string
	C C07Names
}

// one element of an abstract slice/array literal
type c07el struct {
	key int // -1: no key
	val int
}

type c07L struct {
	Type  string // Vec | Grid | Names | Dict | Rec
	Els   []c07el
	Form  string // direct | var | local-conv | nested | unnamed
	Mixed string // plain | keyed | mixed
	RV    [2]int // Rec: the values of fields A and B
}

func (l *c07L) key() string { return fmt.Sprint(l.Type, "|", l.Form, "|", l.Mixed, "|", l.Els) }

// indexes is Go's rule.
func (l *c07L) indexes() (idx []int, length int) {
	prev := 0
	for _, e := range l.Els {
		i := prev
		if e.key >= 0 {
			i = e.key
		}
		idx = append(idx, i)
		prev = i + 1
		if prev > length {
			length = prev
		}
	}
	return
}

func (l *c07L) elemSrc(v int) string {
	switch l.Type {
	case "Vec":
		return fmt.Sprintf("%d.5", v)
	case "Names":
		return fmt.Sprintf("%q", fmt.Sprint("n", v))
	}
	return fmt.Sprint(v)
}

// litSrc renders the literal with type name t.
func (l *c07L) litSrc(t string) string {
	var parts []string
	switch l.Type {
	case "Dict":
		for _, e := range l.Els {
			parts = append(parts, fmt.Sprintf("%q: %d", fmt.Sprint("k", e.key), e.val))
		}
	case "Rec":
		names := []string{"A", "B", "C"}
		vals := []string{fmt.Sprint(l.RV[0]), fmt.Sprintf("%q", fmt.Sprint("b", l.RV[1])), "host.Names{1: \"x\", \"y\"}"}
		switch l.Mixed {
		case "plain":
			parts = vals
		default:
			for _, e := range l.Els {
				parts = append(parts, names[e.key]+": "+vals[e.key])
			}
		}
	default:
		for _, e := range l.Els {
			s := l.elemSrc(e.val)
			if e.key >= 0 {
				s = fmt.Sprint(e.key) + ": " + s
			}
			parts = append(parts, s)
		}
	}
	return t + "{" + strings.Join(parts, ", ") + "}"
}

// expected is the native value, described the way the host function describes it.
func (l *c07L) expected() string {
	switch l.Type {
	case "Dict":
		m := C07Dict{}
		for _, e := range l.Els {
			m[fmt.Sprint("k", e.key)] = e.val
		}
		return c07describe(m)
	case "Rec":
		r := C07Rec{}
		set := map[int]bool{}
		for _, e := range l.Els {
			set[e.key] = true
		}
		if l.Mixed == "plain" || set[0] {
			r.A = l.RV[0]
		}
		if l.Mixed == "plain" || set[1] {
			r.B = fmt.Sprint("b", l.RV[1])
		}
		if l.Mixed == "plain" || set[2] {
			r.C = C07Names{1: "x", "y"}
		}
		return c07describe(r)
	}
	idx, n := l.indexes()
	switch l.Type {
	case "Vec":
		v := make(C07Vec, n)
		for k, e := range l.Els {
			v[idx[k]] = float64(e.val) + 0.5
		}
		return c07describe(v)
	case "Names":
		v := make(C07Names, n)
		for k, e := range l.Els {
			v[idx[k]] = fmt.Sprint("n", e.val)
		}
		return c07describe(v)
	}
	var g C07Grid
	for k, e := range l.Els {
		g[idx[k]] = e.val
	}
	return c07describe(g)
}

func c07describe(v interface{}) string {
	if m, ok := v.(C07Dict); ok {
		ks := make([]string, 0, len(m))
		for k := range m {
			ks = append(ks, k)
		}
		sort.Strings(ks)
		s := "Dict{"
		for _, k := range ks {
			s += fmt.Sprintf("%s:%d,", k, m[k])
		}
		return s + "}"
	}
	n := -1
	if rv := reflect.ValueOf(v); rv.Kind() == reflect.Slice || rv.Kind() == reflect.Array {
		n = rv.Len()
	}
	return fmt.Sprintf("%T%+v/%d", v, v, n)
}

func (l *c07L) source() string {
	ht := "host." + l.Type
	var b strings.Builder
	b.WriteString("package main\n\nimport \"host/host\"\n\n")
	under := map[string]string{"Vec": "[]float64", "Grid": "[6]int", "Names": "[]string", "Dict": "map[string]int"}[l.Type]
	switch l.Form {
	case "direct":
		fmt.Fprintf(&b, "func Run() string { return host.Describe(%s) }\n", l.litSrc(ht))
	case "var":
		fmt.Fprintf(&b, "func Run() string {\n\tv := %s\n\treturn host.Describe(v)\n}\n", l.litSrc(ht))
	case "local-conv":
		fmt.Fprintf(&b, "type local %s\nfunc Run() string { return host.Describe(%s(%s)) }\n", under, ht, l.litSrc("local"))
	case "unnamed":
		fmt.Fprintf(&b, "func Run() string { return host.Describe(%s(%s)) }\n", ht, l.litSrc(under))
	case "nested":
		fmt.Fprintf(&b, "func Run() string {\n\th := host.Hold{V: %s}\n\treturn host.Describe(h.V)\n}\n", l.litSrc(ht))
	}
	return b.String()
}

// genL draws an abstract literal: no duplicate index, inside the array bounds.
func (h *c07h) genL(r *rng, typ, form, mixed string) *c07L {
	l := &c07L{Type: typ, Form: form, Mixed: mixed}
	switch typ {
	case "Dict":
		n := 1 + r.intn(3)
		for _, k := range r.perm(5)[:n] {
			l.Els = append(l.Els, c07el{k, r.intn(100)})
		}
		return l
	case "Rec":
		l.RV = [2]int{1 + r.intn(100), r.intn(100)}
		order := r.perm(3)
		n := 3
		if mixed != "plain" {
			n = 1 + r.intn(3)
		} else {
			order = []int{0, 1, 2}
		}
		for _, k := range order[:n] {
			l.Els = append(l.Els, c07el{k, r.intn(100)})
		}
		if mixed == "plain" {
			l.Els = []c07el{{0, r.intn(100)}, {1, r.intn(100)}, {2, 0}}
		}
		return l
	}
	limit := 6
	for {
		l.Els = nil
		n := 2 + r.intn(3)
		used := map[int]bool{}
		prev, ok, sawKey, sawPlainAfterKey := 0, true, false, false
		for k := 0; k < n; k++ {
			e := c07el{-1, (k+1)*10 + r.intn(10)}
			switch mixed {
			case "keyed":
				e.key = r.intn(limit)
			case "mixed":
				if r.chance(50) {
					e.key = r.intn(limit)
				}
			}
			i := prev
			if e.key >= 0 {
				i = e.key
				sawKey = true
			} else if sawKey && i != k {
				sawPlainAfterKey = true // an un-keyed element whose index is not its position
			}
			if used[i] || i >= limit {
				ok = false
				break
			}
			used[i] = true
			prev = i + 1
			l.Els = append(l.Els, e)
		}
		if !ok || (mixed == "mixed" && !sawPlainAfterKey) {
			continue
		}
		return l
	}
}

func (r *rng) perm(n int) []int {
	p := make([]int, n)
	for i := range p {
		p[i] = i
	}
	for i := n - 1; i > 0; i-- {
		j := r.intn(i + 1)
		p[i], p[j] = p[j], p[i]
	}
	return p
}

type C07Hold struct{ V interface{} }

type c07litCase struct {
	ID      int
	l       *c07L
	implIdx []int
	implLen int
	failed  bool
	region  string
}

// where is each element's value in the received slice/array (its length if it is not there)
func (l *c07L) foundAt(received interface{}) (idx []int, n int) {
	rv := reflect.ValueOf(received)
	if !rv.IsValid() || (rv.Kind() != reflect.Slice && rv.Kind() != reflect.Array) {
		return nil, 0
	}
	n = rv.Len()
	for _, e := range l.Els {
		at := n
		for i := 0; i < n; i++ {
			x := rv.Index(i).Interface()
			if x == interface{}(float64(e.val)+0.5) || x == interface{}(e.val) || x == interface{}(fmt.Sprint("n", e.val)) {
				at = i
			}
		}
		idx = append(idx, at)
	}
	return idx, n
}

func (h *c07h) runL(j *c07job, l *c07L) {
	var received interface{}
	run := c07new(map[string]reflect.Value{
		"Vec":      reflect.ValueOf((*C07Vec)(nil)),
		"Grid":     reflect.ValueOf((*C07Grid)(nil)),
		"Names":    reflect.ValueOf((*C07Names)(nil)),
		"Dict":     reflect.ValueOf((*C07Dict)(nil)),
		"Rec":      reflect.ValueOf((*C07Rec)(nil)),
		"Hold":     reflect.ValueOf((*C07Hold)(nil)),
		"Describe": reflect.ValueOf(func(v interface{}) string { received = v; return c07describe(v) }),
	})
	src := l.source()
	run.eval(src, h.timeout)
	got := run.evalString("Run()", h.timeout)
	exp := l.expected()
	j.evals++
	j.refs++
	j.tick("L:" + l.Type + ":" + l.Mixed)
	j.tick("L:form:" + l.Form)
	j.dist = append(j.dist, "L|"+l.key())
	if l.Type == "Vec" || l.Type == "Grid" || l.Type == "Names" {
		c := &c07litCase{l: l, failed: run.failed != "", region: l.region()}
		c.implIdx, c.implLen = l.foundAt(received)
		if l.Type == "Grid" {
			_, c.implLen = l.indexes() // an array has its declared length: compare the positions only
			if c.failed {
				c.implLen = 0
			}
		}
		j.lits = append(j.lits, c)
	}
	if run.failed != "" || got != exp {
		j.other = append(j.other, refMismatch{Region: l.region(), Input: map[string]any{"stream": "host-named-composite-literal", "type": "host." + l.Type, "form": l.Form, "elements": l.Mixed, "literal": l.litSrc("host." + l.Type), "script": src},
			Impl: map[string]any{"host received": got, "failed": run.failed}, Ref: exp, Note: "Go's element index rule, evaluated natively"})
	}
}

func (l *c07L) region() string { return "" }

// ---------------------------------------------------------------- result placement with captured variables

type c07PV struct {
	Reused  bool
	Capture string // none | closure | pointer | both
}

type c07P struct {
	Stmt   string // define | assign
	Callee string // host-func | host-method | script-func
	Vars   []c07PV
	K      int
}

func (p *c07P) key() string { return fmt.Sprint(p.Stmt, "|", p.Callee, "|", p.Vars) }

// HostPl is the host type whose method returns several results.
type C07Pl struct{ Base int }

func c07plResults(k int) (int, string, int) { return k*2 + 1, fmt.Sprint("s", k), k + 100 }

func (p C07Pl) Three(k int) (int, string, int) { return c07plResults(k + p.Base) }
func (p C07Pl) Two(k int) (int, string) {
	a, b, _ := c07plResults(k + p.Base)
	return a, b
}

func (p *c07P) source() string {
	n := len(p.Vars)
	types := []string{"int", "string", "int"}[:n]
	var b strings.Builder
	b.WriteString("package main\n\nimport (\n\t\"host/host\"\n\t\"strconv\"\n)\n\nvar _ = strconv.Itoa\n\n")
	b.WriteString("func three(k int) (int, string, int) { return k*2 + 1, \"s\" + strconv.Itoa(k), k + 100 }\nfunc two(k int) (int, string) { return k*2 + 1, \"s\" + strconv.Itoa(k) }\n")
	b.WriteString("func si(v int) string { return strconv.Itoa(v) }\nfunc ss(v string) string { return v }\n")
	b.WriteString("func Run() string {\n\tout := \"\"\n\tpl := host.Pl{Base: 0}\n\t_ = pl\n")
	name := func(i int) string { return fmt.Sprintf("v%d", i) }
	show := func(i int, x string) string {
		if types[i] == "int" {
			return "si(" + x + ")"
		}
		return "ss(" + x + ")"
	}
	for i, v := range p.Vars {
		if !v.Reused {
			continue
		}
		init := map[string]string{"int": "-7", "string": "\"old\""}[types[i]]
		fmt.Fprintf(&b, "\tvar %s %s = %s\n", name(i), types[i], init)
		if v.Capture == "closure" || v.Capture == "both" {
			fmt.Fprintf(&b, "\tc%d := func() %s { return %s }\n", i, types[i], name(i))
		}
		if v.Capture == "pointer" || v.Capture == "both" {
			fmt.Fprintf(&b, "\tp%d := &%s\n", i, name(i))
		}
	}
	fn := map[string][]string{"host-func": {"host.Two", "host.Three"}, "host-method": {"pl.Two", "pl.Three"}, "script-func": {"two", "three"}}[p.Callee][n-2]
	var lhs []string
	for i := range p.Vars {
		lhs = append(lhs, name(i))
	}
	op := ":="
	if p.Stmt == "assign" {
		op = "="
	}
	fmt.Fprintf(&b, "\t%s %s %s(%d)\n", strings.Join(lhs, ", "), op, fn, p.K)
	for i, v := range p.Vars {
		fmt.Fprintf(&b, "\tout += %s + \";\"\n", show(i, name(i)))
		if v.Reused && (v.Capture == "closure" || v.Capture == "both") {
			fmt.Fprintf(&b, "\tout += \"c:\" + %s + \";\"\n", show(i, fmt.Sprintf("c%d()", i)))
		}
		if v.Reused && (v.Capture == "pointer" || v.Capture == "both") {
			fmt.Fprintf(&b, "\tout += \"p:\" + %s + \";\"\n", show(i, fmt.Sprintf("*p%d", i)))
		}
	}
	b.WriteString("\treturn out\n}\n")
	return b.String()
}

func (p *c07P) expected() string {
	a, s, c := c07plResults(p.K)
	vals := []string{fmt.Sprint(a), s, fmt.Sprint(c)}
	out := ""
	for i, v := range p.Vars {
		out += vals[i] + ";"
		if v.Reused && (v.Capture == "closure" || v.Capture == "both") {
			out += "c:" + vals[i] + ";"
		}
		if v.Reused && (v.Capture == "pointer" || v.Capture == "both") {
			out += "p:" + vals[i] + ";"
		}
	}
	return out
}

// allP: every statement kind x callee x number of results x set of re-used variables x capture kind.
func (h *c07h) allP(k int) []*c07P {
	var all []*c07P
	caps := []string{"none", "closure", "pointer", "both"}
	for _, stmt := range []string{"define", "assign"} {
		for _, callee := range []string{"host-func", "host-method", "script-func"} {
			for n := 2; n <= 3; n++ {
				for mask := 0; mask < 1<<n; mask++ {
					if stmt == "define" && mask == (1<<n)-1 {
						continue // := needs a new variable
					}
					if stmt == "assign" && mask != (1<<n)-1 {
						continue // = assigns existing variables
					}
					for ci := 0; ci < len(caps); ci++ {
						p := &c07P{Stmt: stmt, Callee: callee, K: k}
						for i := 0; i < n; i++ {
							v := c07PV{Reused: mask&(1<<i) != 0}
							if v.Reused {
								v.Capture = caps[(ci+i)%len(caps)]
							}
							p.Vars = append(p.Vars, v)
						}
						if mask == 0 && ci > 0 {
							continue
						}
						all = append(all, p)
					}
				}
			}
		}
	}
	return all
}

func (h *c07h) runP(j *c07job, p *c07P) {
	run := c07new(map[string]reflect.Value{
		"Pl": reflect.ValueOf((*C07Pl)(nil)),
		"Two": reflect.ValueOf(func(k int) (int, string) {
			a, b, _ := c07plResults(k)
			return a, b
		}),
		"Three": reflect.ValueOf(c07plResults),
	})
	src := p.source()
	run.eval(src, h.timeout)
	got := run.evalString("Run()", h.timeout)
	exp := p.expected()
	j.evals++
	j.refs++
	j.tick("P:" + p.Stmt + ":" + p.Callee)
	j.dist = append(j.dist, "P|"+p.key()+fmt.Sprint(p.K))
	if run.failed != "" || got != exp {
		j.other = append(j.other, refMismatch{Region: p.region(), Input: map[string]any{"stream": "result-placement-captured-variables", "statement": p.Stmt, "callee": p.Callee, "variables": fmt.Sprint(p.Vars), "script": src},
			Impl: map[string]any{"seen": got, "failed": run.failed}, Ref: exp, Note: "value;c:through the closure;p:through the pointer, per variable"})
	}
}

func (p *c07P) region() string { return "" }
