package main

import (
	"flag"
	"fmt"
	"os"
	"strconv"
	"strings"
	"time"
)

// c19-dbg: development aid. Runs one Go file under one debug session and prints the observed
// events next to the events predicted by the Go twin of model Y.
func init() {
	register("c19-dbg", "internal: C19 one file, one session: observed vs predicted events", func(args []string) error {
		fs := flag.NewFlagSet("c19-dbg", flag.ExitOnError)
		lines := fs.String("lines", "", "comma separated breakpoint lines, or 'all'")
		funcs := fs.String("funcs", "", "comma separated function breakpoints")
		reqs := fs.String("reqs", "c", "request letters, e.g. ciiouc")
		verbose := fs.Bool("v", false, "print tokens and CFG")
		plainTrace := fs.Bool("plain", false, "predict from the closures of plain execution")
		fs.Parse(args)
		b, err := os.ReadFile(fs.Arg(0))
		if err != nil {
			return err
		}
		src := string(b)
		var ls []int
		if *lines == "all" {
			for l := 1; l <= strings.Count(src, "\n")+1; l++ {
				ls = append(ls, l)
			}
		} else if *lines != "" {
			for _, x := range strings.Split(*lines, ",") {
				v, _ := strconv.Atoi(x)
				ls = append(ls, v)
			}
		}
		var fns []string
		if *funcs != "" {
			fns = strings.Split(*funcs, ",")
		}
		var rq []c19Req
		for _, c := range *reqs {
			rq = append(rq, c19Req(string(c)))
		}
		to := 10 * time.Second
		pso, pend, pres := c19Plain(src, to)
		fmt.Printf("plain: end=%s result=%s stdout=%d bytes\n", pend, pres, len(pso))
		ses := c19Debug(src, ls, fns, rq, to)
		fmt.Printf("debug: end=%s result=%s hang=%q sameStdout=%v\n", ses.End, ses.Result, ses.Hang, ses.Stdout == pso)
		if ses.Dump == nil {
			return nil
		}
		g := c19MakeCFG(ses.Dump, c19pcTab{})
		tmode := c19TraceCtx
		if len(ls) > 0 {
			tmode = c19TraceCtxPre
		}
		if *plainTrace {
			tmode = c19TracePlain
		}
		steps, tdump, tso, tend := c19Trace(src, tmode, to)
		tg := c19MakeCFG(tdump, c19pcTab{})
		fmt.Printf("trace: end=%s sameStdout=%v sameShape=%v steps=%d\n", tend, tso == pso, c19SameShape(g, tg), len(steps))
		toks, ok, why := c19Tokens(steps, tg, g)
		if !ok {
			fmt.Println("tokens: not covered:", why)
			return nil
		}
		flag, valid := c19Flags(g, ls, fns)
		for p, n := range g.N {
			if flag[p] != (n.BreakOnLine || n.BreakOnCall) {
				fmt.Printf("FLAG MISMATCH at p%d %s %d:%d model=%v impl=%v\n", p, n.Kind, n.Line, n.Col, flag[p], n.BreakOnLine || n.BreakOnCall)
			}
		}
		fmt.Println("valid model", valid, "impl", ses.Valid)
		if *verbose {
			for p, n := range g.N {
				fmt.Printf("p%-3d %-14s %-8s %d:%d t=%d f=%d anc=%d size=%d pc=%d flag=%v\n", p, n.Kind, n.Action, n.Line, n.Col, g.Tn[p], g.Fn[p], g.Anc[p], g.Size[p], g.PC[p], flag[p])
			}
			for _, t := range toks {
				if t.K == 'X' {
					fmt.Println("  X")
				} else {
					fmt.Printf("  %c pc=%d p%d %s %d:%d\n", t.K, t.PC, t.P, g.N[t.P].Kind, g.N[t.P].Line, g.N[t.P].Col)
				}
			}
		}
		sim := c19Simulate(g, flag, toks, rq)
		a, bb := c19EventsString(ses.Events), c19EventsString(sim.ev)
		if *verbose || a == bb {
			fmt.Println("observed :", a)
			fmt.Println("predicted:", bb)
		}
		fmt.Println("EQUAL:", a == bb)
		if a != bb {
			for k := 0; k < len(ses.Events) || k < len(sim.ev); k++ {
				var x, y c19Event
				if k < len(ses.Events) {
					x = ses.Events[k]
				}
				if k < len(sim.ev) {
					y = sim.ev[k]
				}
				if x != y {
					lo := k - 6
					if lo < 0 {
						lo = 0
					}
					fmt.Printf("first difference at event %d (of %d observed, %d predicted)\n", k, len(ses.Events), len(sim.ev))
					fmt.Println(" observed :", c19EventsString(ses.Events[lo:min(k+4, len(ses.Events))]))
					fmt.Println(" predicted:", c19EventsString(sim.ev[lo:min(k+4, len(sim.ev))]))
					break
				}
			}
		}
		mis := 0
		for _, h := range sim.heads {
			if h[0] != h[1] {
				mis++
			}
		}
		fmt.Printf("loop heads %d, mistracked %d\n", len(sim.heads), mis)
		return nil
	})
}
