package main

import (
	"bufio"
	"bytes"
	"context"
	"encoding/json"
	"fmt"
	"os"
	"os/exec"
	"reflect"
	"sort"
	"strings"
	"testing/fstest"
	"time"

	"github.com/traefik/yaegi/interp"
	"github.com/traefik/yaegi/stdlib"
	"github.com/traefik/yaegi/stdlib/unrestricted"
)

// C13, several interpreters in one host process (DESIGN C13; coq/Sandbox/Model.v part C).
// A scenario is an interleaving of New / Use / "a script of interpreter i mentions pkg.name" over up to
// three interpreters with their own Options (streams, Args, Env, Unrestricted). Each scenario runs in its
// own child process (c13-iso): a script may end the host, a shared map may bring the Go run-time down,
// and a scenario that modifies the process-wide symbol tables must not influence the next one.
// Observed per script: whose Options it reached (or the host's, or panic/exit for os.Exit), and whether
// stdlib.Symbols / unrestricted.Symbols are still entry for entry what they were at process start.

func init() {
	register("c13-iso", "internal: run one C13 multi-interpreter scenario and append the observations to a file", runC13Iso)
}

type c13IsoStep struct {
	Op    string `json:"op"` // new | use | eval
	I     int    `json:"i"`
	Unres bool   `json:"unres,omitempty"`
	Set   string `json:"set,omitempty"` // stdlib | unrestricted
	Pkg   string `json:"pkg,omitempty"`
	Name  string `json:"name,omitempty"`
}

func (s c13IsoStep) coq() string {
	switch s.Op {
	case "new":
		return fmt.Sprintf("HNew %d%%N %s", s.I, coqBool(s.Unres))
	case "use":
		return fmt.Sprintf("HUse %d%%N %s", s.I, coqStr(s.Set))
	}
	return fmt.Sprintf("HEval %d%%N %s %s", s.I, coqStr(s.Pkg), coqStr(s.Name))
}

type c13IsoSpec struct {
	Steps  []c13IsoStep `json:"steps"`
	Result string       `json:"result"`
}

// one line of the result file
type c13IsoLine struct {
	Step     int    `json:"step"`
	Begin    bool   `json:"begin,omitempty"`
	Obs      string `json:"obs,omitempty"`  // eval: own:<j> | host | panics | undef:<detail> | none
	Err      string `json:"err,omitempty"`  // new/use failure
	GlobSame bool   `json:"glob_same"`      // symbol tables unchanged so far
	Changed  string `json:"changed,omitempty"`
}

// symbolSig identifies what every entry of an export set is bound to (function entry points, variable
// addresses, type descriptors), so that a replaced entry is seen.
func c13SymbolSig(sets ...map[string]map[string]reflect.Value) map[string]string {
	sig := map[string]string{}
	for n, set := range sets {
		for k, m := range set {
			for name, v := range m {
				id := fmt.Sprintf("%d|%s|%s", n, k, name)
				switch {
				case !v.IsValid():
					sig[id] = "invalid"
				case v.Kind() == reflect.Func || v.Kind() == reflect.Ptr || v.Kind() == reflect.Map || v.Kind() == reflect.Chan || v.Kind() == reflect.UnsafePointer:
					sig[id] = fmt.Sprintf("%s@%x", v.Type(), v.Pointer())
				case v.CanAddr():
					sig[id] = fmt.Sprintf("%s&%x", v.Type(), v.Addr().Pointer())
				default:
					sig[id] = v.Type().String()
				}
			}
		}
	}
	return sig
}

func c13SigDiff(a, b map[string]string) string {
	var d []string
	for k, v := range a {
		if w, ok := b[k]; !ok || w != v {
			d = append(d, k)
		}
	}
	for k := range b {
		if _, ok := a[k]; !ok {
			d = append(d, k)
		}
	}
	sort.Strings(d)
	if len(d) > 6 {
		d = append(d[:6], fmt.Sprintf("... %d entries", len(d)))
	}
	return strings.Join(d, ", ")
}

type c13IsoInterp struct {
	ip        *interp.Interpreter
	out, errb *bytes.Buffer
	imported  bool
}

func c13IsoArgs(i int) []string { return []string{fmt.Sprintf("prog%d", i), fmt.Sprintf("arg%d", i)} }

func runC13Iso(args []string) error {
	if len(args) < 1 {
		return fmt.Errorf("usage: c13-iso spec.json")
	}
	b, err := os.ReadFile(args[0])
	if err != nil {
		return err
	}
	var sp c13IsoSpec
	if err := json.Unmarshal(b, &sp); err != nil {
		return err
	}
	os.Args = []string{"host", "hostarg"}
	rf, err := os.OpenFile(sp.Result, os.O_CREATE|os.O_WRONLY|os.O_APPEND, 0o644)
	if err != nil {
		return err
	}
	defer rf.Close()
	emit := func(l c13IsoLine) {
		jb, _ := json.Marshal(l)
		rf.Write(append(jb, '\n'))
		rf.Sync()
	}
	sig0 := c13SymbolSig(stdlib.Symbols, unrestricted.Symbols)
	globSame, changed := true, ""
	checkGlob := func() {
		if d := c13SigDiff(sig0, c13SymbolSig(stdlib.Symbols, unrestricted.Symbols)); d != "" {
			globSame, changed = false, d
		}
	}
	ips := map[int]*c13IsoInterp{}
	for k, st := range sp.Steps {
		emit(c13IsoLine{Step: k, Begin: true, GlobSame: globSame})
		line := c13IsoLine{Step: k}
		func() {
			defer func() {
				if r := recover(); r != nil {
					line.Err = "host-panic: " + fmt.Sprint(r)
					if st.Op == "eval" {
						line.Obs = "undef:host-panic " + fmt.Sprint(r)
					}
				}
			}()
			switch st.Op {
			case "new":
				x := &c13IsoInterp{out: &bytes.Buffer{}, errb: &bytes.Buffer{}}
				x.ip = interp.New(interp.Options{Stdout: x.out, Stderr: x.errb, Stdin: strings.NewReader(""), Args: c13IsoArgs(st.I),
					Env: []string{fmt.Sprintf("%s=opt%d", c13EnvKey, st.I)}, Unrestricted: st.Unres,
					GoPath: "/nonexistent-c13", SourcecodeFilesystem: fstest.MapFS{}})
				ips[st.I] = x
			case "use":
				x := ips[st.I]
				var err error
				if st.Set == "unrestricted" {
					err = x.ip.Use(unrestricted.Symbols)
				} else {
					err = x.ip.Use(stdlib.Symbols)
					if err == nil && !x.imported {
						x.imported = true
						_, err = x.ip.Eval("import (\n\"fmt\"\n\"log\"\n\"os\"\n\"strings\"\n)")
					}
				}
				if err != nil {
					line.Err = firstLine(err.Error())
				}
				checkGlob()
			case "eval":
				line.Obs = c13IsoEval(ips, st, k)
				checkGlob()
			}
		}()
		line.GlobSame, line.Changed = globSame, changed
		emit(line)
	}
	return nil
}

// c13IsoEval compiles and runs one statement mentioning pkg.name in interpreter st.I and reports whose
// Options it reached.
func c13IsoEval(ips map[int]*c13IsoInterp, st c13IsoStep, k int) string {
	x := ips[st.I]
	mk := fmt.Sprintf("C13ISO%dMK", k)
	var src string
	switch st.Pkg + "." + st.Name {
	case "fmt.Println", "fmt.Print":
		src = fmt.Sprintf("fmt.%s(%q)", st.Name, mk)
	case "log.Print":
		src = fmt.Sprintf("log.Print(%q)", mk)
	case "os.Args":
		src = fmt.Sprintf(`print(%q + strings.Join(os.Args, ",") + ">")`, mk+"<")
	case "os.Getenv":
		src = fmt.Sprintf(`print(%q + os.Getenv(%q) + ">")`, mk+"<", c13EnvKey)
	case "os.Exit":
		src = fmt.Sprintf(`func() { defer func() { if recover() != nil { print(%q) } }(); os.Exit(3) }()`, mk+"<recovered>")
	default:
		return "undef:unknown name"
	}
	for _, y := range ips {
		y.out.Reset()
		y.errb.Reset()
	}
	_, err := x.ip.Eval(src)
	if err != nil {
		if _, isPanic := err.(interp.Panic); !isPanic {
			return "undef:" + firstLine(err.Error())
		}
	}
	// where did the marker go, and with which content
	ids := make([]int, 0, len(ips))
	for id := range ips {
		ids = append(ids, id)
	}
	sort.Ints(ids)
	for _, id := range ids {
		all := ips[id].out.String() + "\x00" + ips[id].errb.String()
		i := strings.Index(all, mk)
		if i < 0 {
			continue
		}
		rest := all[i+len(mk):]
		switch st.Name {
		case "Println", "Print":
			return fmt.Sprintf("own:%d", id)
		case "Args", "Getenv":
			val := rest
			if j := strings.IndexByte(rest, '>'); j >= 0 && strings.HasPrefix(rest, "<") {
				val = rest[1:j]
			}
			for _, j := range ids {
				if val == strings.Join(c13IsoArgs(j), ",") || val == fmt.Sprintf("opt%d", j) {
					return fmt.Sprintf("own:%d", j)
				}
			}
			if val == "host,hostarg" || val == "host" {
				return "host"
			}
			return "undef:value " + val
		case "Exit":
			return "panics"
		}
	}
	if st.Name == "Exit" {
		return "undef:returned"
	}
	return "none" // not on any Options stream: the parent looks at the child's own stdout/stderr
}

// ---------------------------------------------------------------- parent side

type c13IsoResult struct {
	Steps    []c13IsoStep // the steps that were executed (cut after a step that ended the process)
	Obs      []string     // robs constructor for every eval step among them
	Ref      []string
	GlobSame bool
	Detail   []string // human-readable anomalies
	Died     string
}

// c13IsoRef is the contract: every interpreter as if it were alone in the process.
func c13IsoRef(steps []c13IsoStep) []string {
	type st struct {
		unres, std bool
		exit       string
	}
	m := map[int]*st{}
	var ref []string
	for _, s := range steps {
		switch s.Op {
		case "new":
			m[s.I] = &st{unres: s.Unres}
		case "use":
			x := m[s.I]
			if x == nil {
				continue
			}
			if s.Set == "stdlib" {
				x.std, x.exit = true, "RPanics"
			} else {
				x.exit = "RExits"
			}
		case "eval":
			x := m[s.I]
			switch {
			case x == nil || !x.std:
				ref = append(ref, "RUndef")
			case s.Name == "Exit":
				ref = append(ref, x.exit)
			case s.Name == "Getenv" && x.unres:
				ref = append(ref, "RHost")
			default:
				ref = append(ref, fmt.Sprintf("(ROwner %d%%N)", s.I))
			}
		}
	}
	return ref
}

func c13RunIso(dir string, n int, steps []c13IsoStep) c13IsoResult {
	sp := c13IsoSpec{Steps: steps, Result: fmt.Sprintf("%s/iso_res_%d.jsonl", dir, n)}
	specPath := fmt.Sprintf("%s/iso_spec_%d.json", dir, n)
	b, _ := json.Marshal(sp)
	res := c13IsoResult{GlobSame: true}
	if err := os.WriteFile(specPath, b, 0o644); err != nil {
		res.Died = err.Error()
		return res
	}
	self, _ := os.Executable()
	ctx, cancel := context.WithTimeout(context.Background(), 90*time.Second)
	defer cancel()
	cmd := exec.CommandContext(ctx, self, "c13-iso", specPath)
	var so, se bytes.Buffer
	cmd.Stdout, cmd.Stderr = &so, &se
	cmd.Stdin = strings.NewReader(c13HostStdin)
	cmd.Env = append(os.Environ(), c13EnvKey+"=host")
	runErr := cmd.Run()
	lines := map[int]c13IsoLine{}
	begun := -1
	if f, err := os.Open(sp.Result); err == nil {
		sc := bufio.NewScanner(f)
		sc.Buffer(make([]byte, 1<<20), 1<<24)
		for sc.Scan() {
			var l c13IsoLine
			if json.Unmarshal(sc.Bytes(), &l) != nil {
				continue
			}
			if l.Begin {
				begun = l.Step
				continue
			}
			lines[l.Step] = l
		}
		f.Close()
	}
	for k, st := range steps {
		l, done := lines[k]
		if !done {
			// the process ended inside step k (or never got there)
			if k != begun {
				break
			}
			res.Steps = append(res.Steps, st)
			res.Died = fmt.Sprintf("the host process ended in step %d (%s %d %s.%s): %v; %s", k, st.Op, st.I, st.Pkg, st.Name, runErr, firstLine(se.String()))
			if st.Op == "eval" {
				res.Obs = append(res.Obs, "RExits")
			} else {
				res.Detail = append(res.Detail, res.Died)
			}
			break
		}
		res.Steps = append(res.Steps, st)
		if !l.GlobSame {
			if res.GlobSame {
				res.Detail = append(res.Detail, "process-wide symbol tables modified: "+l.Changed)
			}
			res.GlobSame = false
		}
		if l.Err != "" {
			res.Detail = append(res.Detail, fmt.Sprintf("step %d: %s", k, l.Err))
		}
		if st.Op != "eval" {
			continue
		}
		switch {
		case strings.HasPrefix(l.Obs, "own:"):
			res.Obs = append(res.Obs, fmt.Sprintf("(ROwner %s%%N)", strings.TrimPrefix(l.Obs, "own:")))
		case l.Obs == "host":
			res.Obs = append(res.Obs, "RHost")
		case l.Obs == "panics":
			res.Obs = append(res.Obs, "RPanics")
		case l.Obs == "none" && strings.Contains(so.String()+se.String(), fmt.Sprintf("C13ISO%dMK", k)):
			res.Obs = append(res.Obs, "RHost")
		default:
			res.Obs = append(res.Obs, "RUndef")
			res.Detail = append(res.Detail, fmt.Sprintf("step %d: %s", k, l.Obs))
		}
	}
	res.Ref = c13IsoRef(res.Steps)
	return res
}

var c13IsoNames = [][2]string{{"fmt", "Println"}, {"fmt", "Print"}, {"log", "Print"}, {"os", "Args"}, {"os", "Getenv"}, {"os", "Exit"}}

// c13IsoFixed are the interleavings every run contains.
func c13IsoFixed() [][]c13IsoStep {
	evalAll := func(i int, exit bool) []c13IsoStep {
		var l []c13IsoStep
		for _, pn := range c13IsoNames {
			if pn[1] == "Exit" && !exit {
				continue
			}
			l = append(l, c13IsoStep{Op: "eval", I: i, Pkg: pn[0], Name: pn[1]})
		}
		return l
	}
	cat := func(ls ...[]c13IsoStep) []c13IsoStep {
		var r []c13IsoStep
		for _, l := range ls {
			r = append(r, l...)
		}
		return r
	}
	nu := func(i int, unres bool, sets ...string) []c13IsoStep {
		l := []c13IsoStep{{Op: "new", I: i, Unres: unres}}
		for _, s := range sets {
			l = append(l, c13IsoStep{Op: "use", I: i, Set: s})
		}
		return l
	}
	return [][]c13IsoStep{
		// A.New A.Use B.New B.Use, then A and B evaluate
		cat(nu(1, false, "stdlib"), nu(2, false, "stdlib"), evalAll(1, true), evalAll(2, true)),
		// both created first, then both Use, evaluations alternate
		cat([]c13IsoStep{{Op: "new", I: 1}, {Op: "new", I: 2}, {Op: "use", I: 2, Set: "stdlib"}, {Op: "use", I: 1, Set: "stdlib"}},
			[]c13IsoStep{{Op: "eval", I: 2, Pkg: "fmt", Name: "Println"}, {Op: "eval", I: 1, Pkg: "fmt", Name: "Println"}, {Op: "eval", I: 2, Pkg: "os", Name: "Getenv"},
				{Op: "eval", I: 1, Pkg: "os", Name: "Args"}, {Op: "eval", I: 2, Pkg: "log", Name: "Print"}, {Op: "eval", I: 1, Pkg: "os", Name: "Getenv"}}),
		// an unrestricted B loads the unrestricted set before a restricted C exists; C calls os.Exit
		cat(nu(2, true, "stdlib", "unrestricted"), nu(3, false, "stdlib"), evalAll(3, true), evalAll(2, false)),
		// A exists before the unrestricted B; A is used again afterwards
		cat(nu(1, false, "stdlib"), nu(2, true, "stdlib", "unrestricted"), evalAll(1, true), nu(3, false, "stdlib"), evalAll(3, true), evalAll(1, true)),
		// a single interpreter (the shape of the other streams), as a control
		cat(nu(1, false, "stdlib"), evalAll(1, true)),
	}
}

// c13IsoRandom merges the step lists of 2..3 interpreters, keeping each list's own order.
func c13IsoRandom(r *rng) []c13IsoStep {
	n := 2 + r.intn(2)
	var lists [][]c13IsoStep
	for i := 1; i <= n; i++ {
		unres := i > 1 && r.chance(30)
		l := []c13IsoStep{{Op: "new", I: i, Unres: unres}, {Op: "use", I: i, Set: "stdlib"}}
		usedUnres := false
		if unres && r.chance(70) {
			l = append(l, c13IsoStep{Op: "use", I: i, Set: "unrestricted"})
			usedUnres = true
		}
		ne := 1 + r.intn(4)
		for j := 0; j < ne; j++ {
			pn := c13IsoNames[r.intn(len(c13IsoNames))]
			if pn[1] == "Exit" && usedUnres {
				pn = c13IsoNames[0] // an unrestricted interpreter may end the process: that is its contract
			}
			l = append(l, c13IsoStep{Op: "eval", I: i, Pkg: pn[0], Name: pn[1]})
			// (a second Use(stdlib.Symbols) on one interpreter is rejected by yaegi: it compiles the generic sources again)
		}
		lists = append(lists, l)
	}
	var out []c13IsoStep
	for {
		var live []int
		for i, l := range lists {
			if len(l) > 0 {
				live = append(live, i)
			}
		}
		if len(live) == 0 {
			return out
		}
		i := live[r.intn(len(live))]
		out = append(out, lists[i][0])
		lists[i] = lists[i][1:]
	}
}
