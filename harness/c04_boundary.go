package main

import "fmt"

// The boundary stream of C04: fixed histories, generated in every run beside the random ones, that
// hit every cell of the cross products
//
//	slicing:  operand kind x relation of lo to {0, len} x relation of hi to {lo, len, cap}
//	          x relation of max to {absent, hi, len, cap}
//	append:   {element-wise 1, element-wise 2, spread of another slice, spread of itself,
//	           spread of an overlapping sub-slice} x destination {nil, empty cap 0, empty cap > 0,
//	           len < cap with room, len < cap without room, full}
//
// Every cell is followed by writes through the result and through every slice that may share the
// backing array, by an append to the result (in place or reallocating: decided by the capacity),
// and by a full dump: the aliasing relation and len / cap are the observables.
// All operations lie in the Coq grammar: the histories are also evaluated by Y and G.

type c04bspec struct {
	kind    string // "slice" | "append"
	operand int    // slicing: operand kind; append: append kind
	lo      int    // slicing: lo class
}

var c04SliceOperands = []string{"array", "full slice", "slice with spare capacity", "nil slice", "empty non-nil slice", "empty slice with capacity", "slice of a slice", "array field of a struct"}
var c04AppendKinds = []string{"one element", "two elements", "spread of another slice", "spread of itself", "spread of an overlapping sub-slice", "spread onto a prefix of the source"}

func c04BoundarySpecs() []c04bspec {
	var out []c04bspec
	for op := range c04SliceOperands {
		for lo := 0; lo < 3; lo++ {
			out = append(out, c04bspec{kind: "slice", operand: op, lo: lo})
		}
	}
	for k := range c04AppendKinds {
		out = append(out, c04bspec{kind: "append", operand: k})
	}
	// growth grid: element type x full destination of capacity 0..5 x 1, 2, 3, 5 appended values x {element-wise, spread}
	for et := 0; et < 3; et++ {
		out = append(out, c04bspec{kind: "growth", operand: et})
	}
	return out
}

// helpers
func c04Ints(vals ...int64) []*c04ex {
	var out []*c04ex
	for _, v := range vals {
		out = append(out, c04IntLit(v))
	}
	return out
}

func c04Asg(l *c04ex, r *c04rhs) *c04op { return &c04op{K: "assign", Lv: l, Rhs: r} }

// c04Boundary builds the k-th boundary history.
func c04Boundary(id int, seed uint64, k int) *c04hist {
	spec := c04BoundarySpecs()[k]
	g := c04NewGen(newRng(seed), "")
	h := &c04hist{ID: id, Seed: seed, Region: "", Modelled: true, Boundary: fmt.Sprintf("%s/%d/%d", spec.kind, spec.operand, spec.lo)}
	var out [][]int64
	// try: the operation is used if it is valid now (it does not panic in the reference interpreter)
	try := func(o *c04op) bool {
		cl := g.st.clone()
		var scratch [][]int64
		if cl.tryExec(o, &scratch) != "" {
			return false
		}
		g.commit(o, &out)
		h.Ops = append(h.Ops, o)
		return true
	}
	dump := func() { try(&c04op{K: "dump"}) }
	si := c04Var(8, c04TLI)
	ai := c04Var(7, c04TA4)
	sL := c04Fld(c04Var(1, c04TS), 2)  // s.L: receives the results
	aL := c04Fld(c04Idx(c04Var(0, c04TA3S), c04IntLit(0)), 2) // a[0].L: a source with its own backing array
	ss0 := c04SIdx(c04Load(c04Var(3, c04TLL)), c04IntLit(0))  // ss[0]: keeps the whole backing array visible
	lit := func(n int64) *c04ex { return c04IntLit(n) }
	dump()
	if spec.kind == "growth" {
		// len/cap growth: one growslice for the total number of appended values, whatever the form
		zS := func(n int64) *c04ex {
			z := g.zeroEx(c04TS)
			z.L[0] = lit(n)
			return z
		}
		var dstV *c04ex
		var st *c04ty
		mkElem := func(n int64) *c04ex { return lit(n) }
		switch spec.operand {
		case 0:
			dstV, st = si, c04TLI
		case 1:
			dstV, st, mkElem = c04Var(2, c04TLS), c04TLS, zS
		default:
			dstV, st = c04Var(13, c04TLE), c04TLE
			mkElem = func(n int64) *c04ex { return c04Box(lit(n)) }
		}
		elems := func(from, n int64) []*c04ex {
			var out []*c04ex
			for i := int64(0); i < n; i++ {
				out = append(out, mkElem(from+i))
			}
			return out
		}
		for c := int64(0); c <= 5; c++ {
			for _, k := range []int64{1, 2, 3, 5} {
				for form := 0; form < 2; form++ {
					// a full destination (len == cap == c), and a source with k values for the spread form
					try(c04Asg(dstV, &c04rhs{K: "slicelit", T: st, L: elems(10, c)}))
					var rhs *c04rhs
					if form == 0 {
						rhs = &c04rhs{K: "append", T: st, E: c04Load(dstV), L: elems(40, k)}
					} else {
						if st != c04TLI {
							continue
						}
						try(c04Asg(aL, &c04rhs{K: "slicelit", T: st, L: elems(40, k)}))
						rhs = &c04rhs{K: "appendslice", T: st, E: c04Load(dstV), E2: c04Load(aL)}
					}
					if st == c04TLI {
						if !try(c04Asg(sL, rhs)) {
							continue
						}
						// two further appends from the result: independent unless spare capacity is shared
						try(c04Asg(aL, &c04rhs{K: "append", T: st, E: c04Load(sL), L: c04Ints(71)}))
						try(c04Asg(c04Fld(c04Idx(c04Var(0, c04TA3S), c04IntLit(1)), 2), &c04rhs{K: "append", T: st, E: c04Load(sL), L: c04Ints(72)}))
					} else if !try(c04Asg(dstV, rhs)) {
						continue
					}
					g.stats[fmt.Sprintf("cell:growth:%d:%d:%d:%d", spec.operand, c, k, form)]++
					dump()
				}
			}
		}
	} else if spec.kind == "slice" {
		// (re-)initialise the operand; returns the sliceable base expression and its len, cap
		setup := func() (*c04ex, int, int) {
			try(c04Asg(ai, c04Pure(c04Lit(c04TA4, c04Ints(1, 2, 3, 4)))))
			try(c04Asg(c04Var(3, c04TLL), &c04rhs{K: "slicelit", T: c04TLL, L: []*c04ex{c04Nil(c04TLI)}}))
			try(c04Asg(ss0, &c04rhs{K: "slicelit", T: c04TLI, L: c04Ints(11, 12, 13, 14, 15, 16, 17)}))
			try(c04Asg(c04Fld(c04Var(1, c04TS), 1), c04Pure(c04Lit(c04TA2, c04Ints(5, 6)))))
			switch spec.operand {
			case 0:
				return c04Addr(ai), 4, 4
			case 1:
				try(c04Asg(si, &c04rhs{K: "slicelit", T: c04TLI, L: c04Ints(21, 22, 23, 24)}))
				return c04Load(si), 4, 4
			case 2:
				try(c04Asg(si, c04Pure(c04SliceEx(c04Load(ss0), nil, lit(4), nil))))
				return c04Load(si), 4, 7
			case 3:
				try(c04Asg(si, c04Pure(c04Nil(c04TLI))))
				return c04Load(si), 0, 0
			case 4:
				try(c04Asg(si, &c04rhs{K: "slicelit", T: c04TLI}))
				return c04Load(si), 0, 0
			case 5:
				try(c04Asg(si, c04Pure(c04SliceEx(c04Load(ss0), nil, lit(0), nil))))
				return c04Load(si), 0, 7
			case 6:
				try(c04Asg(si, c04Pure(c04SliceEx(c04Load(ss0), nil, lit(4), nil))))
				return c04SliceEx(c04Load(si), lit(1), lit(5), lit(6)), 4, 5
			default:
				return c04Addr(c04Fld(c04Var(1, c04TS), 1)), 2, 2
			}
		}
		_, L, C := setup()
		// class representatives
		var lo int
		switch spec.lo {
		case 0:
			lo = 0
		case 1:
			lo = L / 2
			if lo <= 0 || lo >= L {
				lo = -1
			}
		default:
			lo = L
		}
		if lo >= 0 {
			// hi classes: = lo, lo < hi < len, = len, len < hi <= cap
			his := []int{lo, -1, -1, -1}
			if lo+1 < L {
				his[1] = lo + 1
			}
			if L > lo {
				his[2] = L
			}
			if C > L {
				his[3] = L + 1
			}
			for hc, hi := range his {
				if hi < 0 {
					continue
				}
				// max classes: absent, = hi, hi < max < len, = len, len < max < cap, = cap
				maxs := []int{-2, hi, -1, -1, -1, C}
				if hi+1 < L {
					maxs[2] = hi + 1
				}
				if L >= hi {
					maxs[3] = L
				}
				if m := c04Max(L+1, hi); m < C {
					maxs[4] = m
				}
				for mc, mx := range maxs {
					if mx == -1 {
						continue
					}
					base, _, _ := setup()
					var loE, mxE *c04ex
					if lo > 0 || mc%2 == 1 {
						loE = lit(int64(lo))
					}
					if mx >= 0 {
						mxE = lit(int64(mx))
					}
					hiE := lit(int64(hi))
					if mxE == nil && hc == 2 {
						hiE = nil // a[lo:]
					}
					if !try(c04Asg(sL, c04Pure(c04SliceEx(base, loE, hiE, mxE)))) {
						continue
					}
					g.stats[fmt.Sprintf("cell:slice:%d:%d:%d:%d", spec.operand, spec.lo, hc, mc)]++
					dump()
					try(c04Asg(c04SIdx(c04Load(sL), lit(0)), c04Pure(lit(91))))
					try(c04Asg(c04SIdx(c04Load(si), lit(int64(lo))), c04Pure(lit(92))))
					try(c04Asg(sL, &c04rhs{K: "append", T: c04TLI, E: c04Load(sL), L: c04Ints(93)}))
					try(c04Asg(c04SIdx(c04Load(sL), lit(int64(hi-lo))), c04Pure(lit(94))))
					try(c04Asg(c04SIdx(c04Load(si), lit(int64(hi))), c04Pure(lit(95))))
					try(c04Asg(c04Idx(ai, lit(3)), c04Pure(lit(96))))
					try(c04Asg(c04SIdx(c04Load(ss0), lit(int64(hi))), c04Pure(lit(97))))
					try(c04Asg(c04Idx(c04Fld(c04Var(1, c04TS), 1), lit(1)), c04Pure(lit(98))))
					dump()
				}
			}
		}
	} else {
		for dst := 0; dst < 6; dst++ {
			// destination classes over the backing array ss[0] = {11..17}; a[0].L = {21,22,23} is a separate source
			try(c04Asg(c04Var(3, c04TLL), &c04rhs{K: "slicelit", T: c04TLL, L: []*c04ex{c04Nil(c04TLI)}}))
			try(c04Asg(ss0, &c04rhs{K: "slicelit", T: c04TLI, L: c04Ints(11, 12, 13, 14, 15, 16, 17)}))
			try(c04Asg(aL, &c04rhs{K: "slicelit", T: c04TLI, L: c04Ints(21, 22, 23)}))
			switch dst {
			case 0:
				try(c04Asg(si, c04Pure(c04Nil(c04TLI))))
			case 1:
				try(c04Asg(si, &c04rhs{K: "slicelit", T: c04TLI}))
			case 2:
				try(c04Asg(si, c04Pure(c04SliceEx(c04Load(ss0), nil, lit(0), nil))))
			case 3:
				try(c04Asg(si, c04Pure(c04SliceEx(c04Load(ss0), nil, lit(2), nil))))
			case 4:
				try(c04Asg(si, c04Pure(c04SliceEx(c04Load(ss0), nil, lit(2), lit(3)))))
			default:
				try(c04Asg(si, c04Pure(c04SliceEx(c04Load(ss0), nil, lit(2), lit(2)))))
			}
			var rhs *c04rhs
			switch spec.operand {
			case 0:
				rhs = &c04rhs{K: "append", T: c04TLI, E: c04Load(si), L: c04Ints(31)}
			case 1:
				rhs = &c04rhs{K: "append", T: c04TLI, E: c04Load(si), L: c04Ints(31, 32)}
			case 2:
				rhs = &c04rhs{K: "appendslice", T: c04TLI, E: c04Load(si), E2: c04Load(aL)}
			case 3:
				rhs = &c04rhs{K: "appendslice", T: c04TLI, E: c04Load(si), E2: c04Load(si)}
			case 4:
				// delete-first idiom on the destination: append(si[:0], si[1:]...) ; for an empty si: append(si, si...)
				rhs = &c04rhs{K: "appendslice", T: c04TLI, E: c04SliceEx(c04Load(si), nil, lit(0), nil), E2: c04SliceEx(c04Load(si), lit(1), nil, nil)}
				cl := g.st.clone()
				var scratch [][]int64
				if cl.tryExec(c04Asg(sL, rhs), &scratch) != "" {
					rhs = &c04rhs{K: "appendslice", T: c04TLI, E: c04SliceEx(c04Load(si), nil, lit(0), nil), E2: c04Load(si)}
				}
			default:
				// the destination is a prefix of the source's backing array: append(si, ss[0][1:4]...)
				rhs = &c04rhs{K: "appendslice", T: c04TLI, E: c04Load(si), E2: c04SliceEx(c04Load(ss0), lit(1), lit(4), nil)}
			}
			if !try(c04Asg(sL, rhs)) {
				continue
			}
			g.stats[fmt.Sprintf("cell:append:%d:%d", spec.operand, dst)]++
			dump()
			try(c04Asg(c04SIdx(c04Load(sL), lit(0)), c04Pure(lit(91))))
			try(c04Asg(c04SIdx(c04Load(si), lit(0)), c04Pure(lit(92))))
			try(c04Asg(c04SIdx(c04Load(aL), lit(0)), c04Pure(lit(93))))
			try(c04Asg(c04SIdx(c04Load(ss0), lit(1)), c04Pure(lit(94))))
			try(c04Asg(c04SIdx(c04Load(sL), lit(1)), c04Pure(lit(95))))
			try(c04Asg(sL, &c04rhs{K: "append", T: c04TLI, E: c04Load(sL), L: c04Ints(96)}))
			try(c04Asg(c04SIdx(c04Load(ss0), lit(3)), c04Pure(lit(97))))
			dump()
		}
	}
	h.Expect = out
	h.Grow = g.st.Grow
	h.Stats = g.stats
	h.Src = c04Program(g.fns, nil, h.Ops)
	return h
}

func c04Max(a, b int) int {
	if a > b {
		return a
	}
	return b
}
