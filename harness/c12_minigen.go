package main

import (
	"fmt"
	"strings"
)

// ---------------------------------------------------------------- generator (well-typed by construction)

type mvar struct {
	id int
	t  mty
}

type mgen struct {
	r    *rng
	p    *mprog
	nvar int
	fidx int // function being generated: may call only functions with a smaller index
}

func (g *mgen) lit(k mkind) *mexpr {
	switch k {
	case kFloat:
		return &mexpr{Tag: "Float", N: 1 + g.r.intn(8)}
	case kString:
		return &mexpr{Tag: "Str", N: g.r.intn(5)}
	case kBool:
		return &mexpr{Tag: "Bool", B: g.r.bool()}
	}
	return &mexpr{Tag: "Int", N: 1 + g.r.intn(8)}
}

func sameTy(a, b mty) bool { return a == b }

// typed: an expression of exactly type t that is not a constant.
func (g *mgen) typed(env []mvar, t mty, depth int) *mexpr {
	var cands []func() *mexpr
	for _, v := range env {
		if sameTy(v.t, t) {
			v := v
			cands = append(cands, func() *mexpr { return &mexpr{Tag: "Var", N: v.id} })
		}
	}
	// field of a struct variable
	for _, v := range env {
		if v.t.Tag == "S" {
			for fi, ft := range g.p.Structs[v.t.N] {
				if sameTy(ft, t) {
					v, fi := v, fi
					cands = append(cands, func() *mexpr { return &mexpr{Tag: "Field", N: fi, Args: []*mexpr{{Tag: "Var", N: v.id}}} })
				}
			}
		}
		if v.t.Tag == "L" && t.Tag == "B" && v.t.K == t.K {
			v := v
			cands = append(cands, func() *mexpr {
				return &mexpr{Tag: "Index", Args: []*mexpr{{Tag: "Var", N: v.id}, {Tag: "Int", N: g.r.intn(2)}}}
			})
		}
		if v.t.Tag == "L" && t == tB(kInt) {
			v := v
			cands = append(cands, func() *mexpr { return &mexpr{Tag: "Len", Args: []*mexpr{{Tag: "Var", N: v.id}}} })
		}
		if v.t.Tag == "B" && v.t.K == kString && t == tB(kInt) {
			v := v
			cands = append(cands, func() *mexpr { return &mexpr{Tag: "Len", Args: []*mexpr{{Tag: "Var", N: v.id}}} })
		}
	}
	leaf := len(cands) > 0
	if depth > 0 {
		// call of an earlier function with exactly one result of type t
		for fi := 0; fi < g.fidx; fi++ {
			f := g.p.Funcs[fi]
			if len(f.Results) == 1 && sameTy(f.Results[0], t) {
				fi, f := fi, f
				cands = append(cands, func() *mexpr {
					var args []*mexpr
					for _, pt := range f.Params {
						args = append(args, g.any(env, pt, depth-1))
					}
					return &mexpr{Tag: "Call", N: fi, Args: args}
				})
			}
		}
		if k, ok := t.basicKind(); ok && leaf {
			// conversion of a variable of another type with a convertible kind
			for _, v := range env {
				vk, ok2 := v.t.basicKind()
				if !ok2 || sameTy(v.t, t) {
					continue
				}
				conv := (vk <= kFloat && k <= kFloat) || (vk == k)
				if conv {
					v := v
					cands = append(cands, func() *mexpr { return &mexpr{Tag: "Conv", T: t, Args: []*mexpr{{Tag: "Var", N: v.id}}} })
				}
			}
			switch {
			case k <= kFloat:
				ops := []string{"+", "-", "*"}
				if k <= kUint {
					ops = append(ops, "&", "|", "^", "&^")
				}
				cands = append(cands, func() *mexpr {
					l, r := g.typed(env, t, depth-1), g.any(env, t, depth-1)
					if g.r.chance(30) {
						l, r = r, l
					}
					return &mexpr{Tag: "Bin", Op: g.r.pick(ops), Args: []*mexpr{l, r}}
				})
				cands = append(cands, func() *mexpr {
					op := "/"
					if k <= kUint && g.r.bool() {
						op = "%"
					}
					return &mexpr{Tag: "Bin", Op: op, Args: []*mexpr{g.typed(env, t, depth-1), g.lit(k)}}
				})
				if k != kUint {
					cands = append(cands, func() *mexpr { return &mexpr{Tag: "Un", Op: "-", Args: []*mexpr{g.typed(env, t, depth-1)}} })
				}
				if k <= kUint {
					cands = append(cands, func() *mexpr { return &mexpr{Tag: "Un", Op: "^", Args: []*mexpr{g.typed(env, t, depth-1)}} })
					cands = append(cands, func() *mexpr {
						return &mexpr{Tag: "Bin", Op: g.r.pick([]string{"<<", ">>"}), Args: []*mexpr{g.typed(env, t, depth-1), {Tag: "Int", N: g.r.intn(3)}}}
					})
				}
			case k == kString:
				cands = append(cands, func() *mexpr {
					return &mexpr{Tag: "Bin", Op: "+", Args: []*mexpr{g.typed(env, t, depth-1), g.any(env, t, depth-1)}}
				})
			case k == kBool:
				cands = append(cands, func() *mexpr {
					return &mexpr{Tag: "Bin", Op: g.r.pick([]string{"&&", "||"}), Args: []*mexpr{g.typed(env, t, depth-1), g.any(env, t, depth-1)}}
				})
				cands = append(cands, func() *mexpr { return &mexpr{Tag: "Un", Op: "!", Args: []*mexpr{g.typed(env, t, depth-1)}} })
			}
		}
	}
	if len(cands) == 0 {
		// no variable of this type in scope: build one from a typed conversion of a literal is a constant,
		// so fall back to a literal-like value wrapped where needed
		return g.value(env, t, depth)
	}
	return cands[g.r.intn(len(cands))]()
}

// comparison: an untyped-bool expression
func (g *mgen) comparison(env []mvar, depth int) *mexpr {
	k := mkind(g.r.intn(6))
	t := tB(k)
	if len(g.p.Named) > 0 && g.r.chance(25) {
		n := g.r.intn(len(g.p.Named))
		t = tN(n, g.p.Named[n])
		k = g.p.Named[n]
	}
	ops := []string{"==", "!="}
	if k != kBool {
		ops = append(ops, "<", "<=", ">", ">=")
	}
	return &mexpr{Tag: "Bin", Op: g.r.pick(ops), Args: []*mexpr{g.typed(env, t, depth-1), g.any(env, t, depth-1)}}
}

// value: a composite or literal value of type t (possibly constant).
func (g *mgen) value(env []mvar, t mty, depth int) *mexpr {
	switch t.Tag {
	case "S":
		var args []*mexpr
		for _, ft := range g.p.Structs[t.N] {
			args = append(args, g.any(env, ft, depth-1))
		}
		return &mexpr{Tag: "SLit", N: t.N, Args: args}
	case "L":
		n := 2 + g.r.intn(2)
		var args []*mexpr
		for i := 0; i < n; i++ {
			args = append(args, g.any(env, tB(t.K), depth-1))
		}
		return &mexpr{Tag: "LLit", T: t, Args: args}
	}
	return g.lit(t.K)
}

// any: an expression assignable to t (a literal, a comparison for bool kinds, or a typed expression).
func (g *mgen) any(env []mvar, t mty, depth int) *mexpr {
	if depth <= 0 || g.r.chance(30) {
		if t.Tag == "S" || t.Tag == "L" {
			for _, v := range env {
				if sameTy(v.t, t) && g.r.bool() {
					return &mexpr{Tag: "Var", N: v.id}
				}
			}
		}
		return g.value(env, t, depth)
	}
	if k, ok := t.basicKind(); ok && k == kBool && depth > 0 && g.r.chance(50) {
		return g.comparison(env, depth)
	}
	return g.typed(env, t, depth)
}

func (g *mgen) randType(withComposite bool) mty {
	n := 8
	if withComposite {
		n = 11
	}
	switch x := g.r.intn(n); {
	case x < 6:
		return tB(mkind(x))
	case x < 8:
		if len(g.p.Named) > 0 {
			i := g.r.intn(len(g.p.Named))
			return tN(i, g.p.Named[i])
		}
		return tB(kInt)
	case x == 8 && len(g.p.Structs) > 0:
		return tS(g.r.intn(len(g.p.Structs)))
	case x == 9:
		return tL(mkind(g.r.intn(6)))
	}
	return tB(kInt)
}

func (g *mgen) block(env []mvar, n, depth int, results []mty, top bool) []*mstmt {
	var out []*mstmt
	for i := 0; i < n; i++ {
		switch x := g.r.intn(12); {
		case x < 3:
			t := g.randType(true)
			g.nvar++
			out = append(out, &mstmt{Tag: "Var", N: g.nvar, T: t, Es: []*mexpr{g.any(env, t, 2)}})
			env = append(env, mvar{g.nvar, t})
		case x < 5:
			t := g.randType(true)
			e := g.typed(env, t, 2)
			if e.Tag == "Int" || e.Tag == "Float" || e.Tag == "Str" || e.Tag == "Bool" {
				// x := literal takes the default type
				switch e.Tag {
				case "Int":
					t = tB(kInt)
				case "Float":
					t = tB(kFloat)
				case "Str":
					t = tB(kString)
				default:
					t = tB(kBool)
				}
			}
			g.nvar++
			out = append(out, &mstmt{Tag: "Define", N: g.nvar, Es: []*mexpr{e}})
			env = append(env, mvar{g.nvar, t})
		case x < 7 && len(env) > 0:
			v := env[g.r.intn(len(env))]
			lhs := &mexpr{Tag: "Var", N: v.id}
			t := v.t
			if v.t.Tag == "S" && g.r.bool() {
				fi := g.r.intn(len(g.p.Structs[v.t.N]))
				lhs = &mexpr{Tag: "Field", N: fi, Args: []*mexpr{lhs}}
				t = g.p.Structs[v.t.N][fi]
			} else if v.t.Tag == "L" && g.r.bool() {
				lhs = &mexpr{Tag: "Index", Args: []*mexpr{lhs, {Tag: "Int", N: g.r.intn(2)}}}
				t = tB(v.t.K)
			}
			out = append(out, &mstmt{Tag: "Assign", Es: []*mexpr{lhs, g.any(env, t, 2)}})
		case x < 8 && g.fidx > 0:
			fi := g.r.intn(g.fidx)
			var args []*mexpr
			for _, pt := range g.p.Funcs[fi].Params {
				args = append(args, g.any(env, pt, 2))
			}
			out = append(out, &mstmt{Tag: "Call", N: fi, Es: args})
		case x < 10:
			var es []*mexpr
			for j := 0; j < 1+g.r.intn(2); j++ {
				es = append(es, g.typed(env, g.randType(false), 2))
			}
			out = append(out, &mstmt{Tag: "Print", Es: es})
		case x == 10 && depth > 0:
			c := g.any(env, tB(kBool), 2)
			if c.Tag == "Bool" {
				c = g.comparison(env, 2)
			}
			out = append(out, &mstmt{Tag: "If", Es: []*mexpr{c}, B1: g.block(env, 1+g.r.intn(2), depth-1, results, false), B2: g.block(env, g.r.intn(2), depth-1, results, false)})
		case x == 11 && depth > 0:
			out = append(out, &mstmt{Tag: "For", Es: []*mexpr{g.comparison(env, 2)}, B1: g.block(env, 1+g.r.intn(2), depth-1, results, false)})
		default:
			out = append(out, &mstmt{Tag: "Print", Es: []*mexpr{g.typed(env, tB(kInt), 1)}})
		}
	}
	if top && results != nil {
		var es []*mexpr
		for _, rt := range results {
			es = append(es, g.any(env, rt, 2))
		}
		out = append(out, &mstmt{Tag: "Return", Es: es})
	}
	return out
}

func c12MiniProgram(r *rng) *mprog {
	p := &mprog{}
	g := &mgen{r: r, p: p}
	for i := 0; i < 3; i++ {
		p.Named = append(p.Named, []mkind{kInt, kFloat, kString, kInt, kBool, kInt8}[r.intn(6)])
	}
	// two named types with the same underlying kind always exist (operator "other named type")
	p.Named = append(p.Named, p.Named[0])
	for i := 0; i < 2; i++ {
		var fs []mty
		for j := 0; j < 2+r.intn(2); j++ {
			fs = append(fs, g.randType(false))
		}
		p.Structs = append(p.Structs, fs)
	}
	// f0, f1, f2: fixed helpers returning a string, an int, a bool (non-constant replacement operands)
	p.Funcs = append(p.Funcs,
		&mfunc{Results: []mty{tB(kString)}, Body: []*mstmt{{Tag: "Return", Es: []*mexpr{{Tag: "Str", N: 1}}}}},
		&mfunc{Results: []mty{tB(kInt)}, Body: []*mstmt{{Tag: "Return", Es: []*mexpr{{Tag: "Int", N: 1}}}}},
		&mfunc{Results: []mty{tB(kBool)}, Body: []*mstmt{{Tag: "Return", Es: []*mexpr{{Tag: "Bool", B: true}}}}})
	nf := 5 + r.intn(2)
	for fi := 3; fi <= nf; fi++ {
		g.fidx = fi
		f := &mfunc{}
		isMain := fi == nf
		var env []mvar
		if !isMain {
			for j := 0; j < r.intn(3); j++ {
				t := g.randType(true)
				f.Params = append(f.Params, t)
				env = append(env, mvar{mparamVar(fi, j), t})
			}
			switch r.intn(5) {
			case 0:
			case 1:
				f.Results = []mty{g.randType(false), g.randType(false)}
			default:
				f.Results = []mty{g.randType(true)}
			}
		}
		p.Funcs = append(p.Funcs, f)
		res := f.Results
		if res == nil {
			res = []mty{}
		}
		n := 3 + r.intn(4)
		if isMain {
			n = 6 + r.intn(5)
		}
		f.Body = g.block(env, n, 2, res, true)
	}
	return p
}

// ---------------------------------------------------------------- mutation operators (coq/Tc/Mutations.v)

type msite struct {
	F     int
	SPath []int
	EI    int // index in the statement's expression list; -1: the statement itself is the mutated node
	EPath []int
}

func (s msite) Coq() string {
	ei := "None"
	if s.EI >= 0 {
		ei = fmt.Sprintf("(Some (%d, %s))", s.EI, natList(s.EPath))
	}
	return fmt.Sprintf("(mksite %d %s %s)", s.F, natList(s.SPath), ei)
}

func natList(l []int) string {
	s := make([]string, len(l))
	for i, x := range l {
		s[i] = fmt.Sprint(x)
	}
	return "[" + strings.Join(s, "; ") + "]"
}

// Fam: "" = outside the family modelled by Y (not emitted by the check, only by the explorer);
// "ok" = modelled, yaegi is expected to agree with go/types; otherwise the known-finding region a
// disagreement on this mutant belongs to.
type mmutant struct {
	Name string
	Mut  string // Gallina term of the operator
	Fam  string
	Site msite
	Prog *mprog
}

type mrepl struct {
	coq string
	mk  func(orig *mexpr) *mexpr
}

func replStr() mrepl { return mrepl{"RStr", func(*mexpr) *mexpr { return &mexpr{Tag: "Str", N: 7} }} }
func replInt() mrepl { return mrepl{"RInt", func(*mexpr) *mexpr { return &mexpr{Tag: "Int", N: 1} }} }
func replBool() mrepl {
	return mrepl{"RBool", func(*mexpr) *mexpr { return &mexpr{Tag: "Bool", B: true} }}
}
func replCall(f int) mrepl {
	return mrepl{fmt.Sprintf("(RCall %d)", f), func(*mexpr) *mexpr { return &mexpr{Tag: "Call", N: f} }}
}
func replConv(t mty) mrepl {
	return mrepl{"(RConv " + t.Coq() + ")", func(o *mexpr) *mexpr { return &mexpr{Tag: "Conv", T: t, Args: []*mexpr{o.clone()}} }}
}

type mrewrite struct {
	name, coq, fam string
	e              *mexpr
	s              *mstmt
}

func tnc(i minfo) bool { return i.OK && i.U == "" && !i.Const }
func tncBasic(i minfo) bool {
	_, ok := i.T.basicKind()
	return tnc(i) && ok
}

var helperInfo = []minfo{{T: tB(kString), OK: true}, {T: tB(kInt), OK: true}, {T: tB(kBool), OK: true}}

func goUnopOK(op, class string) bool {
	switch op {
	case "-", "+":
		return class == "integer" || class == "float"
	case "^":
		return class == "integer"
	case "!":
		return class == "bool"
	}
	return false
}

func goArithOK(op, class string) bool {
	switch op {
	case "+":
		return class == "integer" || class == "float" || class == "string"
	case "-", "*", "/":
		return class == "integer" || class == "float"
	case "%", "&", "|", "^", "&^":
		return class == "integer"
	case "&&", "||":
		return class == "bool"
	}
	return false
}

func isArith(op string) bool {
	switch op {
	case "+", "-", "*", "/", "%", "&", "|", "^", "&^":
		return true
	}
	return false
}

func isCompare(op string) bool {
	switch op {
	case "==", "!=", "<", "<=", ">", ">=":
		return true
	}
	return false
}

// conversion of a typed non-constant value of basic kind ka to kind k (reflect ConvertibleTo)
func convOK(ka, k mkind) bool {
	return (ka <= kFloat && k <= kFloat) || ka == k || (ka <= kUint && k == kString)
}

// assignFam: family of "a typed non-constant value of type src where type dst is declared"
func assignFam(src, dst mty) string {
	if src == dst {
		return "ok"
	}
	sk, ok1 := src.basicKind()
	dk, ok2 := dst.basicKind()
	if ok1 && ok2 && sk == dk && !(src.Tag == "N" && dst.Tag == "N") {
		return "mini-named-erasure"
	}
	return "ok"
}

// exprMutations: rewrites of the expression node e.
func (p *mprog) exprMutations(env menv, e *mexpr, rvalue, litPre bool) (out []mrewrite) {
	add := func(name, coq, fam string, ne *mexpr) {
		out = append(out, mrewrite{name: name, coq: coq, fam: fam, e: ne})
	}
	with := func(i int, a *mexpr) *mexpr {
		c := e.clone()
		c.Args[i] = a
		return c
	}
	self := p.infer(env, e)
	// wrap in a unary operator (05): in the family when the operator is not defined on the operand
	for _, op := range []string{"!", "^", "-"} {
		fam := ""
		if rvalue && tncBasic(self) && !goUnopOK(op, self.class()) {
			fam = "ok"
		}
		add("05-wrap-"+op, "(MWrapUn "+munopCoq[op]+")", fam, &mexpr{Tag: "Un", Op: op, Args: []*mexpr{e.clone()}})
	}
	// wrap in a conversion (27): in the family when the conversion is invalid
	for _, t := range []mty{tB(kInt), tB(kString), tB(kBool)} {
		fam := ""
		if ka, ok := self.T.basicKind(); ok && rvalue && tncBasic(self) && !convOK(ka, t.K) {
			fam = "ok"
		}
		add("27-wrap-conv-"+t.Go(), "(MWrapConv "+t.Coq()+")", fam, &mexpr{Tag: "Conv", T: t, Args: []*mexpr{e.clone()}})
	}
	switch e.Tag {
	case "Bin":
		a, b := p.infer(env, e.Args[0]), p.infer(env, e.Args[1])
		for side := 0; side < 2; side++ {
			other := b
			if side == 1 {
				other = a
			}
			reps := []mrepl{replStr(), replInt(), replBool(), replCall(0), replCall(1), replCall(2), replConv(tB(kInt8)), replConv(tB(kUint))}
			for ni, nk := range p.Named {
				reps = append(reps, replConv(tN(ni, nk)))
			}
			for ri, r := range reps {
				fam := ""
				if ri >= 3 && ri <= 5 && tncBasic(other) && (isArith(e.Op) || isCompare(e.Op)) && helperInfo[ri-3].rclass() != other.rclass() {
					fam = "ok"
				}
				add(fmt.Sprintf("01/02-operand-%d-%s", side, r.coq), fmt.Sprintf("(MOperand %d %s)", side, r.coq), fam, with(side, r.mk(e.Args[side])))
			}
		}
		same := tncBasic(a) && tncBasic(b) && a.T == b.T
		for _, op := range []string{"+", "-", "%", "&", "&&", "||", "<", "==", "<<"} {
			if op == e.Op {
				continue
			}
			fam := ""
			switch {
			case same && isArith(op) && !goArithOK(op, a.class()):
				fam = "ok"
			case same && (op == "&&" || op == "||") && isArith(e.Op) && a.class() != "bool":
				fam = "mini-land"
			}
			c := e.clone()
			c.Op = op
			add("03/04/07-binop-"+op, "(MBinop "+mbinopCoq[op]+")", fam, c)
		}
	case "Un":
		a := p.infer(env, e.Args[0])
		for _, op := range []string{"!", "^", "-"} {
			if op != e.Op {
				fam := ""
				if tncBasic(a) && !goUnopOK(op, a.class()) {
					fam = "ok"
				}
				c := e.clone()
				c.Op = op
				add("05-unop-"+op, "(MUnop "+munopCoq[op]+")", fam, c)
			}
		}
	case "Call", "SLit":
		c := e.clone()
		c.Args = append(c.Args, &mexpr{Tag: "Int", N: 0})
		add("13/22-arg-extra", "MArgExtra", "ok", c)
		var decl []mty
		if e.Tag == "Call" {
			decl = p.Funcs[e.N].Params
		} else {
			decl = p.Structs[e.N]
		}
		if len(e.Args) > 0 {
			c := e.clone()
			c.Args = c.Args[:len(c.Args)-1]
			add("13/22-arg-fewer", "MArgFewer", "ok", c)
			for i := range e.Args {
				for ri, r := range []mrepl{replCall(0), replCall(1), replCall(2), replStr(), replInt()} {
					fam := ""
					if ri < 3 && i < len(decl) {
						fam = assignFam(helperInfo[ri].T, decl[i])
					}
					add("14/22-arg-"+r.coq, fmt.Sprintf("(MArg %d %s)", i, r.coq), fam, with(i, r.mk(e.Args[i])))
				}
			}
		}
	case "LLit":
		if len(e.Args) > 0 {
			for ri, r := range []mrepl{replCall(0), replCall(1), replCall(2), replStr(), replInt()} {
				fam := ""
				if ri < 3 {
					fam = assignFam(helperInfo[ri].T, tB(e.T.K))
				}
				add("23-elem-"+r.coq, fmt.Sprintf("(MArg %d %s)", 0, r.coq), fam, with(0, r.mk(e.Args[0])))
			}
		}
	case "Var":
		add("17-undef-var", "MUndefVar", "", &mexpr{Tag: "Var", N: 999})
	case "Field":
		c := e.clone()
		c.N = 99
		fam := "ok"
		if litPre {
			// cfg.go types the elements of a composite literal in pre-order, through parentheses, unary
			// and binary expressions (second operand when the first is an untyped constant): an undefined
			// selector met on that walk is a nil dereference in the host, not an error. That shape is
			// outside the family modelled by Y; the rich stream carries it (finding C12-esc-18).
			fam = ""
		}
		add("18-undef-field", "MUndefField", fam, c)
	case "Len":
		add("25-len-of-int", "(MArg 0 RInt)", "", with(0, replInt().mk(nil)))
		add("25-len-of-int", "(MArg 0 (RCall 1))", "ok", with(0, replCall(1).mk(nil)))
	case "Index":
		base := p.infer(env, e.Args[0])
		isSlice := tnc(base) && base.T.Tag == "L"
		add("29-index-string", "(MArg 1 RStr)", "", with(1, replStr().mk(nil)))
		fam := ""
		if isSlice {
			fam = "ok"
		}
		add("29-index-string", "(MArg 1 (RCall 0))", fam, with(1, replCall(0).mk(nil)))
		add("29-index-of-int", "(MArg 0 RInt)", "", with(0, replInt().mk(nil)))
		add("29-index-of-int", "(MArg 0 (RCall 1))", "mini-index-nonindexable", with(0, replCall(1).mk(nil)))
	case "Conv":
		a := p.infer(env, e.Args[0])
		for _, t := range []mty{tB(kInt), tB(kString), tB(kBool)} {
			if t != e.T {
				fam := ""
				if ka, ok := a.T.basicKind(); ok && tncBasic(a) && !convOK(ka, t.K) {
					fam = "ok"
				}
				c := e.clone()
				c.T = t
				add("27-conv-to-"+t.Go(), "(MConvTo "+t.Coq()+")", fam, c)
			}
		}
	}
	return out
}

// stmtMutations: rewrites of the statement node itself.
func (p *mprog) stmtMutations(env menv, rets []mty, s *mstmt) (out []mrewrite) {
	add := func(name, coq, fam string, ns *mstmt) {
		out = append(out, mrewrite{name: name, coq: coq, fam: fam, s: ns})
	}
	withE := func(i int, e *mexpr) *mstmt {
		c := s.clone()
		c.Es[i] = e
		return c
	}
	rhsReps := func(idx int, dst mty, dstOK bool) {
		reps := []mrepl{replCall(0), replCall(1), replCall(2), replStr(), replInt(), replBool()}
		for ri, r := range reps {
			fam := ""
			if ri < 3 && dstOK {
				fam = assignFam(helperInfo[ri].T, dst)
			}
			add("09-rhs-"+r.coq, fmt.Sprintf("(MSArg %d %s)", idx, r.coq), fam, withE(idx, r.mk(s.Es[idx])))
		}
		rhs := p.infer(env, s.Es[idx])
		for ni, nk := range p.Named {
			fam := ""
			if ka, ok := rhs.T.basicKind(); ok && tncBasic(rhs) && dstOK {
				if !convOK(ka, nk) {
					fam = "ok"
				} else {
					fam = assignFam(tN(ni, nk), dst)
				}
			}
			r := replConv(tN(ni, nk))
			add("08-rhs-"+r.coq, fmt.Sprintf("(MSArg %d %s)", idx, r.coq), fam, withE(idx, r.mk(s.Es[idx])))
		}
	}
	switch s.Tag {
	case "Return", "Call":
		c := s.clone()
		c.Es = append(c.Es, &mexpr{Tag: "Int", N: 0})
		add("13/15-extra", "MSExtra", "ok", c)
		decl := rets
		if s.Tag == "Call" {
			decl = p.Funcs[s.N].Params
		}
		if len(s.Es) > 0 {
			c := s.clone()
			c.Es = c.Es[:len(c.Es)-1]
			add("13/15-fewer", "MSFewer", "ok", c)
			for i := range s.Es {
				for ri, r := range []mrepl{replCall(0), replCall(1), replCall(2), replStr(), replInt()} {
					fam := ""
					if ri < 3 && i < len(decl) {
						fam = assignFam(helperInfo[ri].T, decl[i])
					}
					add("14/15-value-"+r.coq, fmt.Sprintf("(MSArg %d %s)", i, r.coq), fam, withE(i, r.mk(s.Es[i])))
				}
			}
		}
	case "If", "For":
		for _, r := range []mrepl{replInt(), replStr()} {
			add("21-cond-"+r.coq, "(MSArg 0 "+r.coq+")", "mini-const-cond", withE(0, r.mk(s.Es[0])))
		}
		for _, r := range []mrepl{replCall(0), replCall(1)} {
			add("21-cond-"+r.coq, "(MSArg 0 "+r.coq+")", "ok", withE(0, r.mk(s.Es[0])))
		}
	case "Var":
		rhsReps(0, s.T, true)
	case "Define":
		rhsReps(0, mty{}, false)
	case "Assign":
		l := p.infer(env, s.Es[0])
		rhsReps(1, l.T, l.OK && l.U == "")
	}
	return out
}

// c12MiniMutants enumerates every rewrite at every node of the program.
func c12MiniMutants(p *mprog) []mmutant {
	var out []mmutant
	for fi := range p.Funcs {
		fi := fi
		rets := p.Funcs[fi].Results
		env := menv{}
		for j, t := range p.Funcs[fi].Params {
			env[mparamVar(fi, j)] = t
		}
		var walkBlock func(get func(q *mprog) *[]*mstmt, blk []*mstmt, spath []int, env menv)
		walkBlock = func(get func(q *mprog) *[]*mstmt, blk []*mstmt, spath []int, outer menv) {
			env := menv{}
			for k, v := range outer {
				env[k] = v
			}
			for si, s := range blk {
				si := si
				sp := append(append([]int{}, spath...), si)
				for _, sm := range p.stmtMutations(env, rets, s) {
					q := p.clone()
					(*get(q))[si] = sm.s
					out = append(out, mmutant{sm.name, sm.coq, sm.fam, msite{fi, sp, -1, nil}, q})
				}
				for ei, e := range s.Es {
					ei := ei
					var walkExpr func(e *mexpr, epath []int, rvalue, litPre bool)
					walkExpr = func(e *mexpr, epath []int, rvalue, litPre bool) {
						for _, em := range p.exprMutations(env, e, rvalue, litPre) {
							q := p.clone()
							st := (*get(q))[si]
							if len(epath) == 0 {
								st.Es[ei] = em.e
							} else {
								par := st.Es[ei]
								for _, k := range epath[:len(epath)-1] {
									par = par.Args[k]
								}
								par.Args[epath[len(epath)-1]] = em.e
							}
							out = append(out, mmutant{em.name, em.coq, em.fam, msite{fi, sp, ei, append([]int{}, epath...)}, q})
						}
						for k, a := range e.Args {
							pre := false
							switch e.Tag {
							case "SLit", "LLit":
								pre = true
							case "Un":
								pre = litPre
							case "Bin":
								pre = litPre && (k == 0 || p.infer(env, e.Args[0]).U != "")
							}
							// the operand of an index/field selection on the left of an assignment stays an l-value
							walkExpr(a, append(append([]int{}, epath...), k), rvalue || (k > 0), pre)
						}
					}
					walkExpr(e, nil, !(s.Tag == "Assign" && ei == 0), false)
				}
				if s.Tag == "If" || s.Tag == "For" {
					walkBlock(func(q *mprog) *[]*mstmt { return &(*get(q))[si].B1 }, s.B1, append(append([]int{}, sp...), 0), env)
				}
				if s.Tag == "If" {
					walkBlock(func(q *mprog) *[]*mstmt { return &(*get(q))[si].B2 }, s.B2, append(append([]int{}, sp...), 1), env)
				}
				switch s.Tag {
				case "Var":
					env[s.N] = s.T
				case "Define":
					env[s.N] = defaultType(p.infer(env, s.Es[0]))
				}
			}
		}
		walkBlock(func(q *mprog) *[]*mstmt { return &q.Funcs[fi].Body }, p.Funcs[fi].Body, nil, env)
	}
	return out
}
