package main

import (
	"fmt"
	"strings"
)

// MiniGo: the fragment modelled in coq/Tc/Syntax.v. One AST, two printers (Go source, Gallina term).
// Names are indices: variables v<n>, functions f<n>, named types N<n>, structs S<n>, fields F<n>.

type mkind int // basic kinds

const (
	kInt mkind = iota
	kInt8
	kUint
	kFloat
	kString
	kBool
)

var mkindGo = []string{"int", "int8", "uint", "float64", "string", "bool"}
var mkindCoq = []string{"KInt", "KInt8", "KUint", "KFloat", "KString", "KBool"}

type mty struct {
	Tag string // "B" basic, "N" named over basic, "S" struct, "L" slice of basic
	K   mkind
	N   int
}

func tB(k mkind) mty        { return mty{Tag: "B", K: k} }
func tN(n int, k mkind) mty { return mty{Tag: "N", N: n, K: k} }
func tS(n int) mty          { return mty{Tag: "S", N: n} }
func tL(k mkind) mty        { return mty{Tag: "L", K: k} }

func (t mty) Go() string {
	switch t.Tag {
	case "B":
		return mkindGo[t.K]
	case "N":
		return fmt.Sprintf("N%d", t.N)
	case "S":
		return fmt.Sprintf("S%d", t.N)
	default:
		return "[]" + mkindGo[t.K]
	}
}

func (t mty) Coq() string {
	switch t.Tag {
	case "B":
		return "(TB " + mkindCoq[t.K] + ")"
	case "N":
		return fmt.Sprintf("(TN %d %s)", t.N, mkindCoq[t.K])
	case "S":
		return fmt.Sprintf("(TS %d)", t.N)
	default:
		return "(TL " + mkindCoq[t.K] + ")"
	}
}

func (t mty) isNumeric() bool { return (t.Tag == "B" || t.Tag == "N") && t.K <= kFloat }
func (t mty) isInteger() bool { return (t.Tag == "B" || t.Tag == "N") && t.K <= kUint }
func (t mty) basicKind() (mkind, bool) {
	if t.Tag == "B" || t.Tag == "N" {
		return t.K, true
	}
	return 0, false
}

type mexpr struct {
	Tag  string // Int Float Str Bool Var Un Bin Call Conv Field Index Len SLit LLit
	N    int    // literal value / variable / function / field / struct index
	B    bool
	Op   string
	T    mty
	Args []*mexpr
}

var munopCoq = map[string]string{"-": "UNeg", "+": "UPos", "!": "UNot", "^": "UBitNot"}
var mbinopCoq = map[string]string{"+": "BAdd", "-": "BSub", "*": "BMul", "/": "BQuo", "%": "BRem", "&": "BAnd", "|": "BOr", "^": "BXor", "&^": "BAndNot",
	"&&": "BLand", "||": "BLor", "==": "BEq", "!=": "BNe", "<": "BLt", "<=": "BLe", ">": "BGt", ">=": "BGe", "<<": "BShl", ">>": "BShr"}

func (e *mexpr) Go() string {
	switch e.Tag {
	case "Int":
		return fmt.Sprint(e.N)
	case "Float":
		return fmt.Sprintf("%d.5", e.N)
	case "Str":
		return fmt.Sprintf("\"s%d\"", e.N)
	case "Bool":
		return fmt.Sprint(e.B)
	case "Var":
		return fmt.Sprintf("v%d", e.N)
	case "Un":
		return "(" + e.Op + e.Args[0].Go() + ")"
	case "Bin":
		return "(" + e.Args[0].Go() + " " + e.Op + " " + e.Args[1].Go() + ")"
	case "Call":
		return fmt.Sprintf("f%d(%s)", e.N, mexprsGo(e.Args))
	case "Conv":
		return e.T.Go() + "(" + e.Args[0].Go() + ")"
	case "Field":
		return e.Args[0].Go() + fmt.Sprintf(".F%d", e.N)
	case "Index":
		return e.Args[0].Go() + "[" + e.Args[1].Go() + "]"
	case "Len":
		return "len(" + e.Args[0].Go() + ")"
	case "SLit":
		return fmt.Sprintf("S%d{%s}", e.N, mexprsGo(e.Args))
	case "LLit":
		return "[]" + mkindGo[e.T.K] + "{" + mexprsGo(e.Args) + "}"
	}
	panic("mexpr.Go " + e.Tag)
}

func mexprsGo(l []*mexpr) string {
	s := make([]string, len(l))
	for i, a := range l {
		s[i] = a.Go()
	}
	return strings.Join(s, ", ")
}

func mexprsCoq(l []*mexpr) string {
	s := make([]string, len(l))
	for i, a := range l {
		s[i] = a.Coq()
	}
	return "[" + strings.Join(s, "; ") + "]"
}

func (e *mexpr) Coq() string {
	switch e.Tag {
	case "Int":
		return fmt.Sprintf("(EInt %d)", e.N)
	case "Float":
		return fmt.Sprintf("(EFloat %d)", e.N)
	case "Str":
		return fmt.Sprintf("(EStr %d)", e.N)
	case "Bool":
		return "(EBool " + coqBool(e.B) + ")"
	case "Var":
		return fmt.Sprintf("(EVar %d)", e.N)
	case "Un":
		return "(EUn " + munopCoq[e.Op] + " " + e.Args[0].Coq() + ")"
	case "Bin":
		return "(EBin " + mbinopCoq[e.Op] + " " + e.Args[0].Coq() + " " + e.Args[1].Coq() + ")"
	case "Call":
		return fmt.Sprintf("(ECall %d %s)", e.N, mexprsCoq(e.Args))
	case "Conv":
		return "(EConv " + e.T.Coq() + " " + e.Args[0].Coq() + ")"
	case "Field":
		return fmt.Sprintf("(EField %s %d)", e.Args[0].Coq(), e.N)
	case "Index":
		return "(EIndex " + e.Args[0].Coq() + " " + e.Args[1].Coq() + ")"
	case "Len":
		return "(ELen " + e.Args[0].Coq() + ")"
	case "SLit":
		return fmt.Sprintf("(ESLit %d %s)", e.N, mexprsCoq(e.Args))
	case "LLit":
		return "(ELLit " + mkindCoq[e.T.K] + " " + mexprsCoq(e.Args) + ")"
	}
	panic("mexpr.Coq " + e.Tag)
}

func (e *mexpr) clone() *mexpr {
	c := *e
	c.Args = make([]*mexpr, len(e.Args))
	for i, a := range e.Args {
		c.Args[i] = a.clone()
	}
	return &c
}

type mstmt struct {
	Tag string // Var Define Assign Call Print Return If For
	N   int
	T   mty
	Es  []*mexpr // Var/Define: [rhs]; Assign: [lhs, rhs]; Call: args; Print/Return: values; If/For: [cond]
	B1  []*mstmt
	B2  []*mstmt
}

func (s *mstmt) clone() *mstmt {
	c := *s
	c.Es = make([]*mexpr, len(s.Es))
	for i, e := range s.Es {
		c.Es[i] = e.clone()
	}
	c.B1 = mcloneBlock(s.B1)
	c.B2 = mcloneBlock(s.B2)
	return &c
}

func mcloneBlock(b []*mstmt) []*mstmt {
	if b == nil {
		return nil
	}
	r := make([]*mstmt, len(b))
	for i, s := range b {
		r[i] = s.clone()
	}
	return r
}

func mblockGo(b []*mstmt, ind string) string {
	var sb strings.Builder
	for _, s := range b {
		sb.WriteString(s.Go(ind))
	}
	return sb.String()
}

func (s *mstmt) Go(ind string) string {
	switch s.Tag {
	case "Var":
		return fmt.Sprintf("%svar v%d %s = %s\n%s_ = v%d\n", ind, s.N, s.T.Go(), s.Es[0].Go(), ind, s.N)
	case "Define":
		return fmt.Sprintf("%sv%d := %s\n%s_ = v%d\n", ind, s.N, s.Es[0].Go(), ind, s.N)
	case "Assign":
		return fmt.Sprintf("%s%s = %s\n", ind, s.Es[0].Go(), s.Es[1].Go())
	case "Call":
		return fmt.Sprintf("%sf%d(%s)\n", ind, s.N, mexprsGo(s.Es))
	case "Print":
		return fmt.Sprintf("%sprintln(%s)\n", ind, mexprsGo(s.Es))
	case "Return":
		if len(s.Es) == 0 {
			return ind + "return\n"
		}
		return fmt.Sprintf("%sreturn %s\n", ind, mexprsGo(s.Es))
	case "If":
		return fmt.Sprintf("%sif %s {\n%s%s} else {\n%s%s}\n", ind, s.Es[0].Go(), mblockGo(s.B1, ind+"\t"), ind, mblockGo(s.B2, ind+"\t"), ind)
	case "For":
		return fmt.Sprintf("%sfor %s {\n%s%s\tbreak\n%s}\n", ind, s.Es[0].Go(), mblockGo(s.B1, ind+"\t"), ind, ind)
	}
	panic("mstmt.Go " + s.Tag)
}

func mblockCoq(b []*mstmt) string {
	s := make([]string, len(b))
	for i, x := range b {
		s[i] = x.Coq()
	}
	return "[" + strings.Join(s, "; ") + "]"
}

func (s *mstmt) Coq() string {
	switch s.Tag {
	case "Var":
		return fmt.Sprintf("(SVar %d %s %s)", s.N, s.T.Coq(), s.Es[0].Coq())
	case "Define":
		return fmt.Sprintf("(SDefine %d %s)", s.N, s.Es[0].Coq())
	case "Assign":
		return "(SAssign " + s.Es[0].Coq() + " " + s.Es[1].Coq() + ")"
	case "Call":
		return fmt.Sprintf("(SCall %d %s)", s.N, mexprsCoq(s.Es))
	case "Print":
		return "(SPrint " + mexprsCoq(s.Es) + ")"
	case "Return":
		return "(SReturn " + mexprsCoq(s.Es) + ")"
	case "If":
		return "(SIf " + s.Es[0].Coq() + " " + mblockCoq(s.B1) + " " + mblockCoq(s.B2) + ")"
	case "For":
		return "(SFor " + s.Es[0].Coq() + " " + mblockCoq(s.B1) + ")"
	}
	panic("mstmt.Coq " + s.Tag)
}

type mfunc struct {
	Params  []mty // parameters are variables v<100*(f+1)+i>
	Results []mty
	Body    []*mstmt
}

type mprog struct {
	Named   []mkind  // named type N<i> over basic kind
	Structs [][]mty  // struct S<i> with fields F0.. of these types
	Funcs   []*mfunc // f<i>; the last one is main (no params, no results)
}

func (p *mprog) clone() *mprog {
	c := &mprog{Named: p.Named, Structs: p.Structs}
	for _, f := range p.Funcs {
		c.Funcs = append(c.Funcs, &mfunc{Params: f.Params, Results: f.Results, Body: mcloneBlock(f.Body)})
	}
	return c
}

func mparamVar(f, i int) int { return 100*(f+1) + i }

// Go renders the program; main prints the marker first.
func (p *mprog) Go() string {
	var b strings.Builder
	b.WriteString("package main\n\n")
	for i, k := range p.Named {
		fmt.Fprintf(&b, "type N%d %s\n", i, mkindGo[k])
	}
	for i, fs := range p.Structs {
		fmt.Fprintf(&b, "type S%d struct {\n", i)
		for j, t := range fs {
			fmt.Fprintf(&b, "\tF%d %s\n", j, t.Go())
		}
		b.WriteString("}\n")
	}
	for i, f := range p.Funcs {
		if i == len(p.Funcs)-1 {
			b.WriteString("\nfunc main() {\n\tprintln(\"MARK main\")\n")
			b.WriteString(mblockGo(f.Body, "\t"))
			b.WriteString("}\n")
			continue
		}
		var ps []string
		for j, t := range f.Params {
			ps = append(ps, fmt.Sprintf("v%d %s", mparamVar(i, j), t.Go()))
		}
		var rs []string
		for _, t := range f.Results {
			rs = append(rs, t.Go())
		}
		res := ""
		if len(rs) == 1 {
			res = " " + rs[0]
		} else if len(rs) > 1 {
			res = " (" + strings.Join(rs, ", ") + ")"
		}
		fmt.Fprintf(&b, "\nfunc f%d(%s)%s {\n%s}\n", i, strings.Join(ps, ", "), res, mblockGo(f.Body, "\t"))
	}
	return b.String()
}

func mtysCoq(l []mty) string {
	s := make([]string, len(l))
	for i, t := range l {
		s[i] = t.Coq()
	}
	return "[" + strings.Join(s, "; ") + "]"
}

func (p *mprog) Coq() string {
	var named, structs, funcs []string
	for _, k := range p.Named {
		named = append(named, mkindCoq[k])
	}
	for _, fs := range p.Structs {
		structs = append(structs, mtysCoq(fs))
	}
	for _, f := range p.Funcs {
		funcs = append(funcs, fmt.Sprintf("(mkfun %s %s %s)", mtysCoq(f.Params), mtysCoq(f.Results), mblockCoq(f.Body)))
	}
	return fmt.Sprintf("(mkprog [%s] [%s] [%s])", strings.Join(named, "; "), strings.Join(structs, "; "), strings.Join(funcs, "; "))
}
