package main

import (
	"fmt"
	"strings"
)

// C13, redirected output x statement form: every output function of the I/O catalogue (print builtins,
// fmt.Print*, log.Print*/Output) is called in every statement form a script has for a call - plain, defer,
// go, through a function value, in closures, goroutine bodies, deferred closures, init functions,
// package-level initialisers, methods, named functions - and the marker it writes must reach the stream of
// Options (never the host's). One child process per cell. Y is form-independent: the name resolves to the
// same binding (fixStdlib row / builtin generator) whatever the statement form.

type c13OutFn struct {
	Pkg, Name string // Pkg == "": builtin
	Callee    string
	Args      string // %M = marker
	Imports   []string
}

func (f c13OutFn) coq() string {
	if f.Pkg == "" {
		return fmt.Sprintf("(IOBuiltin %s)", coqStr(f.Name))
	}
	return fmt.Sprintf("(IOName %s %s)", coqStr(f.Pkg), coqStr(f.Name))
}

func (f c13OutFn) ref() string {
	if f.Pkg == "log" {
		return "OptStderr"
	}
	return "OptStdout"
}

func c13OutFns() []c13OutFn {
	return []c13OutFn{
		{"", "print", "print", `"%M"`, nil},
		{"", "println", "println", `"%M"`, nil},
		{"fmt", "Print", "fmt.Print", `"%M"`, []string{"fmt"}},
		{"fmt", "Printf", "fmt.Printf", `"%s", "%M"`, []string{"fmt"}},
		{"fmt", "Println", "fmt.Println", `"%M"`, []string{"fmt"}},
		{"log", "Print", "log.Print", `"%M"`, []string{"log"}},
		{"log", "Printf", "log.Printf", `"%s", "%M"`, []string{"log"}},
		{"log", "Println", "log.Println", `"%M"`, []string{"log"}},
		{"log", "Output", "log.Output", `1, "%M"`, []string{"log"}},
	}
}

type c13Form struct {
	Name    string
	Value   bool   // uses the function as a value: not applicable to builtins
	Top     string // package-level declarations; %F callee, %A arguments, %C the whole call
	Main    string // statements of main
	Imports []string
}

func c13Forms2() []c13Form {
	wait := `time.Sleep(20 * time.Millisecond)` // the host waits (bounded) for the marker afterwards
	return []c13Form{
		{Name: "plain", Main: `%C`},
		{Name: "defer", Main: `defer %C`},
		{Name: "go", Main: `go %C; ` + wait, Imports: []string{"time"}},
		{Name: "value", Value: true, Main: `f := %F; f(%A)`},
		{Name: "go-value", Value: true, Main: `f := %F; go f(%A); ` + wait, Imports: []string{"time"}},
		{Name: "defer-value", Value: true, Main: `f := %F; defer f(%A)`},
		{Name: "closure", Main: `func() { %C }()`},
		{Name: "goroutine-body", Main: `done := make(chan bool); go func() { %C; done <- true }(); <-done`},
		{Name: "deferred-closure", Main: `defer func() { %C }()`},
		{Name: "init", Top: `func init() { %C }`, Main: ``},
		{Name: "var-initialiser", Top: `var c13v = func() int { %C; return 0 }()`, Main: `_ = c13v`},
		{Name: "method", Top: "type c13T struct{}\n\nfunc (c13T) m() { %C }", Main: `c13T{}.m()`},
		{Name: "named-function", Top: `func c13f() { %C }`, Main: `c13f()`},
		{Name: "go-named-function", Top: `func c13f(done chan bool) { %C; done <- true }`, Main: `done := make(chan bool); go c13f(done); <-done`},
		{Name: "defer-in-loop", Main: `for i := 0; i < 1; i++ { defer %C }`},
	}
}

func c13FormScript(f c13OutFn, fm c13Form, marker string) string {
	call := f.Callee + "(" + f.Args + ")"
	rep := strings.NewReplacer("%C", call, "%F", f.Callee, "%A", f.Args)
	fill := func(s string) string { return strings.ReplaceAll(rep.Replace(s), "%M", marker) }
	var b strings.Builder
	b.WriteString("package main\n\n")
	imps := append(append([]string{}, f.Imports...), fm.Imports...)
	if len(imps) > 0 {
		b.WriteString("import (\n")
		for _, im := range imps {
			fmt.Fprintf(&b, "\t%q\n", im)
		}
		b.WriteString(")\n\n")
	}
	if fm.Top != "" {
		b.WriteString(fill(fm.Top) + "\n\n")
	}
	b.WriteString("func main() {\n")
	if fm.Main != "" {
		if strings.Contains(fm.Main, "for ") || strings.Contains(fm.Main, "func()") {
			b.WriteString("\t" + fill(fm.Main) + "\n")
		} else {
			for _, st := range strings.Split(fill(fm.Main), "; ") {
				b.WriteString("\t" + st + "\n")
			}
		}
	}
	b.WriteString("}\n")
	return b.String()
}
