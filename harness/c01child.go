package main

import (
	"bytes"
	"context"
	"encoding/json"
	"flag"
	"fmt"
	"os"
	"os/exec"
	"runtime"
	"time"
)

// C01 runs every program in a child process of this binary: a mis-executed program may allocate
// without bound or crash the host; the child watches its own heap and gives up above a limit.

func init() {
	register("c01-yaegi-run", "internal: evaluate one Go source file with yaegi under a memory watchdog", func(args []string) error {
		fs := flag.NewFlagSet("c01-yaegi-run", flag.ExitOnError)
		timeout := fs.Duration("timeout", 20*time.Second, "timeout")
		fs.Parse(args)
		b, err := os.ReadFile(fs.Arg(0))
		if err != nil {
			return err
		}
		go func() {
			var ms runtime.MemStats
			for {
				time.Sleep(50 * time.Millisecond)
				runtime.ReadMemStats(&ms)
				if ms.HeapAlloc > 1500<<20 {
					json.NewEncoder(os.Stdout).Encode(outcome{End: "host-crash:memory limit exceeded"})
					os.Exit(0)
				}
			}
		}()
		r := runYaegi(string(b), yaegiOpts{Timeout: *timeout})
		return json.NewEncoder(os.Stdout).Encode(r)
	})
}

func c1RunYaegiChild(src string, timeout time.Duration) outcome {
	f, err := os.CreateTemp("", "vh-c01-*.go")
	if err != nil {
		return outcome{End: "host-crash:tempfile"}
	}
	defer os.Remove(f.Name())
	f.WriteString(src)
	f.Close()
	self, _ := os.Executable()
	ctx, cancel := context.WithTimeout(context.Background(), timeout+15*time.Second)
	defer cancel()
	cmd := exec.CommandContext(ctx, self, "c01-yaegi-run", "-timeout", timeout.String(), f.Name())
	cmd.Env = append(os.Environ(), "GOMAXPROCS=2")
	var out, errb bytes.Buffer
	cmd.Stdout, cmd.Stderr = &out, &errb
	rerr := cmd.Run()
	var r outcome
	if json.Unmarshal(out.Bytes(), &r) == nil && r.End != "" {
		return r
	}
	if ctx.Err() != nil {
		return outcome{End: "timeout"}
	}
	return outcome{Stdout: "", End: "host-crash:" + firstLine(fmt.Sprint(rerr)) + ":" + firstLine(errb.String())}
}
