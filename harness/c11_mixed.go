package main

import (
	"bytes"
	"fmt"
	"os"
	"path/filepath"
	"reflect"
	"strings"
	"testing/fstest"

	"github.com/traefik/yaegi/interp"
)

// C11, sessions that MIX the entry points: a session is a sequence of steps, each an unnamed source
// (Eval, Compile+Execute or CompileAST), a named file (EvalPath on disk or on a MapFS) or a directory,
// in any order; later steps use symbols and IMPORTS established by earlier steps of another kind.
// Model: Session/Model.v [step], [y_step] (sticky source name, imports keyed by source name).

type c11step struct {
	Kind  byte // 'e' unnamed, 'f' named file, 'd' directory
	Entry int  // unnamed: c11Eval | c11CompileExecute | c11CompileAST
	Name  int  // file: s<Name>.go
	Chunk []c11item
}

func (st c11step) entryName(fsk string) string {
	switch st.Kind {
	case 'f':
		return fmt.Sprintf("EvalPath(s%d.go, %s)", st.Name, fsk)
	case 'd':
		return "EvalPath(directory, " + fsk + ")"
	}
	return c11modeNames[st.Entry]
}

func (st c11step) src() string {
	if st.Kind == 'e' {
		return c11chunkSrc(st.Chunk)
	}
	return c11fileSrc(st.Chunk)
}

// c11hoist puts the imports of a chunk first (Go wants them before the other declarations).
func c11hoist(c []c11item) []c11item {
	var a, b []c11item
	for _, it := range c {
		if it.K == 'i' {
			a = append(a, it)
		} else {
			b = append(b, it)
		}
	}
	return append(a, b...)
}

// programImp: as c11gen.program, with import declarations among the declarations and calls into the
// imported packages in function bodies and in main.
func (g *c11gen) programImp(nDecl, nBody int) c11prog {
	g.vars, g.ptrs, g.funcs, g.imps = nil, nil, nil, nil
	var p c11prog
	nv, np, nf := 0, 100, 0
	free := []int{1, 2, 3, 4}
	for i := 0; i < nDecl; i++ {
		k := g.r.intn(12)
		switch {
		case (k >= 10 || i == 1) && len(free) > 0:
			j := g.r.intn(len(free))
			p.Decls = append(p.Decls, c11item{K: 'i', N: free[j]})
			g.imps = append(g.imps, free[j])
			free = append(free[:j], free[j+1:]...)
		case k < 4 || i == 0:
			nv++
			var e *c11expr
			if len(g.funcs) > 0 && g.r.chance(70) {
				e = g.readFree(2, false)
			} else {
				e = g.konst()
			}
			p.Decls = append(p.Decls, c11item{K: 'v', N: nv, E: e})
			g.vars = append(g.vars, nv)
		case k == 4:
			np++
			p.Decls = append(p.Decls, c11item{K: 'p', N: np})
			g.ptrs = append(g.ptrs, np)
		default:
			nf++
			body, set := g.stmts(1+g.r.intn(3), true, nil)
			p.Decls = append(p.Decls, c11item{K: 'f', N: nf, Body: body, Ret: g.expr(true, g.vars, set)})
			g.funcs = append(g.funcs, nf)
		}
	}
	p.Body, _ = g.stmts(nBody, false, nil)
	p.Vars, p.Ptrs = append([]int(nil), g.vars...), append([]int(nil), g.ptrs...)
	return p
}

func c11usesOf(c []c11item) []int {
	var u []int
	for _, it := range c {
		switch it.K {
		case 'f':
			for _, s := range it.Body {
				if s.K == 'u' {
					u = append(u, s.X)
				}
			}
		case 's':
			if it.S.K == 'u' {
				u = append(u, it.S.X)
			}
		}
	}
	return u
}

// c11visible replays the rule of the model: a use sees the imports made under the source name in force.
// It returns the index of the first step with a use that does not, or -1.
func c11visible(steps []c11step) int {
	cur := 0
	imps := map[[2]int]bool{}
	for idx, st := range steps {
		if st.Kind == 'd' {
			continue
		}
		if st.Kind == 'f' {
			cur = st.Name
		}
		for _, it := range st.Chunk {
			if it.K == 'i' {
				imps[[2]int{cur, it.N}] = true
			}
		}
		for _, k := range c11usesOf(st.Chunk) {
			if !imps[[2]int{cur, k}] {
				return idx
			}
		}
	}
	return -1
}

// c11mixedSession spreads the program over steps of different kinds.
func c11mixedSession(r *rng, p c11prog) []c11step {
	n := len(p.Decls)
	var steps []c11step
	unnamed := func(items []c11item, avg int) {
		for _, c := range c11cut(r, items, avg) {
			steps = append(steps, c11step{Kind: 'e', Entry: []int{c11Eval, c11CompileExecute, c11CompileAST, c11Eval}[r.intn(4)], Chunk: c11hoist(c)})
		}
	}
	file := func(name int, items []c11item) {
		steps = append(steps, c11step{Kind: 'f', Name: name, Chunk: c11hoist(items)})
	}
	avg := 1 + r.intn(3)
	switch pat := r.intn(4); {
	case pat == 0 || n < 3: // file first, then chunks
		m := 1 + r.intn(n)
		file(1, p.Decls[:m])
		unnamed(p.Decls[m:], avg)
	case pat == 1: // chunks, then a file, then chunks
		k1 := 1 + r.intn(n-1)
		k2 := k1 + 1 + r.intn(n-k1)
		unnamed(p.Decls[:k1], avg)
		file(1, p.Decls[k1:k2])
		unnamed(p.Decls[k2:], avg)
	case pat == 2: // file, chunks, file, chunks
		k1 := 1 + r.intn(n-2)
		k2 := k1 + r.intn(n-k1-1)
		k3 := k2 + 1 + r.intn(n-k2)
		file(1, p.Decls[:k1])
		unnamed(p.Decls[k1:k2], avg)
		file(2, p.Decls[k2:k3])
		unnamed(p.Decls[k3:], avg)
	default: // two files in a row, then chunks
		k1 := 1 + r.intn(n-1)
		k2 := k1 + 1 + r.intn(n-k1)
		file(1, p.Decls[:k1])
		file(2, p.Decls[k1:k2])
		unnamed(p.Decls[k2:], avg)
	}
	unnamed(p.stmtItems(), avg)
	return steps
}

func (p c11prog) wholeItemsImp() []c11item {
	seen := map[int]bool{}
	var l []c11item
	for _, it := range p.Decls {
		if it.K == 'i' {
			if seen[it.N] {
				continue
			}
			seen[it.N] = true
		}
		l = append(l, it)
	}
	return append(c11hoist(l), p.mainItem())
}

// c11runSteps feeds the steps to one interpreter.
// finalBeforeLast: the globals are read before the last step (a session cut at a step that fails to compile:
// after such a step Globals() itself may panic in the host, symbols lying beyond the frame).
func c11runSteps(steps []c11step, vars, ptrs []int, fsKind string, finalBeforeLast bool) ([]c11chunkObs, c11final) {
	files := map[string]string{}
	for k, st := range steps {
		switch st.Kind {
		case 'f':
			files[fmt.Sprintf("s%d.go", st.Name)] = c11fileSrc(st.Chunk)
		case 'd':
			files[fmt.Sprintf("d%d/s.go", k)] = c11fileSrc(st.Chunk)
		}
	}
	var s *c11session
	root := ""
	if fsKind == "mapfs" {
		mfs := fstest.MapFS{}
		for n, src := range files {
			mfs[n] = &fstest.MapFile{Data: []byte(src)}
		}
		s = c11newSession(interp.Options{SourcecodeFilesystem: mfs})
	} else {
		dir, err := os.MkdirTemp("", "vh-c11m-*")
		if err != nil {
			panic(err)
		}
		defer os.RemoveAll(dir)
		for n, src := range files {
			os.MkdirAll(filepath.Dir(filepath.Join(dir, n)), 0o755)
			if err := os.WriteFile(filepath.Join(dir, n), []byte(src), 0o644); err != nil {
				panic(err)
			}
		}
		root = dir
		s = c11newSession(interp.Options{})
	}
	// an unnamed step before any named file needs fmt: imported by an unnamed chunk, as in a REPL
	if len(steps) > 0 && steps[0].Kind != 'f' {
		s.i.Eval(`import "fmt"`)
	}
	curName := "_.go"
	var early *c11final
	for k, st := range steps {
		st := st
		if finalBeforeLast && k == len(steps)-1 {
			f := s.final(vars, ptrs)
			early = &f
		}
		switch st.Kind {
		case 'f':
			path := fmt.Sprintf("s%d.go", st.Name)
			if root != "" {
				path = filepath.Join(root, path)
			}
			curName = path
			s.step(false, func() (reflect.Value, error) { return s.i.EvalPath(path) })
		case 'd':
			path := fmt.Sprintf("./d%d", k)
			if root != "" {
				wd, _ := os.Getwd()
				rel, err := filepath.Rel(wd, filepath.Join(root, fmt.Sprintf("d%d", k)))
				if err != nil {
					panic(err)
				}
				if !strings.HasPrefix(rel, ".") {
					rel = "./" + rel
				}
				path = rel
			}
			s.step(false, func() (reflect.Value, error) { return s.i.EvalPath(path) })
		default:
			src := c11chunkSrc(st.Chunk)
			name := curName
			s.step(c11endsWithExpr(st.Chunk), func() (reflect.Value, error) {
				switch st.Entry {
				case c11CompileExecute:
					p, err := s.i.Compile(src)
					if err != nil {
						return reflect.Value{}, err
					}
					return s.i.Execute(p)
				case c11CompileAST:
					n, err := c11parseASTNamed(s.i, st.Chunk, src, name)
					if err != nil {
						return reflect.Value{}, err
					}
					p, err := s.i.CompileAST(n)
					if err != nil {
						return reflect.Value{}, err
					}
					return s.i.Execute(p)
				}
				return s.i.Eval(src)
			})
		}
	}
	if early != nil {
		return s.obs, *early
	}
	fin := s.final(vars, ptrs)
	return s.obs, fin
}

// ---------------------------------------------------------------- relative imports after a named file (behavioural)

type c11relRun struct {
	Stdout string
	Err    string
}

func c11relSession(files map[string]string, mapfs bool, steps []string) (res c11relRun) {
	out := &bytes.Buffer{}
	defer func() {
		if r := recover(); r != nil {
			res = c11relRun{out.String(), "host panic: " + firstLine(fmt.Sprint(r))}
		}
	}()
	opt := interp.Options{Stdout: out, Stderr: out}
	root := ""
	if mapfs {
		mfs := fstest.MapFS{}
		for n, src := range files {
			mfs[n] = &fstest.MapFile{Data: []byte(src)}
		}
		opt.SourcecodeFilesystem = mfs
	} else {
		dir, err := os.MkdirTemp("", "vh-c11r-*")
		if err != nil {
			return c11relRun{"", err.Error()}
		}
		defer os.RemoveAll(dir)
		for n, src := range files {
			os.MkdirAll(filepath.Dir(filepath.Join(dir, n)), 0o755)
			os.WriteFile(filepath.Join(dir, n), []byte(src), 0o644)
		}
		root = dir
	}
	i := interp.New(opt)
	if err := i.Use(c11fmt); err != nil {
		panic(err)
	}
	for k, st := range steps {
		var err error
		if strings.HasPrefix(st, "P:") {
			path := st[2:]
			if root != "" {
				path = filepath.Join(root, path)
			}
			_, err = i.EvalPath(path)
		} else {
			_, err = i.Eval(st[2:])
		}
		if err != nil {
			return c11relRun{out.String(), fmt.Sprintf("step %d: %s", k, firstLine(err.Error()))}
		}
	}
	return c11relRun{out.String(), ""}
}

// c11relimport: EvalPath(app/main.go), then unnamed chunks that import "./util" relatively to that file
// and use it; reference: the same program as one file app/whole.go (yaegi) and the value computed here.
func c11relimport(r *rng, n int, sm *summary, distinct distinctSet, id *int) {
	for k := 0; k < n; k++ {
		a, b, c := 1+r.intn(9), 1+r.intn(9), 2+r.intn(3)
		decl := fmt.Sprintf("var x = %d\n\nfunc fa() int { fmt.Println(\"fa\", x); x += %d; return x }\n", a, c)
		files := map[string]string{
			"app/main.go":   "package main\n\nimport \"fmt\"\n\n" + decl,
			"app/util/u.go": fmt.Sprintf("package util\n\nfunc Twice(a int) int { return 2*a + %d }\n", b),
			"util/u.go":     "package util\n\nfunc Twice(a int) int { return 3 * a }\n",
			"app/whole.go":  "package main\n\nimport (\n\t\"fmt\"\n\n\t\"./util\"\n)\n\n" + decl + "\nfunc main() {\n\tfmt.Println(util.Twice(fa()))\n\tfmt.Println(util.Twice(x))\n}\n",
		}
		want := fmt.Sprintf("fa %d\n%d\n%d\n", a, 2*(a+c)+b, 2*(a+c)+b)
		for _, mapfs := range []bool{true, false} {
			fsk := map[bool]string{true: "mapfs", false: "disk"}[mapfs]
			whole := c11relSession(files, mapfs, []string{"P:app/whole.go"})
			variants := [][]string{
				{"P:app/main.go", "E:import \"./util\"", "E:fmt.Println(util.Twice(fa()))", "E:fmt.Println(util.Twice(x))"},
				{"P:app/main.go", "E:import \"./util\"\nfunc tw() int { return util.Twice(fa()) }", "E:fmt.Println(tw())", "E:fmt.Println(util.Twice(x))"},
			}
			for _, steps := range variants {
				*id++
				res := c11relSession(files, mapfs, steps)
				in := map[string]any{"kind": "relative-import", "fs": fsk, "files": files, "steps": steps}
				sm.CaseIndex[fmt.Sprint(*id)] = in
				sm.Evaluations++
				sm.RefComparisons += 2
				sm.count("session:relative-import:" + fsk)
				distinct.add(fmt.Sprint(in))
				switch {
				case res.Err != "" || res.Stdout != want:
					sm.RefMismatches = append(sm.RefMismatches, refMismatch{ID: *id, Region: "", Input: in, Impl: res, Ref: want, Note: "reference: the values the program computes (util resolved next to app/main.go)"})
				case whole.Err != "" || whole.Stdout != res.Stdout:
					sm.RefMismatches = append(sm.RefMismatches, refMismatch{ID: *id, Region: "", Input: in, Impl: res, Ref: whole, Note: "reference: yaegi, the same program as one file (EvalPath app/whole.go)"})
				}
			}
		}
	}
}
