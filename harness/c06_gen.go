package main

import "fmt"

// Generator of C06 cases. All randomness comes from the rng handed in (seeded by -seed).
//
// Streams (Region "" = main stream, kept outside the regions of the known findings):
//   chain     systematic: call chains of depth 1..4, the innermost function panics / faults, one level
//             recovers with one of the recover placements (direct literal, named, method, helper,
//             nested literal, deferred nested literal, function body), named result updated
//   stack     systematic: defer stacks of 1..3 entries over the callee kinds followed by return / panic
//   random    seeded random function tables respecting the static rules below
//   corpus:closure-lock  main stream: a deferred (or called) literal calls a closure created by the
//             deferring activation; this hung before /repo abe7a69 (finding closure-lock, fixed);
//             the former witness and its neighbourhood stay here so that a return of the hang is reported;
//             random literals call such closures too
//   deferred-panic / defer-arg-alias / repanic-wrap / recover-stale / defer-forward-lit
//             small neighbourhood streams aimed at the regions of the known findings
//
// Static rules of the main stream (conservative versions of the dynamic side conditions of
// Defer.Proofs.C06_partial; Defer/Cases.v re-checks them on the model for every main-stream case):
//   R1  in a body only the first defer statement may have a callee that can exit by panic
//       (when it runs no other deferred call of that activation remains);
//   R2  a variable passed as argument of a defer is not assigned afterwards;
//   R3  a recovered value is not passed to panic again (no `repanic`).

type c06Gen struct {
	r   *rng
	tag int
	val int64
}

func (g *c06Gen) newTag() int { g.tag++; return g.tag }

func (g *c06Gen) newVal() c06Base {
	g.val++
	switch g.r.intn(3) {
	case 0:
		return c06Base{Kind: "int", Z: g.val}
	case 1:
		return c06Base{Kind: "str", Z: g.val}
	}
	return c06Base{Kind: "err", Z: g.val}
}

func (g *c06Gen) anyPanicVal() c06Base {
	if g.r.chance(45) {
		return c06Base{Kind: "fault", Fault: c06Faults[g.r.intn(len(c06Faults))]}
	}
	return g.newVal()
}

func c06AllVals() []c06Base {
	vs := []c06Base{{Kind: "int", Z: 1}, {Kind: "str", Z: 2}, {Kind: "err", Z: 3}}
	for _, f := range c06Faults {
		vs = append(vs, c06Base{Kind: "fault", Fault: f})
	}
	return vs
}

func sPrint(tag int) c06Stmt { return c06Stmt{K: "print", Tag: tag} }
func sPrintVar(tag int, up bool, i int) c06Stmt {
	return c06Stmt{K: "print", Tag: tag, Var: &c06VRef{Up: up, I: i}}
}
func sSet(up bool, i int, z int64) c06Stmt {
	return c06Stmt{K: "set", Var: &c06VRef{Up: up, I: i}, Z: z}
}
func sDefer(f int, a c06Arg) c06Stmt       { return c06Stmt{K: "defer", F: f, A: a} }
func sDeferLoop(n, f int) c06Stmt          { return c06Stmt{K: "deferloop", N: n, F: f} }
func sDeferHost(tag int, a c06Arg) c06Stmt { return c06Stmt{K: "deferhost", Tag: tag, A: a} }
func sDeferB(b string) c06Stmt             { return c06Stmt{K: "deferb", B: b} }
func sPanic(v c06Base) c06Stmt             { return c06Stmt{K: "panic", Val: &v} }
func sCall(f int, a c06Arg, print bool, tag int) c06Stmt {
	return c06Stmt{K: "call", F: f, A: a, Print: print, Tag: tag}
}
func sRecover() c06Stmt        { return c06Stmt{K: "recover"} }
func sRepanic() c06Stmt        { return c06Stmt{K: "repanic"} }
func sReturn() c06Stmt         { return c06Stmt{K: "return"} }
func sReturnZ(z int64) c06Stmt { return c06Stmt{K: "return", HasZ: true, Z: z} }
func aConst(z int64) c06Arg    { return c06Arg{Z: z} }
func aOwn(i int) c06Arg        { return c06Arg{Own: true, I: i} }

// ---------------------------------------------------------------- static analysis

func c06IsDefer(s c06Stmt) bool {
	return s.K == "defer" || s.K == "deferloop" || s.K == "deferhost" || s.K == "deferb"
}

// c06Esc computes, for every function, whether it may exit by panic (conservative).
// Callees have larger indices than callers, so one backward pass suffices.
func c06Esc(p c06Prog) []bool {
	esc := make([]bool, len(p.Fns))
	for j := len(p.Fns) - 1; j >= 0; j-- {
		esc[j] = c06BodyEsc(p, p.Fns[j].Body, esc)
	}
	return esc
}

func c06StmtEsc(p c06Prog, s c06Stmt, esc []bool) bool {
	switch s.K {
	case "panic", "repanic":
		return true
	case "call", "defer":
		return s.F >= len(esc) || esc[s.F]
	case "deferloop":
		return s.N > 0 && (s.F >= len(esc) || esc[s.F])
	}
	return false
}

// a catcher is a non-escaping function that calls recover directly
func c06IsCatcher(p c06Prog, f int, esc []bool) bool {
	if f >= len(p.Fns) || esc[f] {
		return false
	}
	for _, s := range p.Fns[f].Body {
		if s.K == "recover" || s.K == "recloop" {
			return true
		}
		if s.K == "panic" || s.K == "return" {
			return false
		}
	}
	return false
}

func c06BodyEsc(p c06Prog, body []c06Stmt, esc []bool) bool {
	closes := 0
	any := false
	for _, s := range body {
		if s.K == "deferb" && s.B == "close" {
			closes++
		}
		if c06StmtEsc(p, s, esc) {
			any = true
		}
	}
	if closes >= 2 {
		any = true
	}
	if !any {
		return false
	}
	// everything is caught when the first statement defers a catcher (it runs last)
	if len(body) > 0 && body[0].K == "defer" && c06IsCatcher(p, body[0].F, esc) {
		return false
	}
	return true
}

// c06R1 reports whether the body respects rule R1.
func c06R1(p c06Prog, body []c06Stmt, esc []bool) bool {
	first := true
	closes := 0
	for _, s := range body {
		if !c06IsDefer(s) {
			continue
		}
		switch s.K {
		case "defer":
			if !first && esc[s.F] {
				return false
			}
		case "deferloop":
			if s.N > 0 && esc[s.F] && (!first || s.N > 1) {
				return false
			}
		case "deferb":
			if s.B == "close" {
				closes++
				// the k-th close (k >= 2) makes the earlier ones panic when they run
				if closes == 2 && !c06FirstDeferIsClose(body) {
					return false
				}
				if closes > 2 {
					return false
				}
			}
		}
		first = false
	}
	return true
}

func c06FirstDeferIsClose(body []c06Stmt) bool {
	for _, s := range body {
		if c06IsDefer(s) {
			return s.K == "deferb" && s.B == "close"
		}
	}
	return false
}

// c06SetsLater: is variable i assigned at or after position k of the body, directly or by a literal used there?
func c06SetsLater(p c06Prog, body []c06Stmt, k, i int) bool {
	for _, s := range body[k:] {
		if s.K == "set" && !s.Var.Up && s.Var.I == i {
			return true
		}
		if s.K == "return" && s.HasZ && i == c06VarR {
			return true
		}
	}
	// literals of this body run at unknown times (deferred ones after the body)
	for _, s := range body {
		if (s.K == "defer" || s.K == "deferloop" || s.K == "call") && p.Fns[s.F].Kind == "lit" {
			for _, t := range p.Fns[s.F].Body {
				if t.K == "set" && t.Var.Up && t.Var.I == i {
					return true
				}
			}
		}
	}
	return false
}

func c06R2(p c06Prog, body []c06Stmt) bool {
	for k, s := range body {
		if (s.K == "defer" || s.K == "deferhost") && s.A.Own && c06SetsLater(p, body, k+1, s.A.I) {
			return false
		}
	}
	return true
}

func c06R3(body []c06Stmt) bool {
	for _, s := range body {
		if s.K == "repanic" || s.K == "recloop" {
			return false
		}
	}
	return true
}

// c06MainOK: the whole table respects the rules of the main stream.
func c06MainOK(p c06Prog) bool {
	esc := c06Esc(p)
	for _, f := range p.Fns {
		if !c06R1(p, f.Body, esc) || !c06R2(p, f.Body) || !c06R3(f.Body) {
			return false
		}
	}
	return true
}

// ---------------------------------------------------------------- random tables

type c06RandOpts struct {
	allowRepanic bool
}

func (g *c06Gen) randArg(lit bool) c06Arg {
	switch g.r.intn(5) {
	case 0:
		return aOwn(c06VarA)
	case 1:
		return aOwn(c06VarX)
	}
	return aConst(int64(10 + g.r.intn(80)))
}

func (g *c06Gen) randBody(p *c06Prog, self int, opts c06RandOpts) []c06Stmt {
	n := len(p.Fns)
	lit := p.Fns[self].Kind == "lit"
	maxLen := 6
	if lit {
		maxLen = 4
	}
	ln := 1 + g.r.intn(maxLen)
	var body []c06Stmt
	callee := func() (int, bool) {
		if self+1 >= n {
			return 0, false
		}
		return self + 1 + g.r.intn(n-self-1), true
	}
	recoverFirst := (lit && g.r.chance(45)) || (!lit && self > 0 && g.r.chance(15))
	if recoverFirst {
		body = append(body, sRecover())
		if opts.allowRepanic && g.r.chance(60) {
			body = append(body, sRepanic())
		}
	}
	terminal := false
	for len(body) < ln {
		k := g.r.intn(100)
		if terminal && !g.r.chance(25) {
			break // mostly no dead code after a panic / return
		}
		switch {
		case k < 16:
			if lit && g.r.chance(15) {
				// call of a closure created by the enclosing activation
				body = append(body, c06Stmt{K: "callclo", Tag: g.newTag()})
			} else if g.r.chance(50) {
				up := lit && g.r.chance(50)
				body = append(body, sPrintVar(g.newTag(), up, g.r.intn(5)))
			} else {
				body = append(body, sPrint(g.newTag()))
			}
		case k < 25:
			up := lit && g.r.chance(60)
			body = append(body, sSet(up, []int{c06VarR, c06VarX, c06VarR, c06VarA}[g.r.intn(4)], int64(100+g.r.intn(100))))
		case k < 45:
			if f, ok := callee(); ok {
				body = append(body, sDefer(f, g.randArg(lit)))
			}
		case k < 49:
			if f, ok := callee(); ok {
				body = append(body, sDeferLoop(g.r.intn(4), f))
			}
		case k < 55:
			body = append(body, sDeferHost(g.newTag(), g.randArg(lit)))
		case k < 60:
			body = append(body, sDeferB([]string{"close", "delete"}[g.r.intn(2)]))
		case k < 71:
			if len(body) > 0 {
				body = append(body, sPanic(g.anyPanicVal()))
				terminal = true
			}
		case k < 89:
			if f, ok := callee(); ok {
				body = append(body, sCall(f, g.randArg(lit), g.r.chance(50), g.newTag()))
			}
		case k < 95:
			body = append(body, sRecover())
		default:
			if len(body) > 1 {
				if g.r.bool() {
					body = append(body, sReturn())
				} else {
					body = append(body, sReturnZ(int64(200+g.r.intn(100))))
				}
				terminal = true
			}
		}
	}
	return body
}

// repair makes a body respect R1..R3 by weakening offending statements.
func (g *c06Gen) repair(p *c06Prog, self int, esc []bool) {
	body := p.Fns[self].Body
	for tries := 0; tries < 20; tries++ {
		esc[self] = c06BodyEsc(*p, body, esc)
		ok1, ok2, ok3 := c06R1(*p, body, esc), c06R2(*p, body), c06R3(body)
		if ok1 && ok2 && ok3 {
			break
		}
		first := true
		closes := 0
		for k := range body {
			s := &body[k]
			switch {
			case s.K == "repanic" || s.K == "recloop":
				*s = sPrint(g.newTag())
			case (s.K == "defer" || s.K == "deferhost") && s.A.Own && c06SetsLater(*p, body, k+1, s.A.I):
				s.A = aConst(int64(10 + g.r.intn(80)))
			case s.K == "defer" && !first && esc[s.F]:
				*s = sDeferHost(g.newTag(), aConst(1))
			case s.K == "deferloop" && s.N > 0 && esc[s.F] && (!first || s.N > 1):
				if first {
					s.N = 1
				} else {
					s.N = 0
				}
			case s.K == "deferb" && s.B == "close":
				closes++
				if closes >= 2 {
					s.B = "delete"
				}
			}
			if c06IsDefer(*s) {
				first = false
			}
		}
	}
	p.Fns[self].Body = body
	esc[self] = c06BodyEsc(*p, body, esc)
}

func (g *c06Gen) randProg(opts c06RandOpts, mainRules bool) c06Prog {
	n := 2 + g.r.intn(5)
	p := c06Prog{Fns: make([]c06Fn, n)}
	for i := range p.Fns {
		switch {
		case i == 0:
			p.Fns[i].Kind = "named"
		case g.r.chance(45):
			p.Fns[i].Kind = "lit"
		case g.r.chance(35):
			p.Fns[i].Kind = "method"
		default:
			p.Fns[i].Kind = "named"
		}
	}
	for i := 0; i < n; i++ {
		p.Fns[i].Body = g.randBody(&p, i, opts)
	}
	// every function is referenced by an earlier one
	for i := 1; i < n; i++ {
		ref := false
		for j := 0; j < i && !ref; j++ {
			for _, s := range p.Fns[j].Body {
				if (s.K == "call" || s.K == "defer" || (s.K == "deferloop" && s.N > 0)) && s.F == i {
					ref = true
				}
			}
		}
		if ref {
			continue
		}
		j := g.r.intn(i)
		body := p.Fns[j].Body
		pos := 0
		for pos < len(body) && body[pos].K != "panic" && body[pos].K != "return" && g.r.chance(60) {
			pos++
		}
		var s c06Stmt
		if g.r.chance(55) {
			s = sDefer(i, g.randArg(false))
		} else {
			s = sCall(i, g.randArg(false), g.r.bool(), g.newTag())
		}
		nb := append([]c06Stmt{}, body[:pos]...)
		nb = append(nb, s)
		p.Fns[j].Body = append(nb, body[pos:]...)
	}
	esc := make([]bool, n)
	for i := n - 1; i >= 0; i-- {
		if mainRules {
			g.repair(&p, i, esc)
		} else {
			esc[i] = c06BodyEsc(p, p.Fns[i].Body, esc)
		}
	}
	return p
}

// ---------------------------------------------------------------- systematic families

// chain: c_0 -> c_1 -> ... -> c_{D-1}; the innermost panics with v; level `lvl` (or none) recovers
// with placement `pl`.
func c06Chain(depth int, v c06Base, lvl int, pl string) c06Prog {
	var p c06Prog
	// helpers are appended after the chain functions
	type pending struct{ fn c06Fn }
	chain := make([]c06Fn, depth)
	extra := []c06Fn{}
	addExtra := func(f c06Fn) int { extra = append(extra, f); return depth + len(extra) - 1 }
	tag := 0
	nt := func() int { tag++; return tag }
	for l := 0; l < depth; l++ {
		kind := "named"
		if l%2 == 1 {
			kind = "method"
		}
		var body []c06Stmt
		body = append(body, sPrintVar(nt(), false, c06VarA))
		body = append(body, sDeferHost(nt(), aConst(int64(l))))
		if l == lvl {
			switch pl {
			case "lit":
				c := addExtra(c06Fn{Kind: "lit", Body: []c06Stmt{sRecover(), sSet(true, c06VarR, int64(40+l))}})
				body = append(body, sDefer(c, aConst(0)))
			case "named":
				c := addExtra(c06Fn{Kind: "named", Body: []c06Stmt{sRecover(), sPrintVar(nt(), false, c06VarA)}})
				body = append(body, sDefer(c, aConst(5)))
			case "method":
				c := addExtra(c06Fn{Kind: "method", Body: []c06Stmt{sRecover()}})
				body = append(body, sDefer(c, aConst(5)))
			case "helper":
				c := addExtra(c06Fn{Kind: "lit", Body: nil})
				h := addExtra(c06Fn{Kind: "named", Body: []c06Stmt{sRecover()}})
				extra[c-depth].Body = []c06Stmt{sCall(h, aConst(0), false, 0), sPrint(nt())}
				body = append(body, sDefer(c, aConst(0)))
			case "nested":
				c := addExtra(c06Fn{Kind: "lit", Body: nil})
				h := addExtra(c06Fn{Kind: "lit", Body: []c06Stmt{sRecover()}})
				extra[c-depth].Body = []c06Stmt{sCall(h, aConst(0), false, 0), sPrint(nt())}
				body = append(body, sDefer(c, aConst(0)))
			case "nesteddefer":
				c := addExtra(c06Fn{Kind: "lit", Body: nil})
				h := addExtra(c06Fn{Kind: "lit", Body: []c06Stmt{sRecover()}})
				extra[c-depth].Body = []c06Stmt{sDefer(h, aConst(0)), sPrint(nt())}
				body = append(body, sDefer(c, aConst(0)))
			case "body":
				body = append(body, sRecover())
			}
		}
		body = append(body, sSet(false, c06VarR, int64(20+l)))
		if l == depth-1 {
			body = append(body, sPanic(v))
		} else {
			body = append(body, sCall(l+1, aConst(int64(l+1)), true, nt()))
		}
		body = append(body, sPrint(nt()))
		chain[l] = c06Fn{Kind: kind, Body: body}
	}
	chain[0].Kind = "named"
	p.Fns = append(chain, extra...)
	return p
}

var c06Placements = []string{"lit", "named", "method", "helper", "nested", "nesteddefer", "body"}

// stack: f0 prints the result of f1; f1 = observer; k deferred entries; end.
var c06StackKinds = []string{"named", "method", "lit", "host", "close", "delete", "loop2", "loop0", "catcher"}
var c06StackEnds = []string{"fall", "return", "panic", "fault"}

func c06Stack(kinds []string, end string) c06Prog {
	tag := 0
	nt := func() int { tag++; return tag }
	fns := []c06Fn{{Kind: "named"}, {Kind: "named"}}
	add := func(f c06Fn) int { fns = append(fns, f); return len(fns) - 1 }
	obs := add(c06Fn{Kind: "lit", Body: []c06Stmt{sPrintVar(nt(), true, c06VarM), sPrintVar(nt(), true, c06VarC), sPrintVar(nt(), true, c06VarR)}})
	body := []c06Stmt{sDefer(obs, aConst(0))}
	for i, k := range kinds {
		switch k {
		case "named":
			f := add(c06Fn{Kind: "named", Body: []c06Stmt{sPrintVar(nt(), false, c06VarA)}})
			body = append(body, sDefer(f, aConst(int64(i))))
		case "method":
			f := add(c06Fn{Kind: "method", Body: []c06Stmt{sPrintVar(nt(), false, c06VarA)}})
			body = append(body, sDefer(f, aConst(int64(i))))
		case "lit":
			f := add(c06Fn{Kind: "lit", Body: []c06Stmt{sPrintVar(nt(), false, c06VarA), sSet(true, c06VarR, int64(60+i))}})
			body = append(body, sDefer(f, aConst(int64(i))))
		case "host":
			body = append(body, sDeferHost(nt(), aConst(int64(i))))
		case "close":
			body = append(body, sDeferB("close"))
		case "delete":
			body = append(body, sDeferB("delete"))
		case "loop2":
			f := add(c06Fn{Kind: "named", Body: []c06Stmt{sPrintVar(nt(), false, c06VarA)}})
			body = append(body, sDeferLoop(2, f))
		case "loop0":
			f := add(c06Fn{Kind: "lit", Body: []c06Stmt{sPrintVar(nt(), false, c06VarA)}})
			body = append(body, sDeferLoop(0, f))
		case "catcher":
			f := add(c06Fn{Kind: "lit", Body: []c06Stmt{sRecover(), sPrintVar(nt(), true, c06VarR)}})
			body = append(body, sDefer(f, aConst(int64(i))))
		}
	}
	switch end {
	case "return":
		body = append(body, sReturnZ(5))
	case "panic":
		body = append(body, sSet(false, c06VarR, 3), sPanic(c06Base{Kind: "int", Z: 1}))
	case "fault":
		body = append(body, sPanic(c06Base{Kind: "fault", Fault: "NilMapWrite"}))
	}
	body = append(body, sPrint(nt()))
	fns[0].Body = []c06Stmt{sCall(1, aConst(9), true, nt()), sPrint(nt())}
	fns[1].Body = body
	return c06Prog{Fns: fns}
}

// ---------------------------------------------------------------- region families

// deferred-panic: a deferred call panics while other deferred calls of the activation remain.
func (g *c06Gen) deferredPanic() c06Prog {
	nt := g.newTag
	fns := []c06Fn{{Kind: "named"}, {Kind: "named"}}
	add := func(f c06Fn) int { fns = append(fns, f); return len(fns) - 1 }
	kinds := []string{"named", "method", "lit"}
	var body []c06Stmt
	// optional catcher below everything: shows that the second panic value is the one in flight
	if g.r.chance(40) {
		c := add(c06Fn{Kind: "lit", Body: []c06Stmt{sRecover()}})
		body = append(body, sDefer(c, aConst(0)))
	}
	nSafe := 1 + g.r.intn(2)
	for i := 0; i < nSafe; i++ {
		if g.r.chance(30) {
			body = append(body, sDeferHost(nt(), aConst(int64(i))))
		} else {
			f := add(c06Fn{Kind: kinds[g.r.intn(3)], Body: []c06Stmt{sPrintVar(nt(), false, c06VarA)}})
			body = append(body, sDefer(f, aConst(int64(i))))
		}
	}
	// the panicking deferred call
	switch g.r.intn(4) {
	case 0:
		body = append(body, sDeferB("close"), sDeferB("close"))
	case 1: // recovers the first panic and raises a new one
		f := add(c06Fn{Kind: "lit", Body: []c06Stmt{sRecover(), sPanic(g.newVal())}})
		body = append(body, sDefer(f, aConst(0)))
	default:
		f := add(c06Fn{Kind: kinds[g.r.intn(3)], Body: []c06Stmt{sPrint(nt()), sPanic(g.anyPanicVal())}})
		if g.r.chance(25) {
			body = append(body, sDeferLoop(2, f))
		} else {
			body = append(body, sDefer(f, aConst(7)))
		}
	}
	if g.r.chance(40) {
		body = append(body, sDeferHost(nt(), aConst(99)))
	}
	switch g.r.intn(3) {
	case 0:
		body = append(body, sPanic(g.anyPanicVal()))
	case 1:
		body = append(body, sReturnZ(5))
	}
	fns[1].Body = body
	fns[0].Body = []c06Stmt{sPrint(nt())}
	if g.r.chance(50) {
		c := add(c06Fn{Kind: "lit", Body: []c06Stmt{sRecover()}})
		fns[0].Body = append(fns[0].Body, sDefer(c, aConst(0)))
	}
	fns[0].Body = append(fns[0].Body, sCall(1, aConst(1), true, nt()), sPrint(nt()))
	return c06Prog{Fns: fns}
}

// defer-arg-alias: a variable passed to a deferred call is assigned before the call runs.
func (g *c06Gen) argAlias() c06Prog {
	nt := g.newTag
	fns := []c06Fn{{Kind: "named"}, {Kind: "named"}}
	add := func(f c06Fn) int { fns = append(fns, f); return len(fns) - 1 }
	v := []int{c06VarX, c06VarA, c06VarR}[g.r.intn(3)]
	body := []c06Stmt{sSet(false, v, int64(10+g.r.intn(10)))}
	switch g.r.intn(4) {
	case 0:
		body = append(body, sDeferHost(nt(), aOwn(v)))
	default:
		f := add(c06Fn{Kind: []string{"named", "method", "lit"}[g.r.intn(3)], Body: []c06Stmt{sPrintVar(nt(), false, c06VarA)}})
		body = append(body, sDefer(f, aOwn(v)))
	}
	switch g.r.intn(3) {
	case 0:
		body = append(body, sSet(false, v, int64(30+g.r.intn(10))))
	case 1: // assigned by a literal deferred later (runs earlier)
		f := add(c06Fn{Kind: "lit", Body: []c06Stmt{sSet(true, v, int64(50+g.r.intn(10)))}})
		body = append(body, sDefer(f, aConst(0)))
	default:
		body = append(body, sSet(false, v, int64(30+g.r.intn(10))), sPanic(g.anyPanicVal()))
	}
	fns[1].Body = body
	fns[0].Body = []c06Stmt{sCall(1, aConst(1), true, nt())}
	if g.r.chance(50) {
		c := add(c06Fn{Kind: "lit", Body: []c06Stmt{sRecover()}})
		fns[0].Body = append([]c06Stmt{sDefer(c, aConst(0))}, fns[0].Body...)
	}
	return c06Prog{Fns: fns}
}

// repanic-wrap: a recovered value is passed to panic again, then displayed.
func (g *c06Gen) repanicWrap() c06Prog {
	nt := g.newTag
	depth := 2 + g.r.intn(3)
	var fns []c06Fn
	for l := 0; l < depth; l++ {
		fns = append(fns, c06Fn{Kind: "named"})
	}
	add := func(f c06Fn) int { fns = append(fns, f); return len(fns) - 1 }
	v := g.anyPanicVal()
	for l := 0; l < depth; l++ {
		var body []c06Stmt
		cb := []c06Stmt{sRecover()}
		// the outermost level keeps the value unless chosen otherwise
		if l > 0 || g.r.chance(40) {
			cb = append(cb, sRepanic())
		}
		c := add(c06Fn{Kind: []string{"lit", "lit", "named"}[g.r.intn(3)], Body: cb})
		body = append(body, sDefer(c, aConst(0)))
		if l == depth-1 {
			body = append(body, sPanic(v))
		} else {
			body = append(body, sCall(l+1, aConst(0), false, 0), sPrint(nt()))
		}
		fns[l].Body = body
	}
	return c06Prog{Fns: fns}
}

// recover-stale: the same recover() site is executed twice in one activation.
func (g *c06Gen) recoverStale() c06Prog {
	nt := g.newTag
	fns := []c06Fn{{Kind: "named"}, {Kind: "named"}}
	add := func(f c06Fn) int { fns = append(fns, f); return len(fns) - 1 }
	c := add(c06Fn{Kind: []string{"lit", "named", "method"}[g.r.intn(3)], Body: []c06Stmt{{K: "recloop"}, sPrint(nt())}})
	body := []c06Stmt{sDefer(c, aConst(0))}
	if g.r.chance(80) {
		body = append(body, sPanic(g.anyPanicVal()))
	}
	fns[1].Body = body
	fns[0].Body = []c06Stmt{sCall(1, aConst(1), true, nt()), sPrint(nt())}
	return c06Prog{Fns: fns}
}

// corpus closure-lock (main stream since /repo abe7a69): a deferred literal calls a closure created by
// the deferring activation.
func (g *c06Gen) closureLock() c06Prog {
	nt := g.newTag
	fns := []c06Fn{{Kind: "named"}, {Kind: "named"}}
	add := func(f c06Fn) int { fns = append(fns, f); return len(fns) - 1 }
	c := add(c06Fn{Kind: "lit", Body: []c06Stmt{sPrint(nt()), {K: "callclo", Tag: nt()}, sPrint(nt())}})
	var body []c06Stmt
	if g.r.bool() {
		body = append(body, sDefer(c, aConst(0)))
	} else {
		body = append(body, sCall(c, aConst(0), false, 0)) // not deferred: harmless
	}
	fns[1].Body = body
	fns[0].Body = []c06Stmt{sCall(1, aConst(1), true, nt()), sPrint(nt())}
	return c06Prog{Fns: fns}
}

// ---------------------------------------------------------------- all streams

func c06Generate(r *rng, tier string, sm *summary) []c06Case {
	g := &c06Gen{r: r}
	var cases []c06Case
	add := func(region, shape string, p c06Prog) {
		cases = append(cases, c06Case{Region: region, Shape: shape, Prog: p})
	}
	thorough := tier == "thorough"

	// the witnesses of the _refuted theorems of coq/Props/C06.v, replayed on the implementation
	for _, w := range c06Witnesses() {
		if w.region == "" {
			add("", "corpus:"+w.name, w.p)
			continue
		}
		add(w.region, "witness:"+w.region, w.p)
	}

	// chain family: 4 depths x 10 values x levels x 7 placements
	type chainKey struct {
		d, lvl int
		v      c06Base
		pl     string
	}
	var chains []chainKey
	for d := 1; d <= 4; d++ {
		for _, v := range c06AllVals() {
			for lvl := -1; lvl < d; lvl++ {
				if lvl < 0 {
					chains = append(chains, chainKey{d, lvl, v, "none"})
					continue
				}
				for _, pl := range c06Placements {
					chains = append(chains, chainKey{d, lvl, v, pl})
				}
			}
		}
	}
	nChain := 200
	if thorough {
		nChain = len(chains)
	}
	for _, i := range c06Sample(r, len(chains), nChain) {
		k := chains[i]
		add("", "chain", c06Chain(k.d, k.v, k.lvl, k.pl))
	}

	// stack family
	var stacks [][]string
	for _, a := range c06StackKinds {
		stacks = append(stacks, []string{a})
		for _, b := range c06StackKinds {
			stacks = append(stacks, []string{a, b})
			for _, c := range c06StackKinds {
				stacks = append(stacks, []string{a, b, c})
			}
		}
	}
	type stackKey struct {
		ks  []string
		end string
	}
	var sks []stackKey
	for _, ks := range stacks {
		nclose := 0
		for _, k := range ks {
			if k == "close" {
				nclose++
			}
		}
		if nclose >= 2 {
			continue // a second close panics in a deferred call: region deferred-panic
		}
		for _, e := range c06StackEnds {
			sks = append(sks, stackKey{ks, e})
		}
	}
	nStack := 220
	if thorough {
		nStack = len(sks)
	}
	for _, i := range c06Sample(r, len(sks), nStack) {
		add("", "stack", c06Stack(sks[i].ks, sks[i].end))
	}

	// random tables
	nRand := 520
	nRegion := 36
	if thorough {
		nRand, nRegion = 12000, 500
	}
	for i := 0; i < nRand; i++ {
		g.tag, g.val = 0, 0
		p := g.randProg(c06RandOpts{}, true)
		if !c06MainOK(p) {
			sm.count("gen:random-rejected")
			continue
		}
		add("", "random", p)
	}
	for i := 0; i < nRegion; i++ {
		g.tag, g.val = 0, 0
		add("deferred-panic", "deferred-panic", g.deferredPanic())
		g.tag, g.val = 0, 0
		add("defer-arg-alias", "defer-arg-alias", g.argAlias())
		g.tag, g.val = 0, 0
		add("repanic-wrap", "repanic-wrap", g.repanicWrap())
	}
	nSmall := nRegion / 3
	for i := 0; i < nSmall; i++ {
		g.tag, g.val = 0, 0
		add("recover-stale", "recover-stale", g.recoverStale())
		g.tag, g.val = 0, 0
		if i%2 == 0 {
			add("", "corpus:closure-lock", g.closureLock())
		}
	}
	// forward declaration order: main-stream tables in which a literal defers a named function or method
	for i, n := 0, 0; i < 40*nRegion && n < nRegion; i++ {
		g.tag, g.val = 0, 0
		p := g.randProg(c06RandOpts{}, true)
		if !c06MainOK(p) || !c06LitDefersNamed(p) {
			continue
		}
		p.Fwd = true
		n++
		add("defer-forward-lit", "defer-forward-lit", p)
	}
	// random tables without the rules: whatever region they fall in is decided by the model
	for i := 0; i < nRegion; i++ {
		g.tag, g.val = 0, 0
		p := g.randProg(c06RandOpts{allowRepanic: true}, false)
		if c06MainOK(p) {
			continue
		}
		esc := c06Esc(p)
		region := ""
		for _, f := range p.Fns {
			switch {
			case !c06R1(p, f.Body, esc):
				region = "deferred-panic"
			case region == "" && !c06R3(f.Body):
				region = "repanic-wrap"
			case region == "" && !c06R2(p, f.Body):
				region = "defer-arg-alias"
			}
		}
		add(region, "random-unruly", p)
	}
	_ = fmt.Sprint
	return cases
}

type c06Witness struct {
	region string // "" = repaired finding kept as a corpus case of the main stream
	p      c06Prog
	name   string
}

// c06Witnesses are the programs w_* / prog_arg_fixed 1 2 1 of Defer/Proofs.v.
func c06Witnesses() []c06Witness {
	n, l := "named", "lit"
	return []c06Witness{
		{region: "deferred-panic", p: c06Prog{Fns: []c06Fn{
			{n, []c06Stmt{sDefer(1, aConst(0)), sDefer(2, aConst(0)), sPanic(c06Base{Kind: "int", Z: 1})}},
			{n, []c06Stmt{sPrint(1)}},
			{n, []c06Stmt{sPrint(2), sPanic(c06Base{Kind: "str", Z: 2})}}}}},
		{region: "defer-arg-alias", p: c06Prog{Fns: []c06Fn{
			{n, []c06Stmt{sSet(false, c06VarX, 1), sDefer(1, aOwn(c06VarX)), sSet(false, c06VarX, 2)}},
			{n, []c06Stmt{sPrintVar(1, false, c06VarA)}}}}},
		{region: "repanic-wrap", p: c06Prog{Fns: []c06Fn{
			{n, []c06Stmt{sDefer(3, aConst(0)), sCall(1, aConst(0), false, 0)}},
			{n, []c06Stmt{sDefer(2, aConst(0)), sPanic(c06Base{Kind: "int", Z: 5})}},
			{l, []c06Stmt{sRecover(), sRepanic()}},
			{l, []c06Stmt{sRecover()}}}}},
		{region: "recover-stale", p: c06Prog{Fns: []c06Fn{
			{n, []c06Stmt{sDefer(1, aConst(0)), sPanic(c06Base{Kind: "int", Z: 7})}},
			{l, []c06Stmt{{K: "recloop"}}}}}},
		{region: "", name: "closure-lock", p: c06Prog{Fns: []c06Fn{ // w_closure_lock: hung before /repo abe7a69
			{n, []c06Stmt{sDefer(1, aConst(0)), sPrint(1)}},
			{l, []c06Stmt{{K: "callclo", Tag: 2}, sPrint(3)}}}}},
		{region: "defer-forward-lit", p: c06Prog{Fwd: true, Fns: []c06Fn{
			{n, []c06Stmt{sCall(1, aConst(0), false, 0), sPrint(1)}},
			{l, []c06Stmt{sDefer(2, aConst(4))}},
			{n, []c06Stmt{sPrintVar(2, false, c06VarA)}}}}},
	}
}

// c06LitDefersNamed: some function literal defers a named function or a method.
func c06LitDefersNamed(p c06Prog) bool {
	for _, f := range p.Fns {
		if f.Kind != "lit" {
			continue
		}
		for _, s := range f.Body {
			if (s.K == "defer" || (s.K == "deferloop" && s.N > 0)) && p.Fns[s.F].Kind != "lit" {
				return true
			}
		}
	}
	return false
}

// c06Sample returns k distinct indices of [0,n) in increasing order (all of them when k >= n).
func c06Sample(r *rng, n, k int) []int {
	if k >= n {
		idx := make([]int, n)
		for i := range idx {
			idx[i] = i
		}
		return idx
	}
	idx := make([]int, 0, k)
	need := k
	for i := 0; i < n && need > 0; i++ {
		if r.intn(n-i) < need {
			idx = append(idx, i)
			need--
		}
	}
	return idx
}
