package main

import (
	"crypto/sha1"
	"fmt"
	"go/constant"
	"go/types"
	"math/big"
	"strings"
)

// C18, part 1: the go/types view of a package rendered as the abstract declarations of
// coq/Extract/Model.v (input of Y and G), and the reference rows computed directly from go/types
// (what the contract prescribes; compared with G inside Coq and with the implementation here).

// ---------------------------------------------------------------- abstract declarations

type c18Param struct {
	Name string
	Ty   string // Coq term of type ty
}

type c18Meth struct {
	Name     string
	Exported bool
	Params   []c18Param
	Variadic bool
	Results  []c18Param
	Pkgs     [][2]string
	StrOK    bool
	Nameable bool
	sig      *types.Signature
}

type c18Iface struct {
	Methods   []c18Meth
	NEmbedded int
	MethodSet bool
}

type c18Decl struct {
	Name     string
	Exported bool
	Kind     string // const | func | var | type
	Untyped  bool
	Val      constant.Value
	Generic  bool
	Alias    bool
	Iface    *c18Iface
	obj      types.Object
}

type c18Pkg struct {
	Name, Path, IPath string
	Minor             int
	Decls             []c18Decl
}

func c18Qualifier(rec *[][2]string) types.Qualifier {
	return func(p *types.Package) string {
		if rec != nil {
			seen := false
			for _, x := range *rec {
				if x[0] == p.Path() {
					seen = true
				}
			}
			if !seen {
				*rec = append(*rec, [2]string{p.Path(), p.Name()})
			}
		}
		return p.Name()
	}
}

func c18Ty(t types.Type, q types.Qualifier) string {
	if sl, ok := t.(*types.Slice); ok {
		return "(TSlice " + c18Ty(sl.Elem(), q) + ")"
	}
	return "(TBase " + coqStr(types.TypeString(t, q)) + ")"
}

// c18Nameable reports whether the type can be written in a package other than its own:
// no unexported named type, no package that may not be imported from outside the standard library.
func c18Nameable(t types.Type, seen map[types.Type]bool) bool {
	if seen[t] {
		return true
	}
	seen[t] = true
	switch x := t.(type) {
	case *types.Basic:
		return true
	case *types.Named:
		o := x.Obj()
		if o.Pkg() != nil {
			if !o.Exported() || c18ForbiddenImport(o.Pkg().Path()) {
				return false
			}
		}
		if ta := x.TypeArgs(); ta != nil {
			for i := 0; i < ta.Len(); i++ {
				if !c18Nameable(ta.At(i), seen) {
					return false
				}
			}
		}
		return true
	case *types.Pointer:
		return c18Nameable(x.Elem(), seen)
	case *types.Slice:
		return c18Nameable(x.Elem(), seen)
	case *types.Array:
		return c18Nameable(x.Elem(), seen)
	case *types.Chan:
		return c18Nameable(x.Elem(), seen)
	case *types.Map:
		return c18Nameable(x.Key(), seen) && c18Nameable(x.Elem(), seen)
	case *types.Tuple:
		for i := 0; i < x.Len(); i++ {
			if !c18Nameable(x.At(i).Type(), seen) {
				return false
			}
		}
		return true
	case *types.Signature:
		return c18Nameable(x.Params(), seen) && c18Nameable(x.Results(), seen)
	case *types.Struct:
		for i := 0; i < x.NumFields(); i++ {
			if !c18Nameable(x.Field(i).Type(), seen) {
				return false
			}
		}
		return true
	case *types.Interface:
		for i := 0; i < x.NumMethods(); i++ {
			if !c18Nameable(x.Method(i).Type(), seen) {
				return false
			}
		}
		return true
	}
	return true
}

func c18ForbiddenImport(path string) bool {
	if strings.HasPrefix(path, "vendor/") {
		return true
	}
	for _, e := range strings.Split(path, "/") {
		if e == "internal" {
			return true
		}
	}
	return false
}

// c18StrOK: is `return ""` a valid return statement for this result list?
func c18StrOK(res *types.Tuple) bool {
	if res.Len() != 1 {
		return false
	}
	switch u := res.At(0).Type().Underlying().(type) {
	case *types.Basic:
		return u.Info()&types.IsString != 0
	case *types.Interface:
		return u.NumMethods() == 0 && u.IsMethodSet()
	}
	return false
}

func c18MethOf(f *types.Func) c18Meth {
	sig := f.Type().(*types.Signature)
	m := c18Meth{Name: f.Name(), Exported: f.Exported(), Variadic: sig.Variadic(), sig: sig}
	q := c18Qualifier(&m.Pkgs)
	for j := 0; j < sig.Params().Len(); j++ {
		v := sig.Params().At(j)
		m.Params = append(m.Params, c18Param{v.Name(), c18Ty(v.Type(), q)})
	}
	for j := 0; j < sig.Results().Len(); j++ {
		v := sig.Results().At(j)
		m.Results = append(m.Results, c18Param{v.Name(), c18Ty(v.Type(), q)})
	}
	m.StrOK = c18StrOK(sig.Results())
	m.Nameable = c18Nameable(sig.Params(), map[types.Type]bool{}) && c18Nameable(sig.Results(), map[types.Type]bool{})
	return m
}

// c18View reads the package the way genContent reads it: scope names in order, t.Method(i), NumEmbeddeds.
func c18View(p *types.Package, ipath string, minor int) *c18Pkg {
	v := &c18Pkg{Name: p.Name(), Path: p.Path(), IPath: ipath, Minor: minor}
	sc := p.Scope()
	for _, name := range sc.Names() {
		o := sc.Lookup(name)
		d := c18Decl{Name: name, Exported: o.Exported(), obj: o}
		switch x := o.(type) {
		case *types.Const:
			d.Kind = "const"
			if b, ok := x.Type().(*types.Basic); ok && b.Info()&types.IsUntyped != 0 {
				d.Untyped = true
			}
			d.Val = x.Val()
		case *types.Func:
			d.Kind = "func"
			d.Generic = x.Type().(*types.Signature).TypeParams().Len() > 0
		case *types.Var:
			d.Kind = "var"
		case *types.TypeName:
			d.Kind = "type"
			d.Alias = x.IsAlias()
			// the module is built with gotypesalias=0 (go 1.21 in go.mod, as yaegi's own go.mod): aliases are resolved
			if t, ok := x.Type().(*types.Named); ok {
				d.Generic = t.TypeParams().Len() > 0 && !x.IsAlias()
				if x.IsAlias() {
					d.Generic = t.TypeParams().Len() > 0 // alias of an uninstantiated generic type cannot be declared
				}
			}
			if it, ok := x.Type().Underlying().(*types.Interface); ok && !d.Generic {
				ifc := &c18Iface{NEmbedded: it.NumEmbeddeds(), MethodSet: it.IsMethodSet()}
				for i := 0; i < it.NumMethods(); i++ {
					ifc.Methods = append(ifc.Methods, c18MethOf(it.Method(i)))
				}
				d.Iface = ifc
			}
		default:
			continue
		}
		v.Decls = append(v.Decls, d)
	}
	return v
}

// ---------------------------------------------------------------- Coq rendering of declarations

func c18Z(x *big.Int) string {
	if x.Sign() < 0 {
		return "(" + x.String() + ")"
	}
	return x.String()
}

// c18Rat returns the exact value of a Float-kind constant as a fraction in lowest terms.
func c18Rat(v constant.Value) (*big.Rat, bool) {
	switch x := constant.Val(v).(type) {
	case *big.Rat:
		return x, true
	case *big.Float:
		r, _ := x.Rat(nil)
		return r, false // kept as *big.Float by go/constant: outside the model of fixConst
	case int64:
		return new(big.Rat).SetInt64(x), true
	case *big.Int:
		return new(big.Rat).SetInt(x), true
	}
	return new(big.Rat), false
}

func c18Exact128(v constant.Value) bool {
	_, e1 := constant.Float64Val(constant.Real(v))
	_, e2 := constant.Float64Val(constant.Imag(v))
	return e1 && e2
}

// c18StrRepr: canonical ASCII rendering of a string constant; very long strings are replaced by a digest
// (on the declaration side and on the observation side alike).
func c18StrRepr(x string) string {
	if len(x) > 4096 {
		h := sha1.Sum([]byte(x))
		x = fmt.Sprintf("sha1:%x:%d", h, len(x))
	}
	return c18Quote(x)
}

// c18Quote is Extract/Decimal.v print_str: printable ASCII other than the quote and the backslash stands for itself,
// every other byte is written \xHH.
func c18Quote(x string) string {
	var b strings.Builder
	b.WriteByte('"')
	for i := 0; i < len(x); i++ {
		c := x[i]
		if c >= 32 && c < 127 && c != '"' && c != '\\' {
			b.WriteByte(c)
		} else {
			fmt.Fprintf(&b, "\\x%02x", c)
		}
	}
	b.WriteByte('"')
	return b.String()
}

func c18CVal(v constant.Value) string {
	switch v.Kind() {
	case constant.Bool:
		return "(CBool " + coqBool(constant.BoolVal(v)) + ")"
	case constant.String:
		return "(CString (bytes_of " + coqStr(c18StrRepr(constant.StringVal(v))) + "))"
	case constant.Int:
		z, _ := new(big.Int).SetString(v.ExactString(), 10)
		return "(CInt " + c18Z(z) + ")"
	case constant.Float:
		r, _ := c18Rat(v)
		return "(CFloat " + c18Z(r.Num()) + " " + c18Z(r.Denom()) + ")"
	case constant.Complex:
		return "(CComplex " + coqBool(c18Exact128(v)) + ")"
	}
	return "(CBool false)"
}

func c18Params(ps []c18Param) string {
	it := make([]string, len(ps))
	for i, p := range ps {
		it[i] = fmt.Sprintf("mkParam %s %s", coqStr(p.Name), p.Ty)
	}
	return coqList(it)
}

func (m c18Meth) coq() string {
	pk := make([]string, len(m.Pkgs))
	for i, x := range m.Pkgs {
		pk[i] = fmt.Sprintf("(%s, %s)", coqStr(x[0]), coqStr(x[1]))
	}
	return fmt.Sprintf("mkMeth %s %s %s %s %s %s %s %s", coqStr(m.Name), coqBool(m.Exported), c18Params(m.Params), coqBool(m.Variadic),
		c18Params(m.Results), coqList(pk), coqBool(m.StrOK), coqBool(m.Nameable))
}

func (d c18Decl) coq() string {
	var o string
	switch d.Kind {
	case "const":
		if d.Untyped && !d.Exported {
			o = "OConst true (CBool false)" // unexported: skipped by genContent before the value is read
		} else if d.Untyped {
			o = "OConst true " + c18CVal(d.Val)
		} else {
			o = "OConst false (CBool false)" // the value of a typed constant is not read by genContent
		}
	case "func":
		o = "OFunc " + coqBool(d.Generic)
	case "var":
		o = "OVar"
	case "type":
		i := "None"
		if d.Iface != nil {
			ms := make([]string, len(d.Iface.Methods))
			for k, m := range d.Iface.Methods {
				ms[k] = m.coq()
			}
			i = fmt.Sprintf("(Some (mkIface %s %d %s))", coqList(ms), d.Iface.NEmbedded, coqBool(d.Iface.MethodSet))
		}
		o = fmt.Sprintf("OType %s %s %s", coqBool(d.Alias), coqBool(d.Generic), i)
	}
	return fmt.Sprintf("mkDecl %s %s (%s)", coqStr(d.Name), coqBool(d.Exported), o)
}

func (p *c18Pkg) coq() string {
	ds := make([]string, len(p.Decls))
	for i, d := range p.Decls {
		ds[i] = d.coq()
	}
	return fmt.Sprintf("(mkPkg %s %s %s %d [\n  %s])", coqStr(p.Name), coqStr(p.Path), coqStr(p.IPath), p.Minor, strings.Join(ds, ";\n  "))
}

// ---------------------------------------------------------------- reference rows (the contract, from go/types)

var c18Sandboxed = map[string]map[string]bool{
	"os":  {"Exit": true, "FindProcess": true},
	"log": {"Default": true, "Fatal": true, "Fatalf": true, "Fatalln": true, "Logger": true, "New": true},
}

type c18RefBind struct {
	Name string
	Kind string // value | addr | const | type | sandbox
	Obj  types.Object
}

type c18RefMeth struct {
	Name string
	Sig  *types.Signature
}

type c18RefWrap struct {
	Name    string
	Iface   *types.Interface
	Named   types.Type
	Methods []c18RefMeth
	Hidden  bool // the interface also has unexported methods: nothing outside its package implements it
}

type c18Ref struct {
	Vals  []c18RefBind
	Typs  []c18RefBind
	Wraps []c18RefWrap
}

func c18Reference(p *types.Package, ipath string) *c18Ref {
	r := &c18Ref{}
	sc := p.Scope()
	for _, name := range sc.Names() {
		o := sc.Lookup(name)
		if !o.Exported() {
			continue
		}
		sb := c18Sandboxed[ipath][name]
		switch x := o.(type) {
		case *types.Const:
			k := "value"
			if b, ok := x.Type().(*types.Basic); ok && b.Info()&types.IsUntyped != 0 {
				k = "const"
			}
			r.Vals = append(r.Vals, c18RefBind{name, k, o})
		case *types.Func:
			if x.Type().(*types.Signature).TypeParams().Len() > 0 {
				continue
			}
			k := "value"
			if sb {
				k = "sandbox"
			}
			r.Vals = append(r.Vals, c18RefBind{name, k, o})
		case *types.Var:
			r.Vals = append(r.Vals, c18RefBind{name, "addr", o})
		case *types.TypeName:
			generic := false
			if t, ok := x.Type().(*types.Named); ok {
				generic = t.TypeParams().Len() > 0
			}
			if generic {
				continue
			}
			it, isIface := x.Type().Underlying().(*types.Interface)
			if isIface && !it.IsMethodSet() {
				continue // a type-set constraint is not a type of values
			}
			k := "type"
			if sb {
				k = "sandbox"
			}
			r.Typs = append(r.Typs, c18RefBind{name, k, o})
			if isIface {
				w := c18RefWrap{Name: name, Iface: it, Named: x.Type()}
				ms := types.NewMethodSet(x.Type())
				for i := 0; i < ms.Len(); i++ {
					f := ms.At(i).Obj().(*types.Func)
					if !f.Exported() {
						w.Hidden = true
						continue
					}
					w.Methods = append(w.Methods, c18RefMeth{f.Name(), f.Type().(*types.Signature)})
				}
				r.Wraps = append(r.Wraps, w)
			}
		}
	}
	return r
}

func (r *c18Ref) coq() string {
	q := c18Qualifier(nil)
	bind := func(b c18RefBind) string {
		switch b.Kind {
		case "value":
			return "GValue " + coqStr(b.Name)
		case "addr":
			return "GAddr " + coqStr(b.Name)
		case "type":
			return "GType " + coqStr(b.Name)
		case "sandbox":
			return "GSandbox " + coqStr(b.Name)
		}
		return "GConst " + c18CVal(b.Obj.(*types.Const).Val())
	}
	rows := func(bs []c18RefBind) string {
		it := make([]string, len(bs))
		for i, b := range bs {
			it[i] = fmt.Sprintf("(%s, %s)", coqStr(b.Name), bind(b))
		}
		return "[" + strings.Join(it, ";\n   ") + "]"
	}
	ws := make([]string, len(r.Wraps))
	for i, w := range r.Wraps {
		ms := make([]string, len(w.Methods))
		for k, m := range w.Methods {
			var ps, rs []string
			for j := 0; j < m.Sig.Params().Len(); j++ {
				ps = append(ps, c18Ty(m.Sig.Params().At(j).Type(), q))
			}
			for j := 0; j < m.Sig.Results().Len(); j++ {
				rs = append(rs, c18Ty(m.Sig.Results().At(j).Type(), q))
			}
			ms[k] = fmt.Sprintf("mkGM %s %s %s %s", coqStr(m.Name), coqList(ps), coqBool(m.Sig.Variadic()), coqList(rs))
		}
		ws[i] = fmt.Sprintf("(%s, %s)", coqStr(w.Name), coqList(ms))
	}
	return fmt.Sprintf("(mkGO %s\n  %s\n  %s)", rows(r.Vals), rows(r.Typs), "["+strings.Join(ws, ";\n   ")+"]")
}
