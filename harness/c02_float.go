package main

import (
	"fmt"
	"math"
	"os"
	"path/filepath"
	"strconv"
	"strings"
	"time"
)

// C02, floating point stream with a Coq denotation (coq/Num/FloatModel.v, FloatCases.v).
//
// Every case is (source form, operand kind, operand BIT PATTERNS); the result bits observed from
// real yaegi and from the same program compiled by Go are written into cases_float_*.v, where Coq
// evaluates Y_float (the regenerated table rows interpreted with Flocq: extract as float64, compute
// in float64, SetFloat rounds to the slot's format) and G_float (IEEE-754 operation of the kind's own
// format) on them.  NaN results are canonicalised on both sides (payloads are never compared).
//
// Streams: + - * / in the forms r = x op y, interface destination, op=; the six comparisons as a
// value and as a branch condition; -x, x++, x--; float <-> float conversions; integer -> float
// (main stream: integers whose conversion through float64 is innocuous; region "int-float32-conv":
// integers on which the two roundings of reflect.Convert differ from Go's single rounding);
// float -> integer for values whose truncation fits the target.

type c02fGroup struct {
	Tag   string // name suffix of the Go function
	Coq   string // fckind
	K, KC string // operand kind / second kind (Go names)
	Decl  string // function declaration
	ATyp  string // element type of the operand arrays ("uint64" for bit patterns)
	Call  string // printable expression over a, b
	A, B  []uint64
	IntA  bool // A holds integer values of kind K (two's complement), not bit patterns
	ProgB bool // the program's only variable operand is B (A is a constant of the source text)
	Reg   []string
	Base  int
}

var c02fSpecial32 = []uint32{
	0x00000000, 0x80000000, 0x7f800000, 0xff800000, 0x7fc00000, 0x7fa00001, // +-0 +-inf NaN NaN(payload)
	0x00000001, 0x007fffff, 0x00800000, 0x7f7fffff, 0xff7fffff, 0x80000001, // subnormals, min normal, +-max
	0x3f800000, 0x3f800001, 0x3f7fffff, 0xbf800000, // 1, 1+ulp, 1-ulp/2, -1
	0x4b800000, 0x4b7fffff, 0x4b800001, // 2^24, 2^24-1, 2^24+2
	0x33800000, 0x33800001, 0x337fffff, // 2^-24 (half an ulp of 1) and its neighbours
	0x40400000, 0x3eaaaaab, 0x3dcccccd, 0x45800800, // 3, 1/3, 0.1, 4097
	0x7f000000, 0x00ffffff, // 2^127, a small normal with a full mantissa
}

var c02fSpecial64 = []uint64{
	0x0000000000000000, 0x8000000000000000, 0x7ff0000000000000, 0xfff0000000000000, 0x7ff8000000000000, 0x7ff4000000000001,
	0x0000000000000001, 0x000fffffffffffff, 0x0010000000000000, 0x7fefffffffffffff, 0xffefffffffffffff, 0x8000000000000001,
	0x3ff0000000000000, 0x3ff0000000000001, 0x3fefffffffffffff, 0xbff0000000000000,
	0x4340000000000000, 0x433fffffffffffff, 0x4340000000000001, // 2^53, 2^53-1, 2^53+2
	0x3ca0000000000000, 0x3ca0000000000001, 0x3c9fffffffffffff, // 2^-53 and neighbours
	0x4008000000000000, 0x3fd5555555555555, 0x3fb999999999999a, 0x41a0000002000000,
	0x7fe0000000000000, 0x001fffffffffffff,
	0x4170000010000000, 0x47efffffe0000000, 0x47effffff0000000, 0x36a0000000000000, 0x3690000000000000, // 16777217 (float32 midpoint), max float32, float32 overflow threshold, min float32 subnormal, half of it
}

func c02fKindCoq(k string) string {
	return "K" + strings.ToUpper(k[:1]) + k[1:]
}

func c02fCanon(k string, bits uint64) uint64 {
	if k == "float32" {
		if bits&0x7f800000 == 0x7f800000 && bits&0x007fffff != 0 {
			return 0x7fc00000
		}
		return bits
	}
	if bits&0x7ff0000000000000 == 0x7ff0000000000000 && bits&0x000fffffffffffff != 0 {
		return 0x7ff8000000000000
	}
	return bits
}

func c02fValues(k string, r *rng, nRandom int) []uint64 {
	var out []uint64
	if k == "float32" {
		for _, v := range c02fSpecial32 {
			out = append(out, uint64(v))
		}
		for i := 0; i < nRandom; i++ {
			out = append(out, r.next()&0xffffffff)
		}
		return out
	}
	out = append(out, c02fSpecial64...)
	for i := 0; i < nRandom; i++ {
		out = append(out, r.next())
	}
	return out
}

var c02fOpName = map[string]string{"+": "Add", "-": "Sub", "*": "Mul", "/": "Quo", "==": "Eq", "!=": "Ne", "<": "Lt", "<=": "Le", ">": "Gt", ">=": "Ge"}

func c02FloatStream(sm *summary, out string, tier string, seed uint64) error {
	t0 := time.Now()
	r := newRng(seed ^ 0xF10A7)
	var groups []*c02fGroup
	add := func(g *c02fGroup) { groups = append(groups, g) }
	scale := 1
	if tier == "thorough" {
		scale = 8
	}
	pairs := func(g *c02fGroup, xs, ys []uint64) {
		for _, x := range xs {
			for _, y := range ys {
				g.A, g.B, g.Reg = append(g.A, x), append(g.B, y), append(g.Reg, "")
			}
		}
	}
	randomPairs := func(g *c02fGroup, k string, n int) {
		mask := ^uint64(0)
		if k == "float32" {
			mask = 0xffffffff
		}
		for i := 0; i < n; i++ {
			x, y := r.next()&mask, r.next()&mask
			if i%3 == 0 { // nearby exponents: cancellation, midpoints
				if k == "float32" {
					y = (x &^ 0x007fffff) ^ (r.next() & 0x80ffffff)
				} else {
					y = (x &^ 0x000fffffffffffff) ^ (r.next() & 0x800fffffffffffff)
				}
			}
			g.A, g.B, g.Reg = append(g.A, x), append(g.B, y), append(g.Reg, "")
		}
	}
	for _, k := range []string{"float32", "float64"} {
		n := k[5:]
		// operands and results cross function boundaries as BITS: interpreted calls lose the sign of a
		// zero argument (known finding negzero-arg), which is not this stream's subject
		from := func(v, bits string) string {
			if k == "float32" {
				return v + " := math.Float32frombits(uint32(" + bits + "))"
			}
			return v + " := math.Float64frombits(" + bits + ")"
		}
		toBits := func(kk, v string) string {
			if kk == "float32" {
				return "uint64(math.Float32bits(" + v + "))"
			}
			return "math.Float64bits(" + v + ")"
		}
		xy := from("x", "a") + "; " + from("y", "b")
		all := c02fValues(k, r, 0)
		rot := func(cnt, salt int) []uint64 { // a seed-rotated subset of the special values
			var s []uint64
			for i := 0; i < cnt; i++ {
				s = append(s, all[(i*len(all)/cnt+int(seed)+salt)%len(all)])
			}
			return s
		}
		for oi, op := range []string{"+", "-", "*", "/"} {
			o := c02fOpName[op]
			g := &c02fGroup{Tag: o + n + "v", Coq: fmt.Sprintf("FCBin %s FVar", o), K: k, KC: k, ATyp: "uint64",
				Decl: fmt.Sprintf("func f_%s%sv(a, b uint64) uint64 { %s; r := x %s y; return %s }", o, n, xy, op, toBits(k, "r")),
				Call: fmt.Sprintf("f_%s%sv(a, b)", o, n)}
			if op == "-" && tier != "thorough" {
				pairs(g, rot(14, 1), rot(14, 2)) // x - y is x + (-y): the full square is taken for +
			} else {
				pairs(g, all, all)
			}
			randomPairs(g, k, 60*scale)
			add(g)
			g = &c02fGroup{Tag: o + n + "i", Coq: fmt.Sprintf("FCBin %s FIface", o), K: k, KC: k, ATyp: "uint64",
				Decl: fmt.Sprintf("func f_%s%si(a, b uint64) uint64 { %s; var r interface{} = x %s y; switch t := r.(type) { case float32: return uint64(math.Float32bits(t)); case float64: return math.Float64bits(t) }; return 12345 }", o, n, xy, op),
				Call: fmt.Sprintf("f_%s%si(a, b)", o, n)}
			pairs(g, rot(10, oi), rot(10, oi+3))
			randomPairs(g, k, 20*scale)
			add(g)
			g = &c02fGroup{Tag: o + n + "a", Coq: fmt.Sprintf("FCAsg %s FVar", o), K: k, KC: k, ATyp: "uint64",
				Decl: fmt.Sprintf("func f_%s%sa(a, b uint64) uint64 { %s; x %s= y; return %s }", o, n, xy, op, toBits(k, "x")),
				Call: fmt.Sprintf("f_%s%sa(a, b)", o, n)}
			pairs(g, rot(10, oi+5), rot(10, oi+7))
			randomPairs(g, k, 20*scale)
			add(g)
		}
		// constant operand on either side (rows FC1 / FC0): exact hexadecimal literals of the kind
		type kc struct {
			lit  string
			bits uint64
		}
		consts := []kc{{"0x1p+0", 0x3f800000}, {"0x1p-24", 0x33800000}, {"0x1.99999ap-4", 0x3dcccccd}, {"0x1.fffffep+127", 0x7f7fffff}, {"0x1p-149", 1}}
		if k == "float64" {
			consts = []kc{{"0x1p+0", 0x3ff0000000000000}, {"0x1p-53", 0x3ca0000000000000}, {"0x1.999999999999ap-4", 0x3fb999999999999a}, {"0x1.fffffffffffffp+1023", 0x7fefffffffffffff}, {"0x1p-1074", 1}}
		}
		for oi, op := range []string{"+", "-", "*", "/"} {
			o := c02fOpName[op]
			for ci := 0; ci < 3; ci++ {
				c := consts[(ci+oi+int(seed))%len(consts)]
				for _, left := range []bool{false, true} {
					form, expr, tag := "FC1", "x "+op+" "+c.lit, fmt.Sprintf("%s%sc%dr", o, n, ci)
					if left {
						form, expr, tag = "FC0", c.lit+" "+op+" x", fmt.Sprintf("%s%sc%dl", o, n, ci)
					}
					g := &c02fGroup{Tag: tag, Coq: fmt.Sprintf("FCBin %s %s", o, form), K: k, KC: k, ATyp: "uint64",
						Decl: fmt.Sprintf("func f_%s(a uint64) uint64 { %s; r := %s; return %s }", tag, from("x", "a"), expr, toBits(k, "r")),
						Call: fmt.Sprintf("f_%s(a)", tag), ProgB: left}
					for _, x := range c02fValues(k, r, 4*scale) {
						if left { // the constant is the first operand of the expression
							g.A, g.B, g.Reg = append(g.A, c.bits), append(g.B, x), append(g.Reg, "")
						} else {
							g.A, g.B, g.Reg = append(g.A, x), append(g.B, c.bits), append(g.Reg, "")
						}
					}
					add(g)
				}
			}
		}
		for oi, op := range []string{"==", "!=", "<", "<=", ">", ">="} {
			o := c02fOpName[op]
			g := &c02fGroup{Tag: o + n + "v", Coq: fmt.Sprintf("FCCmp %s FVar false", o), K: k, KC: k, ATyp: "uint64",
				Decl: fmt.Sprintf("func f_%s%sv(a, b uint64) bool { %s; r := x %s y; return r }", o, n, xy, op),
				Call: fmt.Sprintf("f_%s%sv(a, b)", o, n)}
			pairs(g, rot(12, oi), rot(12, oi+1))
			pairs(g, all[:6], all[:6])
			randomPairs(g, k, 10*scale)
			add(g)
			g = &c02fGroup{Tag: o + n + "b", Coq: fmt.Sprintf("FCCmp %s FVar true", o), K: k, KC: k, ATyp: "uint64",
				Decl: fmt.Sprintf("func f_%s%sb(a, b uint64) bool { %s; if x %s y { return true }; return false }", o, n, xy, op),
				Call: fmt.Sprintf("f_%s%sb(a, b)", o, n)}
			pairs(g, rot(12, oi+2), rot(12, oi+4))
			pairs(g, all[:6], all[:6])
			add(g)
		}
		un := func(tag, coq, body string) {
			g := &c02fGroup{Tag: tag + n, Coq: coq, K: k, KC: k, ATyp: "uint64",
				Decl: fmt.Sprintf("func f_%s%s(a uint64) uint64 { %s; %s }", tag, n, from("x", "a"), body),
				Call: fmt.Sprintf("f_%s%s(a)", tag, n)}
			for _, x := range c02fValues(k, r, 20*scale) {
				g.A, g.B, g.Reg = append(g.A, x), append(g.B, 0), append(g.Reg, "")
			}
			add(g)
		}
		un("neg", "FCUn Neg FVar", "r := -x; return "+toBits(k, "r"))
		un("inc", "FCIncDec true", "x++; return "+toBits(k, "x"))
		un("dec", "FCIncDec false", "x--; return "+toBits(k, "x"))
		// float -> float
		for _, kt := range []string{"float32", "float64"} {
			nt := kt[5:]
			g := &c02fGroup{Tag: "cv" + n + "to" + nt, Coq: "FCConvFF", K: k, KC: kt, ATyp: "uint64",
				Decl: fmt.Sprintf("func f_cv%sto%s(a uint64) uint64 { %s; r := %s(x); return %s }", n, nt, from("x", "a"), kt, toBits(kt, "r")),
				Call: fmt.Sprintf("f_cv%sto%s(a)", n, nt)}
			for _, x := range c02fValues(k, r, 40*scale) {
				g.A, g.B, g.Reg = append(g.A, x), append(g.B, 0), append(g.Reg, "")
			}
			add(g)
		}
		// integer -> float
		for _, ki := range []string{"int64", "uint64", "int32", "uint8", "int"} {
			g := &c02fGroup{Tag: "cv" + ki + "to" + n, Coq: "FCConvIF", K: ki, KC: k, ATyp: ki, IntA: true,
				Decl: fmt.Sprintf("func f_cv%sto%s(a %s) uint64 { r := %s(a); return %s }", ki, n, ki, k, toBits(k, "r")),
				Call: fmt.Sprintf("f_cv%sto%s(a)", ki, n)}
			var vals []uint64
			for _, v := range []int64{0, 1, -1, 2, 255, 16777216, 16777217, 16777219, -16777217, 1 << 31, math.MaxInt32, math.MinInt32,
				1<<53 + 1, 1<<53 + 3, 1<<60 + 1<<36 + 1, 1<<60 + 1<<36 - 1, -(1<<60 + 1<<36 + 1), 1<<62 + 1<<38 + 1, 1<<40 + 1<<16 + 1,
				math.MaxInt64, math.MinInt64, math.MaxInt64 - 512, 1<<63 - 1<<39 - 1} {
				vals = append(vals, uint64(v))
			}
			vals = append(vals, 1<<63, 1<<63+1<<39+1, math.MaxUint64, math.MaxUint64-1<<39)
			for i := 0; i < 40*scale; i++ {
				v := r.next()
				if i%2 == 0 { // 25..64 significant bits, a one planted just beyond the float32 precision
					sh := uint(r.intn(40))
					v = (1<<63 | 1<<39 | r.next()&0xffffffffff) >> sh
				}
				vals = append(vals, v)
			}
			seen := map[uint64]bool{}
			for _, v := range vals {
				// reduce to the kind
				var fv32 float32
				var via float32
				switch ki {
				case "int64", "int":
					fv32, via = float32(int64(v)), float32(float64(int64(v)))
				case "uint64":
					fv32, via = float32(v), float32(float64(v))
				case "int32":
					v = uint64(int64(int32(v)))
					fv32, via = float32(int32(v)), float32(float64(int32(v)))
				case "uint8":
					v = uint64(uint8(v))
					fv32, via = float32(uint8(v)), float32(float64(uint8(v)))
				}
				if seen[v] {
					continue
				}
				seen[v] = true
				reg := ""
				if k == "float32" && fv32 != via {
					reg = "int-float32-conv"
				}
				g.A, g.B, g.Reg = append(g.A, v), append(g.B, 0), append(g.Reg, reg)
			}
			add(g)
		}
		// float -> integer, truncation fits the target
		type rng2 struct {
			name   string
			lo, hi float64 // open interval of admissible values
		}
		for _, t := range []rng2{{"int8", -129, 128}, {"uint8", -1, 256}, {"int32", -2147483649, 2147483648}, {"uint32", -1, 4294967296},
			{"int64", -9223372036854777856, 9223372036854775808}, {"uint64", -1, 18446744073709551616}, {"int", -9223372036854777856, 9223372036854775808}} {
			pr := "int64"
			if t.name[0] == 'u' {
				pr = "uint64"
			}
			g := &c02fGroup{Tag: "cv" + n + "to" + t.name, Coq: "FCConvFI", K: k, KC: t.name, ATyp: "uint64",
				Decl: fmt.Sprintf("func f_cv%sto%s(a uint64) %s { %s; r := %s(x); return %s(r) }", n, t.name, pr, from("x", "a"), t.name, pr),
				Call: fmt.Sprintf("f_cv%sto%s(a)", n, t.name)}
			var cands []float64
			for _, f := range []float64{0, math.Copysign(0, -1), 0.5, -0.5, 0.999999, 1, -1, 3.7, -3.7, 127.9, -128.9, 255.5, 2147483647.5, -2147483648.9, 4294967295.9,
				16777216, 16777217, 1e10, -1e10, 1 << 62, 9223372036854774784, -9223372036854775808, 18446744073709549568, 5e-324, 1 << 53} {
				cands = append(cands, f)
			}
			for i := 0; i < 30*scale; i++ {
				e := r.intn(70) - 4
				cands = append(cands, math.Ldexp(float64(r.next()>>11)/(1<<53)+0.5, e)*float64(1-2*r.intn(2)))
			}
			for _, f := range cands {
				var bits uint64
				if k == "float32" {
					f = float64(float32(f))
					bits = uint64(math.Float32bits(float32(f)))
				} else {
					bits = math.Float64bits(f)
				}
				if !(f > t.lo && f < t.hi) {
					continue
				}
				g.A, g.B, g.Reg = append(g.A, bits), append(g.B, 0), append(g.Reg, "")
			}
			add(g)
		}
	}

	// ---- program
	var src strings.Builder
	src.WriteString("package main\n\nimport (\n\t\"fmt\"\n\t\"math\"\n)\n\n")
	id := 50000000
	total := 0
	for _, g := range groups {
		g.Base = id
		id += len(g.A)
		total += len(g.A)
		src.WriteString(g.Decl + "\n")
		lit := func(name string, vs []uint64, typ string) {
			items := make([]string, len(vs))
			for i, v := range vs {
				if typ[0] == 'i' {
					items[i] = strconv.FormatInt(int64(v), 10)
				} else {
					items[i] = strconv.FormatUint(v, 10)
				}
			}
			fmt.Fprintf(&src, "var %s_%s = []%s{%s}\n", name, g.Tag, typ, strings.Join(items, ", "))
		}
		if g.ProgB {
			lit("A", g.B, g.ATyp)
		} else {
			lit("A", g.A, g.ATyp)
		}
		if strings.Contains(g.Call, ", b)") {
			lit("B", g.B, "uint64")
		}
	}
	src.WriteString("\nfunc main() {\n")
	for _, g := range groups {
		fmt.Fprintf(&src, "\tfor i, a := range A_%s {\n", g.Tag)
		if strings.Contains(g.Call, ", b)") {
			fmt.Fprintf(&src, "\t\tb := B_%s[i]\n", g.Tag)
		}
		fmt.Fprintf(&src, "\t\tfmt.Println(%d+i, %s)\n\t}\n", g.Base, g.Call)
	}
	src.WriteString("}\n")
	prog := src.String()

	tY := time.Now()
	impl := runYaegiChild(prog, 300*time.Second)
	yDur := time.Since(tY)
	tR := time.Now()
	refs, err := goRefBatch([]goProg{{Name: "c02float", Files: map[string]string{"main.go": prog}}}, 300*time.Second, false)
	if err != nil {
		return err
	}
	ref := refs["c02float"]
	if ref.End != "ok" {
		os.WriteFile(filepath.Join(out, "c02float_failed.go"), []byte(prog), 0o644)
		return fmt.Errorf("c02 float stream: the reference program did not run: %s", ref.End)
	}
	parse := func(o string) map[int]string {
		m := map[int]string{}
		for _, l := range strings.Split(o, "\n") {
			f := strings.Fields(l)
			if len(f) == 2 {
				if i, err := strconv.Atoi(f[0]); err == nil {
					m[i] = f[1]
				}
			}
		}
		return m
	}
	it, rt := parse(impl.Stdout), parse(ref.Stdout)
	if impl.End != "ok" {
		sm.HarnessViolations = append(sm.HarnessViolations, refMismatch{ID: 50000000, Region: "", Input: "C02 float stream program", Impl: impl.End, Ref: "ok"})
	}

	// ---- cases
	obs := func(g *c02fGroup, tok string, okTok bool) (coq string, canon string) {
		if !okTok {
			return "FOOther", "MISSING"
		}
		switch {
		case tok == "true" || tok == "false":
			return "(FO (FBool " + tok + "))", tok
		case g.Coq == "FCConvFI":
			if strings.HasPrefix(tok, "-") {
				return "(FO (FBits (" + tok + ")))", tok
			}
			return "(FO (FBits " + tok + "))", tok
		}
		u, err := strconv.ParseUint(tok, 10, 64)
		if err != nil {
			return "FOOther", tok
		}
		u = c02fCanon(g.KC, u)
		s := strconv.FormatUint(u, 10)
		return "(FO (FBits " + s + "))", s
	}
	var cases []string
	for _, g := range groups {
		sm.count("float_group:" + g.Coq)
		for i := range g.A {
			cid := g.Base + i
			sm.Evaluations++
			sm.RefComparisons++
			sm.count("float_stream")
			iv, iok := it[cid]
			rv, rok := rt[cid]
			if !rok {
				return fmt.Errorf("c02 float stream: the reference printed nothing for case %d (generator defect)", cid)
			}
			ic, icanon := obs(g, iv, iok)
			rc, rcanon := obs(g, rv, rok)
			a := strconv.FormatUint(g.A[i], 10)
			if g.IntA && g.ATyp[0] == 'i' && int64(g.A[i]) < 0 {
				a = "(" + strconv.FormatInt(int64(g.A[i]), 10) + ")"
			}
			cases = append(cases, fmt.Sprintf("(%d%%N, %s, %s, %s, %s, %d, %s, %s)", cid, g.Coq, c02fKindCoq(g.K), c02fKindCoq(g.KC), a, g.B[i], ic, rc))
			desc := map[string]any{"stream": "float", "form": g.Coq, "kind": g.K, "kind2": g.KC, "go": g.Decl,
				"a": fmt.Sprintf("%#x", g.A[i]), "b": fmt.Sprintf("%#x", g.B[i]), "region": g.Reg[i]}
			if g.Reg[i] != "" {
				sm.count("region:" + g.Reg[i])
			}
			if icanon != rcanon {
				sm.count("mismatch:" + g.Reg[i])
				sm.CaseIndex[fmt.Sprint(cid)] = desc
				sm.RefMismatches = append(sm.RefMismatches, refMismatch{ID: cid, Region: g.Reg[i], Input: desc, Impl: icanon, Ref: rcanon})
			} else if i%97 == 0 {
				sm.CaseIndex[fmt.Sprint(cid)] = desc
			}
		}
	}
	hdr := "From Coq Require Import ZArith List String.\nFrom Verif Require Import Num.OpDsl Num.FloatModel Num.FloatCases.\nImport ListNotations.\nOpen Scope Z_scope.\n"
	per := (len(cases) + 15) / 16
	if per < 100 {
		per = 100
	}
	for i, k := 0, 0; i < len(cases); i, k = i+per, k+1 {
		j := i + per
		if j > len(cases) {
			j = len(cases)
		}
		name := fmt.Sprintf("cases_float_%d.v", k)
		body := fmt.Sprintf("Definition cases : list float_case := [\n%s\n].\nDefinition MY := Eval vm_compute in float_mis_y cases.\nPrint MY.\nDefinition MG := Eval vm_compute in float_mis_g cases.\nPrint MG.\n",
			strings.Join(cases[i:j], ";\n"))
		sm.CasesFiles = append(sm.CasesFiles, name)
		if err := os.WriteFile(filepath.Join(out, name), []byte(hdr+body), 0o644); err != nil {
			return err
		}
	}
	sm.ImplComparisons += len(cases)
	sm.Notes = append(sm.Notes, fmt.Sprintf("float stream with a Coq denotation: %d (form, kind, operand bit patterns) cases in %d groups, observed on yaegi (%.1fs) and on compiled Go (%.1fs), evaluated in Coq against Y_float and G_float (Flocq); total %.1fs",
		total, len(groups), yDur.Seconds(), time.Since(tR).Seconds(), time.Since(t0).Seconds()))
	return nil
}
