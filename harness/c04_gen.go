package main

import "fmt"

// Seeded, state-aware generator of C04 histories (DESIGN.md Appendix D.2).  Every operation is
// generated against the current state of the reference interpreter and dry-run on a clone before
// it is accepted, so that indices, slice bounds, nil-ness and map writes are valid; a small share
// of histories ends with a deliberate run-time panic.

type c04scopeVar struct {
	id int
	t  *c04ty
}

type c04gen struct {
	r       *rng
	st      *c04state
	scope   []c04scopeVar
	nextTmp int
	fns     []*c04fn
	mode    string // "" = main stream, otherwise the region the stream aims at
	stats   map[string]int
	// region bookkeeping
	regionHit bool
	sugarOK   bool // this history may contain operations outside the Coq grammar
}

// ---------------------------------------------------------------- safe evaluation against the current state

func (g *c04gen) tryRv(e *c04ex) (v *c04val, ok bool) {
	defer func() {
		if r := recover(); r != nil {
			if _, is := r.(c04panic); is {
				ok = false
				return
			}
			panic(r)
		}
	}()
	return g.st.evalRv(e), true
}

func (g *c04gen) tryLv(e *c04ex) (ok bool) {
	defer func() {
		if r := recover(); r != nil {
			if _, is := r.(c04panic); is {
				ok = false
				return
			}
			panic(r)
		}
	}()
	t := g.st.evalLv(e)
	if !t.IsMap {
		g.st.read(t.P)
	}
	return true
}

// ---------------------------------------------------------------- l-values by type

func (g *c04gen) varsOf(t *c04ty) []*c04ex {
	var out []*c04ex
	for _, v := range g.scope {
		if v.t == t {
			out = append(out, c04Var(v.id, t))
		}
	}
	return out
}

// index expression valid for a sequence of n elements (n > 0)
func (g *c04gen) indexFor(n int) *c04ex {
	if g.r.chance(25) {
		for _, id := range []int{9, 10} {
			iv := g.st.read(c04path{L: g.st.lookup(id)})
			if iv.Z >= 0 && int(iv.Z) < n && g.r.bool() {
				return c04Load(c04Var(id, c04TInt))
			}
			if iv.Z+1 >= 0 && int(iv.Z)+1 < n && g.r.chance(20) {
				return c04Add(c04Load(c04Var(id, c04TInt)), c04IntLit(1))
			}
		}
	}
	return c04IntLit(int64(g.r.intn(n)))
}

// an S-typed l-value
func (g *c04gen) lvS(d int) *c04ex {
	for try := 0; try < 8; try++ {
		var e *c04ex
		switch c := g.r.intn(12); {
		case c < 2:
			e = c04Var(1, c04TS)
		case c < 5:
			e = c04Idx(c04Var(0, c04TA3S), g.indexFor(3))
		case c < 7:
			slv, _ := g.tryRv(c04Load(c04Var(2, c04TLS)))
			if slv == nil || slv.Len == 0 {
				continue
			}
			e = c04SIdx(c04Load(c04Var(2, c04TLS)), g.indexFor(slv.Len))
		case c < 9:
			e = c04Deref(c04Load(c04Var(5, c04TPS)))
			e.Star = g.r.chance(30)
		case c < 10:
			b := c04Deref(c04Load(c04Var(6, c04TPA)))
			b.Star = g.r.chance(20)
			e = c04Idx(b, g.indexFor(3))
		case c < 11:
			if d <= 0 {
				continue
			}
			e = c04Deref(c04Load(c04Fld(g.lvS(d-1), 4)))
		default:
			vs := g.varsOf(c04TS)
			e = vs[g.r.intn(len(vs))]
		}
		if g.tryLv(e) {
			return e
		}
	}
	return c04Var(1, c04TS)
}

func (g *c04gen) lvOf(t *c04ty, d int) *c04ex {
	if t == c04TS {
		return g.lvS(d)
	}
	for try := 0; try < 8; try++ {
		var e *c04ex
		pickVar := func() *c04ex {
			vs := g.varsOf(t)
			if len(vs) == 0 {
				return nil
			}
			return vs[g.r.intn(len(vs))]
		}
		// element of a slice-typed r-value
		sidx := func(b *c04ex) *c04ex {
			bv, ok := g.tryRv(b)
			if !ok || bv.Len == 0 {
				return nil
			}
			return c04SIdx(b, g.indexFor(bv.Len))
		}
		switch t {
		case c04TInt:
			switch c := g.r.intn(14); {
			case c < 2:
				e = pickVar()
			case c < 5:
				e = c04Fld(g.lvS(d-1), 0)
			case c < 7:
				e = c04Idx(c04Fld(g.lvS(d-1), 1), g.indexFor(2))
			case c < 8:
				e = sidx(c04Load(c04Fld(g.lvS(d-1), 2)))
			case c < 10:
				e = c04Idx(c04Var(7, c04TA4), g.indexFor(4))
			case c < 12:
				e = sidx(c04Load(c04Var(8, c04TLI)))
			default:
				row := sidx(c04Load(c04Var(3, c04TLL)))
				if row != nil {
					e = sidx(c04Load(row))
				}
			}
		case c04TA2:
			if g.r.chance(80) {
				e = c04Fld(g.lvS(d-1), 1)
			} else {
				e = pickVar()
			}
		case c04TA3S:
			switch c := g.r.intn(10); {
			case c < 6:
				e = c04Var(0, t)
			case c < 8:
				e = c04Deref(c04Load(c04Var(6, c04TPA)))
			default:
				e = pickVar()
			}
		case c04TLI:
			switch c := g.r.intn(10); {
			case c < 3:
				e = c04Fld(g.lvS(d-1), 2)
			case c < 6:
				e = c04Var(8, t)
			case c < 8:
				e = sidx(c04Load(c04Var(3, c04TLL)))
			default:
				e = pickVar()
			}
		case c04TMI:
			if g.r.chance(85) {
				e = c04Fld(g.lvS(d-1), 3)
			} else {
				e = pickVar()
			}
		case c04TAny:
			switch c := g.r.intn(10); {
			case c < 2:
				e = c04Var(15, t)
			case c < 5:
				e = c04Idx(c04Var(12, c04TA3E), g.indexFor(3))
			case c < 7:
				e = sidx(c04Load(c04Var(13, c04TLE)))
			case c < 9:
				e = c04Fld(g.lvS(d-1), 5)
			default:
				e = pickVar()
			}
		case c04TPS:
			switch c := g.r.intn(10); {
			case c < 5:
				e = c04Var(5, t)
			case c < 8:
				e = c04Fld(g.lvS(d-1), 4)
			default:
				e = pickVar()
			}
		default:
			e = pickVar()
		}
		if e != nil && g.tryLv(e) {
			return e
		}
	}
	// fallbacks that are always valid
	switch t {
	case c04TInt:
		return c04Var(9, t)
	case c04TA2:
		return c04Fld(c04Var(1, c04TS), 1)
	case c04TLI:
		return c04Var(8, t)
	case c04TMI:
		return c04Fld(c04Var(1, c04TS), 3)
	case c04TPS:
		return c04Var(5, t)
	case c04TAny:
		return c04Var(15, t)
	}
	vs := g.varsOf(t)
	return vs[0]
}

// ---------------------------------------------------------------- r-values by type

func (g *c04gen) smallInt() int64 { return int64(g.r.intn(90) + 1) }

func (g *c04gen) keyRv() *c04ex {
	if g.r.chance(15) {
		return c04Load(c04Var(11, c04TKey))
	}
	return c04KeyLit(int64(g.r.intn(4)))
}

func (g *c04gen) litOf(t *c04ty, d int) *c04ex {
	switch t.k {
	case c04Int:
		return c04IntLit(g.smallInt())
	case c04Key:
		return c04KeyLit(int64(g.r.intn(4)))
	case c04Struct:
		fs := make([]*c04ex, t.n)
		for i, ft := range c04FieldTypes[:t.n] {
			if g.r.chance(45) || d <= 0 {
				fs[i] = g.zeroEx(ft)
			} else {
				fs[i] = g.rvOf(ft, d-1)
			}
		}
		if fs[0].K == "int" && fs[0].Z == 0 {
			fs[0] = c04IntLit(g.smallInt())
		}
		return c04Lit(t, fs)
	case c04Arr:
		fs := make([]*c04ex, t.n)
		for i := range fs {
			if t.elem.k == c04Int || d <= 0 {
				fs[i] = g.litOf(t.elem, 0)
			} else {
				fs[i] = g.rvOf(t.elem, d-1)
			}
		}
		return c04Lit(t, fs)
	}
	return c04Nil(t)
}

// the zero value as an expression
func (g *c04gen) zeroEx(t *c04ty) *c04ex {
	switch t.k {
	case c04Int:
		return c04IntLit(0)
	case c04Key:
		return c04KeyLit(0)
	case c04Struct:
		fs := make([]*c04ex, t.n)
		for i, ft := range c04FieldTypes[:t.n] {
			fs[i] = g.zeroEx(ft)
		}
		return c04Lit(t, fs)
	case c04Arr:
		fs := make([]*c04ex, t.n)
		for i := range fs {
			fs[i] = g.zeroEx(t.elem)
		}
		return c04Lit(t, fs)
	}
	return c04Nil(t)
}

// a sliceable operand producing a slice of type t, with its (len, cap) in the current state
func (g *c04gen) sliceBase(t *c04ty, d int) (*c04ex, int, int) {
	for try := 0; try < 6; try++ {
		var b *c04ex
		switch {
		case g.r.chance(45):
			b = c04Load(g.lvOf(t, d-1))
		case t == c04TLI:
			if g.r.bool() {
				b = c04Addr(c04Var(7, c04TA4))
			} else {
				b = c04Addr(c04Fld(g.lvS(d-1), 1))
			}
		case t == c04TLE:
			b = c04Addr(c04Var(12, c04TA3E))
		case t == c04TLS:
			if g.r.chance(70) {
				b = c04Addr(c04Var(0, c04TA3S))
			} else {
				b = c04Load(c04Var(6, c04TPA))
			}
		default:
			b = c04Load(g.lvOf(t, d-1))
		}
		v, ok := g.tryRv(b)
		if !ok || (b.T.k == c04Ptr && v.K != 'p') {
			continue
		}
		if ok2, ln, cp := g.lenCap(b); ok2 {
			return b, ln, cp
		}
	}
	b := c04Load(g.lvOf(t, 0))
	v, _ := g.tryRv(b)
	return b, v.Len, v.Cap
}

func (g *c04gen) sliceExpr(t *c04ty, d int) *c04ex {
	b, _, cp := g.sliceBase(t, d)
	lo := g.r.intn(cp + 1)
	hi := lo + g.r.intn(cp-lo+1)
	var loE, hiE, mxE *c04ex
	if lo > 0 || g.r.chance(30) {
		loE = c04IntLit(int64(lo))
	} else {
		lo = 0
	}
	hiE = c04IntLit(int64(hi))
	if g.r.chance(35) {
		mx := hi + g.r.intn(cp-hi+1)
		mxE = c04IntLit(int64(mx))
	}
	if mxE == nil && g.r.chance(15) {
		// open upper bound: hi = len
		if _, ln, _ := g.lenCap(b); ln >= lo {
			hiE = nil
		}
	}
	return c04SliceEx(b, loE, hiE, mxE)
}

func (g *c04gen) lenCap(b *c04ex) (ok bool, ln, cp int) {
	v, ok2 := g.tryRv(b)
	if !ok2 {
		return false, 0, 0
	}
	defer func() {
		if r := recover(); r != nil {
			ok = false
		}
	}()
	_, _, ln, cp = g.st.sliceOf(v)
	return true, ln, cp
}

// an r-value that is not the untyped nil (operands of range, copy, append need a typed expression)
func (g *c04gen) rvNonNil(t *c04ty, d int) *c04ex {
	for {
		if e := g.rvOf(t, d); e.K != "nil" {
			return e
		}
	}
}

func (g *c04gen) rvOf(t *c04ty, d int) *c04ex {
	if d <= 0 || g.r.chance(50) {
		if t.k == c04Int && g.r.chance(40) {
			return c04IntLit(g.smallInt())
		}
		if t.k == c04Key && g.r.chance(60) {
			return c04KeyLit(int64(g.r.intn(4)))
		}
		return c04Load(g.lvOf(t, d))
	}
	if tag := c04TagOf(t); tag >= 0 && g.r.chance(12) {
		// type assertion on an interface value that holds this dynamic type now
		for try := 0; try < 4; try++ {
			l := c04Load(g.lvOf(c04TAny, 1))
			if v, ok := g.tryRv(l); ok && v.K == 'b' && v.Tag == tag {
				return c04Unbox(l, t)
			}
		}
	}
	switch t.k {
	case c04Any:
		switch c := g.r.intn(20); {
		case c < 4:
			return c04Load(g.lvOf(t, d-1))
		case c < 6:
			return c04Nil(t)
		case c < 8:
			return c04MapGet(c04Load(c04Var(14, c04TME)), g.keyRv())
		default:
			bt := c04BoxTypes[g.r.intn(5)]
			for {
				if x := g.rvOf(bt, d-1); x.K != "nil" {
					return c04Box(x)
				}
			}
		}
	case c04Int:
		switch c := g.r.intn(10); {
		case c < 3:
			return c04Add(c04Load(g.lvOf(t, d-1)), c04IntLit(g.smallInt()))
		case c < 5:
			return c04Len(c04Load(g.lvOf(c04TLI, d-1)))
		case c < 6:
			return c04Cap(c04Load(g.lvOf(c04TLI, d-1)))
		case c < 8:
			return c04MapGet(c04Load(g.lvOf(c04TMI, d-1)), g.keyRv())
		default:
			return c04IntLit(g.smallInt())
		}
	case c04Key:
		return g.keyRv()
	case c04Struct:
		if g.r.chance(30) {
			return c04MapGet(c04Load(c04Var(4, c04TMS)), g.keyRv())
		}
		return g.litOf(t, d-1)
	case c04Arr:
		return g.litOf(t, d-1)
	case c04Slice:
		if g.r.chance(15) {
			return c04Nil(t)
		}
		return g.sliceExpr(t, d)
	case c04Map:
		if g.r.chance(25) {
			return c04Nil(t)
		}
		return c04Load(g.lvOf(t, d-1))
	case c04Ptr:
		if g.r.chance(12) {
			return c04Nil(t)
		}
		return c04Addr(g.lvOf(t.elem, d-1))
	}
	return c04Load(g.lvOf(t, d))
}

// right-hand sides (allocating forms only at the top)
func (g *c04gen) rhsOf(t *c04ty, d int) *c04rhs {
	switch t.k {
	case c04Slice:
		switch c := g.r.intn(10); {
		case c < 4: // append
			var base *c04ex
			if g.r.chance(60) {
				base = c04Load(g.lvOf(t, d-1))
			} else {
				base = g.sliceExpr(t, d-1)
			}
			if g.r.chance(25) {
				// append(base, src...)
				return &c04rhs{K: "appendslice", T: t, E: base, E2: g.rvNonNil(t, d-1)}
			}
			n := 1 + g.r.intn(2)
			if g.r.chance(10) {
				n = 0
			}
			var es []*c04ex
			for i := 0; i < n; i++ {
				es = append(es, g.rvOf(t.elem, d-1))
			}
			return &c04rhs{K: "append", T: t, E: base, L: es}
		case c < 5:
			n := g.r.intn(4)
			var es []*c04ex
			for i := 0; i < n; i++ {
				es = append(es, g.rvOf(t.elem, d-1))
			}
			return &c04rhs{K: "slicelit", T: t, L: es}
		case c < 6:
			n := g.r.intn(4)
			c2 := n + g.r.intn(3)
			return &c04rhs{K: "make", T: t, E: c04IntLit(int64(n)), E2: c04IntLit(int64(c2))}
		}
	case c04Map:
		if g.r.chance(45) {
			r := &c04rhs{K: "maplit", T: t}
			if g.r.chance(30) {
				r.Form = "make"
				return r
			}
			perm := []int64{0, 1, 2, 3}
			for i := range perm {
				j := i + g.r.intn(4-i)
				perm[i], perm[j] = perm[j], perm[i]
			}
			n := g.r.intn(3)
			for i := 0; i < n; i++ {
				r.L = append(r.L, c04KeyLit(perm[i]))
				r.L2 = append(r.L2, g.rvOf(t.elem, d-1))
			}
			return r
		}
	case c04Ptr:
		if t == c04TPS && g.r.chance(25) {
			if g.r.chance(25) {
				return &c04rhs{K: "new", T: t, E: g.zeroEx(c04TS), Form: "new"}
			}
			return &c04rhs{K: "new", T: t, E: g.litOf(c04TS, d-1)}
		}
	}
	return c04Pure(g.rvOf(t, d))
}

// ---------------------------------------------------------------- operations

func (g *c04gen) freshVar() int {
	g.nextTmp++
	return g.nextTmp
}

// weights of the types picked as the type of an assignment
func (g *c04gen) pickType() *c04ty {
	w := []struct {
		t *c04ty
		w int
	}{{c04TS, 22}, {c04TInt, 14}, {c04TA3S, 7}, {c04TA2, 6}, {c04TA4, 5}, {c04TLI, 12}, {c04TLS, 8}, {c04TLL, 4}, {c04TMI, 6}, {c04TMS, 4}, {c04TPS, 9}, {c04TPA, 3}, {c04TKey, 1}, {c04TAny, 11}, {c04TA3E, 5}, {c04TLE, 8}, {c04TME, 3}}
	tot := 0
	for _, x := range w {
		tot += x.w
	}
	n := g.r.intn(tot)
	for _, x := range w {
		if n < x.w {
			return x.t
		}
		n -= x.w
	}
	return c04TInt
}

func c04IsCompositeLit(e *c04ex) bool { return e.K == "struct" || e.K == "arr" }
func c04IsCallLike(e *c04ex) bool    { return e.K == "len" || e.K == "cap" }

// candidate operation (may still be invalid in the current state: the caller dry-runs it)
func (g *c04gen) candidate(depth int) *c04op {
	c := g.r.intn(100)
	switch {
	case c < 30: // assignment of same-typed values
		t := g.pickType()
		l := g.lvOf(t, 2)
		rhs := g.rhsOf(t, 2)
		o := &c04op{K: "assign", Lv: l, Rhs: rhs}
		if t == c04TInt && rhs.K == "pure" && g.r.chance(30) {
			// l++ / l += c
			if g.r.bool() {
				o.Rhs = c04Pure(c04Add(c04Load(l), c04IntLit(1)))
				o.Sugar = "inc"
			} else {
				o.Rhs = c04Pure(c04Add(c04Load(l), c04IntLit(g.smallInt())))
				o.Sugar = "addassign"
			}
		}
		return o
	case c < 36: // field / element update with a constant
		l := g.lvOf(c04TInt, 3)
		return &c04op{K: "assign", Lv: l, Rhs: c04Pure(c04IntLit(g.smallInt()))}
	case c < 42: // map entry write
		if g.r.chance(25) {
			return &c04op{K: "assign", Lv: c04MapL(c04Load(c04Var(14, c04TME)), g.keyRv()), Rhs: c04Pure(g.rvOf(c04TAny, 2))}
		}
		if g.r.chance(40) {
			return &c04op{K: "assign", Lv: c04MapL(c04Load(c04Var(4, c04TMS)), g.keyRv()), Rhs: c04Pure(g.rvOf(c04TS, 2))}
		}
		return &c04op{K: "assign", Lv: c04MapL(c04Load(g.lvOf(c04TMI, 1)), g.keyRv()), Rhs: c04Pure(g.rvOf(c04TInt, 1))}
	case c < 45: // delete
		if g.r.chance(25) {
			return &c04op{K: "mapdel", A: c04Load(c04Var(14, c04TME)), B: g.keyRv()}
		}
		if g.r.bool() {
			return &c04op{K: "mapdel", A: c04Load(c04Var(4, c04TMS)), B: g.keyRv()}
		}
		return &c04op{K: "mapdel", A: c04Load(g.lvOf(c04TMI, 1)), B: g.keyRv()}
	case c < 51: // copy
		t := []*c04ty{c04TLI, c04TLI, c04TLS, c04TLE}[g.r.intn(4)]
		return &c04op{K: "copy", A: g.rvNonNil(t, 2), B: g.rvNonNil(t, 2)}
	case c < 61: // tuple assignment
		return g.multi()
	case c < 68: // define
		t := g.pickType()
		x := g.freshVar()
		o := &c04op{K: "define", X: x, Rhs: g.rhsOf(t, 2)}
		if t == c04TAny {
			// x := e infers interface{} only from an interface-typed operand
			o.Rhs = c04Pure(c04Load(g.lvOf(t, 2)))
		}
		if o.Rhs.K == "pure" && o.Rhs.E.K == "nil" {
			o.Sugar = "var"
		}
		return o
	case c < 78: // call
		return g.call()
	case c < 86 && depth > 0: // range
		return g.rangeOp(depth)
	case c < 89 && depth == 2 && g.sugarOK: // constructs outside the Coq grammar, with the core operations they must equal
		return g.sugar()
	default: // pointers
		switch g.r.intn(6) {
		case 0:
			return &c04op{K: "assign", Lv: c04Var(5, c04TPS), Rhs: c04Pure(c04Addr(g.lvS(1)))}
		case 1:
			return &c04op{K: "assign", Lv: c04Fld(g.lvS(1), 4), Rhs: c04Pure(c04Addr(g.lvS(1)))}
		case 2:
			return &c04op{K: "assign", Lv: c04Deref(c04Load(g.lvOf(c04TPS, 1))), Rhs: c04Pure(g.rvOf(c04TS, 2))}
		case 3:
			return &c04op{K: "assign", Lv: c04Var(6, c04TPA), Rhs: c04Pure(c04Addr(c04Var(0, c04TA3S)))}
		case 4:
			return &c04op{K: "assign", Lv: c04Fld(c04Idx(c04Deref(c04Load(c04Var(6, c04TPA))), g.indexFor(3)), 0), Rhs: c04Pure(c04IntLit(g.smallInt()))}
		default:
			return &c04op{K: "assign", Lv: c04Fld(c04Deref(c04Load(c04Var(5, c04TPS))), 4), Rhs: c04Pure(c04Load(c04Var(5, c04TPS)))}
		}
	}
}

func (g *c04gen) multi() *c04op {
	n := 2
	if g.r.chance(25) {
		n = 3
	}
	o := &c04op{K: "multi"}
	if g.r.chance(45) {
		// swap of two same-typed l-values
		t := g.pickType()
		for t.k == c04Key {
			t = g.pickType()
		}
		l1, l2 := g.lvOf(t, 2), g.lvOf(t, 2)
		if g.r.chance(35) {
			// swap through a pointer: the operand is a pointee (*p, *x.P, *q)
			pt := c04TPS
			if g.r.chance(25) {
				pt = c04TPA
			}
			d := c04Deref(c04Load(g.lvOf(pt, 1)))
			d.Star = true
			if g.tryLv(d) {
				t = pt.elem
				l1, l2 = g.lvOf(t, 2), d
				if g.r.bool() {
					l1, l2 = l2, l1
				}
			}
		}
		o.Lvs = []*c04ex{l1, l2}
		o.Rvs = []*c04ex{c04Load(l2), c04Load(l1)}
		return o
	}
	if g.r.chance(40) {
		// index variable and an element selected by it
		iv := c04Var(9+g.r.intn(2), c04TInt)
		el := c04Idx(c04Var(7, c04TA4), c04Load(iv))
		a, b := c04IntLit(int64(g.r.intn(4))), c04IntLit(g.smallInt())
		if g.r.bool() {
			o.Lvs, o.Rvs = []*c04ex{iv, el}, []*c04ex{a, b}
		} else {
			o.Lvs, o.Rvs = []*c04ex{el, iv}, []*c04ex{b, a}
		}
		return o
	}
	for i := 0; i < n; i++ {
		t := g.pickType()
		o.Lvs = append(o.Lvs, g.lvOf(t, 2))
		o.Rvs = append(o.Rvs, g.rvOf(t, 2))
	}
	return o
}

func (g *c04gen) call() *c04op {
	f := g.fns[g.r.intn(len(g.fns))]
	o := &c04op{K: "call", Fn: f}
	for _, pt := range f.PTypes {
		o.Rvs = append(o.Rvs, g.rvOf(pt, 2))
	}
	if f.RetT != nil && g.r.chance(85) {
		// Go leaves the order between the call and the pointer indirections / slice headers read by
		// the destination unspecified: the destination must not depend on what a callee can write
		for try := 0; try < 10 && o.Lv == nil; try++ {
			if l := g.lvOf(f.RetT, 2); c04Stable(l) {
				o.Lv = l
			}
		}
	}
	return o
}

// c04Stable: the l-value is a variable, or fields / constant or variable indices of one.
func c04Stable(e *c04ex) bool {
	switch e.K {
	case "var":
		return true
	case "fld":
		return c04Stable(e.A)
	case "idx":
		return c04Stable(e.A) && (e.B.K == "int" || (e.B.K == "load" && e.B.A.K == "var"))
	}
	return false
}

func (g *c04gen) rangeOp(depth int) *c04op {
	o := &c04op{K: "range"}
	var et *c04ty
	// L: the ranged l-value when the operand is a plain read of one. Its shapes come from lvOf:
	// variable, field, element, pointee, element of a field, field of an element ...
	var L *c04ex
	arrT := []*c04ty{c04TA3S, c04TA4, c04TA2, c04TA3E}
	sliceT := []*c04ty{c04TLS, c04TLI, c04TLI, c04TLL, c04TLE, c04TLE}
	c := g.r.intn(20)
	if c >= 18 && depth < 2 {
		c = g.r.intn(18)
	}
	switch {
	case c < 8: // array value: the loop works on a copy
		t := arrT[g.r.intn(len(arrT))]
		L = g.lvOf(t, 2)
		o.RK, o.A, et = "arr", c04Load(L), t.elem
	case c < 18: // slice: length and backing array fixed at loop entry
		t := sliceT[g.r.intn(len(sliceT))]
		if g.r.chance(75) {
			L = g.lvOf(t, 2)
			o.RK, o.A, et = "slice", c04Load(L), t.elem
		} else {
			o.RK, o.A, et = "slice", g.rvNonNil(t, 1), t.elem
		}
	default: // pointer to array
		// (range over a pointer to an array held in a variable, or inside a loop, is finding range-ptr-array)
		switch g.r.intn(4) {
		case 0:
			o.RK, o.A, et = "ptr", c04Addr(c04Var(0, c04TA3S)), c04TS
		case 1:
			o.RK, o.A, et = "ptr", c04Addr(c04Var(7, c04TA4)), c04TInt
		case 2:
			o.RK, o.A, et = "ptr", c04Addr(c04Var(12, c04TA3E)), c04TAny
		default:
			o.RK, o.A, et = "ptr", c04Addr(c04Fld(g.lvS(1), 1)), c04TInt
		}
	}
	kv, vv := g.freshVar(), g.freshVar()
	o.KV = [2]int{kv, vv}
	saved := g.scope
	g.scope = append(append([]c04scopeVar{}, g.scope...), c04scopeVar{kv, c04TInt}, c04scopeVar{vv, et})
	add := func(b *c04op) {
		if b.K == "define" {
			g.scope = append(g.scope, c04scopeVar{b.X, b.Rhs.T})
		}
		o.Body = append(o.Body, b)
	}
	vload := c04Load(c04Var(vv, et))
	if L != nil && g.r.chance(70) {
		// the body changes the ranged location itself: an element ahead of the cursor, or the variable
		n := 0
		if ok, ln, _ := g.lenCap(o.A); ok && o.RK == "slice" {
			n = ln
		} else if o.RK == "arr" {
			n = L.T.n
		}
		nm := 1 + g.r.intn(2)
		for i := 0; i < nm; i++ {
			switch m := g.r.intn(10); {
			case m < 5 && n > 0: // element ahead of the cursor
				var el *c04ex
				if o.RK == "arr" {
					el = c04Idx(L, c04IntLit(int64(n-1)))
				} else {
					el = c04SIdx(c04Load(L), c04IntLit(int64(n-1)))
				}
				add(&c04op{K: "assign", Lv: el, Rhs: c04Pure(g.rvOf(et, 1))})
			case m < 8 && o.RK == "slice": // re-assignment of the ranged slice variable
				switch g.r.intn(4) {
				case 0:
					add(&c04op{K: "assign", Lv: L, Rhs: c04Pure(c04SliceEx(c04Load(L), nil, c04IntLit(int64(g.r.intn(n+1))), nil))})
				case 1:
					add(&c04op{K: "assign", Lv: L, Rhs: &c04rhs{K: "append", T: L.T, E: c04Load(L), L: []*c04ex{g.rvOf(et, 1)}}})
				case 2:
					add(&c04op{K: "assign", Lv: L, Rhs: c04Pure(c04Nil(L.T))})
				default:
					add(&c04op{K: "assign", Lv: L, Rhs: g.rhsOf(L.T, 1)})
				}
			case o.RK == "arr": // the whole array is overwritten
				add(&c04op{K: "assign", Lv: L, Rhs: c04Pure(g.litOf(L.T, 1))})
			default:
				add(&c04op{K: "assign", Lv: L, Rhs: g.rhsOf(L.T, 1)})
			}
		}
		if g.r.chance(60) {
			add(&c04op{K: "assign", Lv: g.lvOf(et, 1), Rhs: c04Pure(vload)})
		}
	}
	nb := g.r.intn(3)
	if len(o.Body) == 0 {
		nb++
	}
	for i := 0; i < nb; i++ {
		var b *c04op
		switch c := g.r.intn(10); {
		case c < 3:
			// store the value variable somewhere of its type
			b = &c04op{K: "assign", Lv: g.lvOf(et, 1), Rhs: c04Pure(vload)}
		case c < 5:
			// mutate the value variable (must not affect the operand)
			switch et {
			case c04TS:
				b = &c04op{K: "assign", Lv: c04Fld(c04Var(vv, et), 0), Rhs: c04Pure(c04IntLit(g.smallInt()))}
			case c04TInt:
				b = &c04op{K: "assign", Lv: c04Var(vv, et), Rhs: c04Pure(c04IntLit(g.smallInt()))}
			case c04TAny:
				b = &c04op{K: "assign", Lv: c04Var(vv, et), Rhs: c04Pure(c04Box(c04IntLit(g.smallInt())))}
			default:
				b = &c04op{K: "assign", Lv: c04Var(9, c04TInt), Rhs: c04Pure(c04Load(c04Var(kv, c04TInt)))}
			}
		default:
			b = g.candidate(depth - 1)
			for b.K == "define" && g.r.chance(50) {
				b = g.candidate(depth - 1)
			}
		}
		add(b)
	}
	if g.r.chance(35) {
		o.Body = append(o.Body, &c04op{K: "dump"})
	}
	g.scope = saved
	return o
}

// region predicates on a candidate (syntactic; the same predicates label the streams)
func c04OpInMultiDirect(o *c04op) bool {
	if o.K != "multi" {
		return false
	}
	for i, r := range o.Rvs {
		if c04IsCallLike(r) && o.Lvs[i].K != "map" {
			return true
		}
		if r.K == "box" && c04IsCompositeLit(r.A) && o.Lvs[i].K == "var" {
			return true
		}
		if c04IsCompositeLit(r) && o.Lvs[i].K == "var" {
			return true
		}
	}
	return false
}

func c04OpHasMapDestMulti(o *c04op) bool {
	if o.K != "multi" {
		return false
	}
	for _, l := range o.Lvs {
		if l.K == "map" {
			return true
		}
	}
	return false
}

func c04OpMultiNil(o *c04op) bool {
	if o.K != "multi" {
		return false
	}
	for _, r := range o.Rvs {
		if r.K == "nil" {
			return true
		}
	}
	return false
}

// append(s, e1, ..., en) with n >= 2 where some ei, i >= 2, is a variable / element / field read
func c04OpAppendAlias(o *c04op) bool {
	r := o.Rhs
	if (o.K != "assign" && o.K != "define") || r == nil || r.K != "append" {
		return false
	}
	for i, e := range r.L {
		for e.K == "box" {
			e = e.A
		}
		if i >= 1 && e.K == "load" {
			return true
		}
	}
	return false
}

// append(s, ..., nil, ...): nil as an appended element
func c04OpAppendNil(o *c04op) bool {
	r := o.Rhs
	if (o.K != "assign" && o.K != "define") || r == nil || r.K != "append" {
		return false
	}
	for _, e := range r.L {
		if e.K == "nil" {
			return true
		}
	}
	return false
}

// a tuple assignment with a right-hand operand of static type interface{}
func c04OpMultiIface(o *c04op) bool {
	if o.K != "multi" {
		return false
	}
	for _, r := range o.Rvs {
		if r.T == c04TAny && r.K != "box" && r.K != "nil" {
			return true
		}
	}
	return false
}

func (e *c04ex) contains(p func(*c04ex) bool) bool {
	if e == nil {
		return false
	}
	if p(e) {
		return true
	}
	for _, x := range []*c04ex{e.A, e.B, e.C, e.D} {
		if x.contains(p) {
			return true
		}
	}
	for _, x := range e.L {
		if x.contains(p) {
			return true
		}
	}
	return false
}

func (o *c04op) exprs() []*c04ex {
	out := []*c04ex{o.Lv, o.A, o.B}
	out = append(out, o.Lvs...)
	out = append(out, o.Rvs...)
	if o.Rhs != nil {
		out = append(out, o.Rhs.E, o.Rhs.E2)
		out = append(out, o.Rhs.L...)
		out = append(out, o.Rhs.L2...)
	}
	return out
}

// an array or slice literal with an element that goes through q[i] with q a pointer to an array
func c04OpArrayLitPtrArray(o *c04op) bool {
	isPtrIdx := func(e *c04ex) bool { return e.K == "idx" && e.A.K == "deref" }
	if o.Rhs != nil && o.Rhs.K == "slicelit" {
		for _, e := range o.Rhs.L {
			if e.contains(isPtrIdx) {
				return true
			}
		}
	}
	for _, e := range o.exprs() {
		if e.contains(func(x *c04ex) bool {
			if x.K != "arr" {
				return false
			}
			for _, el := range x.L {
				if el.contains(isPtrIdx) {
					return true
				}
			}
			return false
		}) {
			return true
		}
	}
	return false
}

func c04OpVarStructLit(o *c04op) bool {
	return o.K == "assign" && o.Lv.K == "var" && o.Rhs.K == "pure" && o.Rhs.E.K == "struct"
}

// walk applies f to the operation and to the operations nested in it
func (o *c04op) walk(f func(*c04op)) {
	f(o)
	for _, b := range o.Body {
		b.walk(f)
	}
	if o.Fn != nil {
		for _, b := range o.Fn.Body {
			b.walk(f)
		}
	}
}

func c04AnyOp(o *c04op, p func(*c04op) bool) bool {
	found := false
	o.walk(func(x *c04op) {
		if p(x) {
			found = true
		}
	})
	return found
}

// acceptable says whether the candidate may be used by the current stream.
func (g *c04gen) acceptable(o *c04op) bool {
	if c04AnyOp(o, func(x *c04op) bool {
		// unspecified evaluation order / unsupported shapes: never generated
		if x.K == "assign" && x.Lv.K == "map" && x.Rhs.K != "pure" {
			return true
		}
		if x.K == "call" && x.Lv != nil && x.Lv.K == "map" {
			return true
		}
		return false
	}) {
		return false
	}
	if g.mode != "var-struct-lit" && c04AnyOp(o, c04OpVarStructLit) {
		return false
	}
	if g.mode != "multi-assign-call-or-lit" && c04AnyOp(o, c04OpInMultiDirect) {
		return false
	}
	if g.mode != "multi-assign-map-entry" && c04AnyOp(o, c04OpHasMapDestMulti) {
		return false
	}
	if g.mode != "multi-assign-nil" && c04AnyOp(o, c04OpMultiNil) {
		return false
	}
	if c04AnyOp(o, func(x *c04op) bool { return x.K == "call" && x.Lv != nil && !c04Stable(x.Lv) }) {
		return false
	}
	if g.mode != "multi-assign-iface" && c04AnyOp(o, c04OpMultiIface) {
		return false
	}
	if g.mode != "append-nil-elem" && c04AnyOp(o, c04OpAppendNil) {
		return false
	}
	if g.mode != "append-multi-alias" && c04AnyOp(o, c04OpAppendAlias) {
		return false
	}
	if g.mode != "arraylit-ptr-array-field" && c04AnyOp(o, c04OpArrayLitPtrArray) {
		return false
	}
	return true
}

// next returns the next operation of the history, valid in the current state, and applies it.
func (g *c04gen) next(depth int, out *[][]int64) *c04op {
	for try := 0; try < 40; try++ {
		saved := g.nextTmp
		o := g.candidate(depth)
		if !g.acceptable(o) {
			g.nextTmp = saved
			continue
		}
		cl := g.st.clone()
		var scratch [][]int64
		if class := cl.tryExec(o, &scratch); class != "" {
			g.nextTmp = saved
			g.stats["retry:"+class]++
			continue
		}
		g.commit(o, out)
		return o
	}
	o := &c04op{K: "assign", Lv: c04Var(9, c04TInt), Rhs: c04Pure(c04IntLit(0))}
	g.commit(o, out)
	return o
}

func (g *c04gen) commit(o *c04op, out *[][]int64) {
	if class := g.st.tryExec(o, out); class != "" {
		panic(fmt.Sprint("c04: committed operation panics: ", class))
	}
	if o.K == "define" {
		g.scope = append(g.scope, c04scopeVar{o.X, o.Rhs.T})
	}
	g.stats["op:"+o.K]++
}

// a deliberate run-time panic as the last operation
func (g *c04gen) panicOp() (*c04op, string) {
	for try := 0; try < 30; try++ {
		var o *c04op
		switch g.r.intn(4) {
		case 0:
			o = &c04op{K: "assign", Lv: c04Idx(c04Var(7, c04TA4), c04Add(c04Load(c04Var(9, c04TInt)), c04IntLit(4))), Rhs: c04Pure(c04IntLit(1))}
		case 1:
			o = &c04op{K: "assign", Lv: c04SIdx(c04Load(c04Var(8, c04TLI)), c04Len(c04Load(c04Var(8, c04TLI)))), Rhs: c04Pure(c04IntLit(1))}
		case 2:
			o = &c04op{K: "assign", Lv: c04Fld(c04Deref(c04Load(g.lvOf(c04TPS, 1))), 0), Rhs: c04Pure(c04IntLit(1))}
		default:
			o = &c04op{K: "assign", Lv: c04MapL(c04Load(g.lvOf(c04TMI, 1)), c04KeyLit(1)), Rhs: c04Pure(c04IntLit(1))}
		}
		cl := g.st.clone()
		var scratch [][]int64
		if class := cl.tryExec(o, &scratch); class != "" && class[0] != 'i' {
			return o, class
		}
	}
	return nil, ""
}

// ---------------------------------------------------------------- the callee catalogue

func c04Catalogue() []*c04fn {
	x0 := func(t *c04ty) *c04ex { return c04Var(100, t) }
	x1 := func(t *c04ty) *c04ex { return c04Var(101, t) }
	asg := func(l *c04ex, r *c04ex) *c04op { return &c04op{K: "assign", Lv: l, Rhs: c04Pure(r)} }
	return []*c04fn{
		{Name: "fvS", Params: []int{100}, PTypes: []*c04ty{c04TS}, RetT: c04TS, Ret: c04Load(x0(c04TS)),
			Body: []*c04op{asg(c04Fld(x0(c04TS), 0), c04Add(c04Load(c04Fld(x0(c04TS), 0)), c04IntLit(100))), asg(c04Idx(c04Fld(x0(c04TS), 1), c04IntLit(0)), c04IntLit(77))}},
		{Name: "fpS", Params: []int{100}, PTypes: []*c04ty{c04TPS},
			Body: []*c04op{asg(c04Fld(c04Deref(c04Load(x0(c04TPS))), 0), c04Add(c04Load(c04Fld(c04Deref(c04Load(x0(c04TPS))), 0)), c04IntLit(1000))), asg(c04Idx(c04Fld(c04Deref(c04Load(x0(c04TPS))), 1), c04IntLit(1)), c04IntLit(88))}},
		{Name: "fvA", Params: []int{100}, PTypes: []*c04ty{c04TA3S}, RetT: c04TA3S, Ret: c04Load(x0(c04TA3S)),
			Body: []*c04op{asg(c04Fld(c04Idx(x0(c04TA3S), c04IntLit(0)), 0), c04IntLit(55)), asg(c04Idx(c04Fld(c04Idx(x0(c04TA3S), c04IntLit(2)), 1), c04IntLit(1)), c04IntLit(5))}},
		{Name: "fpA", Params: []int{100}, PTypes: []*c04ty{c04TPA},
			Body: []*c04op{asg(c04Fld(c04Idx(c04Deref(c04Load(x0(c04TPA))), c04IntLit(1)), 0), c04IntLit(66))}},
		{Name: "fvA4", Params: []int{100}, PTypes: []*c04ty{c04TA4}, RetT: c04TA4, Ret: c04Load(x0(c04TA4)),
			Body: []*c04op{asg(c04Idx(x0(c04TA4), c04IntLit(0)), c04IntLit(9))}},
		{Name: "fvL", Params: []int{100}, PTypes: []*c04ty{c04TLI}, RetT: c04TInt, Ret: c04Len(c04Load(x0(c04TLI))),
			Body: []*c04op{asg(c04SIdx(c04Load(x0(c04TLI)), c04IntLit(0)), c04IntLit(9))}},
		{Name: "fvM", Params: []int{100}, PTypes: []*c04ty{c04TS}, RetT: c04TInt, Ret: c04Load(c04Fld(x0(c04TS), 0)),
			Body: []*c04op{asg(c04MapL(c04Load(c04Fld(x0(c04TS), 3)), c04KeyLit(0)), c04IntLit(5)), asg(c04Fld(x0(c04TS), 0), c04IntLit(1))}},
		{Name: "fsw", Params: []int{100, 101}, PTypes: []*c04ty{c04TS, c04TPS}, RetT: c04TS, Ret: c04Load(c04Var(102, c04TS)),
			Body: []*c04op{{K: "define", X: 102, Rhs: c04Pure(c04Load(c04Deref(c04Load(x1(c04TPS)))))}, asg(c04Deref(c04Load(x1(c04TPS))), c04Load(x0(c04TS)))}},
		{Name: "fel", Params: []int{100}, PTypes: []*c04ty{c04TS}, RetT: c04TLI, Ret: c04Load(c04Fld(x0(c04TS), 2))},
		{Name: "fapp", Params: []int{100}, PTypes: []*c04ty{c04TLI}, RetT: c04TLI, Ret: c04Load(x0(c04TLI)),
			Body: []*c04op{{K: "assign", Lv: x0(c04TLI), Rhs: &c04rhs{K: "append", T: c04TLI, E: c04Load(x0(c04TLI)), L: []*c04ex{c04IntLit(1)}}}, asg(c04SIdx(c04Load(x0(c04TLI)), c04IntLit(0)), c04IntLit(8))}},
		{Name: "fvE", Params: []int{100}, PTypes: []*c04ty{c04TA3E}, RetT: c04TA3E, Ret: c04Load(x0(c04TA3E)),
			Body: []*c04op{asg(c04Idx(x0(c04TA3E), c04IntLit(0)), c04Box(c04IntLit(99)))}},
		{Name: "fE", Params: []int{100}, PTypes: []*c04ty{c04TAny}, RetT: c04TAny, Ret: c04Load(x0(c04TAny))},
		// the parameter escapes: every call yields a pointer to a parameter of its own
		{Name: "fhold", Params: []int{100}, PTypes: []*c04ty{c04TS}, RetT: c04TPS, Ret: c04Addr(x0(c04TS))},
		{Name: "fholdA", Params: []int{100}, PTypes: []*c04ty{c04TA3S}, RetT: c04TPA, Ret: c04Addr(x0(c04TA3S)),
			Body: []*c04op{asg(c04Fld(c04Idx(x0(c04TA3S), c04IntLit(1)), 0), c04Add(c04Load(c04Fld(c04Idx(x0(c04TA3S), c04IntLit(1)), 0)), c04IntLit(7)))}},
		{Name: "fpp", Params: []int{100}, PTypes: []*c04ty{c04TPS}, RetT: c04TPS, Ret: c04Load(c04Fld(c04Deref(c04Load(x0(c04TPS))), 4))},
	}
}

func c04NewGen(r *rng, mode string) *c04gen {
	g := &c04gen{r: r, st: c04InitState(), nextTmp: 19, fns: c04Catalogue(), mode: mode, stats: map[string]int{}}
	for id := 0; id < c04VarCount; id++ {
		g.scope = append(g.scope, c04scopeVar{id, c04PoolTypes[id]})
	}
	return g
}

// ---------------------------------------------------------------- constructs outside the Coq grammar

func c04AsgInt(l *c04ex, r *c04ex) *c04op { return &c04op{K: "assign", Lv: l, Rhs: c04Pure(r)} }

// sugar: methods, closures, interface boxing, function literals, channels: each is rendered as Go
// text and interpreted by the reference interpreter through an equivalent list of core operations.
func (g *c04gen) sugar() *c04op {
	x := g.lvS(1)
	xs := x.goStr()
	c := g.smallInt()
	n := g.freshVar()
	jv := c04Var(10, c04TInt)
	xN := c04Fld(x, 0)
	tmp := g.freshVar()
	saveN := &c04op{K: "define", X: tmp, Rhs: c04Pure(c04Load(xN))}
	setN := c04AsgInt(xN, c04IntLit(c))
	o := &c04op{K: "sugar", Unmodelled: true}
	// the methods are declared on R: operands r, ra[c]
	xr := g.lvR()
	rN := c04Fld(xr, 0)
	switch g.r.intn(10) {
	case 0: // value receiver: the method works on a copy
		o.Text = []string{fmt.Sprintf("%s.SetN(%d)", xr.goBase(), c), fmt.Sprintf("j = %s.N + %s.A[0]", xr.goBase(), xr.goBase())}
		o.Equiv = []*c04op{c04AsgInt(jv, c04Add(c04Load(rN), c04Load(c04Idx(c04Fld(xr, 1), c04IntLit(0)))))}
		o.Sugar = "method-value-receiver"
	case 1: // pointer receiver on an addressable operand
		o.Text = []string{fmt.Sprintf("%s.Inc()", xr.goBase()), fmt.Sprintf("j = %s.N", xr.goBase())}
		o.Equiv = []*c04op{c04AsgInt(rN, c04Add(c04Load(rN), c04IntLit(1))), c04AsgInt(jv, c04Load(rN))}
		o.Sugar = "method-pointer-receiver"
	case 2:
		o.Text = []string{fmt.Sprintf("%s.N = %d", xr.goBase(), c), fmt.Sprintf("j = %s.Get()", xr.goBase())}
		o.Equiv = []*c04op{c04AsgInt(rN, c04IntLit(c)), c04AsgInt(jv, c04Load(rN))}
		o.Sugar = "method-read"
	case 3: // closure: captures by reference
		o.Text = []string{fmt.Sprintf("f%d := func() int { return %s.N }", n, x.goBase()), fmt.Sprintf("%s.N = %d", x.goBase(), c), fmt.Sprintf("j = f%d()", n)}
		o.Equiv = []*c04op{setN, c04AsgInt(jv, c04Load(xN))}
		o.Sugar = "closure-by-reference"
	case 4: // conversion to an interface copies
		o.Text = []string{fmt.Sprintf("e%d := interface{}(%s)", n, xs), fmt.Sprintf("%s.N = %d", x.goBase(), c), fmt.Sprintf("j = e%d.(S).N", n)}
		o.Equiv = []*c04op{saveN, setN, c04AsgInt(jv, c04Load(c04Var(tmp, c04TInt)))}
		o.Sugar = "interface-conversion"
	case 5: // function literal, struct by value
		o.Text = []string{fmt.Sprintf("func(x S) { x.N = %d; x.A[0] = %d }(%s)", c, c, xs)}
		o.Sugar = "funclit-by-value"
	case 6: // array by value through a function literal
		o.Text = []string{fmt.Sprintf("a = func(x [3]S) [3]S { x[0].N = %d; return x }(a)", c)}
		o.Equiv = []*c04op{c04AsgInt(c04Fld(c04Idx(c04Var(0, c04TA3S), c04IntLit(0)), 0), c04IntLit(c))}
		o.Sugar = "funclit-array-by-value"
	case 8, 9: // closure capturing the array of interface values: by reference; its result is a copy of the element
		ci := int64(g.r.intn(3))
		el := c04Idx(c04Var(12, c04TA3E), c04IntLit(ci))
		bx := g.rvOf(c04TAny, 1)
		for bx.K == "nil" || bx.K == "load" || bx.K == "mapget" {
			bx = g.rvOf(c04TAny, 1)
		}
		o.Text = []string{fmt.Sprintf("f%d := func() interface{} { return ea[%d] }", n, ci), fmt.Sprintf("ea[%d] = %s", ci, bx.goStr()), fmt.Sprintf("e = f%d()", n)}
		o.Equiv = []*c04op{{K: "assign", Lv: el, Rhs: c04Pure(bx)}, {K: "assign", Lv: c04Var(15, c04TAny), Rhs: c04Pure(c04Load(el))}}
		o.Sugar = "closure-iface-array"
	default: // channel send copies
		o.Text = []string{fmt.Sprintf("ch%d := make(chan S, 1)", n), fmt.Sprintf("ch%d <- %s", n, xs), fmt.Sprintf("%s.N = %d", x.goBase(), c), fmt.Sprintf("j = (<-ch%d).N", n)}
		o.Equiv = []*c04op{saveN, setN, c04AsgInt(jv, c04Load(c04Var(tmp, c04TInt)))}
		o.Sugar = "channel-send"
	}
	return o
}

// an R-typed l-value (the struct type with methods)
func (g *c04gen) lvR() *c04ex {
	if g.r.bool() {
		return c04Var(16, c04TR)
	}
	return c04Idx(c04Var(17, c04TA2R), c04IntLit(int64(g.r.intn(2))))
}

// regionSugar: the constructs of the known-finding regions that lie outside the Coq grammar.
func (g *c04gen) regionSugar() *c04op {
	x := g.lvS(1)
	c := g.smallInt()
	n := g.freshVar()
	jv := c04Var(10, c04TInt)
	xN := c04Fld(x, 0)
	tmp := g.freshVar()
	saveN := &c04op{K: "define", X: tmp, Rhs: c04Pure(c04Load(xN))}
	setN := c04AsgInt(xN, c04IntLit(c))
	o := &c04op{K: "sugar", Unmodelled: true, Sugar: g.mode}
	switch g.mode {
	case "method-value-receiver-alias":
		xr := g.lvR()
		rN := c04Fld(xr, 0)
		o.Text = []string{fmt.Sprintf("f%d := %s.Get", n, xr.goBase()), fmt.Sprintf("%s.N = %d", xr.goBase(), c), fmt.Sprintf("j = f%d()", n)}
		o.Equiv = []*c04op{{K: "define", X: tmp, Rhs: c04Pure(c04Load(rN))}, c04AsgInt(rN, c04IntLit(c)), c04AsgInt(jv, c04Load(c04Var(tmp, c04TInt)))}
	case "iface-holds-type-with-methods":
		// a value of a type with methods stored in an interface{} element
		xr := g.lvR()
		l := g.lvOf(c04TAny, 1)
		bx := &c04ex{K: "box", A: c04Load(xr), V: 5, T: c04TAny}
		return &c04op{K: "assign", Lv: l, Rhs: c04Pure(bx), Unmodelled: true}
	case "interface-boxing-alias":
		// (only for a type with methods: the value is wrapped, not copied)
		xr := g.lvR()
		rN := c04Fld(xr, 0)
		o.Text = []string{fmt.Sprintf("var e%d interface{} = %s", n, xr.goStr()), fmt.Sprintf("%s.N = %d", xr.goBase(), c), fmt.Sprintf("j = e%d.(R).N", n)}
		o.Equiv = []*c04op{{K: "define", X: tmp, Rhs: c04Pure(c04Load(rN))}, c04AsgInt(rN, c04IntLit(c)), c04AsgInt(jv, c04Load(c04Var(tmp, c04TInt)))}
	case "append-nil-elem":
		return &c04op{K: "assign", Lv: c04Var(3, c04TLL), Rhs: &c04rhs{K: "append", T: c04TLL, E: c04Load(c04Var(3, c04TLL)), L: []*c04ex{c04Nil(c04TLI)}}, Unmodelled: true}
	case "defer-arg-alias":
		o.Text = []string{fmt.Sprintf("func() { defer func(d S) { j = d.N }(%s); %s.N = %d }()", x.goStr(), x.goBase(), c)}
		o.Equiv = []*c04op{saveN, setN, c04AsgInt(jv, c04Load(c04Var(tmp, c04TInt)))}
	case "named-result-alias":
		if !c04Stable(x) {
			return nil
		}
		o.Text = []string{fmt.Sprintf("%s = fnr(&%s)", x.goStr(), x.goStr())}
		z := g.zeroEx(c04TS)
		z.L[0] = c04IntLit(5)
		o.Equiv = []*c04op{{K: "assign", Lv: x, Rhs: c04Pure(z)}}
	case "range-ptr-array":
		// for k, v := range q (q a pointer variable): the hidden slot of the loop is the slot of t
		t := g.freshVar()
		kv, vv := g.freshVar(), g.freshVar()
		o.Text = []string{fmt.Sprintf("t%d := %s", t, c04Var(8, c04TLI).goStr()), fmt.Sprintf("for t%d, t%d := range q {", kv, vv), fmt.Sprintf("\t_, _ = t%d, t%d", kv, vv), "}", fmt.Sprintf("si = t%d", t)}
		o.Equiv = []*c04op{{K: "assign", Lv: c04Fld(c04Idx(c04Deref(c04Load(c04Var(6, c04TPA))), c04IntLit(0)), 0), Rhs: c04Pure(c04Load(c04Fld(c04Idx(c04Deref(c04Load(c04Var(6, c04TPA))), c04IntLit(0)), 0)))}}
	case "addr-of-ptr-array-elem":
		e := c04Addr(c04Idx(c04Deref(c04Load(c04Var(6, c04TPA))), g.indexFor(3)))
		e.Implicit = true
		return &c04op{K: "assign", Lv: c04Var(5, c04TPS), Rhs: c04Pure(e), Unmodelled: true}
	case "arraylit-ptr-array-field":
		el := c04Load(c04Fld(c04Idx(c04Deref(c04Load(c04Var(6, c04TPA))), g.indexFor(3)), 0))
		return &c04op{K: "assign", Lv: c04Var(7, c04TA4), Rhs: c04Pure(c04Lit(c04TA4, []*c04ex{el, c04IntLit(1), c04IntLit(2), c04IntLit(3)})), Unmodelled: true}
	default:
		return nil
	}
	return o
}
