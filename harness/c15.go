package main

import (
	"bytes"
	"context"
	"flag"
	"fmt"
	"os"
	"path/filepath"
	"sort"
	"strconv"
	"strings"
	"testing/fstest"
	"time"

	"github.com/traefik/yaegi/interp"
	"github.com/traefik/yaegi/stdlib"
)

// C15: package-level variables initialise in dependency order; init functions in source order; main last;
// imported packages first and once.
//   impl  = real yaegi: Eval (program.go Execute) for single-file programs, EvalPath on a MapFS GOPATH tree
//           (src.go importSrc) for multi-file / multi-package programs
//   Y, G  = coq/Init/Model.v, evaluated by coqc on the cases files written here
//   ref   = the same sources compiled by the Go toolchain (goRefBatch: one module, sub-packages)
// Every initialiser prints a mark, so the order of initialisation is the program's stdout.

func init() {
	register("c15", "C15 initialisation order: generate dependency graphs, run yaegi and the compiled reference", runC15)
}

// ---------------------------------------------------------------- abstract programs (mirror of coq/Init/Model.v)

type c15Ref struct {
	K byte // 'V' variable, 'F' function/method, 'X' identifier spelled like a variable that denotes something else,
	// 'N' noise: the field name of a selector spelled like a variable (s7{}.v7): no dependency for yaegi nor for Go, absent from the model
	ID    int
	Style int  // rendering variant
	Guard bool // inside a function body: placed under `if false`
	// Hidden: not written in the source. An 'X' occurrence that the source has anyway: the blank identifier on the
	// left of a declaration, which yaegi looks up like any identifier and finds the symbol `_` of the LAST
	// `var ..., _, ... = e1, ...` declaration of the package (all blank variables share that symbol).
	Hidden bool
}

type c15Init struct {
	Log  int
	Refs []c15Ref
}

const (
	c15NoInit = iota
	c15Pair
	c15Call
)

type c15Spec struct {
	Kind  int
	Names []int
	Inits []c15Init // NoInit: none; Pair: one per name; Call: exactly one
	File  int
	Typed bool // explicit type: var x int = e; var x, y int = e1, e2; var x, y int = f()
}

type c15Func struct {
	ID     int
	Refs   []c15Ref
	Method bool
	File   int
}

// Declarations around the special names init and main (mirror of sdecl in coq/Init/Model.v).
// A statement of the body of a real init function or of main's main:
type c15Stmt struct {
	K      byte // 'c' call of the leaf declaration Decls[Target]; 'l' local function literal; 'v' local variable; 's' struct literal with fields init and main
	Target int
	Name   byte // 'i' init, 'm' main: name of the local ('l', 'v')
	Mark   int  // 'l': printed when the literal runs
	Called bool // 'l': the literal is called right away
}

type c15Decl struct {
	Kind byte // 'F' function, 'M' method (own receiver type k<Own>), 'V' package variable of func type
	Name byte // 'i' init, 'm' main, 'o' another name (Init<Own>, init<Own>, initFn<Own>)
	Own  int  // mark printed by the body
	Ptr  bool // 'M': pointer receiver
	Alt  int  // 'o': spelling variant
	File int
	Body []c15Stmt // only for the functions that run by themselves: func init(), and func main() of package main
}

type c15Import struct {
	Pkg   int
	File  int
	Blank bool
}

type c15Pkg struct {
	ID      int
	Imports []c15Import
	Specs   []c15Spec
	Funcs   []c15Func
	Decls   []c15Decl // in source order: file order, then position
	Main    bool
	NFiles  int
	Names   []string     // file names, Names[f] for file index f, ascending in byte order (nil: a.go, b.go, ...); rendering only: the models see the declaration list in file-index order = the order in which the go tool presents the files
	Grouped map[int]bool // spec index -> starts a `var ( ... )` group with the next spec
	Blank   map[int]bool // variable ids written `_` in the source (a fresh id each: nothing can refer to them)
	Shape   map[int]int  // variable id -> form of its initialiser expression (c15Shapes); rendering only, absent from the model
}

type c15Prog struct {
	Pkgs  []*c15Pkg // ascending id; the entry package has the largest id
	Entry int
}

type c15Node struct {
	ID   int
	Deps []int
	Logs []int
}

func c15Ready(st map[int]bool, n c15Node) bool {
	for _, d := range n.Deps {
		if !st[d] {
			return false
		}
	}
	return true
}

// c15YSched mirrors y_sched (genGlobalVarDecl with the fix: scan for the first ready node, emit it, restart):
// emitted nodes, left-over nodes.
func c15YSched(nodes []c15Node) (emitted, left []c15Node) {
	st := map[int]bool{}
	for {
		var revisit []c15Node
		for i, n := range nodes {
			if !c15Ready(st, n) {
				revisit = append(revisit, n)
				continue
			}
			emitted = append(emitted, n)
			st[n.ID] = true
			revisit = append(revisit, nodes[i+1:]...)
			break
		}
		if len(revisit) == 0 || len(revisit) == len(nodes) {
			return emitted, revisit
		}
		nodes = revisit
	}
}

// c15OldSched mirrors old_sched, the loop before the fix of finding C15-skipped-ready (every ready node of a pass
// emitted before going back). Only used to count and to aim at the programs on which a return of the defect shows.
func c15OldSched(nodes []c15Node) (emitted, left []c15Node) {
	st := map[int]bool{}
	for {
		var revisit []c15Node
		for _, n := range nodes {
			if !c15Ready(st, n) {
				revisit = append(revisit, n)
				continue
			}
			emitted = append(emitted, n)
			st[n.ID] = true
		}
		if len(revisit) == 0 || len(revisit) == len(nodes) {
			return emitted, revisit
		}
		nodes = revisit
	}
}

// fixSensitive: the loop before the fix would initialise this package in another order.
func (p *c15Pkg) fixSensitive() bool {
	a, aok := c15Logs(c15YSched(p.yNodes()))
	b, bok := c15Logs(c15OldSched(p.yNodes()))
	return aok != bok || fmt.Sprint(a) != fmt.Sprint(b)
}

func c15GSched(nodes []c15Node) (emitted, left []c15Node) {
	st := map[int]bool{}
	pending := append([]c15Node(nil), nodes...)
	for {
		pick := -1
		for i, n := range pending {
			if c15Ready(st, n) {
				pick = i
				break
			}
		}
		if pick < 0 {
			return emitted, pending
		}
		n := pending[pick]
		emitted = append(emitted, n)
		st[n.ID] = true
		pending = append(pending[:pick:pick], pending[pick+1:]...)
	}
}

func c15Logs(e, left []c15Node) ([]int, bool) {
	if len(left) > 0 {
		return nil, false
	}
	out := []int{}
	for _, n := range e {
		out = append(out, n.Logs...)
	}
	return out, true
}

func (p *c15Pkg) lookup(v int) (global bool, first int, ok bool) {
	for _, s := range p.Specs {
		for _, n := range s.Names {
			if n == v {
				return s.Kind != c15Call, s.Names[0], true
			}
		}
	}
	return false, 0, false
}

func (p *c15Pkg) yNodes() []c15Node {
	var out []c15Node
	for _, s := range p.Specs {
		n := c15Node{ID: s.Names[0]}
		for _, in := range s.Inits {
			n.Logs = append(n.Logs, in.Log)
			for _, r := range in.Refs {
				if r.K == 'F' || r.K == 'N' {
					continue
				}
				if g, first, ok := p.lookup(r.ID); ok && g && first != n.ID {
					n.Deps = append(n.Deps, first)
				}
			}
		}
		out = append(out, n)
	}
	return out
}

func (p *c15Pkg) findFunc(f int) *c15Func {
	for i := range p.Funcs {
		if p.Funcs[i].ID == f {
			return &p.Funcs[i]
		}
	}
	return nil
}

// varsOf: variables referenced, following function bodies (same set as vars_of with fuel = number of functions).
func (p *c15Pkg) varsOf(refs []c15Ref) []int {
	seen := map[int]bool{}
	set := map[int]bool{}
	var out []int
	var walk func(rs []c15Ref)
	walk = func(rs []c15Ref) {
		for _, r := range rs {
			switch r.K {
			case 'V':
				if !set[r.ID] {
					set[r.ID] = true
					out = append(out, r.ID)
				}
			case 'F':
				if !seen[r.ID] {
					seen[r.ID] = true
					if f := p.findFunc(r.ID); f != nil {
						walk(f.Refs)
					}
				}
			}
		}
	}
	walk(refs)
	return out
}

func (p *c15Pkg) gNodes() []c15Node {
	var out []c15Node
	for _, s := range p.Specs {
		switch s.Kind {
		case c15NoInit:
			for _, n := range s.Names {
				out = append(out, c15Node{ID: n})
			}
		case c15Pair:
			for i, n := range s.Names {
				out = append(out, c15Node{ID: n, Deps: p.varsOf(s.Inits[i].Refs), Logs: []int{s.Inits[i].Log}})
			}
		case c15Call:
			for i, n := range s.Names {
				nd := c15Node{ID: n, Deps: p.varsOf(s.Inits[0].Refs)}
				if i == 0 {
					nd.Logs = []int{s.Inits[0].Log}
				}
				out = append(out, nd)
			}
		}
	}
	return out
}

func (p *c15Pkg) declSorted() bool {
	seen := map[int]bool{}
	for _, s := range p.Specs {
		for _, in := range s.Inits {
			for _, r := range in.Refs {
				if (r.K == 'V' || r.K == 'X') && !seen[r.ID] {
					return false
				}
			}
			for _, v := range p.varsOf(in.Refs) {
				if !seen[v] {
					return false
				}
			}
		}
		for _, n := range s.Names {
			seen[n] = true
		}
	}
	return true
}

func (p *c15Pkg) plain() bool {
	for _, s := range p.Specs {
		if len(s.Names) != 1 || s.Kind == c15Call {
			return false
		}
		for _, in := range s.Inits {
			for _, r := range in.Refs {
				switch r.K {
				case 'X':
					return false
				case 'V':
					if _, _, ok := p.lookup(r.ID); !ok || r.ID == s.Names[0] {
						return false
					}
				case 'F':
					if len(p.varsOf([]c15Ref{r})) > 0 {
						return false
					}
				}
			}
		}
	}
	return true
}

func (p *c15Pkg) side() bool {
	if p.declSorted() {
		return true
	}
	return p.plain()
}

// region label of a package outside the side condition (negated side conditions, by priority).
func (p *c15Pkg) region() string {
	if p.side() {
		return ""
	}
	scall := map[int]bool{}
	multi := false
	for _, s := range p.Specs {
		if len(s.Names) > 1 {
			multi = true
		}
		if s.Kind == c15Call {
			for _, n := range s.Names {
				scall[n] = true
			}
		}
	}
	fm, ng, fd, bl := false, false, false, false
	for _, s := range p.Specs {
		for _, in := range s.Inits {
			for _, r := range in.Refs {
				switch r.K {
				case 'F':
					if len(p.varsOf([]c15Ref{r})) > 0 {
						fm = true
					}
				case 'X':
					if r.Hidden {
						bl = true
					} else {
						fd = true
					}
					if scall[r.ID] {
						ng = true
					}
				case 'V':
					if scall[r.ID] {
						ng = true
					}
				}
			}
		}
	}
	switch {
	case fm:
		return "func-mediated"
	case ng:
		return "multi-nonglobal"
	case fd:
		return "false-dep"
	case bl:
		return "blank-shared"
	case multi:
		return "multi-unit"
	}
	return "unclassified" // unreachable: a package outside the side condition has one of the features above
}

func (g *c15Prog) find(id int) *c15Pkg {
	for _, p := range g.Pkgs {
		if p.ID == id {
			return p
		}
	}
	return nil
}

func (g *c15Prog) yPkgOrder() []int {
	done := map[int]bool{}
	var order []int
	var load func(id int)
	load = func(id int) {
		if done[id] {
			return
		}
		p := g.find(id)
		if p == nil {
			return
		}
		for _, im := range p.Imports {
			load(im.Pkg)
		}
		done[id] = true
		order = append(order, id)
	}
	load(g.Entry)
	return order
}

func (g *c15Prog) pkgsInPathOrder() bool {
	o := g.yPkgOrder()
	if len(o) != len(g.Pkgs) {
		return false
	}
	seen := map[int]bool{}
	for i, p := range g.Pkgs {
		if o[i] != p.ID || (i > 0 && g.Pkgs[i-1].ID >= p.ID) {
			return false
		}
		for _, im := range p.Imports {
			if !seen[im.Pkg] {
				return false
			}
		}
		seen[p.ID] = true
	}
	return true
}

func (g *c15Prog) region() string {
	for _, p := range g.Pkgs {
		if r := p.region(); r != "" {
			return r
		}
	}
	if !g.pkgsInPathOrder() {
		return "pkg-order"
	}
	return ""
}

// ---------------------------------------------------------------- generator

type c15Mode int

const (
	c15MainSorted c15Mode = iota
	c15MainPlain
	c15MainPlainRegress // plain, and the loop before the fix of C15-skipped-ready would order it differently
	c15FuncMed
	c15MultiNG
	c15MultiUnit
	c15FalseDep
	c15Cycle
	c15Blanks // plain, several declarations with blank variables
)

type c15Gen struct {
	r      *rng
	nextID int // variables and functions
	nextLg int // marks
}

func (g *c15Gen) id() int  { g.nextID++; return g.nextID }
func (g *c15Gen) log() int { g.nextLg++; return g.nextLg }

func (g *c15Gen) body(mode c15Mode, nSpecs int) *c15Pkg {
	r := g.r
	p := &c15Pkg{Grouped: map[int]bool{}, Blank: map[int]bool{}}
	sorted := mode == c15MainSorted
	rich := mode == c15MainSorted
	// 1. spec skeletons
	for i := 0; i < nSpecs; i++ {
		s := c15Spec{Kind: c15Pair, Names: []int{g.id()}}
		k := r.intn(100)
		switch {
		case k < 10:
			s.Kind = c15NoInit
			if (rich || mode == c15MultiUnit) && r.chance(40) {
				s.Names = append(s.Names, g.id())
			}
		case k < 25 && (rich || mode == c15MultiNG || mode == c15Blanks):
			s.Kind = c15Call
			s.Names = append(s.Names, g.id())
			if r.chance(25) {
				s.Names = append(s.Names, g.id())
			}
		case k < 40 && (rich || mode == c15MultiUnit || mode == c15Blanks):
			s.Names = append(s.Names, g.id())
		}
		s.Typed = s.Kind != c15NoInit && r.chance(25)
		p.Specs = append(p.Specs, s)
	}
	// 1b. blank variables: at most one declaration with blanks outside the stream that aims at several of them
	nBlank := 0
	switch k := r.intn(100); {
	case mode == c15Blanks:
		nBlank = 2 + r.intn(2)
	case k < 50:
		nBlank = 1
	}
	for tries := 0; nBlank > 0 && tries < 20; tries++ {
		s := &p.Specs[r.intn(nSpecs)]
		if r.bool() { // half of the time a declaration of several variables, when there is one
			var multi []int
			for si, t := range p.Specs {
				if len(t.Names) > 1 && t.Kind != c15NoInit {
					multi = append(multi, si)
				}
			}
			if len(multi) > 0 {
				s = &p.Specs[multi[r.intn(len(multi))]]
			}
		}
		if s.Kind == c15NoInit || p.Blank[s.Names[0]] || p.Blank[s.Names[len(s.Names)-1]] {
			continue
		}
		s.Typed = r.bool()
		if len(s.Names) == 1 || r.chance(40) {
			for _, n := range s.Names {
				p.Blank[n] = true
			}
		} else {
			p.Blank[s.Names[r.intn(len(s.Names))]] = true
		}
		nBlank--
	}
	// 2. hidden rank: initialisers may depend (in Go's sense) only on variables of lower rank => no cycle
	order := make([]int, nSpecs)
	for i := range order {
		order[i] = i
	}
	if !sorted {
		moves := 1 + r.intn(3)
		for m := 0; m < moves; m++ {
			i, j := r.intn(nSpecs), r.intn(nSpecs)
			x := order[i]
			order = append(order[:i], order[i+1:]...)
			order = append(order[:j], append([]int{x}, order[j:]...)...)
		}
	}
	rank := make([]int, nSpecs)
	for pos, si := range order {
		rank[si] = pos
	}
	rankOfVar := map[int]int{}
	var allVars, funcVars []int
	for si, s := range p.Specs {
		for _, n := range s.Names {
			rankOfVar[n] = rank[si]
			if p.Blank[n] {
				continue
			}
			allVars = append(allVars, n)
			// yaegi cannot read a variable declared by `var x, y = f()` from a function body (it panics
			// in the host: the symbol is not global); unrelated to ordering, kept out of the programs
			if s.Kind != c15Call {
				funcVars = append(funcVars, n)
			}
		}
	}
	// 3. functions
	reachAllowed := rich || mode == c15FuncMed
	nf := r.intn(4)
	if reachAllowed {
		nf = 1 + r.intn(4)
	}
	for j := 0; j < nf; j++ {
		p.Funcs = append(p.Funcs, c15Func{ID: g.id(), Method: r.chance(30)})
	}
	for j := range p.Funcs {
		f := &p.Funcs[j]
		if reachAllowed && len(funcVars) > 0 {
			for k := r.intn(3); k > 0; k-- {
				f.Refs = append(f.Refs, c15Ref{K: 'V', ID: funcVars[r.intn(len(funcVars))], Guard: r.chance(15)})
			}
		}
		if j+1 < nf && r.chance(50) {
			f.Refs = append(f.Refs, c15Ref{K: 'F', ID: p.Funcs[j+1+r.intn(nf-j-1)].ID, Guard: r.chance(15)})
		}
		if r.chance(12) { // recursion among functions is legal; keep it from running
			f.Refs = append(f.Refs, c15Ref{K: 'F', ID: p.Funcs[r.intn(j+1)].ID, Guard: true})
		}
	}
	funcRank := map[int]int{} // highest rank of a variable the function reaches (-1: none)
	for _, f := range p.Funcs {
		m := -1
		for _, v := range p.varsOf([]c15Ref{{K: 'F', ID: f.ID}}) {
			if rankOfVar[v] > m {
				m = rankOfVar[v]
			}
		}
		funcRank[f.ID] = m
	}
	// 4. initialisers
	mkInit := func(si int) c15Init {
		in := c15Init{Log: g.log()}
		var lower []int
		for _, v := range allVars {
			if rankOfVar[v] < rank[si] {
				if g, _, _ := p.lookup(v); !g && !(rich || mode == c15MultiNG) {
					continue
				}
				lower = append(lower, v)
			}
		}
		nd := 0
		switch k := r.intn(100); {
		case k < 30:
		case k < 75:
			nd = 1
		default:
			nd = 2
		}
		for ; nd > 0 && len(lower) > 0; nd-- {
			in.Refs = append(in.Refs, c15Ref{K: 'V', ID: lower[r.intn(len(lower))], Style: r.intn(3) / 2})
		}
		if len(p.Funcs) > 0 && r.chance(35) {
			f := p.Funcs[r.intn(len(p.Funcs))]
			if funcRank[f.ID] < rank[si] {
				in.Refs = append(in.Refs, c15Ref{K: 'F', ID: f.ID, Style: r.intn(3)})
			}
		}
		if (rich || mode == c15FalseDep) && r.chance(30) {
			var cands []int
			for sj, s := range p.Specs {
				if sj == si || (sorted && sj >= si) {
					continue
				}
				for _, n := range s.Names {
					if !p.Blank[n] {
						cands = append(cands, n)
					}
				}
			}
			if len(cands) > 0 {
				in.Refs = append(in.Refs, c15Ref{K: 'X', ID: cands[r.intn(len(cands))], Style: r.intn(2)})
			}
		}
		if len(allVars) > 0 && r.chance(12) {
			in.Refs = append(in.Refs, c15Ref{K: 'N', ID: allVars[r.intn(len(allVars))]})
		}
		// shuffle the argument order
		for i := len(in.Refs) - 1; i > 0; i-- {
			j := r.intn(i + 1)
			in.Refs[i], in.Refs[j] = in.Refs[j], in.Refs[i]
		}
		return in
	}
	for si := range p.Specs {
		s := &p.Specs[si]
		switch s.Kind {
		case c15Pair:
			for range s.Names {
				s.Inits = append(s.Inits, mkInit(si))
			}
		case c15Call:
			s.Inits = []c15Init{mkInit(si)}
		}
	}
	if mode == c15Cycle {
		// close a direct cycle: some variable with a dependency gets referenced back by it
		for si := range p.Specs {
			s := &p.Specs[si]
			if s.Kind == c15Pair && !p.Blank[s.Names[0]] && len(s.Inits[0].Refs) > 0 && s.Inits[0].Refs[0].K == 'V' {
				dep := s.Inits[0].Refs[0].ID
				for sj := range p.Specs {
					t := &p.Specs[sj]
					if t.Kind == c15Pair && t.Names[0] == dep {
						t.Inits[0].Refs = append(t.Inits[0].Refs, c15Ref{K: 'V', ID: s.Names[0]})
					}
				}
				break
			}
		}
	}
	p.blankSymbol()
	g.shapes(p)
	// 5. files, groups, init functions
	p.NFiles = 1
	if r.chance(45) {
		p.NFiles = 2 + r.intn(3)
	}
	cuts := map[int]bool{}
	for k := 1; k < p.NFiles; k++ {
		cuts[1+r.intn(nSpecs)] = true
	}
	file := 0
	for si := range p.Specs {
		if cuts[si] && file < p.NFiles-1 {
			file++
		}
		p.Specs[si].File = file
	}
	for si := 0; si+1 < len(p.Specs); si++ {
		if p.Specs[si].File == p.Specs[si+1].File && r.chance(25) {
			p.Grouped[si] = true
		}
	}
	for j := range p.Funcs {
		p.Funcs[j].File = r.intn(p.NFiles)
	}
	return p
}

// decls adds the init functions, main, and look-alikes of the special names to a package whose Main flag is set.
func (g *c15Gen) decls(p *c15Pkg) {
	r := g.r
	var ds []c15Decl
	for k := r.intn(5); k > 0; k-- {
		ds = append(ds, c15Decl{Kind: 'F', Name: 'i', Own: g.log()})
	}
	if p.Main {
		ds = append(ds, c15Decl{Kind: 'F', Name: 'm', Own: 0})
	}
	if r.chance(60) {
		symMain := p.Main // the package scope already has a symbol main
		for k := 1 + r.intn(3); k > 0; k-- {
			d := c15Decl{Own: g.log()}
			switch r.intn(9) {
			case 0:
				d.Kind, d.Name = 'M', 'i'
			case 1:
				d.Kind, d.Name, d.Ptr = 'M', 'i', true
			case 2:
				d.Kind, d.Name, d.Ptr = 'M', 'm', r.bool()
			case 3:
				d.Kind, d.Name, d.Ptr = 'M', 'o', r.bool()
			case 4:
				d.Kind, d.Name, d.Alt = 'F', 'o', r.intn(2)
			case 5, 6:
				if symMain {
					d.Kind, d.Name = 'M', 'i'
				} else {
					d.Kind, d.Name, symMain = 'F', 'm', true
				}
			case 7:
				if symMain {
					d.Kind, d.Name, d.Ptr = 'M', 'm', true
				} else {
					d.Kind, d.Name, symMain = 'V', 'm', true
				}
			default:
				d.Kind, d.Name = 'V', 'o'
			}
			ds = append(ds, d)
		}
	}
	for i := len(ds) - 1; i > 0; i-- {
		j := r.intn(i + 1)
		ds[i], ds[j] = ds[j], ds[i]
	}
	file := 0
	var leaves []int
	for i := range ds {
		if file < p.NFiles-1 && r.chance(40) {
			file++
		}
		ds[i].File = file
		if !ds[i].runsByItself(p.Main) {
			leaves = append(leaves, i)
		}
	}
	for i := range ds {
		d := &ds[i]
		if !d.runsByItself(p.Main) {
			continue
		}
		if len(leaves) > 0 && r.chance(45) {
			for k := 1 + r.intn(2); k > 0; k-- {
				d.Body = append(d.Body, c15Stmt{K: 'c', Target: leaves[r.intn(len(leaves))]})
			}
		}
		names := []byte{'i', 'm'}
		if r.bool() {
			names[0], names[1] = names[1], names[0]
		}
		if r.chance(30) {
			d.Body = append(d.Body, c15Stmt{K: 'l', Name: names[0], Mark: g.log(), Called: r.chance(70)})
			names = names[1:]
		}
		if r.chance(20) {
			d.Body = append(d.Body, c15Stmt{K: 'v', Name: names[0]})
		}
		if r.chance(15) {
			d.Body = append(d.Body, c15Stmt{K: 's'})
		}
	}
	p.Decls = ds
}

// runsByItself: Go runs this declaration during initialisation (func init(); func main() of package main).
func (d c15Decl) runsByItself(pkgMain bool) bool {
	return d.Kind == 'F' && (d.Name == 'i' || d.Name == 'm' && pkgMain)
}

type c15SD struct {
	Kind, Name string
	Marks      []int
}

// modelDecls flattens the declarations into the model's list: a function literal follows the declaration containing it.
func (p *c15Pkg) modelDecls() []c15SD {
	kind := map[byte]string{'F': "DFunc", 'M': "DMethod", 'V': "DVar"}
	name := map[byte]string{'i': "NInit", 'm': "NMain", 'o': "NOther"}
	var out []c15SD
	for _, d := range p.Decls {
		sd := c15SD{Kind: kind[d.Kind], Name: name[d.Name], Marks: []int{d.Own}}
		var lits []c15SD
		for _, st := range d.Body {
			switch st.K {
			case 'c':
				sd.Marks = append(sd.Marks, p.Decls[st.Target].Own)
			case 'l':
				if st.Called {
					sd.Marks = append(sd.Marks, st.Mark)
				}
				lits = append(lits, c15SD{Kind: "DLit", Name: name[st.Name], Marks: []int{st.Mark}})
			}
		}
		out = append(out, sd)
		out = append(out, lits...)
	}
	return out
}

func (d c15Decl) ident() string {
	switch d.Name {
	case 'i':
		return "init"
	case 'm':
		return "main"
	}
	switch {
	case d.Kind == 'V':
		return fmt.Sprintf("initFn%d", d.Own)
	case d.Kind == 'M':
		return "Init"
	case d.Alt == 1:
		return fmt.Sprintf("init%d", d.Own)
	}
	return fmt.Sprintf("Init%d", d.Own)
}

func (d c15Decl) callExpr() string {
	if d.Kind == 'M' {
		if d.Ptr {
			return fmt.Sprintf("(&k%d{}).%s()", d.Own, d.ident())
		}
		return fmt.Sprintf("k%d{}.%s()", d.Own, d.ident())
	}
	return d.ident() + "()"
}

func (p *c15Pkg) declText(d c15Decl) string {
	var b strings.Builder
	switch d.Kind {
	case 'V':
		fmt.Fprintf(&b, "var %s = func() { lg(%d) }\n", d.ident(), d.Own)
		return b.String()
	case 'M':
		star := ""
		if d.Ptr {
			star = "*"
		}
		fmt.Fprintf(&b, "type k%d struct{}\n\nfunc (k %sk%d) %s() { lg(%d) }\n", d.Own, star, d.Own, d.ident(), d.Own)
		return b.String()
	}
	if len(d.Body) == 0 {
		fmt.Fprintf(&b, "func %s() { lg(%d) }\n", d.ident(), d.Own)
		return b.String()
	}
	fmt.Fprintf(&b, "func %s() {\n\tlg(%d)\n", d.ident(), d.Own)
	local := map[byte]string{'i': "init", 'm': "main"}
	for _, st := range d.Body {
		switch st.K {
		case 'c':
			b.WriteString("\t" + p.Decls[st.Target].callExpr() + "\n")
		case 'l':
			fmt.Fprintf(&b, "\t%s := func() { lg(%d) }\n", local[st.Name], st.Mark)
			if st.Called {
				fmt.Fprintf(&b, "\t%s()\n", local[st.Name])
			} else {
				fmt.Fprintf(&b, "\t_ = %s\n", local[st.Name])
			}
		case 'v':
			fmt.Fprintf(&b, "\t%s := 5\n\t_ = %s\n", local[st.Name], local[st.Name])
		case 's':
			b.WriteString("\t_ = struct{ init, main int }{init: 1, main: 2}\n")
		}
	}
	b.WriteString("}\n")
	return b.String()
}

// bodyFor generates package bodies until the wanted relation to the side condition holds (bounded).
// blankSymbol adds what the source says without our writing it: every declaration with a blank on its left mentions
// the identifier `_`. yaegi's package scope has ONE symbol `_`, (re)declared by each declaration with a blank in source
// order (gta): `var ..., _, ... = e1, ...` makes it a global variable owned by that declaration, `var _, x = f()`
// makes it a non-global symbol without declaration (compDefineX). So, when the last declaration with a blank is of the
// first form, each other declaration with a blank depends on it for yaegi; when it is of the second form nothing
// depends on anything. For Go a blank denotes nothing: an 'X' occurrence.
func (p *c15Pkg) blankSymbol() {
	owner, ownerID := -1, 0
	for si, s := range p.Specs {
		if s.Kind == c15NoInit {
			continue
		}
		for _, n := range s.Names {
			if p.Blank[n] {
				owner, ownerID = si, n
				if s.Kind == c15Call {
					owner = -1
				}
				break
			}
		}
	}
	if owner < 0 {
		return
	}
	for si := range p.Specs {
		s := &p.Specs[si]
		if si == owner || len(s.Inits) == 0 {
			continue
		}
		for _, n := range s.Names {
			if p.Blank[n] {
				s.Inits[0].Refs = append(s.Inits[0].Refs, c15Ref{K: 'X', ID: ownerID, Hidden: true})
				break
			}
		}
	}
}

func (g *c15Gen) bodyFor(mode c15Mode, nSpecs int) *c15Pkg {
	var p *c15Pkg
	for try := 0; try < 40; try++ {
		p = g.body(mode, nSpecs)
		switch mode {
		case c15MainSorted:
			return p
		case c15MainPlain:
			if p.side() && !p.declSorted() {
				return p
			}
		case c15MainPlainRegress:
			if p.side() && p.fixSensitive() {
				return p
			}
		case c15Cycle:
			if _, left := c15YSched(p.yNodes()); len(left) > 0 {
				return p
			}
		default:
			if p.region() != "" {
				y, yok := c15Logs(c15YSched(p.yNodes()))
				gg, gok := c15Logs(c15GSched(p.gNodes()))
				if yok != gok || fmt.Sprint(y) != fmt.Sprint(gg) || try > 30 {
					return p
				}
			}
		}
	}
	if mode == c15MainPlain || mode == c15MainPlainRegress {
		return g.body(c15MainSorted, nSpecs)
	}
	return p
}

func (g *c15Gen) program(mode c15Mode, multiPkg, shufflePkgs bool) *c15Prog {
	r := g.r
	prog := &c15Prog{}
	nExtra := 0
	if multiPkg {
		nExtra = 1 + r.intn(3)
	}
	mainMode := func() c15Mode {
		if r.bool() {
			return c15MainSorted
		}
		return c15MainPlain
	}
	for i := 0; i < nExtra; i++ {
		p := g.bodyFor(mainMode(), 2+r.intn(4))
		p.ID = i + 1
		g.decls(p)
		// import graph: only packages created before => acyclic
		for j := 0; j < i; j++ {
			if r.chance(45) {
				p.Imports = append(p.Imports, c15Import{Pkg: j + 1})
			}
		}
		prog.Pkgs = append(prog.Pkgs, p)
	}
	m := g.bodyFor(mode, 5+r.intn(8))
	if (mode == c15MainSorted || mode == c15MainPlain) && r.chance(18) {
		// a package without package-level variables: only functions, init functions, main
		m = &c15Pkg{NFiles: 1 + r.intn(2)*r.intn(2), Grouped: map[int]bool{}, Blank: map[int]bool{}, Shape: map[int]int{}}
	}
	m.ID, m.Main = 90, true
	g.decls(m)
	prog.Entry = 90
	imported := map[int]bool{}
	for _, p := range prog.Pkgs {
		for _, im := range p.Imports {
			imported[im.Pkg] = true
		}
	}
	for i := 0; i < nExtra; i++ {
		if !imported[i+1] || r.chance(30) {
			m.Imports = append(m.Imports, c15Import{Pkg: i + 1})
		}
	}
	prog.Pkgs = append(prog.Pkgs, m)
	for _, p := range prog.Pkgs {
		// import order within the package, placement in files, duplicates across files
		for i := len(p.Imports) - 1; i > 0; i-- {
			j := r.intn(i + 1)
			p.Imports[i], p.Imports[j] = p.Imports[j], p.Imports[i]
		}
		if p.NFiles > 1 && len(p.Imports) > 0 && r.chance(30) {
			p.Imports = append(p.Imports, p.Imports[r.intn(len(p.Imports))])
		}
		file := 0
		for i := range p.Imports {
			if file < p.NFiles-1 && r.chance(40) {
				file++
			}
			p.Imports[i].File = file
			p.Imports[i].Blank = r.chance(60)
		}
		// the same package twice in one file is an error for the compiler
		seen := map[[2]int]bool{}
		var imps []c15Import
		for _, im := range p.Imports {
			if !seen[[2]int{im.Pkg, im.File}] {
				seen[[2]int{im.Pkg, im.File}] = true
				imps = append(imps, im)
			}
		}
		p.Imports = imps
		g.fileNames(p)
	}
	if nExtra > 0 {
		// rename the packages: either so that yaegi's depth-first order is the import-path order, or at random
		order := prog.yPkgOrder()
		newID := map[int]int{90: 90}
		perm := make([]int, nExtra)
		for i := range perm {
			perm[i] = i + 1
		}
		if shufflePkgs {
			for i := len(perm) - 1; i > 0; i-- {
				j := r.intn(i + 1)
				perm[i], perm[j] = perm[j], perm[i]
			}
		}
		k := 0
		for _, id := range order {
			if id != 90 {
				newID[id] = perm[k]
				k++
			}
		}
		for _, p := range prog.Pkgs {
			p.ID = newID[p.ID]
			for i := range p.Imports {
				p.Imports[i].Pkg = newID[p.Imports[i].Pkg]
			}
		}
		sort.Slice(prog.Pkgs, func(i, j int) bool { return prog.Pkgs[i].ID < prog.Pkgs[j].ID })
	}
	return prog
}

// ---------------------------------------------------------------- witnesses of the theorems (coq/Init/Cases.v [witnesses], same order)

func c15V(n int, refs ...c15Ref) c15Spec {
	return c15Spec{Kind: c15Pair, Names: []int{n}, Inits: []c15Init{{Log: n, Refs: refs}}}
}
func c15RV(n int) c15Ref { return c15Ref{K: 'V', ID: n} }
func c15RF(n int) c15Ref { return c15Ref{K: 'F', ID: n} }
func c15RX(n int) c15Ref { return c15Ref{K: 'X', ID: n} }

func c15Body(specs []c15Spec, funcs ...c15Func) *c15Pkg {
	return &c15Pkg{Specs: specs, Funcs: funcs, NFiles: 1, Grouped: map[int]bool{}}
}

func c15Single(p *c15Pkg) *c15Prog {
	p.ID, p.Main = 9, true
	p.Decls = append(p.Decls, c15Decl{Kind: 'F', Name: 'm', Own: 0})
	return &c15Prog{Pkgs: []*c15Pkg{p}, Entry: 9}
}

func c15Witnesses() []*c15Prog {
	wPlain := func() *c15Pkg { return c15Body([]c15Spec{c15V(1, c15RV(3)), c15V(2), c15V(3)}) }
	wSorted := func() *c15Pkg {
		return c15Body([]c15Spec{
			c15V(1),
			{Kind: c15Call, Names: []int{2, 3}, Inits: []c15Init{{Log: 2, Refs: []c15Ref{c15RV(1)}}}},
			c15V(4, c15RF(10), c15RX(1)),
			{Kind: c15Pair, Names: []int{5, 6}, Inits: []c15Init{{Log: 5, Refs: []c15Ref{c15RV(3)}}, {Log: 6, Refs: []c15Ref{c15RV(4)}}}},
		}, c15Func{ID: 10, Refs: []c15Ref{c15RV(2), c15RF(11)}}, c15Func{ID: 11, Refs: []c15Ref{c15RV(1), {K: 'F', ID: 10, Guard: true}}})
	}
	mk := func(id int, imports []int, body *c15Pkg, inits []int, main bool) *c15Pkg {
		body.ID, body.Main = id, main
		for _, q := range imports {
			body.Imports = append(body.Imports, c15Import{Pkg: q, Blank: true})
		}
		for _, l := range inits {
			body.Decls = append(body.Decls, c15Decl{Kind: 'F', Name: 'i', Own: l})
		}
		if main {
			body.Decls = append(body.Decls, c15Decl{Kind: 'F', Name: 'm', Own: 0})
		}
		return body
	}
	// w_sorted reads v2, declared by `var v2, v3 = lg2(...)`, from f10: yaegi cannot do that from a function
	// body that runs (host panic, unrelated to ordering), so the reference sits under `if false`.
	ws := wSorted()
	ws.Funcs[0].Refs[0].Guard = true
	ws2 := wSorted()
	ws2.Funcs[0].Refs[0].Guard = true
	return []*c15Prog{
		c15Single(c15Body([]c15Spec{c15V(1, c15RV(3)), c15V(2, c15RV(1)), c15V(3), c15V(4)})),
		c15Single(c15Body([]c15Spec{c15V(1, c15RF(10)), c15V(2)}, c15Func{ID: 10, Refs: []c15Ref{c15RV(2)}})),
		c15Single(c15Body([]c15Spec{c15V(1, c15RV(2)), {Kind: c15Call, Names: []int{2, 3}, Inits: []c15Init{{Log: 2, Refs: []c15Ref{c15RV(4)}}}}, c15V(4)})),
		c15Single(c15Body([]c15Spec{{Kind: c15Pair, Names: []int{1, 2}, Inits: []c15Init{{Log: 1, Refs: []c15Ref{c15RV(3)}}, {Log: 2}}}, c15V(3)})),
		c15Single(c15Body([]c15Spec{c15V(1, c15RX(2)), c15V(2)})),
		c15Single(c15Body([]c15Spec{c15V(1, c15RX(2)), c15V(2, c15RV(1))})),
		{Pkgs: []*c15Pkg{
			mk(1, nil, c15Body([]c15Spec{c15V(11)}), []int{12}, false),
			mk(2, nil, c15Body([]c15Spec{c15V(21)}), []int{22}, false),
			mk(9, []int{2, 1}, c15Body([]c15Spec{c15V(91)}), nil, true)}, Entry: 9},
		c15Single(c15Body([]c15Spec{c15V(1, c15RV(4)), c15V(2, c15RV(3)), {Kind: c15Call, Names: []int{3, 4}, Inits: []c15Init{{Log: 3}}}})),
		c15Single(c15Body([]c15Spec{c15V(1, c15RV(3)), c15V(2), {Kind: c15NoInit, Names: []int{3}}})),
		c15Single(wPlain()),
		c15Single(ws),
		{Pkgs: []*c15Pkg{
			mk(1, nil, wPlain(), []int{7}, false),
			mk(2, []int{1}, ws2, []int{8}, false),
			mk(9, []int{1, 2}, wPlain(), []int{9}, true)}, Entry: 9},
		c15Single(c15Body([]c15Spec{c15V(1, c15RV(2)), c15V(2, c15RV(1)), c15V(3)})),
		c15WSpecial(),
		c15WBlanks(),
	}
}

// c15WBlanks is w_blanks of coq/Init/Proofs.v: var _ = lg(1); var _ int = lg(2); var _ = lg(3).
func c15WBlanks() *c15Prog {
	p := c15Body([]c15Spec{c15V(1), c15V(2), c15V(3)})
	p.Specs[1].Typed = true
	p.Blank = map[int]bool{1: true, 2: true, 3: true}
	p.blankSymbol()
	return c15Single(p)
}

// c15WSpecial is w_special of coq/Init/Proofs.v: look-alikes of init and main in every package.
func c15WSpecial() *c15Prog {
	p1 := c15Body(nil)
	p1.ID = 1
	p1.Decls = []c15Decl{
		{Kind: 'M', Name: 'i', Own: 21},
		{Kind: 'F', Name: 'i', Own: 3},
		{Kind: 'F', Name: 'm', Own: 22},
		{Kind: 'F', Name: 'i', Own: 4, Body: []c15Stmt{{K: 'c', Target: 2}}},
	}
	p2 := c15Body(nil)
	p2.ID = 2
	p2.Decls = []c15Decl{{Kind: 'V', Name: 'm', Own: 23}, {Kind: 'F', Name: 'i', Own: 5}}
	m := c15Body(nil)
	m.ID, m.Main = 9, true
	m.Imports = []c15Import{{Pkg: 1, Blank: true}, {Pkg: 2, Blank: true}}
	m.Decls = []c15Decl{
		{Kind: 'M', Name: 'i', Own: 11},
		{Kind: 'M', Name: 'i', Own: 12, Ptr: true},
		{Kind: 'M', Name: 'm', Own: 13},
		{Kind: 'M', Name: 'o', Own: 14},
		{Kind: 'F', Name: 'o', Own: 15},
		{Kind: 'V', Name: 'o', Own: 17},
		{Kind: 'F', Name: 'i', Own: 1, Body: []c15Stmt{{K: 'c', Target: 0}, {K: 'c', Target: 1}, {K: 'l', Name: 'i', Mark: 18, Called: true}, {K: 'c', Target: 4}, {K: 'v', Name: 'm'}, {K: 's'}}},
		{Kind: 'F', Name: 'i', Own: 2, Body: []c15Stmt{{K: 'c', Target: 5}}},
		{Kind: 'F', Name: 'm', Own: 0, Body: []c15Stmt{{K: 'l', Name: 'm', Mark: 19, Called: true}, {K: 'v', Name: 'i'}, {K: 'c', Target: 2}}},
	}
	return &c15Prog{Pkgs: []*c15Pkg{p1, p2, m}, Entry: 9}
}

// ---------------------------------------------------------------- rendering: Go source

func c15PkgName(id int) string { return fmt.Sprintf("p%02d", id) }

func (p *c15Pkg) refExpr(r c15Ref) string {
	switch r.K {
	case 'V':
		sel := c15Shapes[p.Shape[r.ID]].sel
		if r.Style == 1 {
			return fmt.Sprintf("func() int { return v%d%s }()", r.ID, sel)
		}
		return fmt.Sprintf("v%d%s", r.ID, sel)
	case 'N':
		return fmt.Sprintf("s%d{}.v%d", r.ID, r.ID)
	case 'X':
		if r.Style == 1 {
			return fmt.Sprintf("s%d{v%d: 1}.v%d", r.ID, r.ID, r.ID)
		}
		return fmt.Sprintf("func(v%d int) int { return v%d }(0)", r.ID, r.ID)
	}
	f := p.findFunc(r.ID)
	if f != nil && f.Method {
		switch r.Style {
		case 1:
			return fmt.Sprintf("T.m%d(T{})", r.ID)
		case 2:
			return fmt.Sprintf("ap(T{}.m%d)", r.ID)
		}
		return fmt.Sprintf("T{}.m%d()", r.ID)
	}
	if r.Style == 1 {
		return fmt.Sprintf("ap(f%d)", r.ID)
	}
	return fmt.Sprintf("f%d()", r.ID)
}

func (p *c15Pkg) initExpr(fn string, in c15Init) string {
	args := []string{strconv.Itoa(in.Log)}
	for _, r := range in.Refs {
		if !r.Hidden {
			args = append(args, p.refExpr(r))
		}
	}
	return fn + "(" + strings.Join(args, ", ") + ")"
}

func (p *c15Pkg) vnames(ns []int) string {
	l := make([]string, len(ns))
	for i, n := range ns {
		l[i] = fmt.Sprintf("v%d", n)
		if p.Blank[n] {
			l[i] = "_"
		}
	}
	return strings.Join(l, ", ")
}

// Forms of the initialiser of `var x = e` around the logging call: the mark must be printed at x's place in the order
// whatever the syntactic form of e (the ordering code looks at node kinds) and whatever x's type.
var c15Shapes = []struct {
	name, typ, open, close, sel string
	zeroSafe                    bool // reading x before its initialisation (possible under yaegi's known defects) does not panic
}{
	{"call", "int", "", "", "", true},
	{"struct literal", "W", "W{", "}", ".X", true},
	{"keyed struct literal", "W", "W{X: ", "}", ".X", true},
	{"slice literal", "[]int", "[]int{", "}", "[0]", false},
	{"array literal", "[1]int", "[1]int{", "}", "[0]", true},
	{"map literal", "map[string]int", "map[string]int{\"k\": ", "}", "[\"k\"]", true},
	{"pointer to struct literal", "*W", "&W{", "}", ".X", false},
	{"parenthesised call", "int", "(", ")", "", true},
	{"binary expression", "int", "", " + 0", "", true},
	{"conversion", "int", "int(", ")", "", true},
	{"call of a function literal", "int", "func() int { return ", " }()", "", true},
	{"nested composite literal", "[]W", "[]W{{", "}}", "[0].X", false},
}

// shapes gives every `var x = e` (one variable) of the package a form; forms whose zero value cannot be read are kept
// for variables that nothing refers to.
func (g *c15Gen) shapes(p *c15Pkg) {
	p.Shape = map[int]int{}
	used := map[int]bool{}
	for _, s := range p.Specs {
		for _, in := range s.Inits {
			for _, r := range in.Refs {
				if r.K == 'V' {
					used[r.ID] = true
				}
			}
		}
	}
	for _, f := range p.Funcs {
		for _, r := range f.Refs {
			if r.K == 'V' {
				used[r.ID] = true
			}
		}
	}
	nBlankDecls := 0
	for _, s := range p.Specs {
		for _, n := range s.Names {
			if p.Blank[n] {
				nBlankDecls++
				break
			}
		}
	}
	for _, s := range p.Specs {
		if s.Kind != c15Pair || len(s.Names) != 1 || g.r.chance(45) {
			continue
		}
		// Several blank variables of different types in one package make yaegi panic in the host (reflect.Set: value of
		// type []int is not assignable to type int): they share one symbol `_`, hence one typed slot. Same root cause as
		// finding C15-blank-shared, not an ordering matter and not predictable by Y: such blanks keep the plain form.
		if p.Blank[s.Names[0]] && nBlankDecls > 1 {
			continue
		}
		sh := 1 + g.r.intn(len(c15Shapes)-1)
		if !c15Shapes[sh].zeroSafe && used[s.Names[0]] {
			sh = 1 + g.r.intn(2)
		}
		p.Shape[s.Names[0]] = sh
	}
}

func (p *c15Pkg) specText(s c15Spec) string {
	typ := ""
	if s.Typed {
		typ = " int"
	}
	if s.Kind == c15Pair && len(s.Names) == 1 && p.Shape[s.Names[0]] != 0 {
		sh := c15Shapes[p.Shape[s.Names[0]]]
		if s.Typed {
			typ = " " + sh.typ
		}
		return p.vnames(s.Names) + typ + " = " + sh.open + p.initExpr("lg", s.Inits[0]) + sh.close
	}
	switch s.Kind {
	case c15NoInit:
		return p.vnames(s.Names) + " int"
	case c15Call:
		return p.vnames(s.Names) + typ + " = " + p.initExpr(fmt.Sprintf("lg%d", len(s.Names)), s.Inits[0])
	}
	es := make([]string, len(s.Inits))
	for i, in := range s.Inits {
		es[i] = p.initExpr("lg", in)
	}
	return p.vnames(s.Names) + typ + " = " + strings.Join(es, ", ")
}

// Pools of file names whose byte order (the order in which the go tool hands the files of a package to the compiler,
// hence the declaration order across files and the order of the init functions) differs from the case-folded order,
// from the numeric order or from the usual writing order. No two names of a pool collide under case folding (the go
// tool rejects that), none starts with '_' or '.', none ends in _test or in a GOOS/GOARCH suffix.
var c15NamePools = [][]string{
	{"Zeta.go", "alpha.go", "Beta.go", "gamma.go", "Omega.go"},
	{"B.go", "a.go", "C.go", "d.go", "E.go"},
	{"x10.go", "x9.go", "x_a.go", "x2.go", "xA.go"},
	{"a_b.go", "aB.go", "a.go", "ac.go", "a-b.go"},
	{"10.go", "9.go", "A1.go", "a0.go", "Z_z.go"},
	{"main.go", "Init.go", "vars.go", "Util.go", "doc.go"},
}

// fileNames draws the names of the files of a multi-file package from one pool and assigns them to the file indices in
// byte order: the file index stays the position of the file in the go tool's presentation order.
func (g *c15Gen) fileNames(p *c15Pkg) {
	if p.NFiles < 2 || g.r.chance(25) {
		return
	}
	pool := append([]string(nil), c15NamePools[g.r.intn(len(c15NamePools))]...)
	for i := len(pool) - 1; i > 0; i-- {
		j := g.r.intn(i + 1)
		pool[i], pool[j] = pool[j], pool[i]
	}
	names := pool[:p.NFiles]
	sort.Strings(names)
	p.Names = names
}

func (p *c15Pkg) fileName(f int) string {
	if p.Names != nil {
		return p.Names[f]
	}
	return string(rune('a'+f)) + ".go"
}

// c15FoldSorted reports whether the byte order of the names is also their case-folded order.
func c15FoldSorted(names []string) bool {
	for i := 0; i+1 < len(names); i++ {
		if strings.ToLower(names[i]) > strings.ToLower(names[i+1]) {
			return false
		}
	}
	return true
}

// files renders the package; keys are the file names (a.go, b.go, c.go unless Names is set).
func (p *c15Pkg) files(prefix string) map[string]string {
	out := map[string]string{}
	for f := 0; f < p.NFiles; f++ {
		var b strings.Builder
		if p.Main {
			b.WriteString("package main\n\n")
		} else {
			b.WriteString("package " + c15PkgName(p.ID) + "\n\n")
		}
		if f == 0 {
			b.WriteString("import \"fmt\"\n")
		}
		var uses []int
		for _, im := range p.Imports {
			if im.File != f {
				continue
			}
			path := prefix + "/" + c15PkgName(im.Pkg)
			if im.Blank {
				fmt.Fprintf(&b, "import _ %q\n", path)
			} else {
				fmt.Fprintf(&b, "import %q\n", path)
				uses = append(uses, im.Pkg)
			}
		}
		b.WriteString("\n")
		for _, u := range uses {
			fmt.Fprintf(&b, "func use%d_%d() int { return %s.Touch() }\n", u, f, c15PkgName(u))
		}
		if f == 0 {
			b.WriteString("type T struct{}\n\ntype W struct{ X int }\n\n")
			b.WriteString("func lg(id int, deps ...int) int { fmt.Print(id, \" \"); return id }\n")
			b.WriteString("func lg2(id int, deps ...int) (int, int) { fmt.Print(id, \" \"); return id, id }\n")
			b.WriteString("func lg3(id int, deps ...int) (int, int, int) { fmt.Print(id, \" \"); return id, id, id }\n")
			b.WriteString("func ap(f func() int) int { return f() }\n")
			if !p.Main {
				b.WriteString("func Touch() int { return 0 }\n")
			}
			structs := map[int]bool{}
			for _, s := range p.Specs {
				for _, in := range s.Inits {
					for _, r := range in.Refs {
						if (r.K == 'X' && r.Style == 1 && !r.Hidden || r.K == 'N') && !structs[r.ID] {
							structs[r.ID] = true
							fmt.Fprintf(&b, "type s%d struct{ v%d int }\n", r.ID, r.ID)
						}
					}
				}
			}
			b.WriteString("\n")
		}
		inGroup := false
		for si, s := range p.Specs {
			if s.File != f {
				continue
			}
			switch {
			case inGroup:
				b.WriteString("\t" + p.specText(s) + "\n")
				if !p.Grouped[si] {
					b.WriteString(")\n")
					inGroup = false
				}
			case p.Grouped[si]:
				b.WriteString("var (\n\t" + p.specText(s) + "\n")
				inGroup = true
			default:
				b.WriteString("var " + p.specText(s) + "\n")
			}
		}
		b.WriteString("\n")
		for _, fn := range p.Funcs {
			if fn.File != f {
				continue
			}
			var guarded, plainTerms []string
			for _, r := range fn.Refs {
				rr := r
				rr.Style = 0
				if r.Guard {
					guarded = append(guarded, p.refExpr(rr))
				} else {
					plainTerms = append(plainTerms, p.refExpr(rr))
				}
			}
			if fn.Method {
				fmt.Fprintf(&b, "func (T) m%d() int {\n", fn.ID)
			} else {
				fmt.Fprintf(&b, "func f%d() int {\n", fn.ID)
			}
			if len(guarded) > 0 {
				b.WriteString("\tif false {\n\t\treturn " + strings.Join(guarded, " + ") + "\n\t}\n")
			}
			b.WriteString("\treturn " + strings.Join(append([]string{"0"}, plainTerms...), " + ") + "\n}\n")
		}
		for _, d := range p.Decls {
			if d.File == f {
				b.WriteString(p.declText(d))
			}
		}
		out[p.fileName(f)] = b.String()
	}
	return out
}

// sources of the whole program, relative to the program directory; import paths start with prefix.
func (g *c15Prog) sources(prefix string) map[string]string {
	out := map[string]string{}
	for _, p := range g.Pkgs {
		dir := ""
		if !p.Main {
			dir = c15PkgName(p.ID) + "/"
		}
		for fn, src := range p.files(prefix) {
			out[dir+fn] = src
		}
	}
	return out
}

// ---------------------------------------------------------------- rendering: Gallina

func c15CoqIDs(l []int) string {
	it := make([]string, len(l))
	for i, x := range l {
		it[i] = strconv.Itoa(x)
	}
	return coqList(it)
}

func c15CoqRefs(rs []c15Ref) string {
	var it []string
	for _, r := range rs {
		if r.K != 'N' {
			it = append(it, fmt.Sprintf("R%c %d", r.K, r.ID))
		}
	}
	return coqList(it)
}

func c15CoqInit(in c15Init) string { return fmt.Sprintf("(IN %d %s)", in.Log, c15CoqRefs(in.Refs)) }

func (p *c15Pkg) coq() string {
	var specs, funcs []string
	for _, s := range p.Specs {
		switch s.Kind {
		case c15NoInit:
			specs = append(specs, "SNoInit "+c15CoqIDs(s.Names))
		case c15Call:
			specs = append(specs, fmt.Sprintf("SCall %s %s", c15CoqIDs(s.Names), c15CoqInit(s.Inits[0])))
		default:
			var bs []string
			for i, n := range s.Names {
				bs = append(bs, fmt.Sprintf("(%d, %s)", n, c15CoqInit(s.Inits[i])))
			}
			specs = append(specs, "SPair "+coqList(bs))
		}
	}
	for _, f := range p.Funcs {
		funcs = append(funcs, fmt.Sprintf("FN %d %s", f.ID, c15CoqRefs(f.Refs)))
	}
	var imps []int
	for _, im := range p.Imports {
		imps = append(imps, im.Pkg)
	}
	var decls []string
	for _, d := range p.modelDecls() {
		decls = append(decls, fmt.Sprintf("SD %s %s %s", d.Kind, d.Name, c15CoqIDs(d.Marks)))
	}
	return fmt.Sprintf("PK %d %s (BD %s %s) %s %s", p.ID, c15CoqIDs(imps), coqList(specs), coqList(funcs), coqList(decls), coqBool(p.Main))
}

func (g *c15Prog) coq() string {
	ps := make([]string, len(g.Pkgs))
	for i, p := range g.Pkgs {
		ps[i] = p.coq()
	}
	return fmt.Sprintf("(mkprog %s %d)", coqList(ps), g.Entry)
}

// observation: marks printed, or rejected (nil, false); odd = anything else (crash, unrelated error)
type c15Obs struct {
	OK    bool   `json:"accepted"`
	Marks []int  `json:"marks"`
	Odd   string `json:"odd,omitempty"`
}

func (o c15Obs) coq() string {
	if o.Odd != "" {
		return "(Some [999999])"
	}
	if !o.OK {
		return "None"
	}
	return "(Some " + c15CoqIDs(o.Marks) + ")"
}

func (o c15Obs) key() string { return fmt.Sprint(o.OK, o.Marks, o.Odd) }

func c15Observe(r outcome, rejectMsg string) c15Obs {
	if strings.HasPrefix(r.End, "compile-error:") && strings.Contains(r.End, rejectMsg) {
		return c15Obs{}
	}
	if r.End != "ok" {
		return c15Obs{Odd: r.End + " stdout=" + r.Stdout}
	}
	o := c15Obs{OK: true, Marks: []int{}}
	for _, f := range strings.Fields(r.Stdout) {
		n, err := strconv.Atoi(f)
		if err != nil {
			return c15Obs{Odd: "stdout=" + r.Stdout}
		}
		o.Marks = append(o.Marks, n)
	}
	return o
}

const c15Loop = "variable definition loop"

// c15RunPath evaluates the program laid out as a GOPATH tree in a MapFS through EvalPath (importSrc).
func c15RunPath(files map[string]string, prefix string, timeout time.Duration) (res outcome) {
	return c15RunPathOn(files, prefix, false, timeout)
}

// c15RunPathOn: EvalPath of the program directory, on an in-memory tree (fstest.MapFS) or on a real directory tree
// (a temporary GOPATH read through the default file system of the interpreter).
func c15RunPathOn(files map[string]string, prefix string, disk bool, timeout time.Duration) (res outcome) {
	mfs := fstest.MapFS{}
	opts := interp.Options{GoPath: "."}
	if disk {
		root, err := os.MkdirTemp("", "c15disk")
		if err != nil {
			return outcome{End: "host-crash:mkdirtemp:" + err.Error()}
		}
		defer os.RemoveAll(root)
		for fn, src := range files {
			path := filepath.Join(root, "src", filepath.FromSlash(prefix), filepath.FromSlash(fn))
			if err := os.MkdirAll(filepath.Dir(path), 0o755); err != nil {
				return outcome{End: "host-crash:mkdir:" + err.Error()}
			}
			if err := os.WriteFile(path, []byte(src), 0o644); err != nil {
				return outcome{End: "host-crash:write:" + err.Error()}
			}
		}
		opts.GoPath = root
	} else {
		for fn, src := range files {
			mfs["src/"+prefix+"/"+fn] = &fstest.MapFile{Data: []byte(src)}
		}
		opts.SourcecodeFilesystem = mfs
	}
	var stdout, stderr bytes.Buffer
	opts.Stdout, opts.Stderr = &stdout, &stderr
	done := make(chan outcome, 1)
	go func() {
		var r outcome
		defer func() {
			if p := recover(); p != nil {
				r.Stdout = stdout.String()
				r.End = "host-crash:" + fmt.Sprint(p)
			}
			done <- r
		}()
		i := interp.New(opts)
		if err := i.Use(stdlib.Symbols); err != nil {
			r.End = "host-crash:use:" + err.Error()
			return
		}
		_, err := i.EvalPath(prefix)
		r.Stdout = stdout.String()
		r.End = yaegiEnd(err)
	}()
	select {
	case r := <-done:
		return r
	case <-time.After(timeout):
		return outcome{Stdout: stdout.String(), End: "timeout"}
	}
}

// History of the interpreter before the program is evaluated: the order of initialisation must not depend on it.
var c15Histories = []string{"fresh interpreter", "after a successful evaluation", "after an evaluation cancelled by its context",
	"after an evaluation that does not compile", "after an evaluation that panicked"}

// c15RunHistory evaluates the program (Eval of the single file, or EvalPath on the MapFS tree) on an interpreter with
// the given history. No real-time bound matters: the cancelled evaluation is started with a context that is already
// cancelled.
func c15RunHistory(files map[string]string, prefix string, viaPath bool, hist int, timeout time.Duration) (res outcome) {
	mfs := fstest.MapFS{}
	for fn, src := range files {
		mfs["src/"+prefix+"/"+fn] = &fstest.MapFile{Data: []byte(src)}
	}
	var stdout, stderr bytes.Buffer
	done := make(chan outcome, 1)
	go func() {
		var r outcome
		defer func() {
			if p := recover(); p != nil {
				r.Stdout = stdout.String()
				r.End = "host-crash:" + fmt.Sprint(p)
			}
			done <- r
		}()
		i := interp.New(interp.Options{GoPath: ".", SourcecodeFilesystem: mfs, Stdout: &stdout, Stderr: &stderr})
		if err := i.Use(stdlib.Symbols); err != nil {
			r.End = "host-crash:use:" + err.Error()
			return
		}
		switch hist {
		case 1:
			if _, err := i.Eval("1 + 1"); err != nil {
				r.End = "host-crash:prelude:" + err.Error()
				return
			}
		case 2:
			// An evaluation whose context is already cancelled: EvalWithContext stops the interpreter (the run id
			// advances) and returns; the evaluation itself is trivial, so its goroutine has nothing left to do when the
			// program is evaluated next (an evaluation that blocks or loops would still be winding down concurrently).
			ctx, cancel := context.WithCancel(context.Background())
			cancel()
			i.EvalWithContext(ctx, "1 + 1")
			time.Sleep(20 * time.Millisecond)
		case 3:
			if _, err := i.Eval("func ("); err == nil {
				r.End = "host-crash:prelude: syntax error accepted"
				return
			}
		case 4:
			if _, err := i.Eval("panic(1)"); err == nil {
				r.End = "host-crash:prelude: panic not reported"
				return
			}
		}
		stdout.Reset()
		var err error
		if viaPath {
			_, err = i.EvalPath(prefix)
		} else {
			ctx, cancel := context.WithTimeout(context.Background(), timeout)
			defer cancel()
			_, err = i.EvalWithContext(ctx, files["a.go"])
		}
		r.Stdout = stdout.String()
		r.End = yaegiEnd(err)
	}()
	select {
	case r := <-done:
		return r
	case <-time.After(timeout + 10*time.Second):
		return outcome{Stdout: stdout.String(), End: "timeout"}
	}
}

// ---------------------------------------------------------------- driver

func runC15(args []string) error {
	fs := flag.NewFlagSet("c15", flag.ExitOnError)
	out := fs.String("out", "/verif/build/C15", "output directory")
	tier := fs.String("tier", "quick", "quick|thorough")
	seed := fs.Uint64("seed", envSeed(), "seed")
	count := fs.Int("n", 0, "number of programs (0 = by tier)")
	fs.Parse(args)
	if err := os.MkdirAll(*out, 0o755); err != nil {
		return err
	}
	n := 600
	if *tier == "thorough" {
		n = 20000
	}
	if *count > 0 {
		n = *count
	}
	sm := newSummary("C15")
	distinct := distinctSet{}
	// newRng(seed) and newRng(seed+1) produce the same sequence shifted by one draw; forking once decorrelates the seeds
	root := newRng(*seed).fork()

	type c15Case struct {
		id      int
		stream  string
		prog    *c15Prog
		name    string
		files   map[string]string
		region  string
		yaegi   c15Obs
		ref     c15Obs
		viaPath bool
		hist    int
	}
	cases := make([]*c15Case, n)
	wit := c15Witnesses()
	for i := 0; i < n; i++ {
		g := &c15Gen{r: root.fork()}
		c := &c15Case{id: i + 1, name: fmt.Sprintf("c%d", i+1)}
		if i < len(wit) {
			c.stream, c.prog = "witness", wit[i]
			c.region = c.prog.region()
			c.files = c.prog.sources("ref/" + c.name)
			cases[i] = c
			continue
		}
		k := g.r.intn(100)
		multi := g.r.chance(30)
		switch {
		case k < 28:
			c.stream, c.prog = "main-sorted", g.program(c15MainSorted, multi, false)
		case k < 56:
			c.stream, c.prog = "main-plain", g.program(c15MainPlain, multi, false)
		case k < 63:
			c.stream, c.prog = "main-plain-regress", g.program(c15MainPlainRegress, multi, false)
		case k < 70:
			c.stream, c.prog = "func-mediated", g.program(c15FuncMed, multi, false)
		case k < 77:
			c.stream, c.prog = "multi-nonglobal", g.program(c15MultiNG, multi, false)
		case k < 84:
			c.stream, c.prog = "multi-unit", g.program(c15MultiUnit, multi, false)
		case k < 89:
			c.stream, c.prog = "false-dep", g.program(c15FalseDep, multi, false)
		case k < 94:
			c.stream, c.prog = "blank-shared", g.program(c15Blanks, multi, false)
		case k < 98:
			m := c15MainSorted
			if g.r.bool() {
				m = c15MainPlain
			}
			c.stream, c.prog = "pkg-order", g.program(m, true, true)
		default:
			c.stream, c.prog = "cycle", g.program(c15Cycle, false, false)
		}
		c.region = c.prog.region()
		c.files = c.prog.sources("ref/" + c.name)
		if g.r.chance(55) {
			c.hist = 1 + g.r.intn(len(c15Histories)-1)
			if g.r.chance(40) {
				c.hist = 2
			}
		}
		cases[i] = c
	}

	// implementation
	parallelMap(n, 0, func(i int) {
		c := cases[i]
		single := len(c.files) == 1
		c.viaPath = !single
		var r outcome
		if single {
			r = runYaegi(c.files["a.go"], yaegiOpts{Timeout: 30 * time.Second})
			if i%4 == 0 { // the same program through importSrc must behave the same
				r2 := c15RunPath(c.files, "ref/"+c.name, 30*time.Second)
				if c15Observe(r2, c15Loop).key() != c15Observe(r, c15Loop).key() {
					r = outcome{Stdout: r.Stdout, End: "eval-vs-evalpath:" + r.End + " / " + r2.End + " stdout2=" + r2.Stdout}
				}
			}
		} else {
			r = c15RunPath(c.files, "ref/"+c.name, 30*time.Second)
			if i%3 == 0 { // the same tree on a real directory must behave the same as on the in-memory file system
				r2 := c15RunPathOn(c.files, "ref/"+c.name, true, 30*time.Second)
				if c15Observe(r2, c15Loop).key() != c15Observe(r, c15Loop).key() {
					r = outcome{Stdout: r.Stdout, End: "mapfs-vs-disk:" + r.End + " / " + r2.End + " stdout2=" + r2.Stdout}
				}
			}
		}
		c.yaegi = c15Observe(r, c15Loop)
		if c.yaegi.Odd == "" && c.hist != 0 {
			// the same program on an interpreter with a history must be initialised in the same order
			r2 := c15RunHistory(c.files, "ref/"+c.name, c.viaPath, c.hist, 30*time.Second)
			if o2 := c15Observe(r2, c15Loop); o2.key() != c.yaegi.key() {
				c.yaegi = c15Obs{Odd: "fresh interpreter vs " + c15Histories[c.hist] + ": " + c.yaegi.key() + " / " + r2.End + " stdout=" + r2.Stdout}
			}
		}
	})

	// reference: compiled Go, in batches
	const batch = 400 // keeps the scratch directory of compiled binaries below 1 GB
	for lo := 0; lo < n; lo += batch {
		hi := lo + batch
		if hi > n {
			hi = n
		}
		var progs []goProg
		for _, c := range cases[lo:hi] {
			progs = append(progs, goProg{Name: c.name, Files: c.files})
		}
		res, err := goRefBatch(progs, 30*time.Second, false)
		if err != nil {
			return err
		}
		for _, c := range cases[lo:hi] {
			c.ref = c15Observe(res[c.name], "initialization cycle")
		}
	}

	var lines []string
	for _, c := range cases {
		in := map[string]any{"stream": c.stream, "region": c.region, "files": c.files, "model": c.prog.coq()}
		sm.CaseIndex[fmt.Sprint(c.id)] = in
		sm.Evaluations++
		sm.ImplComparisons++
		sm.RefComparisons++
		sm.count("stream:" + c.stream)
		sm.count("region:" + c.region)
		sm.count(fmt.Sprintf("packages:%d", len(c.prog.Pkgs)))
		named, unfolded, maxFiles := false, false, 1
		for _, p := range c.prog.Pkgs {
			if p.NFiles > maxFiles {
				maxFiles = p.NFiles
			}
			if p.Names != nil {
				named = true
				if !c15FoldSorted(p.Names) {
					unfolded = true
				}
			}
		}
		sm.count(fmt.Sprintf("files in the largest package:%d", maxFiles))
		if named {
			sm.count("file names drawn from the name pools (some package)")
		}
		if unfolded {
			sm.count("file names whose byte order differs from the case-folded order (some package)")
		}
		if len(c.files) > 1 && (c.id-1)%3 == 0 {
			sm.count("EvalPath also on a real directory tree")
		}
		if c.viaPath {
			sm.count("run:EvalPath")
		} else {
			sm.count("run:Eval")
		}
		if !c.yaegi.OK {
			sm.count("yaegi:rejected-or-odd")
		}
		{
			vars := "with package variables"
			if len(c.prog.find(c.prog.Entry).Specs) == 0 {
				vars = "without package variables"
				for _, d := range c.prog.find(c.prog.Entry).Decls {
					if d.Kind == 'V' {
						vars = "with package variables"
					}
				}
			}
			via := "Eval"
			if c.viaPath {
				via = "EvalPath"
			}
			sm.count("history:" + c15Histories[c.hist] + ", entry package " + vars + ", " + via)
		}
		seenKinds := map[string]bool{}
		for _, p := range c.prog.Pkgs {
			for v, sh := range p.Shape {
				st := "main stream"
				if c.region != "" {
					st = "region streams"
				}
				at := "first"
				if len(p.Specs) > 0 && p.Specs[0].Names[0] != v {
					at = "after other declarations"
				}
				seenKinds["init-form:"+c15Shapes[sh].name+", "+at+", "+st] = true
			}
			nb := 0
			for _, s := range p.Specs {
				b := 0
				for _, n := range s.Names {
					if p.Blank[n] {
						b++
					}
				}
				k := map[int]string{c15Pair: "pair", c15Call: "call", c15NoInit: "noinit"}[s.Kind]
				if s.Typed {
					seenKinds["decl:typed "+k+fmt.Sprintf(" of %d", len(s.Names))] = true
				}
				if b > 0 {
					nb++
					t := "untyped"
					if s.Typed {
						t = "typed"
					}
					all := "some names blank"
					if b == len(s.Names) {
						all = "all names blank"
					}
					main := "main stream"
					if c.region != "" {
						main = "region streams"
					}
					seenKinds[fmt.Sprintf("decl:blank %s %s of %d, %s, %s", t, k, len(s.Names), all, main)] = true
				}
			}
			if nb > 1 {
				seenKinds["decl:several declarations with blanks in a package"] = true
			}
		}
		for _, p := range c.prog.Pkgs {
			nInit := 0
			for _, d := range p.modelDecls() {
				k := "special:" + d.Kind + "/" + d.Name
				if d.Kind == "DFunc" && d.Name == "NMain" && !p.Main {
					k += " in a non-main package"
				}
				if d.Kind == "DFunc" && d.Name == "NInit" {
					nInit++
				}
				seenKinds[k] = true
			}
			if nInit > 1 {
				seenKinds["special:several init functions in a package"] = true
			}
		}
		for k := range seenKinds {
			sm.count(k) // number of programs having at least one such declaration
		}
		if c.region == "" {
			for _, p := range c.prog.Pkgs {
				if p.fixSensitive() {
					sm.count("main-stream cases on which the loop before the fix of C15-skipped-ready would differ")
					break
				}
			}
		}
		if c.ref.Odd != "" {
			return fmt.Errorf("reference run of case %d is neither a clean run nor an initialization cycle: %s\n%v", c.id, c.ref.Odd, c.files)
		}
		nontrivial := len(c.prog.Pkgs) > 1
		for _, p := range c.prog.Pkgs {
			if !p.declSorted() || len(p.Funcs) > 0 {
				nontrivial = true
			}
		}
		if nontrivial {
			var keys []string
			for _, fn := range sortedKeys(c.files) {
				keys = append(keys, strings.ReplaceAll(c.files[fn], c.name, ""))
			}
			distinct.add(keys...)
		}
		if len(sm.Samples) < 4 && (c.id%7 == 1) {
			sm.Samples = append(sm.Samples, map[string]any{"id": c.id, "stream": c.stream, "files": c.files, "yaegi": c.yaegi, "go": c.ref})
		}
		lines = append(lines, fmt.Sprintf("(%d, %s, %s, %s, %s)", c.id, c.prog.coq(), c.yaegi.coq(), c.ref.coq(), coqBool(c.region == "")))
		if c.yaegi.key() != c.ref.key() {
			sm.RefMismatches = append(sm.RefMismatches, refMismatch{ID: c.id, Region: c.region, Input: in, Impl: c.yaegi, Ref: c.ref})
		}
	}

	hdr := "From Coq Require Import NArith List Bool.\nFrom Verif Require Import Init.Model Init.Cases.\nImport ListNotations.\n"
	per := 700
	for i, k := 0, 0; i < len(lines); i, k = i+per, k+1 {
		j := i + per
		if j > len(lines) {
			j = len(lines)
		}
		body := "Open Scope N_scope.\nDefinition cases : list case := [\n" + strings.Join(lines[i:j], ";\n") + "\n].\nClose Scope N_scope.\n" +
			"Definition MY := Eval vm_compute in c15_mis_y cases.\nPrint MY.\nDefinition MG := Eval vm_compute in c15_mis_g cases.\nPrint MG.\n"
		name := fmt.Sprintf("cases_c15_%d.v", k)
		sm.CasesFiles = append(sm.CasesFiles, name)
		if err := os.WriteFile(filepath.Join(*out, name), []byte(hdr+body), 0o644); err != nil {
			return err
		}
	}
	sm.DistinctNontriv = len(distinct)
	sm.Rule = "seeded random programs: 5-12 package-level var specs in the entry package (2-5 in imported ones) with direct references, references through 1-4 function/method bodies " +
		"(calls, function values, method values and expressions, recursion), var x, y = f(), var x, y = e1, e2, variables without initialiser, misleading identifiers (shadowing parameters, struct keys), explicit types (var x int = e), forms of the initialiser expression around the logging call (struct, keyed, slice, array, map, nested composite literals, pointer to a literal, parentheses, binary expression, conversion, call of a function literal; the variable then has that type and is read through the matching selector or index), blank variables (var _ = e, var _ int = e, blanks inside var x, _ = e1, e2 and var _, x = f(), several declarations with blanks), " +
		"1-3 files, 0-4 init functions per package spread over the files, main, look-alikes of the special names (methods init/main/Init with value and pointer receivers, func Init, func main and var main = func in non-main packages, package variables holding function literals, locals and struct fields named init/main, local function literals named init/main, helpers and methods called from init functions and main), 0-3 imported source packages; every initialiser prints a mark; distinct = distinct source text (program name removed); " +
		"non-trivial = more than one package, or a package that is not already in dependency order, or that has functions"
	return sm.write(*out)
}
