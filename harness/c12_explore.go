package main

import (
	"encoding/json"
	"flag"
	"fmt"
	"os"
	"path/filepath"
	"strings"
	"time"
)

// Development aids of C12 (not used by the check driver).
//
// How the table of known escapes (harness/c12_escapes.json = coq/Tc/Escapes.v, findings.d/C12.json)
// is (re)generated on an unchanged tree, e.g. after a template or an operator of the rich stream changed:
//
//	vh c12-explore -seed 1000 -n 30 -snip 100 -table /tmp/x/all.json        every snippet, 30 programs
//	vh c12-explore -seed 77 -n 80 -only arith-kind,const-typed -table /tmp/x/two.json   snippets with many variants
//	vh c12-explore -seed 55 -n 6 -prelude -table /tmp/x/prelude.json        sites of the fixed prelude
//	vh c12-mktable -root <verif tree> -drop arith-kind,const-typed,prelude /tmp/x/all.json /tmp/x/two.json /tmp/x/prelude.json
//
// Incremental variant (only the sweep job changed, e.g. a new sweep dimension): turn the current table
// into exploration rows ({key, classes: {class: 1}, line, err, ref} per row of c12_escapes.json), then
//
//	vh c12-explore -rounds 0 -table /tmp/x/sweep.json      the sweep job only (also prints the well-typed
//	                                                       controls that yaegi does not accept)
//	vh c12-mktable -root <verif tree> /tmp/x/old.json /tmp/x/sweep.json
//
// and copy the counts of findings.d/C12.json into the C12-esc-NN entries of KNOWN_FINDINGS.json.
//
// c12-mktable refuses a key observed with two different classes (the keys must be fine enough for
// yaegi's verdict to be a function of the key). A finding that has been repaired in yaegi shows up in
// the check as "implementation differs from model Y" on the keys of that finding: regenerate the table.
//
// c12-explore: prints what the mutant sweep observes.
func init() {
	register("c12-explore", "C12 development aid: run the rich stream for some rounds and write the (key, classes) table", func(args []string) error {
		fs := flag.NewFlagSet("c12-explore", flag.ExitOnError)
		seed := fs.Uint64("seed", 1, "seed")
		rounds := fs.Int("rounds", 10, "rounds of snippet programs")
		show := fs.String("show", "", "print mutants whose key contains this")
		table := fs.String("table", "", "write all (key, classes) rows here as JSON")
		fs.Parse(args)
		t0 := time.Now()
		jobs, err := c12RichPlan(newRng(*seed), *rounds, 6)
		if err != nil {
			return err
		}
		for _, j := range jobs {
			if o := c12EvalInProcess(j.Src, j.UseStd, nil, 60*time.Second); o.Class != "accepted" {
				fmt.Println("ORIGINAL NOT ACCEPTED BY YAEGI:", j.Name, o.Class, o.Err, j.Snippets)
				os.WriteFile("/tmp/c12-bad.go", []byte(j.Src), 0o644)
				j.Muts = nil
			}
		}
		c12RichEval(jobs)
		type row struct {
			Key     string         `json:"key"`
			Classes map[string]int `json:"classes"`
			Line    string         `json:"line"`
			Err     string         `json:"err,omitempty"`
			Ref     string         `json:"ref"`
		}
		rows := map[string]*row{}
		total, dropped := 0, 0
		for _, j := range jobs {
			for _, m := range j.Muts {
				total++
				if m.RefErr == "" {
					dropped++
					if m.Control && m.Obs.Class != "" && m.Obs.Class != "compiled" {
						fmt.Printf("CONTROL NOT ACCEPTED %s -> %s %s\n", m.Key, m.Obs.Class, m.Obs.Err)
					}
					continue
				}
				r := rows[m.Key]
				if r == nil {
					r = &row{Key: m.Key, Classes: map[string]int{}, Line: m.Line, Ref: m.RefErr}
					rows[m.Key] = r
				}
				r.Classes[m.Obs.Class]++
				if m.Obs.Class != "rejected" && r.Err == "" {
					r.Err, r.Line, r.Ref = m.Obs.Err, m.Line, m.RefErr
				}
				if *show != "" && strings.Contains(m.Key, *show) {
					fmt.Printf("SHOW %s -> %s %s\n    %s\n    ref: %s\n", m.Key, m.Obs.Class, m.Obs.Err, m.Line, m.RefErr)
				}
			}
		}
		nEsc, nMixed := 0, 0
		var out []*row
		for _, k := range sortedKeys(rows) {
			r := rows[k]
			out = append(out, r)
			if r.Classes["rejected"] != 0 && len(r.Classes) == 1 {
				continue
			}
			nEsc++
			if len(r.Classes) > 1 {
				nMixed++
				fmt.Printf("MIXED %v %s\n", r.Classes, k)
			}
		}
		if *table != "" {
			b, _ := json.MarshalIndent(out, "", " ")
			os.WriteFile(*table, b, 0o644)
		}
		fmt.Printf("jobs %d mutants %d dropped(go/types accepts) %d keys %d escape-keys %d mixed %d  %.1fs\n", len(jobs), total, dropped, len(rows), nEsc, nMixed, time.Since(t0).Seconds())
		return nil
	})
}

func init() {
	register("c12-mini-explore", "C12 development aid: MiniGo programs x syntactic mutants on yaegi and go/types", func(args []string) error {
		fs := flag.NewFlagSet("c12-mini-explore", flag.ExitOnError)
		seed := fs.Uint64("seed", 1, "seed")
		n := fs.Int("n", 5, "programs")
		dump := fs.String("dump", "", "write the first program here")
		all := fs.Bool("all", false, "print every disagreement")
		fs.Parse(args)
		r := newRng(*seed)
		type cell struct {
			n   int
			ex  string
			err string
		}
		tab := map[string]*cell{}
		total := 0
		for pi := 0; pi < *n; pi++ {
			p := c12MiniProgram(r.fork())
			src := p.Go()
			if *dump != "" && pi == 0 {
				os.WriteFile(*dump, []byte(src+"\n/*\n"+p.Coq()+"\n*/\n"), 0o644)
			}
			ck, err := c12TypeCheck(src, false)
			if err != nil || len(ck.Errs) > 0 {
				fmt.Println("ORIGINAL NOT WELL-TYPED:", err, ck.Errs)
				os.WriteFile("/tmp/c12-minibad.go", []byte(src), 0o644)
				continue
			}
			if o := c12EvalInProcess(src, false, nil, 10*time.Second); o.Class != "accepted" {
				fmt.Println("ORIGINAL NOT ACCEPTED BY YAEGI:", o.Class, o.Err)
				os.WriteFile("/tmp/c12-minibad.go", []byte(src), 0o644)
				continue
			}
			muts := c12MiniMutants(p)
			type res struct {
				ref  string
				impl c12Obs
				line string
			}
			rs := make([]res, len(muts))
			parallelMap(len(muts), 0, func(i int) {
				ms := muts[i].Prog.Go()
				mk, err := c12TypeCheck(ms, false)
				if err != nil {
					rs[i].ref = "parse-error"
					return
				}
				rs[i].ref = "ok"
				if len(mk.Errs) > 0 {
					rs[i].ref = "rejected: " + mk.Errs[0]
				}
				rs[i].impl = c12Eval(ms, false, nil, 10*time.Second)
				// the differing line
				a, b := strings.Split(src, "\n"), strings.Split(ms, "\n")
				for j := range b {
					if j >= len(a) || a[j] != b[j] {
						rs[i].line = strings.TrimSpace(b[j])
						break
					}
				}
			})
			for i, m := range muts {
				total++
				refc := rs[i].ref
				if strings.HasPrefix(refc, "rejected") {
					refc = "rejected"
				}
				key := fmt.Sprintf("%-24s %-28s ref=%-9s impl=%s", "["+m.Fam+"]", m.Mut, refc, rs[i].impl.Class)
				c := tab[key]
				if c == nil {
					c = &cell{}
					tab[key] = c
				}
				c.n++
				agree := (refc == "rejected") == (rs[i].impl.Class == "rejected")
				if !agree && *all {
					fmt.Printf("DIS [%s] %-26s ref=%-8s impl=%-10s %s   // %s // %s\n", m.Fam, m.Mut, refc, rs[i].impl.Class, rs[i].line, rs[i].impl.Err, rs[i].ref)
				}
				if !agree && (c.ex == "" || len(rs[i].line) < len(c.ex)) {
					c.ex = rs[i].line
					c.err = rs[i].impl.Err + " // " + rs[i].ref
				}
			}
		}
		for _, k := range sortedKeys(tab) {
			c := tab[k]
			fmt.Printf("%s  %d\n", k, c.n)
			if c.ex != "" {
				fmt.Printf("        %s\n        %s\n", c.ex, c.err)
			}
		}
		fmt.Println("total mutants", total)
		return nil
	})
}

// c12-mktable: freezes the table of known escapes from exploration tables (c12-explore -table).
// Writes harness/c12_escapes.json (embedded in the harness), coq/Tc/Escapes.v (the same table for
// the model Y of the rich stream) and findings.d/C12.json. A key observed with two classes is an error.
func init() {
	register("c12-mktable", "C12 development aid: exploration tables -> c12_escapes.json, Tc/Escapes.v, findings.d/C12.json", func(args []string) error {
		fs := flag.NewFlagSet("c12-mktable", flag.ExitOnError)
		root := fs.String("root", "", "root of the verif tree")
		drop := fs.String("drop", "", "snippets whose rows of the FIRST table are dropped (re-explored in later tables)")
		fs.Parse(args)
		type row struct {
			Key     string         `json:"key"`
			Classes map[string]int `json:"classes"`
			Line    string         `json:"line"`
			Err     string         `json:"err,omitempty"`
			Ref     string         `json:"ref"`
		}
		merged := map[string]row{}
		dropped := map[string]bool{}
		for _, d := range strings.Split(*drop, ",") {
			if d != "" {
				dropped[d] = true
			}
		}
		for fi, f := range fs.Args() {
			b, err := os.ReadFile(f)
			if err != nil {
				return err
			}
			var rows []row
			if err := json.Unmarshal(b, &rows); err != nil {
				return err
			}
			for _, r := range rows {
				parts := strings.Split(r.Key, " | ")
				if fi == 0 && len(parts) > 1 && dropped[parts[1]] {
					continue
				}
				if old, ok := merged[r.Key]; ok {
					for c, n := range r.Classes {
						old.Classes[c] += n
					}
					continue
				}
				merged[r.Key] = r
			}
		}
		var table []c12EscapeRow
		for _, k := range sortedKeys(merged) {
			r := merged[k]
			if len(r.Classes) > 1 {
				return fmt.Errorf("key with several classes %v: %s", r.Classes, k)
			}
			for c := range r.Classes {
				if c != "rejected" {
					e := r.Err
					if i := strings.Index(e, " // ref:"); i >= 0 {
						e = e[:i]
					}
					table = append(table, c12EscapeRow{Key: k, Class: c, Line: r.Line, Err: strings.TrimSpace(e), Ref: r.Ref})
				}
			}
		}
		b, _ := json.MarshalIndent(table, "", " ")
		if err := os.WriteFile(filepath.Join(*root, "harness", "c12_escapes.json"), append(b, '\n'), 0o644); err != nil {
			return err
		}
		var v strings.Builder
		v.WriteString("(** C12 — Y on the rich stream: the (operator, context) keys on which yaegi, on the unchanged tree,\n    does not reject a mutant that go/types rejects, with the class observed (0: the program passes the\n    static checks and runs, 2: Eval panics in the host). Every other key is predicted rejected.\n    Generated by `vh c12-mktable` from exploration runs (vh c12-explore); the harness embeds the same\n    table (harness/c12_escapes.json). Data only. *)\n")
		v.WriteString("From Coq Require Import String List NArith.\nImport ListNotations.\nOpen Scope string_scope.\n")
		v.WriteString("Definition escapes : list (string * N) := [\n")
		for i, r := range table {
			sep := ";"
			if i == len(table)-1 {
				sep = ""
			}
			fmt.Fprintf(&v, " (%s, %d%%N)%s\n", coqRawStr(r.Key), c12ClassCode(r.Class), sep)
		}
		v.WriteString("].\n")
		if err := os.WriteFile(filepath.Join(*root, "coq", "Tc", "Escapes.v"), []byte(v.String()), 0o644); err != nil {
			return err
		}
		// findings: one per catalogue number
		type finding struct {
			ID       string   `json:"id"`
			Property string   `json:"property"`
			Status   string   `json:"status"`
			Regions  []string `json:"regions"`
			What     string   `json:"what"`
			Witness  string   `json:"witness"`
			Theorem  string   `json:"theorem"`
			Keys     int      `json:"keys"`
		}
		byNum := map[string][]c12EscapeRow{}
		for _, r := range table {
			byNum[r.Key[:2]] = append(byNum[r.Key[:2]], r)
		}
		var fl []finding
		for _, num := range sortedKeys(byNum) {
			rs := byNum[num]
			best := rs[0]
			for _, r := range rs {
				if len(r.Line) < len(best.Line) {
					best = r
				}
			}
			nran, npanic := 0, 0
			for _, r := range rs {
				if r.Class == "ran" {
					nran++
				} else {
					npanic++
				}
			}
			regions := []string{"esc-" + num}
			thm := "Tc/Escapes.v (table; impl = Y checked on every run)"
			switch num {
			case "04":
				regions = append(regions, "mini-land")
				thm = "C12_land_refuted"
			case "21":
				regions = append(regions, "mini-const-cond")
				thm = "C12_const_cond_refuted"
			case "08":
				regions = append(regions, "mini-named-erasure")
				thm = "C12_named_erasure_refuted"
			case "29":
				regions = append(regions, "mini-index-nonindexable")
				thm = "C12_index_refuted"
			}
			fl = append(fl, finding{ID: "C12-esc-" + num, Property: "C12", Status: "open", Regions: regions,
				What:    fmt.Sprintf("%s: %d (operator, context) keys escape the static checks (%d accepted and run, %d panic in the host); keyed list in harness/c12_escapes.json", c12FamilyText[num], len(rs), nran, npanic),
				Witness: fmt.Sprintf("%s   -- yaegi: %s (%s) -- go/types: %s", best.Line, best.Class, best.Err, best.Ref), Theorem: thm, Keys: len(rs)})
		}
		fl = append(fl, finding{ID: "C12-multi-pkg-init", Property: "C12", Status: "open", Regions: []string{"multi-pkg-init"},
			What:    "an imported source package has been initialised (variable initialisers, init functions: their output is written) when the type error of the importing package is reported: gta processes an import by running importSrc to completion",
			Witness: "src/dep/dep.go: package dep; func init() { println(\"dep init\") } -- main: import _ \"dep\"; func main() { var x int = \"s\" }: Eval returns the error and Stdout contains \"dep init\"",
			Theorem: "C12_multi_pkg_refuted"})
		out := map[string]any{"comment": "Genuine defects of traefik/yaegi found by the C12 check on the unchanged tree. Same format as KNOWN_FINDINGS.json. The keyed (operator, context) list behind the esc-NN regions is harness/c12_escapes.json (= coq/Tc/Escapes.v).", "findings": fl}
		b, _ = json.MarshalIndent(out, "", " ")
		os.MkdirAll(filepath.Join(*root, "findings.d"), 0o755)
		if err := os.WriteFile(filepath.Join(*root, "findings.d", "C12.json"), append(b, '\n'), 0o644); err != nil {
			return err
		}
		fmt.Printf("%d keys, %d escapes, %d findings\n", len(merged), len(table), len(fl))
		return nil
	})
}

var c12FamilyText = map[string]string{
	"01": "operand of a binary operator replaced by a literal of another kind (int/float operand -> string literal, string operand -> integer)",
	"02": "operand converted to another integer kind or to another named type with the same underlying type (mismatched operand types)",
	"03": "% & | ^ &^ on floats, - * / % && on strings",
	"04": "+ - * & | on bools, && on integers: cfg.go landExpr/lorExpr never call binaryExpr",
	"05": "unary operator not defined on its operand (!int, ^float, -string, -struct ...)",
	"06": "shift of a float or string, shift count of string or float type",
	"07": "ordering of bools/structs/pointers, == on slices/maps/funcs, comparison of mismatched named types, case of the wrong type",
	"08": "value of another named type with identical underlying type, or unnamed int where a named int is declared (assignableTo falls back on reflect types, which erase names)",
	"09": "value of the wrong kind assigned (variable, field, element, map value, pointee, send, op-assignment)",
	"10": "nil where no nil is allowed (x := nil, nil assigned / passed / returned as int, string, bool, struct ...)",
	"11": "constant out of range for its typed destination (overflow, truncation, negative to unsigned), constant array index out of range",
	"12": "division by constant zero",
	"13": "one argument too many / too few, call of a non-function, multi-valued argument of the wrong arity",
	"14": "argument of the wrong type, spread of a non-slice, spread to a non-variadic parameter",
	"15": "too many / too few return values, result of the wrong type, use of a call without result as a value, missing return",
	"16": "assignment count mismatch (a, b := f() with f returning 1 or 3 values, x := f() with 2 values, extra value)",
	"17": "undefined variable, function, type, constant, package; duplicate declaration; := without new variable",
	"18": "undefined field or method, method not in the interface, selector on a value without fields",
	"19": "value that does not implement the interface (missing method, pointer-receiver method set, int) assigned, passed, returned or converted to it",
	"20": "impossible type assertion, assertion on a non-interface, assertion to an undefined type or to a value",
	"21": "non-boolean condition of if / for / expressionless switch case",
	"22": "struct literal: unknown field, duplicate field, mixture of keyed and positional values, too many / too few values, wrong field type; literal of a non-composite type",
	"23": "array/slice literal: duplicate, negative, non-constant or string index, index out of bounds, element of the wrong type",
	"24": "map literal: missing key, duplicate constant key, key or value of the wrong type",
	"25": "invalid builtin call (len/cap of an int, append to a non-slice or of a wrong element, copy, delete, make, new, close, panic with the wrong arguments)",
	"26": "wrong channel direction (send on receive-only, receive from or range over send-only, close of receive-only), channel operation on a non-channel",
	"27": "invalid conversion (string to int, struct to int, float to string, to another struct type, wrong number of arguments)",
	"28": "slice of a non-sliceable value, 3-index slice of a string, constant indices out of order or out of range, non-integer slice index",
	"29": "index of a map with a key of the wrong type, index of an int/struct/func, non-integer or negative constant index",
	"30": "& of a non-addressable expression, * of a non-pointer",
	"31": "break/continue with a label that does not enclose the statement or is undefined, break/continue outside a loop, goto an undefined label",
	"32": "assignment to a constant, a call, a literal or a string element; ++ on a constant, string, call, bool or struct; non-constant initialiser of a constant",
	"33": "_ used as a value, expression statement that is not a call",
	"34": "duplicate case in a (type) switch, case that is not a type, type switch on a non-interface, impossible case, two defaults, range over a struct/func/float, two range variables over a channel",
	"35": "fallthrough out of place (last clause, type switch, not last statement, outside a switch)",
}
