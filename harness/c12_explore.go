package main

import (
	"encoding/json"
	"flag"
	"fmt"
	"os"
	"sort"
	"strings"
	"time"
)

// c12-explore: development aid, prints what the mutant sweep observes (not used by the check driver).
func init() {
	register("c12-explore", "C12 development aid: sweep mutants and print escape groups", func(args []string) error {
		fs := flag.NewFlagSet("c12-explore", flag.ExitOnError)
		seed := fs.Uint64("seed", 1, "seed")
		n := fs.Int("n", 5, "programs")
		snip := fs.Int("snip", 100, "snippets per program")
		dump := fs.String("dump", "", "write the first program here")
		show := fs.String("show", "", "print mutants whose key contains this")
		table := fs.String("table", "", "write all (key, classes) rows here as JSON")
		fs.Parse(args)
		r := newRng(*seed)
		type grp struct {
			n       int
			classes map[string]int
			example string
			err     string
			ref     string
			src     string
		}
		groups := map[string]*grp{}
		total, dropped := 0, 0
		t0 := time.Now()
		for pi := 0; pi < *n; pi++ {
			p := c12Program(r.fork(), *snip)
			if *dump != "" && pi == 0 {
				os.WriteFile(*dump, []byte(p.Src), 0o644)
			}
			ck, err := c12TypeCheck(p.Src, true)
			if err != nil || len(ck.Errs) > 0 {
				fmt.Println("ORIGINAL NOT WELL-TYPED:", err, ck.Errs)
				os.WriteFile("/tmp/c12-bad.go", []byte(p.Src), 0o644)
				return nil
			}
			useStd := strings.Contains(p.Src, "\"strings\"")
			o := c12EvalInProcess(p.Src, useStd, nil, 20*time.Second)
			if o.Class != "accepted" {
				fmt.Println("ORIGINAL NOT ACCEPTED BY YAEGI:", o.Class, o.Err, p.Snippets)
				os.WriteFile("/tmp/c12-bad.go", []byte(p.Src), 0o644)
				continue
			}
			muts := c12Mutants(p.Src, ck)
			if pi > 0 {
				var keepm []c12mutant
				for _, mu := range muts {
					if !mu.Prelude {
						keepm = append(keepm, mu)
					}
				}
				muts = keepm
			}
			newKeys := 0
			res := make([]c12Obs, len(muts))
			keep := make([]bool, len(muts))
			parallelMap(len(muts), 0, func(i int) {
				mk, err := c12TypeCheck(muts[i].Src, false)
				if err != nil {
					res[i] = c12Obs{Class: "parse-error", Err: err.Error()}
					return
				}
				if len(mk.Errs) == 0 {
					return
				}
				keep[i] = true
				muts[i].RefErr = mk.Errs[0]
				res[i] = c12Eval(muts[i].Src, useStd, nil, 20*time.Second)
			})
			defer func(pi int) {}(pi)
			for i, m := range muts {
				total++
				if res[i].Class == "parse-error" {
					fmt.Println("PARSE ERROR", m.Op, m.Ctx, res[i].Err, "\n   ", m.Line)
					continue
				}
				if !keep[i] {
					dropped++
					key := "dropped " + m.Op
					if groups[key] == nil {
						groups[key] = &grp{classes: map[string]int{}, example: m.Line}
					}
					groups[key].n++
					continue
				}
				key := m.Op + " | " + m.Ctx
				gp := groups[key]
				if gp == nil {
					gp = &grp{classes: map[string]int{}}
					groups[key] = gp
					newKeys++
				}
				gp.n++
				gp.classes[res[i].Class]++
				if res[i].Class != "rejected" && gp.example == "" {
					gp.example = m.Line
					gp.err = res[i].Err + " // ref: " + m.RefErr
				}
				if res[i].Class != "rejected" && gp.example == "" || gp.ref == "" {
					gp.ref = m.RefErr
					gp.src = m.Line
				}
				if *show != "" && strings.Contains(key, *show) {
					fmt.Printf("SHOW %s | %s -> %s %s\n    %s\n    ref: %s\n", m.Op, m.Ctx, res[i].Class, res[i].Err, m.Line, m.RefErr)
				}
			}
			fmt.Fprintf(os.Stderr, "program %d: %d mutants, %d new keys, %d keys so far, %.0fs\n", pi, len(muts), newKeys, len(groups), time.Since(t0).Seconds())
		}
		if *table != "" {
			type row struct {
				Key     string         `json:"key"`
				Classes map[string]int `json:"classes"`
				Line    string         `json:"line"`
				Err     string         `json:"err,omitempty"`
				Ref     string         `json:"ref"`
			}
			var rows []row
			for k, gp := range groups {
				if strings.HasPrefix(k, "dropped") {
					continue
				}
				rows = append(rows, row{k, gp.classes, gp.src, gp.err, gp.ref})
			}
			sort.Slice(rows, func(i, j int) bool { return rows[i].Key < rows[j].Key })
			b, _ := json.MarshalIndent(rows, "", " ")
			os.WriteFile(*table, b, 0o644)
		}
		keys := make([]string, 0, len(groups))
		for k := range groups {
			keys = append(keys, k)
		}
		sort.Strings(keys)
		nEsc, nMixed := 0, 0
		for _, k := range keys {
			gp := groups[k]
			if strings.HasPrefix(k, "dropped") {
				fmt.Printf("%-60s %d   e.g. %s\n", k, gp.n, gp.example)
				continue
			}
			if gp.classes["rejected"] == gp.n {
				continue
			}
			nEsc++
			mixed := ""
			if len(gp.classes) > 1 {
				mixed = " MIXED"
				nMixed++
			}
			fmt.Printf("ESCAPE%s %s  %v\n      %s\n      %s\n", mixed, k, gp.classes, gp.example, gp.err)
		}
		fmt.Printf("programs %d mutants %d dropped(go/types accepts) %d groups %d escape-groups %d mixed %d  %.1fs\n", *n, total, dropped, len(groups), nEsc, nMixed, time.Since(t0).Seconds())
		return nil
	})
}

func init() {
	register("c12-mini-explore", "C12 development aid: MiniGo programs x syntactic mutants on yaegi and go/types", func(args []string) error {
		fs := flag.NewFlagSet("c12-mini-explore", flag.ExitOnError)
		seed := fs.Uint64("seed", 1, "seed")
		n := fs.Int("n", 5, "programs")
		dump := fs.String("dump", "", "write the first program here")
		all := fs.Bool("all", false, "print every disagreement")
		fs.Parse(args)
		r := newRng(*seed)
		type cell struct {
			n   int
			ex  string
			err string
		}
		tab := map[string]*cell{}
		total := 0
		for pi := 0; pi < *n; pi++ {
			p := c12MiniProgram(r.fork())
			src := p.Go()
			if *dump != "" && pi == 0 {
				os.WriteFile(*dump, []byte(src+"\n/*\n"+p.Coq()+"\n*/\n"), 0o644)
			}
			ck, err := c12TypeCheck(src, false)
			if err != nil || len(ck.Errs) > 0 {
				fmt.Println("ORIGINAL NOT WELL-TYPED:", err, ck.Errs)
				os.WriteFile("/tmp/c12-minibad.go", []byte(src), 0o644)
				continue
			}
			if o := c12EvalInProcess(src, false, nil, 10*time.Second); o.Class != "accepted" {
				fmt.Println("ORIGINAL NOT ACCEPTED BY YAEGI:", o.Class, o.Err)
				os.WriteFile("/tmp/c12-minibad.go", []byte(src), 0o644)
				continue
			}
			muts := c12MiniMutants(p)
			type res struct {
				ref  string
				impl c12Obs
				line string
			}
			rs := make([]res, len(muts))
			parallelMap(len(muts), 0, func(i int) {
				ms := muts[i].Prog.Go()
				mk, err := c12TypeCheck(ms, false)
				if err != nil {
					rs[i].ref = "parse-error"
					return
				}
				rs[i].ref = "ok"
				if len(mk.Errs) > 0 {
					rs[i].ref = "rejected: " + mk.Errs[0]
				}
				rs[i].impl = c12Eval(ms, false, nil, 10*time.Second)
				// the differing line
				a, b := strings.Split(src, "\n"), strings.Split(ms, "\n")
				for j := range b {
					if j >= len(a) || a[j] != b[j] {
						rs[i].line = strings.TrimSpace(b[j])
						break
					}
				}
			})
			for i, m := range muts {
				total++
				refc := rs[i].ref
				if strings.HasPrefix(refc, "rejected") {
					refc = "rejected"
				}
				key := fmt.Sprintf("%-24s %-28s ref=%-9s impl=%s", "["+m.Fam+"]", m.Mut, refc, rs[i].impl.Class)
				c := tab[key]
				if c == nil {
					c = &cell{}
					tab[key] = c
				}
				c.n++
				agree := (refc == "rejected") == (rs[i].impl.Class == "rejected")
				if !agree && *all {
					fmt.Printf("DIS [%s] %-26s ref=%-8s impl=%-10s %s   // %s // %s\n", m.Fam, m.Mut, refc, rs[i].impl.Class, rs[i].line, rs[i].impl.Err, rs[i].ref)
				}
				if !agree && (c.ex == "" || len(rs[i].line) < len(c.ex)) {
					c.ex = rs[i].line
					c.err = rs[i].impl.Err + " // " + rs[i].ref
				}
			}
		}
		for _, k := range sortedKeys(tab) {
			c := tab[k]
			fmt.Printf("%s  %d\n", k, c.n)
			if c.ex != "" {
				fmt.Printf("        %s\n        %s\n", c.ex, c.err)
			}
		}
		fmt.Println("total mutants", total)
		return nil
	})
}
