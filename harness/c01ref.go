package main

import (
	"bytes"
	"context"
	"fmt"
	"os"
	"os/exec"
	"path/filepath"
	"regexp"
	"strings"
	"sync"
	"time"
)

// c1RefBatch: the compiled reference for a batch of single-file programs. Every program becomes a
// package of one scratch module (package main -> package pN, func main -> func Main) and ONE binary
// dispatching on its argument is built: hundreds of programs cost one link step. Programs that the
// compiler rejects are reported as compile errors and the build is repeated without them.

var c1MainRe = regexp.MustCompile(`(?m)^func main\(\) \{`)
var c1PkgRe = regexp.MustCompile(`(?m)^package main$`)

func c1RefBatch(progs []goProg, timeout time.Duration) (map[string]outcome, error) {
	res := map[string]outcome{}
	if len(progs) == 0 {
		return res, nil
	}
	dir, err := os.MkdirTemp("", "vh-c01ref-*")
	if err != nil {
		return nil, err
	}
	defer os.RemoveAll(dir)
	if err := os.WriteFile(filepath.Join(dir, "go.mod"), []byte("module ref\n\ngo 1.22\n"), 0o644); err != nil {
		return nil, err
	}
	live := map[string]bool{}
	for _, p := range progs {
		src := p.Files["main.go"]
		src = c1PkgRe.ReplaceAllString(src, "package "+p.Name)
		src = c1MainRe.ReplaceAllString(src, "func Main() {")
		d := filepath.Join(dir, p.Name)
		os.MkdirAll(d, 0o755)
		if err := os.WriteFile(filepath.Join(d, "p.go"), []byte(src), 0o644); err != nil {
			return nil, err
		}
		live[p.Name] = true
	}
	bin := filepath.Join(dir, "refbin")
	for attempt := 0; attempt < 4; attempt++ {
		var b strings.Builder
		b.WriteString("package main\n\nimport (\n\t\"os\"\n")
		for _, p := range progs {
			if live[p.Name] {
				fmt.Fprintf(&b, "\t%s \"ref/%s\"\n", p.Name, p.Name)
			}
		}
		b.WriteString(")\n\nvar progs = map[string]func(){\n")
		for _, p := range progs {
			if live[p.Name] {
				fmt.Fprintf(&b, "\t%q: %s.Main,\n", p.Name, p.Name)
			}
		}
		b.WriteString("}\n\nfunc main() { progs[os.Args[1]]() }\n")
		if err := os.WriteFile(filepath.Join(dir, "main.go"), []byte(b.String()), 0o644); err != nil {
			return nil, err
		}
		// optimisations off for the generated packages: go1.23.5 miscompiles signed % and / by a constant when
		// the dividend is `x + C` with a range-analysed x and the sum overflows (two cases found by this check);
		// with -N the compiled binary follows the language semantics
		cmd := exec.Command("go", "build", "-o", bin, "-gcflags=ref/...=-e -N -l", ".")
		cmd.Dir = dir
		cmd.Env = append(os.Environ(), "GOFLAGS=-mod=mod", "GOPROXY=off", "GOSUMDB=off", "GOTOOLCHAIN=local", "GO111MODULE=on")
		bout, berr := cmd.CombinedOutput()
		if berr == nil {
			break
		}
		// attribute compile errors: "# ref/pN" headers
		bad := 0
		cur := ""
		for _, l := range strings.Split(string(bout), "\n") {
			if strings.HasPrefix(l, "# ref/") {
				cur = strings.Fields(strings.TrimPrefix(l, "# ref/"))[0]
				continue
			}
			if cur != "" && l != "" && live[cur] {
				live[cur] = false
				res[cur] = outcome{End: "compile-error:" + l}
				bad++
			}
		}
		if bad == 0 || attempt == 3 {
			return nil, fmt.Errorf("go build failed: %s", clip(string(bout), 2000))
		}
	}
	var mu sync.Mutex
	parallelMap(len(progs), 0, func(i int) {
		p := progs[i]
		if !live[p.Name] {
			return
		}
		r := c1RunBinary(bin, p.Name, timeout)
		mu.Lock()
		res[p.Name] = r
		mu.Unlock()
	})
	return res, nil
}

// c1RunBinary runs the dispatching binary on one program (same canonicalisation as runBinary).
func c1RunBinary(bin, name string, timeout time.Duration) outcome {
	// runBinary takes a path only: use a tiny wrapper script-free approach through exec directly
	return runBinaryArgs(bin, []string{name}, timeout)
}

func runBinaryArgs(path string, args []string, timeout time.Duration) outcome {
	ctx, cancel := context.WithTimeout(context.Background(), timeout)
	defer cancel()
	cmd := exec.CommandContext(ctx, path, args...)
	var out, errb bytes.Buffer
	cmd.Stdout, cmd.Stderr = &out, &errb
	err := cmd.Run()
	r := outcome{Stdout: out.String()}
	switch {
	case ctx.Err() != nil:
		r.End = "timeout"
	case err == nil:
		r.End = "ok"
	default:
		r.End = goEnd(errb.String(), err)
	}
	return r
}
