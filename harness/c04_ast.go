package main

import (
	"fmt"
	"strings"
)

// C04 operation grammar: one AST, three renderings
//   - Go source (run by yaegi and by the compiled reference),
//   - Gallina terms of coq/Mem/GoStore.v (lv / rv / rhs / op),
//   - the reference interpreter of c04_ref.go (a Go transcription of model G used by the
//     generator to know the current state, so that generated operations do not panic by accident).

// ---------------------------------------------------------------- types of the pool (DESIGN.md D.2)

type c04kind int

const (
	c04Int c04kind = iota
	c04Key         // string keys "k0".."k3", modelled as the integers 0..3
	c04Struct
	c04Arr
	c04Slice
	c04Map
	c04Ptr
	c04Any // interface{} holding int, string key, S, *S or []int
)

type c04ty struct {
	k    c04kind
	elem *c04ty
	n    int // array length; struct: number of fields (a prefix of the fields of S)
	name string // Go spelling
}

var (
	c04TInt  = &c04ty{k: c04Int, name: "int"}
	c04TKey  = &c04ty{k: c04Key, name: "string"}
	c04TS    = &c04ty{k: c04Struct, n: 6, name: "S"}
	c04TR    = &c04ty{k: c04Struct, n: 2, name: "R"} // a struct type with methods (S has none)
	c04TA2R  = &c04ty{k: c04Arr, elem: c04TR, n: 2, name: "[2]R"}
	c04TA2   = &c04ty{k: c04Arr, elem: c04TInt, n: 2, name: "[2]int"}
	c04TA4   = &c04ty{k: c04Arr, elem: c04TInt, n: 4, name: "[4]int"}
	c04TA3S  = &c04ty{k: c04Arr, elem: c04TS, n: 3, name: "[3]S"}
	c04TLI   = &c04ty{k: c04Slice, elem: c04TInt, name: "[]int"}
	c04TLS   = &c04ty{k: c04Slice, elem: c04TS, name: "[]S"}
	c04TLL   = &c04ty{k: c04Slice, elem: c04TLI, name: "[][]int"}
	c04TMI   = &c04ty{k: c04Map, elem: c04TInt, name: "map[string]int"}
	c04TMS   = &c04ty{k: c04Map, elem: c04TS, name: "map[string]S"}
	c04TPS   = &c04ty{k: c04Ptr, elem: c04TS, name: "*S"}
	c04TPA   = &c04ty{k: c04Ptr, elem: c04TA3S, name: "*[3]S"}
	c04TPA4  = &c04ty{k: c04Ptr, elem: c04TA4, name: "*[4]int"}
	c04TPA2  = &c04ty{k: c04Ptr, elem: c04TA2, name: "*[2]int"}
	c04TPA3E = &c04ty{k: c04Ptr, elem: c04TA3E, name: "*[3]interface{}"}
	c04TAny  = &c04ty{k: c04Any, name: "interface{}"}
	c04TA3E  = &c04ty{k: c04Arr, elem: c04TAny, n: 3, name: "[3]interface{}"}
	c04TLE   = &c04ty{k: c04Slice, elem: c04TAny, name: "[]interface{}"}
	c04TME   = &c04ty{k: c04Map, elem: c04TAny, name: "map[string]interface{}"}
	c04Types = []*c04ty{c04TInt, c04TKey, c04TS, c04TA2, c04TA4, c04TA3S, c04TLI, c04TLS, c04TLL, c04TMI, c04TMS, c04TPS, c04TPA}
)

// fields of S
var (
	c04FieldNames = []string{"N", "A", "L", "M", "P", "E"}
	c04FieldTypes = []*c04ty{c04TInt, c04TA2, c04TLI, c04TMI, c04TPS, c04TAny}

	// dynamic types an interface value of the pool can hold, by tag
	c04BoxTypes = []*c04ty{c04TInt, c04TKey, c04TS, c04TPS, c04TLI, c04TR} // (R only in a region stream)
)

// element kind for the growth policy of append
func c04ElemKind(t *c04ty) int {
	switch t {
	case c04TInt:
		return 0
	case c04TS:
		return 1
	case c04TLI:
		return 2
	case c04TAny:
		return 3
	}
	return 0
}

func c04TagOf(t *c04ty) int {
	for i, b := range c04BoxTypes {
		if b == t {
			return i
		}
	}
	return -1
}

func c04PtrTo(t *c04ty) *c04ty {
	switch t {
	case c04TS:
		return c04TPS
	case c04TA3S:
		return c04TPA
	case c04TA4:
		return c04TPA4
	case c04TA2:
		return c04TPA2
	case c04TA3E:
		return c04TPA3E
	}
	return nil
}

func c04SliceOf(t *c04ty) *c04ty {
	switch t {
	case c04TInt:
		return c04TLI
	case c04TS:
		return c04TLS
	case c04TLI:
		return c04TLL
	case c04TAny:
		return c04TLE
	}
	return nil
}

// ---------------------------------------------------------------- expressions

// kinds: l-values  var idx sidx fld deref map ; r-values  int nil load addr struct arr add len cap slice mapget
type c04ex struct {
	K          string
	T          *c04ty
	A, B, C, D *c04ex // operands (B, C, D of a slice expression may be nil)
	L          []*c04ex
	V          int   // variable id / field index
	Z          int64 // literal
	Star       bool  // deref rendered explicitly as (*p)
	Implicit   bool  // addr: keep &q[i] even when q is a pointer to an array
}

type c04rhs struct {
	K    string // pure append slicelit new make maplit
	T    *c04ty // type of the value produced
	E    *c04ex // pure, new (operand), append (slice), make: n
	E2   *c04ex // make: c
	L    []*c04ex
	L2   []*c04ex // maplit values
	Form string   // rendering variant ("new": new(T) instead of &T{})
}

type c04op struct {
	K     string // assign multi define mapdel copy range call dump
	Lv    *c04ex
	Lvs   []*c04ex
	Rvs   []*c04ex
	Rhs   *c04rhs
	X     int // define: variable id
	A, B  *c04ex
	KV    [2]int // range: key and value variable ids
	RK    string // range kind: arr slice ptr
	Body  []*c04op
	Fn    *c04fn
	Unmodelled bool // rendered and interpreted, but outside the Coq grammar (the history gets no Coq case)
	Sugar string // rendering variant of an assignment: "" | "inc" | "addassign"
	// sugar operations (not in the Coq grammar): Go text plus the core operations they must equal
	Text  []string
	Equiv []*c04op
}

// a callee of the catalogue
type c04fn struct {
	Name   string
	Params []int
	PTypes []*c04ty
	Ret    *c04ex // nil: no result
	RetT   *c04ty
	Body   []*c04op
}

// variable names
type c04names map[int]string

var c04PoolNames = map[int]string{0: "a", 1: "s", 2: "sl", 3: "ss", 4: "m", 5: "p", 6: "q", 7: "ai", 8: "si", 9: "i", 10: "j", 11: "k", 12: "ea", 13: "es", 14: "em", 15: "e", 16: "r", 17: "ra"}
var c04PoolTypes = map[int]*c04ty{0: c04TA3S, 1: c04TS, 2: c04TLS, 3: c04TLL, 4: c04TMS, 5: c04TPS, 6: c04TPA, 7: c04TA4, 8: c04TLI, 9: c04TInt, 10: c04TInt, 11: c04TKey,
	12: c04TA3E, 13: c04TLE, 14: c04TME, 15: c04TAny,
	16: c04TR, 17: c04TA2R} // r and ra are not part of the dump: they serve the method constructs only

const c04PoolSize = 16 // observed variables
const c04VarCount = 18

func c04VarName(id int) string {
	if n, ok := c04PoolNames[id]; ok {
		return n
	}
	if id >= 100 && id < 200 {
		return fmt.Sprintf("x%d", id-100)
	}
	return fmt.Sprintf("t%d", id)
}

// ---------------------------------------------------------------- constructors

func c04Var(id int, t *c04ty) *c04ex      { return &c04ex{K: "var", V: id, T: t} }
func c04IntLit(z int64) *c04ex            { return &c04ex{K: "int", Z: z, T: c04TInt} }
func c04KeyLit(z int64) *c04ex            { return &c04ex{K: "int", Z: z, T: c04TKey} }
func c04Nil(t *c04ty) *c04ex              { return &c04ex{K: "nil", T: t} }
func c04Load(l *c04ex) *c04ex             { return &c04ex{K: "load", A: l, T: l.T} }
func c04Addr(l *c04ex) *c04ex             { return &c04ex{K: "addr", A: l, T: c04PtrTo(l.T)} }
func c04Fld(b *c04ex, f int) *c04ex       { return &c04ex{K: "fld", A: b, V: f, T: c04FieldTypes[f]} }
func c04Idx(b, i *c04ex) *c04ex           { return &c04ex{K: "idx", A: b, B: i, T: b.T.elem} }
func c04SIdx(b, i *c04ex) *c04ex          { return &c04ex{K: "sidx", A: b, B: i, T: b.T.elem} }
func c04Deref(b *c04ex) *c04ex            { return &c04ex{K: "deref", A: b, T: b.T.elem} }
func c04MapL(m, k *c04ex) *c04ex          { return &c04ex{K: "map", A: m, B: k, T: m.T.elem} }
func c04Add(a, b *c04ex) *c04ex           { return &c04ex{K: "add", A: a, B: b, T: c04TInt} }
func c04Len(e *c04ex) *c04ex              { return &c04ex{K: "len", A: e, T: c04TInt} }
func c04Cap(e *c04ex) *c04ex              { return &c04ex{K: "cap", A: e, T: c04TInt} }
func c04MapGet(m, k *c04ex) *c04ex        { return &c04ex{K: "mapget", A: m, B: k, T: m.T.elem} }
// conversion of a concrete value to interface{} (implicit in the Go text) and type assertion
func c04Box(e *c04ex) *c04ex { return &c04ex{K: "box", A: e, V: c04TagOf(e.T), T: c04TAny} }
func c04Unbox(e *c04ex, t *c04ty) *c04ex {
	return &c04ex{K: "unbox", A: e, V: c04TagOf(t), T: t}
}

func c04Lit(t *c04ty, l []*c04ex) *c04ex {
	if t.k == c04Struct {
		return &c04ex{K: "struct", L: l, T: t}
	}
	return &c04ex{K: "arr", L: l, T: t}
}

// base: a slice-typed r-value, or the address of an array l-value (arr[lo:hi] = (&arr)[lo:hi])
func c04SliceEx(base, lo, hi, mx *c04ex) *c04ex {
	t := base.T
	if t.k == c04Ptr {
		t = c04SliceOf(t.elem.elem)
	}
	return &c04ex{K: "slice", A: base, B: lo, C: hi, D: mx, T: t}
}

func c04Pure(e *c04ex) *c04rhs { return &c04rhs{K: "pure", E: e, T: e.T} }

// ---------------------------------------------------------------- Go rendering

func c04ZeroGo(t *c04ty) string {
	switch t.k {
	case c04Int:
		return "0"
	case c04Key:
		return `"k0"`
	case c04Struct, c04Arr:
		return t.name + "{}"
	}
	return "nil"
}

func (e *c04ex) goStr() string {
	switch e.K {
	case "var":
		return c04VarName(e.V)
	case "idx":
		return e.A.goBase() + "[" + e.B.goStr() + "]"
	case "sidx":
		return e.A.goPostfix() + "[" + e.B.goStr() + "]"
	case "fld":
		return e.A.goBase() + "." + c04FieldNames[e.V]
	case "deref":
		return "*" + e.A.goPostfix()
	case "map":
		return e.A.goPostfix() + "[" + e.B.goStr() + "]"
	case "int":
		if e.T == c04TKey {
			return fmt.Sprintf(`"k%d"`, e.Z)
		}
		return fmt.Sprint(e.Z)
	case "nil":
		return "nil"
	case "load":
		return e.A.goStr()
	case "addr":
		if e.A.K == "idx" && e.A.A.K == "deref" && !e.A.A.Star && !e.Implicit {
			// &q[i] with q a pointer to an array is rejected by yaegi (finding addr-of-ptr-array-elem):
			// the main stream spells the dereference
			return "&(*" + e.A.A.A.goPostfix() + ")[" + e.A.B.goStr() + "]"
		}
		return "&" + e.A.goStr()
	case "struct":
		var fs []string
		for i, f := range e.L {
			fs = append(fs, c04FieldNames[i]+": "+f.goStr())
		}
		return e.T.name + "{" + strings.Join(fs, ", ") + "}"
	case "arr":
		var fs []string
		for _, f := range e.L {
			fs = append(fs, f.goStr())
		}
		return e.T.name + "{" + strings.Join(fs, ", ") + "}"
	case "add":
		return "(" + e.A.goStr() + " + " + e.B.goStr() + ")"
	case "len":
		return "len(" + e.A.goStr() + ")"
	case "cap":
		return "cap(" + e.A.goStr() + ")"
	case "slice":
		var base string
		if e.A.K == "addr" {
			base = e.A.A.goBase() // arr[lo:hi]
		} else {
			base = e.A.goPostfix() // slice value, or pointer to array: q[lo:hi]
		}
		opt := func(x *c04ex) string {
			if x == nil {
				return ""
			}
			return x.goStr()
		}
		s := base + "[" + opt(e.B) + ":" + opt(e.C)
		if e.D != nil {
			s += ":" + opt(e.D)
		}
		return s + "]"
	case "mapget":
		return e.A.goPostfix() + "[" + e.B.goStr() + "]"
	case "box":
		return e.A.goStr()
	case "unbox":
		return e.A.goPostfix() + ".(" + e.T.name + ")"
	}
	panic("c04: goStr " + e.K)
}

// goBase renders an l-value used as the operand of a selector or index: a dereference is implicit
// (p.N, q[i]) unless Star asks for the explicit form ((*p).N).
func (e *c04ex) goBase() string {
	if e.K == "deref" {
		if e.Star {
			return "(*" + e.A.goPostfix() + ")"
		}
		return e.A.goPostfix()
	}
	return e.goStr()
}

// goPostfix renders an expression in operand position of a postfix operator.
func (e *c04ex) goPostfix() string {
	switch e.K {
	case "load", "box":
		return e.A.goPostfix()
	case "deref", "addr":
		return "(" + e.goStr() + ")"
	}
	return e.goStr()
}

func (r *c04rhs) goStr() string {
	list := func(l []*c04ex) string {
		var fs []string
		for _, f := range l {
			fs = append(fs, f.goStr())
		}
		return strings.Join(fs, ", ")
	}
	switch r.K {
	case "pure":
		return r.E.goStr()
	case "append":
		if len(r.L) == 0 {
			return "append(" + r.E.goStr() + ")"
		}
		return "append(" + r.E.goStr() + ", " + list(r.L) + ")"
	case "appendslice":
		return "append(" + r.E.goStr() + ", " + r.E2.goStr() + "...)"
	case "slicelit":
		return r.T.name + "{" + list(r.L) + "}"
	case "new":
		if r.Form == "new" {
			return "new(" + r.T.elem.name + ")"
		}
		return "&" + r.E.goStr()
	case "make":
		return "make(" + r.T.name + ", " + r.E.goStr() + ", " + r.E2.goStr() + ")"
	case "maplit":
		if r.Form == "make" {
			return "make(" + r.T.name + ")"
		}
		var fs []string
		for i := range r.L {
			fs = append(fs, r.L[i].goStr()+": "+r.L2[i].goStr())
		}
		return r.T.name + "{" + strings.Join(fs, ", ") + "}"
	}
	panic("c04: rhs goStr " + r.K)
}

func (o *c04op) goLines(ind string) []string {
	switch o.K {
	case "assign":
		l := o.Lv.goStr()
		if o.Sugar == "inc" {
			return []string{ind + l + "++"}
		}
		if o.Sugar == "addassign" {
			return []string{ind + l + " += " + o.Rhs.E.B.goStr()}
		}
		return []string{ind + l + " = " + o.Rhs.goStr()}
	case "multi":
		var ls, rs []string
		for _, l := range o.Lvs {
			ls = append(ls, l.goStr())
		}
		for _, r := range o.Rvs {
			rs = append(rs, r.goStr())
		}
		return []string{ind + strings.Join(ls, ", ") + " = " + strings.Join(rs, ", ")}
	case "define":
		n := c04VarName(o.X)
		if o.Sugar == "var" {
			return []string{ind + "var " + n + " " + o.Rhs.T.name + " = " + o.Rhs.goStr(), ind + "_ = " + n}
		}
		return []string{ind + n + " := " + o.Rhs.goStr(), ind + "_ = " + n}
	case "mapdel":
		return []string{ind + "delete(" + o.A.goStr() + ", " + o.B.goStr() + ")"}
	case "copy":
		return []string{ind + "copy(" + o.A.goStr() + ", " + o.B.goStr() + ")"}
	case "range":
		k, v := c04VarName(o.KV[0]), c04VarName(o.KV[1])
		// the iteration count is bounded in the program text, so that a loop made endless by a
		// change of the interpreter still terminates (never reached on a correct interpreter)
		var out []string
		out = append(out, ind+"n"+k+" := 0", ind+"for "+k+", "+v+" := range "+o.A.goStr()+" {", ind+"\t_, _ = "+k+", "+v,
			ind+"\tif n"+k+"++; n"+k+" > 50 {", ind+"\t\tbreak", ind+"\t}")
		for _, b := range o.Body {
			out = append(out, b.goLines(ind+"\t")...)
		}
		return append(out, ind+"}")
	case "call":
		var as []string
		for _, a := range o.Rvs {
			as = append(as, a.goStr())
		}
		c := o.Fn.Name + "(" + strings.Join(as, ", ") + ")"
		if o.Lv != nil {
			return []string{ind + o.Lv.goStr() + " = " + c}
		}
		return []string{ind + c}
	case "dump":
		return []string{ind + c04DumpCall}
	case "sugar":
		var out []string
		for _, t := range o.Text {
			out = append(out, ind+t)
		}
		return out
	}
	panic("c04: op goLines " + o.K)
}

func (f *c04fn) goDecl() string {
	var ps []string
	for i, p := range f.Params {
		ps = append(ps, c04VarName(p)+" "+f.PTypes[i].name)
	}
	ret := ""
	if f.RetT != nil {
		ret = " " + f.RetT.name
	}
	var b strings.Builder
	fmt.Fprintf(&b, "func %s(%s)%s {\n", f.Name, strings.Join(ps, ", "), ret)
	for _, o := range f.Body {
		for _, l := range o.goLines("\t") {
			b.WriteString(l + "\n")
		}
	}
	if f.Ret != nil {
		b.WriteString("\treturn " + f.Ret.goStr() + "\n")
	}
	b.WriteString("}\n")
	return b.String()
}

const c04Prelude = `package main

import "fmt"

type S struct {
	N int
	A [2]int
	L []int
	M map[string]int
	P *S
	E interface{}
}

var keys = []string{"k0", "k1", "k2", "k3"}

// a struct type with methods (kept apart from S: see finding iface-holds-type-with-methods)
type R struct {
	N int
	A [2]int
}

func (x R) Get() int   { return x.N }
func (x R) SetN(n int) { x.N = n; x.A[0] = n }
func (x *R) Inc()      { x.N++ }

// callees that let their parameter escape (escape stream), and makers used as nested-call arguments
func mkS(n int) S  { return S{N: n, A: [2]int{n + 1, n}} }
func idS(x S) S    { return x }
func holdS(x S) *S { return &x }
func getS(x S) func() S { return func() S { return x } }
func cntS(x S) func() int {
	return func() int {
		x.N++
		return x.N
	}
}

` + c04ReturnDecls + c04RepeatDecls + `func fnr(y *S) (r S) {
	r.N = 5
	y.N = y.N + r.N
	return r
}

func showLI(l []int) {
	fmt.Print(" ", len(l), " ", cap(l))
	for _, x := range l {
		fmt.Print(" ", x)
	}
}

func showMI(m map[string]int) {
	if m == nil {
		fmt.Print(" 1")
		return
	}
	fmt.Print(" 0")
	for _, k := range keys {
		if v, ok := m[k]; ok {
			fmt.Print(" 1 ", v)
		} else {
			fmt.Print(" 0")
		}
	}
}

`

// the observer: a top-level function that receives the pool (addresses of the array and struct
// variables, so that it sees the storage the variables denote *now*)
const c04DumpDecl = `func class(x *S, a *[3]S, s *S, sl []S) int {
	if x == nil {
		return 0
	}
	for n := 0; n < 3; n++ {
		if x == &(*a)[n] {
			return n + 1
		}
	}
	if x == s {
		return 4
	}
	for n := 0; n < len(sl) && n < 6; n++ {
		if x == &sl[n] {
			return 5 + n
		}
	}
	return 99
}

func dump(a *[3]S, s *S, sl []S, ss [][]int, m map[string]S, p *S, q *[3]S, ai *[4]int, si []int, i, j int, k string, ea *[3]interface{}, es []interface{}, em map[string]interface{}, e interface{}) {
	showP := func(x *S) {
		c := class(x, a, s, sl)
		if c == 0 {
			fmt.Print(" 0")
			return
		}
		fmt.Print(" ", c, " ", x.N, " ", x.A[0], " ", x.A[1])
	}
	showE := func(x interface{}) {
		switch y := x.(type) {
		case nil:
			fmt.Print(" 0")
		case int:
			fmt.Print(" 1 ", y)
		case string:
			fmt.Print(" 2 ", y[1:])
		case S:
			fmt.Print(" 3 ", y.N, " ", y.A[0], " ", y.A[1])
		case *S:
			fmt.Print(" 4")
			showP(y)
		case []int:
			fmt.Print(" 5")
			showLI(y)
		case R:
			fmt.Print(" 6 ", y.N)
		default:
			fmt.Print(" ?")
		}
	}
	showS := func(x *S) {
		fmt.Print(" ", x.N, " ", x.A[0], " ", x.A[1])
		showLI(x.L)
		showMI(x.M)
		showP(x.P)
		showE(x.E)
	}
	fmt.Print("a=")
	for n := 0; n < 3; n++ {
		showS(&(*a)[n])
	}
	fmt.Print(" s=")
	showS(s)
	fmt.Print(" sl= ", len(sl), " ", cap(sl))
	for n := range sl {
		showS(&sl[n])
	}
	fmt.Print(" ss= ", len(ss), " ", cap(ss))
	for n := range ss {
		showLI(ss[n])
	}
	fmt.Print(" m=")
	if m == nil {
		fmt.Print(" 1")
	} else {
		fmt.Print(" 0")
		for _, key := range keys {
			if v, ok := m[key]; ok {
				fmt.Print(" 1")
				showS(&v)
			} else {
				fmt.Print(" 0")
			}
		}
	}
	fmt.Print(" p=")
	showP(p)
	fmt.Print(" q=")
	if q == nil {
		fmt.Print(" 0")
	} else {
		c := 2
		if q == a {
			c = 1
		}
		fmt.Print(" ", c, " ", q[0].N, " ", q[1].N, " ", q[2].N)
	}
	fmt.Print(" ai=")
	for n := 0; n < 4; n++ {
		fmt.Print(" ", ai[n])
	}
	fmt.Print(" si=")
	showLI(si)
	fmt.Print(" ij= ", i, " ", j, " ", k[1:])
	fmt.Print(" ea=")
	for n := 0; n < 3; n++ {
		showE(ea[n])
	}
	fmt.Print(" es= ", len(es), " ", cap(es))
	for n := range es {
		showE(es[n])
	}
	fmt.Print(" em=")
	if em == nil {
		fmt.Print(" 1")
	} else {
		fmt.Print(" 0")
		for _, key := range keys {
			if v, ok := em[key]; ok {
				fmt.Print(" 1")
				showE(v)
			} else {
				fmt.Print(" 0")
			}
		}
	}
	fmt.Print(" e=")
	showE(e)
	fmt.Println()
}

`

const c04MainHead = `func main() {
	var a [3]S
	var s S
	var sl []S
	var ss [][]int
	var m map[string]S
	var p *S
	var q *[3]S
	var ai [4]int
	var si []int
	var i, j int
	k := "k0"
	var ea [3]interface{}
	var es []interface{}
	var em map[string]interface{}
	var r R
	var ra [2]R
	_, _ = r, ra
	var e interface{}
`

const c04DumpCall = "dump(&a, &s, sl, ss, m, p, q, &ai, si, i, j, k, &ea, es, em, e)"

// c04Program renders a complete program.
func c04Program(fns []*c04fn, extraDecls []string, ops []*c04op) string {
	var b strings.Builder
	b.WriteString(c04Prelude)
	b.WriteString(c04DumpDecl)
	for _, d := range extraDecls {
		b.WriteString(d + "\n")
	}
	for _, f := range fns {
		b.WriteString(f.goDecl() + "\n")
	}
	b.WriteString(c04MainHead)
	for _, o := range ops {
		for _, l := range o.goLines("\t") {
			b.WriteString(l + "\n")
		}
	}
	b.WriteString("}\n")
	return b.String()
}

// ---------------------------------------------------------------- Gallina rendering

func c04CoqZ(z int64) string {
	if z < 0 {
		return fmt.Sprintf("(%d)%%Z", z)
	}
	return fmt.Sprintf("%d%%Z", z)
}

func c04ZeroCoq(t *c04ty) string {
	switch t.k {
	case c04Int, c04Key:
		return "(VInt 0%Z)"
	case c04Struct:
		return "zS"
	case c04Arr:
		var es []string
		for i := 0; i < t.n; i++ {
			es = append(es, c04ZeroCoq(t.elem))
		}
		return "(VArr [" + strings.Join(es, "; ") + "])"
	case c04Slice:
		return "nil_slice"
	}
	return "VNil"
}

func c04CoqRvs(l []*c04ex) string {
	s := "RNone"
	for i := len(l) - 1; i >= 0; i-- {
		s = "(RCons " + l[i].coqRv() + " " + s + ")"
	}
	return s
}

func c04CoqOrv(e *c04ex) string {
	if e == nil {
		return "ONone"
	}
	return "(OSome " + e.coqRv() + ")"
}

func (e *c04ex) coqLv() string {
	switch e.K {
	case "var":
		return fmt.Sprintf("(LVar %d)", e.V)
	case "idx":
		return "(LIdx " + e.A.coqLv() + " " + e.B.coqRv() + ")"
	case "sidx":
		return "(LSIdx " + e.A.coqRv() + " " + e.B.coqRv() + ")"
	case "fld":
		return fmt.Sprintf("(LFld %s %d)", e.A.coqLv(), e.V)
	case "deref":
		return "(LDeref " + e.A.coqRv() + ")"
	case "map":
		return "(LMap " + e.A.coqRv() + " " + e.B.coqRv() + ")"
	}
	panic("c04: coqLv " + e.K)
}

func (e *c04ex) coqRv() string {
	switch e.K {
	case "int":
		return "(RInt " + c04CoqZ(e.Z) + ")"
	case "nil":
		return "RNil"
	case "load":
		return "(RLoad " + e.A.coqLv() + ")"
	case "addr":
		return "(RAddr " + e.A.coqLv() + ")"
	case "struct":
		return "(RStruct " + c04CoqRvs(e.L) + ")"
	case "arr":
		return "(RArr " + c04CoqRvs(e.L) + ")"
	case "add":
		return "(RAdd " + e.A.coqRv() + " " + e.B.coqRv() + ")"
	case "len":
		return "(RLen " + e.A.coqRv() + ")"
	case "cap":
		return "(RCap " + e.A.coqRv() + ")"
	case "slice":
		return "(RSlice " + e.A.coqRv() + " " + c04CoqOrv(e.B) + " " + c04CoqOrv(e.C) + " " + c04CoqOrv(e.D) + ")"
	case "mapget":
		return "(RMapGet " + e.A.coqRv() + " " + e.B.coqRv() + " " + c04ZeroCoq(e.T) + ")"
	case "box":
		return fmt.Sprintf("(RBox %d %s)", e.V, e.A.coqRv())
	case "unbox":
		return fmt.Sprintf("(RUnbox %d %s)", e.V, e.A.coqRv())
	}
	panic("c04: coqRv " + e.K)
}

func (r *c04rhs) coq() string {
	switch r.K {
	case "pure":
		return "(EPure " + r.E.coqRv() + ")"
	case "append":
		return fmt.Sprintf("(EAppend %d %s %s %s)", c04ElemKind(r.T.elem), c04ZeroCoq(r.T.elem), r.E.coqRv(), c04CoqRvs(r.L))
	case "appendslice":
		return fmt.Sprintf("(EAppendSlice %d %s %s %s)", c04ElemKind(r.T.elem), c04ZeroCoq(r.T.elem), r.E.coqRv(), r.E2.coqRv())
	case "slicelit":
		return "(ESliceLit " + c04CoqRvs(r.L) + ")"
	case "new":
		return "(ENew " + r.E.coqRv() + ")"
	case "make":
		return "(EMake " + c04ZeroCoq(r.T.elem) + " " + r.E.coqRv() + " " + r.E2.coqRv() + ")"
	case "maplit":
		return "(EMapLit " + c04CoqRvs(r.L) + " " + c04CoqRvs(r.L2) + ")"
	}
	panic("c04: rhs coq " + r.K)
}

func c04CoqOps(ops []*c04op) string {
	var b strings.Builder
	for _, o := range ops {
		b.WriteString("(OCons " + o.coq() + " ")
	}
	b.WriteString("ONil")
	b.WriteString(strings.Repeat(")", len(ops)))
	return b.String()
}

func c04NatList(l []int) string {
	var s []string
	for _, x := range l {
		s = append(s, fmt.Sprint(x))
	}
	return "[" + strings.Join(s, "; ") + "]"
}

func (o *c04op) coq() string {
	switch o.K {
	case "assign":
		return "(OAssign " + o.Lv.coqLv() + " " + o.Rhs.coq() + ")"
	case "multi":
		var ls []string
		for _, l := range o.Lvs {
			ls = append(ls, l.coqLv())
		}
		return "(OMulti [" + strings.Join(ls, "; ") + "] " + c04CoqRvs(o.Rvs) + ")"
	case "define":
		return fmt.Sprintf("(ODefine %d %s)", o.X, o.Rhs.coq())
	case "mapdel":
		return "(OMapDel " + o.A.coqRv() + " " + o.B.coqRv() + ")"
	case "copy":
		return "(OCopy " + o.A.coqRv() + " " + o.B.coqRv() + ")"
	case "range":
		rk := map[string]string{"arr": "RkArr", "slice": "RkSlice", "ptr": "RkPtr"}[o.RK]
		return fmt.Sprintf("(ORange %d %d %s %s %s)", o.KV[0], o.KV[1], rk, o.A.coqRv(), c04CoqOps(o.Body))
	case "call":
		dst := "None"
		if o.Lv != nil {
			dst = "(Some " + o.Lv.coqLv() + ")"
		}
		return fmt.Sprintf("(OCall %s %s %s %s %s)", dst, c04NatList(o.Fn.Params), c04CoqRvs(o.Rvs), c04CoqOps(o.Fn.Body), c04CoqOrv(o.Fn.Ret))
	case "dump":
		return "ODump"
	}
	panic("c04: op coq " + o.K)
}
