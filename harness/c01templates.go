package main

import (
	"fmt"
	"strings"
)

// Region streams: one small family of programs per known finding of C01. For each program the
// generator computes what compiled Go prints and what yaegi's defective mechanism prints (a direct
// transcription of the mechanism: copy-at-top-of-body loop variables, slot aliasing of named results,
// the clause swap of switch, ...). A mismatch is attributed to the finding only if yaegi's output is
// exactly the predicted one; the loopvar-assign family is additionally rendered for the Coq model Y.

type c1Pred struct {
	Stdout string
	End    string // prefix of the canonical end ("ok", "panic:", "compile-error", ...)
}

func c1Wrap(decls, body string) string {
	return "package main\n\nimport \"fmt\"\n\n" + decls + "func main() {\n" + body + "\tfmt.Println(\"end\")\n}\n"
}

func c1RegionCases(r *rng, thorough bool) []*c1case {
	var out []*c1case
	add := func(region, src, goOut string, pred c1Pred) {
		_ = goOut
		p := pred
		out = append(out, &c1case{Stream: "region", Region: region, Src: src, Feat: map[string]int{"region-template": 1}, Size: 8, Pred: &p})
	}
	reps := 1
	if thorough {
		reps = 6
	}
	for rep := 0; rep < reps; rep++ {
		n := 2 + r.intn(3)
		j0 := 10 + r.intn(5)
		a, b := 1+r.intn(9), 1+r.intn(9)

		// loopvar-nocond: `for i := 0; ; i++` is not given per-iteration copies
		{
			src := c1Wrap("", fmt.Sprintf("\tvar fs []func() int\n\tfor i := 0; ; i++ {\n\t\tif i >= %d {\n\t\t\tbreak\n\t\t}\n\t\tfs = append(fs, func() int { return i })\n\t}\n\tfor _, f := range fs {\n\t\tfmt.Println(f())\n\t}\n", n))
			var g, y strings.Builder
			for i := 0; i < n; i++ {
				fmt.Fprintln(&g, i)
				fmt.Fprintln(&y, n)
			}
			add("loopvar-nocond", src, g.String()+"end\n", c1Pred{y.String() + "end\n", "ok"})
		}
		// loopvar-second: only the first variable of `i, j := ...` is copied per iteration
		{
			src := c1Wrap("", fmt.Sprintf("\tvar fs []func() int\n\tfor i, j := 0, %d; i < %d; i, j = i+1, j+1 {\n\t\tfs = append(fs, func() int { return i*100 + j })\n\t}\n\tfor _, f := range fs {\n\t\tfmt.Println(f())\n\t}\n", j0, n))
			var y strings.Builder
			for i := 0; i < n; i++ {
				fmt.Fprintln(&y, i*100+j0+n)
			}
			add("loopvar-second", src, "", c1Pred{y.String() + "end\n", "ok"})
		}
		// loopvar-defer: deferred literals all see the last copy
		{
			src := c1Wrap("", fmt.Sprintf("\tfunc() {\n\t\tfor i := 0; i < %d; i++ {\n\t\t\tdefer func() { fmt.Println(\"d\", i) }()\n\t\t}\n\t}()\n", n))
			var y strings.Builder
			for i := 0; i < n; i++ {
				fmt.Fprintln(&y, "d", n-1)
			}
			add("loopvar-defer", src, "", c1Pred{y.String() + "end\n", "ok"})
		}
		// loopvar-defer, variables declared in the loop body (:= in a condition-only loop, var in a range loop)
		{
			src := c1Wrap("", fmt.Sprintf("\tfunc() {\n\t\tk := 0\n\t\tfor k < %d {\n\t\t\tw := k * %d\n\t\t\tdefer func() { fmt.Println(\"d\", w) }()\n\t\t\tk++\n\t\t}\n\t}()\n", n, j0))
			var y strings.Builder
			for i := 0; i < n; i++ {
				fmt.Fprintln(&y, "d", (n-1)*j0)
			}
			add("loopvar-defer", src, "", c1Pred{y.String() + "end\n", "ok"})
		}
		{
			src := c1Wrap("", fmt.Sprintf("\tfunc() {\n\t\tfor k := range %d {\n\t\t\tvar w int\n\t\t\tw = k + %d\n\t\t\tdefer func() { fmt.Println(\"v\", w) }()\n\t\t}\n\t}()\n", n, j0))
			var y strings.Builder
			for i := 0; i < n; i++ {
				fmt.Fprintln(&y, "v", n-1+j0)
			}
			add("loopvar-defer", src, "", c1Pred{y.String() + "end\n", "ok"})
		}
		// loop-empty-body: the loop-variable node of an empty body has no successor; the function ends silently
		{
			src := c1Wrap("", fmt.Sprintf("\tfmt.Println(\"before\")\n\tfor i := 0; i < %d; i++ {\n\t}\n\tfmt.Println(\"after\")\n", n))
			add("loop-empty-body", src, "", c1Pred{"before\n", "ok"})
			src = c1Wrap("", fmt.Sprintf("\tfmt.Println(\"before\")\n\tfor range %d {\n\t}\n\tfmt.Println(\"after\")\n", n))
			add("loop-empty-body", src, "", c1Pred{"before\n", "ok"})
		}
		// land-reread: the && / || node reads its left operand again after the right operand ran
		{
			src := c1Wrap("", "\tb := true\n\tf := func() bool { b = false; return true }\n\tfmt.Println(b && f())\n\tc := false\n\tg := func() bool { c = true; return false }\n\tfmt.Println(c || g())\n")
			add("land-reread", src, "true\nfalse\nend\n", c1Pred{"false\ntrue\nend\n", "ok"})
		}
		// return-named: results are written one by one into the result slots, which are the named results
		{
			decl := fmt.Sprintf("func f() (x, y int) {\n\tx, y = %d, %d\n\treturn x + y, x\n}\n\nfunc g() (x, y int) {\n\tx, y = %d, %d\n\treturn y, x\n}\n\n", a, b, a, b)
			src := c1Wrap(decl, "\tfmt.Println(f())\n\tfmt.Println(g())\n")
			add("return-named", src, "", c1Pred{fmt.Sprintf("%d %d\n%d %d\nend\n", a+b, a+b, b, b), "ok"})
		}
		// switch-init-tag: with an init statement the tag expression is not evaluated (compared as zero)
		{
			v := 7 + r.intn(4) // v%6 in 1..4
			src := c1Wrap("", fmt.Sprintf("\tswitch v := %d; v %% 6 {\n\tcase 0:\n\t\tfmt.Println(\"zero\", v)\n\tcase %d:\n\t\tfmt.Println(\"hit\")\n\tdefault:\n\t\tfmt.Println(\"default\")\n\t}\n", v, v%6))
			add("switch-init-tag", src, "hit\nend\n", c1Pred{fmt.Sprintf("zero %d\nend\n", v), "ok"})
		}
		// switch-default-order: the default clause is swapped with the last clause, which is then tried first
		{
			src := c1Wrap("", "\ta := true\n\tswitch {\n\tdefault:\n\t\tfmt.Println(\"default\")\n\tcase a:\n\t\tfmt.Println(\"case\")\n\tcase !a || a:\n\t}\n")
			add("switch-default-order", src, "case\nend\n", c1Pred{"end\n", "ok"})
		}
		// label-in-case: labels are only pre-declared for block statements
		{
			src := c1Wrap("", "\tswitch a := 1; a {\n\tcase 1:\n\tL:\n\t\tfor i := 0; i < 2; i++ {\n\t\t\tfor j := 0; j < 2; j++ {\n\t\t\t\tfmt.Println(i, j)\n\t\t\t\tcontinue L\n\t\t\t}\n\t\t}\n\t}\n")
			add("label-in-case", src, "0 0\n1 0\nend\n", c1Pred{"", "compile-error"})
		}
		// shift-count-const: the destination type is pushed down into the shift count
		{
			src := c1Wrap("", "\ta := 1000\n\tvar b int8 = 2\n\tv := 0\n\tv = a >> ((b / (b | 1)) & 7)\n\tfmt.Println(v)\n")
			add("shift-count-const", src, "1000\nend\n", c1Pred{"", "compile-error"})
		}
		// named-result-zero: `v = f()` lets the callee's named result start with the old value of v
		{
			src := c1Wrap("func f1(p int) (r int) {\n\tr += p\n\treturn\n}\n\n", fmt.Sprintf("\tv := %d\n\tv = f1(%d)\n\tfmt.Println(v)\n", -a, b))
			add("named-result-zero", src, fmt.Sprintf("%d\nend\n", b), c1Pred{fmt.Sprintf("%d\nend\n", b-a), "ok"})
		}
		// for-init-only: `for init; ; {}` jumps back to init
		{
			src := c1Wrap("", "\tn := 0\n\tfor c := 0; ; {\n\t\tc++\n\t\tn++\n\t\tif c > 2 || n > 4 {\n\t\t\tbreak\n\t\t}\n\t\tfmt.Println(c, n)\n\t}\n")
			add("for-init-only", src, "1 1\n2 2\nend\n", c1Pred{"1 1\n1 2\n1 3\n1 4\nend\n", "ok"})
		}
		// multi-assign-call: a call among the sources turns the whole parallel assignment into a nop
		{
			src := c1Wrap("", fmt.Sprintf("\ts := \"hello\"\n\tx, y := %d, %d\n\tx, y = len(s), %d\n\tfmt.Println(x, y)\n", a, b, a+b))
			add("multi-assign-call", src, "", c1Pred{fmt.Sprintf("5 %d\nend\n", b), "ok"})
		}
		// return-builtin: a builtin call that is not the first result lands in the first result slot
		{
			src := c1Wrap("func f(s string) (int, int) {\n\treturn 7, len(s)\n}\n\nfunc g(s string) (int, int) {\n\treturn len(s) + 1, len(s)\n}\n\n", "\tfmt.Println(f(\"abc\"))\n\tfmt.Println(g(\"abc\"))\n")
			add("return-builtin", src, "7 3\n4 3\nend\n", c1Pred{"7 7\n3 3\nend\n", "ok"})
		}
		// closure-struct-lit: the composite-literal shortcut writes into the closure's own frame
		{
			src := c1Wrap("type S struct {\n\tA, B int\n}\n\n", fmt.Sprintf("\ts := S{%d, %d}\n\tfunc() {\n\t\ts = S{A: s.B, B: s.A}\n\t}()\n\tfmt.Println(s)\n", a, b))
			add("closure-struct-lit", src, "", c1Pred{fmt.Sprintf("{%d %d}\nend\n", a, b), "ok"})
		}
		// float-negzero: a negative zero passed as an argument arrives as +0
		{
			src := c1Wrap("func f(p float64) {\n\tfmt.Println(p, 1/p)\n}\n\n", "\ti := 0\n\tx := float64(i) / (-0.25)\n\tfmt.Println(x)\n\tf(x)\n")
			add("float-negzero", src, "-0\n-0 -Inf\nend\n", c1Pred{"-0\n0 +Inf\nend\n", "ok"})
		}
		// range-blank-last: rejected while the function is compiled (nil dereference inside yaegi), even if never called
		{
			src := c1Wrap("func f1() {\n\tks := make([]string, 0)\n\tfor _, k := range ks {\n\t\t_ = k\n\t\tz := 1\n\t\t_ = 10 / z\n\t}\n}\n\n", "\tfmt.Println(\"start\")\n\tf1()\n")
			add("range-blank-last", src, "start\nend\n", c1Pred{"", "panic:"})
		}
		// map-ok-miss: the value variable keeps its previous content when the key is missing
		{
			src := c1Wrap("", fmt.Sprintf("\tm := map[string]int{\"a\": 1}\n\tfor i := 0; i < 2; i++ {\n\t\tv, ok := m[\"zz\"]\n\t\tfmt.Println(v, ok)\n\t\tv = %d\n\t\t_ = v\n\t}\n", a))
			add("map-ok-miss", src, "0 false\n0 false\nend\n", c1Pred{fmt.Sprintf("0 false\n%d false\nend\n", a), "ok"})
		}
		// named-result-alias: the call writes straight into the destination, so the named result IS the global
		{
			src := c1Wrap(fmt.Sprintf("var g0 int = %d\n\nfunc f1() (r0 int) {\n\tr0 = 2\n\tg0 /= 3\n\treturn\n}\n\nfunc f3() (r0 int) {\n\tr0 = 10\n\tfmt.Println(g0)\n\treturn\n}\n\n", 30+a), "\tg0 = f1()\n\tfmt.Println(g0)\n\tg0 = f3()\n\tfmt.Println(g0)\n")
			add("named-result-alias", src, "2\n2\n10\nend\n", c1Pred{"0\n10\n10\nend\n", "ok"})
		}
		// multi-assign-iface: the temporaries of a tuple assignment cannot hold yaegi's interface wrapper
		{
			src := c1Wrap("", fmt.Sprintf("\tvar x, y interface{} = %d, \"s\"\n\tfmt.Println(\"start\")\n\tx, y = y, x\n\tfmt.Println(x, y)\n", a))
			add("multi-assign-iface", src, "", c1Pred{"start\n", "panic:"})
		}
		// paren-dst-lit: the literal is built in place of a parenthesised destination and then dropped
		{
			src := c1Wrap("type S struct {\n\tA, B int\n}\n\ntype H struct {\n\tF, G S\n}\n\n", fmt.Sprintf("\th := H{S{1, 2}, S{3, 4}}\n\t(h.F) = S{A: %d, B: %d}\n\tfmt.Println(h)\n", a, b))
			add("paren-dst-lit", src, "", c1Pred{"{{1 2} {3 4}}\nend\n", "ok"})
		}
		// variadic-lit-nil: a function literal called without variadic arguments gets an empty, non-nil slice
		{
			src := c1Wrap("", "\tf := func(v ...int) bool { return v == nil }\n\tfmt.Println(f(), f(1))\n")
			add("variadic-lit-nil", src, "true false\nend\n", c1Pred{"false false\nend\n", "ok"})
		}
		// paren-literal
		{
			src := c1Wrap("", "\tb := true\n\ts := \"hello\"\n\tfmt.Println(\"start\")\n\tif (s >= (\"q\")) || b {\n\t\tfmt.Println(\"then\")\n\t}\n")
			add("paren-literal", src, "start\nthen\nend\n", c1Pred{"start\n", "panic:"})
		}
		// land-keyed-literal
		{
			src := c1Wrap("type S0 struct {\n\tA int\n}\n\nfunc f1(p0 S0, p1 int) bool { return true }\n\n", "\tv42 := 9\n\tv67 := 9\n\tb := true\n\tfmt.Println(\"start\")\n\tif f1(S0{A: v42}, v67) && b {\n\t\tfmt.Println(\"then\")\n\t}\n")
			add("land-keyed-literal", src, "start\nthen\nend\n", c1Pred{"start\n", "panic:"})
		}
	}
	return out
}
